/-
  C06, standards side: call-frame information.

  * DWARF 5 §6.4.1 (CIE / FDE layout, versions 1, 3, 4), §7.4 (32/64-bit initial length),
    §6.4.2 + §7.24 (the DW_CFA instruction set and its operand kinds),
    §6.4.2/§6.4.3 (the table the instructions define);
  * LSB Core generic, ch. 10.6 (`.eh_frame`: CIE id 0, backwards CIE pointer relative
    to the pointer field, augmentation string `z[RLPS]*`, augmentation data,
    DW_EH_PE pointer encodings, zero terminator).

  ASTs, an assembler (`encodeSection`) and the reference table machine (`stdTable`).
  Nothing here mentions streams, `Con` or errors.  `Val` is used only as the
  vocabulary of observations (what the property says a client must see).
-/
import PyElf.Core.Val
import PyElf.Spec.Primitives
import PyElf.Model.CfiTables
namespace PyElf.Spec
open PyElf

/-! ### constant tables (DWARF 5 table 7.29; LSB table "DWARF Exception Header Encoding") -/

def cfaOps : CfaOps :=
  { advance_loc := 0x40, offset := 0x80, restore := 0xc0, nop := 0, set_loc := 1, advance_loc1 := 2,
    advance_loc2 := 3, advance_loc4 := 4, offset_extended := 5, restore_extended := 6, undefined := 7,
    same_value := 8, register := 9, remember_state := 0xa, restore_state := 0xb, def_cfa := 0xc,
    def_cfa_register := 0xd, def_cfa_offset := 0xe, def_cfa_expression := 0xf, expression := 0x10,
    offset_extended_sf := 0x11, def_cfa_sf := 0x12, def_cfa_offset_sf := 0x13, val_offset := 0x14,
    val_offset_sf := 0x15, val_expression := 0x16,
    AARCH64_negate_ra_state := 0x2d,          -- vendor range; same number as DW_CFA_GNU_window_save
    GNU_args_size := 0x2e }

def ehPE : EhPE :=
  { absptr := 0x00, uleb128 := 0x01, udata2 := 0x02, udata4 := 0x03, udata8 := 0x04, signed := 0x08,
    sleb128 := 0x09, sdata2 := 0x0a, sdata4 := 0x0b, sdata8 := 0x0c, pcrel := 0x10, textrel := 0x20,
    datarel := 0x30, funcrel := 0x40, aligned := 0x50, indirect := 0x80, omit_ := 0xff }

/-- opcode → mnemonic: high-2-bit opcodes first, then the extended ones in numeric order -/
def cfaNames : List (Nat × String) :=
  [(0x40, "DW_CFA_advance_loc"), (0x80, "DW_CFA_offset"), (0xc0, "DW_CFA_restore"), (0, "DW_CFA_nop"),
   (1, "DW_CFA_set_loc"), (2, "DW_CFA_advance_loc1"), (3, "DW_CFA_advance_loc2"), (4, "DW_CFA_advance_loc4"),
   (5, "DW_CFA_offset_extended"), (6, "DW_CFA_restore_extended"), (7, "DW_CFA_undefined"),
   (8, "DW_CFA_same_value"), (9, "DW_CFA_register"), (0xa, "DW_CFA_remember_state"),
   (0xb, "DW_CFA_restore_state"), (0xc, "DW_CFA_def_cfa"), (0xd, "DW_CFA_def_cfa_register"),
   (0xe, "DW_CFA_def_cfa_offset"), (0xf, "DW_CFA_def_cfa_expression"), (0x10, "DW_CFA_expression"),
   (0x11, "DW_CFA_offset_extended_sf"), (0x12, "DW_CFA_def_cfa_sf"), (0x13, "DW_CFA_def_cfa_offset_sf"),
   (0x14, "DW_CFA_val_offset"), (0x15, "DW_CFA_val_offset_sf"), (0x16, "DW_CFA_val_expression"),
   (0x2d, "DW_CFA_AARCH64_negate_ra_state"), (0x2e, "DW_CFA_GNU_args_size")]

/-- base pointer encodings and the field that carries each: an address, LEB128, or a fixed-width
    unsigned / signed integer -/
def ehFields : List (Nat × String) :=
  [(0x00, "Dwarf_target_addr"), (0x01, "Dwarf_uleb128"), (0x02, "Dwarf_uint16"), (0x03, "Dwarf_uint32"),
   (0x04, "Dwarf_uint64"), (0x09, "Dwarf_sleb128"), (0x0a, "Dwarf_int16"), (0x0b, "Dwarf_int32"),
   (0x0c, "Dwarf_int64")]

def cfiTables : CfiTables :=
  { ops := cfaOps, nameMap := cfaNames, pe := ehPE, peField := ehFields,
    primaryMask := 0xc0, primaryArgMask := 0x3f }

/-! ### LEB128 operands with an explicit encoded length (padding is legal, §7.6) -/

structure ULeb where
  n : Nat
  v : Nat
  deriving Repr, DecidableEq

structure SLeb where
  n : Nat
  v : Int
  deriving Repr, DecidableEq

def ULeb.wf (u : ULeb) : Bool := decide (1 ≤ u.n) && decide (u.v < 2 ^ (7 * u.n))
def SLeb.wf (s : SLeb) : Bool :=
  decide (1 ≤ s.n) && decide (-((2 ^ (7 * s.n - 1) : Nat) : Int) ≤ s.v) && decide (s.v < ((2 ^ (7 * s.n - 1) : Nat) : Int))
def ULeb.enc (u : ULeb) : Bytes := encUlebN u.n u.v
def SLeb.enc (s : SLeb) : Bytes := encSlebN s.n s.v

/-- a DW_FORM_block operand: ULEB128 length (encoded in `n` bytes) and the bytes -/
structure Block where
  n : Nat
  bytes : Bytes
  deriving Repr, DecidableEq

def Block.wf (b : Block) : Bool := decide (1 ≤ b.n) && decide (b.bytes.length < 2 ^ (7 * b.n))
def Block.enc (b : Block) : Bytes := encUlebN b.n b.bytes.length ++ b.bytes
def Block.obs (b : Block) : Val := .list (b.bytes.map fun x => .int x.toNat)

/-- minimal-length LEB128 (used for pointer values encoded as DW_EH_PE_uleb128 / sleb128) -/
def ulebMin (v : Nat) : Bytes := encUlebN (ulebLen v) v
def cfiSlebLen (v : Int) : Nat := ulebLen (2 * v.natAbs)
def cfiSlebMin (v : Int) : Bytes := encSlebN (cfiSlebLen v) v

/-! ### the instruction set (§6.4.2) -/

inductive Cfa
  | advance_loc (delta : Nat)                    -- delta in the low 6 bits
  | offset (reg : Nat) (off : ULeb)              -- register in the low 6 bits
  | restore (reg : Nat)                          -- register in the low 6 bits
  | nop
  | set_loc (addr : Nat)
  | advance_loc1 (delta : Nat)
  | advance_loc2 (delta : Nat)
  | advance_loc4 (delta : Nat)
  | offset_extended (reg off : ULeb)
  | restore_extended (reg : ULeb)
  | undefined (reg : ULeb)
  | same_value (reg : ULeb)
  | register (reg reg2 : ULeb)
  | remember_state
  | restore_state
  | def_cfa (reg off : ULeb)
  | def_cfa_register (reg : ULeb)
  | def_cfa_offset (off : ULeb)
  | def_cfa_expression (e : Block)
  | expression (reg : ULeb) (e : Block)
  | offset_extended_sf (reg : ULeb) (off : SLeb)
  | def_cfa_sf (reg : ULeb) (off : SLeb)
  | def_cfa_offset_sf (off : SLeb)
  | val_offset (reg off : ULeb)
  | val_offset_sf (reg : ULeb) (off : SLeb)
  | val_expression (reg : ULeb) (e : Block)
  | negate_ra_state                              -- 0x2d: AArch64 (GNU_window_save on SPARC)
  | gnu_args_size (size : ULeb)
  deriving Repr, DecidableEq

/-- operand ranges: `asz` = size of a target address in bytes -/
def Cfa.wf (asz : Nat) : Cfa → Bool
  | .advance_loc d => decide (d < 64)
  | .offset r o => decide (r < 64) && o.wf
  | .restore r => decide (r < 64)
  | .nop | .remember_state | .restore_state | .negate_ra_state => true
  | .set_loc a => decide (a < 256 ^ asz)
  | .advance_loc1 d => decide (d < 256 ^ 1)
  | .advance_loc2 d => decide (d < 256 ^ 2)
  | .advance_loc4 d => decide (d < 256 ^ 4)
  | .offset_extended r o | .register r o | .def_cfa r o | .val_offset r o => r.wf && o.wf
  | .restore_extended r | .undefined r | .same_value r | .def_cfa_register r | .def_cfa_offset r
  | .gnu_args_size r => r.wf
  | .def_cfa_expression e => e.wf
  | .expression r e | .val_expression r e => r.wf && e.wf
  | .offset_extended_sf r o | .def_cfa_sf r o | .val_offset_sf r o => r.wf && o.wf
  | .def_cfa_offset_sf o => o.wf

def byte (n : Nat) : Bytes := [UInt8.ofNat n]

/-- §7.24: opcode byte followed by the operands -/
def Cfa.enc (le : Bool) (asz : Nat) : Cfa → Bytes
  | .advance_loc d => byte (0x40 + d)
  | .offset r o => byte (0x80 + r) ++ o.enc
  | .restore r => byte (0xc0 + r)
  | .nop => byte 0
  | .set_loc a => byte 1 ++ encNat le asz a
  | .advance_loc1 d => byte 2 ++ encNat le 1 d
  | .advance_loc2 d => byte 3 ++ encNat le 2 d
  | .advance_loc4 d => byte 4 ++ encNat le 4 d
  | .offset_extended r o => byte 5 ++ r.enc ++ o.enc
  | .restore_extended r => byte 6 ++ r.enc
  | .undefined r => byte 7 ++ r.enc
  | .same_value r => byte 8 ++ r.enc
  | .register r o => byte 9 ++ r.enc ++ o.enc
  | .remember_state => byte 0xa
  | .restore_state => byte 0xb
  | .def_cfa r o => byte 0xc ++ r.enc ++ o.enc
  | .def_cfa_register r => byte 0xd ++ r.enc
  | .def_cfa_offset o => byte 0xe ++ o.enc
  | .def_cfa_expression e => byte 0xf ++ e.enc
  | .expression r e => byte 0x10 ++ r.enc ++ e.enc
  | .offset_extended_sf r o => byte 0x11 ++ r.enc ++ o.enc
  | .def_cfa_sf r o => byte 0x12 ++ r.enc ++ o.enc
  | .def_cfa_offset_sf o => byte 0x13 ++ o.enc
  | .val_offset r o => byte 0x14 ++ r.enc ++ o.enc
  | .val_offset_sf r o => byte 0x15 ++ r.enc ++ o.enc
  | .val_expression r e => byte 0x16 ++ r.enc ++ e.enc
  | .negate_ra_state => byte 0x2d
  | .gnu_args_size s => byte 0x2e ++ s.enc

/-- the opcode byte as it appears in the section -/
def Cfa.opcode : Cfa → Nat
  | .advance_loc d => 0x40 + d | .offset r _ => 0x80 + r | .restore r => 0xc0 + r
  | .nop => 0 | .set_loc _ => 1 | .advance_loc1 _ => 2 | .advance_loc2 _ => 3 | .advance_loc4 _ => 4
  | .offset_extended .. => 5 | .restore_extended _ => 6 | .undefined _ => 7 | .same_value _ => 8
  | .register .. => 9 | .remember_state => 0xa | .restore_state => 0xb | .def_cfa .. => 0xc
  | .def_cfa_register _ => 0xd | .def_cfa_offset _ => 0xe | .def_cfa_expression _ => 0xf
  | .expression .. => 0x10 | .offset_extended_sf .. => 0x11 | .def_cfa_sf .. => 0x12
  | .def_cfa_offset_sf _ => 0x13 | .val_offset .. => 0x14 | .val_offset_sf .. => 0x15
  | .val_expression .. => 0x16 | .negate_ra_state => 0x2d | .gnu_args_size _ => 0x2e

/-- the operands a client must see, in order (operands embedded in the opcode included) -/
def Cfa.operands : Cfa → List Val
  | .advance_loc d => [.int d]
  | .offset r o => [.int r, .int o.v]
  | .restore r => [.int r]
  | .nop | .remember_state | .restore_state | .negate_ra_state => []
  | .set_loc a => [.int a]
  | .advance_loc1 d | .advance_loc2 d | .advance_loc4 d => [.int d]
  | .offset_extended r o | .register r o | .def_cfa r o | .val_offset r o => [.int r.v, .int o.v]
  | .restore_extended r | .undefined r | .same_value r | .def_cfa_register r | .def_cfa_offset r
  | .gnu_args_size r => [.int r.v]
  | .def_cfa_expression e => [e.obs]
  | .expression r e | .val_expression r e => [.int r.v, e.obs]
  | .offset_extended_sf r o | .def_cfa_sf r o | .val_offset_sf r o => [.int r.v, .int o.v]
  | .def_cfa_offset_sf o => [.int o.v]

def encInstrs (le : Bool) (asz : Nat) (is : List Cfa) : Bytes := is.flatMap (Cfa.enc le asz)

/-! ### the table (§6.4.1: LOC, CFA, one column per register) -/

inductive RegRule
  | undefined | same_value
  | offset (n : Int) | val_offset (n : Int)
  | register (r : Nat)
  | expression (e : Bytes) | val_expression (e : Bytes)
  deriving Repr, DecidableEq

inductive CfaRule
  | unset                                  -- no CFA rule has been defined yet
  | regOff (reg : Nat) (off : Int)
  | expr (e : Bytes)
  deriving Repr, DecidableEq

/-- register columns that carry a rule, ordered by register number -/
abbrev RegMap := List (Nat × RegRule)

def RegMap.get (m : RegMap) (r : Nat) : Option RegRule :=
  match m with
  | [] => none
  | (k, v) :: rest => if k = r then some v else RegMap.get rest r

def RegMap.insert (m : RegMap) (r : Nat) (v : RegRule) : RegMap :=
  match m with
  | [] => [(r, v)]
  | (k, w) :: rest =>
    if r < k then (r, v) :: (k, w) :: rest
    else if r = k then (k, v) :: rest
    else (k, w) :: RegMap.insert rest r v

def RegMap.erase (m : RegMap) (r : Nat) : RegMap := m.filter (fun kv => kv.1 ≠ r)

structure Rules where
  cfa : CfaRule
  regs : RegMap
  deriving Repr, DecidableEq

def Rules.empty : Rules := ⟨.unset, []⟩
def Rules.isEmpty (r : Rules) : Bool := r.cfa == .unset && r.regs.isEmpty

structure Row where
  loc : Int
  rules : Rules
  deriving Repr, DecidableEq

structure TState where
  loc : Int
  rules : Rules
  rows : List Row          -- completed rows, oldest first
  stack : List Rules       -- DW_CFA_remember_state stack, top first

def setReg (s : TState) (r : Nat) (v : RegRule) : TState :=
  { s with rules := { s.rules with regs := s.rules.regs.insert r v } }

def setCfa (s : TState) (c : CfaRule) : TState := { s with rules := { s.rules with cfa := c } }

/-- one instruction (§6.4.2.1–6.4.2.5).  `caf`/`daf`: the CIE's alignment factors; `init`:
    the initial rules of the CIE (FDE programs only).  `none` = the program is not valid:
    restore outside an FDE, restore_state on an empty stack, def_cfa_register / def_cfa_offset(_sf)
    when the current CFA rule is not register+offset. -/
def tstep (caf daf : Int) (init : Option Rules) (s : TState) : Cfa → Option TState
  | .set_loc a => some { s with rows := s.rows ++ [⟨s.loc, s.rules⟩], loc := a }
  | .advance_loc d | .advance_loc1 d | .advance_loc2 d | .advance_loc4 d =>
      some { s with rows := s.rows ++ [⟨s.loc, s.rules⟩], loc := s.loc + d * caf }
  | .def_cfa r o => some (setCfa s (.regOff r.v o.v))
  | .def_cfa_sf r o => some (setCfa s (.regOff r.v (o.v * daf)))
  | .def_cfa_register r =>
      match s.rules.cfa with
      | .regOff _ o => some (setCfa s (.regOff r.v o))
      | _ => none
  | .def_cfa_offset o =>
      match s.rules.cfa with
      | .regOff r _ => some (setCfa s (.regOff r o.v))
      | _ => none
  | .def_cfa_offset_sf o =>
      match s.rules.cfa with
      | .regOff r _ => some (setCfa s (.regOff r (o.v * daf)))
      | _ => none
  | .def_cfa_expression e => some (setCfa s (.expr e.bytes))
  | .undefined r => some (setReg s r.v .undefined)
  | .same_value r => some (setReg s r.v .same_value)
  | .offset r o => some (setReg s r (.offset (o.v * daf)))
  | .offset_extended r o => some (setReg s r.v (.offset (o.v * daf)))
  | .offset_extended_sf r o => some (setReg s r.v (.offset (o.v * daf)))
  | .val_offset r o => some (setReg s r.v (.val_offset (o.v * daf)))
  | .val_offset_sf r o => some (setReg s r.v (.val_offset (o.v * daf)))
  | .register r o => some (setReg s r.v (.register o.v))
  | .expression r e => some (setReg s r.v (.expression e.bytes))
  | .val_expression r e => some (setReg s r.v (.val_expression e.bytes))
  | .restore r => restoreReg r
  | .restore_extended r => restoreReg r.v
  | .remember_state => some { s with stack := s.rules :: s.stack }
  | .restore_state =>
      match s.stack with
      | top :: rest => some { s with rules := top, stack := rest }
      | [] => none
  | .nop | .negate_ra_state | .gnu_args_size _ => some s
where
  restoreReg (r : Nat) : Option TState :=
    match init with
    | none => none
    | some ini =>
      match ini.regs.get r with
      | some v => some (setReg s r v)
      | none => some { s with rules := { s.rules with regs := s.rules.regs.erase r } }

def trun (caf daf : Int) (init : Option Rules) : TState → List Cfa → Option TState
  | s, [] => some s
  | s, i :: is =>
    match tstep caf daf init s i with
    | some s' => trun caf daf init s' is
    | none => none

/-- the rows of a finished run: the current row is listed when it carries any rule -/
def TState.table (s : TState) : List Row :=
  if s.rules.isEmpty then s.rows else s.rows ++ [⟨s.loc, s.rules⟩]

def advances : Cfa → Bool
  | .set_loc _ | .advance_loc _ | .advance_loc1 _ | .advance_loc2 _ | .advance_loc4 _ => true
  | _ => false

/-- the rules a CIE's initial instructions establish (they may not advance the location) -/
def initRules (caf daf : Int) (cieInstrs : List Cfa) : Option Rules :=
  if cieInstrs.any advances then none
  else (trun caf daf none ⟨0, Rules.empty, [], []⟩ cieInstrs).map (·.rules)

/-- the table of a CIE's own instruction sequence, read from location 0 with no rules -/
def stdTableCie (caf daf : Int) (instrs : List Cfa) : Option (List Row) :=
  (trun caf daf none ⟨0, Rules.empty, [], []⟩ instrs).map TState.table

/-- the table of an FDE: the CIE's initial rules at `initial_location`, then the FDE's program -/
def stdTableFde (caf daf : Int) (cieInstrs : List Cfa) (loc : Int) (instrs : List Cfa) : Option (List Row) :=
  match initRules caf daf cieInstrs with
  | none => none
  | some ini => (trun caf daf (some ini) ⟨loc, ini, [], []⟩ instrs).map TState.table

/-! ### register columns in order of first appearance

  Not part of DWARF: pyelftools' `DecodedCallFrameTable.reg_order` lists the registers that have a column, in the
  order in which the instruction sequence (for an FDE: the CIE's initial instructions, then the FDE's) first
  mentions them in a register-rule instruction (`DW_CFA_restore*` included). -/

/-- the register whose rule the instruction sets or restores -/
def Cfa.ruleReg : Cfa → Option Nat
  | .offset r _ | .restore r => some r
  | .offset_extended r _ | .restore_extended r | .undefined r | .same_value r | .register r _ | .expression r _
  | .offset_extended_sf r _ | .val_offset r _ | .val_offset_sf r _ | .val_expression r _ => some r.v
  | _ => none

/-- keep the first occurrence of every element -/
def firstOccurrences : List Nat → List Nat
  | [] => []
  | r :: rs => r :: (firstOccurrences rs).filter (· ≠ r)

/-- registers with a rule instruction, in order of first appearance -/
def regOrder (is : List Cfa) : List Nat := firstOccurrences (is.filterMap Cfa.ruleReg)

/-! ### observations of rules (the library's `CFARule(reg, offset, expr)`, `RegisterRule(type, arg)`) -/

def bytesObs (e : Bytes) : Val := .list (e.map fun x => .int x.toNat)

def CfaRule.obs : CfaRule → Val
  | .unset => .list [.none, .int 0, .none]
  | .regOff r o => .list [.int r, .int o, .none]
  | .expr e => .list [.none, .none, bytesObs e]

def RegRule.obs : RegRule → Val
  | .undefined => .list [.str "UNDEFINED", .none]
  | .same_value => .list [.str "SAME_VALUE", .none]
  | .offset n => .list [.str "OFFSET", .int n]
  | .val_offset n => .list [.str "VAL_OFFSET", .int n]
  | .register r => .list [.str "REGISTER", .int r]
  | .expression e => .list [.str "EXPRESSION", bytesObs e]
  | .val_expression e => .list [.str "VAL_EXPRESSION", bytesObs e]

def Row.obs (r : Row) : Val :=
  .record [("pc", .int r.loc), ("cfa", r.rules.cfa.obs),
           ("regs", .list (r.rules.regs.map fun (k, v) => .list [.int k, v.obs]))]

def tableObs : Option (List Row) → Val
  | none => .none
  | some rows => .list (rows.map Row.obs)

/-! ### entries and sections -/

inductive AugItem
  | R (enc : Nat)                 -- FDE pointer encoding
  | L (enc : Nat)                 -- LSDA pointer encoding
  | P (enc : Nat) (fn : Int)      -- personality routine: encoding, encoded value
  | S                             -- signal frame
  deriving Repr, DecidableEq

structure Cie where
  fmt64 : Bool
  version : Nat
  /-- `.eh_frame` only: `none` = empty augmentation string, `some items` = "z" followed by the items' letters -/
  aug : Option (List AugItem)
  augLenN : Nat                   -- encoded length of the augmentation-data length
  addrSize : Nat                  -- version 4 only
  segSize : Nat                   -- version 4 only
  caf : ULeb
  daf : SLeb
  ra : ULeb                       -- version 1: one byte (`n` ignored)
  instrs : List Cfa
  deriving Repr, DecidableEq

structure Fde where
  fmt64 : Bool
  cie : Nat                       -- index, in the section's entry list, of its CIE
  loc : Int                       -- initial location as encoded (before any pc-relative adjustment)
  range : Int                     -- address range as encoded
  lsda : Int                      -- LSDA pointer as encoded (used when the CIE has an 'L' item ≠ omit)
  augLenN : Nat
  instrs : List Cfa
  deriving Repr, DecidableEq

inductive Entry
  | cie (c : Cie)
  | fde (f : Fde)
  | zero                          -- `.eh_frame` terminator: a zero length word
  deriving Repr, DecidableEq

structure Section where
  eh : Bool                       -- `.eh_frame` (true) or `.debug_frame`
  le : Bool
  asz : Nat                       -- target address size, 4 or 8
  address : Nat                   -- virtual address of the section
  entries : List Entry
  deriving Repr

/-- the bytes a value occupies under a base pointer encoding -/
def encPtr (le : Bool) (asz : Nat) (base : Nat) (v : Int) : Bytes :=
  match base with
  | 0x00 => encNat le asz v.toNat
  | 0x01 => ulebMin v.toNat
  | 0x02 => encNat le 2 v.toNat
  | 0x03 => encNat le 4 v.toNat
  | 0x04 => encNat le 8 v.toNat
  | 0x09 => cfiSlebMin v
  | 0x0a => encNat le 2 (ofSigned 16 v)
  | 0x0b => encNat le 4 (ofSigned 32 v)
  | 0x0c => encNat le 8 (ofSigned 64 v)
  | _ => []

def ptrFits (asz : Nat) (base : Nat) (v : Int) : Bool :=
  match base with
  | 0x00 => decide (0 ≤ v) && decide (v < ((256 ^ asz : Nat) : Int))
  | 0x01 => decide (0 ≤ v)
  | 0x02 => decide (0 ≤ v) && decide (v < 2 ^ 16)
  | 0x03 => decide (0 ≤ v) && decide (v < 2 ^ 32)
  | 0x04 => decide (0 ≤ v) && decide (v < 2 ^ 64)
  | 0x09 => true
  | 0x0a => decide (-(2 ^ 15) ≤ v) && decide (v < 2 ^ 15)
  | 0x0b => decide (-(2 ^ 31) ≤ v) && decide (v < 2 ^ 31)
  | 0x0c => decide (-(2 ^ 63) ≤ v) && decide (v < 2 ^ 63)
  | _ => false

def baseOk (enc : Nat) : Bool := [0x00, 0x01, 0x02, 0x03, 0x04, 0x09, 0x0a, 0x0b, 0x0c].contains (enc % 16)

def AugItem.letter : AugItem → UInt8
  | .R _ => 0x52 | .L _ => 0x4c | .P .. => 0x50 | .S => 0x53

def AugItem.data (le : Bool) (asz : Nat) : AugItem → Bytes
  | .R e => byte e
  | .L e => byte e
  | .P e fn => byte e ++ encPtr le asz (e % 16) fn
  | .S => []

def augString : Option (List AugItem) → Bytes
  | none => []
  | some items => 0x7a :: items.map AugItem.letter

def augData (le : Bool) (asz : Nat) (items : List AugItem) : Bytes := items.flatMap (AugItem.data le asz)

def fdeEncOf : List AugItem → Nat
  | [] => 0x00
  | .R e :: _ => e
  | _ :: rest => fdeEncOf rest

def lsdaEncOf : List AugItem → Nat
  | [] => 0xff
  | .L e :: _ => e
  | _ :: rest => lsdaEncOf rest

def Cie.fdeEnc (c : Cie) : Nat := fdeEncOf (c.aug.getD [])
def Cie.lsdaEnc (c : Cie) : Nat := lsdaEncOf (c.aug.getD [])

def offSize (fmt64 : Bool) : Nat := if fmt64 then 8 else 4
def ilfs (fmt64 : Bool) : Nat := if fmt64 then 12 else 4

def encLength (le : Bool) (fmt64 : Bool) (len : Nat) : Bytes :=
  if fmt64 then encNat le 4 0xffffffff ++ encNat le 8 len else encNat le 4 len

/-- CIE contents after the length field (§6.4.1; LSB 10.6.1.1.1) -/
def Cie.body (sec : Section) (c : Cie) : Bytes :=
  (if sec.eh then encNat sec.le (offSize c.fmt64) 0 else encNat sec.le (offSize c.fmt64) (256 ^ offSize c.fmt64 - 1))
  ++ byte c.version ++ augString c.aug ++ [0]
  ++ (if c.version ≥ 4 then byte c.addrSize ++ byte c.segSize else [])
  ++ c.caf.enc ++ c.daf.enc
  ++ (if c.version = 1 then byte c.ra.v else c.ra.enc)
  ++ (match c.aug with
      | some items => if sec.eh then encUlebN c.augLenN (augData sec.le sec.asz items).length ++ augData sec.le sec.asz items else []
      | none => [])
  ++ encInstrs sec.le sec.asz c.instrs

def Section.cieAt (sec : Section) (i : Nat) : Option Cie :=
  match sec.entries[i]? with
  | some (.cie c) => some c
  | _ => none

def Fde.augPart (sec : Section) (f : Fde) (c : Cie) : Bytes :=
  if sec.eh then
    match c.aug with
    | some _ =>
      let d := if c.lsdaEnc = 0xff then [] else encPtr sec.le sec.asz (c.lsdaEnc % 16) f.lsda
      encUlebN f.augLenN d.length ++ d
    | none => []
  else []

/-- FDE contents after the CIE pointer -/
def Fde.tail (sec : Section) (f : Fde) (c : Cie) : Bytes :=
  (if sec.eh then encPtr sec.le sec.asz (c.fdeEnc % 16) f.loc ++ encPtr sec.le sec.asz (c.fdeEnc % 16) f.range
   else encNat sec.le sec.asz f.loc.toNat ++ encNat sec.le sec.asz f.range.toNat)
  ++ f.augPart sec c ++ encInstrs sec.le sec.asz f.instrs

def Entry.size (sec : Section) : Entry → Nat
  | .cie c => ilfs c.fmt64 + (c.body sec).length
  | .fde f =>
    match sec.cieAt f.cie with
    | some c => ilfs f.fmt64 + offSize f.fmt64 + (f.tail sec c).length
    | none => 0
  | .zero => 4

/-- section offset of entry `i` -/
def Section.offsetOf (sec : Section) (i : Nat) : Nat := ((sec.entries.take i).map (Entry.size sec)).sum

/-- the CIE pointer field: `.debug_frame`: the CIE's section offset; `.eh_frame`: the distance back
    from the pointer field to the CIE -/
def Section.ciePointer (sec : Section) (fdeOff : Nat) (f : Fde) : Nat :=
  if sec.eh then fdeOff + ilfs f.fmt64 - sec.offsetOf f.cie else sec.offsetOf f.cie

def Entry.enc (sec : Section) (off : Nat) : Entry → Bytes
  | .cie c => encLength sec.le c.fmt64 (c.body sec).length ++ c.body sec
  | .fde f =>
    match sec.cieAt f.cie with
    | some c =>
      encLength sec.le f.fmt64 (offSize f.fmt64 + (f.tail sec c).length)
        ++ encNat sec.le (offSize f.fmt64) (sec.ciePointer off f) ++ f.tail sec c
    | none => []
  | .zero => [0, 0, 0, 0]

def encFrom (sec : Section) : Nat → List Entry → Bytes
  | _, [] => []
  | off, e :: es => e.enc sec off ++ encFrom sec (off + e.size sec) es

def encodeSection (sec : Section) : Bytes := encFrom sec 0 sec.entries

/-! ### well-formedness: the domain of the property -/

def encOk (e : Nat) : Bool := baseOk e && (e / 16 == 0 || e / 16 == 1)

def AugItem.wf (asz : Nat) : AugItem → Bool
  | .R e => encOk e && decide (e < 256)
  | .L e => (encOk e || e == 0xff) && decide (e < 256)
  | .P e fn => baseOk e && [0x0, 0x1, 0x8, 0x9].contains (e / 16) && decide (e < 256) && ptrFits asz (e % 16) fn
  | .S => true

/-- set_loc takes a plain target address: in `.eh_frame` only under an absolute-address FDE encoding -/
def setLocOk (eh : Bool) (fdeEnc : Nat) (is : List Cfa) : Bool :=
  !eh || fdeEnc == 0 || is.all (fun i => match i with | .set_loc _ => false | _ => true)

def lenOk (fmt64 : Bool) (len : Nat) : Bool := if fmt64 then decide (len < 2 ^ 64) else decide (len < 0xFFFFFF00)

def Cie.wf (sec : Section) (c : Cie) : Bool :=
  (if sec.eh then !c.fmt64 && (c.version == 1 || c.version == 3)
   else (c.version == 1 || c.version == 3 || c.version == 4) && c.aug.isNone)
  && (c.version < 4 || (c.addrSize == sec.asz && c.segSize == 0))
  && c.caf.wf && c.daf.wf && (if c.version = 1 then decide (c.ra.v < 256) else c.ra.wf)
  && (match c.aug with
      | none => true
      | some items => (items.map AugItem.letter).Nodup && items.all (AugItem.wf sec.asz)
                      && decide (1 ≤ c.augLenN) && decide ((augData sec.le sec.asz items).length < 2 ^ (7 * c.augLenN)))
  && c.instrs.all (Cfa.wf sec.asz) && setLocOk sec.eh c.fdeEnc c.instrs
  && lenOk c.fmt64 (c.body sec).length

def Fde.wf (sec : Section) (off : Nat) (f : Fde) : Bool :=
  match sec.cieAt f.cie with
  | none => false
  | some c =>
    (if sec.eh then !f.fmt64 && decide (sec.offsetOf f.cie < off)        -- the CIE pointer is an unsigned distance backwards
       && ptrFits sec.asz (c.fdeEnc % 16) f.loc && ptrFits sec.asz (c.fdeEnc % 16) f.range
       && (c.lsdaEnc == 0xff || ptrFits sec.asz (c.lsdaEnc % 16) f.lsda)
       && decide (1 ≤ f.augLenN)
       -- the CIE pointer fits its field (LSB 10.6.1.1.2: a 4-byte unsigned value)
       && decide (sec.ciePointer off f < 256 ^ offSize f.fmt64)
       -- the augmentation data length fits the `augLenN` LEB128 bytes that carry it (as `Cie.wf` demands of the CIE)
       && decide ((if c.lsdaEnc = 0xff then [] else encPtr sec.le sec.asz (c.lsdaEnc % 16) f.lsda).length
                    < 2 ^ (7 * f.augLenN))
     else ptrFits sec.asz 0 f.loc && ptrFits sec.asz 0 f.range
       -- `.debug_frame`: an all-ones pointer is the CIE id
       && decide (sec.offsetOf f.cie < 256 ^ offSize f.fmt64 - 1))
    && f.instrs.all (Cfa.wf sec.asz) && setLocOk sec.eh c.fdeEnc f.instrs
    && lenOk f.fmt64 (offSize f.fmt64 + (f.tail sec c).length)

def wfFrom (sec : Section) : Nat → List Entry → Bool
  | _, [] => true
  | off, e :: es =>
    (match e with
     | .cie c => c.wf sec
     | .fde f => f.wf sec off
     | .zero => sec.eh)
    && wfFrom sec (off + e.size sec) es

def Section.wf (sec : Section) : Bool :=
  (sec.asz == 4 || sec.asz == 8) && wfFrom sec 0 sec.entries

/-! ### what must be observed -/

def instrObs (i : Cfa) : Val := .list [.int i.opcode, .list i.operands]

def AugItem.dictEntries : AugItem → Fields
  | .R e => [("FDE_encoding", .int e)]
  | .L e => [("LSDA_encoding", .int e)]
  | .P e fn => [("personality", .record [("encoding", .int e), ("function", .int fn)])]
  | .S => []

/-- the augmentation data as a dictionary: signal-frame marker first (key `True`), then the
    length and the fields in string order -/
def augDictObs (le : Bool) (asz : Nat) : Option (List AugItem) → Fields
  | none => []
  | some items =>
    (if items.contains .S then [("True", .bool true)] else [])
      ++ [("length", .int (augData le asz items).length)] ++ items.flatMap AugItem.dictEntries

def Cie.headerObs (sec : Section) (c : Cie) : Val :=
  .record [("length", .int (c.body sec).length),
           ("CIE_id", .int (if sec.eh then 0 else (256 ^ offSize c.fmt64 - 1 : Nat))),
           ("version", .int c.version), ("augmentation", .bytes (augString c.aug)),
           ("address_size", if c.version ≥ 4 then .int c.addrSize else .none),
           ("segment_size", if c.version ≥ 4 then .int c.segSize else .none),
           ("code_alignment_factor", .int c.caf.v), ("data_alignment_factor", .int c.daf.v),
           ("return_address_register", .int c.ra.v)]

def pcrelAdj (sec : Section) (enc : Nat) (fieldOff : Nat) : Int :=
  if enc / 16 % 8 = 1 then (sec.address : Int) + fieldOff else 0

def Entry.obs (sec : Section) (off : Nat) : Entry → Val
  | .cie c =>
    .record [("kind", .str "CIE"), ("offset", .int off), ("header", c.headerObs sec),
             ("aug_bytes", .bytes (match c.aug with
                                   | some items => if sec.eh then augData sec.le sec.asz items else []
                                   | none => [])),
             ("aug_dict", .record (augDictObs sec.le sec.asz c.aug)),
             ("instructions", .list (c.instrs.map instrObs)),
             ("table", tableObs (stdTableCie c.caf.v c.daf.v c.instrs))]
  | .fde f =>
    match sec.cieAt f.cie with
    | none => .none
    | some c =>
      let locOff := off + ilfs f.fmt64 + offSize f.fmt64
      let fenc := if sec.eh then c.fdeEnc else 0
      let loc := f.loc + pcrelAdj sec fenc locOff
      let augp := f.augPart sec c
      let lsdaOff := locOff + (encPtr sec.le sec.asz (fenc % 16) f.loc).length
                      + (encPtr sec.le sec.asz (fenc % 16) f.range).length
                      + (if sec.eh ∧ c.aug.isSome then f.augLenN else 0)
      .record [("kind", .str "FDE"), ("offset", .int off),
               ("header", .record [("length", .int (offSize f.fmt64 + (f.tail sec c).length)),
                                   ("CIE_pointer", .int (sec.ciePointer off f)),
                                   ("initial_location", .int loc), ("address_range", .int f.range)]),
               ("cie", .int (sec.offsetOf f.cie)),
               ("aug_bytes", .bytes (augp.drop (if sec.eh ∧ c.aug.isSome then f.augLenN else 0))),
               ("lsda_pointer", if sec.eh ∧ c.lsdaEnc ≠ 0xff then .int (f.lsda + pcrelAdj sec c.lsdaEnc lsdaOff) else .none),
               ("instructions", .list (f.instrs.map instrObs)),
               ("table", tableObs (stdTableFde c.caf.v c.daf.v c.instrs loc f.instrs))]
  | .zero => .record [("kind", .str "ZERO"), ("offset", .int off)]

def obsFrom (sec : Section) : Nat → List Entry → List Val
  | _, [] => []
  | off, e :: es => e.obs sec off :: obsFrom sec (off + e.size sec) es

/-- entries in section order -/
def observeSection (sec : Section) : Val := .list (obsFrom sec 0 sec.entries)

end PyElf.Spec
