/-
  C02, standards side, whole files: what an abstract ELF description (Spec/ElfImage.lean) says the
  contents of its sections and segments are.  `secOf` / `segOf` read the numeric header fields the
  property speaks about off a description's raw headers; the `Stores…` predicates say how a
  description stores a section's contents (gABI ch. 4 "Sections", "Section Compression").
  Nothing here mentions streams, parsing or errors.
-/
import PyElf.Spec.Contents
import PyElf.Spec.ElfImage
namespace PyElf.Spec.C02
open PyElf PyElf.Spec

/-- the numeric section header a described section carries -/
def secOf (s : SecDesc) : Sec :=
  { shType := getNatD s.hdr "sh_type", flags := getNatD s.hdr "sh_flags", addr := getNatD s.hdr "sh_addr",
    offset := getNatD s.hdr "sh_offset", size := getNatD s.hdr "sh_size", addralign := getNatD s.hdr "sh_addralign" }

/-- the numeric program header a described segment carries -/
def segOf (p : Fields) : Seg :=
  { ptype := getNatD p "p_type", offset := getNatD p "p_offset", vaddr := getNatD p "p_vaddr",
    filesz := getNatD p "p_filesz", memsz := getNatD p "p_memsz" }

/-- a section that is neither SHT_NOBITS nor flagged compressed stores `b` as its contents:
    the description's body holds at least `sh_size` bytes and `b` is the first `sh_size` of them
    (the whole body when `sh_size` is the body's length) -/
def StoresPlain (s : SecDesc) (b : Bytes) : Prop :=
  (secOf s).nobits = false ∧ (secOf s).compressed = false ∧
  (secOf s).size ≤ (bodyOf s).length ∧ b = (bodyOf s).take (secOf s).size

/-- a section flagged SHF_COMPRESSED stores the stream `z` under the compression header `ch`:
    the body is the class's encoding of `ch` followed by `z`, and `sh_size` is its length -/
def StoresCompressed (cls : Nat) (le : Bool) (s : SecDesc) (ch : Chdr) (z : Bytes) : Prop :=
  (secOf s).nobits = false ∧ (secOf s).compressed = true ∧ ch.fits cls = true ∧
  s.body = some (encChdr cls le ch ++ z) ∧ (secOf s).size = (encChdr cls le ch ++ z).length

/-- what the contents of a compressed section are: the inflated stream, provided the compression
    type is ELFCOMPRESS_ZLIB and the inflated length is the declared `ch_size`; otherwise the
    section must be rejected -/
def inflatedOf (inflate : Bytes → Option Bytes) (ch : Chdr) (z : Bytes) : Option Bytes :=
  if ch.chType = ELFCOMPRESS_ZLIB then
    match inflate z with
    | some p => if p.length = ch.chSize then some p else none
    | none => none
  else none

/-- the string table a described section holds: the first `sh_size` bytes of its body -/
def tableOf (s : SecDesc) : Bytes := (bodyOf s).take (secOf s).size

/-- the file extent a described segment designates lies inside one section body of the description:
    `g`'s `[p_offset, p_offset + p_filesz)` is `[sh_offset + k, sh_offset + k + p_filesz)` of `s` -/
def SegInBody (g : Seg) (s : SecDesc) (k : Nat) : Prop :=
  g.offset = (secOf s).offset + k ∧ k + g.filesz ≤ (bodyOf s).length

/-- the bytes of that extent, from the description -/
def segBytes (g : Seg) (s : SecDesc) (k : Nat) : Bytes := ((bodyOf s).drop k).take g.filesz

end PyElf.Spec.C02
