/-
  Malformed build-attributes sections the C20 theorems speak about (standards side: which sections,
  as abstract trees, are malformed in a given way; what a reader does with them is the theorem).

  * unknown tag: the first thing wrong with the section, in document order, is an attribute whose
    (well-formed ULEB128) tag number is not in the architecture's public tag table.  Everything before
    it is well formed; nothing is asked of what follows (the length fields still describe the
    encoding, whatever it contains).
-/
import PyElf.Spec.Attributes
namespace PyElf.Spec.C20
open PyElf PyElf.Spec PyElf.Spec.Attr

/-- a well-formed prefix, then an attribute with a well-formed but unknown tag -/
def attrsUnknownTag (a : Arch) : List Attribute → Bool
  | [] => false
  | x :: xs => if attrWf a x then attrsUnknownTag a xs else x.tag.wf && (tagName a x.tag.v).isNone

/-- the header of a sub-subsection (scope tag, size field, section / symbol numbers) is well formed;
    nothing is asked of its attributes -/
def subSubHdrWf (a : Arch) (s : SubSub) : Bool :=
  s.tag.wf && (s.tag.v == 1 || s.tag.v == 2 || s.tag.v == 3) && (tagName a s.tag.v).isSome
    && (if s.tag.v = 1 then s.nums.isEmpty else s.nums.all fun u => u.wf && u.v != 0)
    && decide (s.size < 2 ^ 32)

def subsUnknownTag (a : Arch) : List SubSub → Bool
  | [] => false
  | s :: ss => if subSubWf a s then subsUnknownTag a ss else subSubHdrWf a s && attrsUnknownTag a s.attrs

def sectionUnknownTag (a : Arch) (le : Bool) : List SubSection → Bool
  | [] => false
  | s :: ss =>
    if subSectionWf a le s then sectionUnknownTag a le ss
    else strWf s.vendor && decide (s.length le < 2 ^ 32) && subsUnknownTag a s.subs

end PyElf.Spec.C20
