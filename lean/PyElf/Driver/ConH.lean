import PyElf.Driver.Json
import PyElf.Core.Bundles
import PyElf.Gen.Tables
import PyElf.Gen.Structs
import PyElf.Gen.Pure
import PyElf.Spec.DwarfStructs
import PyElf.Model.Env
open Lean
namespace PyElf

open PyElf.Model in
def handleCon (req : Json) : Except String Json := do
  -- {"k":"con","bundle":"elf"|"dwarf"|"ehabi","cfg":[...],"name":..., "hex":..., "pos":n}
  let kind ← jStr req "bundle"
  let cfg ← jArr req "cfg"
  let name ← jStr req "name"
  let data ← jHex req "hex"
  let pos ← jNat req "pos"
  let useSpec := (jBool req "spec").toOption.getD false
  let (con, forms) : Option Con × (String → Option Con) ←
    match kind, cfg with
    | "elf", [Json.bool le, cls, Json.str mc, Json.bool sol, Json.bool core] => do
        let cls ← jNatOf cls
        if useSpec then
          let b := Spec.elfStructs ⟨le, cls, mc, sol, core⟩
          pure (b.get name, fun _ => none)
        else
        match Gen.elfBundles.find? (·.1 == (⟨le, cls, mc, sol, core⟩ : ElfCfg)) with
        | some (_, b) => pure (b.get name, fun _ => none)
        | none => throw "no such elf bundle"
    | "dwarf", [Json.bool le, fmt, asz, ver] => do
        let fmt ← jNatOf fmt; let asz ← jNatOf asz; let ver ← jNatOf ver
        if useSpec then
          let b := Spec.dwarfStructs ⟨le, fmt, asz, ver⟩
          pure (b.get name, b.form)
        else
        match Gen.dwarfBundles.find? (·.1 == (⟨le, fmt, asz, ver⟩ : DwarfCfg)) with
        | some (_, b) => pure (b.get name, b.form)
        | none => throw "no such dwarf bundle"
    | "ehabi", [Json.bool le] =>
        if useSpec then pure ((Spec.ehabiStructs le).get name, fun _ => none) else
        match Gen.ehabiBundles.find? (·.1 == le) with
        | some (_, b) => pure (b.get name, fun _ => none)
        | none => throw "no such ehabi bundle"
    | _, _ => throw "bad cfg"
  let some c := con | throw s!"no struct {name}"
  let env : Env := { enumDecode := Model.genEnumDecode, forms := forms }
  let r := structParse env c data pos
  return Json.mkObj [("model", resJson (fun (v, p) => Json.mkObj [("v", v.toJson), ("pos", jN p)]) r)]

end PyElf
