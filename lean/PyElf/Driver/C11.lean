import PyElf.Driver.Json
import PyElf.Spec.Container
import PyElf.Model.DwarfView
import PyElf.Model.Env
import PyElf.Gen.Extra_C11
open Lean
namespace PyElf.Driver.C11
open PyElf PyElf.Model PyElf.Model.C11

def vResJson {α} (f : α → Json) : V α → Json
  | .ok v => Json.mkObj [("ok", f v)]
  | .error e => Json.mkObj [("err", Json.str e.name)]

def bj (b : Bytes) : Json := Json.mkObj [("b", Json.str b.toHex)]

def descrJson : Option Descr → Json
  | none => Json.null
  | some d => Json.mkObj [("stream", bj d.stream), ("name", bj d.name), ("global_offset", jN d.globalOffset),
                          ("size", jN d.size), ("address", jN d.address)]

partial def infoJson : DwarfInfo → Json
  | .mk le a arch ds sup =>
    Json.mkObj [("le", Json.bool le), ("addr_size", jN a), ("arch", Json.str arch),
      ("secs", Json.arr (ds.map fun (k, d) => Json.arr #[Json.str k, descrJson d]).toArray),
      ("sup", match sup with | none => Json.null | some s => infoJson s)]

/-- the bytes an oracle miss is answered with: never equal to anything the library produces, so a
    table the harness forgot to fill shows up as a correspondence failure, not as agreement -/
def oracleMiss : Bytes := "ORACLE-MISS".toUTF8.toList

/-- the externals as tables sent with the request -/
def extOf (zl : List (Bytes × Nat × Option Bytes)) (crcs : List (Bytes × Nat)) : Ext :=
  { decompress := fun d k =>
      match zl.find? (fun e => e.2.1 == k && e.1 == d) with
      | some e => e.2.2
      | none => some oracleMiss,
    crc32 := fun d =>
      match crcs.find? (fun e => e.1 == d) with
      | some e => e.2
      | none => 0xffffffffff }

def genParams (X : Ext) : Params :=
  { env := elfEnv, structsFor := elfStructsFor, machineClassOf := machineClassOf,
    machineArchOf := Reloc.machineArchOf, dwarfStructsFor := dwarfStructsFor,
    names := Gen.c11SectionNames, X := X }

def optLink : Option (Bytes × Nat) → Json
  | none => Json.null
  | some (f, c) => Json.mkObj [("filename", bj f), ("checksum", jN c)]

def handle (req : Json) : Except String Json := do
  let k ← jStr req "k"
  match k with
  | "wrap" =>
    -- Spec encoders of the container formats
    let what ← jStr req "what"
    match what with
    | "gabi" =>
      let b := Spec.C11.gabiBody (← jNat req "cls") (← jBool req "le") (← jNat req "size") (← jNat req "align") (← jHex req "deflated")
      return Json.mkObj [("bytes", jHexOf b)]
    | "zdebug" =>
      return Json.mkObj [("bytes", jHexOf (Spec.C11.zdebugBody (← jNat req "size") (← jHex req "deflated"))),
                         ("name", jHexOf (Spec.C11.zdebugName (← jHex req "name")))]
    | "debuglink" =>
      return Json.mkObj [("bytes", jHexOf (Spec.C11.encDebuglink (← jBool req "le") (← jHex req "filename") (← jNat req "crc")))]
    | "debugsup" =>
      return Json.mkObj [("bytes", jHexOf (Spec.C11.encDebugSup (← jBool req "le") (← jNat req "version")
        (← jNat req "is_sup") (← jHex req "filename") (← jHex req "checksum")))]
    | "altlink" =>
      return Json.mkObj [("bytes", jHexOf (Spec.C11.encAltlink (← jHex req "filename") (← jHex req "buildid")))]
    | _ => throw s!"C11 wrap: unknown {what}"
  | "view" =>
    let data ← jHex req "hex"
    let files ← (← jArr req "files").mapM fun j => do
      match j with
      | .arr #[.str n, .str c, crc] =>
        match Bytes.ofHex n, Bytes.ofHex c with
        | some n, some c => return (n, c, ← jNatOf crc)
        | _, _ => throw "bad file hex"
      | _ => throw "bad file entry"
    let zl ← (← jArr req "zlib").mapM fun j => do
      match j with
      | .arr #[.str d, kk, out] =>
        let some d := Bytes.ofHex d | throw "bad zlib hex"
        let o ← match out with
          | .null => pure none
          | .str h => match Bytes.ofHex h with
              | some b => pure (some b)
              | none => throw "bad zlib out hex"
          | _ => throw "bad zlib out"
        return (d, ← jNatOf kk, o)
      | _ => throw "bad zlib entry"
    let mainCrc := (jNat req "crc").toOption.getD 0
    let X := extOf zl ((data, mainCrc) :: files.map fun (_, c, crc) => (c, crc))
    let P := genParams X
    let hasLoader ← jBool req "has_loader"
    let loader : Option Loader :=
      if hasLoader then some fun n => (files.find? (·.1 == n)).map (·.2.1) else none
    let relocate ← jBool req "relocate"
    let follow ← jBool req "follow"
    let fuel := (jNat req "fuel").toOption.getD 8
    let r := getDwarfInfo P fuel loader data relocate follow
    let ld := load P data
    let has (strict : Bool) : Json := resJson (fun (p : ElfFile × List Sec) => Json.bool (hasDwarfInfo p.2 strict)) ld
    let link : R (Option (Bytes × Nat)) := do
      let (f, secs) ← ld
      getDwarfLink P.env f.S f.data secs
    return Json.mkObj [("model", vResJson infoJson r), ("has", has false), ("has_strict", has true),
      ("has_link", resJson (fun (p : ElfFile × List Sec) => Json.bool (hasDwarfLink p.2)) ld),
      ("link", resJson optLink link)]
  | _ => throw s!"C11: unknown kind {k}"

end PyElf.Driver.C11
