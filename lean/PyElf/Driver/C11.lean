import PyElf.Driver.Json
import PyElf.Spec.Container
import PyElf.Spec.ContainerCrc
import PyElf.Spec.Reloc
import PyElf.Model.DwarfView
import PyElf.Model.DwarfViewCrc
import PyElf.Model.Env
import PyElf.Gen.Extra_C11
open Lean
namespace PyElf.Driver.C11
open PyElf PyElf.Model PyElf.Model.C11

def vResJson {α} (f : α → Json) : V α → Json
  | .ok v => Json.mkObj [("ok", f v)]
  | .error e => Json.mkObj [("err", Json.str e.name)]

def bj (b : Bytes) : Json := Json.mkObj [("b", Json.str b.toHex)]

def descrJson : Option Descr → Json
  | none => Json.null
  | some d => Json.mkObj [("stream", bj d.stream), ("name", bj d.name), ("global_offset", jN d.globalOffset),
                          ("size", jN d.size), ("address", jN d.address)]

partial def infoJson : DwarfInfo → Json
  | .mk le a arch ds sup =>
    Json.mkObj [("le", Json.bool le), ("addr_size", jN a), ("arch", Json.str arch),
      ("secs", Json.arr (ds.map fun (k, d) => Json.arr #[Json.str k, descrJson d]).toArray),
      ("sup", match sup with | none => Json.null | some s => infoJson s)]

/-- the bytes an oracle miss is answered with: never equal to anything the library produces, so a
    table the harness forgot to fill shows up as a correspondence failure, not as agreement -/
def oracleMiss : Bytes := "ORACLE-MISS".toUTF8.toList

/-- the externals: zlib as a table sent with the request; CRC-32 is the Spec's (the function of the
    GDB manual), folded over the file in 4096-byte chunks as `_file_crc32` does (`extOfStreaming`) -/
def extOf (zl : List (Bytes × Nat × Option Bytes)) : Ext :=
  extOfStreaming
    (fun d k =>
      match zl.find? (fun e => e.2.1 == k && e.1 == d) with
      | some e => e.2.2
      | none => some oracleMiss)
    (fun d init => Spec.C11.crc32 d init)

def entryOf (j : Json) : Except String Spec.RelEntry := do
  return { offset := ← jNat j "offset", sym := ← jNat j "sym", type := ← jNat j "type",
           addend := (jInt j "addend").toOption.getD 0, ssym := (jNat j "ssym").toOption.getD 0,
           type2 := (jNat j "type2").toOption.getD 0, type3 := (jNat j "type3").toOption.getD 0 }

def genParams (X : Ext) : Params :=
  { env := elfEnv, structsFor := elfStructsFor, machineClassOf := machineClassOf,
    machineArchOf := Reloc.machineArchOf, dwarfStructsFor := dwarfStructsFor,
    names := Gen.c11SectionNames, X := X }

def optLink : Option (Bytes × Nat) → Json
  | none => Json.null
  | some (f, c) => Json.mkObj [("filename", bj f), ("checksum", jN c)]

def handle (req : Json) : Except String Json := do
  let k ← jStr req "k"
  match k with
  | "wrap" =>
    -- Spec encoders of the container formats
    let what ← jStr req "what"
    match what with
    | "gabi" =>
      let b := Spec.C11.gabiBody (← jNat req "cls") (← jBool req "le") (← jNat req "size") (← jNat req "align") (← jHex req "deflated")
      return Json.mkObj [("bytes", jHexOf b)]
    | "zdebug" =>
      return Json.mkObj [("bytes", jHexOf (Spec.C11.zdebugBody (← jNat req "size") (← jHex req "deflated"))),
                         ("name", jHexOf (Spec.C11.zdebugName (← jHex req "name")))]
    | "debuglink" =>
      return Json.mkObj [("bytes", jHexOf (Spec.C11.encDebuglink (← jBool req "le") (← jHex req "filename") (← jNat req "crc")))]
    | "debugsup" =>
      return Json.mkObj [("bytes", jHexOf (Spec.C11.encDebugSup (← jBool req "le") (← jNat req "version")
        (← jNat req "is_sup") (← jHex req "filename") (← jHex req "checksum")))]
    | "altlink" =>
      return Json.mkObj [("bytes", jHexOf (Spec.C11.encAltlink (← jHex req "filename") (← jHex req "buildid")))]
    | "crc" =>
      -- the Spec's CRC-32 (one shot) and `_file_crc32`'s chunked fold over it
      let d ← jHex req "hex"
      return Json.mkObj [("crc", jN (Spec.C11.crc32 d)),
        ("chunked", jN (fileCrc32 (fun d init => Spec.C11.crc32 d init) ((jNat req "chunk").toOption.getD 4096) d))]
    | "reloc" =>
      -- a relocation section against a debug section, from the standards side (C08's Spec): the table and
      -- the value-only symbol table as bytes, the relocated logical content (`applyStd`), the domain (`WFApply`)
      let c : Spec.RelCfg := { le := ← jBool req "le", cls := ← jNat req "cls", mips := (← jNat req "machine") = 8 }
      let rela ← jBool req "rela"
      let es ← (← jArr req "relocs").mapM entryOf
      let syms ← (← jArr req "syms").mapM jNatOf
      let sec ← jHex req "section"
      let base := [("relbytes", jHexOf (Spec.encRelTable c rela es)),
        ("symbytes", jHexOf (syms.flatMap (Spec.rel_encSym c.le c.cls))),
        ("relentsize", jN (Spec.relEntSize c rela)), ("symentsize", jN (Spec.symEntSize c.cls))]
      match Spec.archOfMachine (← jNat req "machine") with
      | none => return Json.mkObj (base ++ [("wf", Json.bool false), ("relocated", Json.null)])
      | some a =>
        return Json.mkObj (base ++ [
          ("wf", Json.bool ((c.cls = 32 || c.cls = 64) && Spec.WFApply a c rela syms sec.length es)),
          ("relocated", match Spec.applyStd a c rela syms sec es with
            | some b => jHexOf b
            | none => Json.null)])
    | _ => throw s!"C11 wrap: unknown {what}"
  | "view" =>
    let data ← jHex req "hex"
    let files ← (← jArr req "files").mapM fun j => do
      match j with
      | .arr #[.str n, .str c] =>
        match Bytes.ofHex n, Bytes.ofHex c with
        | some n, some c => return (n, c)
        | _, _ => throw "bad file hex"
      | _ => throw "bad file entry"
    let zl ← (← jArr req "zlib").mapM fun j => do
      match j with
      | .arr #[.str d, kk, out] =>
        let some d := Bytes.ofHex d | throw "bad zlib hex"
        let o ← match out with
          | .null => pure none
          | .str h => match Bytes.ofHex h with
              | some b => pure (some b)
              | none => throw "bad zlib out hex"
          | _ => throw "bad zlib out"
        return (d, ← jNatOf kk, o)
      | _ => throw "bad zlib entry"
    let X := extOf zl
    let P := genParams X
    let hasLoader ← jBool req "has_loader"
    let loader : Option Loader :=
      if hasLoader then some fun n => (files.find? (·.1 == n)).map (·.2) else none
    let relocate ← jBool req "relocate"
    let follow ← jBool req "follow"
    let fuel := (jNat req "fuel").toOption.getD 8
    let r := getDwarfInfo P fuel loader data relocate follow
    let ld := load P data
    let has (strict : Bool) : Json := resJson (fun (p : ElfFile × List Sec) => Json.bool (hasDwarfInfo p.2 strict)) ld
    let link : R (Option (Bytes × Nat)) := do
      let (f, secs) ← ld
      getDwarfLink P.env f.S f.data secs
    return Json.mkObj [("model", vResJson infoJson r), ("has", has false), ("has_strict", has true),
      ("has_link", resJson (fun (p : ElfFile × List Sec) => Json.bool (hasDwarfLink p.2)) ld),
      ("link", resJson optLink link)]
  | _ => throw s!"C11: unknown kind {k}"

end PyElf.Driver.C11
