import PyElf.Driver.Json
import PyElf.Spec.Notes
import PyElf.Model.Env
import PyElf.Model.Notes
open Lean
namespace PyElf.Driver.C14
open PyElf PyElf.Spec

def jOptHex (j : Json) (k : String) : Except String (Option Bytes) := do
  match j.getObjVal? k with
  | .ok .null => return none
  | .ok (.str s) =>
    match Bytes.ofHex s with
    | some b => return some b
    | none => throw s!"{k}: bad hex"
  | _ => throw s!"{k}: expected hex or null"

def parseDesc (j : Json) : Except String Desc := do
  let k ← jStr j "k"
  match k with
  | "raw" => return .raw (← jHex j "d")
  | "abi" => return .abiTag (← jNat j "os") (← jNat j "major") (← jNat j "minor") (← jNat j "tiny")
  | "build" => return .buildId (← jHex j "d")
  | "gold" => return .goldVersion (← jHex j "d")
  | "props" =>
    let ps ← (← jArr j "ps").mapM fun p => do
      return ({ type := ← jNat p "type", data := ← jHex p "data" } : GnuProp)
    return .props ps
  | "prps" =>
    let sn ← jNat j "sname"
    return .prpsinfo { state := ← jNat j "state", sname := UInt8.ofNat sn, zomb := ← jNat j "zomb", nice := ← jNat j "nice",
                       flag := ← jNat j "flag", uid := ← jNat j "uid", gid := ← jNat j "gid", pid := ← jNat j "pid",
                       ppid := ← jNat j "ppid", pgrp := ← jNat j "pgrp", sid := ← jNat j "sid",
                       fname := ← jHex j "fname", psargs := ← jHex j "psargs" }
  | "file" =>
    let maps ← (← jArr j "maps").mapM fun m => do
      return ({ vmStart := ← jNat m "s", vmEnd := ← jNat m "e", pageOffset := ← jNat m "o", name := ← jHex m "name" } : FileMap)
    return .ntFile (← jNat j "page") maps
  | _ => throw s!"C14: unknown descriptor kind {k}"

def parseNote (j : Json) : Except String Note := do
  return { owner := ← jOptHex j "owner", type := ← jNat j "type", desc := ← parseDesc (← j.getObjVal? "desc") }

def parseCfg (req : Json) : Except String ElfCfg := do
  let c ← req.getObjVal? "cfg"
  let machine ← jStr c "machine"
  return { le := ← jBool c "le", cls := ← jNat c "cls", mclass := Model.machineClassOf (.str machine),
           solaris := false, core := ← jBool c "core" }

def parseStab (j : Json) : Except String Stab := do
  return { strx := ← jNat j "strx", type := ← jNat j "type", other := ← jNat j "other", desc := ← jNat j "desc",
           value := ← jNat j "value" }

def listJson (r : R (List Val)) : Json := resJson (fun vs => Json.arr (vs.map Val.toJson).toArray) r

def shdrOf (offset size : Nat) : Val := .record [("sh_offset", .int offset), ("sh_size", .int size)]
def phdrOf (offset size : Nat) : Val := .record [("p_offset", .int offset), ("p_filesz", .int size)]

def handle (req : Json) : Except String Json := do
  let k ← jStr req "k"
  let cfg ← parseCfg req
  let some S := Model.elfStructsFor cfg | throw "C14: no such elf bundle"
  match k with
  | "enc" =>
    -- abstract notes → the extent bytes (Spec encoder) and well-formedness
    let ns ← (← jArr req "notes").mapM parseNote
    let tail ← jHex req "tail"
    let wf := cfgWf cfg && ns.all (Note.wf cfg) && decide (tail.length < 12)
    return Json.mkObj [("bytes", jHexOf (encodeNotes cfg ns ++ tail)), ("wf", Json.bool wf)]
  | "run" =>
    -- the same notes placed at `offset` of the file image `hex`: what must be observed, and the model
    let ns ← (← jArr req "notes").mapM parseNote
    let data ← jHex req "hex"
    let offset ← jNat req "offset"
    let size ← jNat req "size"
    let expect := obsNotes cfg offset ns
    let sec := Model.noteSectionIterNotes S Model.elfEnv cfg.cls data (shdrOf offset size)
    let seg := Model.noteSegmentIterNotes S Model.elfEnv cfg.cls data (phdrOf offset size)
    return Json.mkObj [("expect", Json.arr (expect.map Val.toJson).toArray), ("model", listJson sec),
                       ("model_seg", listJson seg)]
  | "raw" =>
    let data ← jHex req "hex"
    let offset ← jNat req "offset"
    let size ← jNat req "size"
    let sec := Model.noteSectionIterNotes S Model.elfEnv cfg.cls data (shdrOf offset size)
    let seg := Model.noteSegmentIterNotes S Model.elfEnv cfg.cls data (phdrOf offset size)
    return Json.mkObj [("model", listJson sec), ("model_seg", listJson seg)]
  | "stabs_enc" =>
    let ss ← (← jArr req "stabs").mapM parseStab
    return Json.mkObj [("bytes", jHexOf (encodeStabs cfg.le ss)), ("wf", Json.bool (ss.all Stab.wf))]
  | "stabs_run" =>
    let ss ← (← jArr req "stabs").mapM parseStab
    let data ← jHex req "hex"
    let offset ← jNat req "offset"
    let size ← jNat req "size"
    let expect := obsStabs offset ss
    return Json.mkObj [("expect", Json.arr (expect.map Val.toJson).toArray),
                       ("model", listJson (Model.iterStabs S Model.elfEnv data (shdrOf offset size)))]
  | "stabs_raw" =>
    let data ← jHex req "hex"
    let offset ← jNat req "offset"
    let size ← jNat req "size"
    return Json.mkObj [("model", listJson (Model.iterStabs S Model.elfEnv data (shdrOf offset size)))]
  | _ => throw s!"C14: unknown kind {k}"

end PyElf.Driver.C14
