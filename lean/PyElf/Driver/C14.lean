import PyElf.Driver.Json
import PyElf.Driver.C01
import PyElf.Spec.Notes
import PyElf.Spec.NotesEdge
import PyElf.Spec.ElfImage
import PyElf.Spec.ElfImageFast
import PyElf.Model.Env
import PyElf.Model.Notes
import PyElf.Model.NotesFile
import PyElf.Spec.NotesFile
open Lean
namespace PyElf.Driver.C14
open PyElf PyElf.Spec PyElf.Spec.C14

def jOptHex (j : Json) (k : String) : Except String (Option Bytes) := do
  match j.getObjVal? k with
  | .ok .null => return none
  | .ok (.str s) =>
    match Bytes.ofHex s with
    | some b => return some b
    | none => throw s!"{k}: bad hex"
  | _ => throw s!"{k}: expected hex or null"

def parseDesc (j : Json) : Except String Desc := do
  let k ← jStr j "k"
  match k with
  | "raw" => return .raw (← jHex j "d")
  | "abi" => return .abiTag (← jNat j "os") (← jNat j "major") (← jNat j "minor") (← jNat j "tiny")
  | "build" => return .buildId (← jHex j "d")
  | "gold" => return .goldVersion (← jHex j "d")
  | "props" =>
    let ps ← (← jArr j "ps").mapM fun p => do
      return ({ type := ← jNat p "type", data := ← jHex p "data" } : GnuProp)
    return .props ps
  | "prps" =>
    let sn ← jNat j "sname"
    return .prpsinfo { state := ← jNat j "state", sname := UInt8.ofNat sn, zomb := ← jNat j "zomb", nice := ← jNat j "nice",
                       flag := ← jNat j "flag", uid := ← jNat j "uid", gid := ← jNat j "gid", pid := ← jNat j "pid",
                       ppid := ← jNat j "ppid", pgrp := ← jNat j "pgrp", sid := ← jNat j "sid",
                       fname := ← jHex j "fname", psargs := ← jHex j "psargs" }
  | "file" =>
    let maps ← (← jArr j "maps").mapM fun m => do
      return ({ vmStart := ← jNat m "s", vmEnd := ← jNat m "e", pageOffset := ← jNat m "o", name := ← jHex m "name" } : FileMap)
    return .ntFile (← jNat j "page") maps
  | _ => throw s!"C14: unknown descriptor kind {k}"

def parseNote (j : Json) : Except String Note := do
  return { owner := ← jOptHex j "owner", type := ← jNat j "type", desc := ← parseDesc (← j.getObjVal? "desc") }

def parseCfg (req : Json) : Except String ElfCfg := do
  let c ← req.getObjVal? "cfg"
  let machine ← jStr c "machine"
  return { le := ← jBool c "le", cls := ← jNat c "cls", mclass := Model.machineClassOf (.str machine),
           solaris := false, core := ← jBool c "core" }

def parseStab (j : Json) : Except String Stab := do
  return { strx := ← jNat j "strx", type := ← jNat j "type", other := ← jNat j "other", desc := ← jNat j "desc",
           value := ← jNat j "value" }

def listJson (r : R (List Val)) : Json := resJson (fun vs => Json.arr (vs.map Val.toJson).toArray) r

def shdrOf (offset size : Nat) : Val := .record [("sh_offset", .int offset), ("sh_size", .int size)]
def phdrOf (offset size : Nat) : Val := .record [("p_offset", .int offset), ("p_filesz", .int size)]

/-! ### whole files (fourth wave): descriptions → bytes by the Spec assembler, the hypotheses of the
    file theorems decided, the file-level model -/

def rawIs (fs : Fields) (k : String) (v : Int) : Bool :=
  match Fields.get? fs k with
  | some (.int x) => x == v
  | _ => false

/-- hypotheses of `file_section_notes_exact` about section `i` -/
def secDom (d : ElfDesc) (i : Nat) (ns : List Note) (tail : Bytes) : Bool :=
  match d.sections[i]? with
  | some sd =>
    rawIs sd.hdr "sh_type" 7 && ns.all (Note.wf d.cfg) && decide (tail.length < 12) &&
    (match sd.body with | some b => b == encodeNotes d.cfg ns ++ tail | none => false) &&
    getNatD sd.hdr "sh_size" == (encodeNotes d.cfg ns).length + tail.length
  | none => false

/-- hypotheses of `file_segment_notes_exact`: segment `j` lies in the body of section `i`, `k` bytes in -/
def segDomIn (d : ElfDesc) (j i k : Nat) (ns : List Note) (tail : Bytes) : Bool :=
  let X := encodeNotes d.cfg ns ++ tail
  match d.segments[j]?, d.sections[i]? with
  | some p, some sd =>
    rawIs p "p_type" 4 && ns.all (Note.wf d.cfg) && decide (tail.length < 12) &&
    (match sd.body with | some b => decide (k ≤ b.length) && (b.drop k).take X.length == X | none => false) &&
    getNatD p "p_offset" == getNatD sd.hdr "sh_offset" + k && getNatD p "p_filesz" == X.length
  | _, _ => false

/-- hypotheses of `file_segment_notes_over_sections` -/
def segDomAdj (d : ElfDesc) (j : Nat) (is : List Nat) (ns : List Note) (tail : Bytes) : Bool :=
  let X := encodeNotes d.cfg ns ++ tail
  match d.segments[j]? with
  | some p =>
    rawIs p "p_type" 4 && ns.all (Note.wf d.cfg) && decide (tail.length < 12) &&
    (match adjacentBodies d (getNatD p "p_offset") is with | some B => B == X | none => false) &&
    getNatD p "p_filesz" == X.length
  | none => false

def descWf (d : ElfDesc) : Bool :=
  (match d.regions with
   | some rs => regionsDisjoint (sortRegions rs)
   | none => false) && d.wfZ Model.elfEnv && (match d.observe Model.elfEnv with | .ok _ => true | .error _ => false)

def modelSec (bytes : Bytes) (i : Nat) : R (List Val) :=
  Model.C14.fileSectionNotes Model.elfEnv Model.elfStructsFor Model.machineClassOf bytes i
def modelSeg (bytes : Bytes) (j : Nat) : R (List Val) :=
  Model.C14.fileSegmentNotes Model.elfEnv Model.elfStructsFor Model.machineClassOf bytes j

def valsJson (vs : List Val) : Json := Json.arr (vs.map Val.toJson).toArray

def secOffset (d : ElfDesc) (i : Nat) : Nat :=
  match d.sections[i]? with | some sd => getNatD sd.hdr "sh_offset" | none => 0
def segOffset (d : ElfDesc) (j : Nat) : Nat :=
  match d.segments[j]? with | some p => getNatD p "p_offset" | none => 0

def fileQuery (d : ElfDesc) (bytes : Bytes) (q : Json) : Except String Json := do
  let t ← jStr q "t"
  let ns ← (← jArr q "notes").mapM parseNote
  let tail ← jHex q "tail"
  match t with
  | "sec" =>
    let i ← jNat q "i"
    return Json.mkObj [("dom", Json.bool (secDom d i ns tail)), ("expect", valsJson (obsNotes d.cfg (secOffset d i) ns)),
                       ("model", listJson (modelSec bytes i))]
  | "segin" =>
    let j ← jNat q "j"
    return Json.mkObj [("dom", Json.bool (segDomIn d j (← jNat q "i") (← jNat q "pre") ns tail)),
                       ("expect", valsJson (obsNotes d.cfg (segOffset d j) ns)), ("model", listJson (modelSeg bytes j))]
  | "segadj" =>
    let j ← jNat q "j"
    let is ← (← jArr q "is").mapM jNatOf
    return Json.mkObj [("dom", Json.bool (segDomAdj d j is ns tail)),
                       ("expect", valsJson (obsNotes d.cfg (segOffset d j) ns)), ("model", listJson (modelSeg bytes j))]
  | "any" =>
    -- no claim: the model only (classes without `iter_notes`, indices out of range)
    let sec := (jNat q "i").toOption.map (modelSec bytes)
    let seg := (jNat q "j").toOption.map (modelSeg bytes)
    return Json.mkObj [("dom", Json.bool false),
                       ("model", match sec, seg with | some r, _ => listJson r | none, some r => listJson r | _, _ => Json.null)]
  | _ => throw s!"C14 file: unknown query {t}"

/-! ### the edge of the domain: a last note running past the extent end, a header the file does not hold,
    a name without terminator -/

structure Edge where
  extent : Bytes          -- what the file holds from the extent's offset on (at least)
  size : Nat              -- the declared extent size
  /-- hypotheses on the generated side (the placement in the file is checked by `edgeDomAt`) -/
  dom : Bool
  /-- the bytes the file must begin with at the extent's offset -/
  pref : Bytes
  expect : Nat → R (List Val)

def parseEdge (cfg : ElfCfg) (req : Json) : Except String Edge := do
  let ns ← (← jArr req "notes").mapM parseNote
  let rest ← jHex req "rest"
  let extra ← jNat req "extra"
  let enc := encodeNotes cfg ns
  let base := cfgWf cfg && ns.all (Note.wf cfg)
  match ← jStr req "mode" with
  | "bare" =>
    let n ← parseNote (← req.getObjVal? "last")
    let bare := encNoteBare cfg n
    -- extra = 0: the extent ends exactly at the end of the unpadded note
    let size := if extra = 0 then enc.length + bare.length else enc.length + 12 + (extra - 1)
    return { extent := enc ++ bare ++ rest, size, pref := enc ++ bare,
             dom := base && n.wf cfg && decide (enc.length + 12 ≤ size) && decide (size < enc.length + (encNote cfg n).length + 12),
             expect := fun off => .ok (obsNotes cfg off (ns ++ [n])) }
  | "trunc" =>
    return { extent := enc ++ rest, size := enc.length + 12 + extra, pref := enc,
             dom := base && decide (rest.length < 12), expect := fun _ => .error .elfParseError }
  | "nonul" =>
    let namesz ← jNat req "namesz"
    let descsz ← jNat req "descsz"
    let type ← jNat req "type"
    return { extent := enc ++ encNhdr cfg namesz descsz type ++ rest, size := enc.length + 12 + extra,
             pref := enc ++ encNhdr cfg namesz descsz type,
             dom := base && decide (0 < namesz) && decide (namesz < 2 ^ 32) && decide (descsz < 2 ^ 32) && decide (type < 2 ^ 32),
             expect := fun _ => .error .structError }
  | "cut" =>
    let owner ← jOptHex req "owner"
    let type ← jNat req "type"
    let descsz ← jNat req "descsz"
    let cut := encNoteCut cfg owner type descsz rest
    let size := enc.length + 12 + extra
    return { extent := enc ++ cut, size, pref := enc ++ cut,
             dom := base && ownerWf owner && decide ((nameField owner).length < 2 ^ 32) && decide (type < 2 ^ 32) &&
               decide (descsz < 2 ^ 32) && decide (descKind cfg.core owner type = .raw) && decide (rest.length ≤ descsz) &&
               decide (size < enc.length + (12 + paddedLen (nameField owner).length + paddedLen descsz) + 12),
             expect := fun off => .ok (obsNotes cfg off ns ++ [obsNoteCut cfg (off + enc.length) owner type descsz rest]) }
  | m => throw s!"C14 edge: unknown mode {m}"

/-- the hypotheses that speak about the file: it begins with `pref` at `off`, and what follows is as the
    theorem of the mode requires -/
def edgeDomAt (cfg : ElfCfg) (req : Json) (e : Edge) (file : Bytes) (off : Nat) : Except String Bool := do
  let starts := (file.drop off).take e.pref.length == e.pref
  let after := file.drop (off + e.pref.length)
  match ← jStr req "mode" with
  | "bare" => return e.dom && starts
  | "trunc" => return e.dom && starts && decide (after.length < 12)
  | "cut" => return e.dom && starts && after.isEmpty
  | "nonul" =>
    let namesz ← jNat req "namesz"
    return e.dom && starts && (after.take (namesz + pad4 namesz)).all (· != 0)
  | _ => return false

def handleFile (req : Json) : Except String Json := do
  let k ← jStr req "k"
  let d ← C01.descOfJson (← req.getObjVal? "ast")
  let tail := (jNat req "tail").toOption.getD 0
  match d.assembleFast tail with
  | none => return Json.mkObj [("wf", Json.bool false), ("why", "not encodable")]
  | some bytes =>
    match k with
    | "file" =>
      let qs ← (← jArr req "q").mapM (fileQuery d bytes)
      return Json.mkObj [("wf", Json.bool (descWf d)), ("bytes", jHexOf bytes), ("q", Json.arr qs.toArray)]
    | "edge_run" =>
      let i ← jNat req "i"
      let j ← jNat req "j"
      let e ← parseEdge d.cfg req
      let off := secOffset d i
      let dom ← edgeDomAt d.cfg req e bytes off
      -- the section and the segment are the extent the edge case was generated for
      let placed := getNatD ((d.sections[i]?.map (·.hdr)).getD []) "sh_size" == e.size &&
        segOffset d j == off && getNatD (d.segments[j]?.getD []) "p_filesz" == e.size &&
        rawIs ((d.sections[i]?.map (·.hdr)).getD []) "sh_type" 7 && rawIs (d.segments[j]?.getD []) "p_type" 4
      return Json.mkObj [("wf", Json.bool (descWf d)), ("bytes", jHexOf bytes), ("dom", Json.bool (dom && placed)),
                         ("expect", listJson (e.expect off)), ("model", listJson (modelSec bytes i)),
                         ("model_seg", listJson (modelSeg bytes j))]
    | _ => throw s!"C14: unknown kind {k}"

def handle (req : Json) : Except String Json := do
  let k ← jStr req "k"
  if k == "file" || k == "edge_run" then return ← handleFile req
  let cfg ← parseCfg req
  let some S := Model.elfStructsFor cfg | throw "C14: no such elf bundle"
  match k with
  | "enc" =>
    -- abstract notes → the extent bytes (Spec encoder) and well-formedness
    let ns ← (← jArr req "notes").mapM parseNote
    let tail ← jHex req "tail"
    let wf := cfgWf cfg && ns.all (Note.wf cfg) && decide (tail.length < 12)
    return Json.mkObj [("bytes", jHexOf (encodeNotes cfg ns ++ tail)), ("wf", Json.bool wf)]
  | "run" =>
    -- the same notes placed at `offset` of the file image `hex`: what must be observed, and the model
    let ns ← (← jArr req "notes").mapM parseNote
    let data ← jHex req "hex"
    let offset ← jNat req "offset"
    let size ← jNat req "size"
    let expect := obsNotes cfg offset ns
    let sec := Model.noteSectionIterNotes S Model.elfEnv cfg.cls data (shdrOf offset size)
    let seg := Model.noteSegmentIterNotes S Model.elfEnv cfg.cls data (phdrOf offset size)
    return Json.mkObj [("expect", Json.arr (expect.map Val.toJson).toArray), ("model", listJson sec),
                       ("model_seg", listJson seg)]
  | "raw" =>
    let data ← jHex req "hex"
    let offset ← jNat req "offset"
    let size ← jNat req "size"
    let sec := Model.noteSectionIterNotes S Model.elfEnv cfg.cls data (shdrOf offset size)
    let seg := Model.noteSegmentIterNotes S Model.elfEnv cfg.cls data (phdrOf offset size)
    return Json.mkObj [("model", listJson sec), ("model_seg", listJson seg)]
  | "edge" =>
    let e ← parseEdge cfg req
    return Json.mkObj [("bytes", jHexOf e.extent), ("size", jN e.size), ("dom", Json.bool e.dom)]
  | "stabs_enc" =>
    let ss ← (← jArr req "stabs").mapM parseStab
    return Json.mkObj [("bytes", jHexOf (encodeStabs cfg.le ss)), ("wf", Json.bool (ss.all Stab.wf))]
  | "stabs_run" =>
    let ss ← (← jArr req "stabs").mapM parseStab
    let data ← jHex req "hex"
    let offset ← jNat req "offset"
    let size ← jNat req "size"
    let expect := obsStabs offset ss
    return Json.mkObj [("expect", Json.arr (expect.map Val.toJson).toArray),
                       ("model", listJson (Model.iterStabs S Model.elfEnv data (shdrOf offset size)))]
  | "stabs_raw" =>
    let data ← jHex req "hex"
    let offset ← jNat req "offset"
    let size ← jNat req "size"
    return Json.mkObj [("model", listJson (Model.iterStabs S Model.elfEnv data (shdrOf offset size)))]
  | _ => throw s!"C14: unknown kind {k}"

end PyElf.Driver.C14
