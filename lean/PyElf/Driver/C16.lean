import PyElf.Driver.Json
import PyElf.Spec.Primitives
import PyElf.Model.Utils
open Lean
namespace PyElf.Driver.C16
open PyElf PyElf.Spec

def optBytesJson : Option Bytes → Json
  | some b => Json.mkObj [("b", Json.str b.toHex)]
  | none => Json.null

/-- spec-side encoders: the bytes the harness feeds to the real library, and the
    observation the property prescribes -/
def handle (req : Json) : Except String Json := do
  let k ← jStr req "k"
  match k with
  | "enc" =>
    let what ← jStr req "what"
    let pre ← jHex req "pre"
    let rest ← jHex req "rest"
    let mk (enc : Bytes) (v : Json) (wf : Bool) : Json :=
      Json.mkObj [("bytes", jHexOf (pre ++ enc ++ rest)), ("pos", jN pre.length), ("wf", Json.bool wf),
                  ("expect", Json.mkObj [("v", v), ("pos", jN (pre.length + enc.length))])]
    match what with
    | "uleb" =>
      let n ← jNat req "n"; let v ← jNat req "v"
      return mk (encUlebN n v) (jN v) (decide (1 ≤ n) && decide (v < 2 ^ (7 * n)))
    | "sleb" =>
      let n ← jNat req "n"; let v ← jInt req "v"
      return mk (encSlebN n v) (jI v)
        (decide (1 ≤ n) && decide (-((2 ^ (7 * n - 1) : Nat) : Int) ≤ v) && decide (v < ((2 ^ (7 * n - 1) : Nat) : Int)))
    | "uint" =>
      let n ← jNat req "n"; let v ← jNat req "v"; let le ← jBool req "le"
      return mk (encNat le n v) (jN v) (decide (v < 256 ^ n))
    | "sint" =>
      let n ← jNat req "n"; let v ← jInt req "v"; let le ← jBool req "le"
      return mk (encNat le n (ofSigned (8 * n) v)) (jI v)
        (decide (1 ≤ n) && decide (-((2 ^ (8 * n - 1) : Nat) : Int) ≤ v) && decide (v < ((2 ^ (8 * n - 1) : Nat) : Int)))
    | "cstring" =>
      let s ← jHex req "s"
      return mk (s ++ [0]) (Json.mkObj [("b", Json.str s.toHex)]) (s.all (· != 0))
    | "initlen32" =>
      let v ← jNat req "v"; let le ← jBool req "le"
      return mk (encInitLen le (.dwarf32 v)) (jN v) (decide (v < 0xFFFFFF00))
    | "initlen64" =>
      let v ← jNat req "v"; let le ← jBool req "le"
      return mk (encInitLen le (.dwarf64 v)) (jN v) (decide (v < 2 ^ 64))
    | "block_fixed" =>
      let n ← jNat req "n"; let le ← jBool req "le"; let payload ← jHex req "payload"
      return mk (encNat le n payload.length ++ payload) (Json.arr (payload.map fun b => jN b.toNat).toArray)
        (decide (payload.length < 256 ^ n))
    | "block_uleb" =>
      let n ← jNat req "n"; let payload ← jHex req "payload"
      return mk (encUlebN n payload.length ++ payload) (Json.arr (payload.map fun b => jN b.toNat).toArray)
        (decide (1 ≤ n) && decide (payload.length < 2 ^ (7 * n)))
    | _ => throw s!"C16 enc: unknown {what}"
  | "cstr" =>
    let data ← jHex req "hex"
    let pos ← jNat req "pos"
    let chunk ← jNat req "chunk"
    let m := Model.parseCStringFromStream data pos chunk
    return Json.mkObj [("model", resJson optBytesJson m), ("expect", optBytesJson (firstNul (data.drop pos)))]
  | _ => throw s!"C16: unknown kind {k}"

end PyElf.Driver.C16
