import PyElf.Driver.Json
import PyElf.Spec.DwarfLookup
import PyElf.Spec.DwarfNameOrder
import PyElf.Model.DwarfLookup
import PyElf.Model.DwarfLookupInfo
import PyElf.Model.DwarfLookupDie
import PyElf.Model.Env
import PyElf.Driver.C04
open Lean
namespace PyElf.Driver.C13
open PyElf PyElf.Spec.Lookup PyElf.Model.Lookup

def jNatD (j : Json) (k : String) (d : Nat) : Nat := (jNat j k).toOption.getD d

def entryJson (e : AREntry) : Json :=
  Json.arr #[jN e.begin, jN e.len, jN e.infoOff, jN e.unitLength, jN e.version, jN e.asz, jN e.seg]

def optNatJson : Option Nat → Json
  | some n => jN n
  | none => Json.null

def bundleFor (le : Bool) (dasz : Nat) : Except String DwarfStructs :=
  match Model.dwarfStructsFor ⟨le, 32, dasz, 2⟩ with
  | some S => .ok S
  | none => throw "no dwarf bundle for the DWARFInfo default structs"

/-- ARanges(stream, size, structs) then cu_offset_at_addr for each address -/
def runAranges (S : DwarfStructs) (data : Bytes) (addrs : List Nat) : Json :=
  match ARanges.init (Model.dwarfEnv S) S 32 data data.length with
  | .error e => Json.mkObj [("init", Json.mkObj [("err", Json.str e.name)]), ("lookups", Json.arr #[])]
  | .ok t =>
    Json.mkObj [("init", Json.mkObj [("ok", Json.arr (t.entries.map entryJson).toArray)]),
                ("lookups", Json.arr (addrs.map fun a => resJson optNatJson (t.cuOffsetAtAddr a)).toArray)]

def parseSet (j : Json) : Except String ARSet := do
  let tuples ← (← jArr j "tuples").mapM fun t =>
    match t with
    | .arr #[a, l] => do return (⟨← jNatOf a, ← jNatOf l⟩ : ARTuple)
    | _ => throw "bad tuple"
  let fill := jNatD j "fill" 0
  return { version := ← jNat j "version", infoOff := ← jNat j "info_off", asz := ← jNat j "asz",
           tuples := tuples, fill := UInt8.ofNat fill, trail := (jHex j "trail").toOption.getD [] }

def itemJson (p : Bytes × Nat × Nat) : Json := Json.arr #[Json.str p.1.toHex, jN p.2.1, jN p.2.2]

def namesJson (r : NameDict × List Val) : Json :=
  Json.mkObj [("items", Json.arr (r.1.map itemJson).toArray), ("headers", Json.arr (r.2.map Val.toJson).toArray)]

def parseNameSet (j : Json) : Except String Spec.Lookup.NameSet := do
  let entries ← (← jArr j "entries").mapM fun t =>
    match t with
    | .arr #[o, .str h] =>
      match Bytes.ofHex h with
      | some b => do return (⟨← jNatOf o, b⟩ : NameEntry)
      | none => throw "bad name hex"
    | _ => throw "bad name entry"
  return { version := ← jNat j "version", infoOff := ← jNat j "info_off", infoLen := ← jNat j "info_len",
           entries := entries }

def parseUnit (j : Json) : Except String InfoUnit := do
  return { fmt64 := ← jBool j "fmt64", version := ← jNat j "version", utype := jNatD j "utype" 1,
           abbrevOff := ← jNat j "abbrev_off", asz := ← jNat j "asz", id8 := jNatD j "id8" 0,
           typeOff := jNatD j "type_off" 0, body := ← jHex j "body" }

inductive Op
  | containing (x : Nat)
  | at_ (x : Nat)
  | lut (cu die : Nat)

def parseOp : Json → Except String Op
  | .arr #[.str "c", x] => do return .containing (← jNatOf x)
  | .arr #[.str "a", x] => do return .at_ (← jNatOf x)
  | .arr #[.str "l", c, d] => do return .lut (← jNatOf c) (← jNatOf d)
  | _ => throw "bad op"

def obsJson (o : UnitObs) : Json := Json.arr #[jN o.off, jN o.dieOff, jN o.size, jN o.fmt, o.hdr.toJson]

def cuJson (cu : CU) : Json :=
  let sz : Json := match cu.size with | .ok n => jN n | .error e => Json.str e.name
  Json.arr #[jN cu.cuOffset, jN cu.cuDieOffset, sz, jN cu.fmt, cu.header.toJson]

/-- run an operation history on one DWARFInfo model -/
def runOps (P : Nat → R CU) (size : Nat) : List Op → CUCache → List Json → List Json × CUCache
  | [], st, acc => (acc.reverse, st)
  | op :: ops, st, acc =>
    match op with
    | .containing x =>
      let (r, st') := getCUContaining P size st x
      runOps P size ops st' (resJson cuJson r :: acc)
    | .at_ x =>
      let (r, st') := getCUAt P size st x
      runOps P size ops st' (resJson cuJson r :: acc)
    | .lut c d =>
      let (r, st') := getDIEFromLutEntry P size st c d
      runOps P size ops st' (resJson (fun (cu, o) => Json.arr #[cuJson cu, jN o]) r :: acc)

def runCU (S0 : DwarfStructs) (le : Bool) (data : Bytes) (ops : List Op) : Json :=
  let P := parseCUAtOffset Model.genEnumDecode Model.dwarfStructsFor S0 le data
  let (rs, st) := runOps P data.length ops CUCache.empty []
  Json.mkObj [("answers", Json.arr rs.toArray), ("offsets", Json.arr (st.offsets.map jN).toArray)]

/-- what the property prescribes for an operation on the unit list, or null when the
    operation is outside the property's quantifier -/
def expectOp (le : Bool) (us : List InfoUnit) (total : Nat) : Op → Json
  | .containing x =>
    if x < total then
      match unitContaining le us x with
      | some (o, u) => Json.mkObj [("ok", obsJson (unitObs le o u))]
      | none => Json.null
    else Json.null
  | .at_ x =>
    match unitAt le us x with
    | some (o, u) => Json.mkObj [("ok", obsJson (unitObs le o u))]
    | none => Json.null
  | .lut c d =>
    match unitAt le us c with
    | some (o, u) =>
      let ob := unitObs le o u
      if ob.dieOff ≤ d ∧ d < o + ob.size then Json.mkObj [("ok", Json.arr #[obsJson ob, jN d])] else Json.null
    | none => Json.null

/-! ### address → range table → unit, with absent sections (kind `res`) -/

/-- one operation on a `DWARFInfo` whose `.debug_info` may be absent -/
def stepOpI (P : Bytes → Nat → R CU) (info : Option Bytes) (st : CUCache) : Op → Json × CUCache
  | .containing x =>
    let (r, st') := getCUContainingI P info st x
    (resJson cuJson r, st')
  | .at_ x =>
    let (r, st') := getCUAtI P info st x
    (resJson cuJson r, st')
  | .lut c d =>
    match info with
    | none => (resJson (fun (_ : Unit) => Json.null) (.error .dwarfError), st)
    | some data =>
      let (r, st') := getDIEFromLutEntry (P data) data.length st c d
      (resJson (fun (cu, o) => Json.arr #[cuJson cu, jN o]) r, st')

def runOpsI (P : Bytes → Nat → R CU) (info : Option Bytes) : List Op → CUCache → List Json → List Json × CUCache
  | [], st, acc => (acc.reverse, st)
  | op :: ops, st, acc =>
    let (j, st') := stepOpI P info st op
    runOpsI P info ops st' (j :: acc)

def runQueries (t : Option ARanges) (P : Bytes → Nat → R CU) (info : Option Bytes) :
    List (Nat × Bool) → CUCache → List Json → List Json × CUCache
  | [], st, acc => (acc.reverse, st)
  | (a, byC) :: qs, st, acc =>
    let (r, st') := unitForAddr byC t P info st a
    let j := resJson (fun (o : Option CU) => match o with | some cu => cuJson cu | none => Json.null) r
    runQueries t P info qs st' (j :: acc)

/-- `get_aranges()`, then the address queries, then the unit operations, on ONE DWARFInfo -/
def runRes (S0 : DwarfStructs) (le : Bool) (ar info : Option Bytes) (qs : List (Nat × Bool)) (ops : List Op) : Json :=
  let P := fun data => parseCUAtOffset Model.genEnumDecode Model.dwarfStructsFor S0 le data
  match getAranges (Model.dwarfEnv S0) S0 ar with
  | .error e => Json.mkObj [("aranges", Json.mkObj [("err", Json.str e.name)])]
  | .ok t =>
    let tj : Json := match t with
      | none => Json.null
      | some t => Json.arr (t.entries.map entryJson).toArray
    let (rs, st) := runQueries t P info qs CUCache.empty []
    let (as, st) := runOpsI P info ops st []
    Json.mkObj [("aranges", Json.mkObj [("ok", tj)]), ("resolved", Json.arr rs.toArray), ("answers", Json.arr as.toArray),
                ("offsets", Json.arr (st.offsets.map jN).toArray)]

/-- what the property prescribes for resolving an address: nothing when no encoded range contains it (or there is
    no table); otherwise the unit the offset of the containing range leads to — `null` (not compared) when that offset is
    outside what the property quantifies over (not a unit start for `get_CU_at`, outside the section for
    `get_CU_containing`) -/
def expectQuery (le : Bool) (es : Option (List AREntry)) (us : List InfoUnit) (total : Nat) (q : Nat × Bool) : Json :=
  match es with
  | none => Json.mkObj [("ok", Json.null)]
  | some es =>
    match cuOffsetAt es q.1 with
    | none => Json.mkObj [("ok", Json.null)]
    | some o => expectOp le us total (if q.2 then .containing o else .at_ o)


/-! ### lookups that end in an entry, on a C04 forest (kind `die`; Model/DwarfLookupDie.lean)

  The request carries a forest description in C04's format (abbreviation tables, units with trees, the string /
  address / list sections: parsed with C04's request parser, encoded with C04's Spec encoder), optionally a name table
  (`names`) and a range table (`sets`), and an operation history run on ONE `DWARFInfo` model. -/

inductive DOp
  | unit (op : Op)                    -- get_CU_containing / get_CU_at: cache priming, as in kind `cu`
  | ref (x : Int)                     -- dwarfinfo.get_DIE_from_refaddr(x)
  | lutDie (cu die : Nat)             -- dwarfinfo.get_DIE_from_lut_entry(NameLUTEntry(cu, die))
  | name (nm : Bytes)                 -- dwarfinfo.get_DIE_from_lut_entry(lut[name])
  | top (addr : Nat) (byC : Bool)     -- aranges -> unit -> get_top_DIE()

def parseDOp : Json → Except String DOp
  | .arr #[.str "r", x] => do return .ref (← jIntOf x)
  | .arr #[.str "L", c, d] => do return .lutDie (← jNatOf c) (← jNatOf d)
  | .arr #[.str "n", .str h] =>
    match Bytes.ofHex h with
    | some b => .ok (.name b)
    | none => throw "bad name hex"
  | .arr #[.str "t", a, .bool b] => do return .top (← jNatOf a) b
  | j => do return .unit (← parseOp j)

/-- an entry without the parent link (an entry reached by offset has no recorded parent) -/
def dieObsJson (d : Spec.C04.DieObs) : Json :=
  Json.arr #[jN d.offset, jN d.size, jN d.code, d.tag.toJson, d.hasChildren.toJson,
             Json.arr (d.attrs.map Driver.C04.attrJson).toArray]

def cuDieJson (r : CU × Spec.C04.DieObs) : Json := Json.arr #[cuJson r.1, dieObsJson r.2]

def optCuDieJson : Option (CU × Spec.C04.DieObs) → Json
  | some r => cuDieJson r
  | none => Json.null

structure DieWorld where
  w : Model.C04.DInfo
  S0 : DwarfStructs
  S : DwarfStructs                    -- the bundle the lookup tables are parsed with (`DWARFInfo.structs`)
  names : Option Bytes
  table : Option ARanges

def stepDOp (D : DieWorld) (st : CUCache) : DOp → Json × CUCache
  | .unit op => stepOpI (fun data => infoParser D.w D.S0 data) D.w.info st op
  | .ref x =>
    let (r, st') := getDIEFromRefaddr D.w D.S0 st x
    (resJson cuDieJson r, st')
  | .lutDie c d =>
    let (r, st') := getDIEFromLutEntryDie D.w D.S0 st c d
    (resJson cuDieJson r, st')
  | .name nm =>
    let (r, st') := dieByName (Model.dwarfEnv D.S) D.S D.names D.w D.S0 st nm
    (resJson optCuDieJson r, st')
  | .top a byC =>
    let (r, st') := topDIEForAddr byC D.table D.w D.S0 st a
    (resJson optCuDieJson r, st')

def runDOps (D : DieWorld) : List DOp → CUCache → List Json → List Json × CUCache
  | [], st, acc => (acc.reverse, st)
  | op :: ops, st, acc =>
    let (j, st') := stepDOp D st op
    runDOps D ops st' (j :: acc)

/-- C04's linear-scan answer for the same reference (`Driver.C04.sectionRef` on the scanned units): reported next to
    the model's so that `Props.C13.ref_addr_scan_agrees` is also watched on every run -/
def scanJson (D : DieWorld) (x : Int) : Json :=
  let units := Model.C04.sectionUnits D.w D.S0 D.w.info false
  let size := (D.w.info.map (·.length)).getD 0
  match Driver.C04.sectionRef units size x with
  | .ok (cuOff, d) => Json.mkObj [("ok", Json.arr #[jN cuOff, dieObsJson d])]
  | .error e => Json.mkObj [("err", Json.str e.name)]

def placedJson (q : Driver.C04.Placed) : Json := Json.arr #[jN q.off, jN q.dieOff, jN q.size, jN q.cfg.fmt, q.hdr.toJson]

/-- the entry of the placed unit `q` at offset `x`, or null when `x` is not the offset of an entry of `q` -/
def expectDieIn (q : Driver.C04.Placed) (x : Nat) : Json :=
  match q.flat.find? (·.offset == x) with
  | some d => Json.mkObj [("ok", Json.arr #[placedJson q, dieObsJson d])]
  | none => Json.null

/-- what the property prescribes (null = outside its quantifier) -/
def expectDOp (le : Bool) (us : List InfoUnit) (total : Nat) (placed : List Driver.C04.Placed)
    (items : Option (List (Bytes × Nat × Nat))) (es : Option (List AREntry)) : DOp → Json
  | .unit op => expectOp le us total op
  | .ref x =>
    if 0 ≤ x ∧ x < total then
      match placed.find? (fun q => decide (q.off ≤ x.toNat ∧ x.toNat < q.off + q.size)) with
      | some q => if q.dieOff ≤ x.toNat then expectDieIn q x.toNat else Json.null
      | none => Json.null
    else Json.null
  | .lutDie c d =>
    match placed.find? (fun q => q.off == c) with
    | some q => expectDieIn q d
    | none => Json.null
  | .name nm =>
    match items with
    | none => Json.null
    | some items =>
      match assocGet? items nm with
      | none => Json.null
      | some (c, d) =>
        match placed.find? (fun q => q.off == c) with
        | some q => expectDieIn q d
        | none => Json.null
  | .top a byC =>
    match es with
    | none => Json.mkObj [("ok", Json.null)]
    | some es =>
      match cuOffsetAt es a with
      | none => Json.mkObj [("ok", Json.null)]
      | some o =>
        let q := if byC then (if o < total then placed.find? (fun q => decide (q.off ≤ o ∧ o < q.off + q.size)) else none)
                 else placed.find? (fun q => q.off == o)
        match q with
        | some q => expectDieIn q q.dieOff
        | none => Json.null

/-- does the operation call `get_CU_at` at an offset inside the section at which no unit starts (the parse there, if it
    succeeds, is cached: every later lookup is outside the property — see kind `res`) -/
def poisons (le : Bool) (us : List InfoUnit) (total : Nat) (es : Option (List AREntry))
    (items : Option (List (Bytes × Nat × Nat))) : DOp → Bool
  | .unit (.at_ x) => decide (x < total) && (unitAt le us x).isNone
  | .unit (.lut c _) => decide (c < total) && (unitAt le us c).isNone
  | .unit (.containing _) => false
  | .ref _ => false
  | .lutDie c _ => decide (c < total) && (unitAt le us c).isNone
  | .name nm =>
    match items with
    | none => false
    | some items =>
      match assocGet? items nm with
      | some (c, _) => decide (c < total) && (unitAt le us c).isNone
      | none => false
  | .top a byC =>
    !byC && (match es with
             | some es => (match cuOffsetAt es a with
                           | some o => decide (o < total) && (unitAt le us o).isNone
                           | none => false)
             | none => false)

def handleDie (req : Json) (le : Bool) (dasz : Nat) (S : DwarfStructs) : Except String Json := do
  let tables ← (← jArr req "abbrevs").mapM fun t => do
    let ds ← (← jArr t "decls").mapM Driver.C04.parseDecl
    return ({ gap := (Driver.C04.jHexOpt t "gap").getD [], decls := ds, endLen := jNatD t "end_len" 1 } : Spec.C04.TableDesc)
  let secs := Driver.C04.parseSecs ((req.getObjVal? "secs").toOption.getD (Json.mkObj []))
  let tbls := tables.map fun t => (t.decls, t.endLen)
  let units ← (← jArr req "units").mapM (Driver.C04.parseUnitReq tbls)
  let F := Driver.C04.forestOf le tables units [] secs
  let info := Spec.C04.infoSec F
  let abbrevB := Spec.C04.encTables F.tables
  let placed := Driver.C04.placeUnits F false units
  let layout := Json.arr (placed.map fun q =>
    Json.arr #[jN q.off, Json.arr (q.flat.map fun d => jN d.offset).toArray, jN q.dieOff, jN q.size]).toArray
  if (jBool req "probe").toOption.getD false then
    return Json.mkObj [("info", jHexOf info), ("abbrev", jHexOf abbrevB), ("layout", layout)]
  let nameSets : Option (List Spec.Lookup.NameSet) ← match (req.getObjVal? "names").toOption.getD Json.null with
    | .arr a => do pure (some (← a.toList.mapM parseNameSet))
    | _ => pure none
  let arSets : Option (List ARSet) ← match (req.getObjVal? "sets").toOption.getD Json.null with
    | .arr a => do pure (some (← a.toList.mapM parseSet))
    | _ => pure none
  let ops ← (← jArr req "ops").mapM parseDOp
  let namesB := nameSets.map (encNameSets le)
  let arB := arSets.map (encSets le 0)
  let items := nameSets.map fun ss => orderedLastWins (namePairs ss)
  let es := arSets.map (entriesOf le 0)
  let us := F.units.map (Spec.C04.infoUnitOf F)
  let total := info.length
  -- the hypotheses of ref_addr_resolution_exact / name_to_die_exact / addr_to_top_die that a generated case can fail
  let wfF := Spec.C04.wfForestB Driver.C04.names F
  let wfNames := match nameSets with | some ss => ss.all (wfNameSet le) | none => true
  let wfAr := match arSets with | some ss => wfSets le 0 ss && decide ((entriesOf le 0 ss).Pairwise noShadow) | none => true
  let poisoned := ops.any (poisons le us total es items)
  let some S0 := Model.dwarfStructsFor ⟨le, 32, dasz, 2⟩ | throw "no default bundle"
  let w := Driver.C04.mkWorld le dasz (some info) (some abbrevB) none secs
  let base := [("info", jHexOf info), ("abbrev", jHexOf abbrevB), ("layout", layout),
               ("names_bytes", match namesB with | some b => jHexOf b | none => Json.null),
               ("ar_bytes", match arB with | some b => jHexOf b | none => Json.null),
               ("wf", Json.bool wfF), ("wf_names", Json.bool wfNames), ("wf_ar", Json.bool wfAr),
               ("poisoned", Json.bool poisoned),
               ("expect", Json.arr (ops.map (expectDOp le us total placed items es)).toArray)]
  match getAranges (Model.dwarfEnv S0) S0 arB with
  | .error e => return Json.mkObj (base ++ [("model", Json.mkObj [("aranges", Json.mkObj [("err", Json.str e.name)])])])
  | .ok t =>
    let D : DieWorld := { w := w, S0 := S0, S := S, names := namesB, table := t }
    let (as, st) := runDOps D ops CUCache.empty []
    let scans := ops.filterMap fun op => match op with | .ref x => some (scanJson D x) | _ => none
    return Json.mkObj (base ++ [("model", Json.mkObj [("aranges", Json.mkObj [("ok", Json.null)]), ("answers", Json.arr as.toArray),
                                  ("offsets", Json.arr (st.offsets.map jN).toArray)]),
                                ("scan", Json.arr scans.toArray)])

def handle (req : Json) : Except String Json := do
  let k ← jStr req "k"
  let le ← jBool req "le"
  let dasz := jNatD req "dasz" 4
  let S ← bundleFor le dasz
  match k with
  | "ar" =>
    let sets ← (← jArr req "sets").mapM parseSet
    let addrs ← (← jArr req "addrs").mapM jNatOf
    let data := encSets le 0 sets
    let es := entriesOf le 0 sets
    let sorted := sortByBegin es
    let wfLookup := decide (es.Pairwise noShadow)
    return Json.mkObj [
      ("bytes", jHexOf data), ("wf", Json.bool (wfSets le 0 sets)), ("wf_lookup", Json.bool wfLookup),
      ("disjoint", Json.bool (decide (es.Pairwise disjoint) && es.all fun e => decide (0 < e.len))),
      ("expect", Json.mkObj [("entries", Json.arr (sorted.map entryJson).toArray),
                             ("lookups", Json.arr (addrs.map fun a => optNatJson (cuOffsetAt es a)).toArray)]),
      ("model", runAranges S data addrs)]
  | "ar_raw" =>
    let data ← jHex req "hex"
    let addrs ← (← jArr req "addrs").mapM jNatOf
    let ne := getEntries (Model.dwarfEnv S) S 32 data data.length true
    return Json.mkObj [("model", runAranges S data addrs),
                       ("need_empty", resJson (fun es => Json.arr (es.map entryJson).toArray) ne)]
  | "nm" =>
    let sets ← (← jArr req "sets").mapM parseNameSet
    let data := encNameSets le sets
    let pairs := namePairs sets
    let distinct := decide ((pairs.map (·.1)).Nodup)
    return Json.mkObj [
      ("bytes", jHexOf data), ("wf", Json.bool (sets.all (wfNameSet le))), ("distinct", Json.bool distinct),
      -- the declarative content (Spec/DwarfNameOrder.lean): distinct names in order of first occurrence, each with
      -- the value of its last occurrence; `Props.C13.names_exact_ordered`
      ("expect", namesJson (orderedLastWins pairs, sets.map (nameHdrVal le))),
      ("model", resJson namesJson (nameGetEntries (Model.dwarfEnv S) S 32 data data.length))]
  | "nm_raw" =>
    -- "hex": null = the section is absent: get_pubnames() / get_pubtypes() answer None
    let sec : Option Bytes ← match (req.getObjVal? "hex").toOption.getD Json.null with
      | .null => pure none
      | _ => do pure (some (← jHex req "hex"))
    let optJson : Option (NameDict × List Val) → Json := fun o => match o with | some r => namesJson r | none => Json.null
    return Json.mkObj [("model", resJson optJson (getNameLUT (Model.dwarfEnv S) S sec))]
  | "cu" =>
    let us ← (← jArr req "units").mapM parseUnit
    let ops ← (← jArr req "ops").mapM parseOp
    let data := encUnits le us
    return Json.mkObj [
      ("bytes", jHexOf data), ("wf", Json.bool (us.all (wfUnit le))),
      ("starts", Json.arr ((unitStarts le 0 us).map fun p => Json.arr #[jN p.1, jN (unitSize le p.2),
          jN (unitObs le p.1 p.2).dieOff]).toArray),
      ("expect", Json.arr (ops.map (expectOp le us data.length)).toArray),
      ("model", runCU S le data ops)]
  | "cu_raw" =>
    let data ← jHex req "hex"
    let ops ← (← jArr req "ops").mapM parseOp
    return Json.mkObj [("model", runCU S le data ops)]
  | "res" =>
    -- "sets": null = no .debug_aranges section; "units": null = no .debug_info section
    let setsJ := (req.getObjVal? "sets").toOption.getD Json.null
    let unitsJ := (req.getObjVal? "units").toOption.getD Json.null
    let sets : Option (List ARSet) ← match setsJ with
      | .arr a => do pure (some (← a.toList.mapM parseSet))
      | _ => pure none
    let us : Option (List InfoUnit) ← match unitsJ with
      | .arr a => do pure (some (← a.toList.mapM parseUnit))
      | _ => pure none
    let qs ← (← jArr req "queries").mapM fun q =>
      match q with
      | .arr #[a, .bool b] => do return ((← jNatOf a), b)
      | _ => throw "bad query"
    let ops ← (← jArr req "ops").mapM parseOp
    let ar := sets.map (encSets le 0)
    let info := us.map (encUnits le)
    let es := sets.map (entriesOf le 0)
    let total := (info.map (·.length)).getD 0
    let usL := us.getD []
    -- the hypotheses of Props.C13.addr_to_unit that can fail for a generated case
    let wfAr := match sets with | some ss => wfSets le 0 ss && decide ((entriesOf le 0 ss).Pairwise noShadow) | none => true
    let wfInfo := us.isSome && usL.all (wfUnit le)
    -- `get_CU_at(o)` parses at `o` without validation and caches the result: called with an offset at which no unit
    -- starts it poisons the unit cache for all later lookups (by design, DESIGN.md §6 C10; outside the property and outside
    -- `hstarts` of `addr_to_unit`).  Such a history is compared with the model only.
    let poisoned := qs.any fun q =>
      !q.2 && (match es with
               | some es => (match cuOffsetAt es q.1 with
                             | some o => (unitAt le usL o).isNone
                             | none => false)
               | none => false)
    return Json.mkObj [
      ("ar_bytes", match ar with | some b => jHexOf b | none => Json.null),
      ("info_bytes", match info with | some b => jHexOf b | none => Json.null),
      ("wf", Json.bool (wfAr && wfInfo)), ("poisoned", Json.bool poisoned),
      ("starts", Json.arr ((unitStarts le 0 usL).map fun p => Json.arr #[jN p.1, jN (unitSize le p.2),
          jN (unitObs le p.1 p.2).dieOff]).toArray),
      ("table_entries", match es with | some es => Json.arr ((sortByBegin es).map entryJson).toArray | none => Json.null),
      ("expect_resolved", Json.arr (qs.map (expectQuery le es usL total)).toArray),
      ("expect_answers", Json.arr (ops.map (expectOp le usL total)).toArray),
      ("model", runRes S le ar info qs ops)]
  | "die" => handleDie req le dasz S
  | _ => throw s!"C13: unknown kind {k}"

end PyElf.Driver.C13
