import PyElf.Driver.Json
import PyElf.Spec.GnuVersions
import PyElf.Model.ElfFile
import PyElf.Model.GnuVersions
import PyElf.Model.Env
open Lean
namespace PyElf.Driver.C15
open PyElf PyElf.Spec PyElf.Model

/-! ### JSON ⇄ abstract contents -/

def needAuxOf (j : Json) : Except String NeedAux := do
  pure { r := { hash := ← jNat j "hash", flags := ← jNat j "flags", other := ← jNat j "other",
                name := ← jNat j "name", next := ← jNat j "next" },
         name := ← jHex j "nameBytes" }

def needEntryOf (j : Json) : Except String NeedEntry := do
  let auxs ← (← jArr j "auxs").mapM needAuxOf
  let cnt := (jNat j "cnt").toOption.getD auxs.length
  pure { r := { version := ← jNat j "version", cnt := cnt, file := ← jNat j "file", aux := ← jNat j "aux",
                next := ← jNat j "next" },
         file := ← jHex j "fileName", auxs := auxs }

def defAuxOf (j : Json) : Except String DefAux := do
  pure { r := { name := ← jNat j "name", next := ← jNat j "next" }, name := ← jHex j "nameBytes" }

def defEntryOf (j : Json) : Except String DefEntry := do
  let auxs ← (← jArr j "auxs").mapM defAuxOf
  let cnt := (jNat j "cnt").toOption.getD auxs.length
  pure { r := { version := ← jNat j "version", flags := ← jNat j "flags", ndx := ← jNat j "ndx", cnt := cnt,
                hash := ← jNat j "hash", aux := ← jNat j "aux", next := ← jNat j "next" },
         auxs := auxs }

def symOf (j : Json) : Except String Sym := do
  pure { name := ← jNat j "name", value := ← jNat j "value", size := ← jNat j "size", bind := ← jNat j "bind",
         type := ← jNat j "type", local_ := ← jNat j "local", visibility := ← jNat j "visibility",
         shndx := ← jNat j "shndx" }

def rowOf (j : Json) : Except String (Sym × VersymRow) := do
  pure (← symOf (← j.getObjVal? "sym"), { ndx := ← jNat j "ndx", symName := ← jHex j "symName" })

/-! ### observations → JSON (one canonical shape for spec, model and implementation) -/

def jB (b : Bytes) : Json := Json.mkObj [("b", Json.str b.toHex)]
def jOptB : Option Bytes → Json
  | some b => jB b
  | none => Json.null
def auxJson (a : Val × Bytes) : Json := Json.arr #[a.1.toJson, jB a.2]
def verJson (v : Val × Option Bytes × List (Val × Bytes)) : Json :=
  Json.arr #[v.1.toJson, jOptB v.2.1, Json.arr (v.2.2.map auxJson).toArray]
def needHitJson : Option (Val × Option Bytes × Val × Bytes) → Json
  | some (e, n, a, an) => Json.arr #[e.toJson, jOptB n, a.toJson, jB an]
  | none => Json.null
def defHitJson : Option (Val × List (Val × Bytes)) → Json
  | some (e, auxs) => Json.arr #[e.toJson, Json.arr (auxs.map auxJson).toArray]
  | none => Json.null
def symJson (s : Val × Bytes) : Json := Json.arr #[s.1.toJson, jB s.2]

def okJ (j : Json) : Json := Json.mkObj [("ok", j)]

/-! ### the property's expectation, from the abstract contents -/

def expectNeed (es : List NeedEntry) (queries : List Nat) : Json :=
  Json.mkObj [
    ("num", okJ (jN es.length)),
    ("versions", okJ (Json.arr (es.map fun e => verJson e.obs).toArray)),
    ("has_indexes", okJ (Json.bool (needHasIndexes es))),
    ("get", Json.arr (queries.map fun q =>
      okJ (needHitJson ((needFind q es).map fun (e, a) => (e.r.obs, some e.file, a.r.obs, a.name)))).toArray),
    ("carriers", Json.arr (queries.map fun q =>
      Json.arr ((needCarriers q es).map fun (e, a) => needHitJson (some (e.r.obs, some e.file, a.r.obs, a.name))).toArray).toArray)]

def expectDef (es : List DefEntry) (queries : List Nat) : Json :=
  Json.mkObj [
    ("num", okJ (jN es.length)),
    ("versions", okJ (Json.arr (es.map fun e => verJson e.obs).toArray)),
    ("get", Json.arr (queries.map fun q =>
      okJ (defHitJson ((defFind q es).map fun e => (e.r.obs, e.auxs.map DefAux.obs)))).toArray),
    ("carriers", Json.arr (queries.map fun q =>
      Json.arr ((es.filter fun e => e.r.ndx == q).map fun e => defHitJson (some (e.r.obs, e.auxs.map DefAux.obs))).toArray).toArray)]

def expectVersym (rows : List VersymRow) (queries : List Nat) : Json :=
  Json.mkObj [
    ("num", okJ (jN rows.length)),
    ("symbols", okJ (Json.arr (rows.map fun x => symJson x.obs).toArray)),
    ("get", Json.arr (queries.map fun q =>
      match rows[q]? with
      | some x => okJ (symJson x.obs)
      | none => Json.null).toArray)]     -- beyond the table: outside the property

/-! ### the model, from the file bytes -/

def linkedHeader (f : ElfFile) (n : Nat) : R Val := do
  match ← getSectionHeader elfEnv f.S f.data f.header n with
  | some h => pure h
  | none => throw .typeError

def modelObserve (data : Bytes) (sec : Nat) (queries : List Nat) : R Json := do
  let f ← openElf elfEnv elfStructsFor machineClassOf data
  let (kind, _, sh) ← getSection elfEnv f.S data f.header f.shstr sec
  if kind == "GNUVerNeedSection" || kind == "GNUVerDefSection" then
    let need := kind == "GNUVerNeedSection"
    let st ← linkedHeader f (← sh.getNat "sh_link")
    let mk := if need then VerSec.mkNeed else VerSec.mkDef
    let vs : VerSec := mk f.S data (← sh.getNat "sh_offset") (← sh.getNat "sh_info") (← st.getNat "sh_offset")
    let common : List (String × Json) := [
      ("kind", Json.str kind),
      ("num", okJ (jN vs.numVersions)),
      ("versions", resJson (fun l => Json.arr (l.map verJson).toArray) (vs.versions elfEnv))]
    if need then
      return Json.mkObj (common ++ [
        ("has_indexes", resJson Json.bool (vs.hasIndexes elfEnv)),
        ("get", Json.arr (queries.map fun q => resJson needHitJson (vs.needGetVersion elfEnv q)).toArray)])
    else
      return Json.mkObj (common ++ [
        ("get", Json.arr (queries.map fun q => resJson defHitJson (vs.defGetVersion elfEnv q)).toArray)])
  else if kind == "GNUVerSymSection" then
    let symh ← linkedHeader f (← sh.getNat "sh_link")
    let strh ← linkedHeader f (← symh.getNat "sh_link")
    let v : VersymSec := VersymSec.mk' f.S data (← sh.getNat "sh_offset") (← sh.getNat "sh_size")
      (← sh.getNat "sh_entsize") (← symh.getNat "sh_offset") (← symh.getNat "sh_entsize") (← strh.getNat "sh_offset")
    return Json.mkObj [
      ("kind", Json.str kind),
      ("num", resJson jN v.numSymbols),
      ("symbols", resJson (fun l => Json.arr (l.map symJson).toArray) (v.symbols elfEnv)),
      ("get", Json.arr (queries.map fun q => resJson symJson (v.getSymbol elfEnv q)).toArray)]
  else
    return Json.mkObj [("kind", Json.str kind)]

def queriesOf (req : Json) : Except String (List Nat) := do
  match req.getObjVal? "queries" with
  | .ok (Json.arr a) => a.toList.mapM jNatOf
  | _ => pure []

def byteOf (req : Json) (k : String) : UInt8 := UInt8.ofNat ((jNat req k).toOption.getD 0)

def handle (req : Json) : Except String Json := do
  let k ← jStr req "k"
  match k with
  | "asm" =>
    -- abstract contents → section bytes, by the Spec assembler
    let ast ← req.getObjVal? "ast"
    let kind ← jStr ast "kind"
    let le ← jBool ast "le"
    let fill := byteOf ast "fill"
    match kind with
    | "need" =>
      let es ← (← jArr ast "entries").mapM needEntryOf
      return Json.mkObj [("content", jHexOf (assembleNeed le fill (← jNat ast "size") es))]
    | "def" =>
      let es ← (← jArr ast "entries").mapM defEntryOf
      return Json.mkObj [("content", jHexOf (assembleDef le fill (← jNat ast "size") es))]
    | "versym" =>
      let rows ← (← jArr ast "rows").mapM rowOf
      let cls ← jNat ast "cls"
      return Json.mkObj [
        ("content", jHexOf (assembleVersym le fill (← jNat ast "entsize") (rows.map (·.2)))),
        ("symtab", jHexOf (assembleSyms cls le fill (← jNat ast "symentsize") (rows.map (·.1))))]
    | _ => throw s!"C15 asm: unknown kind {kind}"
  | "check" =>
    -- file bytes + abstract contents → wf (the layout predicate on the file), expectation, model
    let ast ← req.getObjVal? "ast"
    let kind ← jStr ast "kind"
    let le ← jBool ast "le"
    let data ← jHex req "hex"
    let sec ← jNat req "sec"
    let off ← jNat req "off"
    let queries ← queriesOf req
    let model := resJson id (modelObserve data sec queries)
    let small := decide (data.length < 2 ^ 63)
    match kind with
    | "need" =>
      let es ← (← jArr ast "entries").mapM needEntryOf
      let wf := needLayout le data (← jNat req "strOff") off es && (← jNat req "shInfo") == es.length && small
      return Json.mkObj [("wf", Json.bool wf), ("expect", okJ (expectNeed es queries)), ("model", model)]
    | "def" =>
      let es ← (← jArr ast "entries").mapM defEntryOf
      let wf := defLayout le data (← jNat req "strOff") off es && (← jNat req "shInfo") == es.length && small
      return Json.mkObj [("wf", Json.bool wf), ("expect", okJ (expectDef es queries)), ("model", model)]
    | "versym" =>
      let rows ← (← jArr ast "rows").mapM rowOf
      let cls ← jNat ast "cls"
      let es ← jNat ast "entsize"
      let wf := versymAt le data off es 0 (rows.map (·.2))
        && symsAt cls le data (← jNat req "symOff") (← jNat ast "symentsize") (← jNat req "symStrOff") 0 rows
        && decide (0 < es) && (← jNat req "shSize") / es == rows.length && small
      return Json.mkObj [("wf", Json.bool wf), ("expect", okJ (expectVersym (rows.map (·.2)) queries)), ("model", model)]
    | _ => throw s!"C15 check: unknown kind {kind}"
  | "raw" =>
    let data ← jHex req "hex"
    let sec ← jNat req "sec"
    return Json.mkObj [("model", resJson id (modelObserve data sec (← queriesOf req)))]
  | _ => throw s!"C15: unknown kind {k}"

end PyElf.Driver.C15
