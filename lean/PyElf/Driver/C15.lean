import PyElf.Driver.Json
import PyElf.Spec.GnuVersions
import PyElf.Spec.GnuVersionsImage
import PyElf.Spec.ElfImageFast
import PyElf.Model.ElfFile
import PyElf.Model.GnuVersions
import PyElf.Model.GnuVersionsFile
import PyElf.Model.VerCache
import PyElf.Model.Env
open Lean
namespace PyElf.Driver.C15
open PyElf PyElf.Spec PyElf.Spec.C15 PyElf.Model PyElf.Model.C15

/-! ### JSON ⇄ abstract contents -/

def needAuxOf (j : Json) : Except String NeedAux := do
  pure { r := { hash := ← jNat j "hash", flags := ← jNat j "flags", other := ← jNat j "other",
                name := ← jNat j "name", next := ← jNat j "next" },
         name := ← jHex j "nameBytes" }

def needEntryOf (j : Json) : Except String NeedEntry := do
  let auxs ← (← jArr j "auxs").mapM needAuxOf
  let cnt := (jNat j "cnt").toOption.getD auxs.length
  pure { r := { version := ← jNat j "version", cnt := cnt, file := ← jNat j "file", aux := ← jNat j "aux",
                next := ← jNat j "next" },
         file := ← jHex j "fileName", auxs := auxs }

def defAuxOf (j : Json) : Except String DefAux := do
  pure { r := { name := ← jNat j "name", next := ← jNat j "next" }, name := ← jHex j "nameBytes" }

def defEntryOf (j : Json) : Except String DefEntry := do
  let auxs ← (← jArr j "auxs").mapM defAuxOf
  let cnt := (jNat j "cnt").toOption.getD auxs.length
  pure { r := { version := ← jNat j "version", flags := ← jNat j "flags", ndx := ← jNat j "ndx", cnt := cnt,
                hash := ← jNat j "hash", aux := ← jNat j "aux", next := ← jNat j "next" },
         auxs := auxs }

def symOf (j : Json) : Except String Sym := do
  pure { name := ← jNat j "name", value := ← jNat j "value", size := ← jNat j "size", bind := ← jNat j "bind",
         type := ← jNat j "type", local_ := ← jNat j "local", visibility := ← jNat j "visibility",
         shndx := ← jNat j "shndx" }

def rowOf (j : Json) : Except String (Sym × VersymRow) := do
  pure (← symOf (← j.getObjVal? "sym"), { ndx := ← jNat j "ndx", symName := ← jHex j "symName" })

/-! ### JSON → abstract ELF image (same shape as C01's `ast`) -/

def fieldsOf (j : Json) : Except String Fields := do
  match ← Val.ofJson j with
  | .record fs => pure fs
  | _ => throw "expected a record"

def descOfJson (j : Json) : Except String ElfDesc := do
  let secs ← (← jArr j "sections").mapM fun s => do
    let body ← match s.getObjVal? "body" with
      | .ok (Json.str h) => match Bytes.ofHex h with
          | some b => pure (some b)
          | none => throw "bad body hex"
      | _ => pure none
    pure ({ name := ← jHex s "name", hdr := ← fieldsOf (← s.getObjVal? "hdr"), body := body,
            nameOff := ← jNat s "nameOff" } : SecDesc)
  let segs ← (← jArr j "segments").mapM fieldsOf
  pure { cls := ← jNat j "cls", le := ← jBool j "le", mclass := ← jStr j "mclass",
         solaris := ← jBool j "solaris", core := ← jBool j "core",
         ehdr := ← fieldsOf (← j.getObjVal? "ehdr"),
         shoff := ← jNat j "shoff", phoff := ← jNat j "phoff",
         shentsize := ← jNat j "shentsize", phentsize := ← jNat j "phentsize",
         sections := secs, segments := segs, shstrndx := ← jNat j "shstrndx" }

def optNat : Option Nat → Json
  | some n => jN n
  | none => Json.null

/-! ### observations → JSON (one canonical shape for spec, model and implementation) -/

def jB (b : Bytes) : Json := Json.mkObj [("b", Json.str b.toHex)]
def jOptB : Option Bytes → Json
  | some b => jB b
  | none => Json.null
def auxJson (a : Val × Bytes) : Json := Json.arr #[a.1.toJson, jB a.2]
def verJson (v : Val × Option Bytes × List (Val × Bytes)) : Json :=
  Json.arr #[v.1.toJson, jOptB v.2.1, Json.arr (v.2.2.map auxJson).toArray]
def needHitJson : Option (Val × Option Bytes × Val × Bytes) → Json
  | some (e, n, a, an) => Json.arr #[e.toJson, jOptB n, a.toJson, jB an]
  | none => Json.null
def defHitJson : Option (Val × List (Val × Bytes)) → Json
  | some (e, auxs) => Json.arr #[e.toJson, Json.arr (auxs.map auxJson).toArray]
  | none => Json.null
def symJson (s : Val × Bytes) : Json := Json.arr #[s.1.toJson, jB s.2]

def okJ (j : Json) : Json := Json.mkObj [("ok", j)]

/-! ### the property's expectation, from the abstract contents -/

def expectNeed (es : List NeedEntry) (queries : List Nat) : Json :=
  Json.mkObj [
    ("num", okJ (jN es.length)),
    ("versions", okJ (Json.arr (es.map fun e => verJson e.obs).toArray)),
    ("has_indexes", okJ (Json.bool (needHasIndexes es))),
    ("get", Json.arr (queries.map fun q =>
      okJ (needHitJson ((needFind q es).map fun (e, a) => (e.r.obs, some e.file, a.r.obs, a.name)))).toArray),
    ("carriers", Json.arr (queries.map fun q =>
      Json.arr ((needCarriers q es).map fun (e, a) => needHitJson (some (e.r.obs, some e.file, a.r.obs, a.name))).toArray).toArray)]

def expectDef (es : List DefEntry) (queries : List Nat) : Json :=
  Json.mkObj [
    ("num", okJ (jN es.length)),
    ("versions", okJ (Json.arr (es.map fun e => verJson e.obs).toArray)),
    ("get", Json.arr (queries.map fun q =>
      okJ (defHitJson ((defFind q es).map fun e => (e.r.obs, e.auxs.map DefAux.obs)))).toArray),
    ("carriers", Json.arr (queries.map fun q =>
      Json.arr ((es.filter fun e => e.r.ndx == q).map fun e => defHitJson (some (e.r.obs, e.auxs.map DefAux.obs))).toArray).toArray)]

def errJ (e : Err) : Json := Json.mkObj [("err", Json.str e.name)]

/-- the declared count exceeds the chain and the walk is sent out of the file (`need_truncated`) -/
def expectNeedTrunc (declared : Nat) (es : List NeedEntry) (queries : List Nat) : Json :=
  Json.mkObj [
    ("num", okJ (jN declared)),
    ("versions", errJ .elfParseError),
    ("has_indexes", errJ .elfParseError),
    ("get", Json.arr (queries.map fun q =>
      match needFind q es with
      | some (e, a) => okJ (needHitJson (some (e.r.obs, some e.file, a.r.obs, a.name)))
      | none => errJ .elfParseError).toArray),
    ("carriers", Json.arr (queries.map fun q =>
      Json.arr ((needCarriers q es).map fun (e, a) => needHitJson (some (e.r.obs, some e.file, a.r.obs, a.name))).toArray).toArray)]

def expectDefTrunc (declared : Nat) (es : List DefEntry) (queries : List Nat) : Json :=
  Json.mkObj [
    ("num", okJ (jN declared)),
    ("versions", errJ .elfParseError),
    ("get", Json.arr (queries.map fun q =>
      match defFind q es with
      | some e => okJ (defHitJson (some (e.r.obs, e.auxs.map DefAux.obs)))
      | none => errJ .elfParseError).toArray),
    ("carriers", Json.arr (queries.map fun q =>
      Json.arr ((es.filter fun e => e.r.ndx == q).map fun e => defHitJson (some (e.r.obs, e.auxs.map DefAux.obs))).toArray).toArray)]

/-- the last entry's count exceeds its auxiliary chain, which leaves the file (`need_aux_truncated`):
    only the enumeration as a whole is determined -/
def expectAuxTrunc (declared : Nat) : Json :=
  Json.mkObj [("num", okJ (jN declared)), ("versions", errJ .elfParseError)]

/-- … and, for requirements, `get_version` (`need_aux_truncated_get`): `es` are the complete entries and the
    partial one, whose `auxs` are the chained auxiliaries -/
def expectNeedAuxTrunc (declared : Nat) (es : List NeedEntry) (queries : List Nat) : Json :=
  Json.mkObj [
    ("num", okJ (jN declared)),
    ("versions", errJ .elfParseError),
    ("get", Json.arr (queries.map fun q =>
      match needFind q es with
      | some (e, a) => okJ (needHitJson (some (e.r.obs, some e.file, a.r.obs, a.name)))
      | none => errJ .elfParseError).toArray),
    ("carriers", Json.arr (queries.map fun q =>
      Json.arr ((needCarriers q es).map fun (e, a) => needHitJson (some (e.r.obs, some e.file, a.r.obs, a.name))).toArray).toArray)]

def expectVersym (rows : List VersymRow) (queries : List Nat) : Json :=
  Json.mkObj [
    ("num", okJ (jN rows.length)),
    ("symbols", okJ (Json.arr (rows.map fun x => symJson x.obs).toArray)),
    ("get", Json.arr (queries.map fun q =>
      match rows[q]? with
      | some x => okJ (symJson x.obs)
      | none => Json.null).toArray)]     -- beyond the table: outside the property

/-! ### the model, from the file bytes -/

/-- everything the harness observes of a section object (`Model.C15.getVerSection` mirrors how
    `ELFFile.get_section` builds it) -/
def observeObj (obj : VerObj) (queries : List Nat) : Json :=
  match obj with
  | .need vs =>
    Json.mkObj [
      ("kind", Json.str "GNUVerNeedSection"),
      ("num", okJ (jN vs.numVersions)),
      ("versions", resJson (fun l => Json.arr (l.map verJson).toArray) (vs.versions elfEnv)),
      ("has_indexes", resJson Json.bool (vs.hasIndexes elfEnv)),
      -- three calls on ONE object, through the model of the cache `_has_indexes` (Model/VerCache; Props/C15
      -- `has_indexes_history_independent`)
      ("has_indexes_hist", Json.arr ((vs.hasIndexesHist elfEnv 3).1.map (resJson Json.bool)).toArray),
      ("get", Json.arr (queries.map fun q => resJson needHitJson (vs.needGetVersion elfEnv q)).toArray)]
  | .def_ vs =>
    Json.mkObj [
      ("kind", Json.str "GNUVerDefSection"),
      ("num", okJ (jN vs.numVersions)),
      ("versions", resJson (fun l => Json.arr (l.map verJson).toArray) (vs.versions elfEnv)),
      ("get", Json.arr (queries.map fun q => resJson defHitJson (vs.defGetVersion elfEnv q)).toArray)]
  | .versym v =>
    Json.mkObj [
      ("kind", Json.str "GNUVerSymSection"),
      ("num", resJson jN v.numSymbols),
      ("symbols", resJson (fun l => Json.arr (l.map symJson).toArray) (v.symbols elfEnv)),
      ("get", Json.arr (queries.map fun q => resJson symJson (v.getSymbol elfEnv q)).toArray)]
  | .other kind => Json.mkObj [("kind", Json.str kind)]

def modelObserve (data : Bytes) (sec : Nat) (queries : List Nat) : R Json := do
  let f ← openElf elfEnv elfStructsFor machineClassOf data
  return observeObj (← getVerSection elfEnv f sec) queries

/-- `ELFFile(...).get_section_by_name(name)` on a fresh file object, observed the same way -/
def modelObserveByName (data : Bytes) (name : Bytes) (queries : List Nat) : R Json := do
  let f ← openElf elfEnv elfStructsFor machineClassOf data
  match ← getVerSectionByName elfEnv f name with
  | some obj => return observeObj obj queries
  | none => return Json.mkObj [("kind", Json.null)]

def queriesOf (req : Json) : Except String (List Nat) := do
  match req.getObjVal? "queries" with
  | .ok (Json.arr a) => a.toList.mapM jNatOf
  | _ => pure []

def byteOf (req : Json) (k : String) : UInt8 := UInt8.ofNat ((jNat req k).toOption.getD 0)

def handle (req : Json) : Except String Json := do
  let k ← jStr req "k"
  match k with
  | "asm" =>
    -- abstract contents → section bytes, by the Spec assembler
    let ast ← req.getObjVal? "ast"
    let kind ← jStr ast "kind"
    let le ← jBool ast "le"
    let fill := byteOf ast "fill"
    match kind with
    | "need" =>
      let es ← (← jArr ast "entries").mapM needEntryOf
      return Json.mkObj [("content", jHexOf (assembleNeed le fill (← jNat ast "size") es))]
    | "def" =>
      let es ← (← jArr ast "entries").mapM defEntryOf
      return Json.mkObj [("content", jHexOf (assembleDef le fill (← jNat ast "size") es))]
    | "versym" =>
      let rows ← (← jArr ast "rows").mapM rowOf
      let cls ← jNat ast "cls"
      return Json.mkObj [
        ("content", jHexOf (assembleVersym le fill (← jNat ast "entsize") (rows.map (·.2)))),
        ("symtab", jHexOf (assembleSyms cls le fill (← jNat ast "symentsize") (rows.map (·.1))))]
    | _ => throw s!"C15 asm: unknown kind {kind}"
  | "check" =>
    -- file bytes + abstract contents → wf (the layout predicate on the file), expectation, model
    let ast ← req.getObjVal? "ast"
    let kind ← jStr ast "kind"
    let le ← jBool ast "le"
    let data ← jHex req "hex"
    let sec ← jNat req "sec"
    let off ← jNat req "off"
    let queries ← queriesOf req
    let model := resJson id (modelObserve data sec queries)
    let small := decide (data.length < 2 ^ 63)
    -- "trunc": the hypotheses of `need_truncated` / `def_truncated`; "auxtrunc": of `need_aux_truncated` /
    -- `def_aux_truncated` (the last entry is the partial one); otherwise of the `_exact` theorems
    let mode := (jStr req "mode").toOption.getD "exact"
    match kind with
    | "need" =>
      let es ← (← jArr ast "entries").mapM needEntryOf
      let strOff ← jNat req "strOff"
      let shInfo ← jNat req "shInfo"
      if mode == "trunc" then
        let wf := needTruncated le data strOff off es shInfo && small
        return Json.mkObj [("wf", Json.bool wf), ("expect", okJ (expectNeedTrunc shInfo es queries)), ("model", model)]
      else if mode == "auxtrunc" then
        let wf := match es.getLast? with
          | some e => needLayout le data strOff off es.dropLast &&
              NeedEntry.atPartial le data strOff (chainEnd (fun e : NeedEntry => e.r.next) off es.dropLast) e &&
              decide (es.dropLast.length < shInfo) && small
          | none => false
        return Json.mkObj [("wf", Json.bool wf), ("expect", okJ (expectNeedAuxTrunc shInfo es queries)), ("model", model)]
      else
        let wf := needLayout le data strOff off es && shInfo == es.length && small
        return Json.mkObj [("wf", Json.bool wf), ("expect", okJ (expectNeed es queries)), ("model", model)]
    | "def" =>
      let es ← (← jArr ast "entries").mapM defEntryOf
      let strOff ← jNat req "strOff"
      let shInfo ← jNat req "shInfo"
      if mode == "trunc" then
        let wf := defTruncated le data strOff off es shInfo && small
        return Json.mkObj [("wf", Json.bool wf), ("expect", okJ (expectDefTrunc shInfo es queries)), ("model", model)]
      else if mode == "auxtrunc" then
        let wf := match es.getLast? with
          | some e => defLayout le data strOff off es.dropLast &&
              DefEntry.atPartial le data strOff (chainEnd (fun e : DefEntry => e.r.next) off es.dropLast) e &&
              decide (es.dropLast.length < shInfo) && small
          | none => false
        return Json.mkObj [("wf", Json.bool wf), ("expect", okJ (expectAuxTrunc shInfo)), ("model", model)]
      else
        let wf := defLayout le data strOff off es && shInfo == es.length && small
        return Json.mkObj [("wf", Json.bool wf), ("expect", okJ (expectDef es queries)), ("model", model)]
    | "versym" =>
      let rows ← (← jArr ast "rows").mapM rowOf
      let cls ← jNat ast "cls"
      let es ← jNat ast "entsize"
      let wf := versymAt le data off es 0 (rows.map (·.2))
        && symsAt cls le data (← jNat req "symOff") (← jNat ast "symentsize") (← jNat req "symStrOff") 0 rows
        && decide (0 < es) && (← jNat req "shSize") / es == rows.length && small
      return Json.mkObj [("wf", Json.bool wf), ("expect", okJ (expectVersym (rows.map (·.2)) queries)), ("model", model)]
    | _ => throw s!"C15 check: unknown kind {kind}"
  | "file" =>
    -- a whole abstract image (C01's `ElfDesc`) one of whose sections is the assembled version section:
    -- bytes by the Spec assemblers, wf = the Spec's well-formedness of the DESCRIPTION (no layout
    -- predicate is evaluated on the bytes), expectation, model by index and by name
    let d ← descOfJson (← req.getObjVal? "desc")
    let ast ← req.getObjVal? "ast"
    let kind ← jStr ast "kind"
    let fill := byteOf ast "fill"
    let sec ← jNat req "sec"
    let tail := (jNat req "tail").toOption.getD 0
    let queries ← queriesOf req
    let names ← (← jArr req "names").mapM fun q => match q with
      | Json.str h => match Bytes.ofHex h with
          | some b => pure b
          | none => throw "bad name hex"
      | _ => throw "bad name"
    match d.assembleFast tail with
    | none => return Json.mkObj [("wf", Json.bool false), ("why", "not encodable")]
    | some bytes =>
      let fits := imageFits d tail
      let model := resJson id (modelObserve bytes sec queries)
      let byName := Json.arr (names.map fun nm => resJson id (modelObserveByName bytes nm queries)).toArray
      let idx := Json.arr (names.map fun nm => optNat (d.indexOfName nm)).toArray
      let common : List (String × Json) := [("bytes", jHexOf bytes), ("model", model), ("modelByName", byName),
        ("indexOfName", idx), ("observable", Json.bool (observable elfEnv d))]
      match kind with
      | "need" =>
        let es ← (← jArr ast "entries").mapM needEntryOf
        let declared ← jNat req "declared"
        let wf := needFileWf elfEnv d sec fill (← jNat ast "size") es declared && fits
        return Json.mkObj (common ++ [("wf", Json.bool wf), ("expect", okJ (expectNeed (es.take declared) queries))])
      | "def" =>
        let es ← (← jArr ast "entries").mapM defEntryOf
        let declared ← jNat req "declared"
        let wf := defFileWf elfEnv d sec fill (← jNat ast "size") es declared && fits
        return Json.mkObj (common ++ [("wf", Json.bool wf), ("expect", okJ (expectDef (es.take declared) queries))])
      | "versym" =>
        let rows ← (← jArr ast "rows").mapM rowOf
        let slack ← jHex req "slack"
        let more ← jHex req "moreSyms"
        let wf := versymFileWf elfEnv d sec fill rows slack more && fits
        return Json.mkObj (common ++ [("wf", Json.bool wf), ("expect", okJ (expectVersym (rows.map (·.2)) queries))])
      | _ => throw s!"C15 file: unknown kind {kind}"
  | "raw" =>
    let data ← jHex req "hex"
    let sec ← jNat req "sec"
    return Json.mkObj [("model", resJson id (modelObserve data sec (← queriesOf req)))]
  | _ => throw s!"C15: unknown kind {k}"

end PyElf.Driver.C15
