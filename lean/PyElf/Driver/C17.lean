import PyElf.Driver.Json
import PyElf.Spec.Registry
import PyElf.Gen.Tables
import PyElf.Gen.Extra_C17
import PyElf.Model.Env
import PyElf.Spec.RegistryDecisions
import PyElf.Spec.RegistryMarkers
open Lean
namespace PyElf.Driver.C17
open PyElf PyElf.Spec

def jInts (vs : List Int) : Json := Json.arr (vs.map jI).toArray

/-- every generated table, by id: the String-keyed entries and the Nat-keyed ones the theorems walk -/
def allTables : List (String × List (String × Int)) :=
  Gen.tables.map (fun t => (t.1, t.2.1)) ++ Gen.constTables

def tableOf (tid : String) : Option (List (String × Int)) :=
  (allTables.find? (·.1 == tid)).map (·.2)

def regValues (name : String) : Option (List Int) := Registry.tree.lookup (nameKey name)

def isLegacy (name : String) (v : Int) : Bool :=
  Spec.legacyAliases.any fun (k, x) => k == nameKey name && x == v

/-- registry verdict on "code `v` is reported as / carries the name `name`" -/
def verdict (name : String) (v : Int) : Json :=
  match regValues name with
  | some vs => Json.mkObj [("known", Json.bool true), ("ok", Json.bool (vs.contains v)), ("values", jInts vs)]
  | none => Json.mkObj [("known", Json.bool false), ("ok", Json.bool true), ("values", Json.arr #[])]

def handle (req : Json) : Except String Json := do
  let k ← jStr req "k"
  match k with
  | "registry" =>
    -- the vendored registry as the theorems see it (for the TSV tie)
    return Json.mkObj [("entries", Json.arr (Registry.tree.toNamed.map fun (n, key, vs) =>
      Json.arr #[Json.str n, jN key, jInts vs]).toArray),
      ("ordered", Json.bool (Registry.tree.bounded 0 Registry.keyBound)),
      ("size", jN Registry.size)]
  | "tables" =>
    -- the regenerated tables as the theorems see them (for the regeneration tie)
    let idx := Gen.tableIndex.map fun (key, id, e, t) =>
      Json.mkObj [("key", jN key), ("id", Json.str id), ("enum", Json.bool e),
                  ("keys", Json.arr (t.map fun (k, v) => Json.arr #[jN k, jI v]).toArray),
                  ("markers", match Spec.findMarkers key Gen.markerIndex with
                              | some ms => Json.arr (ms.map Json.bool).toArray
                              | none => Json.null)]
    let strs := allTables.map fun (id, t) =>
      Json.mkObj [("id", Json.str id), ("items", Json.arr (t.map fun (n, v) => Json.arr #[Json.str n, jI v]).toArray)]
    return Json.mkObj [("index", Json.arr idx.toArray), ("tables", Json.arr strs.toArray),
                       ("index_complete", Json.bool Gen.tableIndexComplete)]
  | "selfcheck" =>
    -- Nat keys written as literals in Lean sources really are the keys of the names beside them
    let a := Spec.legacyAliasNames.map (fun (n, v) => (nameKey n, v)) == Spec.legacyAliases
    let b := Gen.tableIndex.all fun (key, id, _, _) => nameKey id == key
    let c := Registry.tree.toNamed.all fun (n, key, _) => nameKey n == key
    let d := allTables.map (fun (_, t) => t.map fun (n, v) => (nameKey n, v))
               == Gen.tableIndex.map (fun x => x.2.2.2)
    -- the regenerated marker flags are `isRangeMarker` of the names: the flagged tables the range-marker theorems
    -- walk ARE `markTable` of the String tables
    let e := allTables.map (fun (_, t) => some (Spec.markTable t))
               == Gen.tableIndex.map (fun x => (Spec.findMarkers x.1 Gen.markerIndex).bind (Spec.attachMarkers x.2.2.2))
    return Json.mkObj [("aliases", Json.bool a), ("index_keys", Json.bool b), ("registry_keys", Json.bool c),
                       ("key_tables", Json.bool d), ("markers", Json.bool e)]
  | "decode" =>
    -- a code found in a file, decoded through table `table`: the model's answer (last name carrying the code)
    -- and what the property demands of whatever name is reported
    let tid ← jStr req "table"
    let v ← jInt req "v"
    let some t := tableOf tid | throw s!"no table {tid}"
    let model := Model.decodeIn t v
    -- names of this table that a registry defines with value v
    let std := t.filter fun (n, x) => x == v && (match regValues n with | some vs => vs.contains v | none => false)
    let anyKnown := t.any fun (n, x) => x == v && (regValues n).isSome
    return Json.mkObj [("model", match model with | some n => Json.str n | none => jI v),
                       ("std_names", Json.arr (std.map fun (n, _) => Json.str n).toArray),
                       ("any_known", Json.bool anyKnown),
                       ("legacy", Json.arr ((t.filter fun (n, x) => x == v && isLegacy n v).map fun (n, _) => Json.str n).toArray)]
  | "verdict" =>
    let name ← jStr req "name"
    let v ← jInt req "v"
    return verdict name v
  | "value" =>
    -- a standard name looked up in table `table`
    let tid ← jStr req "table"
    let name ← jStr req "name"
    let some t := tableOf tid | throw s!"no table {tid}"
    let model := (t.find? (·.1 == name)).map (·.2)
    return Json.mkObj [("model", match model with | some v => jI v | none => Json.null),
                       ("registry", match regValues name with | some vs => jInts vs | none => Json.null)]
  | _ => throw s!"C17: unknown kind {k}"

end PyElf.Driver.C17
