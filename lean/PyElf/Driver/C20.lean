/-
  C20 driver: `Driver/C20Base.lean` — section-level kinds (attr_enc, attr_raw, ehabi_enc, ehabi_raw, bc,
  prel31); `Driver/C20File.lean` — whole files (file_attr, file_ehabi) and histories of the attribute
  API (hist).
-/
import PyElf.Driver.C20Base
import PyElf.Driver.C20File
open Lean
namespace PyElf.Driver.C20
open PyElf

def handle (req : Json) : Except String Json := do
  let k ← jStr req "k"
  match k with
  | "file_attr" | "file_ehabi" => handleFile req
  | "hist" => handleHist req
  | _ => handleBase req

end PyElf.Driver.C20
