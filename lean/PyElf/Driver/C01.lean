import PyElf.Driver.Json
import PyElf.Spec.ElfImage
import PyElf.Spec.ElfImageFast
import PyElf.Model.ElfFile
import PyElf.Model.Env
open Lean
namespace PyElf.Driver.C01
open PyElf PyElf.Spec PyElf.Model

def fieldsOf (j : Json) : Except String Fields := do
  match ← Val.ofJson j with
  | .record fs => pure fs
  | _ => throw "expected a record"

def descOfJson (j : Json) : Except String ElfDesc := do
  let secs ← (← jArr j "sections").mapM fun s => do
    let body ← match s.getObjVal? "body" with
      | .ok (Json.str h) => match Bytes.ofHex h with
          | some b => pure (some b)
          | none => throw "bad body hex"
      | _ => pure none
    pure ({ name := ← jHex s "name", hdr := ← fieldsOf (← s.getObjVal? "hdr"), body := body,
            nameOff := ← jNat s "nameOff" } : SecDesc)
  let segs ← (← jArr j "segments").mapM fieldsOf
  pure { cls := ← jNat j "cls", le := ← jBool j "le", mclass := ← jStr j "mclass",
         solaris := ← jBool j "solaris", core := ← jBool j "core",
         ehdr := ← fieldsOf (← j.getObjVal? "ehdr"),
         shoff := ← jNat j "shoff", phoff := ← jNat j "phoff",
         shentsize := ← jNat j "shentsize", phentsize := ← jNat j "phentsize",
         sections := secs, segments := segs, shstrndx := ← jNat j "shstrndx",
         xShnum := (jBool j "xShnum").toOption.getD false,
         xShstrndx := (jBool j "xShstrndx").toOption.getD false,
         xPhnum := (jBool j "xPhnum").toOption.getD false }

def secJson (s : String × Bytes × Val) : Json :=
  Json.arr #[Json.str s.1, Json.mkObj [("b", Json.str s.2.1.toHex)], s.2.2.toJson]

def segJson (s : String × Val) : Json := Json.arr #[Json.str s.1, s.2.toJson]

def optNat : Option Nat → Json
  | some n => jN n
  | none => Json.null

/-- everything C01 observes of an opened file, from the model -/
def modelObserve (data : Bytes) (queries : List Bytes) : R Json := do
  let f ← openElf elfEnv elfStructsFor machineClassOf data
  let secs ← iterSections elfEnv f.S data f.header f.shstr
  let segs ← iterSegments elfEnv f.S data f.header f.shstr
  let nmap := sectionNameMap secs
  let look := queries.map fun q => optNat ((nmap.find? (·.1 == q)).map (·.2))
  return Json.mkObj [
    ("elfclass", jN f.cls), ("little_endian", Json.bool f.le), ("header", f.header.toJson),
    ("sections", Json.arr (secs.map secJson).toArray), ("segments", Json.arr (segs.map segJson).toArray),
    ("lookup", Json.arr look.toArray)]

def specObserve (d : ElfDesc) (queries : List Bytes) : R Json := do
  let o ← d.observe elfEnv
  return Json.mkObj [
    ("elfclass", jN d.cls), ("little_endian", Json.bool d.le), ("header", o.header.toJson),
    ("sections", Json.arr (o.sections.map secJson).toArray), ("segments", Json.arr (o.segments.map segJson).toArray),
    ("lookup", Json.arr (queries.map fun q => optNat (d.indexOfName q)).toArray)]

def handle (req : Json) : Except String Json := do
  let k ← jStr req "k"
  match k with
  | "ast" =>
    let d ← descOfJson (← req.getObjVal? "ast")
    let tail := (jNat req "tail").toOption.getD 0
    let queries ← (← jArr req "queries").mapM fun q => match q with
      | Json.str h => match Bytes.ofHex h with
          | some b => pure b
          | none => throw "bad query hex"
      | _ => throw "bad query"
    -- `assembleFast = assemble` (Spec.ElfDesc.assembleFast_eq); linear in the number of regions
    match d.assembleFast tail with
    | none => return Json.mkObj [("wf", Json.bool false), ("why", "not encodable")]
    | some bytes =>
      let disjoint := match d.regions with
        | some rs => regionsDisjoint (sortRegions rs)
        | none => false
      let nomodel := (jBool req "nomodel").toOption.getD false
      return Json.mkObj [("wf", Json.bool (disjoint && d.wf elfEnv)), ("bytes", jHexOf bytes),
                         ("expect", resJson id (specObserve d queries)),
                         ("model", if nomodel then Json.null else resJson id (modelObserve bytes queries))]
  | "raw" =>
    let data ← jHex req "hex"
    let queries : List Bytes := []
    return Json.mkObj [("model", resJson id (modelObserve data queries))]
  | "open" =>
    -- construction only (C19): success or the error class
    let data ← jHex req "hex"
    let r := openElf elfEnv elfStructsFor machineClassOf data
    return Json.mkObj [("model", resJson (fun _ => Json.str "ok") r)]
  | _ => throw s!"C01: unknown kind {k}"

end PyElf.Driver.C01
