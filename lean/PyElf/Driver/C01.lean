import PyElf.Driver.Json
import PyElf.Spec.ElfImage
import PyElf.Spec.ElfImageFast
import PyElf.Spec.ElfWfFast
import PyElf.Model.ElfFile
import PyElf.Model.ElfLookup
import PyElf.Model.Utf8
import PyElf.Model.Env
open Lean
namespace PyElf.Driver.C01
open PyElf PyElf.Spec PyElf.Model

def fieldsOf (j : Json) : Except String Fields := do
  match ← Val.ofJson j with
  | .record fs => pure fs
  | _ => throw "expected a record"

def secOfJson (s : Json) : Except String SecDesc := do
  let body ← match s.getObjVal? "body" with
    | .ok (Json.str h) => match Bytes.ofHex h with
        | some b => pure (some b)
        | none => throw "bad body hex"
    | _ => pure none
  pure ({ name := ← jHex s "name", hdr := ← fieldsOf (← s.getObjVal? "hdr"), body := body,
          nameOff := ← jNat s "nameOff" } : SecDesc)

/-- a list with run-length entries: `{"rep": k, key: x}` stands for `k` copies of `x` -/
def expandReps {α} (key : String) (f : Json → Except String α) (js : List Json) : Except String (List α) := do
  let parts ← js.mapM fun j =>
    match j.getObjVal? "rep" with
    | .ok r => do
      let k ← jNatOf r
      let x ← f (← j.getObjVal? key)
      pure (List.replicate k x)
    | .error _ => do pure [← f j]
  pure parts.flatten

def descOfJson (j : Json) : Except String ElfDesc := do
  let secs ← expandReps "sec" secOfJson (← jArr j "sections")
  let segs ← expandReps "seg" fieldsOf (← jArr j "segments")
  pure { cls := ← jNat j "cls", le := ← jBool j "le", mclass := ← jStr j "mclass",
         solaris := ← jBool j "solaris", core := ← jBool j "core",
         ehdr := ← fieldsOf (← j.getObjVal? "ehdr"),
         shoff := ← jNat j "shoff", phoff := ← jNat j "phoff",
         shentsize := ← jNat j "shentsize", phentsize := ← jNat j "phentsize",
         sections := secs, segments := segs, shstrndx := ← jNat j "shstrndx",
         xShnum := (jBool j "xShnum").toOption.getD false,
         xShstrndx := (jBool j "xShstrndx").toOption.getD false,
         xPhnum := (jBool j "xPhnum").toOption.getD false }

def secJson (s : String × Bytes × Val) : Json :=
  Json.arr #[Json.str s.1, Json.mkObj [("b", Json.str s.2.1.toHex)], s.2.2.toJson]

def segJson (s : String × Val) : Json := Json.arr #[Json.str s.1, s.2.toJson]

def optNat : Option Nat → Json
  | some n => jN n
  | none => Json.null

def optSec : Option (String × Bytes × Val) → Json
  | some s => secJson s
  | none => Json.null

/-- a section as the library reports it: the name decoded as UTF-8 with U+FFFD replacement
    (`StringTableSection.get_string`; Model/Utf8.lean), re-encoded -/
def decodeName (s : String × Bytes × Val) : String × Bytes × Val := (s.1, Model.C01.utf8Replace s.2.1, s.2.2)

/-- everything C01 observes of an opened file, from the model.  Lookups: for every queried name
    `[get_section_index, has_section, get_section_by_name]` through the model's own functions
    (Model/ElfLookup.lean: each builds the name map from one enumeration of the file).  The model keeps
    names as bytes; when some name of the file is not valid UTF-8 the library's dict is keyed by the
    DECODED names, so the lookups are then answered from `sectionNameMap` over the decoded names. -/
def modelObserve (data : Bytes) (queries : List Bytes) : R Json := do
  let f ← openElf elfEnv elfStructsFor machineClassOf data
  let secs ← iterSections elfEnv f.S data f.header f.shstr
  let segs ← iterSegments elfEnv f.S data f.header f.shstr
  let secsD := secs.map decodeName
  let allValid := secs.all fun s => Model.C01.utf8Replace s.2.1 == s.2.1
  let look ← queries.mapM fun q => do
    if allValid then
      let idx ← Model.C01.getSectionIndex elfEnv f.S data f.header f.shstr q
      let has ← Model.C01.hasSection elfEnv f.S data f.header f.shstr q
      let sec ← Model.C01.getSectionByName elfEnv f.S data f.header f.shstr q
      return Json.arr #[optNat idx, Json.bool has, optSec sec]
    else
      let m := sectionNameMap secsD
      let idx := Model.C01.dictGet m q
      return Json.arr #[optNat idx, Json.bool (Model.C01.dictHas m q), optSec (idx.bind fun i => secsD[i]?)]
  return Json.mkObj [
    ("elfclass", jN f.cls), ("little_endian", Json.bool f.le), ("header", f.header.toJson),
    ("sections", Json.arr (secsD.map secJson).toArray), ("segments", Json.arr (segs.map segJson).toArray),
    ("lookup", Json.arr look.toArray)]

/-- what the property says must be observed (Spec): the description's observation; for a queried
    name the index of the last section bearing it (`indexOfName`), whether there is one, and that
    section as the enumeration reports it -/
def specObserve (d : ElfDesc) (queries : List Bytes) : R Json := do
  let o ← d.observe elfEnv
  let look := queries.map fun q =>
    let idx := d.indexOfName q
    Json.arr #[optNat idx, Json.bool idx.isSome, optSec (idx.bind fun i => o.sections[i]?)]
  return Json.mkObj [
    ("elfclass", jN d.cls), ("little_endian", Json.bool d.le), ("header", o.header.toJson),
    ("sections", Json.arr (o.sections.map secJson).toArray), ("segments", Json.arr (o.segments.map segJson).toArray),
    ("lookup", Json.arr look.toArray)]

/-- run-length encoding of consecutive equal entries: `[[count, entry], …]` (the ≥ 0xff00-section /
    ≥ 0xffff-segment images consist of long runs of identical filler entries) -/
def rle (xs : List Json) : Json :=
  let step (acc : List (Nat × String × Json)) (x : Json) : List (Nat × String × Json) :=
    let k := x.compress
    match acc with
    | (n, k', y) :: rest => if k == k' then (n + 1, k', y) :: rest else (1, k, x) :: acc
    | [] => [(1, k, x)]
  let runs := (xs.foldl step []).reverse
  Json.arr (runs.map fun (n, _, x) => Json.arr #[jN n, x]).toArray

def natsOf (req : Json) (k : String) : Except String (List Nat) := do
  match req.getObjVal? k with
  | .ok (Json.arr a) => a.toList.mapM jNatOf
  | _ => pure []

/-- the Spec's observation of a large description, run-length encoded, plus the entries at the
    spot indices -/
def specObserveBig (d : ElfDesc) (secIdx segIdx : List Nat) : R Json := do
  let o ← d.observe elfEnv
  let secs := o.sections.toArray
  let segs := o.segments.toArray
  return Json.mkObj [
    ("elfclass", jN d.cls), ("little_endian", Json.bool d.le), ("header", o.header.toJson),
    ("nsec", jN o.sections.length), ("nseg", jN o.segments.length),
    ("sections", rle (o.sections.map secJson)), ("segments", rle (o.segments.map segJson)),
    ("secAt", Json.arr (secIdx.map fun i => match secs[i]? with | some s => secJson s | none => Json.null).toArray),
    ("segAt", Json.arr (segIdx.map fun i => match segs[i]? with | some s => segJson s | none => Json.null).toArray)]

/-- the model on a large image: construction, both counts (the extended-numbering reads) and the
    entries at the spot indices (enumerating 65 000 entries over `List` bytes is quadratic) -/
def modelObserveBig (data : Bytes) (secIdx segIdx : List Nat) : R Json := do
  let f ← openElf elfEnv elfStructsFor machineClassOf data
  let nsec ← numSections elfEnv f.S data f.header
  let nseg ← numSegments elfEnv f.S data f.header f.shstr
  let secs ← secIdx.mapM (getSection elfEnv f.S data f.header f.shstr)
  let segs ← segIdx.mapM (getSegment elfEnv f.S data f.header f.shstr)
  return Json.mkObj [
    ("elfclass", jN f.cls), ("little_endian", Json.bool f.le), ("header", f.header.toJson),
    ("nsec", jN nsec), ("nseg", jN nseg),
    ("secAt", Json.arr ((secs.map decodeName).map secJson).toArray), ("segAt", Json.arr (segs.map segJson).toArray)]

def handle (req : Json) : Except String Json := do
  let k ← jStr req "k"
  match k with
  | "ast" =>
    let d ← descOfJson (← req.getObjVal? "ast")
    let tail := (jNat req "tail").toOption.getD 0
    let queries ← (← jArr req "queries").mapM fun q => match q with
      | Json.str h => match Bytes.ofHex h with
          | some b => pure b
          | none => throw "bad query hex"
      | _ => throw "bad query"
    -- `assembleFast = assemble` (Spec.ElfDesc.assembleFast_eq); linear in the number of regions
    match d.assembleFast tail with
    | none => return Json.mkObj [("wf", Json.bool false), ("why", "not encodable")]
    | some bytes =>
      let nomodel := (jBool req "nomodel").toOption.getD false
      -- `wf`: the domain of the theorems `*_exact_z` (compressed sections admitted);
      -- `wf0`: the narrower domain of the theorems `*_exact` (no SHF_COMPRESSED section)
      -- (files WITHOUT a section-name string table, e_shstrndx = SHN_UNDEF, are inside both: their sections are nameless)
      -- (`wfZFast = wfZ`, Spec.C01.wfZFast_eq; the fully enumerated ≥ 0xff00-section images of the thorough tier —
      -- `nomodel` — are classified by it alone: `wf` indexes `List`s quadratically)
      let wfz := Spec.C01.wfZFast elfEnv d
      return Json.mkObj [("wf", Json.bool wfz), ("wf0", if nomodel then Json.null else Json.bool (d.wf elfEnv)),
                         ("bytes", jHexOf bytes),
                         ("expect", resJson id (specObserve d queries)),
                         ("model", if nomodel then Json.null else resJson id (modelObserve bytes queries))]
  | "big" =>
    -- large tables (real extended numbering): run-length encoded description and observation
    let d ← descOfJson (← req.getObjVal? "ast")
    let secIdx ← natsOf req "secIdx"
    let segIdx ← natsOf req "segIdx"
    match d.assembleFast 0 with
    | none => return Json.mkObj [("wf", Json.bool false), ("why", "not encodable")]
    | some bytes =>
      -- `wfZFast = wfZ` (Spec.C01.wfZFast_eq): array-indexed, linear in the number of sections
      -- (the shape of a Linux core dump with ≥ 0xffff segments — one SHT_NULL section header carrying the escapes,
      -- e_shstrndx = SHN_UNDEF — is inside `wfZ` like every file without a name table)
      return Json.mkObj [("wf", Json.bool (Spec.C01.wfZFast elfEnv d)), ("bytes", jHexOf bytes),
                         ("expect", resJson id (specObserveBig d secIdx segIdx)),
                         ("model", resJson id (modelObserveBig bytes secIdx segIdx))]
  | "raw" =>
    let data ← jHex req "hex"
    let queries : List Bytes := []
    return Json.mkObj [("model", resJson id (modelObserve data queries))]
  | "utf8" =>
    -- the decoding of names alone (self-test of Model/Utf8.lean against CPython)
    return Json.mkObj [("out", jHexOf (Model.C01.utf8Replace (← jHex req "hex")))]
  | "open" =>
    -- construction only (C19): success or the error class
    let data ← jHex req "hex"
    let r := openElf elfEnv elfStructsFor machineClassOf data
    return Json.mkObj [("model", resJson (fun _ => Json.str "ok") r)]
  | _ => throw s!"C01: unknown kind {k}"

end PyElf.Driver.C01
