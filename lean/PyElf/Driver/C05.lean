import PyElf.Driver.Json
import PyElf.Spec.LineProgram
import PyElf.Spec.LineProgramExt
import PyElf.Model.LineProgram
import PyElf.Model.Env
import PyElf.Gen.Extra_C05
import PyElf.Spec.LineSection
import PyElf.Model.LineInfo
import PyElf.Driver.C04
import PyElf.Driver.C11
import PyElf.Model.LineFile
open Lean
namespace PyElf.Driver.C05
open PyElf PyElf.Spec PyElf.Spec.Line PyElf.Model.Line

/-! JSON → Spec AST -/

def aNat (j : Json) : Except String Nat := jNatOf j
def aInt (j : Json) : Except String Int := jIntOf j
def aHex : Json → Except String Bytes
  | .str s => match Bytes.ofHex s with
              | some b => .ok b
              | none => .error "bad hex"
  | _ => .error "hex: not a string"
def aArr : Json → Except String (List Json)
  | .arr a => .ok a.toList
  | _ => .error "not an array"

def lebOf (j : Json) : Except String Leb := do
  match ← aArr j with
  | [v, n] => return ⟨← aNat v, ← aNat n⟩
  | _ => throw "leb: [v, n]"

def instrOf (j : Json) : Except String Instr := do
  match ← aArr j with
  | [.str "special", op] => return .special (← aNat op)
  | [.str "copy"] => return .copy
  | [.str "advance_pc", v, n] => return .advancePc ⟨← aNat v, ← aNat n⟩
  | [.str "advance_line", v, n] => return .advanceLine ⟨← aInt v, ← aNat n⟩
  | [.str "set_file", v, n] => return .setFile ⟨← aNat v, ← aNat n⟩
  | [.str "set_column", v, n] => return .setColumn ⟨← aNat v, ← aNat n⟩
  | [.str "negate_stmt"] => return .negateStmt
  | [.str "set_basic_block"] => return .setBasicBlock
  | [.str "const_add_pc"] => return .constAddPc
  | [.str "fixed_advance_pc", n] => return .fixedAdvancePc (← aNat n)
  | [.str "set_prologue_end"] => return .setPrologueEnd
  | [.str "set_epilogue_begin"] => return .setEpilogueBegin
  | [.str "set_isa", v, n] => return .setIsa ⟨← aNat v, ← aNat n⟩
  | [.str "unknown_std", op, args] => return .unknownStd (← aNat op) (← (← aArr args).mapM lebOf)
  | [.str "end_sequence", lk] => return .endSequence (← aNat lk)
  | [.str "set_address", lk, a] => return .setAddress (← aNat lk) (← aNat a)
  | [.str "define_file", lk, name, d, m, l] =>
      return .defineFile (← aNat lk) (← aHex name) (← lebOf d) (← lebOf m) (← lebOf l)
  | [.str "set_discriminator", lk, v, n] => return .setDiscriminator (← aNat lk) ⟨← aNat v, ← aNat n⟩
  | [.str "unknown_ext", lk, op, payload] => return .unknownExt (← aNat lk) (← aNat op) (← aHex payload)
  | _ => throw s!"bad instr {j.compress}"

def fieldOf (j : Json) : Except String FieldVal := do
  match ← aArr j with
  | [.str "str", s] => return .str (← aHex s)
  | [.str "ref", o] => return .ref (← aNat o)
  | [.str "fixed", v] => return .fixed (← aNat v)
  | [.str "udata", v, n] => return .udata ⟨← aNat v, ← aNat n⟩
  | [.str "data16", b] => return .data16 (← aHex b)
  | [.str "block", lk, b] => return .block (← aNat lk) (← aHex b)
  | _ => throw s!"bad field {j.compress}"

def pairOf (j : Json) : Except String (Nat × Nat) := do
  match ← aArr j with
  | [a, b] => return (← aNat a, ← aNat b)
  | _ => throw "pair"

def fileOf (j : Json) : Except String FileEntry := do
  match ← aArr j with
  | [name, d, m, l] => return ⟨← aHex name, ← lebOf d, ← lebOf m, ← lebOf l⟩
  | _ => throw "file entry"

def headerOf (j : Json) : Except String Header := do
  let p : Params := {
    le := ← jBool j "le", asz := ← jNat j "asz", minInst := ← jNat j "min_inst", maxOps := ← jNat j "max_ops",
    defaultIsStmt := ← jNat j "default_is_stmt", lineBase := ← jInt j "line_base", lineRange := ← jNat j "line_range",
    opcodeBase := ← jNat j "opcode_base", stdLens := ← (← jArr j "std_lens").mapM aNat }
  return {
    version := ← jNat j "version", fmt64 := ← jBool j "fmt64", segSel := ← jNat j "seg_sel", p := p,
    includeDirs := ← (← jArr j "include_dirs").mapM aHex,
    files := ← (← jArr j "files").mapM fileOf,
    dirFmt := ← (← jArr j "dir_fmt").mapM pairOf,
    dirs := ← (← jArr j "dirs").mapM fun e => do (← aArr e).mapM fieldOf,
    fileFmt := ← (← jArr j "file_fmt").mapM pairOf,
    fileNames := ← (← jArr j "file_names").mapM fun e => do (← aArr e).mapM fieldOf }

def optHex (j : Json) (k : String) : Except String (Option Bytes) :=
  match j.getObjVal? k with
  | .ok (.str s) => match Bytes.ofHex s with
                    | some b => .ok (some b)
                    | none => .error "bad hex"
  | _ => .ok none

/-! results → JSON -/

def rowJson (r : Row) : Json :=
  Json.mkObj [("address", jN r.address), ("op_index", jN r.opIndex), ("file", jN r.file), ("line", jI r.line),
    ("column", jN r.column), ("is_stmt", Json.bool r.isStmt), ("basic_block", Json.bool r.basicBlock),
    ("end_sequence", Json.bool r.endSequence), ("prologue_end", Json.bool r.prologueEnd),
    ("epilogue_begin", Json.bool r.epilogueBegin), ("isa", jN r.isa), ("discriminator", jN r.discriminator)]

def stateJson (s : LineState) : Json :=
  Json.mkObj [("address", jN s.address), ("op_index", jN s.op_index), ("file", jN s.file), ("line", jI s.line),
    ("column", jN s.column), ("is_stmt", s.is_stmt.toJson), ("basic_block", Json.bool s.basic_block),
    ("end_sequence", Json.bool s.end_sequence), ("prologue_end", Json.bool s.prologue_end),
    ("epilogue_begin", Json.bool s.epilogue_begin), ("isa", jN s.isa), ("discriminator", jN s.discriminator)]

def entryJson (e : Entry) : Json :=
  Json.mkObj [("command", jN e.command), ("is_extended", Json.bool e.is_extended),
    ("args", Json.arr (e.args.map Val.toJson).toArray),
    ("state", match e.state with | some s => stateJson s | none => Json.null)]

def optListJson : Option (List Val) → Json
  | some xs => Json.arr (xs.map Val.toJson).toArray
  | none => Json.null

def lpJson (lp : LineProg) : Json :=
  Json.mkObj [("header", lp.header.toJson), ("start", jN lp.program_start_offset), ("end", jN lp.program_end_offset)]

def fileEntryOf (lp : LineProg) : Json :=
  match lp.header with
  | .record fs => match Fields.get? fs "file_entry" with
                  | some v => v.toJson
                  | none => Json.null
  | _ => Json.null

/-- one query: `line_program_for_CU` (stmt_list = `off`), then `get_entries()`, as the harness does -/
def runQuery (env : Env) (S : DwarfStructs) (K : LnConsts) (fmt : Nat) (secs : Secs) (data : Bytes)
    (cache : Cache) (off : Nat) : Json × Cache :=
  match lineProgramForCU env S fmt secs data cache [("DW_AT_stmt_list", .int off)] with
  | .error e => (Json.mkObj [("parse", Json.mkObj [("err", Json.str e.name)])], cache)
  | .ok (none, cache') => (Json.mkObj [("parse", Json.mkObj [("ok", Json.null)])], cache')
  | .ok (some lp, cache') =>
    match getEntries env S K data lp with
    | .error e => (Json.mkObj [("parse", Json.mkObj [("ok", lpJson lp)]),
                               ("decode", Json.mkObj [("err", Json.str e.name)])], cache')
    | .ok (es, lp', tell) =>
      (Json.mkObj [("parse", Json.mkObj [("ok", lpJson lp)]),
                   ("decode", Json.mkObj [("ok", Json.mkObj [
                      ("entries", Json.arr (es.map entryJson).toArray),
                      ("file_entry_after", fileEntryOf lp'),
                      -- `stream.tell()` is compared only when the loop body ran at least once (otherwise the
                      -- stream stands wherever the header parse left it, which is not the program's business)
                      ("tell", match tell with
                               | some t => if lp.program_start_offset < lp.program_end_offset then jN t else Json.null
                               | none => Json.null)])])],
       Cache.update cache' off lp')

def runQueries (env : Env) (S : DwarfStructs) (K : LnConsts) (fmt : Nat) (secs : Secs) (data : Bytes) :
    List Nat → Cache → List Json → List Json
  | [], _, acc => acc.reverse
  | q :: qs, cache, acc =>
    let (j, cache') := runQuery env S K fmt secs data cache q
    runQueries env S K fmt secs data qs cache' (j :: acc)

/-! ### kind `info`: line programs from the section bytes of a whole `.debug_info` (Model/LineInfo) -/

open PyElf.Spec.LineSec PyElf.Model.LineInfo in
/-- the key under which the unit's program lies in `_linetable_cache`: the DW_AT_stmt_list value -/
def stmtOffset (U : Model.C04.UnitCtx) : Option Nat :=
  match Model.C04.getTopDIE U with
  | .ok top =>
    match lastNamed (.str "DW_AT_stmt_list") top.attrs none with
    | some a => a.value.asNat.toOption
    | none => none
  | .error _ => none

open PyElf.Spec.LineSec PyElf.Model.LineInfo in
/-- one unit, as the harness does: `line_program_for_CU(cu)`, then `get_entries()` on the object -/
def runInfoUnit (ed : String → Int → Option String) (K : LnConsts) (W : LineWorld) (rU : R Model.C04.UnitCtx)
    (cache : LCache) : Json × LCache :=
  match rU with
  | .error e => (Json.mkObj [("parse", Json.mkObj [("err", Json.str e.name)])], cache)
  | .ok U =>
    match lineProgramForUnit W U cache with
    | .error e => (Json.mkObj [("parse", Json.mkObj [("err", Json.str e.name)])], cache)
    | .ok (none, cache') => (Json.mkObj [("parse", Json.mkObj [("ok", Json.null)])], cache')
    | .ok (some x, cache') =>
      match W.line with
      -- an object exists only if a `.debug_line` does
      | none => (Json.mkObj [("parse", Json.mkObj [("ok", lpJson x.lp)]),
                             ("decode", Json.mkObj [("err", Json.str "attributeError")])], cache')
      | some data =>
        match getEntriesLP ed K data x with
        | .error e => (Json.mkObj [("parse", Json.mkObj [("ok", lpJson x.lp)]),
                                   ("decode", Json.mkObj [("err", Json.str e.name)])], cache')
        | .ok (es, x', tell) =>
          (Json.mkObj [("parse", Json.mkObj [("ok", lpJson x.lp)]),
                       ("decode", Json.mkObj [("ok", Json.mkObj [
                          ("entries", Json.arr (es.map entryJson).toArray),
                          ("file_entry_after", fileEntryOf x'.lp),
                          -- `stream.tell()` is compared only when the loop body ran at least once
                          ("tell", match tell with
                                   | some t => if x.lp.program_start_offset < x.lp.program_end_offset then jN t else Json.null
                                   | none => Json.null)])])],
           -- the object is shared with `_linetable_cache`: its memo and its appended-to file table are seen by later units
           match stmtOffset U with
           | some off => LCache.update cache' off x'
           | none => cache')

open PyElf.Spec.LineSec PyElf.Model.LineInfo in
/-- `for cu in [list(di.iter_CUs())[i] for i in order]: di.line_program_for_CU(cu).get_entries()` on the `DWARFInfo`
    `(w, W)`: the observations, the number of units, the exception that ended `iter_CUs()` -/
def runInfoLoop (w : Model.C04.DInfo) (W : LineWorld) (K : LnConsts) (req : Json) :
    Except String (List Json × Nat × Option Err) := do
  let some S0 := Model.dwarfStructsFor ⟨w.le, 32, w.dasz, 2⟩ | throw "no default bundle"
  let (us, e) := Model.C04.sectionUnits w S0 w.info false
  let order ← match req.getObjVal? "order" with
    | .ok j => (← aArr j).mapM aNat
    | .error _ => pure (List.range us.length)
  let mut cache : LCache := []
  let mut models : List Json := []
  for idx in order do
    match us[idx]? with
    | none => throw "order: no such unit"
    | some (_, rU) =>
      let (j, cache') := runInfoUnit w.enumDecode K W rU cache
      models := models ++ [j]
      cache := cache'
  return (models, us.length, e)

/-- kind `file`: the same on `ELFFile(BytesIO(elf)).get_dwarf_info()` — C11's model of the container (zlib answers
    recorded from the real module, sent as a table), then `Model.LineInfo.dinfoOfView` (Props/C05 `line_programs_of_file`) -/
def handleFile (req : Json) : Except String Json := do
  let data ← jHex req "elf"
  let zl ← (← jArr req "zlib").mapM fun e => do
    match ← aArr e with
    | [dj, kk, oj] =>
      let o ← match oj with
        | .null => pure none
        | j => do pure (some (← aHex j))
      return (← aHex dj, ← aNat kk, o)
    | _ => throw "bad zlib entry"
  let P := C11.genParams (C11.extOf zl)
  let some K := LnConsts.ofTable Gen.lnConstTable | throw "DW_LNS/DW_LNE constants missing from the library"
  match Model.C11.dwarfView P 8 none data true true with
  | .error e => return Json.mkObj [("view_err", Json.str e.name)]
  | .ok v =>
    let (w, W) := Model.LineInfo.dinfoOfView v
    let (models, nUnits, e) ← runInfoLoop w W K req
    return Json.mkObj [("n_units", jN nUnits), ("end", match e with | some x => Json.str x.name | none => Json.null),
                       ("model", Json.arr models.toArray)]

open PyElf.Spec.LineSec PyElf.Model.LineInfo in
def handleInfo (req : Json) : Except String Json := do
  let le ← jBool req "le"
  let dasz := C04.jNatD req "dasz" 4
  let tables ← (← jArr req "abbrevs").mapM fun t => do
    let ds ← (← jArr t "decls").mapM C04.parseDecl
    return ({ gap := (C04.jHexOpt t "gap").getD [], decls := ds, endLen := C04.jNatD t "end_len" 1 } : Spec.C04.TableDesc)
  let fsecs := C04.parseSecs ((req.getObjVal? "secs").toOption.getD (Json.mkObj []))
  let units ← (← jArr req "units").mapM (C04.parseUnitReq (tables.map fun t => (t.decls, t.endLen)))
  let F := C04.forestOf le tables units [] fsecs
  let info := Spec.C04.infoSec F
  let abbr := Spec.C04.encTables F.tables
  let lines ← (← jArr req "lines").mapM fun u => do
    let h ← headerOf (← u.getObjVal? "header")
    let is ← (← jArr u "instrs").mapM instrOf
    let gap ← jHex u "gap"
    let ext ← match u.getObjVal? "ext" with
      | .ok j => aHex j
      | .error _ => pure []
    return ({ gap := gap, h := h, ext := ext, is := is } : LineUnitDesc)
  let tail ← jHex req "tail"
  let supPresent := (jBool req "sup_present").toOption.getD false
  let supStr ← optHex req "sup_str"
  let sup : Option Bytes := if supPresent then supStr else none
  let lineData := encLineSec lines tail
  let linePresent := (jBool req "line_present").toOption.getD true
  let W : LineWorld := { line := if linePresent then some lineData else none,
                         sup := if supPresent then some supStr else none }
  let some K := LnConsts.ofTable Gen.lnConstTable | throw "DW_LNS/DW_LNE constants missing from the library"
  -- the `DWARFInfo` of Props/C05 `line_programs_from_sections`: C04's, with everything regenerated
  let w := Model.C04.genDInfo le dasz (some info) (some abbr) none fsecs
  let (models, nUnits, e) ← runInfoLoop w W K req
  -- the Spec side
  let offs := (List.range lines.length).map (lineOff lines)
  let wfForest := Spec.C04.wfForestB C04.names F
  let linesOk := linesOKB F lines tail sup && linePresent && !(supPresent && supStr.isNone)
  -- the property's domain: moreover the two divisors are not zero (`Params.WF`)
  let domain := lines.all fun d => decide (1 ≤ d.h.p.maxOps) && decide (1 ≤ d.h.p.lineRange)
  let ssecs := strSecsOf F sup
  let stmts := F.units.map fun u => stmtRef u.tree.root
  let expects := stmts.map fun st =>
    match st with
    | .absent => Json.mkObj [("kind", Json.str "absent")]
    | .other => Json.mkObj [("kind", Json.str "other")]
    | .at v =>
      match (List.range lines.length).find? (fun i => lineOff lines i == v) with
      | none =>
        if !linePresent then Json.mkObj [("kind", Json.str "noline"), ("v", jN v)]
        else if lineData.length < v + 4 then Json.mkObj [("kind", Json.str "beyond"), ("v", jN v)]
        else Json.mkObj [("kind", Json.str "dangling"), ("v", jN v)]
      | some i =>
        match lines[i]? with
        | none => Json.null
        | some d =>
          let fe := if d.h.version ≥ 5 then Json.null
                    else Json.arr ((d.h.files ++ definedFiles d.is).map fun e => e.obs.toJson).toArray
          Json.mkObj [("kind", Json.str (if linePresent then "prog" else "noline")), ("v", jN v), ("index", jN i),
                      ("header", (d.h.observeX ssecs d.ext d.body).toJson),
                      ("start", jN (v + headerSizeX d.h d.ext)),
                      ("end", jN (v + d.enc.length)),
                      ("rows", Json.arr ((stdRun d.h.p d.is).map rowJson).toArray),
                      ("file_entry_after", fe),
                      ("tell", if d.body.isEmpty then Json.null else jN (v + d.enc.length))]
  return Json.mkObj [("info", jHexOf info), ("abbrev", jHexOf abbr), ("line", jHexOf lineData),
                     ("line_offs", Json.arr (offs.map jN).toArray),
                     ("n_units", jN nUnits), ("end", match e with | some x => Json.str x.name | none => Json.null),
                     ("wf_forest", Json.bool wfForest), ("lines_ok", Json.bool linesOk), ("domain", Json.bool domain),
                     ("expect", Json.arr expects.toArray), ("model", Json.arr models.toArray)]

def handle (req : Json) : Except String Json := do
  let k ← jStr req "k"
  if k == "info" then return ← handleInfo req
  if k == "file" then return ← handleFile req
  let cfg ← jArr req "cfg"
  let (le, fmt, asz, ver) ← match cfg with
    | [Json.bool le, fmt, asz, ver] => do pure (le, ← jNatOf fmt, ← jNatOf asz, ← jNatOf ver)
    | _ => throw "bad cfg"
  let some S0 := Model.dwarfStructsFor ⟨le, fmt, asz, ver⟩ | throw "no such dwarf bundle"
  -- `Dwarf_dw_form` has a few entries beyond the bundle's `forms` list (reachable only from malformed formats)
  let extra := ((Gen.lineExtraForms.find? (·.1 == (⟨le, fmt, asz, ver⟩ : DwarfCfg))).map (·.2)).getD []
  let S : DwarfStructs := { S0 with forms := S0.forms ++ extra }
  let some K := LnConsts.ofTable Gen.lnConstTable | throw "DW_LNS/DW_LNE constants missing from the library"
  let env := Model.dwarfEnv S
  let secsJ ← req.getObjVal? "secs"
  let lineStr ← optHex secsJ "line_str"
  let str ← optHex secsJ "str"
  let supPresent := (jBool secsJ "sup_present").toOption.getD false
  let supStr ← optHex secsJ "sup_str"
  let msecs : Secs := { lineStr := lineStr, str := str, sup := if supPresent then some supStr else none }
  match k with
  | "sec" =>
    -- several programs laid out one after the other, with inter-unit padding
    let units ← jArr req "units"
    let queries ← (← jArr req "queries").mapM aNat
    let ssecs : StrSecs := { lineStr := lineStr.getD [], str := str.getD [],
                             sup := if supPresent then supStr else none }
    let mut data : Bytes := []
    -- per unit: offset, header, extension bytes, instructions, in the property's domain?, what the theorems predict
    let mut infos : List (Nat × Header × Bytes × List Instr × Bool × String) := []
    for u in units do
      let h ← headerOf (← u.getObjVal? "header")
      let is ← (← jArr u "instrs").mapM instrOf
      let gap ← jHex u "gap"
      -- bytes between the last table and the program, covered by `header_length`
      let ext ← match u.getObjVal? "ext" with
        | .ok j => aHex j
        | .error _ => pure []
      data := data ++ gap
      let off := data.length
      let body := encodeProgram h.p is
      -- the string sections a well-formed unit refers to must be there
      let secsOk := lineStr.isSome && str.isSome
      -- the line table's format and address size are the unit's (DWARF 5 §7.4, §6.2.4)
      let cfgOk := decide (h.p.le = le) && decide (h.fmt64 = decide (fmt = 64)) && decide (h.p.asz = asz)
      -- encodable unit, standard operand counts, well-formed instructions: the theorems of Props/C05 apply
      let encOk := unitWFX h ssecs ext body && h.p.stdLensOK && is.all (Instr.WF h.p h.version) && secsOk && cfgOk
                   && decide (off + (encodeUnitX h ext body).length ≤ ssizeMax)
      -- the property's domain: moreover the two divisors are not zero (`Params.WF`)
      let wf := encOk && decide (1 ≤ h.p.maxOps) && decide (1 ≤ h.p.lineRange)
      -- prediction: `line_rows_eq_std_ext` (no instruction divides by a zero field) / `line_zero_division`
      let kind := if !encOk then "na" else if progOK h.p h.version is then "rows" else "zerodiv"
      infos := infos ++ [(off, h, ext, is, wf, kind)]
      data := data ++ encodeUnitX h ext body
    let tail ← jHex req "tail"
    data := data ++ tail
    let offs := infos.map (·.1)
    let expects := infos.map fun (off, h, ext, is, _, _) =>
      let body := encodeProgram h.p is
      let fe := if h.version ≥ 5 then Json.null
                else Json.arr ((h.files ++ definedFiles is).map fun e => e.obs.toJson).toArray
      Json.mkObj [("header", (h.observeX ssecs ext body).toJson),
                  ("start", jN (off + headerSizeX h ext)),
                  ("end", jN (off + (encodeUnitX h ext body).length)),
                  ("rows", Json.arr ((stdRun h.p is).map rowJson).toArray),
                  ("file_entry_after", fe),
                  ("tell", if body.isEmpty then Json.null else jN (off + (encodeUnitX h ext body).length))]
    let qoffs ← queries.mapM fun q => match offs[q]? with
      | some o => pure o
      | none => throw "query out of range"
    let models := runQueries env S K fmt msecs data qoffs [] []
    return Json.mkObj [("bytes", jHexOf data), ("offsets", Json.arr (offs.map jN).toArray),
                       ("wf", Json.arr (infos.map fun i => Json.bool i.2.2.2.2.1).toArray),
                       ("kind", Json.arr (infos.map fun i => Json.str i.2.2.2.2.2).toArray),
                       ("expect", Json.arr expects.toArray), ("model", Json.arr models.toArray)]
  | "raw" =>
    let data ← jHex req "hex"
    let qoffs ← (← jArr req "offsets").mapM aNat
    let models := runQueries env S K fmt msecs data qoffs [] []
    return Json.mkObj [("model", Json.arr models.toArray)]
  | _ => throw s!"C05: unknown kind {k}"

end PyElf.Driver.C05
