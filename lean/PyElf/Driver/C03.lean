import PyElf.Driver.Json
import PyElf.Spec.Symbols
import PyElf.Model.Env
import PyElf.Model.Symbols
open Lean
namespace PyElf.Driver.C03
open PyElf PyElf.Spec PyElf.Model

def jOpt (j : Json) (k : String) : Option Json :=
  match j.getObjVal? k with
  | .ok .null => none
  | .ok v => some v
  | .error _ => none

def symJson (s : Symbol) : Json := Json.arr #[s.1.toJson, Json.mkObj [("b", Json.str s.2.toHex)]]
def optSymJson : Option Symbol → Json
  | some s => symJson s
  | none => Json.null
def natsJson (l : List Nat) : Json := Json.arr (l.map jN).toArray

def parseSym (j : Json) : Except String (Bytes × SymE) := do
  match j with
  | .arr #[.str nm, v, sz, info, other, shndx] =>
    let some name := Bytes.ofHex nm | throw "bad name hex"
    return (name, { stName := 0, value := ← jNatOf v, size := ← jNatOf sz, info := ← jNatOf info,
                    other := ← jNatOf other, shndx := ← jNatOf shndx })
  | _ => throw "bad sym"

def jNats (j : Json) (k : String) : Except String (List Nat) := do
  (← jArr j k).mapM jNatOf

def jHexList (j : Json) (k : String) : Except String (List Bytes) := do
  (← jArr j k).mapM fun x => match x with
    | .str s => match Bytes.ofHex s with
                | some b => pure b
                | none => throw "bad hex"
    | _ => throw "not a string"

def secHdr (j : Json) : Except String SecHdr := do
  return { off := ← jNat j "off", size := ← jNat j "size", entsize := ← jNat j "entsize" }

def structsFor (le : Bool) (cls : Nat) (mclass : String) (sol : Bool) : Except String ElfStructs :=
  match elfStructsFor ⟨le, cls, mclass, sol, false⟩ with
  | some s => pure s
  | none => throw "no such elf bundle"

/-- `ast`: the abstract tables → section contents from the Spec encoders + what must be observed -/
def handleAst (req : Json) : Except String Json := do
  let le ← jBool req "le"
  let cls ← jNat req "cls"
  let pad ← jNat req "pad"
  let share ← jBool req "share"
  let syms0 ← (← jArr req "syms").mapM parseSym
  let queries ← jHexList req "queries"
  let gnuReq := jOpt req "gnu"
  let sysvReq := jOpt req "sysv"
  -- the linker's order for the GNU-hashed part
  let syms ← match gnuReq with
    | some g => do
        let nb ← jNat g "nbuckets"; let so ← jNat g "symoffset"
        pure (if nb = 0 then syms0 else gnuOrder nb so syms0)
    | none => pure syms0
  let names := syms.map (·.1)
  let (strtab, offs) := buildStrtab share names
  let es : List SymE := (syms.zip offs).map fun ((_, e), o) => { e with stName := o }
  let n := es.length
  let dec := genEnumDecode
  let wfSym := es.all (SymE.WF cls) && names.all (fun nm => validUtf8 nm && nm.all (· != 0)) && (cls == 32 || cls == 64)
  let mut out : List (String × Json) :=
    [("symtab", jHexOf (encSymtab le cls pad es)), ("strtab", jHexOf strtab), ("n", jN n),
     ("entsize", jN (symSize cls + pad)),
     ("names", Json.arr (names.map jHexOf).toArray)]
  let mut wf : List (String × Json) := [("sym", Json.bool wfSym)]
  let mut sysvHashed : Bool := false
  let mut gnuSo : Option Nat := none
  match sysvReq with
  | some s =>
    let t ← match jOpt s "tbl" with
      | some tb => do
          pure ({ nbucket := ← jNat tb "nbucket", nchain := ← jNat tb "nchain",
                  buckets := ← jNats tb "buckets", chains := ← jNats tb "chains" } : SysVTable)
      | none => do pure (buildSysV names (← jNat s "nbucket"))
    out := out ++ [("sysv", jHexOf (encSysV le t))]
    wf := wf ++ [("sysv", Json.bool (WFSysV names t))]
    sysvHashed := true
  | none => pure ()
  match gnuReq with
  | some g =>
    let nb ← jNat g "nbuckets"; let so ← jNat g "symoffset"
    let bsz ← jNat g "bloom_size"; let bsh ← jNat g "bloom_shift"
    let t0 := buildGnu cls names nb so bsz bsh
    let orW := (jNats g "bloom_or").toOption.getD []
    let t := { t0 with bloom := (t0.bloom.zipIdx).map fun (w, i) => w ||| (orW.getD i 0) }
    out := out ++ [("gnu", jHexOf (encGnu le cls t))]
    wf := wf ++ [("gnu", Json.bool (WFGnu cls names t))]
    gnuSo := some so
  | none => pure ()
  let mut extra : List (String × Json) := []
  match jOpt req "shndx" with
  | some _ =>
    let ws ← jNats req "shndx"
    out := out ++ [("shndx", jHexOf (encShndx le ws))]
    wf := wf ++ [("shndx", Json.bool (ws.all (· < 2 ^ 32)))]
    extra := extra ++ [("shndx", natsJson ws)]
  | none => pure ()
  match jOpt req "syminfo" with
  | some (.arr a) =>
    let si ← a.toList.mapM fun j => match j with
      | .arr #[b, f] => do pure ((← jNatOf b), (← jNatOf f))
      | _ => throw "bad syminfo"
    out := out ++ [("syminfo", jHexOf (encSyminfo le si))]
    wf := wf ++ [("syminfo", Json.bool (si.all (fun e => e.1 < 65536 && e.2 < 65536) && decide (1 ≤ si.length) && decide (si.length ≤ n)))]
    extra := extra ++ [("syminfo", Json.arr (((si.zip names).drop 1).map fun (e, nm) =>
        Json.arr #[(obsSyminfo dec e).toJson, Json.mkObj [("b", Json.str nm.toHex)]]).toArray)]
  | _ => pure ()
  let symbols := Json.arr ((es.zip names).map fun (e, nm) =>
      Json.arr #[(obsEntry dec cls e).toJson, Json.mkObj [("b", Json.str nm.toHex)]]).toArray
  let qs := queries.map fun q =>
    let idx := byName names q
    Json.mkObj ([("byname", natsJson idx)]
      ++ (if sysvHashed then [("sysv", natsJson (idx.filter (1 ≤ ·)))] else [])
      ++ (match gnuSo with
          | some so => [("gnu", natsJson (idx.filter (so ≤ ·)))]
          | none => []))
  out := out ++ [("wf", Json.mkObj wf),
                 ("expect", Json.mkObj ([("symbols", symbols), ("queries", Json.arr qs.toArray), ("count", jN n)] ++ extra))]
  return Json.mkObj out

/-- `run`: the hand-written model on the bytes of a whole file, given the header fields the code reads -/
def handleRun (req : Json) : Except String Json := do
  let le ← jBool req "le"
  let cls ← jNat req "cls"
  let mclass ← jStr req "mclass"
  let sol := (jBool req "solaris").toOption.getD false
  let S ← structsFor le cls mclass sol
  let env := elfEnv
  let data ← jHex req "hex"
  let symJ ← req.getObjVal? "symtab"
  let h ← secHdr symJ
  let strOff ← jNat req "strtab_off"
  let strType ← jStr symJ "link_type"
  let queries := (jHexList req "queries").toOption.getD []
  let getSym := getSymbol S env data h strOff
  -- constructing the SymbolTableSection: link check, then the two asserts
  let init : R Unit := do
    linkedStrtabCheck (.str strType)
    symtabInit h
  let mut out : List (String × Json) := [("init", resJson (fun _ => Json.null) init)]
  if init.isOk then
    let all := iterSymbols S env data h strOff
    -- the queries are made in order on ONE section object.  `_symbol_name_map` is published only when
    -- complete (fix 31a474f), so a call that raises leaves no state behind: every call behaves like the first
    let byName (_i : Nat) (q : Bytes) : R (Option (List Symbol)) :=
      match all with
      | .ok l => getSymbolByNameFrom getSym (buildNameMap l) q
      | .error e => .error e
    out := out ++ [
      ("num", resJson jN (numSymbols h)),
      ("symbols", resJson (fun l => Json.arr (l.map symJson).toArray) all),
      ("byname", Json.arr ((queries.zipIdx).map fun (q, i) =>
          resJson (fun r => match r with
                            | some l => Json.arr (l.map symJson).toArray
                            | none => Json.null) (byName i q)).toArray)]
    match jOpt req "get" with
    | some (.arr ns) =>
      out := out ++ [("get", Json.arr (ns.toList.map fun j =>
        match jNatOf j with
        | .ok n => resJson symJson (getSym n)
        | .error _ => Json.null).toArray)]
    | _ => pure ()
  -- sections that link to the symbol table
  let symType := (jStr symJ "type").toOption.getD "SHT_SYMTAB"
  let linked : R Unit := do
    linkedSymtabCheck (.str symType)
    init
  match jOpt req "sysv_off" with
  | some o =>
    let off ← jNatOf o
    let r : R Val := do linked; elfHashInit S env data off
    out := out ++ [("sysv_init", resJson (fun _ => Json.null) r)]
    match r with
    | .ok params =>
      out := out ++ [("sysv_count", resJson Val.toJson (elfHashCount params)),
                     ("sysv", Json.arr (queries.map fun q => resJson optSymJson (elfHashGetSymbol params getSym q)).toArray)]
    | .error _ => pure ()
  | none => pure ()
  match jOpt req "gnu_off" with
  | some o =>
    let off ← jNatOf o
    let r : R GnuHash := do linked; gnuHashInit S env cls data off
    out := out ++ [("gnu_init", resJson (fun _ => Json.null) r)]
    match r with
    | .ok g =>
      out := out ++ [("gnu_count", resJson jN (gnuHashCount le data g)),
                     ("gnu", Json.arr (queries.map fun q => resJson optSymJson (gnuHashGetSymbol le cls data g getSym q)).toArray)]
    | .error _ => pure ()
  | none => pure ()
  match jOpt req "shndx" with
  | some sj =>
    let sh ← secHdr sj
    let ns ← jNats sj "get"
    out := out ++ [("shndx", Json.arr (ns.map fun n => resJson Val.toJson (getSectionIndex S env data sh n)).toArray)]
  | none => pure ()
  match jOpt req "syminfo" with
  | some sj =>
    let sh ← secHdr sj
    match linked with
    | .ok _ =>
      out := out ++ [("syminfo_num", resJson jI (syminfoNum sh)),
                     ("syminfo", resJson (fun l => Json.arr (l.map symJson).toArray) (syminfoIter S env data sh h strOff))]
    | .error e => out := out ++ [("syminfo", resJson (fun _ => Json.null) (.error e : R Unit))]
  | none => pure ()
  return Json.mkObj [("model", Json.mkObj out)]

/-- `hash`: the two hash functions — generated code (T3) and the standard's -/
def handleHash (req : Json) : Except String Json := do
  let name ← jHex req "name"
  return Json.mkObj [("elf_model", jI (Gen.Pure.elf_hash name)), ("elf_expect", jN (elfHash32 name).toNat),
                     ("gnu_model", jI (Gen.Pure.gnu_hash name)), ("gnu_expect", jN (gnuHash32 name).toNat)]

def handle (req : Json) : Except String Json := do
  let k ← jStr req "k"
  match k with
  | "ast" => handleAst req
  | "run" => handleRun req
  | "hash" => handleHash req
  | _ => throw s!"C03: unknown kind {k}"

end PyElf.Driver.C03
