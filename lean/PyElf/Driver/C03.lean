import PyElf.Driver.Json
import PyElf.Spec.Symbols
import PyElf.Model.Env
import PyElf.Model.Symbols
import PyElf.Model.SymbolsDecoded
import PyElf.Model.SymbolsFile
import PyElf.Spec.SymbolsFile
import PyElf.Spec.SymbolsUtf8
import PyElf.Spec.ElfImageFast
import PyElf.Driver.C01
open Lean
namespace PyElf.Driver.C03
open PyElf PyElf.Spec PyElf.Spec.C03 PyElf.Model PyElf.Model.C03

def jOpt (j : Json) (k : String) : Option Json :=
  match j.getObjVal? k with
  | .ok .null => none
  | .ok v => some v
  | .error _ => none

def symJson (s : Symbol) : Json := Json.arr #[s.1.toJson, Json.mkObj [("b", Json.str s.2.toHex)]]
def optSymJson : Option Symbol → Json
  | some s => symJson s
  | none => Json.null
def natsJson (l : List Nat) : Json := Json.arr (l.map jN).toArray

def parseSym (j : Json) : Except String (Bytes × SymE) := do
  match j with
  | .arr #[.str nm, v, sz, info, other, shndx] =>
    let some name := Bytes.ofHex nm | throw "bad name hex"
    return (name, { stName := 0, value := ← jNatOf v, size := ← jNatOf sz, info := ← jNatOf info,
                    other := ← jNatOf other, shndx := ← jNatOf shndx })
  | _ => throw "bad sym"

def jNats (j : Json) (k : String) : Except String (List Nat) := do
  (← jArr j k).mapM jNatOf

def jHexList (j : Json) (k : String) : Except String (List Bytes) := do
  (← jArr j k).mapM fun x => match x with
    | .str s => match Bytes.ofHex s with
                | some b => pure b
                | none => throw "bad hex"
    | _ => throw "not a string"

def secHdr (j : Json) : Except String SecHdr := do
  return { off := ← jNat j "off", size := ← jNat j "size", entsize := ← jNat j "entsize" }

def structsFor (le : Bool) (cls : Nat) (mclass : String) (sol : Bool) : Except String ElfStructs :=
  match elfStructsFor ⟨le, cls, mclass, sol, false⟩ with
  | some s => pure s
  | none => throw "no such elf bundle"

/-- the abstract tables of a request, built by the Spec builders -/
structure Built where
  le : Bool
  cls : Nat
  pad : Nat
  names : List Bytes
  es : List SymE
  strtab : Bytes
  sysv : Option SysVTable := none
  gnu : Option GnuTable := none
  shndx : Option (List Nat) := none
  syminfo : Option (List (Nat × Nat)) := none

def buildTables (req : Json) : Except String Built := do
  let le ← jBool req "le"
  let cls ← jNat req "cls"
  let pad ← jNat req "pad"
  let share ← jBool req "share"
  let syms0 ← (← jArr req "syms").mapM parseSym
  let gnuReq := jOpt req "gnu"
  let sysvReq := jOpt req "sysv"
  -- the linker's order for the GNU-hashed part
  let syms ← match gnuReq with
    | some g => do
        let nb ← jNat g "nbuckets"; let so ← jNat g "symoffset"
        pure (if nb = 0 then syms0 else gnuOrder nb so syms0)
    | none => pure syms0
  let names := syms.map (·.1)
  let (strtab, offs) := buildStrtab share names
  let es : List SymE := (syms.zip offs).map fun ((_, e), o) => { e with stName := o }
  let sysvT ← match sysvReq with
    | some s => match jOpt s "tbl" with
      | some tb => do
          pure (some ({ nbucket := ← jNat tb "nbucket", nchain := ← jNat tb "nchain",
                        buckets := ← jNats tb "buckets", chains := ← jNats tb "chains" } : SysVTable))
      | none => do pure (some (buildSysV names (← jNat s "nbucket")))
    | none => pure none
  let gnuT ← match gnuReq with
    | some g => do
      let nb ← jNat g "nbuckets"; let so ← jNat g "symoffset"
      let bsz ← jNat g "bloom_size"; let bsh ← jNat g "bloom_shift"
      let t0 := buildGnu cls names nb so bsz bsh
      let orW := (jNats g "bloom_or").toOption.getD []
      pure (some { t0 with bloom := (t0.bloom.zipIdx).map fun (w, i) => w ||| (orW.getD i 0) })
    | none => pure none
  let shndx ← match jOpt req "shndx" with
    | some _ => do pure (some (← jNats req "shndx"))
    | none => pure none
  let syminfo ← match jOpt req "syminfo" with
    | some (.arr a) => do
      let si ← a.toList.mapM fun j => match j with
        | .arr #[b, f] => do pure ((← jNatOf b), (← jNatOf f))
        | _ => throw "bad syminfo"
      pure (some si)
    | _ => pure none
  return { le, cls, pad, names, es, strtab, sysv := sysvT, gnu := gnuT, shndx, syminfo }

/-- the names as Python reports them: `bytes.decode('utf-8', errors='replace')` -/
def Built.reported (b : Built) : List Bytes := b.names.map utf8Replace

/-- what the property says must be observed of the tables (names as reported; for hash lookups of a query:
    `sysv` / `gnu` = the symbols that MUST be found — their name bytes are the query —, `sysv_may` / `gnu_may` =
    the symbols that may be returned — reported under the query) -/
def Built.expect (b : Built) (queries : List Bytes) : Json :=
  let dec := genEnumDecode
  let n := b.es.length
  let rep := b.reported
  let symbols := Json.arr ((b.es.zip rep).map fun (e, nm) =>
      Json.arr #[(obsEntry dec b.cls e).toJson, Json.mkObj [("b", Json.str nm.toHex)]]).toArray
  let qs := queries.map fun q =>
    let idx := byName rep q
    let must := byName b.names q
    Json.mkObj ([("byname", natsJson idx)]
      ++ (if b.sysv.isSome then [("sysv", natsJson (must.filter (1 ≤ ·))), ("sysv_may", natsJson (idx.filter (1 ≤ ·)))] else [])
      ++ (match b.gnu with
          | some t => [("gnu", natsJson (must.filter (t.symoffset ≤ ·))), ("gnu_may", natsJson (idx.filter (t.symoffset ≤ ·)))]
          | none => []))
  let extra : List (String × Json) :=
    (match b.shndx with
     | some ws => [("shndx", natsJson ws)]
     | none => []) ++
    (match b.syminfo with
     | some si => [("syminfo", Json.arr (((si.zip rep).drop 1).map fun (e, nm) =>
        Json.arr #[(obsSyminfo dec e).toJson, Json.mkObj [("b", Json.str nm.toHex)]]).toArray)]
     | none => [])
  Json.mkObj ([("symbols", symbols), ("queries", Json.arr qs.toArray), ("count", jN n)] ++ extra)

/-- `ast`: the abstract tables → section contents from the Spec encoders + what must be observed -/
def handleAst (req : Json) : Except String Json := do
  let b ← buildTables req
  let queries ← jHexList req "queries"
  let n := b.es.length
  -- names are arbitrary NUL-free byte strings (valid UTF-8 or not: the reported name is `utf8Replace` of them)
  let wfSym := b.es.all (SymE.WF b.cls) && b.names.all (fun nm => nm.all (· != 0)) && (b.cls == 32 || b.cls == 64)
  let mut out : List (String × Json) :=
    [("symtab", jHexOf (encSymtab b.le b.cls b.pad b.es)), ("strtab", jHexOf b.strtab), ("n", jN n),
     ("entsize", jN (symSize b.cls + b.pad)),
     ("names", Json.arr (b.names.map jHexOf).toArray),
     ("utf8", Json.bool (b.names.all validUtf8))]
  let mut wf : List (String × Json) := [("sym", Json.bool wfSym)]
  match b.sysv with
  | some t =>
    out := out ++ [("sysv", jHexOf (encSysV b.le t))]
    wf := wf ++ [("sysv", Json.bool (WFSysV b.names t))]
  | none => pure ()
  match b.gnu with
  | some t =>
    out := out ++ [("gnu", jHexOf (encGnu b.le b.cls t))]
    wf := wf ++ [("gnu", Json.bool (WFGnu b.cls b.names t))]
  | none => pure ()
  match b.shndx with
  | some ws =>
    out := out ++ [("shndx", jHexOf (encShndx b.le ws))]
    wf := wf ++ [("shndx", Json.bool (ws.all (· < 2 ^ 32)))]
  | none => pure ()
  match b.syminfo with
  | some si =>
    out := out ++ [("syminfo", jHexOf (encSyminfo b.le si))]
    wf := wf ++ [("syminfo", Json.bool (si.all (fun e => e.1 < 65536 && e.2 < 65536) && decide (1 ≤ si.length) && decide (si.length ≤ n)))]
  | none => pure ()
  out := out ++ [("wf", Json.mkObj wf), ("expect", b.expect queries)]
  return Json.mkObj out

/-- `run`: the hand-written model on the bytes of a whole file, given the header fields the code reads -/
def handleRun (req : Json) : Except String Json := do
  let le ← jBool req "le"
  let cls ← jNat req "cls"
  let mclass ← jStr req "mclass"
  let sol := (jBool req "solaris").toOption.getD false
  let S ← structsFor le cls mclass sol
  let env := elfEnv
  let data ← jHex req "hex"
  let symJ ← req.getObjVal? "symtab"
  let h ← secHdr symJ
  let strOff ← jNat req "strtab_off"
  let strType ← jStr symJ "link_type"
  let queries := (jHexList req "queries").toOption.getD []
  let getSym := getSymbolD S env data h strOff
  -- constructing the SymbolTableSection: link check, then the two asserts
  let init : R Unit := do
    linkedStrtabCheck (.str strType)
    symtabInit h
  let mut out : List (String × Json) := [("init", resJson (fun _ => Json.null) init)]
  if init.isOk then
    let all := iterSymbolsD S env data h strOff
    -- the queries are made in order on ONE section object.  `_symbol_name_map` is published only when
    -- complete (fix 31a474f), so a call that raises leaves no state behind: every call behaves like the first
    let byName (_i : Nat) (q : Bytes) : R (Option (List Symbol)) :=
      match all with
      | .ok l => getSymbolByNameFrom getSym (buildNameMap l) q
      | .error e => .error e
    out := out ++ [
      ("num", resJson jN (numSymbols h)),
      ("symbols", resJson (fun l => Json.arr (l.map symJson).toArray) all),
      ("byname", Json.arr ((queries.zipIdx).map fun (q, i) =>
          resJson (fun r => match r with
                            | some l => Json.arr (l.map symJson).toArray
                            | none => Json.null) (byName i q)).toArray)]
    match jOpt req "get" with
    | some (.arr ns) =>
      out := out ++ [("get", Json.arr (ns.toList.map fun j =>
        match jNatOf j with
        | .ok n => resJson symJson (getSym n)
        | .error _ => Json.null).toArray)]
    | _ => pure ()
  -- sections that link to the symbol table
  let symType := (jStr symJ "type").toOption.getD "SHT_SYMTAB"
  let linked : R Unit := do
    linkedSymtabCheck (.str symType)
    init
  match jOpt req "sysv_off" with
  | some o =>
    let off ← jNatOf o
    let r : R Val := do linked; elfHashInit S env data off
    out := out ++ [("sysv_init", resJson (fun _ => Json.null) r)]
    match r with
    | .ok params =>
      out := out ++ [("sysv_count", resJson Val.toJson (elfHashCount params)),
                     ("sysv", Json.arr (queries.map fun q => resJson optSymJson (elfHashGetSymbol params getSym q)).toArray)]
    | .error _ => pure ()
  | none => pure ()
  match jOpt req "gnu_off" with
  | some o =>
    let off ← jNatOf o
    let r : R GnuHash := do linked; gnuHashInit S env cls data off
    out := out ++ [("gnu_init", resJson (fun _ => Json.null) r)]
    match r with
    | .ok g =>
      out := out ++ [("gnu_count", resJson jN (gnuHashCount le data g)),
                     ("gnu", Json.arr (queries.map fun q => resJson optSymJson (gnuHashGetSymbol le cls data g getSym q)).toArray)]
    | .error _ => pure ()
  | none => pure ()
  match jOpt req "shndx" with
  | some sj =>
    let sh ← secHdr sj
    let ns ← jNats sj "get"
    out := out ++ [("shndx", Json.arr (ns.map fun n => resJson Val.toJson (getSectionIndex S env data sh n)).toArray)]
  | none => pure ()
  match jOpt req "syminfo" with
  | some sj =>
    let sh ← secHdr sj
    match linked with
    | .ok _ =>
      out := out ++ [("syminfo_num", resJson jI (syminfoNum sh)),
                     ("syminfo", resJson (fun l => Json.arr (l.map symJson).toArray) (syminfoIterD S env data sh h strOff))]
    | .error e => out := out ++ [("syminfo", resJson (fun _ => Json.null) (.error e : R Unit))]
  | none => pure ()
  return Json.mkObj [("model", Json.mkObj out)]

/-- `hash`: the two hash functions — generated code (T3) and the standard's -/
def handleHash (req : Json) : Except String Json := do
  let name ← jHex req "name"
  return Json.mkObj [("elf_model", jI (Gen.Pure.elf_hash name)), ("elf_expect", jN (elfHash32 name).toNat),
                     ("gnu_model", jI (Gen.Pure.gnu_hash name)), ("gnu_expect", jN (gnuHash32 name).toNat)]

/-! ### whole files: abstract ELF images (C01's `ElfDesc`) holding the tables -/

/-- everything the harness observes of a section object (`Model.C03.getSymSection` mirrors how
    `ELFFile.get_section` builds it); names through the decoding model -/
def observeObj (S : ElfStructs) (le : Bool) (cls : Nat) (data : Bytes) (obj : SymObj) (queries : List Bytes)
    (gets : List Nat) : Json :=
  let env := elfEnv
  let symsJ (l : List Symbol) : Json := Json.arr (l.map symJson).toArray
  match obj with
  | .symtab h strOff =>
    let getSym := getSymbolD S env data h strOff
    let all := iterSymbolsD S env data h strOff
    let byName (q : Bytes) : R (Option (List Symbol)) :=
      match all with
      | .ok l => getSymbolByNameFrom getSym (buildNameMap l) q
      | .error e => .error e
    Json.mkObj [
      ("kind", Json.str "SymbolTableSection"),
      ("num", resJson jN (numSymbols h)),
      ("symbols", resJson symsJ all),
      ("byname", Json.arr (queries.map fun q =>
          resJson (fun r => match r with
                            | some l => symsJ l
                            | none => Json.null) (byName q)).toArray),
      ("get", Json.arr (gets.map fun n => resJson symJson (getSym n)).toArray)]
  | .shndx h link =>
    Json.mkObj [
      ("kind", Json.str "SymbolTableIndexSection"), ("symboltable", jN link),
      ("get", Json.arr (gets.map fun n => resJson Val.toJson (getSectionIndex S env data h n)).toArray)]
  | .syminfo h symH strOff =>
    Json.mkObj [
      ("kind", Json.str "SUNWSyminfoTableSection"),
      ("num", resJson jI (syminfoNum h)),
      ("symbols", resJson symsJ (syminfoIterD S env data h symH strOff))]
  | .sysv params symH strOff =>
    let getSym := getSymbolD S env data symH strOff
    Json.mkObj [
      ("kind", Json.str "ELFHashSection"),
      ("count", resJson Val.toJson (elfHashCount params)),
      ("lookup", Json.arr (queries.map fun q => resJson optSymJson (elfHashGetSymbol params getSym q)).toArray)]
  | .gnu g symH strOff =>
    let getSym := getSymbolD S env data symH strOff
    Json.mkObj [
      ("kind", Json.str "GNUHashSection"),
      ("count", resJson jN (gnuHashCount le data g)),
      ("lookup", Json.arr (queries.map fun q => resJson optSymJson (gnuHashGetSymbol le cls data g getSym q)).toArray)]
  | .other kind => Json.mkObj [("kind", Json.str kind)]

def modelObserve (data : Bytes) (sec : Nat) (queries : List Bytes) (gets : List Nat) : R Json := do
  let f ← openElf elfEnv elfStructsFor machineClassOf data
  return observeObj f.S f.le f.cls data (← getSymSection elfEnv f sec) queries gets

def modelObserveByName (data : Bytes) (name : Bytes) (queries : List Bytes) (gets : List Nat) : R Json := do
  let f ← openElf elfEnv elfStructsFor machineClassOf data
  match ← getSymSectionByName elfEnv f name with
  | some obj => return observeObj f.S f.le f.cls data obj queries gets
  | none => return Json.mkObj [("kind", Json.null)]

def modelCompanion (data : Bytes) (symIdx : Nat) : R Json := do
  let f ← openElf elfEnv elfStructsFor machineClassOf data
  match ← shndxCompanion elfEnv f symIdx with
  | some (i, _) => return jN i
  | none => return Json.null

def optNatJ : Option Nat → Json
  | some n => jN n
  | none => Json.null

/-- `file`: an abstract image (JSON of `Spec.ElfDesc`, laid out by the harness: sections in any order, anywhere)
    whose sections hold the tables of the request; bytes by the Spec assembler; `wf` = the Spec's predicates on
    the DESCRIPTION (hypotheses of the `_file_exact` theorems); expectation; model by index and by name -/
def handleFile (req : Json) : Except String Json := do
  let b ← buildTables req
  let d ← C01.descOfJson (← req.getObjVal? "desc")
  let queries ← jHexList req "queries"
  let gets := (jNats req "get").toOption.getD []
  let tail := (jNat req "tail").toOption.getD 0
  let idx ← req.getObjVal? "idx"
  let sec ← jNat idx "sym"
  let secNames := (jHexList req "secnames").toOption.getD []
  match d.assembleFast tail with
  | none => return Json.mkObj [("wf", Json.mkObj [("sym", Json.bool false)]), ("why", "not encodable")]
  | some bytes =>
    let env := elfEnv
    let small := decide (bytes.length < 2 ^ 63)
    let observable := (d.observe env).toOption.isSome
    let mut wf : List (String × Json) :=
      [("sym", Json.bool (symFileWf env d sec b.es b.names && small)), ("observable", Json.bool observable),
       ("core", Json.bool (wfZCore env d))]
    let mut model : List (String × Json) := [("sym", resJson id (modelObserve bytes sec queries gets))]
    match b.sysv, (jNat idx "sysv").toOption with
    | some t, some hsec =>
      wf := wf ++ [("sysv", Json.bool (sysvFileWf env d hsec sec b.es b.names t && small))]
      model := model ++ [("sysv", resJson id (modelObserve bytes hsec queries gets))]
    | _, _ => pure ()
    match b.gnu, (jNat idx "gnu").toOption with
    | some t, some hsec =>
      wf := wf ++ [("gnu", Json.bool (gnuFileWf env d hsec sec b.es b.names t && small))]
      model := model ++ [("gnu", resJson id (modelObserve bytes hsec queries gets))]
    | _, _ => pure ()
    match b.syminfo, (jNat idx "syminfo").toOption with
    | some si, some isec =>
      wf := wf ++ [("syminfo", Json.bool (syminfoFileWf env d isec sec b.es b.names si && small))]
      model := model ++ [("syminfo", resJson id (modelObserve bytes isec queries gets))]
    | _, _ => pure ()
    match b.shndx, (jNat idx "shndx").toOption with
    | some ws, some xsec =>
      wf := wf ++ [("shndx", Json.bool (shndxFileWf env d xsec (hdrNat d xsec "sh_link") ws && small))]
      model := model ++ [("shndx", resJson id (modelObserve bytes xsec queries gets)),
                         ("companion", resJson id (modelCompanion bytes sec))]
    | _, _ => pure ()
    let byName := Json.arr (secNames.map fun nm => resJson id (modelObserveByName bytes nm queries gets)).toArray
    let idxOf := Json.arr (secNames.map fun nm => optNatJ (d.indexOfName nm)).toArray
    return Json.mkObj [("bytes", jHexOf bytes), ("wf", Json.mkObj wf), ("expect", b.expect queries),
      ("model", Json.mkObj model), ("modelByName", byName), ("indexOfName", idxOf),
      ("companionExpect", optNatJ (shndxTablesFor env d sec).getLast?),
      ("linkOf", Json.mkObj ((match (jNat idx "shndx").toOption with
                              | some x => [("shndx", jN (hdrNat d x "sh_link"))]
                              | none => []))),
      ("utf8", Json.bool (b.names.all validUtf8))]

/-- the error `get_section(sec)` must raise according to the bad-link theorems of `Props/C03.lean`
    (`link_wrong_type_error`, `link_beyond_file_error`, `link_truncated_header_error`, their `_nested_`
    forms) — `none` where those theorems do not decide (good links, stray headers inside the file) -/
def linkExpect (env : Env) (d : ElfDesc) (bytes : Bytes) (sec : Nat) : Option Err :=
  let shdrSize := 16 + 6 * (d.cls / 8)
  let direct (v : LinkVerdict) : Option Err :=
    match v with
    | .wrongType _ => some .elfError
    | .outOfRange l =>
      let pos := d.shoff + l * d.shentsize
      if bytes.length < pos then some .typeError
      else if bytes.length < pos + shdrSize then some .elfParseError
      else none
    | _ => none
  match linkVerdict env d sec with
  | some (.linked l) =>
    match linkVerdict env d l with
    | some (.wrongType _) => some .elfError
    | some (.outOfRange l2) => if bytes.length < d.shoff + l2 * d.shentsize then some .typeError else none
    | _ => none
  | some v => direct v
  | none => none

def verdictJson : Option LinkVerdict → Json
  | some (.linked l) => Json.arr #[Json.str "linked", jN l]
  | some (.wrongType l) => Json.arr #[Json.str "wrongType", jN l]
  | some (.outOfRange l) => Json.arr #[Json.str "outOfRange", jN l]
  | some .unchecked => Json.arr #[Json.str "unchecked"]
  | none => Json.null

/-- `link`: an abstract image whose links are arbitrary; for each listed section the Spec's verdict on its
    link, the error the theorems prescribe (where they decide), and the model's `get_section` -/
def handleLink (req : Json) : Except String Json := do
  let d ← C01.descOfJson (← req.getObjVal? "desc")
  let tail := (jNat req "tail").toOption.getD 0
  let secs ← jNats req "secs"
  match d.assembleFast tail with
  | none => return Json.mkObj [("core", Json.bool false), ("why", "not encodable")]
  | some bytes =>
    let env := elfEnv
    let core := wfZCore env d && decide (bytes.length < 2 ^ 63)
    let rows := secs.map fun sec =>
      let model : R Json := do
        let f ← openElf env elfStructsFor machineClassOf bytes
        match ← getSymSection env f sec with
        | .symtab .. => pure (Json.str "SymbolTableSection")
        | .shndx _ l => pure (Json.arr #[Json.str "SymbolTableIndexSection", jN l])
        | .syminfo .. => pure (Json.str "SUNWSyminfoTableSection")
        | .sysv .. => pure (Json.str "ELFHashSection")
        | .gnu .. => pure (Json.str "GNUHashSection")
        | .other k => pure (Json.str k)
      Json.mkObj [("sec", jN sec), ("verdict", verdictJson (linkVerdict env d sec)),
        ("expect", match linkExpect env d bytes sec with
                   | some e => Json.str e.name
                   | none => Json.null),
        ("model", resJson id model)]
    return Json.mkObj [("bytes", jHexOf bytes), ("core", Json.bool core), ("wfz", Json.bool (d.wfZ env)),
      ("rows", Json.arr rows.toArray)]

/-- `utf8`: `bytes.decode('utf-8', errors='replace')` per the Unicode Standard, and well-formedness -/
def handleUtf8 (req : Json) : Except String Json := do
  let name ← jHex req "name"
  return Json.mkObj [("replace", jHexOf (utf8Replace name)), ("valid", Json.bool (validUtf8 name))]

def handle (req : Json) : Except String Json := do
  let k ← jStr req "k"
  match k with
  | "ast" => handleAst req
  | "run" => handleRun req
  | "hash" => handleHash req
  | "file" => handleFile req
  | "link" => handleLink req
  | "utf8" => handleUtf8 req
  | _ => throw s!"C03: unknown kind {k}"

end PyElf.Driver.C03
