/-
  Driver handler for C10 (not part of the model; no theorem mentions it).
  kind `hist`: the pure parse tables of one file (computed by the harness from a FRESH object) and an operation
  list; runs `Model.C10.xstep` (the base step inside the cache layer: abbreviation tables, line programs, CFI
  entries) over the list and returns every answer and the abstract cache state after every step.
-/
import PyElf.Driver.Json
import PyElf.Model.History
import PyElf.Model.HistoryCaches
open Lean
namespace PyElf.Driver.C10
open PyElf PyElf.Model.Lookup PyElf.Model.C10

def jIntAt (j : Json) : Except String Int := jIntOf j

structure URow where
  off : Nat
  size : Nat
  dieOff : Nat
  stmt : Option Nat
  dies : List DIE
  /-- (DIE offset, attribute name, the form is DW_FORM_ref_addr, raw value) -/
  refs : List (Nat × String × Bool × Nat)

def natOpt (i : Int) : Option Nat := if i < 0 then none else some i.toNat

def parseUnit (j : Json) : Except String URow := do
  match j with
  | .arr #[o, s, d, st, .arr rows] =>
    let off ← jNatOf o
    let dieOff ← jNatOf d
    let stmt := natOpt (← jIntOf st)
    let rowOf (ro rs : Json) (ch nl : Bool) (sib : Json) : Except String DIE := do
      let ro ← jNatOf ro
      return ({ offset := ro, size := ← jNatOf rs, hasChildren := ch, isNull := nl, sibling := natOpt (← jIntOf sib),
                stmt := if ro = dieOff then stmt else none, payload := ro } : DIE)
    let dies ← rows.toList.mapM fun r =>
      match r with
      | .arr #[ro, rs, .bool ch, .bool nl, sib] => rowOf ro rs ch nl sib
      | .arr #[ro, rs, .bool ch, .bool nl, sib, _] => rowOf ro rs ch nl sib
      | _ => .error "bad die row"
    let refs ← rows.toList.mapM fun r =>
      match r with
      | .arr #[ro, _, _, _, _, .arr rf] => do
        let ro ← jNatOf ro
        rf.toList.mapM fun x =>
          match x with
          | .arr #[.str name, .bool isAddr, raw] => do return (ro, name, isAddr, ← jNatOf raw)
          | _ => .error "bad ref row"
      | _ => pure []
    return ⟨off, ← jNatOf s, dieOff, stmt, dies, refs.flatten⟩
  | _ => .error "bad unit"

def mkFile (size : Nat) (us : List URow) (secs syms : List String) (pub : Option (List (String × Nat × Nat))) : File :=
  { size := size
    parseCU := fun o =>
      match us.find? (·.off == o) with
      | some u => .ok ⟨.record [("unit_length", .int (u.size - 4 : Nat))], 32, u.off, u.dieOff⟩
      | none => .error .elfParseError
    parseDIE := fun cu o =>
      match us.find? (·.off == cu) with
      | some u =>
        match u.dies.find? (·.offset == o) with
        | some d => .ok d
        | none => .error .elfParseError
      | none => .error .elfParseError
    secNames := secs
    symNames := syms
    refAttr := fun cu o name =>
      match us.find? (·.off == cu) with
      | some u => (u.refs.find? (fun r => r.1 == o && r.2.1 == name)).map (·.2.2)
      | none => none
    pubnames := pub }

def parsePub (req : Json) : Except String (Option (List (String × Nat × Nat))) :=
  match req.getObjVal? "pubnames" with
  | .ok (.arr a) => do
    let l ← a.toList.mapM fun x =>
      match x with
      | .arr #[.str n, c, d] => do return (n, ← jNatOf c, ← jNatOf d)
      | _ => .error "bad pubnames row"
    return some l
  | _ => pure none

def strList (j : Json) (k : String) : List String :=
  match j.getObjVal? k with
  | .ok (.arr a) => a.toList.filterMap fun x => match x with | .str s => some s | _ => none
  | _ => []

def parseKind (k : Json) (args : Json) : Except String IterKind := do
  match k, args with
  | .str "cus", _ => return .cus
  | .str "dies", .arr #[c] => return .dies (← jNatOf c)
  | .str "children", .arr #[c, o] => return .children (← jNatOf c) (← jNatOf o)
  | .str "siblings", .arr #[c, o] => return .siblings (← jNatOf c) (← jNatOf o)
  | _, _ => .error "bad iterator kind"

def parseOp (j : Json) : Except String Op := do
  match j with
  | .arr #[.str "seek", _, n] => return .seek (← jNatOf n)
  | .arr #[.str "cu_at", o] => return .cuAt (← jNatOf o)
  | .arr #[.str "cu_cont", o] => return .cuCont (← jNatOf o)
  | .arr #[.str "top", o] => return .top (← jNatOf o)
  | .arr #[.str "die", c, o] => return .die (← jNatOf c) (← jNatOf o)
  | .arr #[.str "refaddr", o] => return .refaddr (← jNatOf o)
  | .arr #[.str "children", c, o] => return .children (← jNatOf c) (← jNatOf o)
  | .arr #[.str "parent", c, o] => return .parent (← jNatOf c) (← jNatOf o)
  | .arr #[.str "lp", c] => return .lp (← jNatOf c) true
  | .arr #[.str "lp_hdr", c] => return .lp (← jNatOf c) false
  | .arr #[.str "take", k, a, n] => return .take (← parseKind k a) (← jNatOf n)
  | .arr #[.str "all", k, a] => return .all (← parseKind k a)
  | .arr #[.str "it_new", k, a] => return .itNew (← parseKind k a)
  | .arr #[.str "it_next", h] => return .itNext (← jNatOf h)
  | .arr #[.str "sec_idx", .str n] => return .secIdx n
  | .arr #[.str "sym_n", .str n] => return .symByName n
  | .arr #[.str "siblings", c, o] => return .siblings (← jNatOf c) (← jNatOf o)
  | .arr #[.str "ref", c, o, .str n] => return .ref (← jNatOf c) (← jNatOf o) n
  | .arr #[.str "pubname", .str n] => return .pubname n
  | _ => .error s!"bad op {j.compress}"

def ansJson : Ans → Json
  | .unit => Json.null
  | .nat n => jN n
  | .pair a b => Json.arr #[jN a, jN b]
  | .opt none => Json.null
  | .opt (some n) => jN n
  | .list l => Json.arr (l.map jN).toArray
  | .optList none => Json.null
  | .optList (some l) => Json.arr (l.map jN).toArray
  | .str s => Json.str s

def optOff (o : Option DIE) : Json := match o with | some d => jN d.offset | none => jI (-1)

def insertSorted (x : Nat × Bool) : List (Nat × Bool) → List (Nat × Bool)
  | [] => [x]
  | y :: ys => if x.1 ≤ y.1 then x :: y :: ys else y :: insertSorted x ys

def stateJson (st : State) : Json :=
  Json.mkObj [
    ("cumap", Json.arr (st.cus.offsets.map jN).toArray),
    ("units", Json.arr (st.cus.cus.map fun c =>
      let u := (assocGet? st.units c.cuOffset).getD (UnitCache.empty 0)
      Json.arr #[jN c.cuOffset, Json.arr (u.diemap.map jN).toArray,
        Json.arr (u.dielist.map fun d => Json.arr #[jN d.offset, optOff (assocGet? u.parent d.offset), optOff (assocGet? u.term d.offset)]).toArray]).toArray),
    ("line", Json.arr ((st.line.foldr insertSorted []).map fun (k, b) => Json.arr #[jN k, Json.bool b]).toArray),
    ("pos", jN st.pos)]

/-! ### the cache layer: tables -/

def natPairs (j : Json) (k : String) : Except String (List (Nat × Nat)) :=
  match j.getObjVal? k with
  | .ok (.arr a) => a.toList.mapM fun x =>
      match x with
      | .arr #[p, q] => do return (← jNatOf p, ← jNatOf q)
      | _ => .error s!"bad pair in {k}"
  | _ => pure []

def natRows (j : Json) (k : String) : Except String (List (List Int)) :=
  match j.getObjVal? k with
  | .ok (.arr a) => a.toList.mapM fun x =>
      match x with
      | .arr r => r.toList.mapM jIntOf
      | _ => .error s!"bad row in {k}"
  | _ => pure []

def lookup2 (l : List (Nat × Nat)) (k : Nat) : Option Nat := (l.find? (·.1 == k)).map (·.2)

structure CfiTab where
  size : Nat
  /-- [off, kind (0 zero, 1 cie, 2 fde), a, b, c]: zero: a = endPos; cie: skip, endPos, payload; fde: a = ptr -/
  heads : List (List Int)
  /-- [off, t1, t2, skip, endPos, payload] -/
  fdes : List (List Int)

def parseCfiTab (j : Json) (k : String) : Except String CfiTab :=
  match j.getObjVal? k with
  | .ok o => do return ⟨(jNat o "size").toOption.getD 0, ← natRows o "heads", ← natRows o "fdes"⟩
  | _ => pure ⟨0, [], []⟩

def cfiHeadOf (t : CfiTab) (off : Int) : R CHead :=
  match t.heads.find? (fun r => r.head? == some off) with
  | some [_, 0, a, _, _] => .ok (.zero a.toNat)
  | some [_, 1, a, b, c] => .ok (.cie ⟨a.toNat, b.toNat, c.toNat⟩)
  | some [_, 2, a, _, _] => .ok (.fde a)
  | _ => .error .elfParseError

def cfiFdeOf (t : CfiTab) (off : Int) (t1 t2 : Nat) : R CRaw :=
  match t.fdes.find? (fun r => r.take 3 == [off, (t1 : Int), (t2 : Int)]) with
  | some [_, _, _, a, b, c] => .ok ⟨a.toNat, b.toNat, c.toNat⟩
  | _ => .error .elfParseError

def mkXFile (F : File) (us : List URow) (x : Json) : Except String XFile := do
  let cuAb ← natPairs x "cu_abbrev"          -- unit offset ↦ debug_abbrev_offset
  let tabs ← natPairs x "abbrev_tables"      -- offset ↦ table payload (offsets that parse)
  let abSize := (jNat x "abbrev_size").toOption.getD 0
  let keys ← natPairs x "lp_keys"            -- unit offset ↦ structs key
  let lpP ← natRows x "lp_parse"             -- [key, o, hdr]
  let lpD ← natRows x "lp_decode"            -- [key, o, entries, hdr afterwards]
  let cd ← parseCfiTab x "cfi_d"
  let ce ← parseCfiTab x "cfi_e"
  let abOff := fun cu => (lookup2 cuAb cu).getD 0
  let parseAb : Nat → R Nat := fun off => match lookup2 tabs off with | some t => .ok t | none => .error .elfParseError
  return {
    skel := F
    ctor := fun cu o tbl =>
      match us.find? (·.off == cu) with
      | some u =>
        match u.dies.find? (·.offset == o) with
        | some d =>
          if d.isNull then .ok d
          else
            match tbl with
            | .error e => .error e
            -- the rows were read with the unit's own table; any other table is outside what the harness can tabulate
            | .ok t => if lookup2 tabs (abOff cu) == some t then .ok d else .error .assertion
        | none => .error .elfParseError
      | none => .error .elfParseError
    abbrevOff := abOff
    abbrevSize := abSize
    parseAbbrev := parseAb
    lpKey := fun cu => (lookup2 keys cu).getD 0
    lpParse := fun k o =>
      match lpP.find? (fun r => r.take 2 == [(k : Int), (o : Int)]) with
      | some [_, _, h] => .ok h.toNat
      | _ => .error .elfParseError
    lpDecode := fun k o =>
      match lpD.find? (fun r => r.take 2 == [(k : Int), (o : Int)]) with
      | some [_, _, e, h] => .ok (e.toNat, h.toNat)
      | _ => .error .elfParseError
    cfiSize := fun eh => if eh then ce.size else cd.size
    cfiHead := fun eh off => cfiHeadOf (if eh then ce else cd) off
    cfiFde := fun eh off t1 t2 => cfiFdeOf (if eh then ce else cd) off t1 t2 }

def parseXOp (j : Json) : Except String XOp := do
  match j with
  | .arr #[.str "abbrev_cu", c] => return .abbrevCU (← jNatOf c)
  | .arr #[.str "abbrev_at", o] => return .abbrevAt (← jNatOf o)
  | .arr #[.str "lp", c] => return .lp (← jNatOf c) true
  | .arr #[.str "lp_hdr", c] => return .lp (← jNatOf c) false
  | .arr #[.str "cfi"] => return .cfi false
  | .arr #[.str "ehcfi"] => return .cfi true
  | .arr #[.str "cfi_obj"] => return .cfiObj false
  | .arr #[.str "ehcfi_obj"] => return .cfiObj true
  | _ => return .base (← parseOp j)

def centJson : CEnt → Json
  | .zero o => Json.arr #[Json.str "Z", jN o]
  | .cie o _ p => Json.arr #[Json.str "C", jI o, jN p]
  | .fde o _ p c => Json.arr #[Json.str "F", jI o, jN p,
      match c with | .zero o => jN o | .cie o _ _ => jI o | .fde o _ _ _ => jI o]

def xansJson : XAns → Json
  | .base a => ansJson a
  | .tbl t => jN t
  | .none => Json.null
  | .lp o h e => Json.arr #[jN o, jN h, match e with | some e => jN e | none => Json.null]
  | .cfi l => Json.arr (l.map centJson).toArray

def insertNat (x : Nat) : List Nat → List Nat
  | [] => [x]
  | y :: ys => if x ≤ y then x :: y :: ys else y :: insertNat x ys

def insertInt (x : Int) : List Int → List Int
  | [] => [x]
  | y :: ys => if x ≤ y then x :: y :: ys else y :: insertInt x ys

def cfiObjJson (o : CfiObj) : Json :=
  Json.arr #[Json.bool o.entries.isSome, Json.arr (((o.cache.map (·.1)).foldr insertInt []).map jI).toArray]

def xstateJson (xs : XState) : Json :=
  (stateJson xs.base).mergeObj (Json.mkObj [
    ("line", Json.arr (((xs.lines.map fun (k, o) => (k, o.entries.isSome)).foldr insertSorted []).map
      fun (k, b) => Json.arr #[jN k, Json.bool b]).toArray),
    ("abbrev", Json.arr (((xs.ab.cache.map (·.1)).foldr insertNat []).map jN).toArray),
    ("memo", Json.arr (((xs.ab.memo.map (·.1)).foldr insertNat []).map jN).toArray),
    ("cfiobj", Json.arr #[cfiObjJson xs.cfiD, cfiObjJson xs.cfiE])])

def handle (req : Json) : Except String Json := do
  let kind ← jStr req "k"
  if kind != "hist" then .error s!"C10: unknown kind {kind}"
  let size ← jNat req "size"
  let us ← (← jArr req "units").mapM parseUnit
  let F := mkFile size us (strList req "secs") (strList req "syms") (← parsePub req)
  let X ← mkXFile F us ((req.getObjVal? "x").toOption.getD (Json.mkObj []))
  let ops ← (← jArr req "ops").mapM parseXOp
  let pos0 := (jNat req "pos0").toOption.getD 0
  let mut st := { XState.init with base := { State.init with pos := pos0 } }
  let mut out : Array Json := #[]
  for op in ops do
    let r := xstep X st op
    st := r.2
    out := out.push (Json.mkObj [("ans", resJson xansJson r.1), ("st", xstateJson st)])
  return Json.mkObj [("steps", Json.arr out)]

end PyElf.Driver.C10
