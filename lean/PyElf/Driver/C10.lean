/-
  Driver handler for C10 (not part of the model; no theorem mentions it).
  kind `hist`: the pure parse tables of one file (computed by the harness from a FRESH object) and an operation
  list; runs `Model.C10.step` over the list and returns every answer and the abstract cache state after every step.
-/
import PyElf.Driver.Json
import PyElf.Model.History
open Lean
namespace PyElf.Driver.C10
open PyElf PyElf.Model.Lookup PyElf.Model.C10

def jIntAt (j : Json) : Except String Int := jIntOf j

structure URow where
  off : Nat
  size : Nat
  dieOff : Nat
  stmt : Option Nat
  dies : List DIE
  /-- (DIE offset, attribute name, the form is DW_FORM_ref_addr, raw value) -/
  refs : List (Nat × String × Bool × Nat)

def natOpt (i : Int) : Option Nat := if i < 0 then none else some i.toNat

def parseUnit (j : Json) : Except String URow := do
  match j with
  | .arr #[o, s, d, st, .arr rows] =>
    let off ← jNatOf o
    let dieOff ← jNatOf d
    let stmt := natOpt (← jIntOf st)
    let rowOf (ro rs : Json) (ch nl : Bool) (sib : Json) : Except String DIE := do
      let ro ← jNatOf ro
      return ({ offset := ro, size := ← jNatOf rs, hasChildren := ch, isNull := nl, sibling := natOpt (← jIntOf sib),
                stmt := if ro = dieOff then stmt else none, payload := ro } : DIE)
    let dies ← rows.toList.mapM fun r =>
      match r with
      | .arr #[ro, rs, .bool ch, .bool nl, sib] => rowOf ro rs ch nl sib
      | .arr #[ro, rs, .bool ch, .bool nl, sib, _] => rowOf ro rs ch nl sib
      | _ => .error "bad die row"
    let refs ← rows.toList.mapM fun r =>
      match r with
      | .arr #[ro, _, _, _, _, .arr rf] => do
        let ro ← jNatOf ro
        rf.toList.mapM fun x =>
          match x with
          | .arr #[.str name, .bool isAddr, raw] => do return (ro, name, isAddr, ← jNatOf raw)
          | _ => .error "bad ref row"
      | _ => pure []
    return ⟨off, ← jNatOf s, dieOff, stmt, dies, refs.flatten⟩
  | _ => .error "bad unit"

def mkFile (size : Nat) (us : List URow) (secs syms : List String) (pub : Option (List (String × Nat × Nat))) : File :=
  { size := size
    parseCU := fun o =>
      match us.find? (·.off == o) with
      | some u => .ok ⟨.record [("unit_length", .int (u.size - 4 : Nat))], 32, u.off, u.dieOff⟩
      | none => .error .elfParseError
    parseDIE := fun cu o =>
      match us.find? (·.off == cu) with
      | some u =>
        match u.dies.find? (·.offset == o) with
        | some d => .ok d
        | none => .error .elfParseError
      | none => .error .elfParseError
    secNames := secs
    symNames := syms
    refAttr := fun cu o name =>
      match us.find? (·.off == cu) with
      | some u => (u.refs.find? (fun r => r.1 == o && r.2.1 == name)).map (·.2.2)
      | none => none
    pubnames := pub }

def parsePub (req : Json) : Except String (Option (List (String × Nat × Nat))) :=
  match req.getObjVal? "pubnames" with
  | .ok (.arr a) => do
    let l ← a.toList.mapM fun x =>
      match x with
      | .arr #[.str n, c, d] => do return (n, ← jNatOf c, ← jNatOf d)
      | _ => .error "bad pubnames row"
    return some l
  | _ => pure none

def strList (j : Json) (k : String) : List String :=
  match j.getObjVal? k with
  | .ok (.arr a) => a.toList.filterMap fun x => match x with | .str s => some s | _ => none
  | _ => []

def parseKind (k : Json) (args : Json) : Except String IterKind := do
  match k, args with
  | .str "cus", _ => return .cus
  | .str "dies", .arr #[c] => return .dies (← jNatOf c)
  | .str "children", .arr #[c, o] => return .children (← jNatOf c) (← jNatOf o)
  | _, _ => .error "bad iterator kind"

def parseOp (j : Json) : Except String Op := do
  match j with
  | .arr #[.str "seek", _, n] => return .seek (← jNatOf n)
  | .arr #[.str "cu_at", o] => return .cuAt (← jNatOf o)
  | .arr #[.str "cu_cont", o] => return .cuCont (← jNatOf o)
  | .arr #[.str "top", o] => return .top (← jNatOf o)
  | .arr #[.str "die", c, o] => return .die (← jNatOf c) (← jNatOf o)
  | .arr #[.str "refaddr", o] => return .refaddr (← jNatOf o)
  | .arr #[.str "children", c, o] => return .children (← jNatOf c) (← jNatOf o)
  | .arr #[.str "parent", c, o] => return .parent (← jNatOf c) (← jNatOf o)
  | .arr #[.str "lp", c] => return .lp (← jNatOf c) true
  | .arr #[.str "lp_hdr", c] => return .lp (← jNatOf c) false
  | .arr #[.str "take", k, a, n] => return .take (← parseKind k a) (← jNatOf n)
  | .arr #[.str "all", k, a] => return .all (← parseKind k a)
  | .arr #[.str "it_new", k, a] => return .itNew (← parseKind k a)
  | .arr #[.str "it_next", h] => return .itNext (← jNatOf h)
  | .arr #[.str "sec_idx", .str n] => return .secIdx n
  | .arr #[.str "sym_n", .str n] => return .symByName n
  | .arr #[.str "siblings", c, o] => return .siblings (← jNatOf c) (← jNatOf o)
  | .arr #[.str "ref", c, o, .str n] => return .ref (← jNatOf c) (← jNatOf o) n
  | .arr #[.str "pubname", .str n] => return .pubname n
  | _ => .error s!"bad op {j.compress}"

def ansJson : Ans → Json
  | .unit => Json.null
  | .nat n => jN n
  | .pair a b => Json.arr #[jN a, jN b]
  | .opt none => Json.null
  | .opt (some n) => jN n
  | .list l => Json.arr (l.map jN).toArray
  | .optList none => Json.null
  | .optList (some l) => Json.arr (l.map jN).toArray
  | .str s => Json.str s

def optOff (o : Option DIE) : Json := match o with | some d => jN d.offset | none => jI (-1)

def insertSorted (x : Nat × Bool) : List (Nat × Bool) → List (Nat × Bool)
  | [] => [x]
  | y :: ys => if x.1 ≤ y.1 then x :: y :: ys else y :: insertSorted x ys

def stateJson (st : State) : Json :=
  Json.mkObj [
    ("cumap", Json.arr (st.cus.offsets.map jN).toArray),
    ("units", Json.arr (st.cus.cus.map fun c =>
      let u := (assocGet? st.units c.cuOffset).getD (UnitCache.empty 0)
      Json.arr #[jN c.cuOffset, Json.arr (u.diemap.map jN).toArray,
        Json.arr (u.dielist.map fun d => Json.arr #[jN d.offset, optOff (assocGet? u.parent d.offset), optOff (assocGet? u.term d.offset)]).toArray]).toArray),
    ("line", Json.arr ((st.line.foldr insertSorted []).map fun (k, b) => Json.arr #[jN k, Json.bool b]).toArray),
    ("pos", jN st.pos)]

def handle (req : Json) : Except String Json := do
  let kind ← jStr req "k"
  if kind != "hist" then .error s!"C10: unknown kind {kind}"
  let size ← jNat req "size"
  let us ← (← jArr req "units").mapM parseUnit
  let F := mkFile size us (strList req "secs") (strList req "syms") (← parsePub req)
  let ops ← (← jArr req "ops").mapM parseOp
  let pos0 := (jNat req "pos0").toOption.getD 0
  let mut st := { State.init with pos := pos0 }
  let mut out : Array Json := #[]
  for op in ops do
    let r := step F st op
    st := r.2
    out := out.push (Json.mkObj [("ans", resJson ansJson r.1), ("st", stateJson st)])
  return Json.mkObj [("steps", Json.arr out)]

end PyElf.Driver.C10
