import PyElf.Driver.Json
import PyElf.Gen.Structs
import PyElf.Spec.DwarfStructs
open Lean
namespace PyElf

deriving instance Repr for BitFld
deriving instance Repr for Con, ConFields, ConCases

namespace Driver.Tie

def conEq (a b : Con) : Bool := (reprStr a) == (reprStr b)

/-- field-by-field comparison of generated and Spec bundles: the diagnostic behind a failed `rfl` -/
def diff : List Json := Id.run do
  let mut out : List Json := []
  for (cfg, g) in Gen.elfBundles do
    let s := Spec.elfStructs cfg
    for n in ElfStructs.names do
      match g.get n, s.get n with
      | some a, some b =>
        if !conEq a b then
          out := Json.mkObj [("bundle", "elf"), ("cfg", Json.arr #[Json.bool cfg.le, jN cfg.cls, Json.str cfg.mclass, Json.bool cfg.solaris, Json.bool cfg.core]),
                             ("name", Json.str n), ("gen", Json.str (reprStr a)), ("spec", Json.str (reprStr b))] :: out
      | _, _ => pure ()
  for (cfg, g) in Gen.dwarfBundles do
    let s := Spec.dwarfStructs cfg
    for n in DwarfStructs.names ++ DwarfStructs.formNames.map ("Dwarf_dw_form:" ++ ·) do
      match g.get n, s.get n with
      | some a, some b =>
        if !conEq a b then
          out := Json.mkObj [("bundle", "dwarf"), ("cfg", Json.arr #[Json.bool cfg.le, jN cfg.fmt, jN cfg.asz, jN cfg.ver]),
                             ("name", Json.str n), ("gen", Json.str (reprStr a)), ("spec", Json.str (reprStr b))] :: out
      | _, _ =>
          out := Json.mkObj [("bundle", "dwarf"), ("cfg", Json.arr #[Json.bool cfg.le, jN cfg.fmt, jN cfg.asz, jN cfg.ver]),
                             ("name", Json.str n), ("gen", "absent-or"), ("spec", "absent")] :: out
  return out.reverse

def handle (req : Json) : Except String Json := do
  let k ← jStr req "k"
  match k with
  | "diff" => return Json.mkObj [("diff", Json.arr diff.toArray)]
  | _ => throw "tie: unknown kind"

end Driver.Tie
end PyElf
