import PyElf.Driver.Json
import PyElf.Driver.C01
import PyElf.Spec.ElfImage
import PyElf.Spec.Contents
import PyElf.Model.ElfFile
import PyElf.Model.Contents
import PyElf.Model.Env
open Lean
namespace PyElf.Driver.C02
open PyElf PyElf.Spec PyElf.Model
open PyElf.Spec.C02 (ShFlags Chdr Sec Seg)

def genFlags : Option ShFlags :=
  match Gen.constTables.find? (·.1 == "EC.SH_FLAGS") with
  | some (_, t) => C02.flagsOfTable t
  | none => none

/-- the zlib oracle the harness supplies: (input, max_length) ↦ output; a miss is reported as
    `notImplemented` (the model asked zlib something the implementation did not) -/
def oracle (tbl : List (Bytes × Nat × Bytes)) (c : Bytes) (n : Nat) : R Bytes :=
  match tbl.find? (fun e => e.1 == c && e.2.1 == n) with
  | some e => .ok e.2.2
  | none => .error .notImplemented

def parseOracle (req : Json) : Except String (List (Bytes × Nat × Bytes)) := do
  match req.getObjVal? "zlib" with
  | .ok (Json.arr es) =>
    es.toList.mapM fun e => match e with
      | Json.arr #[Json.str c, n, Json.str o] => do
        let some cb := Bytes.ofHex c | throw "zlib: bad hex"
        let some ob := Bytes.ofHex o | throw "zlib: bad hex"
        pure (cb, ← jNatOf n, ob)
      | _ => throw "zlib: bad entry"
  | _ => pure []

/-- Spec-side `inflate`: the full inflated payload of a stream, `none` when zlib rejects it -/
def parseInflate (req : Json) : Except String (Bytes → Option Bytes) := do
  match req.getObjVal? "inflate" with
  | .ok (Json.arr es) =>
    let tbl ← es.toList.mapM fun e => match e with
      | Json.arr #[Json.str c, Json.str o] => do
        let some cb := Bytes.ofHex c | throw "inflate: bad hex"
        let some ob := Bytes.ofHex o | throw "inflate: bad hex"
        pure (cb, some ob)
      | Json.arr #[Json.str c, Json.null] => do
        let some cb := Bytes.ofHex c | throw "inflate: bad hex"
        pure (cb, none)
      | _ => throw "inflate: bad entry"
    pure fun c => match tbl.find? (·.1 == c) with
      | some e => e.2
      | none => none
  | _ => pure fun _ => none

def pairsOf (req : Json) (k : String) : Except String (List (Nat × Nat)) := do
  match req.getObjVal? k with
  | .ok (Json.arr es) =>
    es.toList.mapM fun e => match e with
      | Json.arr #[a, b] => do pure (← jNatOf a, ← jNatOf b)
      | _ => throw s!"{k}: bad pair"
  | _ => pure []

def bytesJ (b : Bytes) : Json := Json.mkObj [("b", Json.str b.toHex)]

/-- bound on SHT_NOBITS sizes the harness materialises (memory is not modelled) -/
def nobitsCap : Nat := 2 ^ 20

/-! ### the model's observation of an image -/

def modelObserve (zl : Bytes → Nat → R Bytes) (data : Bytes) (strq addrq : List (Nat × Nat)) : R Json := do
  let some F := genFlags | throw .notImplemented
  let f ← openElf elfEnv elfStructsFor machineClassOf data
  let secs ← iterSections elfEnv f.S data f.header f.shstr
  let secJs ← secs.mapM fun (_, _, sh) => do
    let o ← C02.sectionNew elfEnv f.S F data sh
    -- a zero block between the cap and 2^63 bytes is a MemoryError in Python (not modelled): never materialise it
    let tooBig := match sh.getField "sh_type", o.dsize with
      | .ok (.str "SHT_NOBITS"), .int n => decide ((nobitsCap : Int) < n) && decide (n < 2 ^ 63)
      | _, _ => false
    let dataJ := if tooBig then Json.mkObj [("err", "memoryError")] else resJson bytesJ (C02.sectionData zl f.S data o)
    return Json.mkObj [("compressed", Json.bool (o.compressed != 0)), ("size", o.dsize.toJson),
                       ("align", o.dalign.toJson), ("data", dataJ)]
  let strJs ← strq.mapM fun (i, off) => do
    match secs[i]? with
    | some (_, _, sh) => return resJson bytesJ (getString data sh off)
    | none => throw .indexError
  let segs ← iterSegments elfEnv f.S data f.header f.shstr
  let segJs := segs.map fun (kind, ph) =>
    Json.mkObj [("data", resJson bytesJ (C02.segmentData data ph)),
                ("interp", if kind == "InterpSegment" then resJson bytesJ (C02.getInterpName elfEnv data ph) else Json.null)]
  let addrJs := addrq.map fun (s, n) =>
    resJson (fun (l : List Int) => Json.arr (l.map jI).toArray) (C02.addressOffsets elfEnv f s n)
  let inseg := segs.map fun (_, ph) =>
    Json.arr (secs.map fun (_, _, sh) => resJson Json.bool (C02.sectionInSegment F ph sh)).toArray
  return Json.mkObj [("sections", Json.arr secJs.toArray), ("strings", Json.arr strJs.toArray),
                     ("segments", Json.arr segJs.toArray), ("addr", Json.arr addrJs.toArray),
                     ("inseg", Json.arr inseg.toArray)]

/-! ### the Spec's observation of a description -/

def secOf (s : SecDesc) : Sec :=
  { shType := getNatD s.hdr "sh_type", flags := getNatD s.hdr "sh_flags", addr := getNatD s.hdr "sh_addr",
    offset := getNatD s.hdr "sh_offset", size := getNatD s.hdr "sh_size", addralign := getNatD s.hdr "sh_addralign" }

def segOf (p : Fields) : Seg :=
  { ptype := getNatD p "p_type", offset := getNatD p "p_offset", vaddr := getNatD p "p_vaddr",
    filesz := getNatD p "p_filesz", memsz := getNatD p "p_memsz" }

def optData : Option Bytes → Json
  | some b => Json.mkObj [("ok", bytesJ b)]
  | none => Json.mkObj [("reject", Json.bool true)]

def specObserve (inflate : Bytes → Option Bytes) (d : ElfDesc) (chdrs : List (Option Chdr)) (img : Bytes)
    (strq addrq : List (Nat × Nat)) : Json :=
  let secs := d.sections.map secOf
  let segs := d.segments.map segOf
  let secJs := (secs.zip chdrs).map fun (s, ch) =>
    let wf := !(s.nobits && s.compressed) && (!s.compressed || (ch.isSome && decide (C02.chdrSize d.cls ≤ s.size))) &&
      decide (s.offset + s.size < 2 ^ 63) && (!s.nobits || decide (s.size ≤ nobitsCap)) &&
      decide (C02.logicalSize s ch + 1 < 2 ^ 63)
    Json.mkObj [("compressed", Json.bool s.compressed), ("size", jN (C02.logicalSize s ch)),
                ("align", jN (C02.logicalAlign s ch)), ("data", optData (C02.dataOf inflate d.cls img s ch)),
                ("wf", Json.bool wf)]
  let strJs := strq.map fun (i, off) =>
    match d.sections[i]? with
    | some s =>
      let sc := secOf s
      let tbl := C02.extent img sc.offset sc.size
      match C02.stringAt tbl off with
      | some str => Json.mkObj [("ok", bytesJ str), ("wf", Json.bool (decide (sc.offset + off < 2 ^ 63)))]
      | none => Json.mkObj [("wf", Json.bool false)]
    | none => Json.mkObj [("wf", Json.bool false)]
  let segJs := segs.map fun g =>
    Json.mkObj [("data", optData (some (C02.segData img g))),
                ("wf", Json.bool (decide (g.offset < 2 ^ 63) && decide (g.filesz < 2 ^ 63))),
                ("interp", if g.ptype == C02.PT_INTERP then
                    match C02.interpName img g with
                    | some s => Json.mkObj [("ok", bytesJ s), ("wf", Json.bool (decide (g.offset < 2 ^ 63)))]
                    | none => Json.mkObj [("wf", Json.bool false)]
                  else Json.null)]
  let addrJs := addrq.map fun (s, n) =>
    Json.mkObj [("ok", Json.arr ((C02.addrOffsets segs s n).map jN).toArray)]
  let inseg := segs.map fun g =>
    Json.arr (secs.map fun s => Json.mkObj [("ok", Json.bool (C02.inSegmentStrict g s))]).toArray
  let macroJs := segs.map fun g =>
    Json.arr (secs.map fun s => Json.arr #[Json.bool (C02.macro64 g s), Json.bool (C02.plainCase g s),
                                           Json.bool (C02.fits64 g s)]).toArray
  Json.mkObj [("sections", Json.arr secJs.toArray), ("strings", Json.arr strJs.toArray),
              ("segments", Json.arr segJs.toArray), ("addr", Json.arr addrJs.toArray),
              ("inseg", Json.arr inseg.toArray), ("macro", Json.arr macroJs.toArray)]

/-- the description with SHF_COMPRESSED cleared: C01's well-formedness sets compressed sections
    aside as C02's subject; everything else it demands (openable file, names, links) is needed here too -/
def clearCompressed (d : ElfDesc) : ElfDesc :=
  { d with sections := d.sections.map fun s =>
      { s with hdr := s.hdr.map fun (k, v) =>
          if k == "sh_flags" then
            match v with
            | .int n => (k, .int (n.toNat &&& (2 ^ 64 - 1 - 0x800) : Nat))
            | _ => (k, v)
          else (k, v) } }

def chdrOfJson (j : Json) : Except String Chdr := do
  pure ⟨← jNat j "ch_type", ← jNat j "ch_size", ← jNat j "ch_addralign"⟩

def handle (req : Json) : Except String Json := do
  let k ← jStr req "k"
  let zl := oracle (← parseOracle req)
  let strq ← pairsOf req "strq"
  let addrq ← pairsOf req "addrq"
  match k with
  | "ast" =>
    let astJ ← req.getObjVal? "ast"
    let d0 ← C01.descOfJson astJ
    -- compressed sections: body := Spec-encoded Chdr ++ the stream the harness supplies
    let secJs ← jArr astJ "sections"
    let chdrs ← secJs.mapM fun s => match s.getObjVal? "chdr" with
      | .ok (Json.null) => pure none
      | .ok j => do pure (some (← chdrOfJson j))
      | .error _ => pure none
    let zbodies ← secJs.mapM fun s => match s.getObjVal? "zbody" with
      | .ok (Json.str h) => match Bytes.ofHex h with
          | some b => pure b
          | none => throw "bad zbody"
      | _ => pure []
    let secs' := (d0.sections.zip (chdrs.zip zbodies)).map fun (s, ch, zb) =>
      match ch with
      | some c => { s with body := some (C02.encChdr d0.cls d0.le c ++ zb) }
      | none => s
    let d := { d0 with sections := secs' }
    let tail := (jNat req "tail").toOption.getD 0
    let inflate ← parseInflate req
    match d.assemble tail with
    | none => return Json.mkObj [("wf", Json.bool false), ("why", "not encodable")]
    | some bytes =>
      let chOk := (chdrs.all fun c => match c with | some c => c.fits d.cls | none => true)
      -- the image really carries every body at its offset
      let layoutOk := d.sections.all fun s => match s.body with
        | some b => b.isEmpty || readN bytes (getNatD s.hdr "sh_offset") b.length == b
        | none => true
      let wf := chOk && layoutOk && (clearCompressed d).wf elfEnv
      return Json.mkObj [("wf", Json.bool wf), ("bytes", jHexOf bytes),
                         ("expect", specObserve inflate d chdrs bytes strq addrq),
                         ("model", resJson id (modelObserve zl bytes strq addrq))]
  | "raw" =>
    let data ← jHex req "hex"
    return Json.mkObj [("model", resJson id (modelObserve zl data strq addrq))]
  | _ => throw s!"C02: unknown kind {k}"

end PyElf.Driver.C02
