import PyElf.Driver.Json
import PyElf.Driver.C01
import PyElf.Spec.ElfImage
import PyElf.Spec.Contents
import PyElf.Model.ElfFile
import PyElf.Model.Contents
import PyElf.Model.ContentsFile
import PyElf.Spec.ContentsImage
import PyElf.Spec.ContentsMacro
import PyElf.Model.Env
open Lean
namespace PyElf.Driver.C02
open PyElf PyElf.Spec PyElf.Model
open PyElf.Spec.C02 (ShFlags Chdr Sec Seg)

def genFlags : Option ShFlags :=
  match Gen.constTables.find? (·.1 == "EC.SH_FLAGS") with
  | some (_, t) => C02.flagsOfTable t
  | none => none

/-- the zlib oracle the harness supplies: (input, max_length) ↦ output; a miss is reported as
    `notImplemented` (the model asked zlib something the implementation did not) -/
def oracle (tbl : List (Bytes × Nat × Bytes)) (c : Bytes) (n : Nat) : R Bytes :=
  match tbl.find? (fun e => e.1 == c && e.2.1 == n) with
  | some e => .ok e.2.2
  | none => .error .notImplemented

def parseOracle (req : Json) : Except String (List (Bytes × Nat × Bytes)) := do
  match req.getObjVal? "zlib" with
  | .ok (Json.arr es) =>
    es.toList.mapM fun e => match e with
      | Json.arr #[Json.str c, n, Json.str o] => do
        let some cb := Bytes.ofHex c | throw "zlib: bad hex"
        let some ob := Bytes.ofHex o | throw "zlib: bad hex"
        pure (cb, ← jNatOf n, ob)
      | _ => throw "zlib: bad entry"
  | _ => pure []

/-- Spec-side `inflate`: the full inflated payload of a stream, `none` when zlib rejects it -/
def parseInflate (req : Json) : Except String (Bytes → Option Bytes) := do
  match req.getObjVal? "inflate" with
  | .ok (Json.arr es) =>
    let tbl ← es.toList.mapM fun e => match e with
      | Json.arr #[Json.str c, Json.str o] => do
        let some cb := Bytes.ofHex c | throw "inflate: bad hex"
        let some ob := Bytes.ofHex o | throw "inflate: bad hex"
        pure (cb, some ob)
      | Json.arr #[Json.str c, Json.null] => do
        let some cb := Bytes.ofHex c | throw "inflate: bad hex"
        pure (cb, none)
      | _ => throw "inflate: bad entry"
    pure fun c => match tbl.find? (·.1 == c) with
      | some e => e.2
      | none => none
  | _ => pure fun _ => none

def pairsOf (req : Json) (k : String) : Except String (List (Nat × Nat)) := do
  match req.getObjVal? k with
  | .ok (Json.arr es) =>
    es.toList.mapM fun e => match e with
      | Json.arr #[a, b] => do pure (← jNatOf a, ← jNatOf b)
      | _ => throw s!"{k}: bad pair"
  | _ => pure []

def bytesJ (b : Bytes) : Json := Json.mkObj [("b", Json.str b.toHex)]

/-- bound on SHT_NOBITS sizes the harness materialises (memory is not modelled) -/
def nobitsCap : Nat := 2 ^ 20

/-! ### the model's observation of an image -/

/-- Every accessor is answered by the whole-file model functions of Model/ContentsFile.lean (the ones
    the `file_*` theorems of Props/C02.lean speak about): `ELFFile(BytesIO(data))` → `get_section(i)` /
    `get_segment(j)` → accessor.  The harness builds the lists of all sections and segments first, so a
    section or segment that cannot be made fails the whole observation: that is what the first four
    lines mirror. -/
def modelObserve (zl : Bytes → Nat → R Bytes) (data : Bytes) (strq addrq : List (Nat × Nat)) : R Json := do
  let some F := genFlags | throw .notImplemented
  let f ← openElf elfEnv elfStructsFor machineClassOf data
  let secs ← iterSections elfEnv f.S data f.header f.shstr
  let _ ← secs.mapM fun (_, _, sh) => C02.sectionNew elfEnv f.S F data sh
  -- `fileSectionMeta i` / `fileSectionData i` are `fileSection i` followed by the accessor: one opening serves both
  let secJs ← (List.range secs.length).mapM fun i => do
    let (f', _, sh, o) ← C02.fileSection elfEnv elfStructsFor machineClassOf F data i
    -- a zero block between the cap and 2^63 bytes is a MemoryError in Python (not modelled): never materialise it
    let tooBig := match sh.getField "sh_type", o.dsize with
      | .ok (.str "SHT_NOBITS"), .int n => decide ((nobitsCap : Int) < n) && decide (n < 2 ^ 63)
      | _, _ => false
    let dataJ := if tooBig then Json.mkObj [("err", "memoryError")]
      else resJson bytesJ (C02.sectionData zl f'.S f'.data o)
    return Json.mkObj [("compressed", Json.bool (o.compressed != 0)), ("size", o.dsize.toJson),
                       ("align", o.dalign.toJson), ("data", dataJ)]
  -- every fifth lookup through the whole-file function `fileGetString`, the rest on the section
  -- headers already at hand (a lookup on a section that is not a string table is set aside by the harness)
  let strJs ← ((List.range strq.length).zip strq).mapM fun (k, i, off) => do
    match secs[i]? with
    | some (_, _, sh) =>
      if k % 5 == 0 then return resJson bytesJ (C02.fileGetString elfEnv elfStructsFor machineClassOf data i off)
      else return resJson bytesJ (getString data sh off)
    | none => throw .indexError
  let segs ← iterSegments elfEnv f.S data f.header f.shstr
  -- likewise `fileSegmentData j` / `fileInterpName j` are `fileSegment j` followed by the accessor
  let segJs ← (List.range segs.length).mapM fun j => do
    let (f', kind, ph) ← C02.fileSegment elfEnv elfStructsFor machineClassOf data j
    return Json.mkObj [("data", resJson bytesJ (C02.segmentData f'.data ph)),
                ("interp", if kind == "InterpSegment" then resJson bytesJ (C02.getInterpName elfEnv f'.data ph)
                           else Json.null)]
  -- `fileAddressOffsets` is `openElf` followed by `addressOffsets`: the first four queries re-open, the rest reuse `f`
  let addrJs := ((List.range addrq.length).zip addrq).map fun (k, s, n) =>
    resJson (fun (l : List Int) => Json.arr (l.map jI).toArray)
      (if k < 4 then C02.fileAddressOffsets elfEnv elfStructsFor machineClassOf data s n
       else C02.addressOffsets elfEnv f s n)
  -- all pairs: `section_in_segment` on the objects already made; every seventh pair (and the diagonal)
  -- through the whole-file function `fileSectionInSegment` (re-opening the file for each pair of a
  -- 16 × 11 matrix is what the quick tier cannot afford)
  let inseg := ((List.range segs.length).zip segs).map fun (j, _, ph) =>
    Json.arr (((List.range secs.length).zip secs).map fun (i, _, _, sh) =>
      if (i + 3 * j) % 7 == 0 || i == j then
        resJson Json.bool (C02.fileSectionInSegment elfEnv elfStructsFor machineClassOf F data j i)
      else resJson Json.bool (C02.sectionInSegment F ph sh)).toArray
  return Json.mkObj [("sections", Json.arr secJs.toArray), ("strings", Json.arr strJs.toArray),
                     ("segments", Json.arr segJs.toArray), ("addr", Json.arr addrJs.toArray),
                     ("inseg", Json.arr inseg.toArray)]

/-! ### the Spec's observation of a description -/

open PyElf.Spec.C02 (secOf segOf)

def optData : Option Bytes → Json
  | some b => Json.mkObj [("ok", bytesJ b)]
  | none => Json.mkObj [("reject", Json.bool true)]

def optJ {α} (f : α → Json) : Option α → Json
  | some x => f x
  | none => Json.null

/-- a description-derived expectation, abbreviated to `"="` when it is the image-derived one next to it
    (the harness expands it; saves encoding large bodies twice) -/
def sameOr {α} [BEq α] (f : α → Json) (ref : Option α) : Option α → Json
  | some x => if ref == some x then Json.str "=" else f x
  | none => Json.null

/-- what the DESCRIPTION assigns to a section (Props/C02 `file_data_raw` / `_nobits` / `_compressed`):
    `none` where those theorems' hypotheses fail -/
def descData (inflate : Bytes → Option Bytes) (cls : Nat) (le : Bool) (s : SecDesc) (ch : Option Chdr) (zb : Bytes) :
    Option (Option Bytes) :=
  let sc := secOf s
  let body := bodyOf s
  if sc.nobits && sc.compressed then none
  else if sc.nobits then
    if sc.size ≤ nobitsCap then some (some (List.replicate sc.size 0)) else none
  else if sc.compressed then
    match ch with
    | some c =>
      if c.fits cls && body == C02.encChdr cls le c ++ zb && sc.size == body.length &&
          decide (sc.offset + sc.size < 2 ^ 63) && decide (c.chSize + 1 < 2 ^ 63) then
        some (C02.inflatedOf inflate c zb)
      else none
    | none => none
  else if decide (sc.size ≤ body.length) && decide (sc.offset + sc.size < 2 ^ 63) then
    some (some (body.take sc.size))
  else none

/-- the error side for a section not flagged compressed (Props/C02 `file_data_unreachable`) -/
def descErr (s : SecDesc) : Option String :=
  let sc := secOf s
  if sc.compressed then none
  else if !sc.nobits && decide (2 ^ 63 ≤ sc.offset) then some "overflowError"
  else if !sc.nobits && decide (2 ^ 63 ≤ sc.size) then some "overflowError"
  else if sc.nobits && decide (2 ^ 63 ≤ sc.size) then some "overflowError"
  else none

/-- the first section body of the description that wholly holds the file extent `[off, off + n)` -/
def holderOf (d : ElfDesc) (off n : Nat) : Option (SecDesc × Nat) :=
  (d.sections.find? fun s =>
    s.body.isSome && decide ((secOf s).offset ≤ off) && decide (off - (secOf s).offset + n ≤ (bodyOf s).length)).map
    fun s => (s, off - (secOf s).offset)

def specObserve (inflate : Bytes → Option Bytes) (d : ElfDesc) (chdrs : List (Option Chdr)) (zbodies : List Bytes)
    (img : Bytes) (strq addrq : List (Nat × Nat)) : Json :=
  let secs := d.sections.map secOf
  let segs := d.segments.map segOf
  let secJs := (d.sections.zip (chdrs.zip zbodies)).map fun (sd, ch, zb) =>
    let s := secOf sd
    let wf := !(s.nobits && s.compressed) && (!s.compressed || (ch.isSome && decide (C02.chdrSize d.cls ≤ s.size))) &&
      decide (s.offset + s.size < 2 ^ 63) && (!s.nobits || decide (s.size ≤ nobitsCap)) &&
      decide (C02.logicalSize s ch + 1 < 2 ^ 63)
    -- a zero block beyond the cap is never materialised (such an item is not `wf` and is set aside)
    let dat := if s.nobits && decide (nobitsCap < s.size) then none else some (C02.dataOf inflate d.cls img s ch)
    Json.mkObj [("compressed", Json.bool s.compressed), ("size", jN (C02.logicalSize s ch)),
                ("align", jN (C02.logicalAlign s ch)), ("data", optJ optData dat), ("wf", Json.bool wf),
                ("desc", sameOr optData dat (descData inflate d.cls d.le sd ch zb)), ("err", optJ Json.str (descErr sd))]
  let strJs := strq.map fun (i, off) =>
    match d.sections[i]? with
    | some s =>
      let sc := secOf s
      let tbl := C02.extent img sc.offset sc.size
      -- Props/C02 `file_get_string_exact` (a string of the table the description stores) and `get_string_unreachable`
      let isTab := sc.shType == 3
      let desc := if isTab && decide (sc.offset + off < 2 ^ 63) then C02.stringAt (C02.tableOf s) off else none
      let err := if isTab && decide (2 ^ 63 ≤ sc.offset + off) then some "overflowError" else none
      let extra := [("desc", sameOr bytesJ (C02.stringAt tbl off) desc), ("err", optJ Json.str err)]
      match C02.stringAt tbl off with
      | some str => Json.mkObj ([("ok", bytesJ str), ("wf", Json.bool (decide (sc.offset + off < 2 ^ 63)))] ++ extra)
      | none => Json.mkObj ([("wf", Json.bool false)] ++ extra)
    | none => Json.mkObj [("wf", Json.bool false)]
  let segJs := segs.map fun g =>
    let reach := decide (g.offset < 2 ^ 63) && decide (g.filesz < 2 ^ 63)
    -- Props/C02 `file_segment_data_stored` / `_unreachable`, `file_interp_name`, `interp_name_unreachable` / `_unterminated`
    let desc := if reach then (holderOf d g.offset g.filesz).map fun (s, k) => C02.segBytes g s k else none
    let err := if reach then none else some "overflowError"
    let isInterp := g.ptype == C02.PT_INTERP
    let idesc := if decide (g.offset < 2 ^ 63) then
        (holderOf d g.offset 0).bind fun (s, k) => firstNul ((bodyOf s).drop k)
      else none
    let ierr := if decide (2 ^ 63 ≤ g.offset) then some "elfParseError"
      else if (C02.interpName img g).isNone then some "elfParseError" else none
    let sdat := C02.segData img g
    Json.mkObj [("data", optData (some sdat)),
                ("wf", Json.bool reach), ("desc", sameOr bytesJ (some sdat) desc), ("err", optJ Json.str err),
                ("interp", if isInterp then
                    match C02.interpName img g with
                    | some s => Json.mkObj [("ok", bytesJ s), ("wf", Json.bool (decide (g.offset < 2 ^ 63))),
                                            ("desc", sameOr bytesJ (some s) idesc), ("err", optJ Json.str ierr)]
                    | none => Json.mkObj [("wf", Json.bool false), ("desc", optJ bytesJ idesc), ("err", optJ Json.str ierr)]
                  else Json.null)]
  let addrJs := addrq.map fun (s, n) =>
    Json.mkObj [("ok", Json.arr ((C02.addrOffsets segs s n).map jN).toArray)]
  let inseg := segs.map fun g =>
    Json.arr (secs.map fun s => Json.mkObj [("ok", Json.bool (C02.inSegmentStrict g s))]).toArray
  -- the Spec predicate against binutils' macro (a view of the Spec, Props/C02 `in_segment_eq_C_macro_iff`):
  -- [macro64, plainCase, fits64, macroFull64, clausesInert, tbssSpecial, nothing wraps]
  let macroJs := segs.map fun g =>
    Json.arr (secs.map fun s =>
      let nowrap := (decide (s.offset < g.offset) || decide (s.offset - g.offset + s.size < 2 ^ 64)) &&
        (decide (s.addr < g.vaddr) || decide (s.addr - g.vaddr + s.size < 2 ^ 64))
      Json.arr #[Json.bool (C02.macro64 g s), Json.bool (C02.plainCase g s), Json.bool (C02.fits64 g s),
                 Json.bool (C02.macroFull64 g s), Json.bool (C02.clausesInert g s), Json.bool (C02.tbssSpecial g s),
                 Json.bool nowrap]).toArray
  Json.mkObj [("sections", Json.arr secJs.toArray), ("strings", Json.arr strJs.toArray),
              ("segments", Json.arr segJs.toArray), ("addr", Json.arr addrJs.toArray),
              ("inseg", Json.arr inseg.toArray), ("macro", Json.arr macroJs.toArray)]

def chdrOfJson (j : Json) : Except String Chdr := do
  pure ⟨← jNat j "ch_type", ← jNat j "ch_size", ← jNat j "ch_addralign"⟩

def handle (req : Json) : Except String Json := do
  let k ← jStr req "k"
  let zl := oracle (← parseOracle req)
  let strq ← pairsOf req "strq"
  let addrq ← pairsOf req "addrq"
  match k with
  | "ast" =>
    let astJ ← req.getObjVal? "ast"
    let d0 ← C01.descOfJson astJ
    -- compressed sections: body := Spec-encoded Chdr ++ the stream the harness supplies
    let secJs ← jArr astJ "sections"
    let chdrs ← secJs.mapM fun s => match s.getObjVal? "chdr" with
      | .ok (Json.null) => pure none
      | .ok j => do pure (some (← chdrOfJson j))
      | .error _ => pure none
    let zbodies ← secJs.mapM fun s => match s.getObjVal? "zbody" with
      | .ok (Json.str h) => match Bytes.ofHex h with
          | some b => pure b
          | none => throw "bad zbody"
      | _ => pure []
    let secs' := (d0.sections.zip (chdrs.zip zbodies)).map fun (s, ch, zb) =>
      match ch with
      | some c => { s with body := some (C02.encChdr d0.cls d0.le c ++ zb) }
      | none => s
    let d := { d0 with sections := secs' }
    let tail := (jNat req "tail").toOption.getD 0
    let inflate ← parseInflate req
    match d.assemble tail with
    | none => return Json.mkObj [("wf", Json.bool false), ("why", "not encodable")]
    | some bytes =>
      let chOk := (chdrs.all fun c => match c with | some c => c.fits d.cls | none => true)
      -- the image really carries every body at its offset
      let layoutOk := d.sections.all fun s => match s.body with
        | some b => b.isEmpty || readN bytes (getNatD s.hdr "sh_offset") b.length == b
        | none => true
      -- `wfZ` is the hypothesis of the whole-file theorems (C01 with SHF_COMPRESSED sections admitted)
      -- with `assemble` and `observe` defined: exactly `Carries elfEnv d bytes` (Props/C02 `carries_assembled`)
      let wf := chOk && layoutOk && d.wfZ elfEnv && (d.observe elfEnv).toOption.isSome
      return Json.mkObj [("wf", Json.bool wf), ("bytes", jHexOf bytes),
                         ("expect", specObserve inflate d chdrs zbodies bytes strq addrq),
                         ("model", resJson id (modelObserve zl bytes strq addrq))]
  | "raw" =>
    let data ← jHex req "hex"
    return Json.mkObj [("model", resJson id (modelObserve zl data strq addrq))]
  | _ => throw s!"C02: unknown kind {k}"

end PyElf.Driver.C02
