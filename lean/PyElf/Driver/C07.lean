import PyElf.Driver.Json
import PyElf.Spec.Lists
import PyElf.Model.Lists
import PyElf.Model.Env
import PyElf.Model.ListsInfo
import PyElf.Model.ListsForest
import PyElf.Driver.C04
open Lean
namespace PyElf.Driver.C07
open PyElf PyElf.Spec PyElf.Spec.Lists PyElf.Model

def optJ {α} (f : α → Except String β) : Except String α → Except String (Option β)
  | .ok a => do return some (← f a)
  | .error _ => pure none

def fvOfJson (j : Json) : Except String FV := do
  match j with
  | .arr #[.str "a", a] => return .addr (← jNatOf a)
  | .arr #[.str "u", n, v] => return .uleb (← jNatOf n) (← jNatOf v)
  | .arr #[.str "c", n, .str h] =>
    match Bytes.ofHex h with
    | some b => return .cld (← jNatOf n) b
    | none => throw "bad cld hex"
  | _ => throw "bad FV"

def entOfJson (kinds : List Kind) (j : Json) : Except String Ent := do
  let code ← jNat j "code"
  let vals ← (← jArr j "vals").mapM fvOfJson
  let kind := match kinds.find? (·.code == code) with
    | some k => k
    | none => ⟨code, "?", []⟩
  return { kind := kind, vals := vals }

def v4LocOfJson (j : Json) : Except String V4Loc := do
  match j with
  | .arr #[.str "base", a] => return .base (← jNatOf a)
  | .arr #[.str "loc", b, e, .str h] =>
    match Bytes.ofHex h with
    | some x => return .loc (← jNatOf b) (← jNatOf e) x
    | none => throw "bad expr hex"
  | _ => throw "bad V4Loc"

def v4RngOfJson (j : Json) : Except String V4Rng := do
  match j with
  | .arr #[.str "base", a] => return .base (← jNatOf a)
  | .arr #[.str "range", b, e] => return .range (← jNatOf b) (← jNatOf e)
  | _ => throw "bad V4Rng"

def valsJ (vs : List Val) : Json := Json.arr (vs.map Val.toJson).toArray
def listsJ (ls : List (List Val)) : Json := Json.arr (ls.map valsJ).toArray
def optValsJ : Option (List Val) → Json
  | some vs => valsJ vs
  | none => Json.null

def structsFor (le : Bool) (fmt asz ver : Nat) : Except String DwarfStructs :=
  match dwarfStructsFor ⟨le, fmt, asz, ver⟩ with
  | some s => .ok s
  | none => .error s!"no dwarf bundle {le} {fmt} {asz} {ver}"

/-- the structs a `DWARFInfo` hands to its list objects: DWARF32, the container's address size, version 2 -/
def listsObj (le : Bool) (asz ver : Nat) (data : Bytes) : Except String Lists.Lists := do
  let S ← structsFor le 32 asz 2
  return { data := data, S := S, asz := asz, version := ver }

def rawAttrOfJson (j : Json) : Except String Lists.RawAttr := do
  match j with
  | .arr #[.str n, .str f, v] => return { name := n, form := f, raw := ← Val.ofJson v }
  | _ => throw "bad attr"

def cuOfJson (le : Bool) (j : Json) : Except String Lists.Cu := do
  let version ← jNat j "version"
  let asz ← jNat j "asz"
  let fmt ← jNat j "fmt"
  let S ← structsFor le fmt asz version
  let dies ← (← jArr j "dies").mapM fun d => match d with
    | .arr as => as.toList.mapM rawAttrOfJson
    | _ => throw "bad die"
  return { version := version, asz := asz, fmt := fmt, S := S, dies := dies }

def optHex (req : Json) (k : String) : Except String (Option Bytes) :=
  match req.getObjVal? k with
  | .ok (.str h) => match Bytes.ofHex h with
      | some b => pure (some b)
      | none => throw s!"{k}: bad hex"
  | _ => pure none

def secsOf (req : Json) : Except String Lists.Secs := do
  return { addr := ← optHex req "addr", loclists := ← optHex req "loclists", rnglists := ← optHex req "rnglists" }

def optCu (le : Bool) (req : Json) : Except String (Option Lists.Cu) :=
  match req.getObjVal? "cu" with
  | .ok (.obj o) => do return some (← cuOfJson le (.obj o))
  | _ => pure none

/-! ### one unit of an assembled DWARF 5 section -/

structure Item where
  gap : Bytes := []
  views : List (FV × FV) := []
  ents : Option (List Ent) := none

def itemOfJson (kinds : List Kind) (j : Json) : Except String Item := do
  match ← jStr j "t" with
  | "gap" => return { gap := ← jHex j "hex" }
  | _ =>
    let ents ← (← jArr j "entries").mapM (entOfJson kinds)
    let views ← match j.getObjVal? "views" with
      | .ok (.arr vs) => vs.toList.mapM fun v => match v with
          | .arr #[a, b] => do return (← fvOfJson a, ← fvOfJson b)
          | _ => throw "bad view pair"
      | _ => pure []
    return { views := views, ents := some ents }

def viewsSize (vs : List (FV × FV)) : Nat := (vs.map fun p => p.1.size 0 + p.2.size 0).sum

def Item.enc (le : Bool) (asz : Nat) (it : Item) : Bytes :=
  match it.ents with
  | none => it.gap
  | some es => encViews it.views le ++ encList le asz es

def viewsWf (vs : List (FV × FV)) : Bool :=
  vs.all fun p => p.1.wf 0 && p.2.wf 0 && p.1.kind == .uleb && p.2.kind == .uleb

/-- per item: (views offset, list offset, views obs, raw obs, translated obs, wf) -/
def layoutItems (loc : Bool) (addrs : List Nat) (le : Bool) (asz : Nat) : Nat → List Item → List Json
  | _, [] => []
  | off, it :: rest =>
    let sz := (it.enc le asz).length
    let j := match it.ents with
      | none => Json.mkObj [("t", "gap"), ("off", jN off)]
      | some es =>
        let lo := off + viewsSize it.views
        let kinds := if loc then lleKinds else rleKinds
        let tr := translateList (fun o e => if loc then translateLoc (addrOf addrs) asz o e
                                            else translateRng (addrOf addrs) asz o e) asz lo es
        Json.mkObj [("t", "list"), ("voff", jN off), ("off", jN lo), ("views", valsJ (obsViews off it.views)),
                    ("raw", valsJ (rawObsList asz lo es)), ("tr", optValsJ tr),
                    ("wf", Json.bool (es.all (Ent.wf kinds asz) && viewsWf it.views && tr.isSome))]
    j :: layoutItems loc addrs le asz (off + sz) rest

def handle (req : Json) : Except String Json := do
  let k ← jStr req "k"
  match k with
  | "v4" =>
    -- one DWARF 2–4 list between arbitrary bytes
    let what ← jStr req "what"
    let le ← jBool req "le"; let asz ← jNat req "asz"
    let pre ← jHex req "pre"; let rest ← jHex req "rest"
    let ents ← jArr req "entries"
    let (enc, obs, wf) ← (if what == "loc" then do
        let es ← ents.mapM v4LocOfJson
        pure (encV4Loc le asz es, obsV4Loc asz pre.length es, es.all (V4Loc.wf asz))
      else do
        let es ← ents.mapM v4RngOfJson
        pure (encV4Rng le asz es, obsV4Rng asz pre.length es, es.all (V4Rng.wf asz)) : Except String _)
    let data := pre ++ enc ++ rest
    let l ← listsObj le asz 4 data
    let env := dwarfEnv l.S
    let secs : Lists.Secs := ⟨none, none, none⟩
    let m := if what == "loc" then Lists.getLocationListAtOffset env secs l pre.length none
             else Lists.getRangeListAtOffset env secs l pre.length none
    return Json.mkObj [("bytes", jHexOf data), ("pos", jN pre.length), ("wf", Json.bool wf),
                       ("expect", valsJ obs), ("model", resJson valsJ m)]
  | "asm" =>
    -- a whole section: DWARF 5 unit blocks (or, for `ver` 4, one header-less run of items)
    let what ← jStr req "what"
    let loc := what == "loc"
    let ver ← jNat req "ver"
    let le ← jBool req "le"; let asz ← jNat req "asz"
    let addrs ← (← jArr req "addrs").mapM jNatOf
    let kinds := if loc then lleKinds else rleKinds
    let units ← jArr req "units"
    let mut data : Bytes := []
    let mut ujs : List Json := []
    let mut wf := true
    for u in units do
      if ver ≥ 5 then
        let items ← (← jArr u "items").mapM (itemOfJson kinds)
        let fmt64 ← jBool u "fmt64"
        let segsz := (jNat u "segsz").toOption.getD 0
        let uasz := (jNat u "asz").toOption.getD asz
        let nOff ← jNat u "noff"         -- offset table: the first `noff` lists, in order
        let osz := if fmt64 then 8 else 4
        let hdrLen := (if fmt64 then 12 else 4) + 8 + osz * nOff
        let off0 := data.length
        let body : Bytes := items.flatMap (Item.enc le asz)
        let lay := layoutItems loc addrs le asz (off0 + hdrLen) items
        -- offsets of the lists (not their views), relative to the table
        let listOffs := lay.filterMap fun j => match j.getObjVal? "t", jNat j "off" with
          | .ok (.str "list"), .ok o => some (o - (off0 + hdrLen - osz * nOff))
          | _, _ => none
        let offsets := match u.getObjVal? "offsets" with
          | .ok (.arr os) => (os.toList.filterMap fun o => (jNatOf o).toOption)
          | _ => listOffs.take nOff
        let hdr : UnitHdr := { fmt64 := fmt64, asz := uasz, segsz := segsz, offsets := offsets }
        wf := wf && hdr.wf body && offsets.length == nOff
        ujs := ujs ++ [Json.mkObj [("hdr", (hdr.obs off0 body).toJson), ("items", Json.arr lay.toArray),
                                   ("table", jN (off0 + hdrLen - osz * nOff)),
                                   ("lists", listsJ (rawObsLists asz (off0 + hdrLen)
                                      (items.filterMap (·.ents))))]]
        data := data ++ encUnit le hdr body
      else
        -- DWARF 2–4: a header-less run of gaps, view pairs and lists
        let mut lay : List Json := []
        for it in ← jArr u "items" do
          let off := data.length
          if (← jStr it "t") == "gap" then
            lay := lay ++ [Json.mkObj [("t", "gap"), ("off", jN off)]]
            data := data ++ (← jHex it "hex")
          else
            let views ← match it.getObjVal? "views" with
              | .ok (.arr vs) => vs.toList.mapM fun v => match v with
                  | .arr #[a, b] => do return (← fvOfJson a, ← fvOfJson b)
                  | _ => throw "bad view pair"
              | _ => pure []
            let lo := off + viewsSize views
            let ents ← jArr it "entries"
            let (enc, obs, ok) ← (if loc then do
                let es ← ents.mapM v4LocOfJson
                pure (encV4Loc le asz es, obsV4Loc asz lo es, es.all (V4Loc.wf asz))
              else do
                let es ← ents.mapM v4RngOfJson
                pure (encV4Rng le asz es, obsV4Rng asz lo es, es.all (V4Rng.wf asz)) : Except String _)
            lay := lay ++ [Json.mkObj [("t", "list"), ("voff", jN off), ("off", jN lo), ("views", valsJ (obsViews off views)),
                                       ("tr", valsJ obs), ("wf", Json.bool (ok && viewsWf views))]]
            data := data ++ encViews views le ++ enc
        ujs := ujs ++ [Json.mkObj [("items", Json.arr lay.toArray)]]
    return Json.mkObj [("bytes", jHexOf data), ("units", Json.arr ujs.toArray), ("wf", Json.bool wf),
                       ("addrbytes", jHexOf (encAddrs le asz addrs))]
  | "v4obs" =>
    -- expectation for a DWARF 2–4 list placed by the harness at `off`
    let what ← jStr req "what"
    let asz ← jNat req "asz"; let le ← jBool req "le"; let off ← jNat req "off"
    let ents ← jArr req "entries"
    if what == "loc" then
      let es ← ents.mapM v4LocOfJson
      return Json.mkObj [("enc", jHexOf (encV4Loc le asz es)), ("obs", valsJ (obsV4Loc asz off es)),
                         ("wf", Json.bool (es.all (V4Loc.wf asz)))]
    else
      let es ← ents.mapM v4RngOfJson
      return Json.mkObj [("enc", jHexOf (encV4Rng le asz es)), ("obs", valsJ (obsV4Rng asz off es)),
                         ("wf", Json.bool (es.all (V4Rng.wf asz)))]
  | "views" =>
    let le ← jBool req "le"; let off ← jNat req "off"
    let vs ← (← jArr req "views").mapM fun v => match v with
      | .arr #[a, b] => do return (← fvOfJson a, ← fvOfJson b)
      | _ => throw "bad view pair"
    return Json.mkObj [("enc", jHexOf (encViews vs le)), ("obs", valsJ (obsViews off vs)), ("wf", Json.bool (viewsWf vs))]
  | "model" =>
    -- run one API call of the model on given sections
    let what ← jStr req "what"
    let loc := what == "loc"
    let ver ← jNat req "ver"
    let le ← jBool req "le"; let asz ← jNat req "asz"
    let data ← jHex req "hex"
    let secs ← secsOf req
    let l ← listsObj le asz ver data
    let env := dwarfEnv l.S
    let cus ← match req.getObjVal? "cus" with
      | .ok (.arr cs) => cs.toList.mapM (cuOfJson le)
      | _ => pure []
    let cuIdx := (jNat req "cuidx").toOption
    let cu : Option Lists.Cu := match cuIdx with
      | some i => cus[i]?
      | none => none
    let call ← jStr req "call"
    match call with
    | "at" =>
      let off ← jInt req "off"
      let m := if loc then Lists.getLocationListAtOffset env secs l off cu
               else Lists.getRangeListAtOffset env secs l off cu
      return Json.mkObj [("model", resJson valsJ m)]
    | "at_ex" =>
      let off ← jInt req "off"
      return Json.mkObj [("model", resJson Val.toJson (Lists.getRangeListAtOffsetEx env l off))]
    | "at_ex_tr" =>
      -- get_range_list_at_offset_ex followed by translate_v5_entry on every entry
      let off ← jInt req "off"
      let m : R (List Val) := do
        let v ← Lists.getRangeListAtOffsetEx env l off
        Lists.mapEntries (Lists.translateV5Entry env secs cu) v
      return Json.mkObj [("model", resJson valsJ m)]
    | "iter" =>
      let m := if loc then Lists.iterLocationLists env secs l cus else Lists.iterRangeLists env secs l cus
      return Json.mkObj [("model", resJson listsJ m)]
    | "iter_cus" =>
      return Json.mkObj [("model", resJson valsJ (Lists.iterCUs env l loc cus))]
    | "iter_cus_ex" =>
      -- iter_CUs, then iter_CU_range_lists_ex on every unit
      let m : R (List (List Val)) := do
        let hs ← Lists.iterCUs env l loc cus
        hs.mapM fun h => Lists.iterCURangeListsEx env l h
      return Json.mkObj [("model", resJson listsJ m)]
    | "attr" =>
      -- the value of attribute (die, name) of unit `cuidx`, then parse_from_attribute
      let some c := cu | throw "attr: no cu"
      let di ← jNat req "die"
      let name ← jStr req "name"
      let some die := c.dies[di]? | throw "attr: no such die"
      let m : R Val := do
        let d ← Lists.dieAttrs env secs c die
        match Lists.findAttr d name with
        | none => .error .keyError
        | some a =>
          if loc then
            let r ← Lists.parseFromAttribute env secs l a c.version (some c)
            return .record [("value", a.value), ("parsed", r)]
          else
            let off ← a.value.asInt
            let r ← Lists.getRangeListAtOffset env secs l off (some c)
            return .record [("value", a.value), ("parsed", .list r)]
      return Json.mkObj [("model", resJson Val.toJson m)]
    | _ => throw s!"C07 model: unknown call {call}"
  | "pair" =>
    -- both generations present: `DWARFInfo.location_lists()` / `range_lists()` hand out a pair object
    let what ← jStr req "what"
    let loc := what == "loc"
    let le ← jBool req "le"; let asz ← jNat req "asz"
    let d4 ← jHex req "hex4"; let d5 ← jHex req "hex5"
    let secs ← secsOf req
    let S ← structsFor le 32 asz 2
    let env := dwarfEnv S
    let cus ← match req.getObjVal? "cus" with
      | .ok (.arr cs) => cs.toList.mapM (cuOfJson le)
      | _ => pure []
    let cu : Option Lists.Cu := match (jNat req "cuidx").toOption with
      | some i => cus[i]?
      | none => none
    let call ← jStr req "call"
    match Lists.listsFactory S asz (some d4) (some d5) with
    | .pair p =>
      match call with
      | "at" =>
        let off ← jInt req "off"
        let m := if loc then Lists.pairGetLocationListAtOffset env secs p off cu
                 else Lists.pairGetRangeListAtOffset env secs p off cu
        return Json.mkObj [("model", resJson valsJ m)]
      | "at_ex" =>
        let off ← jInt req "off"
        return Json.mkObj [("model", resJson Val.toJson (Lists.pairGetRangeListAtOffsetEx env p off))]
      | "at_ex_tr" =>
        let off ← jInt req "off"
        let m : R (List Val) := do
          let v ← Lists.pairGetRangeListAtOffsetEx env p off
          Lists.mapEntries (Lists.pairTranslateV5Entry env secs cu) v
        return Json.mkObj [("model", resJson valsJ m)]
      | "iter" =>
        return Json.mkObj [("model", resJson listsJ (if loc then Lists.pairIterLocationLists else Lists.pairIterRangeLists))]
      | "iter_cus" =>
        return Json.mkObj [("model", resJson valsJ (if loc then Lists.pairLocIterCUs else Lists.pairRngIterCUs env p cus))]
      | "iter_cus_ex" =>
        let m : R (List (List Val)) := do
          let hs ← Lists.pairRngIterCUs env p cus
          hs.mapM fun h => Lists.pairIterCURangeListsEx env p h
        return Json.mkObj [("model", resJson listsJ m)]
      | _ => throw s!"C07 pair: unknown call {call}"
    | _ => throw "C07 pair: the factory did not return a pair"
  | "info" =>
    -- END TO END: a forest description (C04's request format) → `.debug_info` / `.debug_abbrev` from the Spec encoders;
    -- the composed model (Model/ListsInfo) runs the list code on the units and entries IT decodes from those bytes
    let what ← jStr req "what"
    let loc := what == "loc"
    let ver ← jNat req "ver"
    let le ← jBool req "le"; let dasz ← jNat req "asz"
    let data ← jHex req "hex"
    let tables ← (← jArr req "abbrevs").mapM fun t => do
      let ds ← (← jArr t "decls").mapM C04.parseDecl
      return ({ gap := (C04.jHexOpt t "gap").getD [], decls := ds, endLen := C04.jNatD t "end_len" 1 } : Spec.C04.TableDesc)
    let fsecs := C04.parseSecs ((req.getObjVal? "secs").toOption.getD (Json.mkObj []))
    let units ← (← jArr req "units").mapM (C04.parseUnitReq (tables.map fun t => (t.decls, t.endLen)))
    let F := C04.forestOf le tables units [] fsecs
    let info := Spec.C04.infoSec F
    let abbr := Spec.C04.encTables F.tables
    let w := Model.C04.genDInfo le dasz (some info) (some abbr) none fsecs
    let S0 ← structsFor le 32 dasz 2
    -- the hypotheses of `debug_info_cus_exact` / `enumeration_exact_*_info` on the description
    let wf := Spec.C04.wfForestB C04.names F && Lists.forestResolves C04.names F
    let cusJ := Json.arr ((Lists.forestCus C04.names F).map fun cu =>
      Json.mkObj [("version", jN cu.version), ("asz", jN cu.asz), ("fmt", jN cu.fmt),
                  ("dies", Json.arr (cu.dies.map fun d => Json.arr (d.map fun a =>
                    Json.arr #[Json.str a.name, Json.str a.form, a.raw.toJson]).toArray).toArray)]).toArray
    let calls ← jArr req "calls"
    let outs ← calls.mapM fun c => do
      let call ← jStr c "call"
      match call with
      | "cus" =>
        -- what the list code sees of `.debug_info`: (version, asz, fmt, [(name, form, raw)]) as the MODEL decodes it
        let m := Lists.infoCus Model.C04.fetch w S0
        let j : R Json := m.map fun cus => Json.arr (cus.map fun cu =>
          Json.mkObj [("version", jN cu.version), ("asz", jN cu.asz), ("fmt", jN cu.fmt),
                      ("dies", Json.arr (cu.dies.map fun d => Json.arr (d.map fun a =>
                        Json.arr #[Json.str a.name, Json.str a.form, a.raw.toJson]).toArray).toArray)]).toArray
        pure (resJson id j)
      | "iter" =>
        let m := if loc then Lists.infoIterLocationLists Model.C04.fetch w S0 data ver
                 else Lists.infoIterRangeLists Model.C04.fetch w S0 data ver
        pure (resJson listsJ m)
      | "attr" =>
        let ci ← jNat c "cuidx"; let di ← jNat c "die"; let name ← jStr c "name"
        let m : R Val := do
          let (_, a) ← Lists.infoAttr Model.C04.fetch w S0 ci di name
          if loc then
            let r ← Lists.infoParseFromAttribute Model.C04.fetch w S0 data ver ci di name
            return .record [("value", a.value), ("parsed", r)]
          else
            let r ← Lists.infoRangeListOfAttribute Model.C04.fetch w S0 data ver ci di name
            return .record [("value", a.value), ("parsed", .list r)]
        pure (resJson Val.toJson m)
      | _ => throw s!"C07 info: unknown call {call}"
    return Json.mkObj [("info", jHexOf info), ("abbrev", jHexOf abbr), ("wf", Json.bool wf), ("cus", cusJ),
                       ("models", Json.arr outs.toArray)]
  | "cls" =>
    let name ← jStr req "name"; let form ← jStr req "form"; let ver ← jNat req "ver"
    let cj : LocClass → Json
      | .expr => "expr" | .list => "list" | .neither => "neither"
    let m : LocClass :=
      if Lists.attributeHasLocation name form ver then
        if Lists.attributeHasLocExpr name form ver then .expr
        else if Lists.attributeHasLocList name form ver then .list else .neither
      else .neither
    return Json.mkObj [("expect", cj (classify name form ver)), ("model", cj m),
                       ("model_has_location", Json.bool (Lists.attributeHasLocation name form ver)),
                       ("model_has_loc_list", Json.bool (Lists.attributeHasLocList name form ver)),
                       ("model_has_loc_expr", Json.bool (Lists.attributeHasLocExpr name form ver))]
  | _ => throw s!"C07: unknown kind {k}"

end PyElf.Driver.C07
