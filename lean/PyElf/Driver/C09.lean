import PyElf.Driver.Json
import PyElf.Driver.C01
import PyElf.Spec.Dynamic
import PyElf.Spec.DynamicExt
import PyElf.Model.Dynamic
import PyElf.Model.Env
open Lean
namespace PyElf.Driver.C09
open PyElf PyElf.Spec PyElf.Spec.Dynamic PyElf.Model PyElf.Model.Dynamic

open PyElf.Driver.C01 (fieldsOf)

def optField (j : Json) (k : String) : Option Json :=
  match j.getObjVal? k with
  | .ok Json.null => none
  | .ok v => some v
  | .error _ => none

def natList (j : Json) (k : String) : Except String (List Nat) := do (← jArr j k).mapM jNatOf

def fieldsList (j : Json) (k : String) : Except String (List Fields) := do (← jArr j k).mapM fieldsOf

def descOfJson (j : Json) : Except String DynDesc := do
  let tags ← (← jArr j "tags").mapM fun t => match t with
    | .arr #[a, b] => do pure ((← jIntOf a), (← jNatOf b))
    | _ => throw "bad tag"
  let sysv ← match optField j "sysv" with
    | some h => do pure (some (({ buckets := ← natList h "buckets", chains := ← natList h "chains" } : SysvHash), ← jNat h "off"))
    | none => pure none
  let gnu ← match optField j "gnu" with
    | some h => do
      let bs ← (← jArr h "buckets").mapM fun b => match b with
        | .arr xs => xs.toList.mapM jNatOf
        | _ => throw "bad bucket"
      pure (some (({ symoffset := ← jNat h "symoffset", bloom := ← natList h "bloom", shift := ← jNat h "shift", buckets := bs } : GnuHash),
                  ← jNat h "off"))
    | none => pure none
  let relOf (k : String) : Except String (Option (List Fields × Nat)) := match optField j k with
    | some r => do pure (some (← fieldsList r "entries", ← jNat r "off"))
    | none => pure none
  let jmprel ← match optField j "jmprel" with
    | some r => do pure (some (← jBool r "rela", ← fieldsList r "entries", ← jNat r "off"))
    | none => pure none
  let relr ← match optField j "relr" with
    | some r => do pure (some (← natList r "words", ← jNat r "off"))
    | none => pure none
  let secDynOff := match optField j "secDynOff" with
    | some v => (jNatOf v).toOption
    | none => none
  pure { cls := ← jNat j "cls", le := ← jBool j "le", mclass := ← jStr j "mclass", solaris := ← jBool j "solaris",
         ehdr := ← fieldsOf (← j.getObjVal? "ehdr"), tags := tags, dynOff := ← jNat j "dynOff", secDynOff := secDynOff,
         strtab := ← jHex j "strtab", strOff := ← jNat j "strOff", syms := ← fieldsList j "syms", symOff := ← jNat j "symOff",
         sysv := sysv, gnu := gnu, rel := ← relOf "rel", rela := ← relOf "rela", jmprel := jmprel, relr := relr,
         segments := ← fieldsList j "segments", phoff := ← jNat j "phoff", shoff := ← jNat j "shoff",
         phentsize := ← jNat j "phentsize", shentsize := ← jNat j "shentsize",
         decoys := (jNat j "decoys").toOption.getD 0, shstrOff := (jNat j "shstrOff").toOption.getD 0 }

def jS (b : Bytes) : Json := Json.mkObj [("s", Json.str b.toHex)]

def optNat : Option Nat → Json
  | some n => jN n
  | none => Json.null

def tagJson (e : Val) (attr : Option (String × Bytes)) : Json :=
  Json.arr #[e.toJson, match attr with | some (a, s) => Json.arr #[Json.str a, jS s] | none => Json.null]

def symJson (s : Bytes × Val) : Json := Json.arr #[jS s.1, s.2.toJson]

def byNameJson : Option (List (Bytes × Val)) → Json
  | some l => Json.arr (l.map symJson).toArray
  | none => Json.null

def relJson (name : String) (isRela : Bool) (entries : List Val) : Json :=
  Json.arr #[Json.str name, Json.mkObj [("rela", Json.bool isRela), ("entries", Json.arr (entries.map Val.toJson).toArray)]]

def relrJson (name : String) (off : Option Nat) (size es : Nat) : Json :=
  Json.arr #[Json.str name, Json.mkObj [("relr", Json.arr #[optNat off, jN size, jN es])]]

def pairJson (p : Option Nat × Option Nat) : Json := Json.arr #[optNat p.1, optNat p.2]

/-! model side -/

def relaCode : Int := (genEnumValue "ENUM_D_TAG" "DT_RELA").getD (-1)

/-- `realIfc` with the segment objects and the `.dynstr` lookup evaluated once: they are pure
    functions of the file, so this changes cost only -/
def cachedIfc (f : ElfFile) : FileIfc :=
  let base := realIfc elfEnv f
  let n := base.numSegments
  let segs : Array (R (String × Val)) := match n with
    | .ok k => (Array.range (min k 64)).map base.getSegment
    | .error _ => #[]
  let dynstrName := ".dynstr".toUTF8.toList
  let dynstr := base.sectionByName dynstrName
  { numSegments := n,
    getSegment := fun i => if h : i < segs.size then segs[i] else base.getSegment i,
    sectionByName := fun nm => if nm == dynstrName then dynstr else base.sectionByName nm }

def modelTagsPart (f : ElfFile) (ifc : FileIfc) (d : Dyn) : List (String × Json) :=
  [("tags", resJson (fun ts => Json.arr (ts.map fun t => tagJson t.entry t.attr).toArray) (iterTags elfEnv f.S f.data ifc d none)),
   ("num_tags", resJson jN (numTags elfEnv f.S f.data ifc d))]

def modelSecView (f : ElfFile) : R Json := do
  match ← dynamicSection elfEnv f with
  | none => return Json.null
  | some d => return Json.mkObj (modelTagsPart f (cachedIfc f) d)

def modelSegView (f : ElfFile) (names : List Bytes) (tagq : List String) : R Json := do
  let iterSegs := iterSegments elfEnv f.S f.data f.header f.shstr
  match ← dynamicSegment elfEnv f with
  | none => return Json.null
  | some d =>
    let ifc := cachedIfc f
    let S := f.S
    let data := f.data
    let relocs : R Json := do
      let tabs ← getRelocationTables elfEnv S data ifc d relaCode
      let js ← tabs.mapM fun (nm, t) => match t with
        | .rel off size isRela es => do
            let entries ← relocations elfEnv S data off size isRela es
            pure (relJson nm isRela entries)
        | .relr off size es => pure (relrJson nm off size es)
      pure (Json.arr js.toArray)
    return Json.mkObj (modelTagsPart f ifc d ++ [
      ("num_symbols", resJson jN (numSymbols elfEnv S data ifc d iterSegs f.le)),
      ("symbols", resJson (fun l => Json.arr (l.map symJson).toArray) (iterSymbols elfEnv S data ifc d iterSegs f.le)),
      ("by_name", Json.arr (names.map fun q => resJson byNameJson (getSymbolByName elfEnv S data ifc d iterSegs f.le q)).toArray),
      ("relocs", resJson id relocs),
      ("table_offsets", Json.arr (tagq.map fun t => resJson pairJson (getTableOffset elfEnv S data ifc d t)).toArray)])

def modelObserve (data : Bytes) (names : List Bytes) (tagq : List String) : Json :=
  match openElf elfEnv elfStructsFor machineClassOf data with
  | .error e => Json.mkObj [("err", Json.str e.name)]
  | .ok f => Json.mkObj [("ok", Json.mkObj [("sec", resJson id (modelSecView f)), ("seg", resJson id (modelSegView f names tagq))])]

/-! spec side -/

def specTagsPart (d : DynDesc) : List (String × Json) :=
  [("tags", resJson (fun ts => Json.arr (ts.map fun t => tagJson t.1 t.2).toArray) (obsTags elfEnv d)),
   ("num_tags", Json.mkObj [("ok", jN d.live.length)])]

def codeOfName (n : String) : Option Int := (tagNames.find? (·.2 == n)).map (·.1)

def specObserve (d : DynDesc) (full : Bool) (names : List Bytes) (tagq : List String) : Json :=
  let sec := if full then Json.mkObj (specTagsPart d) else Json.null
  let relocs : R Json := do
    let rs ← obsRelocs elfEnv d
    pure (Json.arr (rs.map fun (nm, r) => match r with
      | .rel isRela es => relJson nm isRela es
      | .relr o s e => relrJson nm (some o) s e).toArray)
  let seg := Json.mkObj (specTagsPart d ++ [
    ("num_symbols", Json.mkObj [("ok", jN d.syms.length)]),
    ("symbols", resJson (fun l => Json.arr (l.map symJson).toArray) (obsSyms elfEnv d)),
    ("by_name", Json.arr (names.map fun q => resJson byNameJson (obsByName elfEnv d q)).toArray),
    ("relocs", resJson id relocs),
    ("table_offsets", Json.arr (tagq.map fun t => match codeOfName t with
        | some c => Json.mkObj [("ok", pairJson (obsTableOffset elfEnv d c))]
        | none => Json.null).toArray)])
  Json.mkObj [("ok", Json.mkObj [("sec", Json.mkObj [("ok", sec)]), ("seg", Json.mkObj [("ok", seg)])])]

/-! extended domains (fifth wave): what the theorems of Props/C09.lean say must be observed through the
    `DynamicSegment` when the description is outside `DynDesc.wf` — string table by the `.dynstr` section
    or not at all, no reachable hash table (the count fallback), DT_SYMTAB unmapped, a table that runs
    off the end of the image.  Only the parts a theorem covers are listed; the harness compares exactly
    those. -/

def routeName : StrRoute → String
  | .link => "link" | .pointer => "pointer" | .byName => "byName" | .none => "none"

def errJson (e : Err) : Json := Json.mkObj [("err", Json.str e.name)]

def specExt (d : DynDesc) (full : Bool) (bytes : Bytes) (names : List Bytes) : Json :=
  let base := d.regionsOk full && d.wfBase elfEnv && (d.container full).wf elfEnv && decide (bytes.length < 2 ^ 63)
  let term := hasTerminator d.tags
  let route := d.strRoute elfEnv full
  let tagsOk := d.wfTags elfEnv full
  -- tags / num_tags
  let (tagPart, tagDom) : List (String × Json) × List String :=
    if !base then ([], [])
    else if tagsOk then (specTagsPart d, ["tags:route=" ++ routeName route])         -- seg_tags_exact_routes
    else if term && route == .none then                                               -- seg_tags_no_strtab
      ([("tags", errJson .elfError), ("num_tags", errJson .elfError)], ["tags:no-string-table"])
    else if !term && stringsOk d && d.strOk elfEnv full && route != .byName &&
        decide (bytes.length < d.dynOff + d.tags.length * (2 * d.w) + 2 * d.w) then  -- seg_tags_truncated
      ([("tags", errJson .elfParseError), ("num_tags", errJson .elfParseError)], ["tags:truncated:route=" ++ routeName route])
    else ([], [])
  -- symbols
  let symsExact : List (String × Json) :=
    [("num_symbols", Json.mkObj [("ok", jN d.syms.length)]),
     ("symbols", resJson (fun l => Json.arr (l.map symJson).toArray) (obsSyms elfEnv d)),
     ("by_name", Json.arr (names.map fun q => resJson byNameJson (obsByName elfEnv d q)).toArray)]
  let how := match firstVal d.live DT_SYMTAB with
    | some a => if (minAbove (d.live.map (·.2)) a).isSome then "end=nearest-entry" else "end=segment-end"
    | none => "-"
  let (symPart, symDom) : List (String × Json) × List String :=
    if !base then ([], [])
    else if tagsOk && d.wfSyms elfEnv && d.wfHash elfEnv && hashOk d then (symsExact, ["syms:hash"])   -- seg_by_name_exact
    else if tagsOk && d.wfSyms elfEnv && d.noHash elfEnv then
      if !symentOk d.symsz d.live then                                                -- seg_num_symbols_fallback
        ([("num_symbols", errJson .elfError)], ["syms:fallback:syment-mismatch"])
      else if d.fallbackExact elfEnv then (symsExact, ["syms:fallback:exact:" ++ how])  -- seg_symbols_exact_fallback
      else match d.fallbackCount elfEnv with
        | some n => ([("num_symbols", Json.mkObj [("ok", jN n)])], ["syms:fallback:inexact:" ++ how])
        | none => ([("num_symbols", errJson .typeError)], ["syms:fallback:no-end"])
    else if term && d.noHash elfEnv && ((firstVal d.live DT_SYMTAB).bind (mapAddr (d.phdrs elfEnv))).isNone then
      ([("num_symbols", errJson .elfError), ("symbols", errJson .elfError),           -- seg_symbols_unmapped
        ("by_name", Json.arr (names.map fun _ => errJson .elfError).toArray)], ["syms:symtab-unmapped"])
    else ([], [])
  -- the `DynamicSection` view of the full layout                                   -- sec_tags_exact_base
  let secPart : List (String × Json) := if full && base && term && stringsOk d then specTagsPart d else []
  Json.mkObj [("expect_seg", Json.mkObj (tagPart ++ symPart)), ("expect_sec", Json.mkObj secPart),
              ("dom", Json.arr ((tagDom ++ symDom).map Json.str).toArray)]

def hexList (req : Json) (k : String) : Except String (List Bytes) := do
  (← jArr req k).mapM fun q => match q with
    | Json.str h => match Bytes.ofHex h with
        | some b => pure b
        | none => throw "bad hex"
    | _ => throw "bad hex entry"

def strList (req : Json) (k : String) : Except String (List String) := do
  (← jArr req k).mapM fun q => match q with
    | Json.str h => pure h
    | _ => throw "bad string entry"

def handle (req : Json) : Except String Json := do
  let k ← jStr req "k"
  match k with
  | "ast" =>
    let d ← descOfJson (← req.getObjVal? "ast")
    let names ← hexList req "names"
    let tagq ← strList req "tagq"
    let one (full : Bool) : Json :=
      match d.assemble full with
      | none => Json.mkObj [("wf", Json.bool false), ("why", "not encodable")]
      | some bytes =>
        Json.mkObj [("wf", Json.bool (d.wf elfEnv full)), ("wf_count", Json.bool (hashOk d)),
                    -- the container is a well-formed ELF description in the sense of C01: together with `wf` (both
                    -- layouts) this is `DynDesc.WF`, the hypothesis of `segment_view_eq_section_view`
                    ("wf_c01", Json.bool ((d.container full).wf elfEnv)), ("bytes", jHexOf bytes),
                    ("expect", specObserve d full names tagq), ("model", modelObserve bytes names tagq),
                    ("ext", specExt d full bytes names)]
    return Json.mkObj [("full", one true), ("stripped", one false)]
  | "len" =>
    let d ← descOfJson (← req.getObjVal? "ast")
    let one (full : Bool) : Json := match d.assemble full with
      | none => Json.null
      | some bytes => jN bytes.length
    return Json.mkObj [("full", one true), ("stripped", one false)]
  | "raw" =>
    let data ← jHex req "hex"
    let names ← hexList req "names"
    let tagq ← strList req "tagq"
    return Json.mkObj [("model", modelObserve data names tagq)]
  | _ => throw s!"C09: unknown kind {k}"

end PyElf.Driver.C09
