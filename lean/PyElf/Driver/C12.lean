import PyElf.Driver.Json
import PyElf.Spec.DwarfExpr
import PyElf.Model.DwarfExpr
import PyElf.Gen.Extra_C12
open Lean
namespace PyElf.Driver.C12
open PyElf PyElf.Spec

def cfgOf (req : Json) : Except String DwarfCfg := do
  match ← jArr req "cfg" with
  | [Json.bool le, fmt, asz, ver] => return ⟨le, ← jNatOf fmt, ← jNatOf asz, ← jNatOf ver⟩
  | _ => throw "bad cfg"

def argOf (j : Json) : Except String Arg := do
  match ← jStr j "t" with
  | "u" => return .u (← jNat j "v")
  | "s" => return .s (← jInt j "v")
  | "uleb" => return .uleb (← jNat j "n") (← jNat j "v")
  | "sleb" => return .sleb (← jNat j "n") (← jInt j "v")
  | "block" => return .block (← jNat j "n") (← jHex j "b")
  | "block1" => return .block1 (← jHex j "b")
  | "wasm" => return .wasm (← jNat j "kind") (← jNat j "n") (← jNat j "v")
  | t => throw s!"bad arg type {t}"

partial def opOf (j : Json) : Except String Op := do
  let o ← jNat j "o"
  match j.getObjVal? "body" with
  | .ok (.arr body) => return .entry o (← jNat j "n") (← body.toList.mapM opOf)
  | _ => return .plain o (← (← jArr j "a").mapM argOf)

def kindStr : ArgKind → String
  | .u n _ => s!"u{n}" | .s n _ => s!"s{n}" | .uleb => "uleb" | .sleb => "sleb" | .block => "block"
  | .block1 => "block1" | .expr => "expr" | .wasm _ => "wasm" | .refused w => s!"refused:{w}"

def valsJson (r : R (List Val)) : Json := resJson (fun vs => Json.arr (vs.map Val.toJson).toArray) r

def handle (req : Json) : Except String Json := do
  let k ← jStr req "k"
  let cfg ← cfgOf req
  let some (_, D) := Gen.opDispatch.find? (·.1 == cfg) | throw "no dispatch table for cfg"
  let N := Gen.opOpcode2Name
  match k with
  | "ast" =>
    let ops ← (← jArr req "ops").mapM opOf
    let bytes := encodeOps cfg ops
    return Json.mkObj [("bytes", jHexOf bytes), ("wf", Json.bool (WFops cfg ops)),
                       ("expect", Json.arr ((annotate cfg 0 ops).map Val.toJson).toArray),
                       ("model", valsJson (Model.parseExpr D N bytes))]
  | "raw" =>
    let data ← jHex req "hex"
    -- `spec := true`: the model dispatched by the standard's signature and name tables
    let useSpec := (jBool req "spec").toOption.getD false
    let r := if useSpec then Model.parseExpr (opTable cfg) opNames data else Model.parseExpr D N data
    return Json.mkObj [("model", valsJson r)]
  | "sig" =>
    -- the standard's operation table for this configuration (drives the harness generators)
    return Json.mkObj [("sig", Json.arr (opRows.map fun (op, name, ks) =>
      Json.arr #[jN op, Json.str name, Json.arr ((ks.map (kindStr ∘ resolve cfg)).map Json.str).toArray]).toArray),
      ("sources_ok", Json.bool Gen.exprSourcesOk)]
  | _ => throw s!"C12: unknown kind {k}"

end PyElf.Driver.C12
