import PyElf.Driver.Json
import PyElf.Spec.DwarfExpr
import PyElf.Model.DwarfExpr
import PyElf.Gen.Extra_C12
import PyElf.Spec.DwarfExprInfo
import PyElf.Model.DwarfExprInfo
import PyElf.Driver.C04
open Lean
namespace PyElf.Driver.C12
open PyElf PyElf.Spec

def cfgOf (req : Json) : Except String DwarfCfg := do
  match ← jArr req "cfg" with
  | [Json.bool le, fmt, asz, ver] => return ⟨le, ← jNatOf fmt, ← jNatOf asz, ← jNatOf ver⟩
  | _ => throw "bad cfg"

def argOf (j : Json) : Except String Arg := do
  match ← jStr j "t" with
  | "u" => return .u (← jNat j "v")
  | "s" => return .s (← jInt j "v")
  | "uleb" => return .uleb (← jNat j "n") (← jNat j "v")
  | "sleb" => return .sleb (← jNat j "n") (← jInt j "v")
  | "block" => return .block (← jNat j "n") (← jHex j "b")
  | "block1" => return .block1 (← jHex j "b")
  | "wasm" => return .wasm (← jNat j "kind") (← jNat j "n") (← jNat j "v")
  | t => throw s!"bad arg type {t}"

partial def opOf (j : Json) : Except String Op := do
  let o ← jNat j "o"
  match j.getObjVal? "body" with
  | .ok (.arr body) => return .entry o (← jNat j "n") (← body.toList.mapM opOf)
  | _ => return .plain o (← (← jArr j "a").mapM argOf)

def kindStr : ArgKind → String
  | .u n _ => s!"u{n}" | .s n _ => s!"s{n}" | .uleb => "uleb" | .sleb => "sleb" | .block => "block"
  | .block1 => "block1" | .expr => "expr" | .wasm _ => "wasm" | .refused w => s!"refused:{w}"

def valsJson (r : R (List Val)) : Json := resJson (fun vs => Json.arr (vs.map Val.toJson).toArray) r

def cfgOfJson (j : Json) : Except String DwarfCfg := do
  match j with
  | .arr #[Json.bool le, fmt, asz, ver] => return ⟨le, ← jNatOf fmt, ← jNatOf asz, ← jNatOf ver⟩
  | _ => throw "bad cfg"

def exprsJson (l : List (List (List (Nat × List Val)))) : Json :=
  Json.arr (l.map fun u => Json.arr (u.map fun d => Json.arr (d.map fun (o, ops) =>
    Json.arr #[jN o, Json.arr (ops.map Val.toJson).toArray]).toArray).toArray).toArray

/-- `info`: expressions where they occur.  A forest request in C04's format (`abbrevs`, `units`, `tus`, `secs`) whose
    block operands hold expression bytes, `exprs` = the (configuration, operations) the generator encoded (the `E` of
    Props/C12 `debug_info_exprs_exact`, looked up by bytes: `Spec.C12.tableE`), `pc` = configurations whose parsers an
    earlier walk left in the cache.  Sections are the Spec encodings, `wf` is `wfForestB ∧ forestExprsOK` with the
    standard selection `isExprAttr`, `expect` is `expectInfoExprs` / `expectTypesExprs`, `model` is
    `Model.C12.sectionExprs` over C04's model of the sections, `.debug_info` first, `.debug_types` from the cache the
    first walk left. -/
def handleInfo (req : Json) : Except String Json := do
  let le ← jBool req "le"
  let dasz := C04.jNatD req "dasz" 4
  let tables ← (← jArr req "abbrevs").mapM fun t => do
    let ds ← (← jArr t "decls").mapM C04.parseDecl
    return ({ gap := (C04.jHexOpt t "gap").getD [], decls := ds, endLen := C04.jNatD t "end_len" 1 } : Spec.C04.TableDesc)
  let secs := C04.parseSecs ((req.getObjVal? "secs").toOption.getD (Json.mkObj []))
  let tbls := tables.map fun t => (t.decls, t.endLen)
  let units ← (← jArr req "units").mapM (C04.parseUnitReq tbls)
  let tus ← ((jArr req "tus").toOption.getD []).mapM (C04.parseUnitReq tbls)
  let F := C04.forestOf le tables units tus secs
  let tbl ← (← jArr req "exprs").mapM fun e => do
    let c ← cfgOfJson (← e.getObjVal? "cfg")
    let ops ← (← jArr e "ops").mapM opOf
    return (c, ops)
  let pc0 ← ((jArr req "pc").toOption.getD []).mapM fun j => do
    let c ← cfgOfJson j
    match Model.C12.tableGet Gen.opDispatch c with
    | some D => return (c, D)
    | none => throw "pc: no dispatch table for cfg"
  let E := Spec.C12.tableE tbl
  let sel := Spec.C12.isExprAttr
  let info := Spec.C04.infoSec F
  let abbr := Spec.C04.encTables F.tables
  let types := Spec.C04.typesSec F
  let wf := Spec.C04.wfForestB C04.names F && Spec.C12.forestExprsOK sel E C04.names F
  let w := Model.C04.genDInfo le dasz (some info) (some abbr) (if tus.isEmpty then none else some types) secs
  let some S0 := Model.dwarfStructsFor ⟨le, 32, dasz, 2⟩ | throw "no default bundle"
  let N := Gen.opOpcode2Name
  let r1 := Model.C12.sectionExprs Model.C04.fetch w S0 w.info false Gen.opDispatch N sel pc0
  let pc1 := match r1 with | .ok (_, pc) => pc | .error _ => pc0
  let r2 := Model.C12.sectionExprs Model.C04.fetch w S0 w.types true Gen.opDispatch N sel pc1
  let rJ (r : R (List (List (List (Nat × List Val))) × Model.C12.PCache)) : Json := resJson (fun x => exprsJson x.1) r
  let nsel := (Spec.C12.expectInfoExprs sel E C04.names F ++ Spec.C12.expectTypesExprs sel E C04.names F).foldl
    (fun n u => u.foldl (fun n d => n + d.length) n) 0
  return Json.mkObj [("info", jHexOf info), ("abbrev", jHexOf abbr), ("types", jHexOf types), ("wf", Json.bool wf),
    ("wf_forest", Json.bool (Spec.C04.wfForestB C04.names F)), ("selected", jN nsel),
    ("expect", Json.mkObj [("info", Json.mkObj [("ok", exprsJson (Spec.C12.expectInfoExprs sel E C04.names F))]),
                           ("types", Json.mkObj [("ok", exprsJson (Spec.C12.expectTypesExprs sel E C04.names F))])]),
    ("model", Json.mkObj [("info", rJ r1), ("types", rJ r2)])]

def handle (req : Json) : Except String Json := do
  let k ← jStr req "k"
  if k == "info" then return ← handleInfo req
  if k == "exprclass" then
    -- the standard's selection of expression attributes (drives the harness generator and its client loop)
    return Json.mkObj [("at", Json.arr (Spec.C12.exprClassAt.map fun (n, s) => Json.arr #[jN n, Json.str s]).toArray),
                       ("block_forms", Json.arr (Spec.C12.blockFormNames.map Json.str).toArray)]
  let cfg ← cfgOf req
  let some (_, D) := Gen.opDispatch.find? (·.1 == cfg) | throw "no dispatch table for cfg"
  let N := Gen.opOpcode2Name
  match k with
  | "ast" =>
    let ops ← (← jArr req "ops").mapM opOf
    let bytes := encodeOps cfg ops
    return Json.mkObj [("bytes", jHexOf bytes), ("wf", Json.bool (WFops cfg ops)),
                       ("expect", Json.arr ((annotate cfg 0 ops).map Val.toJson).toArray),
                       ("model", valsJson (Model.parseExpr D N bytes))]
  | "trunc" =>
    -- every proper prefix of an encoded sequence: `expect` is what Props/C12 `truncated_expr` prescribes (the
    -- operations before a cut that falls between two operations, ELFParseError for a cut inside one), `model` the
    -- model run on the prefix
    let ops ← (← jArr req "ops").mapM opOf
    let bytes := encodeOps cfg ops
    let full := annotate cfg 0 ops
    let bounds := (ops.foldl (fun (acc : List Nat × Nat) o =>
      let n := acc.2 + (encodeOp cfg o).length
      (acc.1 ++ [n], n)) ([0], 0)).1
    let cuts := (List.range bytes.length).map fun k =>
      let e : R (List Val) := match bounds.idxOf? k with
        | some i => .ok (full.take i)
        | none => .error .elfParseError
      Json.mkObj [("expect", valsJson e), ("model", valsJson (Model.parseExpr D N (bytes.take k)))]
    return Json.mkObj [("bytes", jHexOf bytes), ("wf", Json.bool (WFops cfg ops)), ("cuts", Json.arr cuts.toArray)]
  | "raw" =>
    let data ← jHex req "hex"
    -- `spec := true`: the model dispatched by the standard's signature and name tables
    let useSpec := (jBool req "spec").toOption.getD false
    let r := if useSpec then Model.parseExpr (opTable cfg) opNames data else Model.parseExpr D N data
    return Json.mkObj [("model", valsJson r)]
  | "sig" =>
    -- the standard's operation table for this configuration (drives the harness generators)
    return Json.mkObj [("sig", Json.arr (opRows.map fun (op, name, ks) =>
      Json.arr #[jN op, Json.str name, Json.arr ((ks.map (kindStr ∘ resolve cfg)).map Json.str).toArray]).toArray),
      ("sources_ok", Json.bool Gen.exprSourcesOk)]
  | _ => throw s!"C12: unknown kind {k}"

end PyElf.Driver.C12
