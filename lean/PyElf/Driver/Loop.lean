/-
  Line-protocol loop shared by the all-in-one driver and the per-property fallback drivers:
  one JSON request per line on stdin, one JSON reply per line on stdout.
-/
import PyElf.Driver.Json
open Lean
namespace PyElf.Driver

partial def loop (handle : Json → Except String Json) (hin hout : IO.FS.Stream) : IO Unit := do
  let line ← hin.getLine
  if line.isEmpty then return ()
  let reply : Json :=
    match Json.parse line with
    | .error e => Json.mkObj [("fatal", Json.str s!"json: {e}")]
    | .ok req =>
      let idv := (req.getObjVal? "id").toOption.getD Json.null
      match handle req with
      | .ok (Json.obj o) => Json.obj (o.insert "id" idv)
      | .ok j => Json.mkObj [("id", idv), ("out", j)]
      | .error e => Json.mkObj [("id", idv), ("fatal", Json.str e)]
  hout.putStrLn reply.compress
  hout.flush
  loop handle hin hout

def runLoop (handle : Json → Except String Json) : IO Unit := do
  loop handle (← IO.getStdin) (← IO.getStdout)

end PyElf.Driver
