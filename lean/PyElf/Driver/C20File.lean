import PyElf.Driver.Json
import PyElf.Driver.C01
import PyElf.Driver.C20Base
import PyElf.Spec.ElfImage
import PyElf.Spec.ElfImageFast
import PyElf.Spec.C20File
import PyElf.Spec.AttrMalformed
import PyElf.Model.Env
import PyElf.Model.AttrFile
import PyElf.Model.AttrHistory
open Lean
namespace PyElf.Driver.C20
open PyElf PyElf.Spec PyElf.Spec.C20

/-! ### whole files (fifth wave): descriptions → bytes by the Spec assembler, the hypotheses of the
    file theorems decided, the file-level model run with the regenerated factories -/

def descWf (d : ElfDesc) : Bool :=
  (match d.regions with
   | some rs => regionsDisjoint (sortRegions rs)
   | none => false) && d.wfZ Model.elfEnv && (match d.observe Model.elfEnv with | .ok _ => true | .error _ => false)

def kindTreeJson (r : R (String × Val)) : Json :=
  resJson (fun (k, v) => Json.arr #[Json.str k, v.toJson]) r

def optKindTreeJson (r : R (Option (String × Val))) : Json :=
  resJson (fun o => match o with
    | some (k, v) => Json.arr #[Json.str k, v.toJson]
    | none => Json.null) r

def modelAttr (bytes : Bytes) (i : Nat) : R (String × Val) :=
  Model.C20.fileAttrSection Model.elfEnv Model.elfStructsFor Model.machineClassOf bytes i

def modelAttrByName (bytes name : Bytes) : R (Option (String × Val)) :=
  Model.C20.fileAttrSectionByName Model.elfEnv Model.elfStructsFor Model.machineClassOf bytes name

def attrQuery (d : ElfDesc) (bytes : Bytes) (q : Json) : Except String Json := do
  let t ← jStr q "t"
  match t with
  | "sec" =>
    -- `get_section(i)`: hypotheses of `file_attributes_exact`
    let arch ← jArch q
    let i ← jNat q "i"
    let sec ← (← jArr q "sec").mapM jSubSection
    return Json.mkObj [("dom", Json.bool (attrSecAt arch d i sec)),
                       ("expect", Json.arr #[Json.str (attrKindName arch), (Attr.obsSection arch d.le sec).toJson]),
                       ("model", kindTreeJson (modelAttr bytes i))]
  | "name" =>
    -- `get_section_by_name(name)`: additionally the name designates section `i`
    let arch ← jArch q
    let i ← jNat q "i"
    let name ← jHex q "name"
    let sec ← (← jArr q "sec").mapM jSubSection
    return Json.mkObj [("dom", Json.bool (attrSecAt arch d i sec && d.indexOfName name == some i)),
                       ("expect", Json.arr #[Json.str (attrKindName arch), (Attr.obsSection arch d.le sec).toJson]),
                       ("model", optKindTreeJson (modelAttrByName bytes name))]
  | "trunc" | "overrun" | "unknown" =>
    -- malformed sections: hypotheses of `file_attributes_truncated` / `_size_overrun` / `_unknown_tag`
    let arch ← jArch q
    let i ← jNat q "i"
    let sec ← (← jArr q "sec").mapM jSubSection
    let enc := Attr.encSection d.le sec
    let (off, size, body) := match d.sections[i]? with
      | some sd => (getNatD sd.hdr "sh_offset", getNatD sd.hdr "sh_size", sd.body.getD [])
      | none => (0, 0, [])
    let held := bytes.drop off
    let dom ← match t with
      | "trunc" => do
        let k ← jNat q "cut"
        pure (Attr.sectionWf arch d.le sec && decide (k < enc.length) && size == enc.length && held == enc.take k)
      | "overrun" => pure (Attr.sectionWf arch d.le sec && decide (enc.length < size) && held == enc)
      | _ => pure (sectionUnknownTag arch d.le sec && body == enc && size == enc.length)
    return Json.mkObj [("dom", Json.bool (attrHdrAt arch d i && dom)),
                       ("expect_res", Json.mkObj [("err", Json.str "elfParseError")]),
                       ("model", kindTreeJson (modelAttr bytes i))]
  | "any" =>
    -- no claim: the model only (other classes, indices out of range, absent names)
    match q.getObjVal? "name" with
    | .ok _ => return Json.mkObj [("dom", Json.bool false), ("model", optKindTreeJson (modelAttrByName bytes (← jHex q "name")))]
    | .error _ => return Json.mkObj [("dom", Json.bool false), ("model", kindTreeJson (modelAttr bytes (← jNat q "i")))]
  | _ => throw s!"C20 file_attr: unknown query {t}"

/-! exception tables -/

def modelEntry (bytes : Bytes) (i n : Nat) : R Val :=
  Model.C20.fileEhabiEntry Model.elfEnv Model.elfStructsFor Model.machineClassOf Model.ehabiStructsFor bytes i n

def modelNum (bytes : Bytes) (i : Nat) : R Nat :=
  Model.C20.fileEhabiNumEntry Model.elfEnv Model.elfStructsFor Model.machineClassOf Model.ehabiStructsFor bytes i

def modelInfosEntry (bytes : Bytes) (k n : Nat) : R Val :=
  Model.C20.fileEhabiInfosEntry Model.elfEnv Model.elfStructsFor Model.machineClassOf Model.ehabiStructsFor bytes k n

/-- `get_ehabi_infos()`: `None` or the (name, sh_offset, num_entry) of every info -/
def modelInfos (bytes : Bytes) : R Json := do
  match ← Model.C20.fileEhabiInfos Model.elfEnv Model.elfStructsFor Model.machineClassOf Model.ehabiStructsFor bytes with
  | none => return Json.null
  | some (_, infos) =>
    let xs ← infos.mapM fun info => do
      return Json.arr #[jHexOf info.name, jN (← info.sh.getNat "sh_offset"), jN (← info.numEntry)]
    return Json.arr xs.toArray

/-- entry + `mnmemonic_array()`, as `entryWithMn` of the section-level handler -/
def withMn (e : R Val) : R Json := do
  let e ← e
  let code := match e.getField "bytecode_array" with
    | .ok v => codeOfVal v
    | .error _ => none
  let mn ← Model.Ehabi.mnemonicArray Gen.ehabiRing code
  return Json.mkObj [("entry", e.toJson), ("mn", mnJson mn)]

def handleFile (req : Json) : Except String Json := do
  let k ← jStr req "k"
  let d ← C01.descOfJson (← req.getObjVal? "ast")
  let tail := (jNat req "tail").toOption.getD 0
  match d.assembleFast tail with
  | none => return Json.mkObj [("wf", Json.bool false), ("why", "not encodable")]
  | some bytes =>
    match k with
    | "file_attr" =>
      let qs ← (← jArr req "q").mapM (attrQuery d bytes)
      return Json.mkObj [("wf", Json.bool (descWf d)), ("bytes", jHexOf bytes), ("q", Json.arr qs.toArray)]
    | "file_ehabi" =>
      -- section `i` = the index table of `entries`, section `x` holds the handler table `xpre` bytes in
      let i ← jNat req "i"
      let x ← jNat req "x"
      let xpre ← jNat req "xpre"
      let es ← (← jArr req "entries").mapM jEntry
      let ns ← (← jArr req "ns").mapM jNatOf
      let obs := d.observe Model.elfEnv
      let notrel := match obs with | .ok o => notRel o | .error _ => false
      let idxs := match obs with | .ok o => exidxIndices o | .error _ => []
      let off := match d.sections[i]? with | some sd => getNatD sd.hdr "sh_offset" | none => 0
      let tab0 := (match d.sections[x]? with | some sx => getNatD sx.hdr "sh_offset" | none => 0) + xpre
      let tabs := Ehabi.tableOffsets tab0 es
      let expect := (es.zip ((List.range es.length).zip tabs)).map fun (e, n, t) =>
        let codeOk := match e.code with
          | some c => (Ehabi.ehabiStd c).isSome
          | none => true
        Json.mkObj [("entry", (Ehabi.obsEntry e (off + 8 * n) t).toJson),
                    ("mn", match e.code with
                           | some c => mnJson (Ehabi.ehabiStd c)
                           | none => Json.null),
                    ("codeok", Json.bool codeOk)]
      -- which info of `get_ehabi_infos()` is section `i`
      let kOf := idxs.findIdx? (· == i)
      return Json.mkObj [
        ("wf", Json.bool (descWf d)), ("bytes", jHexOf bytes),
        ("dom", Json.bool (exidxAt d i x xpre es)), ("notrel", Json.bool notrel),
        ("k", match kOf with | some k => jN k | none => Json.null),
        ("nidx", jN idxs.length),
        ("expect", Json.arr expect.toArray),
        ("num", resJson jN (modelNum bytes i)),
        ("model", Json.arr (ns.map fun n => resJson id (withMn (modelEntry bytes i n))).toArray),
        ("infos", resJson id (modelInfos bytes)),
        ("model_infos", match kOf with
          | some k => Json.arr (ns.map fun n => resJson id (withMn (modelInfosEntry bytes k n))).toArray
          | none => Json.null),
        -- an info index beyond the list / `None[k]`
        ("model_infos_oob", resJson id (withMn (modelInfosEntry bytes idxs.length 0)))]
    | _ => throw s!"C20: unknown kind {k}"

/-! ### histories of the attribute API (Model/AttrHistory.lean) -/

open Model.C20 in
def attrObjJson (a : Model.Attr.AttrObj) : Json := a.toVal.toJson

open Model.C20 in
def itemJson : Item → Json
  | .subsec o => Json.mkObj [("subsec", Json.arr #[jN o.offset, jN o.length, o.vendor.toJson, jN o.subsubStart])]
  | .subsub o => Json.mkObj [("subsub", Json.arr #[jN o.offset, attrObjJson o.header, jN o.attrStart])]
  | .attr v => Json.mkObj [("attr", v.toJson)]

open Model.C20 in
def ansJson : Ans → Json
  | .unit => Json.null
  | .sec o => Json.mkObj [("sec", Json.arr #[jN o.shOffset, jN o.dataSize, jN o.subsecStart])]
  | .gen g => Json.mkObj [("gen", jN g)]
  | .item x => itemJson x
  | .stop => Json.str "stop"
  | .items xs => Json.mkObj [("items", Json.arr (xs.map itemJson).toArray)]
  | .err e => Json.mkObj [("err", Json.str e.name)]

open Model.C20 in
/-- the object an answer handed out (what later calls may refer to) -/
inductive Obj
  | sec (o : SecObj) | subsec (o : SubsecObj) | subsub (o : SubsubObj)

open Model.C20 in
def objsOf : Ans → List Obj
  | .sec o => [.sec o]
  | .item (.subsec o) => [.subsec o]
  | .item (.subsub o) => [.subsub o]
  | .items xs => xs.filterMap fun x => match x with
      | .subsec o => some (.subsec o)
      | .subsub o => some (.subsub o)
      | .attr _ => none
  | _ => []

open Model.C20 in
/-- one wire operation → a model operation; `objs[j]` are the objects answer `j` handed out
    (`ref = [j, k]`: the `k`-th object of answer `j`) -/
def opOfJson (objs : Array (List Obj)) (j : Json) : Except String (Option Op) := do
  let o ← jStr j "o"
  let refObj : Except String (Option Obj) := do
    match ← jArr j "ref" with
    | [a, b] =>
      let a ← jNatOf a
      let b ← jNatOf b
      return (objs[a]?.getD [])[b]?
    | _ => throw "ref: expected [op, k]"
  match o with
  | "seek" => return some (.seek (← jNat j "n"))
  | "open" => return some (.openSec (← jArch j) (← jNat j "off") (← jNat j "size"))
  | "iter" =>
    match ← refObj with
    | some (.sec x) => return some (.iterSubsecs x)
    | some (.subsec x) => return some (.iterSubsubs x)
    | some (.subsub x) => return some (.iterAttrs x)
    | none => return none
  | "list" =>
    match ← refObj with
    | some (.sec x) => return some (.listSubsecs x)
    | some (.subsec x) => return some (.listSubsubs x)
    | some (.subsub x) => return some (.listAttrs x)
    | none => return none
  | "next" => return some (.next (← jNat j "g"))
  | _ => throw s!"C20 hist: unknown op {o}"

open Model.C20 in
def handleHist (req : Json) : Except String Json := do
  let arch ← jArch req
  let le ← jBool req "le"
  let cls ← jNat req "cls"
  let data ← jHex req "hex"
  let mclass := match arch with | .arm => "EM_ARM" | .riscv => "EM_RISCV"
  let some S := Model.elfStructsFor ⟨le, cls, mclass, false, false⟩ | throw "no such elf bundle"
  let fuel := data.length + 3
  let mut st : HState := { pos := ← jNat req "pos", known := true, gens := [] }
  let mut objs : Array (List Obj) := #[]
  let mut out : Array Json := #[]
  for j in ← jArr req "ops" do
    match ← opOfJson objs j with
    | none =>
      -- the call refers to an object the model never handed out
      objs := objs.push []
      out := out.push (Json.mkObj [("badref", Json.bool true)])
    | some op =>
      let (a, st') := step Model.elfEnv S data fuel st op
      st := st'
      objs := objs.push (objsOf a)
      out := out.push (Json.mkObj [("a", ansJson a), ("pos", jN st.pos), ("known", Json.bool st.known)])
  return Json.mkObj [("steps", Json.arr out)]

end PyElf.Driver.C20
