import PyElf.Driver.Json
import PyElf.Spec.DieTree
import PyElf.Spec.DieSection
import PyElf.Model.Die
import PyElf.Model.DieSection
import PyElf.Model.SigCache
import PyElf.Model.Env
open Lean
namespace PyElf.Driver.C04
open PyElf PyElf.Spec.C04 PyElf.Model.C04
open PyElf.Spec.Lookup (InfoUnit)
open PyElf.Model

def jNatD (j : Json) (k : String) (d : Nat) : Nat := (jNat j k).toOption.getD d
def jHexOpt (j : Json) (k : String) : Option Bytes := (jHex j k).toOption

/-! ### request parsing -/

def parseSpec (j : Json) : Except String AttrSpec := do
  return { name := ← jNat j "name", form := ← jNat j "form", const := (jInt j "const").toOption.getD 0,
           nameLen := jNatD j "nl" 1, formLen := jNatD j "fl" 1, constLen := jNatD j "cl" 1 }

def parseDecl (j : Json) : Except String AbbrevDecl := do
  return { code := ← jNat j "code", tag := ← jNat j "tag", children := ← jBool j "children",
           specs := ← (← jArr j "specs").mapM parseSpec, codeLen := jNatD j "cl" 1, tagLen := jNatD j "tl" 1 }

def hexOf : Json → Except String Bytes
  | .str h => match Bytes.ofHex h with | some b => .ok b | none => .error "bad hex"
  | _ => .error "hex expected"

def parseOp : Json → Except String Operand
  | .arr #[.str "nat", v] => do return .nat (← jNatOf v)
  | .arr #[.str "uleb", l, v] => do return .uleb (← jNatOf l) (← jNatOf v)
  | .arr #[.str "sleb", l, v] => do return .sleb (← jNatOf l) (← jIntOf v)
  | .arr #[.str "str", h] => do return .str (← hexOf h)
  | .arr #[.str "block", h] => do return .block (← hexOf h)
  | .arr #[.str "blocku", l, h] => do return .blockU (← jNatOf l) (← hexOf h)
  | .arr #[.str "b16", h] => do return .bytes16 (← hexOf h)
  | .arr #[.str "present"] => .ok .present
  | .arr #[.str "implicit"] => .ok .implicit
  | _ => .error "bad operand"

def parseAttr (j : Json) : Except String AttrV := do
  let ind ← ((jArr j "ind").toOption.getD []).mapM jNatOf
  return { ind := ind, form := ← jNat j "form", op := ← parseOp (← j.getObjVal? "op") }

/-- a tree whose nodes name their declaration by code in table `tbl`; a code the table lacks
    gives a declaration-less node (never well formed) -/
partial def parseTree (tbl : List AbbrevDecl) (j : Json) : Except String Tree := do
  let code ← jNat j "code"
  let decl := (tbl.find? (·.code == code)).getD { code := code, tag := 0, children := false, specs := [] }
  let attrs ← (← jArr j "attrs").mapM parseAttr
  let kids ← ((jArr j "kids").toOption.getD []).mapM (parseTree tbl)
  return .mk { decl := decl, codeLen := jNatD j "cl" 1, attrs := attrs } kids (jNatD j "nl" 1)

structure UnitReq where
  fmt64 : Bool
  version : Nat
  utype : Nat
  asz : Nat
  id8 : Nat
  typeOff : Nat
  table : Nat
  tree : Tree
  known : Bool       -- every node's code is declared in its table

partial def codesKnown (tbl : List AbbrevDecl) (j : Json) : Bool :=
  match jNat j "code" with
  | .ok code => (tbl.any (·.code == code)) && ((jArr j "kids").toOption.getD []).all (codesKnown tbl)
  | .error _ => false

def parseUnitReq (tables : List (List AbbrevDecl × Nat)) (j : Json) : Except String UnitReq := do
  let ti ← jNat j "table"
  let some (tbl, _) := tables[ti]? | throw "no such table"
  let tj ← j.getObjVal? "tree"
  return { fmt64 := ← jBool j "fmt64", version := ← jNat j "version", utype := jNatD j "utype" 1,
           asz := ← jNat j "asz", id8 := jNatD j "id8" 0, typeOff := jNatD j "type_off" 0, table := ti,
           tree := ← parseTree tbl tj, known := codesKnown tbl tj }

def parseSecs (j : Json) : Sections :=
  { str := jHexOpt j "str", lineStr := jHexOpt j "line_str", addr := jHexOpt j "addr",
    strOffsets := jHexOpt j "str_offsets", loclists := jHexOpt j "loclists", rnglists := jHexOpt j "rnglists" }

/-! ### JSON of observations -/

def attrJson (a : AttrObs) : Json := Json.arr #[a.name.toJson, a.form.toJson, a.value.toJson, a.raw.toJson, jN a.offset]

def optNat : Option Nat → Json
  | some n => jN n
  | none => Json.null

def dieJson (d : DieObs) (parent : Option Nat) : Json :=
  Json.arr #[jN d.offset, jN d.size, jN d.code, d.tag.toJson, d.hasChildren.toJson,
             Json.arr (d.attrs.map attrJson).toArray, optNat parent]

def errJson (e : Err) : Json := Json.mkObj [("err", Json.str e.name)]

def names : Names :=
  { tag := fun n => match Model.genEnumDecode "ENUM_DW_TAG" n with | some s => .str s | none => .int n,
    at_ := fun n => match Model.genEnumDecode "ENUM_DW_AT" n with | some s => .str s | none => .int n,
    form := fun n => match Model.genEnumDecode "ENUM_DW_FORM" n with | some s => .str s | none => .int n }

/-! ### the model on sections -/

/-- the `DWARFInfo` the model runs on: the sections with the REGENERATED registry, struct bundles and
    `DW_FORM_raw2name` (`Model.C04.DInfo`; Props/C04 `debug_info_exact` is about the same model functions) -/
def mkWorld (le : Bool) (dasz : Nat) (info abbr types : Option Bytes) (secs : Sections) : DInfo :=
  genDInfo le dasz info abbr types secs

abbrev World := DInfo

def refForms : List String := unitRefForms ++ ["DW_FORM_ref_addr", "DW_FORM_ref_sig8"]

def cuHdrJson (cu : Lookup.CU) : Json :=
  let sz : Json := match cu.size with | .ok n => jN n | .error e => Json.str e.name
  Json.arr #[jN cu.cuOffset, jN cu.cuDieOffset, sz, jN cu.fmt, cu.header.toJson]

/-- units of a section with their contexts: `Model.C04.sectionUnits` (the glue `unitCtx` is modelled there) -/
def unitsOf (w : World) (S0 : DwarfStructs) (sec : Option Bytes) (isTypes : Bool) :
    List (Lookup.CU × R UnitCtx) × Option Err :=
  sectionUnits w S0 sec isTypes

def refResJson (r : R (Nat × DieObs)) : Json :=
  match r with
  | .ok (cuOff, d) => Json.mkObj [("ok", Json.arr #[jN cuOff, jN d.offset, jN d.code])]
  | .error e => errJson e

/-- `dwarfinfo.get_DIE_from_refaddr(refaddr)` -/
def sectionRef (infoUnits : List (Lookup.CU × R UnitCtx) × Option Err) (infoSize : Nat) (refaddr : Int) :
    R (Nat × DieObs) := do
  if ¬ (0 ≤ refaddr ∧ refaddr < infoSize) then throw .dwarfError
  let x := refaddr.toNat
  let rec go : List (Lookup.CU × R UnitCtx) → R (Nat × DieObs)
    | [] => match infoUnits.2 with
            | some e => .error e
            | none => .error .valueError
    | (cu, rU) :: rest => do
      let sz ← cu.size
      if cu.cuOffset ≤ x ∧ x < cu.cuOffset + sz then
        let U ← rU
        let d ← unitDIEFromRefaddr U x
        return (cu.cuOffset, d)
      else go rest
  go infoUnits.1

structure QState where
  /-- a DIE below the unit's first-entry offset was fetched (see `fetch`) -/
  low : Bool := false
  /-- the DW_FORM_ref_sig8 values followed so far, in query order (the history the signature-map cache sees) -/
  sigs : List Int := []

def isLow {α : Type} (r : R α) : Bool :=
  match r with
  | .error .stopIteration => true
  | _ => false

/-- `get_DIE_by_sig8`: `Model.C04.dieBySig8` with the marked fetch on the scanned type units — `typeUnits` is
    `Model.C04.sigUnits w S0` (the units of `.debug_types`, then the DWARF 5 type units of `.debug_info`), so this is
    `Model.C04.sig8Lookup fetch w S0 sig` (Props/C04 `ref_sig8_debug_types`, `ref_sig8_debug_info_v5`) without
    rescanning the sections for every reference -/
def sigRef (typeUnits : List (Lookup.CU × R UnitCtx) × Option Err) (sig : Int) : R (Nat × DieObs) :=
  dieBySig8 fetch typeUnits.1 typeUnits.2 sig

/-- iterate one unit and run the queries of the canonical order -/
def runUnit (w : World) (infoUnits sigU : List (Lookup.CU × R UnitCtx) × Option Err)
    (cu : Lookup.CU) (rU : R UnitCtx) (rDies : R (List (DieObs × Option Nat))) (st : QState) : Json × QState :=
  match rU with
  | .error e => (Json.mkObj [("hdr", cuHdrJson cu), ("dies", errJson e)], st)
  | .ok U =>
    let G := fetch U
    let fuel := unitFuel U
    -- `rDies` is this unit's component of `Model.C04.iterSection fetch …`
    match rDies with
    | .error e => (Json.mkObj [("hdr", cuHdrJson cu), ("dies", errJson e)], { st with low := st.low || e == .stopIteration })
    | .ok dies =>
      let childRes := dies.map fun (d, _) => childrenOf G U.cuOffset fuel d
      let st := { st with low := st.low || childRes.any isLow }
      let children := childRes.map fun r => resJson (fun l => Json.arr (l.map jN).toArray) r
      let infoSize := (w.info.map (·.length)).getD 0
      let (refs, st') := dies.foldl (fun (acc, st) (d, _) =>
        d.attrs.foldl (fun (acc, st) a =>
          match a.form with
          | .str f =>
            if refForms.contains f then
              match refTarget U.cuOffset d a.name with
              | .error e => (acc ++ [errJson e], st)
              | .ok (.unitRel x) => (acc ++ [refResJson (do let d ← unitDIEFromRefaddr U x; return (U.cuOffset, d))], st)
              | .ok (.section x) => (acc ++ [refResJson (sectionRef infoUnits infoSize x)], st)
              | .ok (.sig8 s) =>
                let r := sigRef sigU s
                (acc ++ [refResJson r], { st with low := st.low || isLow r, sigs := st.sigs ++ [s] })
            else (acc, st)
          | _ => (acc, st)) (acc, st)) (([] : List Json), st)
      (Json.mkObj [("hdr", cuHdrJson cu), ("dies", Json.mkObj [("ok", Json.arr (dies.map fun (d, p) => dieJson d p).toArray)]),
                   ("children", Json.arr children.toArray), ("refs", Json.arr refs.toArray)], st')

def endJson : Option Err → Json
  | none => Json.null
  | some e => Json.str e.name

def runWorld (w : World) : Except String Json := do
  let some S0 := Model.dwarfStructsFor ⟨w.le, 32, w.dasz, 2⟩ | throw "no default bundle"
  let infoUnits := unitsOf w S0 w.info false
  let typeUnits := unitsOf w S0 w.types true
  let sigU := sigUnits w S0
  -- `[(cu, list(cu.iter_DIEs())) for cu in iter_CUs()]`, resp. `iter_TUs()`: the function of `debug_info_exact`
  let infoIter := iterSection fetch w S0 w.info false
  let typeIter := iterSection fetch w S0 w.types true
  let (ij, st) := (infoUnits.1.zip infoIter.1).foldl (fun (acc, st) ((cu, rU), (_, rDies)) =>
    let (j, st') := runUnit w infoUnits sigU cu rU rDies st
    (acc ++ [j], st')) (([] : List Json), ({} : QState))
  let (tj, st) := (typeUnits.1.zip typeIter.1).foldl (fun (acc, st) ((cu, rU), (_, rDies)) =>
    let (j, st') := runUnit w infoUnits sigU cu rU rDies st
    (acc ++ [j], st')) (([] : List Json), st)
  let hook := (infoUnits.1 ++ typeUnits.1).any fun (_, rU) => match rU with | .ok U => topHookFails U | .error _ => false
  -- the same signature lookups through the MODEL OF THE CACHE `_type_units_by_sig` (Model/SigCache; Props/C04
  -- `sig8_history_independent` says these are the stateless answers above): answers in query order and whether the
  -- map has been published at the end
  let hist := Model.SigCache.run sigU (fun us s => dieBySig8 fetch us none s) Model.SigCache.St.init st.sigs
  return Json.mkObj [("top_hook_fails", Json.bool hook), ("low_fetch", Json.bool st.low),
                     ("sig_hist", Json.arr (hist.1.map refResJson).toArray), ("sig_published", Json.bool hist.2.map.isSome),
                     ("info", Json.mkObj [("units", Json.arr ij.toArray), ("end", endJson infoUnits.2)]),
                     ("types", Json.mkObj [("units", Json.arr tj.toArray), ("end", endJson typeUnits.2)])]

/-! ### the Spec side: encoding and expectation -/

def cfgOf (le : Bool) (u : UnitReq) : DwarfCfg := ⟨le, if u.fmt64 then 64 else 32, u.asz, u.version⟩

def descOf (u : UnitReq) : UnitDesc :=
  { fmt64 := u.fmt64, version := u.version, utype := u.utype, asz := u.asz, id8 := u.id8, typeOff := u.typeOff,
    table := u.table, tree := u.tree }

/-- the forest description of a request (Spec/DieSection): the sections are ITS encodings, the expectation is
    built on ITS placement, `wf` is ITS well-formedness — the objects of Props/C04 `debug_info_exact` -/
def forestOf (le : Bool) (tables : List TableDesc) (units tus : List UnitReq) (secs : Sections) : Forest :=
  { le := le, tables := tables, units := units.map descOf, tus := tus.map descOf, secs := secs }

structure Placed where
  u : UnitReq
  cfg : DwarfCfg
  off : Nat            -- unit offset in its section
  dieOff : Nat
  size : Nat
  hdr : Val
  isTypes : Bool
  flat : List DieObs   -- what iterating must yield
  ok : Bool            -- every value resolves

def placeUnits (F : Forest) (isTypes : Bool) (us : List UnitReq) : List Placed :=
  let placed := if isTypes then placeTypes F 0 F.tus else placeInfo F 0 F.units
  (placed.zip us).map fun ((off, d), u) =>
    let cfg := d.cfg F.le
    let (size, dieOff, hdr) :=
      if isTypes then ((encTUOf F d).length, typesDieOff F off d, tuHdrVal F.le (tuHeaderOf F d) (encTree cfg d.tree))
      else (Spec.Lookup.unitSize F.le (infoUnitOf F d), infoDieOff F off d, Spec.Lookup.unitHdrVal F.le (infoUnitOf F d))
    let bases := basesOf d.tree.root
    let ρ := resolveD cfg F.secs bases
    let flat := flattenUnit names cfg ρ ρ dieOff d.tree
    let ok := flat.all fun x => x.attrs.all fun a => (resolve cfg F.secs bases a.form a.raw).isSome
    ⟨u, cfg, off, dieOff, size, hdr, isTypes, flat, ok⟩

def distinctNames (d : AbbrevDecl) : Bool := decide ((d.specs.map (·.name)).Nodup)

partial def declsOk : Tree → Bool
  | .mk n kids _ => distinctNames n.decl && kids.all declsOk

/-- the parts of well-formedness per unit, for the distribution counters (the verdict is `wfForestB`) -/
def wfParts (F : Forest) (p : Placed) (abbrevLen : Nat) : List Bool :=
  let d := descOf p.u
  let hdrOk :=
    if p.isTypes then wfTU F.le (tuHeaderOf F d) (encTree p.cfg p.u.tree)
    else Spec.Lookup.wfUnit F.le (infoUnitOf F d)
  [hdrOk, p.u.known, wfTree p.cfg p.u.tree, declsOk p.u.tree, p.ok,
   decide (p.u.table < F.tables.length ∧ tableOff F.tables p.u.table < abbrevLen),
   sibsOk names p.cfg (fun _ r => r) p.off p.dieOff p.u.tree]

def wfPlaced (F : Forest) (p : Placed) (abbrevLen : Nat) : Bool :=
  (wfParts F p abbrevLen).all id

/-- a DWARF 5 type unit placed in `.debug_info` (DW_UT_type = 2, DW_UT_split_type = 6) -/
def isTypeUnit5 (q : Placed) : Bool := !q.isTypes && q.u.version == 5 && (q.u.utype == 2 || q.u.utype == 6)

/-- expected reference resolution, `null` when the reference designates no entry (outside the quantifier) -/
def expectRef (infoP typeP : List Placed) (infoSize : Nat) (p : Placed) (a : AttrObs) : Json :=
  let found (q : Placed) (x : Nat) : Json :=
    match q.flat.find? (·.offset == x) with
    | some d => Json.mkObj [("ok", Json.arr #[jN q.off, jN d.offset, jN d.code])]
    | none => Json.null
  match a.form, a.raw with
  | .str f, .int v =>
    if unitRefForms.contains f then
      let x := (p.off + v).toNat
      if p.dieOff ≤ x ∧ x < p.off + p.size then found p x else Json.null
    else if f = "DW_FORM_ref_addr" then
      if 0 ≤ v ∧ v < infoSize then
        match infoP.find? (fun q => decide (q.off ≤ v.toNat ∧ v.toNat < q.off + q.size)) with
        | some q => if q.dieOff ≤ v.toNat then found q v.toNat else Json.null
        | none => Json.null
      else Json.null
    else if f = "DW_FORM_ref_sig8" then
      -- DWARF 4 §7.5.1.2: the type unit of `.debug_types` with that signature; DWARF 5 §7.5.1.2: the unit of
      -- `.debug_info` whose header says DW_UT_type / DW_UT_split_type with that type_signature.  The entry at
      -- the unit's type_offset.  (A signature carried by several units designates nothing definite.)
      match (typeP.filter fun q => q.u.id8 == v.toNat) ++ (infoP.filter fun q => isTypeUnit5 q && q.u.id8 == v.toNat) with
      | [q] => found q (q.off + q.u.typeOff)
      | _ => Json.null
    else Json.null
  | _, _ => Json.null

def expectUnit (infoP typeP : List Placed) (infoSize : Nat) (p : Placed) : Json :=
  let pairs := parentPairs p.cfg p.dieOff p.u.tree
  let parentOf (o : Nat) : Option Nat := (pairs.find? (·.2 == o)).map (·.1)
  let kids := childLists p.cfg p.dieOff p.u.tree
  let refs := p.flat.flatMap fun d => d.attrs.filterMap fun a =>
    match a.form with
    | .str f => if refForms.contains f then some (expectRef infoP typeP infoSize p a) else none
    | _ => none
  Json.mkObj [("hdr", Json.arr #[jN p.off, jN p.dieOff, jN p.size, jN p.cfg.fmt, p.hdr.toJson]),
              ("dies", Json.mkObj [("ok", Json.arr (p.flat.map fun d => dieJson d (parentOf d.offset)).toArray)]),
              ("children", Json.arr (kids.map fun l => Json.mkObj [("ok", Json.arr (l.map jN).toArray)]).toArray),
              ("refs", Json.arr refs.toArray),
              ("end", jN (p.off + p.size)),
              ("tiles", Json.bool (decide ((p.flat.foldl (fun acc d => if acc == d.offset then d.offset + d.size else 0) p.dieOff)
                                     = p.off + p.size)))]

def handle (req : Json) : Except String Json := do
  let k ← jStr req "k"
  let le ← jBool req "le"
  let dasz := jNatD req "dasz" 4
  match k with
  | "ast" =>
    let tables ← (← jArr req "abbrevs").mapM fun t => do
      let ds ← (← jArr t "decls").mapM parseDecl
      return ({ gap := (jHexOpt t "gap").getD [], decls := ds, endLen := jNatD t "end_len" 1 } : TableDesc)
    let secs := parseSecs ((req.getObjVal? "secs").toOption.getD (Json.mkObj []))
    let tbls := tables.map fun t => (t.decls, t.endLen)
    let units ← (← jArr req "units").mapM (parseUnitReq tbls)
    let tus ← ((jArr req "tus").toOption.getD []).mapM (parseUnitReq tbls)
    let F := forestOf le tables units tus secs
    let abbrevB := encTables F.tables
    let info := infoSec F
    let types := typesSec F
    let infoP := placeUnits F false units
    let typeP := placeUnits F true tus
    let wfTables := tables.all fun t => wfAbbrevs t.decls t.endLen
    -- the hypothesis of `debug_info_exact` / `debug_types_exact`
    let wf := wfForestB names F
    -- the same, part by part, as computed before the forest description existed (must agree)
    let wfOld := wfTables && (infoP ++ typeP).all fun p => wfPlaced F p abbrevB.length
    let w : World := mkWorld le dasz (some info) (some abbrevB)
                       (if tus.isEmpty && !((jBool req "types_present").toOption.getD false) then none else some types) secs
    let model ← runWorld w
    return Json.mkObj [
      ("info", jHexOf info), ("abbrev", jHexOf abbrevB), ("types", jHexOf types), ("wf", Json.bool wf),
      ("wf_old", Json.bool wfOld),
      ("table_offs", Json.arr ((List.range tables.length).map fun i => jN (tableOff tables i)).toArray),
      ("wf_parts", Json.arr ((infoP ++ typeP).map fun p => Json.arr ((wfParts F p abbrevB.length).map Json.bool).toArray).toArray),
      ("wf_tables", Json.bool wfTables),
      ("unresolved", Json.arr ((infoP ++ typeP).map fun p =>
        let bases := basesOf p.u.tree.root
        match (p.flat.flatMap (·.attrs)).find? (fun a => (resolve p.cfg secs bases a.form a.raw).isNone) with
        | some a => Json.arr #[a.form.toJson, a.raw.toJson, optNat bases.strOffsets, optNat bases.addr, optNat bases.loclists, optNat bases.rnglists]
        | none => Json.null).toArray),
      ("layout", Json.mkObj [
        ("info", Json.arr (infoP.map fun p => Json.arr #[jN p.off, Json.arr (p.flat.map fun d => jN d.offset).toArray]).toArray),
        ("types", Json.arr (typeP.map fun p => Json.arr #[jN p.off, Json.arr (p.flat.map fun d => jN d.offset).toArray]).toArray)]),
      ("expect", Json.mkObj [
        ("info", Json.mkObj [("units", Json.arr (infoP.map (expectUnit infoP typeP info.length)).toArray), ("end", Json.null)]),
        ("types", Json.mkObj [("units", Json.arr (typeP.map (expectUnit infoP typeP info.length)).toArray), ("end", Json.null)])]),
      ("model", model)]
  | "raw" =>
    let secs := parseSecs ((req.getObjVal? "secs").toOption.getD (Json.mkObj []))
    let w : World := mkWorld le dasz (jHexOpt req "info") (jHexOpt req "abbrev") (jHexOpt req "types") secs
    return Json.mkObj [("model", ← runWorld w)]
  | _ => throw s!"C04: unknown kind {k}"

end PyElf.Driver.C04
