import PyElf.Driver.Json
import PyElf.Driver.ConH
import PyElf.Core.Bundles
import PyElf.Gen.Tables
import PyElf.Gen.Structs
import PyElf.Gen.Pure
import PyElf.Spec.DwarfStructs
import PyElf.Model.Env
import PyElf.Driver.C16
import PyElf.Driver.Tie
import PyElf.Driver.C11
import PyElf.Driver.C10
import PyElf.Driver.C02
import PyElf.Driver.C04
import PyElf.Driver.C09
import PyElf.Driver.C05
import PyElf.Driver.C07
import PyElf.Driver.C15
import PyElf.Driver.C17
import PyElf.Driver.C03
import PyElf.Driver.C08
import PyElf.Driver.C14
import PyElf.Driver.C20
import PyElf.Driver.C13
import PyElf.Driver.C06
import PyElf.Driver.C12
import PyElf.Driver.C01
open Lean
namespace PyElf

def handle (req : Json) : Except String Json := do
  let p ← jStr req "p"
  match p with
  | "con" => handleCon req
  | "C16" => Driver.C16.handle req
  | "tie" => Driver.Tie.handle req
  | "C11" => Driver.C11.handle req
  | "C10" => Driver.C10.handle req
  | "C02" => Driver.C02.handle req
  | "C04" => Driver.C04.handle req
  | "C09" => Driver.C09.handle req
  | "C05" => Driver.C05.handle req
  | "C07" => Driver.C07.handle req
  | "C15" => Driver.C15.handle req
  | "C17" => Driver.C17.handle req
  | "C03" => Driver.C03.handle req
  | "C08" => Driver.C08.handle req
  | "C14" => Driver.C14.handle req
  | "C20" => Driver.C20.handle req
  | "C13" => Driver.C13.handle req
  | "C06" => Driver.C06.handle req
  | "C12" => Driver.C12.handle req
  | "C01" => Driver.C01.handle req
  | _ => throw s!"unknown property {p}"

end PyElf
