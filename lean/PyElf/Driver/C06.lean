import PyElf.Driver.Json
import PyElf.Spec.CFI
import PyElf.Model.CallFrame
import PyElf.Model.Env
import PyElf.Gen.Extra_C06
open Lean
namespace PyElf.Driver.C06
open PyElf PyElf.Spec

def jNatAt (a : Array Json) (i : Nat) : Except String Nat :=
  match a[i]? with
  | some j => jNatOf j
  | none => throw "operand missing"

def jIntAt (a : Array Json) (i : Nat) : Except String Int :=
  match a[i]? with
  | some j => jIntOf j
  | none => throw "operand missing"

def jULeb (a : Array Json) (i : Nat) : Except String ULeb :=
  match a[i]? with
  | some (.arr #[n, v]) => do return ⟨← jNatOf n, ← jNatOf v⟩
  | _ => throw "bad uleb operand"

def jSLeb (a : Array Json) (i : Nat) : Except String SLeb :=
  match a[i]? with
  | some (.arr #[n, v]) => do return ⟨← jNatOf n, ← jIntOf v⟩
  | _ => throw "bad sleb operand"

def jBlock (a : Array Json) (i : Nat) : Except String Block :=
  match a[i]? with
  | some (.arr #[n, .str h]) => do
      match Bytes.ofHex h with
      | some b => return ⟨← jNatOf n, b⟩
      | none => throw "bad block hex"
  | _ => throw "bad block operand"

def jCfa (j : Json) : Except String Cfa := do
  let .arr a := j | throw "instruction: not an array"
  let m ← match a[0]? with
    | some (Json.str m) => pure m
    | _ => throw "instruction: no mnemonic"
  match m with
  | "advance_loc" => return .advance_loc (← jNatAt a 1)
  | "offset" => return .offset (← jNatAt a 1) (← jULeb a 2)
  | "restore" => return .restore (← jNatAt a 1)
  | "nop" => return .nop
  | "set_loc" => return .set_loc (← jNatAt a 1)
  | "advance_loc1" => return .advance_loc1 (← jNatAt a 1)
  | "advance_loc2" => return .advance_loc2 (← jNatAt a 1)
  | "advance_loc4" => return .advance_loc4 (← jNatAt a 1)
  | "offset_extended" => return .offset_extended (← jULeb a 1) (← jULeb a 2)
  | "restore_extended" => return .restore_extended (← jULeb a 1)
  | "undefined" => return .undefined (← jULeb a 1)
  | "same_value" => return .same_value (← jULeb a 1)
  | "register" => return .register (← jULeb a 1) (← jULeb a 2)
  | "remember_state" => return .remember_state
  | "restore_state" => return .restore_state
  | "def_cfa" => return .def_cfa (← jULeb a 1) (← jULeb a 2)
  | "def_cfa_register" => return .def_cfa_register (← jULeb a 1)
  | "def_cfa_offset" => return .def_cfa_offset (← jULeb a 1)
  | "def_cfa_expression" => return .def_cfa_expression (← jBlock a 1)
  | "expression" => return .expression (← jULeb a 1) (← jBlock a 2)
  | "offset_extended_sf" => return .offset_extended_sf (← jULeb a 1) (← jSLeb a 2)
  | "def_cfa_sf" => return .def_cfa_sf (← jULeb a 1) (← jSLeb a 2)
  | "def_cfa_offset_sf" => return .def_cfa_offset_sf (← jSLeb a 1)
  | "val_offset" => return .val_offset (← jULeb a 1) (← jULeb a 2)
  | "val_offset_sf" => return .val_offset_sf (← jULeb a 1) (← jSLeb a 2)
  | "val_expression" => return .val_expression (← jULeb a 1) (← jBlock a 2)
  | "negate_ra_state" => return .negate_ra_state
  | "gnu_args_size" => return .gnu_args_size (← jULeb a 1)
  | _ => throw s!"unknown mnemonic {m}"

def jInstrs (j : Json) (k : String) : Except String (List Cfa) := do
  (← jArr j k).mapM jCfa

def jAugItem (j : Json) : Except String AugItem := do
  let .arr a := j | throw "aug item: not an array"
  match a[0]? with
  | some (.str "R") => return .R (← jNatAt a 1)
  | some (.str "L") => return .L (← jNatAt a 1)
  | some (.str "P") => return .P (← jNatAt a 1) (← jIntAt a 2)
  | some (.str "S") => return .S
  | _ => throw "bad aug item"

def jPairU (j : Json) (k : String) : Except String ULeb := do
  match ← j.getObjVal? k with
  | .arr #[n, v] => return ⟨← jNatOf n, ← jNatOf v⟩
  | _ => throw s!"{k}: bad uleb"

def jPairS (j : Json) (k : String) : Except String SLeb := do
  match ← j.getObjVal? k with
  | .arr #[n, v] => return ⟨← jNatOf n, ← jIntOf v⟩
  | _ => throw s!"{k}: bad sleb"

def jEntry (j : Json) : Except String Entry := do
  let t ← jStr j "t"
  match t with
  | "zero" => return .zero
  | "cie" =>
    let aug ← match j.getObjVal? "aug" with
      | .ok (.arr items) => do pure (some (← items.toList.mapM jAugItem))
      | _ => pure none
    return .cie { fmt64 := ← jBool j "f64", version := ← jNat j "ver", aug := aug, augLenN := ← jNat j "auglenN",
                  addrSize := ← jNat j "asz", segSize := ← jNat j "seg", caf := ← jPairU j "caf",
                  daf := ← jPairS j "daf", ra := ← jPairU j "ra", instrs := ← jInstrs j "ins" }
  | "fde" =>
    return .fde { fmt64 := ← jBool j "f64", cie := ← jNat j "cie", loc := ← jInt j "loc", range := ← jInt j "range",
                  lsda := ← jInt j "lsda", augLenN := ← jNat j "auglenN", instrs := ← jInstrs j "ins" }
  | _ => throw s!"unknown entry type {t}"

def jSection (j : Json) : Except String Section := do
  return { eh := ← jBool j "eh", le := ← jBool j "le", asz := ← jNat j "asz", address := ← jNat j "address",
           entries := ← (← jArr j "entries").mapM jEntry }

/-- the model with the REGENERATED tables and struct bundles -/
def mkCfi (eh le : Bool) (asz : Nat) (address : Int) (data : Bytes) : Model.Cfi :=
  { T := Gen.cfiTables,
    structs := fun fmt =>
      match Model.dwarfStructsFor ⟨le, fmt, asz, 2⟩ with
      | some S => .ok S
      | none => .error .assertion,           -- DWARFStructs.__new__ asserts format and address size
    env := { enumDecode := Model.genEnumDecode, forms := fun _ => none },
    data := data, address := address, eh := eh }

def runModel (eh le : Bool) (asz : Nat) (address : Int) (data : Bytes) (size : Nat) : Json :=
  let C := mkCfi eh le asz address data
  resJson (fun es => Json.arr (es.map fun e => (Model.Entry.toVal C.T e).toJson).toArray) (Model.parseEntries C size)

def handle (req : Json) : Except String Json := do
  let k ← jStr req "k"
  match k with
  | "ast" =>
    let sec ← jSection (← req.getObjVal? "sec")
    let data := encodeSection sec
    return Json.mkObj [("bytes", jHexOf data), ("wf", Json.bool sec.wf),
                       ("expect", (observeSection sec).toJson),
                       ("model", runModel sec.eh sec.le sec.asz sec.address data data.length)]
  | "raw" =>
    let data ← jHex req "hex"
    let size := (jNat req "size").toOption.getD data.length
    return Json.mkObj [("model", runModel (← jBool req "eh") (← jBool req "le") (← jNat req "asz")
                                  (← jInt req "address") data size)]
  | "instrs" =>
    -- an instruction list alone: bytes, the split the property prescribes, the model's split
    let le ← jBool req "le"; let asz ← jNat req "asz"
    let is ← jInstrs req "ins"
    let pre ← jHex req "pre"; let rest ← jHex req "rest"
    let enc := encInstrs le asz is
    let data := pre ++ enc ++ rest
    let C := mkCfi false le asz 0 data
    let m : R (List Model.Instr × Nat) := do
      let S ← C.structs 32
      Model.parseInstructions C.T S C.env data (pre.length + enc.length) (data.length + 1) pre.length
    return Json.mkObj [("bytes", jHexOf data), ("wf", Json.bool (is.all (Cfa.wf asz))),
                       ("expect", Json.mkObj [("v", (Val.list (is.map instrObs)).toJson), ("pos", jN (pre.length + enc.length))]),
                       ("model", resJson (fun (r : List Model.Instr × Nat) =>
                          Json.mkObj [("v", (Val.list (r.1.map Model.Instr.toVal)).toJson), ("pos", jN r.2)]) m)]
  | _ => throw s!"C06: unknown kind {k}"

end PyElf.Driver.C06
