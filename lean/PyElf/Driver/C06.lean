import PyElf.Driver.Json
import PyElf.Spec.CFI
import PyElf.Spec.CFIEhSetLoc
import PyElf.Model.CallFrame
import PyElf.Model.CallFrameFile
import PyElf.Model.Env
import PyElf.Gen.Extra_C06
import PyElf.Gen.Extra_C11
open Lean
namespace PyElf.Driver.C06
open PyElf PyElf.Spec

def jNatAt (a : Array Json) (i : Nat) : Except String Nat :=
  match a[i]? with
  | some j => jNatOf j
  | none => throw "operand missing"

def jIntAt (a : Array Json) (i : Nat) : Except String Int :=
  match a[i]? with
  | some j => jIntOf j
  | none => throw "operand missing"

def jULeb (a : Array Json) (i : Nat) : Except String ULeb :=
  match a[i]? with
  | some (.arr #[n, v]) => do return ⟨← jNatOf n, ← jNatOf v⟩
  | _ => throw "bad uleb operand"

def jSLeb (a : Array Json) (i : Nat) : Except String SLeb :=
  match a[i]? with
  | some (.arr #[n, v]) => do return ⟨← jNatOf n, ← jIntOf v⟩
  | _ => throw "bad sleb operand"

def jBlock (a : Array Json) (i : Nat) : Except String Block :=
  match a[i]? with
  | some (.arr #[n, .str h]) => do
      match Bytes.ofHex h with
      | some b => return ⟨← jNatOf n, b⟩
      | none => throw "bad block hex"
  | _ => throw "bad block operand"

def jCfa (j : Json) : Except String Cfa := do
  let .arr a := j | throw "instruction: not an array"
  let m ← match a[0]? with
    | some (Json.str m) => pure m
    | _ => throw "instruction: no mnemonic"
  match m with
  | "advance_loc" => return .advance_loc (← jNatAt a 1)
  | "offset" => return .offset (← jNatAt a 1) (← jULeb a 2)
  | "restore" => return .restore (← jNatAt a 1)
  | "nop" => return .nop
  | "set_loc" => return .set_loc (← jNatAt a 1)
  | "advance_loc1" => return .advance_loc1 (← jNatAt a 1)
  | "advance_loc2" => return .advance_loc2 (← jNatAt a 1)
  | "advance_loc4" => return .advance_loc4 (← jNatAt a 1)
  | "offset_extended" => return .offset_extended (← jULeb a 1) (← jULeb a 2)
  | "restore_extended" => return .restore_extended (← jULeb a 1)
  | "undefined" => return .undefined (← jULeb a 1)
  | "same_value" => return .same_value (← jULeb a 1)
  | "register" => return .register (← jULeb a 1) (← jULeb a 2)
  | "remember_state" => return .remember_state
  | "restore_state" => return .restore_state
  | "def_cfa" => return .def_cfa (← jULeb a 1) (← jULeb a 2)
  | "def_cfa_register" => return .def_cfa_register (← jULeb a 1)
  | "def_cfa_offset" => return .def_cfa_offset (← jULeb a 1)
  | "def_cfa_expression" => return .def_cfa_expression (← jBlock a 1)
  | "expression" => return .expression (← jULeb a 1) (← jBlock a 2)
  | "offset_extended_sf" => return .offset_extended_sf (← jULeb a 1) (← jSLeb a 2)
  | "def_cfa_sf" => return .def_cfa_sf (← jULeb a 1) (← jSLeb a 2)
  | "def_cfa_offset_sf" => return .def_cfa_offset_sf (← jSLeb a 1)
  | "val_offset" => return .val_offset (← jULeb a 1) (← jULeb a 2)
  | "val_offset_sf" => return .val_offset_sf (← jULeb a 1) (← jSLeb a 2)
  | "val_expression" => return .val_expression (← jULeb a 1) (← jBlock a 2)
  | "negate_ra_state" => return .negate_ra_state
  | "gnu_args_size" => return .gnu_args_size (← jULeb a 1)
  | _ => throw s!"unknown mnemonic {m}"

def jInstrs (j : Json) (k : String) : Except String (List Cfa) := do
  (← jArr j k).mapM jCfa

def jAugItem (j : Json) : Except String AugItem := do
  let .arr a := j | throw "aug item: not an array"
  match a[0]? with
  | some (.str "R") => return .R (← jNatAt a 1)
  | some (.str "L") => return .L (← jNatAt a 1)
  | some (.str "P") => return .P (← jNatAt a 1) (← jIntAt a 2)
  | some (.str "S") => return .S
  | _ => throw "bad aug item"

def jPairU (j : Json) (k : String) : Except String ULeb := do
  match ← j.getObjVal? k with
  | .arr #[n, v] => return ⟨← jNatOf n, ← jNatOf v⟩
  | _ => throw s!"{k}: bad uleb"

def jPairS (j : Json) (k : String) : Except String SLeb := do
  match ← j.getObjVal? k with
  | .arr #[n, v] => return ⟨← jNatOf n, ← jIntOf v⟩
  | _ => throw s!"{k}: bad sleb"

def jEntry (j : Json) : Except String Entry := do
  let t ← jStr j "t"
  match t with
  | "zero" => return .zero
  | "cie" =>
    let aug ← match j.getObjVal? "aug" with
      | .ok (.arr items) => do pure (some (← items.toList.mapM jAugItem))
      | _ => pure none
    return .cie { fmt64 := ← jBool j "f64", version := ← jNat j "ver", aug := aug, augLenN := ← jNat j "auglenN",
                  addrSize := ← jNat j "asz", segSize := ← jNat j "seg", caf := ← jPairU j "caf",
                  daf := ← jPairS j "daf", ra := ← jPairU j "ra", instrs := ← jInstrs j "ins" }
  | "fde" =>
    return .fde { fmt64 := ← jBool j "f64", cie := ← jNat j "cie", loc := ← jInt j "loc", range := ← jInt j "range",
                  lsda := ← jInt j "lsda", augLenN := ← jNat j "auglenN", instrs := ← jInstrs j "ins" }
  | _ => throw s!"unknown entry type {t}"

def jSection (j : Json) : Except String Section := do
  return { eh := ← jBool j "eh", le := ← jBool j "le", asz := ← jNat j "asz", address := ← jNat j "address",
           entries := ← (← jArr j "entries").mapM jEntry }

/-- the model with the REGENERATED tables and struct bundles -/
def mkCfi (eh le : Bool) (asz : Nat) (address : Int) (data : Bytes) : Model.Cfi :=
  { T := Gen.cfiTables,
    structs := fun fmt =>
      match Model.dwarfStructsFor ⟨le, fmt, asz, 2⟩ with
      | some S => .ok S
      | none => .error .assertion,           -- DWARFStructs.__new__ asserts format and address size
    env := { enumDecode := Model.genEnumDecode, forms := fun _ => none },
    data := data, address := address, eh := eh }

def runModel (eh le : Bool) (asz : Nat) (address : Int) (data : Bytes) (size : Nat) : Json :=
  let C := mkCfi eh le asz address data
  resJson (fun es => Json.arr (es.map fun e => (Model.Entry.toVal C.T e).toJson).toArray) (Model.parseEntries C size)

/-! ### whole files: `ELFFile(BytesIO(data)).get_dwarf_info(…)` then the CFI accessors -/

/-- the container model with the REGENERATED bundles / tables; zlib is a table sent with the request (an
    oracle miss is answered with bytes the library never produces); no link is followed to a file, so the
    CRC is never asked -/
def fileParams (zl : List (Bytes × Nat × Option Bytes)) : Model.C11.Params :=
  { env := Model.elfEnv, structsFor := Model.elfStructsFor, machineClassOf := Model.machineClassOf,
    machineArchOf := Model.Reloc.machineArchOf, dwarfStructsFor := Model.dwarfStructsFor,
    names := Gen.c11SectionNames,
    X := { decompress := fun d k =>
             match zl.find? (fun e => e.2.1 == k && e.1 == d) with
             | some e => e.2.2
             | none => some "ORACLE-MISS".toUTF8.toList,
           crc32 := fun _ => 0 } }

def vRes {α} (f : α → Json) : Model.C11.V α → Json
  | .ok v => Json.mkObj [("ok", f v)]
  | .error e => Json.mkObj [("err", Json.str e.name)]

def entriesJson (es : List Model.Entry) : Json :=
  Json.arr (es.map fun e => (Model.Entry.toVal Gen.cfiTables e).toJson).toArray

def handle (req : Json) : Except String Json := do
  let k ← jStr req "k"
  match k with
  | "file" =>
    let data ← jHex req "hex"
    let zl ← (← jArr req "zlib").mapM fun j => do
      match j with
      | .arr #[.str d, kk, out] =>
        let some d := Bytes.ofHex d | throw "bad zlib hex"
        let o ← match out with
          | .null => pure none
          | .str h => match Bytes.ofHex h with
              | some b => pure (some b)
              | none => throw "bad zlib out hex"
          | _ => throw "bad zlib out"
        return (d, ← jNatOf kk, o)
      | _ => throw "bad zlib entry"
    let P := fileParams zl
    let relocate ← jBool req "relocate"
    let follow ← jBool req "follow"
    return Json.mkObj [
      ("has_cfi", vRes Json.bool (Model.C06.fileHasCFI P 4 none data relocate follow)),
      ("has_eh", vRes Json.bool (Model.C06.fileHasEHCFI P 4 none data relocate follow)),
      ("cfi", vRes entriesJson (Model.C06.fileCfiEntries Gen.cfiTables P 4 none data relocate follow)),
      ("eh", vRes entriesJson (Model.C06.fileEhCfiEntries Gen.cfiTables P 4 none data relocate follow))]
  | "ast" =>
    let sec ← jSection (← req.getObjVal? "sec")
    let data := encodeSection sec
    return Json.mkObj [("bytes", jHexOf data), ("wf", Json.bool sec.wf),
                       ("expect", (observeSection sec).toJson),
                       ("model", runModel sec.eh sec.le sec.asz sec.address data data.length)]
  | "raw" =>
    let data ← jHex req "hex"
    let size := (jNat req "size").toOption.getD data.length
    return Json.mkObj [("model", runModel (← jBool req "eh") (← jBool req "le") (← jNat req "asz")
                                  (← jInt req "address") data size)]
  | "setloc" =>
    -- an `.eh_frame` instruction list as the LSB encodes it (DW_CFA_set_loc under FDE pointer encoding `enc`): bytes,
    -- the split the LSB prescribes (opcode bytes), whether it is in the excluded class, the model's split
    let le ← jBool req "le"; let asz ← jNat req "asz"; let enc ← jNat req "enc"
    let is ← jInstrs req "ins"
    let pre ← jHex req "pre"; let rest ← jHex req "rest"
    let body := Spec.C06.encInstrsEh le asz enc is
    let data := pre ++ body ++ rest
    let C := mkCfi true le asz 0 data
    let m : R (List Model.Instr × Nat) := do
      let S ← C.structs 32
      Model.parseInstructions C.T S C.env data (pre.length + body.length) (data.length + 1) pre.length
    let hasSetLoc := is.any fun i => match i with | .set_loc _ => true | _ => false
    let widths := is.filterMap fun i => match i with
      | .set_loc a => some (encPtr le asz (enc % 16) (a : Int)).length
      | _ => none
    return Json.mkObj [("bytes", jHexOf data), ("wf", Json.bool (is.all (Cfa.wf asz))),
                       ("in_class", Json.bool (hasSetLoc && enc != 0)),
                       ("same_width", Json.bool (widths.all (· == asz))),
                       ("lsb_opcodes", Json.arr (is.map fun i => jN i.opcode).toArray),
                       ("dwarf", (Val.list (is.map instrObs)).toJson), ("end", jN (pre.length + body.length)),
                       ("model", resJson (fun (r : List Model.Instr × Nat) =>
                          Json.mkObj [("v", (Val.list (r.1.map Model.Instr.toVal)).toJson), ("pos", jN r.2)]) m)]
  | "instrs" =>
    -- an instruction list alone: bytes, the split the property prescribes, the model's split
    let le ← jBool req "le"; let asz ← jNat req "asz"
    let is ← jInstrs req "ins"
    let pre ← jHex req "pre"; let rest ← jHex req "rest"
    let enc := encInstrs le asz is
    let data := pre ++ enc ++ rest
    let C := mkCfi false le asz 0 data
    let m : R (List Model.Instr × Nat) := do
      let S ← C.structs 32
      Model.parseInstructions C.T S C.env data (pre.length + enc.length) (data.length + 1) pre.length
    return Json.mkObj [("bytes", jHexOf data), ("wf", Json.bool (is.all (Cfa.wf asz))),
                       ("expect", Json.mkObj [("v", (Val.list (is.map instrObs)).toJson), ("pos", jN (pre.length + enc.length))]),
                       ("model", resJson (fun (r : List Model.Instr × Nat) =>
                          Json.mkObj [("v", (Val.list (r.1.map Model.Instr.toVal)).toJson), ("pos", jN r.2)]) m)]
  | _ => throw s!"C06: unknown kind {k}"

end PyElf.Driver.C06
