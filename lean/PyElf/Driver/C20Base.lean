import PyElf.Driver.Json
import PyElf.Spec.Attributes
import PyElf.Spec.Ehabi
import PyElf.Model.Env
import PyElf.Model.Attributes
import PyElf.Model.Ehabi
import PyElf.Model.AttrHistory
import PyElf.Spec.AttrMalformed
open Lean
namespace PyElf.Driver.C20
open PyElf PyElf.Spec

/-! JSON → Spec ASTs -/

def jU (j : Json) : Except String Attr.U :=
  match j with
  | .arr #[v, n] => do return ⟨← jNatOf v, ← jNatOf n⟩
  | _ => throw "U: expected [v, n]"

def jHexOf' (j : Json) : Except String Bytes :=
  match j with
  | .str s => match Bytes.ofHex s with
    | some b => .ok b
    | none => throw "bad hex"
  | _ => throw "expected hex string"

def jSimple (j : Json) : Except String Attr.Simple := do
  match j.getObjVal? "i" with
  | .ok u => return .int (← jU u)
  | .error _ =>
    match j.getObjVal? "s" with
    | .ok s => return .str (← jHexOf' s)
    | .error _ => throw "simple: expected i or s"

def jValue (j : Json) : Except String Attr.Value := do
  match j.getObjVal? "c" with
  | .ok (.arr #[f, v]) => return .compat (← jU f) (← jHexOf' v)
  | _ =>
    match j.getObjVal? "a" with
    | .ok (.arr #[t, x]) => return .also (← jU t) (← jSimple x)
    | _ => return .simple (← jSimple j)

def jAttr (j : Json) : Except String Attr.Attribute := do
  return ⟨← jU (← j.getObjVal? "t"), ← jValue (← j.getObjVal? "v")⟩

def jSubSub (j : Json) : Except String Attr.SubSub := do
  let nums ← (← jArr j "nums").mapM jU
  let attrs ← (← jArr j "attrs").mapM jAttr
  return ⟨← jU (← j.getObjVal? "t"), nums, attrs⟩

def jSubSection (j : Json) : Except String Attr.SubSection := do
  return ⟨← jHex j "vendor", ← (← jArr j "subs").mapM jSubSub⟩

def jArch (req : Json) : Except String Attr.Arch := do
  match ← jStr req "arch" with
  | "arm" => return .arm
  | "riscv" => return .riscv
  | a => throw s!"arch {a}"

def jByte3 (j : Json) (k : String) : Except String (UInt8 × UInt8 × UInt8) := do
  match ← jHex j k with
  | [a, b, c] => return (a, b, c)
  | _ => throw "expected 3 bytes"

def jEntry (j : Json) : Except String Ehabi.Entry := do
  let fn ← jInt j "fn"
  match ← jStr j "k" with
  | "cant" => return .cantUnwind fn
  | "inline" => let (a, b, c) ← jByte3 j "b"; return .inline fn a b c
  | "generic" => return .table fn (.generic (← jInt j "pers"))
  | "su16" => let (a, b, c) ← jByte3 j "b"; return .table fn (.su16 a b c)
  | "long" =>
    match ← jHex j "b" with
    | [a, b] =>
      let more ← (← jArr j "more").mapM jHexOf'
      return .table fn (.long (← jNat j "idx") a b more)
    | _ => throw "expected 2 bytes"
  | k => throw s!"entry kind {k}"

/-! replies -/

def mnJson : Option (List (Bytes × String)) → Json
  | none => Json.null
  | some l => Json.arr (l.map fun (b, m) => Json.arr #[jHexOf b, Json.str m]).toArray

def codeOfVal : Val → Option Bytes
  | .list xs => some (xs.filterMap fun v => match v with
      | .int n => some (UInt8.ofNat n.toNat)
      | _ => none)
  | _ => none

/-- entry + `mnmemonic_array()` in the order the harness observes them -/
def entryWithMn (le : Bool) (data : Bytes) (shOffset shSize n : Nat) : R Json := do
  let some H := Model.ehabiStructsFor le | .error .keyError
  let e ← Model.Ehabi.getEntry Model.elfEnv H data shOffset shSize n
  let code := match e.getField "bytecode_array" with
    | .ok v => codeOfVal v
    | .error _ => none
  let mn ← Model.Ehabi.mnemonicArray Gen.ehabiRing code
  return Json.mkObj [("entry", e.toJson), ("mn", mnJson mn)]

def handleBase (req : Json) : Except String Json := do
  let k ← jStr req "k"
  match k with
  | "attr_enc" =>
    -- Spec encoder: abstract section → its bytes, well-formedness, what must be observed
    let arch ← jArch req
    let le ← jBool req "le"
    let sec ← (← jArr req "sec").mapM jSubSection
    let bytes := Attr.encSection le sec
    -- `bad`: the first malformation is an unknown tag (`attrs_unknown_tag`: ELFParseError)
    return Json.mkObj [("bytes", jHexOf bytes), ("wf", Json.bool (Attr.sectionWf arch le sec)),
                       ("bad", Json.bool (Spec.C20.sectionUnknownTag arch le sec)),
                       ("expect", (Attr.obsSection arch le sec).toJson)]
  | "attr_raw" =>
    -- model on a file image
    let arch ← jArch req
    let le ← jBool req "le"
    let cls ← jNat req "cls"
    let data ← jHex req "hex"
    let off ← jNat req "off"
    let size ← jNat req "size"
    let mclass := match arch with | .arm => "EM_ARM" | .riscv => "EM_RISCV"
    match Model.elfStructsFor ⟨le, cls, mclass, false, false⟩ with
    | none => throw "no such elf bundle"
    | some S =>
      let r := Model.Attr.attributesSection arch Model.elfEnv S data off size
      -- the same section observed levelwise (all subsections, then all sub-subsections, then the attributes)
      let lv := Model.C20.levelwise Model.elfEnv S data arch off size
      return Json.mkObj [("model", resJson Val.toJson r), ("levelwise", resJson Val.toJson lv),
                         ("utf8", Json.bool Gen.attrNtbsUtf8)]
  | "ehabi_enc" =>
    let le ← jBool req "le"
    let es ← (← jArr req "entries").mapM jEntry
    let exidxOff ← jNat req "exidx_off"
    let tab0 ← jNat req "tab0"
    let tabs := Ehabi.tableOffsets tab0 es
    let exidx := Ehabi.encExidxFrom le exidxOff es tabs
    let extab := Ehabi.encWords le (es.flatMap Ehabi.Entry.tableWords)
    let places := (List.range es.length).map fun i => exidxOff + 8 * i
    let expect := (es.zip (places.zip tabs)).map fun (e, p, t) =>
      let codeOk := match e.code with
        | some c => (Ehabi.ehabiStd c).isSome
        | none => true
      Json.mkObj [("entry", (Ehabi.obsEntry e p t).toJson),
                  ("mn", match e.code with
                         | some c => mnJson (Ehabi.ehabiStd c)
                         | none => Json.null),
                  ("wf", Json.bool (Ehabi.entryWf e && codeOk
                      && Ehabi.dispOk ((t : Int) - ((p : Int) + 4))))]
    return Json.mkObj [("exidx", jHexOf exidx), ("extab", jHexOf extab), ("expect", Json.arr expect.toArray)]
  | "ehabi_raw" =>
    let le ← jBool req "le"
    let data ← jHex req "hex"
    let off ← jNat req "off"
    let size ← jNat req "size"
    let ns ← (← jArr req "ns").mapM jNatOf
    let rs := ns.map fun n => resJson id (entryWithMn le data off size n)
    -- the classification the EHABI prescribes, read directly off the words (reference decoder)
    let std := ns.map fun n =>
      match Ehabi.decodeEntry (Ehabi.wordAt le data) (off + 8 * n) with
      | some d => (Ehabi.obsDecoded d).toJson
      | none => Json.null
    return Json.mkObj [("model", Json.arr rs.toArray), ("std", Json.arr std.toArray)]
  | "bc" =>
    let code ← jHex req "hex"
    let m := Model.Ehabi.decode Gen.ehabiRing code
    return Json.mkObj [("model", resJson (fun l => mnJson (some l)) m), ("std", mnJson (Ehabi.ehabiStd code))]
  | "prel31" =>
    let w ← jNat req "w"
    let place ← jNat req "place"
    return Json.mkObj [("model", jI (Gen.Pure.arm_expand_prel31 w place)), ("std", jN (Ehabi.expand w place))]
  | _ => throw s!"C20: unknown kind {k}"

end PyElf.Driver.C20
