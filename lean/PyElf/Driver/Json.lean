/-
  JSON glue for the line-protocol driver (not part of the model; no theorem mentions it).
-/
import Lean.Data.Json
import PyElf.Core.Construct
open Lean
namespace PyElf

partial def Val.toJson : Val → Json
  | .int n => Json.num (JsonNumber.fromInt n)
  | .str s => Json.str s
  | .bytes b => Json.mkObj [("b", Json.str b.toHex)]
  | .bool b => Json.bool b
  | .none => Json.null
  | .list xs => Json.arr (xs.map Val.toJson).toArray
  | .record fs => Json.mkObj [("r", Json.arr (fs.map fun (k, v) => Json.arr #[Json.str k, v.toJson]).toArray)]

partial def Val.ofJson : Json → Except String Val
  | .null => .ok .none
  | .bool b => .ok (.bool b)
  | .num n => if n.exponent = 0 then .ok (.int n.mantissa) else .error "non-integer number"
  | .str s => .ok (.str s)
  | .arr xs => do
      let vs ← xs.toList.mapM Val.ofJson
      return .list vs
  | .obj o => do
      match o.get? "b" with
      | some (.str h) =>
        match Bytes.ofHex h with
        | some b => return .bytes b
        | Option.none => .error "bad hex"
      | _ =>
        match o.get? "r" with
        | some (.arr fs) =>
          let kvs ← fs.toList.mapM fun f =>
            match f with
            | .arr #[.str k, v] => do return (k, ← Val.ofJson v)
            | _ => .error "bad record entry"
          return .record kvs
        | _ => .error "bad object"

def resJson {α} (f : α → Json) : R α → Json
  | .ok v => Json.mkObj [("ok", f v)]
  | .error e => Json.mkObj [("err", Json.str e.name)]

def jNat (j : Json) (k : String) : Except String Nat := do
  let v ← j.getObjVal? k
  match v with
  | .num n => if n.exponent = 0 ∧ n.mantissa ≥ 0 then .ok n.mantissa.toNat else .error s!"{k}: not a natural"
  | _ => .error s!"{k}: not a number"

def jInt (j : Json) (k : String) : Except String Int := do
  let v ← j.getObjVal? k
  match v with
  | .num n => if n.exponent = 0 then .ok n.mantissa else .error s!"{k}: not an integer"
  | _ => .error s!"{k}: not a number"

def jStr (j : Json) (k : String) : Except String String := do
  let v ← j.getObjVal? k
  match v with
  | .str s => .ok s
  | _ => .error s!"{k}: not a string"

def jBool (j : Json) (k : String) : Except String Bool := do
  let v ← j.getObjVal? k
  match v with
  | .bool b => .ok b
  | _ => .error s!"{k}: not a bool"

def jHex (j : Json) (k : String) : Except String Bytes := do
  let s ← jStr j k
  match Bytes.ofHex s with
  | some b => .ok b
  | none => .error s!"{k}: bad hex"

def jArr (j : Json) (k : String) : Except String (List Json) := do
  let v ← j.getObjVal? k
  match v with
  | .arr a => .ok a.toList
  | _ => .error s!"{k}: not an array"

def jNatOf : Json → Except String Nat
  | .num n => if n.exponent = 0 ∧ n.mantissa ≥ 0 then .ok n.mantissa.toNat else .error "not a natural"
  | _ => .error "not a number"

def jIntOf : Json → Except String Int
  | .num n => if n.exponent = 0 then .ok n.mantissa else .error "not an integer"
  | _ => .error "not a number"

def jN (n : Nat) : Json := Json.num (JsonNumber.fromNat n)
def jI (n : Int) : Json := Json.num (JsonNumber.fromInt n)
def jHexOf (b : Bytes) : Json := Json.str b.toHex

end PyElf
