import PyElf.Driver.Json
import PyElf.Spec.Reloc
import PyElf.Spec.RelocFile
import PyElf.Model.Relocation
import PyElf.Model.RelocationFile
import PyElf.Model.RelrCache
import PyElf.Model.Env
import PyElf.Gen.Extra_C11
open Lean
namespace PyElf.Driver.C08
open PyElf PyElf.Spec PyElf.Model PyElf.Model.Reloc

def jOptNat (j : Json) (k : String) (d : Nat) : Nat := (jNat j k).toOption.getD d
def jOptInt (j : Json) (k : String) (d : Int) : Int := (jInt j k).toOption.getD d

def entryOf (j : Json) : Except String RelEntry := do
  return { offset := ← jNat j "offset", sym := ← jNat j "sym", type := ← jNat j "type",
           addend := jOptInt j "addend" 0, ssym := jOptNat j "ssym" 0, type2 := jOptNat j "type2" 0,
           type3 := jOptNat j "type3" 0 }

def entriesOf (req : Json) (k : String) : Except String (List RelEntry) := do
  (← jArr req k).mapM entryOf

def natsOf (req : Json) (k : String) : Except String (List Nat) := do
  (← jArr req k).mapM jNatOf

/-- EM_MIPS = 8 in the gABI registry -/
def relCfgOf (req : Json) : Except String RelCfg := do
  return { le := ← jBool req "le", cls := ← jNat req "cls", mips := (← jNat req "machine") = 8 }

/-- the regenerated bundle the library would build for this file, and the decoded `e_machine` -/
def bundleOf (req : Json) : Except String (ElfStructs × Val × Bool × Nat) := do
  let le ← jBool req "le"
  let cls ← jNat req "cls"
  let m ← jNat req "machine"
  let mv : Val := match genEnumDecode "ENUM_E_MACHINE" m with
    | some s => .str s
    | none => .int m
  match elfStructsFor ⟨le, cls, machineClassOf mv, false, false⟩ with
  | some S => return (S, mv, le, cls)
  | none => throw "no bundle for this configuration"

def natList (xs : List Nat) : Json := Json.arr (xs.map jN).toArray
def valList (xs : List Val) : Json := Json.arr (xs.map Val.toJson).toArray

def relTableObs (data : Bytes) (t : RelocTable) (gets : List Nat) : Json :=
  Json.mkObj [("num", resJson jN (numRelocations t)), ("is_rela", Json.bool t.isRela),
              ("entries", resJson valList (iterRelocations elfEnv data t)),
              ("get", Json.arr (gets.map fun n => resJson Val.toJson (getRelocation elfEnv data t n)).toArray)]

def relrObs (data : Bytes) (t : RelrTable) : Json :=
  let r := relrIter elfEnv data t
  Json.mkObj [("offsets", resJson natList r), ("num", resJson (fun xs => jN xs.length) r)]

def secHdrOf (j : Json) : Except String SecHdr := do
  return { name := ← jStr j "name", shType := ← Val.ofJson (← j.getObjVal? "sh_type"),
           shOffset := ← jNat j "sh_offset", shSize := ← jNat j "sh_size", shEntsize := ← jNat j "sh_entsize",
           shLink := ← jNat j "sh_link" }

/-! ### whole files: the only input is the byte string -/

/-- the reader's parameters with the REGENERATED bundles and tables; no zlib (C08's images have no compressed
    sections: a decompression request is answered `zlib.error`, which the library would not raise — a correspondence
    failure, not agreement) -/
def genP : C11.Params :=
  { env := elfEnv, structsFor := elfStructsFor, machineClassOf := machineClassOf,
    machineArchOf := Reloc.machineArchOf, dwarfStructsFor := dwarfStructsFor,
    names := Gen.c11SectionNames, X := { decompress := fun _ _ => none, crc32 := fun _ => 0 } }

def vResJson {α} (f : α → Json) : C11.V α → Json
  | .ok v => Json.mkObj [("ok", f v)]
  | .error e => Json.mkObj [("err", Json.str e.name)]

def relObjObs (data : Bytes) (gets : List Nat) : C08.RelObj → Json
  | .rel t => Json.mkObj [("rel", relTableObs data t gets)]
  | .relr t => Json.mkObj [("relr", relrObs data t)]
  | .other k => Json.mkObj [("other", Json.str k)]

def bjson (b : Bytes) : Json := Json.mkObj [("b", Json.str b.toHex)]

/-- one operation on the opened file -/
def fileOp (data : Bytes) (f : R ElfFile) (op : Json) : Except String Json := do
  let what ← jStr op "op"
  let gets := (natsOf op "get").toOption.getD []
  match what with
  | "sec" =>
    let i ← jNat op "i"
    return resJson (relObjObs data gets) (do C08.getRelSection elfEnv (← f) i)
  | "byname" =>
    let name ← jHex op "name"
    return resJson (fun o => match o with
      | none => Json.null
      | some x => relObjObs data gets x) (do C08.getRelSectionByName elfEnv (← f) name)
  | "find" =>
    let target ← jHex op "target"
    return resJson (fun o => match o with
      | none => Json.null
      | some (i, s) => Json.arr #[jN i, bjson s.2.1, resJson jN (s.2.2.getNat "sh_offset")])
      (do C08.fileFindRelocations elfEnv (← f) target)
  | "apply" =>
    let target ← jHex op "target"
    let sec ← jHex op "section"
    return resJson (fun o => match o with
      | none => Json.null
      | some b => bjson b) (do C08.fileApplyFor genP (← f) target sec)
  | "dwarf" =>
    let relocate ← jBool op "relocate"
    let kw ← jStr op "kw"
    let r : C11.V (Option Bytes) := do
      let di ← C11.getDwarfInfo genP 2 none data relocate false
      return (C11.descrOf di.secs kw).map (·.stream)
    return vResJson (fun o => match o with
      | none => Json.null
      | some b => bjson b) r
  | _ => throw s!"C08 file op: unknown {what}"

/-- a description that carries only what the lookups of Spec/RelocFile.lean read: names, raw types, `sh_info` -/
def lookupDesc (secs : List (Bytes × Int × Nat)) : ElfDesc :=
  { cls := 64, le := true, mclass := "default", solaris := false, core := false, ehdr := [], shoff := 0, phoff := 0,
    shentsize := 0, phentsize := 0, segments := [], shstrndx := 0,
    sections := secs.map fun (nm, ty, info) =>
      { name := nm, hdr := [("sh_type", .int ty), ("sh_info", .int info)], body := none, nameOff := 0 } }

def optNat : Option Nat → Json
  | none => Json.null
  | some n => jN n

def handle (req : Json) : Except String Json := do
  let k ← jStr req "k"
  match k with
  | "file_api" =>
    -- ELFFile(BytesIO(data)) and a list of operations on it, everything decoded from the bytes
    let data ← jHex req "hex"
    let f := openElf elfEnv elfStructsFor machineClassOf data
    let ops ← jArr req "ops"
    return Json.mkObj [("model", Json.arr (← ops.mapM (fileOp data f)).toArray)]
  | "spec_find" =>
    -- the standard's lookups over a list of (name, raw sh_type, sh_info): by name, by sh_info, and the convention
    let secs ← (← jArr req "secs").mapM fun j => do
      match j with
      | .arr #[.str n, ty, info] =>
        match Bytes.ofHex n with
        | some nb => return (nb, ← jIntOf ty, ← jNatOf info)
        | none => throw "bad name hex"
      | _ => throw "bad section"
    let d := lookupDesc secs
    let target ← jHex req "target"
    let t ← jNat req "tindex"
    return Json.mkObj [("byname", optNat (Spec.C08.relSecByName d target)), ("byinfo", optNat (Spec.C08.relSecByInfo d t)),
      ("follows", Json.bool (Spec.C08.namesFollowInfo d t target)), ("last", optNat (d.indexOfName target))]
  | "enc_rel" =>
    -- abstract table → bytes (Spec encoder), the observation C08 prescribes, well-formedness
    let c ← relCfgOf req
    let rela ← jBool req "rela"
    let es ← entriesOf req "entries"
    return Json.mkObj [
      ("bytes", jHexOf (encRelTable c rela es)), ("entsize", jN (relEntSize c rela)),
      ("wf", Json.bool ((c.cls = 32 || c.cls = 64) && es.all (WFRel c rela))),
      ("expect", Json.mkObj [("num", jN es.length), ("is_rela", Json.bool rela),
                             ("entries", valList (es.map (observeRel c rela)))])]
  | "run_relsec" =>
    let (S, _, _, _) ← bundleOf req
    let data ← jHex req "hex"
    let shType ← Val.ofJson (← req.getObjVal? "sh_type")
    let gets := (natsOf req "get").toOption.getD []
    let r := relocSectionInit S shType (← jNat req "sh_offset") (← jNat req "sh_size") (← jNat req "sh_entsize")
    return Json.mkObj [("model", resJson (fun t => relTableObs data t gets) r)]
  | "enc_relr" =>
    let le ← jBool req "le"
    let cls ← jNat req "cls"
    let ws ← natsOf req "words"
    let w := cls / 8
    let std := relrStd w none ws
    return Json.mkObj [
      ("bytes", jHexOf (encRelr le w ws)), ("entsize", jN w),
      ("wf", Json.bool ((cls = 32 || cls = 64) && ws.all (fun x => decide (x < 2 ^ cls)) && std.isSome)),
      ("expect", match std with
        | some xs => Json.mkObj [("offsets", natList xs), ("num", jN xs.length)]
        | none => Json.null)]
  | "run_relr" =>
    let (S, _, _, _) ← bundleOf req
    let data ← jHex req "hex"
    let r := relrInit S (some (← jNat req "offset")) (← jNat req "size") (← jNat req "entsize")
    -- "hist": queries on ONE table object through the model of `_cached_relocations` (Model/RelrCache `relrHist`;
    -- Props/C08 `relr_cache_history_independent`): null = num_relocations(), an integer n = get_relocation(n)
    let qs : List RelrQ := match req.getObjVal? "hist" with
      | .ok (.arr a) => a.toList.filterMap fun j => match j with
          | .null => some RelrQ.num
          | _ => match j.getInt? with
                 | .ok n => some (RelrQ.get n)
                 | .error _ => none
      | _ => []
    let hist := resJson (fun t =>
      let h := relrHist elfEnv data t qs
      Json.mkObj [("answers", Json.arr (h.1.map (resJson jN)).toArray), ("cached", Json.bool h.2.map.isSome)]) r
    return Json.mkObj [("model", resJson (fun t => relrObs data t) r), ("hist", hist)]
  | "run_dyn" =>
    let (S, _, _, _) ← bundleOf req
    let data ← jHex req "hex"
    let loads ← (← jArr req "loads").mapM fun j => do
      match j with
      | .arr #[a, b, c] => return ((← jNatOf a, ← jNatOf b, ← jNatOf c) : Load)
      | _ => throw "bad load"
    let r : R (List (String × DynTable)) := do
      let tags ← iterTags elfEnv S data (← pure (jOptNat req "dyn_offset" 0)) ((jBool req "empty").toOption.getD false)
      getRelocationTables S tags loads
    return Json.mkObj [("model", resJson (fun ts => Json.arr (ts.map fun (nm, t) =>
        Json.arr #[Json.str nm, match t with
          | .rel t => relTableObs data t []
          | .relr t => relrObs data t]).toArray) r)]
  | "enc_apply" =>
    let c ← relCfgOf req
    let rela ← jBool req "rela"
    let m ← jNat req "machine"
    let es ← entriesOf req "relocs"
    let syms ← natsOf req "syms"
    let sec ← jHex req "section"
    let relbytes := encRelTable c rela es
    let symbytes := syms.flatMap (rel_encSym c.le c.cls)
    match archOfMachine m with
    | none =>
      return Json.mkObj [("relbytes", jHexOf relbytes), ("symbytes", jHexOf symbytes),
        ("relentsize", jN (relEntSize c rela)), ("symentsize", jN (symEntSize c.cls)),
        ("wf", Json.bool false), ("expect", Json.null)]
    | some a =>
      let wf := (c.cls = 32 || c.cls = 64) && WFApply a c rela syms sec.length es
      return Json.mkObj [("relbytes", jHexOf relbytes), ("symbytes", jHexOf symbytes),
        ("relentsize", jN (relEntSize c rela)), ("symentsize", jN (symEntSize c.cls)),
        ("wf", Json.bool wf),
        ("expect", match applyStd a c rela syms sec es with
          | some b => Json.mkObj [("ok", Json.mkObj [("b", Json.str b.toHex)])]
          | none => Json.mkObj [("err", Json.str "elfRelocError")]),
        ("expect_norelocate", Json.mkObj [("ok", Json.mkObj [("b", Json.str sec.toHex)])])]
  | "run_apply" =>
    let (S, mv, le, cls) ← bundleOf req
    let data ← jHex req "hex"
    let secs ← (← jArr req "secs").mapM secHdrOf
    let symtabs ← (← jArr req "symtabs").mapM fun j => do
      match j with
      | .arr #[i, o, s, e] => return (← jNatOf i, (⟨← jNatOf o, ← jNatOf s, ← jNatOf e⟩ : SymTab))
      | _ => throw "bad symtab"
    let name ← jStr req "name"
    let sec ← jHex req "section"
    let relocate ← jBool req "relocate"
    let phantom := (jBool req "phantom").toOption.getD false
    let r := readDwarfSection elfEnv S le cls (machineArchOf mv) data secs
      (fun i => (symtabs.find? (·.1 == i)).map (·.2)) name sec relocate phantom
    return Json.mkObj [("model", resJson (fun b => Json.mkObj [("b", Json.str b.toHex)]) r)]
  | _ => throw s!"C08: unknown kind {k}"

end PyElf.Driver.C08
