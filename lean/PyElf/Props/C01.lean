/-
  C01 — ELF file, section and program headers are decoded exactly as encoded.

  Property theorems only.  `d` is an abstract ELF description (Spec/ElfImage.lean);
  `Layout d bytes` says the byte string carries it (header at 0, tables and bodies
  wherever the description puts them — nothing else about `bytes` is constrained);
  `d.observe env` is what the property says must be reported.  The model functions
  are the mirror of elffile.py (Model/ElfFile.lean), instantiated with the Spec
  bundles, which the tie theorems (TieC01) prove equal to what /repo builds.
-/
import PyElf.Model.ElfFile
import PyElf.Spec.ElfImage
import PyElf.Proofs.ElfFile
import PyElf.Props.TieC01
namespace PyElf.Props.C01
open PyElf PyElf.Spec PyElf.Model PyElf.Proofs

/-- the struct factory and machine classification of the standards side -/
def specStructs : ElfCfg → Option ElfStructs := fun c => some (elfStructs c)
def specMachineClass : Val → String
  | .str m => ((machineClass.find? (·.1 == m)).map (·.2)).getD "default"
  | _ => "default"

theorem specStructs_eq : specStructs = specSF := rfl
theorem specMachineClass_eq : specMachineClass = specMC := by
  funext v; cases v <;> rfl

/-- the assembler produces a layout of the description (non-vacuity of `Layout`, and the
    generator the correspondence check uses) -/
theorem assemble_layout (env : Env) (d : ElfDesc) (tail : Nat) (bytes : Bytes)
    (hwf : d.wf env = true) (h : d.assemble tail = some bytes) : Layout d bytes :=
  assemble_layout_aux hwf h

/-- opening: class, byte order, struct bundle and the decoded file header are the description's -/
theorem open_exact (env : Env) (d : ElfDesc) (bytes : Bytes) (obs : ElfObs)
    (hwf : d.wf env = true) (hl : Layout d bytes) (ho : d.observe env = .ok obs) :
    ∃ f, openElf env specStructs specMachineClass bytes = .ok f ∧
      f.data = bytes ∧ f.cls = d.cls ∧ f.le = d.le ∧ f.S = d.S ∧ f.header = obs.header := by
  rw [specStructs_eq, specMachineClass_eq]
  exact open_aux hwf hl ho

/-- counts honour the extended-numbering escapes -/
theorem counts_exact (env : Env) (d : ElfDesc) (bytes : Bytes) (obs : ElfObs) (f : ElfFile)
    (hwf : d.wf env = true) (hl : Layout d bytes) (ho : d.observe env = .ok obs)
    (hf : openElf env specStructs specMachineClass bytes = .ok f) :
    numSections env f.S bytes f.header = .ok d.sections.length ∧
    numSegments env f.S bytes f.header f.shstr = .ok d.segments.length := by
  rw [specStructs_eq, specMachineClass_eq] at hf
  exact counts_aux hwf hl ho hf

/-- every section, by index: specialised kind, name, every header field -/
theorem get_section_exact (env : Env) (d : ElfDesc) (bytes : Bytes) (obs : ElfObs) (f : ElfFile)
    (hwf : d.wf env = true) (hl : Layout d bytes) (ho : d.observe env = .ok obs)
    (hf : openElf env specStructs specMachineClass bytes = .ok f)
    (i : Nat) (hi : i < d.sections.length) :
    (getSection env f.S bytes f.header f.shstr i).toOption = obs.sections[i]? := by
  rw [specStructs_eq, specMachineClass_eq] at hf
  exact get_section_aux hwf hl ho hf i hi

/-- enumeration in file order -/
theorem sections_exact (env : Env) (d : ElfDesc) (bytes : Bytes) (obs : ElfObs) (f : ElfFile)
    (hwf : d.wf env = true) (hl : Layout d bytes) (ho : d.observe env = .ok obs)
    (hf : openElf env specStructs specMachineClass bytes = .ok f) :
    iterSections env f.S bytes f.header f.shstr = .ok obs.sections := by
  rw [specStructs_eq, specMachineClass_eq] at hf
  exact sections_aux hwf hl ho hf

theorem segments_exact (env : Env) (d : ElfDesc) (bytes : Bytes) (obs : ElfObs) (f : ElfFile)
    (hwf : d.wf env = true) (hl : Layout d bytes) (ho : d.observe env = .ok obs)
    (hf : openElf env specStructs specMachineClass bytes = .ok f) :
    iterSegments env f.S bytes f.header f.shstr = .ok obs.segments := by
  rw [specStructs_eq, specMachineClass_eq] at hf
  exact segments_aux hwf hl ho hf

/-- lookups by name agree with the enumeration: the index found is the last section bearing
    the name, and absent names give nothing -/
theorem lookup_exact (env : Env) (d : ElfDesc) (obs : ElfObs) (ho : d.observe env = .ok obs) (name : Bytes) :
    ((sectionNameMap obs.sections).find? (·.1 == name)).map (·.2) = d.indexOfName name :=
  lookup_exact_aux ho name

/-- codes with a standard name are reported by that name and all others as the raw integer -/
theorem codes_named (env : Env) (sub : Con) (table : String) (ctx : Fields) (n : Int) (s : String)
    (h : env.enumDecode table n = some s) :
    Con.decodeRaw env (.enum sub table true) ctx (.int n) = .ok (.str s) := by
  simp [Con.decodeRaw, h]

theorem codes_unnamed (env : Env) (sub : Con) (table : String) (ctx : Fields) (n : Int)
    (h : env.enumDecode table n = none) :
    Con.decodeRaw env (.enum sub table true) ctx (.int n) = .ok (.int n) := by
  simp [Con.decodeRaw, h]

/-- every configuration the translator enumerates is one the Spec defines structures for, and the
    struct bundle depends on `e_machine` only through its behaviour class -/
theorem machine_factor (c : ElfCfg) (hc : c ∈ allElfCfgs) (m : String) :
    specMachineClass (.str m) ∈ machineClasses := by
  have _ := hc
  exact machine_factor_aux m

/-! ### the same for descriptions with compressed sections (`wfZ`, Spec/ElfImage.lean)

  `ElfDesc.wfZ` is `wf` with the SHF_COMPRESSED exclusion relaxed: a section may carry the flag when
  its body begins with a complete compression header for the class (`Section.__init__` reads the
  `Elf_Chdr` when it constructs a flagged section, and nothing else of the body).  Every theorem
  above holds verbatim; the contents of compressed sections are C02's / C11's subject. -/

/-- every `wf` description is `wfZ` -/
theorem wf_imp_wfZ (env : Env) (d : ElfDesc) (h : d.wf env = true) : d.wfZ env = true :=
  Proofs.wf_imp_wfZ h

theorem assemble_layout_z (env : Env) (d : ElfDesc) (tail : Nat) (bytes : Bytes)
    (hwf : d.wfZ env = true) (h : d.assemble tail = some bytes) : Layout d bytes :=
  assemble_layout_aux_z hwf h

theorem open_exact_z (env : Env) (d : ElfDesc) (bytes : Bytes) (obs : ElfObs)
    (hwf : d.wfZ env = true) (hl : Layout d bytes) (ho : d.observe env = .ok obs) :
    ∃ f, openElf env specStructs specMachineClass bytes = .ok f ∧
      f.data = bytes ∧ f.cls = d.cls ∧ f.le = d.le ∧ f.S = d.S ∧ f.header = obs.header := by
  rw [specStructs_eq, specMachineClass_eq]
  exact open_aux_z hwf hl ho

theorem counts_exact_z (env : Env) (d : ElfDesc) (bytes : Bytes) (obs : ElfObs) (f : ElfFile)
    (hwf : d.wfZ env = true) (hl : Layout d bytes) (ho : d.observe env = .ok obs)
    (hf : openElf env specStructs specMachineClass bytes = .ok f) :
    numSections env f.S bytes f.header = .ok d.sections.length ∧
    numSegments env f.S bytes f.header f.shstr = .ok d.segments.length := by
  rw [specStructs_eq, specMachineClass_eq] at hf
  exact counts_aux_z hwf hl ho hf

/-- every section, by index — compressed ones included: kind, name, every header field -/
theorem get_section_exact_z (env : Env) (d : ElfDesc) (bytes : Bytes) (obs : ElfObs) (f : ElfFile)
    (hwf : d.wfZ env = true) (hl : Layout d bytes) (ho : d.observe env = .ok obs)
    (hf : openElf env specStructs specMachineClass bytes = .ok f)
    (i : Nat) (hi : i < d.sections.length) :
    (getSection env f.S bytes f.header f.shstr i).toOption = obs.sections[i]? := by
  rw [specStructs_eq, specMachineClass_eq] at hf
  exact get_section_aux_z hwf hl ho hf i hi

theorem sections_exact_z (env : Env) (d : ElfDesc) (bytes : Bytes) (obs : ElfObs) (f : ElfFile)
    (hwf : d.wfZ env = true) (hl : Layout d bytes) (ho : d.observe env = .ok obs)
    (hf : openElf env specStructs specMachineClass bytes = .ok f) :
    iterSections env f.S bytes f.header f.shstr = .ok obs.sections := by
  rw [specStructs_eq, specMachineClass_eq] at hf
  exact sections_aux_z hwf hl ho hf

theorem segments_exact_z (env : Env) (d : ElfDesc) (bytes : Bytes) (obs : ElfObs) (f : ElfFile)
    (hwf : d.wfZ env = true) (hl : Layout d bytes) (ho : d.observe env = .ok obs)
    (hf : openElf env specStructs specMachineClass bytes = .ok f) :
    iterSegments env f.S bytes f.header f.shstr = .ok obs.segments := by
  rw [specStructs_eq, specMachineClass_eq] at hf
  exact segments_aux_z hwf hl ho hf

end PyElf.Props.C01
