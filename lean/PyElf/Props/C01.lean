/-
  C01 — ELF file, section and program headers are decoded exactly as encoded.

  Property theorems only.  `d` is an abstract ELF description (Spec/ElfImage.lean);
  `Layout d bytes` says the byte string carries it (header at 0, tables and bodies
  wherever the description puts them — nothing else about `bytes` is constrained);
  `d.observe env` is what the property says must be reported.  The model functions
  are the mirror of elffile.py (Model/ElfFile.lean), instantiated with the Spec
  bundles, which the tie theorems (TieC01) prove equal to what /repo builds.
-/
import PyElf.Model.ElfFile
import PyElf.Spec.ElfImage
import PyElf.Proofs.ElfFile
import PyElf.Props.TieC01
namespace PyElf.Props.C01
open PyElf PyElf.Spec PyElf.Model PyElf.Proofs

/-- the struct factory and machine classification of the standards side -/
def specStructs : ElfCfg → Option ElfStructs := fun c => some (elfStructs c)
def specMachineClass : Val → String
  | .str m => ((machineClass.find? (·.1 == m)).map (·.2)).getD "default"
  | _ => "default"

/-- the assembler produces a layout of the description (non-vacuity of `Layout`, and the
    generator the correspondence check uses) -/
theorem assemble_layout (env : Env) (d : ElfDesc) (tail : Nat) (bytes : Bytes)
    (hwf : d.wf env = true) (h : d.assemble tail = some bytes) : Layout d bytes := by
  sorry

/-- opening: class, byte order, struct bundle and the decoded file header are the description's -/
theorem open_exact (env : Env) (d : ElfDesc) (bytes : Bytes) (obs : ElfObs)
    (hwf : d.wf env = true) (hl : Layout d bytes) (ho : d.observe env = .ok obs) :
    ∃ f, openElf env specStructs specMachineClass bytes = .ok f ∧
      f.data = bytes ∧ f.cls = d.cls ∧ f.le = d.le ∧ f.S = d.S ∧ f.header = obs.header := by
  sorry

/-- counts honour the extended-numbering escapes -/
theorem counts_exact (env : Env) (d : ElfDesc) (bytes : Bytes) (obs : ElfObs) (f : ElfFile)
    (hwf : d.wf env = true) (hl : Layout d bytes) (ho : d.observe env = .ok obs)
    (hf : openElf env specStructs specMachineClass bytes = .ok f) :
    numSections env f.S bytes f.header = .ok d.sections.length ∧
    numSegments env f.S bytes f.header f.shstr = .ok d.segments.length := by
  sorry

/-- every section, by index: specialised kind, name, every header field -/
theorem get_section_exact (env : Env) (d : ElfDesc) (bytes : Bytes) (obs : ElfObs) (f : ElfFile)
    (hwf : d.wf env = true) (hl : Layout d bytes) (ho : d.observe env = .ok obs)
    (hf : openElf env specStructs specMachineClass bytes = .ok f)
    (i : Nat) (hi : i < d.sections.length) :
    (getSection env f.S bytes f.header f.shstr i).toOption = obs.sections[i]? := by
  sorry

/-- enumeration in file order -/
theorem sections_exact (env : Env) (d : ElfDesc) (bytes : Bytes) (obs : ElfObs) (f : ElfFile)
    (hwf : d.wf env = true) (hl : Layout d bytes) (ho : d.observe env = .ok obs)
    (hf : openElf env specStructs specMachineClass bytes = .ok f) :
    iterSections env f.S bytes f.header f.shstr = .ok obs.sections := by
  sorry

theorem segments_exact (env : Env) (d : ElfDesc) (bytes : Bytes) (obs : ElfObs) (f : ElfFile)
    (hwf : d.wf env = true) (hl : Layout d bytes) (ho : d.observe env = .ok obs)
    (hf : openElf env specStructs specMachineClass bytes = .ok f) :
    iterSegments env f.S bytes f.header f.shstr = .ok obs.segments := by
  sorry

/-- lookups by name agree with the enumeration: the index found is the last section bearing
    the name, and absent names give nothing -/
theorem lookup_exact (env : Env) (d : ElfDesc) (obs : ElfObs) (ho : d.observe env = .ok obs) (name : Bytes) :
    ((sectionNameMap obs.sections).find? (·.1 == name)).map (·.2) = d.indexOfName name := by
  sorry

/-- codes with a standard name are reported by that name and all others as the raw integer -/
theorem codes_named (env : Env) (sub : Con) (table : String) (ctx : Fields) (n : Int) (s : String)
    (h : env.enumDecode table n = some s) :
    Con.decodeRaw env (.enum sub table true) ctx (.int n) = .ok (.str s) := by
  sorry

theorem codes_unnamed (env : Env) (sub : Con) (table : String) (ctx : Fields) (n : Int)
    (h : env.enumDecode table n = none) :
    Con.decodeRaw env (.enum sub table true) ctx (.int n) = .ok (.int n) := by
  sorry

/-- every configuration the translator enumerates is one the Spec defines structures for, and the
    struct bundle depends on `e_machine` only through its behaviour class -/
theorem machine_factor (c : ElfCfg) (hc : c ∈ allElfCfgs) (m : String) :
    specMachineClass (.str m) ∈ machineClasses := by
  sorry

end PyElf.Props.C01
