/-
  C01 — ELF file, section and program headers are decoded exactly as encoded.

  Property theorems only.  `d` is an abstract ELF description (Spec/ElfImage.lean);
  `Layout d bytes` says the byte string carries it (header at 0, tables and bodies
  wherever the description puts them — nothing else about `bytes` is constrained);
  `d.observe env` is what the property says must be reported.  The model functions
  are the mirror of elffile.py (Model/ElfFile.lean), instantiated with the Spec
  bundles, which the tie theorems (TieC01) prove equal to what /repo builds.

  PROVED, for every description inside `wfZ` (⊇ `wf`) and every byte string that carries it:
  construction and the decoded file header (`open_exact[_z]`), both counts through the
  extended-numbering escapes (`counts_exact[_z]`), every section by index and in file order — kind,
  name, every header field — (`get_section_exact[_z]`, `sections_exact[_z]`), every segment
  (`segments_exact[_z]`), lookups by name through the reader's own functions
  (`get_section_index_exact[_z]`, `has_section_exact[_z]`, `get_section_by_name_exact[_z]`, with
  `lookup_last` / `lookup_absent` saying what the expected index is), codes (`codes_named`,
  `codes_unnamed`), the machine factorisation (`machine_factor`), the assembler (`assemble_layout[_z]`);
  the hypotheses are met by a concrete non-trivial description (last `example`).  Files WITHOUT a name
  table (`e_shstrndx` = SHN_UNDEF) are inside `wf` / `wfZ`: every section is reported with the empty
  name (`no_name_table_names`); for the shape of a Linux core dump with ≥ 0xffff segments there is
  in addition `extnum_only`, which asks for nothing but that shape.

  WHAT `wf` / `wfZ` EXCLUDE, clause by clause, and whether the property's quantifier ("every
  well-formed ELF image …") covers it:
  * `cls ∈ {32,64}`, `cfgOk`, `machineClasses.contains`: no image is excluded (they tie the redundant
    parameters of the description to its header; every `e_machine` falls in a class: `machine_factor`).
  * `regions = some _`: every field fits its width — necessary for the image to exist.
  * `regionsDisjoint`: the ELF header, both tables and the DESCRIBED bodies do not overlap.  `body` is
    optional: only the name table, a compression header, an attributes / hash section's on-sight
    table need describing, so images whose data sections overlap each other (or lie beyond the end of
    the file, or inside a segment …) are covered by leaving those bodies undescribed — `Layout`
    constrains nothing else (the example's section 4 overlaps sections 1 and 2).  Overlap between the
    header, the tables and the bytes the reader must read is not a well-formed image (gABI:
    "Sections in a file may not overlap").  The exactness theorems themselves never use disjointness
    (only `assemble_layout` does).
  * `escapesOk`: the counts are where the header says (section 0 exists when an escape is used) —
    gABI's own rule; the escapes may be used although the values would fit (`xShnum` …).
  * `namesOk`, reachable name offsets: the names sit NUL-terminated in the body of section
    `e_shstrndx`.  NOT excluded: files with sections and `e_shstrndx` = SHN_UNDEF ("the file has no
    section name string table", gABI; the kernel's core dumps with ≥ 0xffff segments — which is how
    the "≥ 0xffff segments" of the quantifier occur in practice — are written so): there is nothing to
    resolve, every section is nameless whatever its `sh_name` says, so the description gives every
    section the empty name (`namesOk` asks for that; no image is excluded by it).  Index 0 is the
    reserved null section: a description whose section 0 "holds the names" does not describe a file
    with names.  (The library took section 0 for the name table and reported bytes of the ELF header
    as every name: finding `no-name-table`, repaired by fixes/C01-no-name-table.patch; the check
    generates such files on every run.)  Names that are
    not valid UTF-8 are NOT excluded: the theorems hold for them (names are bytes here).  The library's
    `str` API reports them decoded with U+FFFD replacement; that decoding is modelled separately
    (Model/Utf8.lean, compared with CPython's decoder on every run) and applied by the driver, so the
    correspondence check covers such files; only the direct property comparison sets them aside.
  * entry sizes: `≥` the structure (equal or LARGER, as the property says), and only when the table is
    non-empty.
  * `shoff + n·shentsize < 2^63`, `n, m < 2^32`: no file is that large.
  * `0 < shoff` / `0 < phoff` for non-empty tables: offset 0 means "no table" (gABI).
  * `shstrndx < n`; `n = 0 → shstrndx = 0`: a file without section headers has no name table, so
    gABI wants SHN_UNDEF there; an image with `e_shoff` = 0 and `e_shstrndx` ≠ 0 is not well formed
    (the library reads a "section header" at `e_shstrndx · e_shentsize` from such a file).
  * `secOkZ`: the links the constructors follow designate tables of the type gABI's sh_link table /
    the GNU and Sun documents prescribe (string table for symbol tables, verneed, verdef, dynamic;
    symbol table for versym, syminfo, hash, GNU hash), `sh_entsize` is the entry size for REL / RELA /
    RELR and divides `sh_size` for symbol tables, attribute sections begin with 'A', hash tables fit
    their section, a SHF_COMPRESSED section holds a full compression header.  An out-of-range or
    ill-typed `sh_link` in one of these kinds is not a well-formed image; for every other kind
    `sh_link` and all other fields are arbitrary.
-/
import PyElf.Model.ElfFile
import PyElf.Spec.ElfImage
import PyElf.Proofs.ElfFile
import PyElf.Model.ElfLookup
import PyElf.Proofs.ElfLookup
import PyElf.Proofs.ElfExample
import PyElf.Proofs.ElfExtnum
import PyElf.Props.TieC01
namespace PyElf.Props.C01
open PyElf PyElf.Spec PyElf.Model PyElf.Proofs

/-- the struct factory and machine classification of the standards side -/
def specStructs : ElfCfg → Option ElfStructs := fun c => some (elfStructs c)
def specMachineClass : Val → String
  | .str m => ((machineClass.find? (·.1 == m)).map (·.2)).getD "default"
  | _ => "default"

theorem specStructs_eq : specStructs = specSF := rfl
theorem specMachineClass_eq : specMachineClass = specMC := by
  funext v; cases v <;> rfl

/-- the assembler produces a layout of the description (non-vacuity of `Layout`, and the
    generator the correspondence check uses) -/
theorem assemble_layout (env : Env) (d : ElfDesc) (tail : Nat) (bytes : Bytes)
    (hwf : d.wf env = true) (h : d.assemble tail = some bytes) : Layout d bytes :=
  assemble_layout_aux hwf h

/-- opening: class, byte order, struct bundle and the decoded file header are the description's -/
theorem open_exact (env : Env) (d : ElfDesc) (bytes : Bytes) (obs : ElfObs)
    (hwf : d.wf env = true) (hl : Layout d bytes) (ho : d.observe env = .ok obs) :
    ∃ f, openElf env specStructs specMachineClass bytes = .ok f ∧
      f.data = bytes ∧ f.cls = d.cls ∧ f.le = d.le ∧ f.S = d.S ∧ f.header = obs.header := by
  rw [specStructs_eq, specMachineClass_eq]
  exact open_aux hwf hl ho

/-- counts honour the extended-numbering escapes -/
theorem counts_exact (env : Env) (d : ElfDesc) (bytes : Bytes) (obs : ElfObs) (f : ElfFile)
    (hwf : d.wf env = true) (hl : Layout d bytes) (ho : d.observe env = .ok obs)
    (hf : openElf env specStructs specMachineClass bytes = .ok f) :
    numSections env f.S bytes f.header = .ok d.sections.length ∧
    numSegments env f.S bytes f.header f.shstr = .ok d.segments.length := by
  rw [specStructs_eq, specMachineClass_eq] at hf
  exact counts_aux hwf hl ho hf

/-- every section, by index: specialised kind, name, every header field -/
theorem get_section_exact (env : Env) (d : ElfDesc) (bytes : Bytes) (obs : ElfObs) (f : ElfFile)
    (hwf : d.wf env = true) (hl : Layout d bytes) (ho : d.observe env = .ok obs)
    (hf : openElf env specStructs specMachineClass bytes = .ok f)
    (i : Nat) (hi : i < d.sections.length) :
    (getSection env f.S bytes f.header f.shstr i).toOption = obs.sections[i]? := by
  rw [specStructs_eq, specMachineClass_eq] at hf
  exact get_section_aux hwf hl ho hf i hi

/-- enumeration in file order -/
theorem sections_exact (env : Env) (d : ElfDesc) (bytes : Bytes) (obs : ElfObs) (f : ElfFile)
    (hwf : d.wf env = true) (hl : Layout d bytes) (ho : d.observe env = .ok obs)
    (hf : openElf env specStructs specMachineClass bytes = .ok f) :
    iterSections env f.S bytes f.header f.shstr = .ok obs.sections := by
  rw [specStructs_eq, specMachineClass_eq] at hf
  exact sections_aux hwf hl ho hf

theorem segments_exact (env : Env) (d : ElfDesc) (bytes : Bytes) (obs : ElfObs) (f : ElfFile)
    (hwf : d.wf env = true) (hl : Layout d bytes) (ho : d.observe env = .ok obs)
    (hf : openElf env specStructs specMachineClass bytes = .ok f) :
    iterSegments env f.S bytes f.header f.shstr = .ok obs.segments := by
  rw [specStructs_eq, specMachineClass_eq] at hf
  exact segments_aux hwf hl ho hf

/-- lookups by name agree with the enumeration: the index found is the last section bearing
    the name, and absent names give nothing -/
theorem lookup_exact (env : Env) (d : ElfDesc) (obs : ElfObs) (ho : d.observe env = .ok obs) (name : Bytes) :
    ((sectionNameMap obs.sections).find? (·.1 == name)).map (·.2) = d.indexOfName name :=
  lookup_exact_aux ho name

/-- codes with a standard name are reported by that name and all others as the raw integer -/
theorem codes_named (env : Env) (sub : Con) (table : String) (ctx : Fields) (n : Int) (s : String)
    (h : env.enumDecode table n = some s) :
    Con.decodeRaw env (.enum sub table true) ctx (.int n) = .ok (.str s) := by
  simp [Con.decodeRaw, h]

theorem codes_unnamed (env : Env) (sub : Con) (table : String) (ctx : Fields) (n : Int)
    (h : env.enumDecode table n = none) :
    Con.decodeRaw env (.enum sub table true) ctx (.int n) = .ok (.int n) := by
  simp [Con.decodeRaw, h]

/-- every configuration the translator enumerates is one the Spec defines structures for, and the
    struct bundle depends on `e_machine` only through its behaviour class -/
theorem machine_factor (c : ElfCfg) (hc : c ∈ allElfCfgs) (m : String) :
    specMachineClass (.str m) ∈ machineClasses := by
  have _ := hc
  exact machine_factor_aux m

/-! ### the same for descriptions with compressed sections (`wfZ`, Spec/ElfImage.lean)

  `ElfDesc.wfZ` is `wf` with the SHF_COMPRESSED exclusion relaxed: a section may carry the flag when
  its body begins with a complete compression header for the class (`Section.__init__` reads the
  `Elf_Chdr` when it constructs a flagged section, and nothing else of the body).  Every theorem
  above holds verbatim; the contents of compressed sections are C02's / C11's subject. -/

/-- every `wf` description is `wfZ` -/
theorem wf_imp_wfZ (env : Env) (d : ElfDesc) (h : d.wf env = true) : d.wfZ env = true :=
  Proofs.wf_imp_wfZ h

theorem assemble_layout_z (env : Env) (d : ElfDesc) (tail : Nat) (bytes : Bytes)
    (hwf : d.wfZ env = true) (h : d.assemble tail = some bytes) : Layout d bytes :=
  assemble_layout_aux_z hwf h

theorem open_exact_z (env : Env) (d : ElfDesc) (bytes : Bytes) (obs : ElfObs)
    (hwf : d.wfZ env = true) (hl : Layout d bytes) (ho : d.observe env = .ok obs) :
    ∃ f, openElf env specStructs specMachineClass bytes = .ok f ∧
      f.data = bytes ∧ f.cls = d.cls ∧ f.le = d.le ∧ f.S = d.S ∧ f.header = obs.header := by
  rw [specStructs_eq, specMachineClass_eq]
  exact open_aux_z hwf hl ho

theorem counts_exact_z (env : Env) (d : ElfDesc) (bytes : Bytes) (obs : ElfObs) (f : ElfFile)
    (hwf : d.wfZ env = true) (hl : Layout d bytes) (ho : d.observe env = .ok obs)
    (hf : openElf env specStructs specMachineClass bytes = .ok f) :
    numSections env f.S bytes f.header = .ok d.sections.length ∧
    numSegments env f.S bytes f.header f.shstr = .ok d.segments.length := by
  rw [specStructs_eq, specMachineClass_eq] at hf
  exact counts_aux_z hwf hl ho hf

/-- every section, by index — compressed ones included: kind, name, every header field -/
theorem get_section_exact_z (env : Env) (d : ElfDesc) (bytes : Bytes) (obs : ElfObs) (f : ElfFile)
    (hwf : d.wfZ env = true) (hl : Layout d bytes) (ho : d.observe env = .ok obs)
    (hf : openElf env specStructs specMachineClass bytes = .ok f)
    (i : Nat) (hi : i < d.sections.length) :
    (getSection env f.S bytes f.header f.shstr i).toOption = obs.sections[i]? := by
  rw [specStructs_eq, specMachineClass_eq] at hf
  exact get_section_aux_z hwf hl ho hf i hi

theorem sections_exact_z (env : Env) (d : ElfDesc) (bytes : Bytes) (obs : ElfObs) (f : ElfFile)
    (hwf : d.wfZ env = true) (hl : Layout d bytes) (ho : d.observe env = .ok obs)
    (hf : openElf env specStructs specMachineClass bytes = .ok f) :
    iterSections env f.S bytes f.header f.shstr = .ok obs.sections := by
  rw [specStructs_eq, specMachineClass_eq] at hf
  exact sections_aux_z hwf hl ho hf

theorem segments_exact_z (env : Env) (d : ElfDesc) (bytes : Bytes) (obs : ElfObs) (f : ElfFile)
    (hwf : d.wfZ env = true) (hl : Layout d bytes) (ho : d.observe env = .ok obs)
    (hf : openElf env specStructs specMachineClass bytes = .ok f) :
    iterSegments env f.S bytes f.header f.shstr = .ok obs.segments := by
  rw [specStructs_eq, specMachineClass_eq] at hf
  exact segments_aux_z hwf hl ho hf

/-! ### lookups by section name, end to end (fourth wave)

  `lookup_exact` above speaks about the name map of the OBSERVATION.  The theorems below speak about
  the reader's own functions (`get_section_index`, `has_section`, `get_section_by_name`, mirrored in
  Model/ElfLookup.lean) run on the bytes: they build the map from one enumeration of the file and
  answer exactly what the description says, and `ElfDesc.indexOfName` is characterised — the LAST
  section bearing the name (`lookup_last`), nothing exactly when no section bears it
  (`lookup_absent`): "lookups by section name or index agree with the enumeration". -/

/-- `get_section_index(name)`: the index of the last section bearing the name, `None` when absent -/
theorem get_section_index_exact_z (env : Env) (d : ElfDesc) (bytes : Bytes) (obs : ElfObs) (f : ElfFile)
    (hwf : d.wfZ env = true) (hl : Layout d bytes) (ho : d.observe env = .ok obs)
    (hf : openElf env specStructs specMachineClass bytes = .ok f) (name : Bytes) :
    Model.C01.getSectionIndex env f.S bytes f.header f.shstr name = .ok (d.indexOfName name) := by
  rw [specStructs_eq, specMachineClass_eq] at hf
  exact Proofs.C01.getSectionIndex_gen (wfZ_facts hwf) hl ho hf name

/-- `has_section(name)` -/
theorem has_section_exact_z (env : Env) (d : ElfDesc) (bytes : Bytes) (obs : ElfObs) (f : ElfFile)
    (hwf : d.wfZ env = true) (hl : Layout d bytes) (ho : d.observe env = .ok obs)
    (hf : openElf env specStructs specMachineClass bytes = .ok f) (name : Bytes) :
    Model.C01.hasSection env f.S bytes f.header f.shstr name = .ok (d.indexOfName name).isSome := by
  rw [specStructs_eq, specMachineClass_eq] at hf
  exact Proofs.C01.hasSection_gen (wfZ_facts hwf) hl ho hf name

/-- `get_section_by_name(name)`: the section the enumeration reports at that index (kind, name, every
    header field), `None` when absent -/
theorem get_section_by_name_exact_z (env : Env) (d : ElfDesc) (bytes : Bytes) (obs : ElfObs) (f : ElfFile)
    (hwf : d.wfZ env = true) (hl : Layout d bytes) (ho : d.observe env = .ok obs)
    (hf : openElf env specStructs specMachineClass bytes = .ok f) (name : Bytes) :
    Model.C01.getSectionByName env f.S bytes f.header f.shstr name
      = .ok (match d.indexOfName name with
             | none => none
             | some i => obs.sections[i]?) := by
  rw [specStructs_eq, specMachineClass_eq] at hf
  exact Proofs.C01.getSectionByName_gen (wfZ_facts hwf) hl ho hf name

/-- the same three for `wf` descriptions -/
theorem get_section_index_exact (env : Env) (d : ElfDesc) (bytes : Bytes) (obs : ElfObs) (f : ElfFile)
    (hwf : d.wf env = true) (hl : Layout d bytes) (ho : d.observe env = .ok obs)
    (hf : openElf env specStructs specMachineClass bytes = .ok f) (name : Bytes) :
    Model.C01.getSectionIndex env f.S bytes f.header f.shstr name = .ok (d.indexOfName name) :=
  get_section_index_exact_z env d bytes obs f (wf_imp_wfZ env d hwf) hl ho hf name

theorem has_section_exact (env : Env) (d : ElfDesc) (bytes : Bytes) (obs : ElfObs) (f : ElfFile)
    (hwf : d.wf env = true) (hl : Layout d bytes) (ho : d.observe env = .ok obs)
    (hf : openElf env specStructs specMachineClass bytes = .ok f) (name : Bytes) :
    Model.C01.hasSection env f.S bytes f.header f.shstr name = .ok (d.indexOfName name).isSome :=
  has_section_exact_z env d bytes obs f (wf_imp_wfZ env d hwf) hl ho hf name

theorem get_section_by_name_exact (env : Env) (d : ElfDesc) (bytes : Bytes) (obs : ElfObs) (f : ElfFile)
    (hwf : d.wf env = true) (hl : Layout d bytes) (ho : d.observe env = .ok obs)
    (hf : openElf env specStructs specMachineClass bytes = .ok f) (name : Bytes) :
    Model.C01.getSectionByName env f.S bytes f.header f.shstr name
      = .ok (match d.indexOfName name with
             | none => none
             | some i => obs.sections[i]?) :=
  get_section_by_name_exact_z env d bytes obs f (wf_imp_wfZ env d hwf) hl ho hf name

/-- what the description's `indexOfName` means: a name that is found designates a section bearing
    it, and no later section bears it (Python dict overwrite: the last wins) -/
theorem lookup_last (d : ElfDesc) (name : Bytes) (i : Nat) (h : d.indexOfName name = some i) :
    ∃ hi : i < d.sections.length, (d.sections[i]).name = name ∧
      ∀ j (hj : j < d.sections.length), i < j → (d.sections[j]).name ≠ name :=
  Proofs.C01.indexOfName_some h

/-- … and a name that is not found is borne by no section -/
theorem lookup_absent (d : ElfDesc) (name : Bytes) (h : d.indexOfName name = none) :
    ∀ s ∈ d.sections, s.name ≠ name :=
  Proofs.C01.indexOfName_none h

/-! ### files without a section-name string table (`e_shstrndx` = SHN_UNDEF)

  Such files are inside `wf` / `wfZ` (their sections are nameless), so every theorem above applies to
  them; `no_name_table_names` spells out what that means for the names, and `no_name_table_lookup`
  for the lookups (the name map has the single key `''`, which designates the last section).

  `extnum_only` is the former `extnum_only_partial`, now FULL: for the shape of such files that occurs
  in practice — what the Linux kernel writes for a core dump with ≥ 0xffff segments: ONE section
  header, SHT_NULL, carrying the escapes (`Spec.C01.extnumOnly`) — it needs nothing but that shape (no
  hypothesis on the placement of the regions, on the machine class, on `sh_name`): construction, the
  file header, both counts (the real segment count through PN_XNUM / `sh_info[0]`), every segment in
  file order, and the one section with its kind, every header field and the EMPTY name.  (Before the
  repair of the finding `no-name-table` the name reported was `nameAt bytes sh_offset[0] sh_name[0]`,
  bytes of the file read through section 0 taken for the name table.) -/

/-- in a file without a name table every section is reported with the empty name -/
theorem no_name_table_names (env : Env) (d : ElfDesc) (bytes : Bytes) (obs : ElfObs) (f : ElfFile)
    (hwf : d.wfZ env = true) (hl : Layout d bytes) (ho : d.observe env = .ok obs)
    (hf : openElf env specStructs specMachineClass bytes = .ok f) (hz : d.shstrndx = 0) :
    ∃ secs, iterSections env f.S bytes f.header f.shstr = .ok secs ∧ secs.length = d.sections.length ∧
      ∀ s ∈ secs, s.2.1 = [] := by
  refine ⟨obs.sections, sections_exact_z env d bytes obs f hwf hl ho hf,
    (Proofs.mapM_ok_inv _ _ _ (Proofs.observe_inv ho).2.1).1, ?_⟩
  intro s hs
  have hnames := Proofs.observe_names ho
  have hmem : s.2.1 ∈ obs.sections.map (·.2.1) := List.mem_map.2 ⟨s, hs, rfl⟩
  rw [hnames] at hmem
  obtain ⟨sd, hsd, he⟩ := List.mem_map.1 hmem
  rw [← he]
  exact Proofs.names_empty (wfZ_facts hwf).names hz sd hsd

/-- … and its lookups: the empty name designates the last section, every other name nothing -/
theorem no_name_table_lookup (env : Env) (d : ElfDesc) (hwf : d.wfZ env = true) (hz : d.shstrndx = 0)
    (name : Bytes) :
    d.indexOfName name = if name = [] ∧ 0 < d.sections.length then some (d.sections.length - 1) else none := by
  have hall := Proofs.names_empty (wfZ_facts hwf).names hz
  cases h : d.indexOfName name with
  | none =>
    have habs := lookup_absent d name h
    split
    · rename_i hc
      obtain ⟨rfl, hpos⟩ := hc
      exact absurd (hall _ (List.getElem_mem hpos)) (habs _ (List.getElem_mem hpos))
    · rfl
  | some i =>
    obtain ⟨hi, hname, hlast⟩ := lookup_last d name i h
    have hn : name = [] := by rw [← hname]; exact hall _ (List.getElem_mem hi)
    have hil : i = d.sections.length - 1 := by
      by_cases hlt : i < d.sections.length - 1
      · exact absurd (by rw [hn]; exact hall _ (List.getElem_mem (by omega)))
          (hlast (d.sections.length - 1) (by omega) hlt)
      · omega
    rw [if_pos ⟨hn, by omega⟩, hil]

theorem extnum_only (env : Env) (d : ElfDesc) (bytes : Bytes) (obs : ElfObs)
    (hx : Spec.C01.extnumOnly env d = true) (hl : Layout d bytes) (ho : d.observe env = .ok obs) :
    ∃ f s0, openElf env specStructs specMachineClass bytes = .ok f ∧
      f.data = bytes ∧ f.cls = d.cls ∧ f.le = d.le ∧ f.S = d.S ∧ f.header = obs.header ∧
      d.sections = [s0] ∧
      numSections env f.S bytes f.header = .ok 1 ∧
      numSegments env f.S bytes f.header f.shstr = .ok d.segments.length ∧
      iterSegments env f.S bytes f.header f.shstr = .ok obs.segments ∧
      iterSections env f.S bytes f.header f.shstr = .ok (obs.sections.map fun s => (s.1, [], s.2.2)) ∧
      obs.sections.map (·.1) = ["NullSection"] := by
  rw [specStructs_eq, specMachineClass_eq]
  exact Proofs.C01.extnum_gen hx hl ho

/-- non-vacuity: a core file of that shape (`Proofs/ElfExample.lean` `exC`: ET_CORE, `e_shnum` = 1,
    `e_shstrndx` = 0, PN_XNUM with the count 2 in `sh_info[0]`, a PT_NOTE and a PT_LOAD segment); it is
    also inside `wf` (a file without a name table is well formed), so it meets the hypotheses of
    `no_name_table_names` / `no_name_table_lookup` and of every `*_exact` theorem as well -/
example : ∃ bytes obs, Spec.C01.extnumOnly Proofs.C01.Ex.exEnv Proofs.C01.Ex.exC = true ∧
    Proofs.C01.Ex.exC.wf Proofs.C01.Ex.exEnv = true ∧ Proofs.C01.Ex.exC.shstrndx = 0 ∧
    Layout Proofs.C01.Ex.exC bytes ∧
    Proofs.C01.Ex.exC.observe Proofs.C01.Ex.exEnv = .ok obs ∧ obs.segments.length = 2 := by
  obtain ⟨bytes, hl⟩ := Proofs.C01.Ex.exC_layout
  obtain ⟨obs, ho⟩ := Proofs.C01.Ex.exC_observes
  refine ⟨bytes, obs, Proofs.C01.Ex.exC_extnumOnly, Proofs.C01.Ex.exC_wf, rfl, hl, ho, ?_⟩
  exact (Proofs.mapM_ok_inv _ _ _ (Proofs.observe_inv ho).2.2).1

/-! ### non-vacuity of the hypotheses (`wfZ`, `Layout`, `observe`, a successful `openElf`)

  `Proofs/ElfExample.lean`: an ELF32 LSB description with five sections and one segment — section 0
  carries the section count and the name-table index by the extended-numbering escapes although
  they would fit, section 1 is SHF_COMPRESSED with a bare `Elf32_Chdr` as body (so the description is
  inside `wfZ` and outside `wf`), sections 1 and 2 bear the same name, section 3 is a symbol table
  linked to the name table, section 4 overlaps sections 1 and 2 in the file (its bytes are not
  described), `e_shentsize` = 48 > 40, `e_phentsize` = 40 > 32, `e_machine` is an unnamed code.  The
  assembler lays it out, so every hypothesis of every theorem above is met by it. -/
example : ∃ bytes obs f,
    Proofs.C01.Ex.exD.wfZ Proofs.C01.Ex.exEnv = true ∧ Proofs.C01.Ex.exD.wf Proofs.C01.Ex.exEnv = false ∧
    Layout Proofs.C01.Ex.exD bytes ∧ Proofs.C01.Ex.exD.observe Proofs.C01.Ex.exEnv = .ok obs ∧
    openElf Proofs.C01.Ex.exEnv specStructs specMachineClass bytes = .ok f ∧
    iterSections Proofs.C01.Ex.exEnv f.S bytes f.header f.shstr = .ok obs.sections ∧
    Model.C01.getSectionIndex Proofs.C01.Ex.exEnv f.S bytes f.header f.shstr [0x2e, 0x61] = .ok (some 2) := by
  obtain ⟨bytes, hb⟩ := Proofs.C01.Ex.exD_assembles
  obtain ⟨obs, ho⟩ := Proofs.C01.Ex.exD_observes
  have hwf := Proofs.C01.Ex.exD_wfZ
  have hl := assemble_layout_z _ _ 0 bytes hwf hb
  obtain ⟨f, hf, -⟩ := open_exact_z _ _ bytes obs hwf hl ho
  refine ⟨bytes, obs, f, hwf, Proofs.C01.Ex.exD_not_wf, hl, ho, hf, sections_exact_z _ _ bytes obs f hwf hl ho hf, ?_⟩
  rw [get_section_index_exact_z _ _ bytes obs f hwf hl ho hf, Proofs.C01.Ex.exD_lookup]

end PyElf.Props.C01
