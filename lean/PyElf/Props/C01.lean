/-
  C01 — ELF file, section and program headers are decoded exactly as encoded.

  Property theorems only.  `d` is an abstract ELF description (Spec/ElfImage.lean);
  `Layout d bytes` says the byte string carries it (header at 0, tables and bodies
  wherever the description puts them — nothing else about `bytes` is constrained);
  `d.observe env` is what the property says must be reported.  The model functions
  are the mirror of elffile.py (Model/ElfFile.lean), instantiated with the Spec
  bundles, which the tie theorems (TieC01) prove equal to what /repo builds.

  PROVED, for every description inside `wfZ` (⊇ `wf`) and every byte string that carries it:
  construction and the decoded file header (`open_exact[_z]`), both counts through the
  extended-numbering escapes (`counts_exact[_z]`), every section by index and in file order — kind,
  name, every header field — (`get_section_exact[_z]`, `sections_exact[_z]`), every segment
  (`segments_exact[_z]`), lookups by name through the reader's own functions
  (`get_section_index_exact[_z]`, `has_section_exact[_z]`, `get_section_by_name_exact[_z]`, with
  `lookup_last` / `lookup_absent` saying what the expected index is), codes (`codes_named`,
  `codes_unnamed`), the machine factorisation (`machine_factor`), the assembler (`assemble_layout[_z]`);
  the hypotheses are met by a concrete non-trivial description (last `example`).  For files WITHOUT a
  name table in the shape of a Linux core dump with ≥ 0xffff segments: `extnum_only_partial`
  (everything but the null section's name).

  WHAT `wf` / `wfZ` EXCLUDE, clause by clause, and whether the property's quantifier ("every
  well-formed ELF image …") covers it:
  * `cls ∈ {32,64}`, `cfgOk`, `machineClasses.contains`: no image is excluded (they tie the redundant
    parameters of the description to its header; every `e_machine` falls in a class: `machine_factor`).
  * `regions = some _`: every field fits its width — necessary for the image to exist.
  * `regionsDisjoint`: the ELF header, both tables and the DESCRIBED bodies do not overlap.  `body` is
    optional: only the name table, a compression header, an attributes / hash section's on-sight
    table need describing, so images whose data sections overlap each other (or lie beyond the end of
    the file, or inside a segment …) are covered by leaving those bodies undescribed — `Layout`
    constrains nothing else (the example's section 4 overlaps sections 1 and 2).  Overlap between the
    header, the tables and the bytes the reader must read is not a well-formed image (gABI:
    "Sections in a file may not overlap").  The exactness theorems themselves never use disjointness
    (only `assemble_layout` does).
  * `escapesOk`: the counts are where the header says (section 0 exists when an escape is used) —
    gABI's own rule; the escapes may be used although the values would fit (`xShnum` …).
  * `namesOk`, reachable name offsets: the names sit NUL-terminated in the body of section
    `e_shstrndx`.  EXCLUDED AND COVERED BY THE PROPERTY: files with sections and `e_shstrndx` =
    SHN_UNDEF ("the file has no section name string table", gABI) — the library takes section 0 for
    the name table and reports bytes of the ELF header as every name: known finding `no-name-table`
    (Spec/ElfNoNames.lean recognises the class; the check generates it on every run;
    `extnum_only_partial` proves the rest for the one shape that is common: the kernel's core dumps
    with ≥ 0xffff segments — which is how the "≥ 0xffff segments" of the quantifier occur in practice).  Names that are
    not valid UTF-8 are NOT excluded: the theorems hold for them (names are bytes here).  The library's
    `str` API reports them decoded with U+FFFD replacement; that decoding is modelled separately
    (Model/Utf8.lean, compared with CPython's decoder on every run) and applied by the driver, so the
    correspondence check covers such files; only the direct property comparison sets them aside.
  * entry sizes: `≥` the structure (equal or LARGER, as the property says), and only when the table is
    non-empty.
  * `shoff + n·shentsize < 2^63`, `n, m < 2^32`: no file is that large.
  * `0 < shoff` / `0 < phoff` for non-empty tables: offset 0 means "no table" (gABI).
  * `shstrndx < n`; `n = 0 → shstrndx = 0`: a file without section headers has no name table, so
    gABI wants SHN_UNDEF there; an image with `e_shoff` = 0 and `e_shstrndx` ≠ 0 is not well formed
    (the library reads a "section header" at `e_shstrndx · e_shentsize` from such a file).
  * `secOkZ`: the links the constructors follow designate tables of the type gABI's sh_link table /
    the GNU and Sun documents prescribe (string table for symbol tables, verneed, verdef, dynamic;
    symbol table for versym, syminfo, hash, GNU hash), `sh_entsize` is the entry size for REL / RELA /
    RELR and divides `sh_size` for symbol tables, attribute sections begin with 'A', hash tables fit
    their section, a SHF_COMPRESSED section holds a full compression header.  An out-of-range or
    ill-typed `sh_link` in one of these kinds is not a well-formed image; for every other kind
    `sh_link` and all other fields are arbitrary.
-/
import PyElf.Model.ElfFile
import PyElf.Spec.ElfImage
import PyElf.Proofs.ElfFile
import PyElf.Model.ElfLookup
import PyElf.Proofs.ElfLookup
import PyElf.Proofs.ElfExample
import PyElf.Proofs.ElfExtnum
import PyElf.Props.TieC01
namespace PyElf.Props.C01
open PyElf PyElf.Spec PyElf.Model PyElf.Proofs

/-- the struct factory and machine classification of the standards side -/
def specStructs : ElfCfg → Option ElfStructs := fun c => some (elfStructs c)
def specMachineClass : Val → String
  | .str m => ((machineClass.find? (·.1 == m)).map (·.2)).getD "default"
  | _ => "default"

theorem specStructs_eq : specStructs = specSF := rfl
theorem specMachineClass_eq : specMachineClass = specMC := by
  funext v; cases v <;> rfl

/-- the assembler produces a layout of the description (non-vacuity of `Layout`, and the
    generator the correspondence check uses) -/
theorem assemble_layout (env : Env) (d : ElfDesc) (tail : Nat) (bytes : Bytes)
    (hwf : d.wf env = true) (h : d.assemble tail = some bytes) : Layout d bytes :=
  assemble_layout_aux hwf h

/-- opening: class, byte order, struct bundle and the decoded file header are the description's -/
theorem open_exact (env : Env) (d : ElfDesc) (bytes : Bytes) (obs : ElfObs)
    (hwf : d.wf env = true) (hl : Layout d bytes) (ho : d.observe env = .ok obs) :
    ∃ f, openElf env specStructs specMachineClass bytes = .ok f ∧
      f.data = bytes ∧ f.cls = d.cls ∧ f.le = d.le ∧ f.S = d.S ∧ f.header = obs.header := by
  rw [specStructs_eq, specMachineClass_eq]
  exact open_aux hwf hl ho

/-- counts honour the extended-numbering escapes -/
theorem counts_exact (env : Env) (d : ElfDesc) (bytes : Bytes) (obs : ElfObs) (f : ElfFile)
    (hwf : d.wf env = true) (hl : Layout d bytes) (ho : d.observe env = .ok obs)
    (hf : openElf env specStructs specMachineClass bytes = .ok f) :
    numSections env f.S bytes f.header = .ok d.sections.length ∧
    numSegments env f.S bytes f.header f.shstr = .ok d.segments.length := by
  rw [specStructs_eq, specMachineClass_eq] at hf
  exact counts_aux hwf hl ho hf

/-- every section, by index: specialised kind, name, every header field -/
theorem get_section_exact (env : Env) (d : ElfDesc) (bytes : Bytes) (obs : ElfObs) (f : ElfFile)
    (hwf : d.wf env = true) (hl : Layout d bytes) (ho : d.observe env = .ok obs)
    (hf : openElf env specStructs specMachineClass bytes = .ok f)
    (i : Nat) (hi : i < d.sections.length) :
    (getSection env f.S bytes f.header f.shstr i).toOption = obs.sections[i]? := by
  rw [specStructs_eq, specMachineClass_eq] at hf
  exact get_section_aux hwf hl ho hf i hi

/-- enumeration in file order -/
theorem sections_exact (env : Env) (d : ElfDesc) (bytes : Bytes) (obs : ElfObs) (f : ElfFile)
    (hwf : d.wf env = true) (hl : Layout d bytes) (ho : d.observe env = .ok obs)
    (hf : openElf env specStructs specMachineClass bytes = .ok f) :
    iterSections env f.S bytes f.header f.shstr = .ok obs.sections := by
  rw [specStructs_eq, specMachineClass_eq] at hf
  exact sections_aux hwf hl ho hf

theorem segments_exact (env : Env) (d : ElfDesc) (bytes : Bytes) (obs : ElfObs) (f : ElfFile)
    (hwf : d.wf env = true) (hl : Layout d bytes) (ho : d.observe env = .ok obs)
    (hf : openElf env specStructs specMachineClass bytes = .ok f) :
    iterSegments env f.S bytes f.header f.shstr = .ok obs.segments := by
  rw [specStructs_eq, specMachineClass_eq] at hf
  exact segments_aux hwf hl ho hf

/-- lookups by name agree with the enumeration: the index found is the last section bearing
    the name, and absent names give nothing -/
theorem lookup_exact (env : Env) (d : ElfDesc) (obs : ElfObs) (ho : d.observe env = .ok obs) (name : Bytes) :
    ((sectionNameMap obs.sections).find? (·.1 == name)).map (·.2) = d.indexOfName name :=
  lookup_exact_aux ho name

/-- codes with a standard name are reported by that name and all others as the raw integer -/
theorem codes_named (env : Env) (sub : Con) (table : String) (ctx : Fields) (n : Int) (s : String)
    (h : env.enumDecode table n = some s) :
    Con.decodeRaw env (.enum sub table true) ctx (.int n) = .ok (.str s) := by
  simp [Con.decodeRaw, h]

theorem codes_unnamed (env : Env) (sub : Con) (table : String) (ctx : Fields) (n : Int)
    (h : env.enumDecode table n = none) :
    Con.decodeRaw env (.enum sub table true) ctx (.int n) = .ok (.int n) := by
  simp [Con.decodeRaw, h]

/-- every configuration the translator enumerates is one the Spec defines structures for, and the
    struct bundle depends on `e_machine` only through its behaviour class -/
theorem machine_factor (c : ElfCfg) (hc : c ∈ allElfCfgs) (m : String) :
    specMachineClass (.str m) ∈ machineClasses := by
  have _ := hc
  exact machine_factor_aux m

/-! ### the same for descriptions with compressed sections (`wfZ`, Spec/ElfImage.lean)

  `ElfDesc.wfZ` is `wf` with the SHF_COMPRESSED exclusion relaxed: a section may carry the flag when
  its body begins with a complete compression header for the class (`Section.__init__` reads the
  `Elf_Chdr` when it constructs a flagged section, and nothing else of the body).  Every theorem
  above holds verbatim; the contents of compressed sections are C02's / C11's subject. -/

/-- every `wf` description is `wfZ` -/
theorem wf_imp_wfZ (env : Env) (d : ElfDesc) (h : d.wf env = true) : d.wfZ env = true :=
  Proofs.wf_imp_wfZ h

theorem assemble_layout_z (env : Env) (d : ElfDesc) (tail : Nat) (bytes : Bytes)
    (hwf : d.wfZ env = true) (h : d.assemble tail = some bytes) : Layout d bytes :=
  assemble_layout_aux_z hwf h

theorem open_exact_z (env : Env) (d : ElfDesc) (bytes : Bytes) (obs : ElfObs)
    (hwf : d.wfZ env = true) (hl : Layout d bytes) (ho : d.observe env = .ok obs) :
    ∃ f, openElf env specStructs specMachineClass bytes = .ok f ∧
      f.data = bytes ∧ f.cls = d.cls ∧ f.le = d.le ∧ f.S = d.S ∧ f.header = obs.header := by
  rw [specStructs_eq, specMachineClass_eq]
  exact open_aux_z hwf hl ho

theorem counts_exact_z (env : Env) (d : ElfDesc) (bytes : Bytes) (obs : ElfObs) (f : ElfFile)
    (hwf : d.wfZ env = true) (hl : Layout d bytes) (ho : d.observe env = .ok obs)
    (hf : openElf env specStructs specMachineClass bytes = .ok f) :
    numSections env f.S bytes f.header = .ok d.sections.length ∧
    numSegments env f.S bytes f.header f.shstr = .ok d.segments.length := by
  rw [specStructs_eq, specMachineClass_eq] at hf
  exact counts_aux_z hwf hl ho hf

/-- every section, by index — compressed ones included: kind, name, every header field -/
theorem get_section_exact_z (env : Env) (d : ElfDesc) (bytes : Bytes) (obs : ElfObs) (f : ElfFile)
    (hwf : d.wfZ env = true) (hl : Layout d bytes) (ho : d.observe env = .ok obs)
    (hf : openElf env specStructs specMachineClass bytes = .ok f)
    (i : Nat) (hi : i < d.sections.length) :
    (getSection env f.S bytes f.header f.shstr i).toOption = obs.sections[i]? := by
  rw [specStructs_eq, specMachineClass_eq] at hf
  exact get_section_aux_z hwf hl ho hf i hi

theorem sections_exact_z (env : Env) (d : ElfDesc) (bytes : Bytes) (obs : ElfObs) (f : ElfFile)
    (hwf : d.wfZ env = true) (hl : Layout d bytes) (ho : d.observe env = .ok obs)
    (hf : openElf env specStructs specMachineClass bytes = .ok f) :
    iterSections env f.S bytes f.header f.shstr = .ok obs.sections := by
  rw [specStructs_eq, specMachineClass_eq] at hf
  exact sections_aux_z hwf hl ho hf

theorem segments_exact_z (env : Env) (d : ElfDesc) (bytes : Bytes) (obs : ElfObs) (f : ElfFile)
    (hwf : d.wfZ env = true) (hl : Layout d bytes) (ho : d.observe env = .ok obs)
    (hf : openElf env specStructs specMachineClass bytes = .ok f) :
    iterSegments env f.S bytes f.header f.shstr = .ok obs.segments := by
  rw [specStructs_eq, specMachineClass_eq] at hf
  exact segments_aux_z hwf hl ho hf

/-! ### lookups by section name, end to end (fourth wave)

  `lookup_exact` above speaks about the name map of the OBSERVATION.  The theorems below speak about
  the reader's own functions (`get_section_index`, `has_section`, `get_section_by_name`, mirrored in
  Model/ElfLookup.lean) run on the bytes: they build the map from one enumeration of the file and
  answer exactly what the description says, and `ElfDesc.indexOfName` is characterised — the LAST
  section bearing the name (`lookup_last`), nothing exactly when no section bears it
  (`lookup_absent`): "lookups by section name or index agree with the enumeration". -/

/-- `get_section_index(name)`: the index of the last section bearing the name, `None` when absent -/
theorem get_section_index_exact_z (env : Env) (d : ElfDesc) (bytes : Bytes) (obs : ElfObs) (f : ElfFile)
    (hwf : d.wfZ env = true) (hl : Layout d bytes) (ho : d.observe env = .ok obs)
    (hf : openElf env specStructs specMachineClass bytes = .ok f) (name : Bytes) :
    Model.C01.getSectionIndex env f.S bytes f.header f.shstr name = .ok (d.indexOfName name) := by
  rw [specStructs_eq, specMachineClass_eq] at hf
  exact Proofs.C01.getSectionIndex_gen (wfZ_facts hwf) hl ho hf name

/-- `has_section(name)` -/
theorem has_section_exact_z (env : Env) (d : ElfDesc) (bytes : Bytes) (obs : ElfObs) (f : ElfFile)
    (hwf : d.wfZ env = true) (hl : Layout d bytes) (ho : d.observe env = .ok obs)
    (hf : openElf env specStructs specMachineClass bytes = .ok f) (name : Bytes) :
    Model.C01.hasSection env f.S bytes f.header f.shstr name = .ok (d.indexOfName name).isSome := by
  rw [specStructs_eq, specMachineClass_eq] at hf
  exact Proofs.C01.hasSection_gen (wfZ_facts hwf) hl ho hf name

/-- `get_section_by_name(name)`: the section the enumeration reports at that index (kind, name, every
    header field), `None` when absent -/
theorem get_section_by_name_exact_z (env : Env) (d : ElfDesc) (bytes : Bytes) (obs : ElfObs) (f : ElfFile)
    (hwf : d.wfZ env = true) (hl : Layout d bytes) (ho : d.observe env = .ok obs)
    (hf : openElf env specStructs specMachineClass bytes = .ok f) (name : Bytes) :
    Model.C01.getSectionByName env f.S bytes f.header f.shstr name
      = .ok (match d.indexOfName name with
             | none => none
             | some i => obs.sections[i]?) := by
  rw [specStructs_eq, specMachineClass_eq] at hf
  exact Proofs.C01.getSectionByName_gen (wfZ_facts hwf) hl ho hf name

/-- the same three for `wf` descriptions -/
theorem get_section_index_exact (env : Env) (d : ElfDesc) (bytes : Bytes) (obs : ElfObs) (f : ElfFile)
    (hwf : d.wf env = true) (hl : Layout d bytes) (ho : d.observe env = .ok obs)
    (hf : openElf env specStructs specMachineClass bytes = .ok f) (name : Bytes) :
    Model.C01.getSectionIndex env f.S bytes f.header f.shstr name = .ok (d.indexOfName name) :=
  get_section_index_exact_z env d bytes obs f (wf_imp_wfZ env d hwf) hl ho hf name

theorem has_section_exact (env : Env) (d : ElfDesc) (bytes : Bytes) (obs : ElfObs) (f : ElfFile)
    (hwf : d.wf env = true) (hl : Layout d bytes) (ho : d.observe env = .ok obs)
    (hf : openElf env specStructs specMachineClass bytes = .ok f) (name : Bytes) :
    Model.C01.hasSection env f.S bytes f.header f.shstr name = .ok (d.indexOfName name).isSome :=
  has_section_exact_z env d bytes obs f (wf_imp_wfZ env d hwf) hl ho hf name

theorem get_section_by_name_exact (env : Env) (d : ElfDesc) (bytes : Bytes) (obs : ElfObs) (f : ElfFile)
    (hwf : d.wf env = true) (hl : Layout d bytes) (ho : d.observe env = .ok obs)
    (hf : openElf env specStructs specMachineClass bytes = .ok f) (name : Bytes) :
    Model.C01.getSectionByName env f.S bytes f.header f.shstr name
      = .ok (match d.indexOfName name with
             | none => none
             | some i => obs.sections[i]?) :=
  get_section_by_name_exact_z env d bytes obs f (wf_imp_wfZ env d hwf) hl ho hf name

/-- what the description's `indexOfName` means: a name that is found designates a section bearing
    it, and no later section bears it (Python dict overwrite: the last wins) -/
theorem lookup_last (d : ElfDesc) (name : Bytes) (i : Nat) (h : d.indexOfName name = some i) :
    ∃ hi : i < d.sections.length, (d.sections[i]).name = name ∧
      ∀ j (hj : j < d.sections.length), i < j → (d.sections[j]).name ≠ name :=
  Proofs.C01.indexOfName_some h

/-- … and a name that is not found is borne by no section -/
theorem lookup_absent (d : ElfDesc) (name : Bytes) (h : d.indexOfName name = none) :
    ∀ s ∈ d.sections, s.name ≠ name :=
  Proofs.C01.indexOfName_none h

/-! ### files without a section-name string table (`e_shstrndx` = SHN_UNDEF) — partial

  FULL statement: for every well-formed description with sections and no name table
  (`Spec.C01.wfNoNames`) the theorems above hold, in particular
  `iterSections … = .ok obs.sections` with every name empty.
  It is FALSE of the code (known finding `no-name-table`: the reader takes section 0 for the name
  table and reports the bytes at file offset `sh_offset[0] + sh_name` as the name).

  PROVED (`extnum_only_partial`), for the shape of such files that occurs in practice — what the
  Linux kernel writes for a core dump with ≥ 0xffff segments: ONE section header, SHT_NULL, carrying
  the escapes (`Spec.C01.extnumOnly`; extra hypothesis: exactly that shape) —: construction, the file
  header, both counts (the real segment count through PN_XNUM / `sh_info[0]`), every segment in file
  order, and the one section with its kind and every header field; its NAME is what the finding says
  (`Proofs.C01.nameAt`: the NUL-terminated bytes at `sh_offset[0] + sh_name[0]`, empty only when a
  NUL sits there), not the empty name the description gives it.  So the ≥ 0xffff-segment images of
  the quantifier are covered by theorems in the form they really have, name of the null section aside. -/
theorem extnum_only_partial (env : Env) (d : ElfDesc) (bytes : Bytes) (obs : ElfObs)
    (hx : Spec.C01.extnumOnly env d = true) (hl : Layout d bytes) (ho : d.observe env = .ok obs) :
    ∃ f s0 nm, openElf env specStructs specMachineClass bytes = .ok f ∧
      f.data = bytes ∧ f.cls = d.cls ∧ f.le = d.le ∧ f.S = d.S ∧ f.header = obs.header ∧
      d.sections = [s0] ∧ nm = Proofs.C01.nameAt bytes (getNatD s0.hdr "sh_offset") s0.nameOff ∧
      numSections env f.S bytes f.header = .ok 1 ∧
      numSegments env f.S bytes f.header f.shstr = .ok d.segments.length ∧
      iterSegments env f.S bytes f.header f.shstr = .ok obs.segments ∧
      iterSections env f.S bytes f.header f.shstr = .ok (obs.sections.map fun s => (s.1, nm, s.2.2)) ∧
      obs.sections.map (·.1) = ["NullSection"] := by
  rw [specStructs_eq, specMachineClass_eq]
  exact Proofs.C01.extnum_gen hx hl ho

/-- non-vacuity: a core file of that shape (`Proofs/ElfExample.lean` `exC`: ET_CORE, `e_shnum` = 1,
    `e_shstrndx` = 0, PN_XNUM with the count 2 in `sh_info[0]`, a PT_NOTE and a PT_LOAD segment), which is
    outside `wfZ` -/
example : ∃ bytes obs, Spec.C01.extnumOnly Proofs.C01.Ex.exEnv Proofs.C01.Ex.exC = true ∧
    Proofs.C01.Ex.exC.wfZ Proofs.C01.Ex.exEnv = false ∧ Layout Proofs.C01.Ex.exC bytes ∧
    Proofs.C01.Ex.exC.observe Proofs.C01.Ex.exEnv = .ok obs ∧ obs.segments.length = 2 := by
  obtain ⟨bytes, hl⟩ := Proofs.C01.Ex.exC_layout
  obtain ⟨obs, ho⟩ := Proofs.C01.Ex.exC_observes
  refine ⟨bytes, obs, Proofs.C01.Ex.exC_extnumOnly, Proofs.C01.Ex.exC_not_wfZ, hl, ho, ?_⟩
  exact (Proofs.mapM_ok_inv _ _ _ (Proofs.observe_inv ho).2.2).1

/-! ### non-vacuity of the hypotheses (`wfZ`, `Layout`, `observe`, a successful `openElf`)

  `Proofs/ElfExample.lean`: an ELF32 LSB description with five sections and one segment — section 0
  carries the section count and the name-table index by the extended-numbering escapes although
  they would fit, section 1 is SHF_COMPRESSED with a bare `Elf32_Chdr` as body (so the description is
  inside `wfZ` and outside `wf`), sections 1 and 2 bear the same name, section 3 is a symbol table
  linked to the name table, section 4 overlaps sections 1 and 2 in the file (its bytes are not
  described), `e_shentsize` = 48 > 40, `e_phentsize` = 40 > 32, `e_machine` is an unnamed code.  The
  assembler lays it out, so every hypothesis of every theorem above is met by it. -/
example : ∃ bytes obs f,
    Proofs.C01.Ex.exD.wfZ Proofs.C01.Ex.exEnv = true ∧ Proofs.C01.Ex.exD.wf Proofs.C01.Ex.exEnv = false ∧
    Layout Proofs.C01.Ex.exD bytes ∧ Proofs.C01.Ex.exD.observe Proofs.C01.Ex.exEnv = .ok obs ∧
    openElf Proofs.C01.Ex.exEnv specStructs specMachineClass bytes = .ok f ∧
    iterSections Proofs.C01.Ex.exEnv f.S bytes f.header f.shstr = .ok obs.sections ∧
    Model.C01.getSectionIndex Proofs.C01.Ex.exEnv f.S bytes f.header f.shstr [0x2e, 0x61] = .ok (some 2) := by
  obtain ⟨bytes, hb⟩ := Proofs.C01.Ex.exD_assembles
  obtain ⟨obs, ho⟩ := Proofs.C01.Ex.exD_observes
  have hwf := Proofs.C01.Ex.exD_wfZ
  have hl := assemble_layout_z _ _ 0 bytes hwf hb
  obtain ⟨f, hf, -⟩ := open_exact_z _ _ bytes obs hwf hl ho
  refine ⟨bytes, obs, f, hwf, Proofs.C01.Ex.exD_not_wf, hl, ho, hf, sections_exact_z _ _ bytes obs f hwf hl ho hf, ?_⟩
  rw [get_section_index_exact_z _ _ bytes obs f hwf hl ho hf, Proofs.C01.Ex.exD_lookup]

end PyElf.Props.C01
