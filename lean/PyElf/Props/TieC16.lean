/-
  C16 tie: the primitive field constructs the library builds, for every
  configuration, are the primitives the C16 theorems are about.
-/
import PyElf.Gen.Structs
import PyElf.Spec.DwarfStructs
namespace PyElf.Props.TieC16
open PyElf

theorem dwarf_Dwarf_uint8 : Gen.dwarfBundles.map (fun b => (b.1, b.2.Dwarf_uint8)) = Spec.allDwarfCfgs.map (fun c => (c, (Spec.dwarfStructs c).Dwarf_uint8)) := by rfl
theorem dwarf_Dwarf_uint16 : Gen.dwarfBundles.map (fun b => (b.1, b.2.Dwarf_uint16)) = Spec.allDwarfCfgs.map (fun c => (c, (Spec.dwarfStructs c).Dwarf_uint16)) := by rfl
theorem dwarf_Dwarf_uint24 : Gen.dwarfBundles.map (fun b => (b.1, b.2.Dwarf_uint24)) = Spec.allDwarfCfgs.map (fun c => (c, (Spec.dwarfStructs c).Dwarf_uint24)) := by rfl
theorem dwarf_Dwarf_uint32 : Gen.dwarfBundles.map (fun b => (b.1, b.2.Dwarf_uint32)) = Spec.allDwarfCfgs.map (fun c => (c, (Spec.dwarfStructs c).Dwarf_uint32)) := by rfl
theorem dwarf_Dwarf_uint64 : Gen.dwarfBundles.map (fun b => (b.1, b.2.Dwarf_uint64)) = Spec.allDwarfCfgs.map (fun c => (c, (Spec.dwarfStructs c).Dwarf_uint64)) := by rfl
theorem dwarf_Dwarf_int8 : Gen.dwarfBundles.map (fun b => (b.1, b.2.Dwarf_int8)) = Spec.allDwarfCfgs.map (fun c => (c, (Spec.dwarfStructs c).Dwarf_int8)) := by rfl
theorem dwarf_Dwarf_int16 : Gen.dwarfBundles.map (fun b => (b.1, b.2.Dwarf_int16)) = Spec.allDwarfCfgs.map (fun c => (c, (Spec.dwarfStructs c).Dwarf_int16)) := by rfl
theorem dwarf_Dwarf_int32 : Gen.dwarfBundles.map (fun b => (b.1, b.2.Dwarf_int32)) = Spec.allDwarfCfgs.map (fun c => (c, (Spec.dwarfStructs c).Dwarf_int32)) := by rfl
theorem dwarf_Dwarf_int64 : Gen.dwarfBundles.map (fun b => (b.1, b.2.Dwarf_int64)) = Spec.allDwarfCfgs.map (fun c => (c, (Spec.dwarfStructs c).Dwarf_int64)) := by rfl
theorem dwarf_Dwarf_offset : Gen.dwarfBundles.map (fun b => (b.1, b.2.Dwarf_offset)) = Spec.allDwarfCfgs.map (fun c => (c, (Spec.dwarfStructs c).Dwarf_offset)) := by rfl
theorem dwarf_Dwarf_length : Gen.dwarfBundles.map (fun b => (b.1, b.2.Dwarf_length)) = Spec.allDwarfCfgs.map (fun c => (c, (Spec.dwarfStructs c).Dwarf_length)) := by rfl
theorem dwarf_Dwarf_target_addr : Gen.dwarfBundles.map (fun b => (b.1, b.2.Dwarf_target_addr)) = Spec.allDwarfCfgs.map (fun c => (c, (Spec.dwarfStructs c).Dwarf_target_addr)) := by rfl
theorem dwarf_Dwarf_uleb128 : Gen.dwarfBundles.map (fun b => (b.1, b.2.Dwarf_uleb128)) = Spec.allDwarfCfgs.map (fun c => (c, (Spec.dwarfStructs c).Dwarf_uleb128)) := by rfl
theorem dwarf_Dwarf_sleb128 : Gen.dwarfBundles.map (fun b => (b.1, b.2.Dwarf_sleb128)) = Spec.allDwarfCfgs.map (fun c => (c, (Spec.dwarfStructs c).Dwarf_sleb128)) := by rfl
theorem dwarf_Dwarf_initial_length : Gen.dwarfBundles.map (fun b => (b.1, b.2.Dwarf_initial_length)) = Spec.allDwarfCfgs.map (fun c => (c, (Spec.dwarfStructs c).Dwarf_initial_length)) := by rfl
theorem dwarf_the_Dwarf_offset : Gen.dwarfBundles.map (fun b => (b.1, b.2.the_Dwarf_offset)) = Spec.allDwarfCfgs.map (fun c => (c, (Spec.dwarfStructs c).the_Dwarf_offset)) := by rfl
theorem dwarf_the_Dwarf_target_addr : Gen.dwarfBundles.map (fun b => (b.1, b.2.the_Dwarf_target_addr)) = Spec.allDwarfCfgs.map (fun c => (c, (Spec.dwarfStructs c).the_Dwarf_target_addr)) := by rfl
theorem dwarf_the_Dwarf_uint32 : Gen.dwarfBundles.map (fun b => (b.1, b.2.the_Dwarf_uint32)) = Spec.allDwarfCfgs.map (fun c => (c, (Spec.dwarfStructs c).the_Dwarf_uint32)) := by rfl
theorem dwarf_the_Dwarf_uint16 : Gen.dwarfBundles.map (fun b => (b.1, b.2.the_Dwarf_uint16)) = Spec.allDwarfCfgs.map (fun c => (c, (Spec.dwarfStructs c).the_Dwarf_uint16)) := by rfl
theorem dwarf_the_Dwarf_uint8 : Gen.dwarfBundles.map (fun b => (b.1, b.2.the_Dwarf_uint8)) = Spec.allDwarfCfgs.map (fun c => (c, (Spec.dwarfStructs c).the_Dwarf_uint8)) := by rfl
theorem dwarf_the_Dwarf_uleb128 : Gen.dwarfBundles.map (fun b => (b.1, b.2.the_Dwarf_uleb128)) = Spec.allDwarfCfgs.map (fun c => (c, (Spec.dwarfStructs c).the_Dwarf_uleb128)) := by rfl
theorem dwarf_the_Dwarf_sleb128 : Gen.dwarfBundles.map (fun b => (b.1, b.2.the_Dwarf_sleb128)) = Spec.allDwarfCfgs.map (fun c => (c, (Spec.dwarfStructs c).the_Dwarf_sleb128)) := by rfl
/-- the whole form → parser table (block, exprloc, string, strx*, addrx*, ref*, ... forms) -/
theorem dwarf_forms : Gen.dwarfBundles.map (fun b => (b.1, b.2.forms)) = Spec.allDwarfCfgs.map (fun c => (c, (Spec.dwarfStructs c).forms)) := by rfl
theorem elf_Elf_byte : Gen.elfBundles.map (fun b => (b.1, b.2.Elf_byte)) = Spec.allElfCfgs.map (fun c => (c, (Spec.elfStructs c).Elf_byte)) := by rfl
theorem elf_Elf_half : Gen.elfBundles.map (fun b => (b.1, b.2.Elf_half)) = Spec.allElfCfgs.map (fun c => (c, (Spec.elfStructs c).Elf_half)) := by rfl
theorem elf_Elf_word : Gen.elfBundles.map (fun b => (b.1, b.2.Elf_word)) = Spec.allElfCfgs.map (fun c => (c, (Spec.elfStructs c).Elf_word)) := by rfl
theorem elf_Elf_word64 : Gen.elfBundles.map (fun b => (b.1, b.2.Elf_word64)) = Spec.allElfCfgs.map (fun c => (c, (Spec.elfStructs c).Elf_word64)) := by rfl
theorem elf_Elf_addr : Gen.elfBundles.map (fun b => (b.1, b.2.Elf_addr)) = Spec.allElfCfgs.map (fun c => (c, (Spec.elfStructs c).Elf_addr)) := by rfl
theorem elf_Elf_offset : Gen.elfBundles.map (fun b => (b.1, b.2.Elf_offset)) = Spec.allElfCfgs.map (fun c => (c, (Spec.elfStructs c).Elf_offset)) := by rfl
theorem elf_Elf_sword : Gen.elfBundles.map (fun b => (b.1, b.2.Elf_sword)) = Spec.allElfCfgs.map (fun c => (c, (Spec.elfStructs c).Elf_sword)) := by rfl
theorem elf_Elf_xword : Gen.elfBundles.map (fun b => (b.1, b.2.Elf_xword)) = Spec.allElfCfgs.map (fun c => (c, (Spec.elfStructs c).Elf_xword)) := by rfl
theorem elf_Elf_sxword : Gen.elfBundles.map (fun b => (b.1, b.2.Elf_sxword)) = Spec.allElfCfgs.map (fun c => (c, (Spec.elfStructs c).Elf_sxword)) := by rfl
theorem elf_Elf_uleb128 : Gen.elfBundles.map (fun b => (b.1, b.2.Elf_uleb128)) = Spec.allElfCfgs.map (fun c => (c, (Spec.elfStructs c).Elf_uleb128)) := by rfl
theorem elf_Elf_ntbs : Gen.elfBundles.map (fun b => (b.1, b.2.Elf_ntbs)) = Spec.allElfCfgs.map (fun c => (c, (Spec.elfStructs c).Elf_ntbs)) := by rfl

end PyElf.Props.TieC16
