/-
  C17 — shared statement forms: selecting a regenerated table by its id key, and the legacy-alias list.
-/
import PyElf.Spec.Registry
import PyElf.Spec.RegistryDecisions
import PyElf.Proofs.Registry
import PyElf.Proofs.RegistryMarkers
import PyElf.Gen.Tables
import PyElf.Gen.Extra_C17
namespace PyElf.Props.C17
open PyElf PyElf.Spec PyElf.Proofs.Registry
set_option maxRecDepth 100000

/-- the vendored tree is a search tree … -/
theorem registry_ordered : Registry.tree.bounded 0 Registry.keyBound = true := by decide +kernel

/-- … hence its lookups are lookups in the association list `Registry.entries` the theorems speak about -/
theorem registry_lookup (q : Nat) : Registry.tree.lookup q = alookup Registry.entries q :=
  lookup_eq _ _ _ registry_ordered q

def findTable (key : Nat) : List (Nat × String × Bool × List (Nat × Int)) → Option (String × Bool × List (Nat × Int))
  | [] => none
  | (k, rest) :: more => match Nat.beq k key with | true => some rest | false => findTable key more

/-- the regenerated table with this id exists and conforms to the registry -/
def TableConforms (key : Nat) (id : String) : Prop :=
  ∃ e T, findTable key Gen.tableIndex = some (id, e, T) ∧ Conforms Registry.entries T

/-- the regenerated table with this id exists and decodes every registry-named code to a registry name -/
def TableDecodesStd (key : Nat) (id : String) : Prop :=
  ∃ e T, findTable key Gen.tableIndex = some (id, e, T) ∧ DecodesStd Registry.entries legacyAliases T

/-- two regenerated tables exist and are related by `P` -/
def TablesRelated (k1 : Nat) (id1 : String) (k2 : Nat) (id2 : String)
    (P : List (Nat × Int) → List (Nat × Int) → Prop) : Prop :=
  ∃ e1 M e2 T, findTable k1 Gen.tableIndex = some (id1, e1, M) ∧ findTable k2 Gen.tableIndex = some (id2, e2, T) ∧ P M T

/-- the regenerated ENUM table with this id exists, has a regenerated marker-flag list of its length, and obeys the
    range-marker rule: a code is reported under a range marker only if every name the table gives it is one -/
def TableNoMarkerShadow (key : Nat) (id : String) : Prop :=
  ∃ e T ms M, findTable key Gen.tableIndex = some (id, e, T) ∧ findMarkers key Gen.markerIndex = some ms ∧
    attachMarkers T ms = some M ∧ NoMarkerShadow M

/-- evaluated form: the check of table `key` against ITS flag list (false when there is none) -/
def markerCheckB (key : Nat) (T : List (Nat × Int)) : Bool :=
  match findMarkers key Gen.markerIndex with
  | some ms => noMarkerShadowB T ms
  | none => false

theorem markerCheckB_elim {key : Nat} {T : List (Nat × Int)} (h : markerCheckB key T = true) :
    ∃ ms M, findMarkers key Gen.markerIndex = some ms ∧ attachMarkers T ms = some M ∧ NoMarkerShadow M := by
  unfold markerCheckB at h
  cases hf : findMarkers key Gen.markerIndex with
  | none => rw [hf] at h; simp at h
  | some ms =>
    rw [hf] at h
    obtain ⟨M, ha, hM⟩ := noMarkerShadowB_elim h
    exact ⟨ms, M, rfl, ha, hM⟩

def tableCheckB (key : Nat) (id : String) (f : List (Nat × Int) → Bool) : Bool :=
  match findTable key Gen.tableIndex with
  | some (id', _, T) => (id' == id) && f T
  | none => false

theorem tableCheckB_elim {key : Nat} {id : String} {f : List (Nat × Int) → Bool} (h : tableCheckB key id f = true) :
    ∃ e T, findTable key Gen.tableIndex = some (id, e, T) ∧ f T = true := by
  unfold tableCheckB at h
  split at h
  next id' e T heq =>
    simp only [Bool.and_eq_true, beq_iff_eq] at h
    obtain ⟨h1, h2⟩ := h
    subst h1
    exact ⟨e, T, heq, h2⟩
  next => simp at h

theorem tableConforms_of {key : Nat} {id : String}
    (h : tableCheckB key id (conformsB Registry.tree) = true) : TableConforms key id := by
  obtain ⟨e, T, heq, hf⟩ := tableCheckB_elim h
  exact ⟨e, T, heq, conformsB_sound registry_ordered hf⟩

theorem tableDecodesStd_of {key : Nat} {id : String}
    (h : tableCheckB key id (fun T => decodesStdB Registry.tree legacyAliases T T) = true) : TableDecodesStd key id := by
  obtain ⟨e, T, heq, hf⟩ := tableCheckB_elim h
  exact ⟨e, T, heq, decodesStdB_sound registry_ordered hf⟩

theorem tableNoMarkerShadow_of {key : Nat} {id : String}
    (h : tableCheckB key id (markerCheckB key) = true) : TableNoMarkerShadow key id := by
  obtain ⟨e, T, heq, hf⟩ := tableCheckB_elim h
  obtain ⟨ms, M, h1, h2, h3⟩ := markerCheckB_elim hf
  exact ⟨e, T, ms, M, heq, h1, h2, h3⟩

theorem tablesRelated_of {k1 k2 : Nat} {id1 id2 : String} {P : List (Nat × Int) → List (Nat × Int) → Prop}
    (f : List (Nat × Int) → List (Nat × Int) → Bool) (hf : ∀ M T, f M T = true → P M T)
    (h : tableCheckB k1 id1 (fun M => tableCheckB k2 id2 (fun T => f M T)) = true) : TablesRelated k1 id1 k2 id2 P := by
  obtain ⟨e1, M, h1, hM⟩ := tableCheckB_elim h
  obtain ⟨e2, T, h2, hT⟩ := tableCheckB_elim hM
  exact ⟨e1, M, e2, T, h1, h2, hf M T hT⟩

end PyElf.Props.C17
