/-
  C13 — address-range and name lookup tables resolve to the right compilation unit.

  Property theorems only.  `S = Spec.dwarfStructs ⟨le, 32, dasz, dver⟩` is the struct bundle
  `DWARFInfo.structs` (32-bit format, the container's default address size); by
  `Props/TieC13.lean` it is the bundle regenerated from the code.  `env` is arbitrary.
-/
import PyElf.Spec.DwarfLookup
import PyElf.Spec.DwarfStructs
import PyElf.Model.DwarfLookup
import PyElf.Proofs.DwarfLookup
import PyElf.Proofs.DwarfTables
import PyElf.Proofs.DwarfUnits
import PyElf.Props.TieC13
namespace PyElf.Props.C13
open PyElf PyElf.Spec.Lookup PyElf.Model.Lookup PyElf.Proofs.Lookup

/-! ### `.debug_aranges`: every encoded tuple with its set header -/

/-- `ARanges._get_entries()` on the encoding of any well-formed list of sets (any number of
    sets, address size 4/8 per set, padding to tuple alignment from the section start with any
    fill byte, empty sets, trailing bytes inside the unit length, tuples in any order) returns
    exactly the encoded tuples, each with its set's header, in encoded order. -/
theorem aranges_entries_exact (env : Env) (le : Bool) (dasz dver : Nat) (sets : List ARSet)
    (hwf : wfSets le 0 sets = true) :
    getEntries env (Spec.dwarfStructs ⟨le, 32, dasz, dver⟩) 32 (encSets le 0 sets) (encSets le 0 sets).length
      = .ok (entriesOf le 0 sets) := by
  have := setsLoop_spec (env := env) (data := encSets le 0 sets) (le := le) (dasz := dasz) (dver := dver)
    (size := (encSets le 0 sets).length) sets 0 ((encSets le 0 sets).length + 1) [] (by simp) (by simp) hwf
    (by have := encSets_length_ge le sets 0; omega)
  simpa [getEntries] using this

/-- the table object: entries ordered by begin address (ties in encoded order) and the key list -/
theorem aranges_init_exact (env : Env) (le : Bool) (dasz dver : Nat) (sets : List ARSet)
    (hwf : wfSets le 0 sets = true) :
    ARanges.init env (Spec.dwarfStructs ⟨le, 32, dasz, dver⟩) 32 (encSets le 0 sets) (encSets le 0 sets).length
      = .ok ⟨sortByBegin (entriesOf le 0 sets), (sortByBegin (entriesOf le 0 sets)).map (·.begin)⟩ := by
  unfold ARanges.init
  rw [aranges_entries_exact env le dasz dver sets hwf, sortByBegin_eq]
  rfl

/-- the sorted table has the same entries, ordered by begin address -/
theorem aranges_sorted (es : List AREntry) :
    (∀ e, e ∈ sortByBegin es ↔ e ∈ es) ∧ (sortByBegin es).Pairwise (fun a b => a.begin ≤ b.begin) := by
  rw [sortByBegin_eq]
  exact ⟨fun e => mem_pySortBy _ e es, pairwise_pySortBy _ es⟩

/-! ### `cu_offset_at_addr` -/

/-- For every address: the bisect lookup on the sorted table returns the debug-info offset of
    the encoded range containing the address, and `None` when no range contains it — provided
    no range begins inside another one (`noShadow`; this is forced: see
    `lookup_shadowed_counterexample`). -/
theorem lookup_exact (env : Env) (le : Bool) (dasz dver : Nat) (sets : List ARSet)
    (hwf : wfSets le 0 sets = true) (hns : (entriesOf le 0 sets).Pairwise noShadow) (a : Nat) :
    (do let t ← ARanges.init env (Spec.dwarfStructs ⟨le, 32, dasz, dver⟩) 32 (encSets le 0 sets)
                  (encSets le 0 sets).length
        t.cuOffsetAtAddr a)
      = .ok (cuOffsetAt (entriesOf le 0 sets) a) := by
  rw [aranges_init_exact env le dasz dver sets hwf, sortByBegin_eq]
  exact cuOffsetAtAddr_eq _ hns a

/-- the declarative reading of `cuOffsetAt`: some `o` iff an encoded range containing `a` belongs
    to the unit at `o`; none iff no encoded range contains `a` -/
theorem lookup_some_iff (es : List AREntry) (hns : es.Pairwise noShadow) (a o : Nat) :
    cuOffsetAt es a = some o ↔ ∃ e ∈ es, (e.begin ≤ a ∧ a < e.begin + e.len) ∧ e.infoOff = o :=
  cuOffsetAt_some_iff hns a o

theorem lookup_none_iff (es : List AREntry) (a : Nat) :
    cuOffsetAt es a = none ↔ ∀ e ∈ es, ¬ (e.begin ≤ a ∧ a < e.begin + e.len) :=
  cuOffsetAt_none_iff a

/-- the design's formulation: pairwise disjoint, non-empty ranges -/
theorem lookup_exact_disjoint (env : Env) (le : Bool) (dasz dver : Nat) (sets : List ARSet)
    (hwf : wfSets le 0 sets = true) (hd : (entriesOf le 0 sets).Pairwise disjoint)
    (hpos : ∀ e ∈ entriesOf le 0 sets, 0 < e.len) (a : Nat) :
    (do let t ← ARanges.init env (Spec.dwarfStructs ⟨le, 32, dasz, dver⟩) 32 (encSets le 0 sets)
                  (encSets le 0 sets).length
        t.cuOffsetAtAddr a)
      = .ok (cuOffsetAt (entriesOf le 0 sets) a) :=
  lookup_exact env le dasz dver sets hwf (noShadow_of_disjoint hd hpos) a

/-- a table in which a zero-length tuple lies inside a range: `[10, 20)` → unit 1, and an empty
    tuple at 15 -/
def shadowedTable : List AREntry := [⟨10, 10, 1, 28, 2, 4, 0⟩, ⟨15, 0, 2, 28, 2, 4, 0⟩]

/-- the hypothesis of `lookup_exact` is needed: address 16 is inside the first range, but the
    bisect lookup lands on the empty tuple and answers `None` (the claim's boundary) -/
theorem lookup_shadowed_counterexample :
    ARanges.cuOffsetAtAddr ⟨pySortBy (·.begin) shadowedTable, (pySortBy (·.begin) shadowedTable).map (·.begin)⟩ 16
        = .ok none
      ∧ cuOffsetAt shadowedTable 16 = some 1 := by
  refine ⟨?_, by decide⟩
  simp [shadowedTable, ARanges.cuOffsetAtAddr, pySortBy, insertByKey, bisectRight, bisectLoop, bind, Except.bind,
    pure, Except.pure]

/-- a table without any range (no sets, or only empty sets) answers `None` for every address
    (the pre-fix code raised IndexError here) -/
theorem lookup_empty (a : Nat) : ARanges.cuOffsetAtAddr ⟨[], []⟩ a = .ok none := by
  simp [ARanges.cuOffsetAtAddr, bisectRight, bisectLoop, bind, Except.bind, pure, Except.pure]

/-! ### `.debug_pubnames` / `.debug_pubtypes` -/

/-- `NameLUT._get_entries()` on the encoding of any well-formed list of name sets: the mapping
    built from the encoded (name → unit offset, unit offset + entry offset) pairs in encoded
    order, and every set header in encoded order. -/
theorem names_exact (env : Env) (le : Bool) (dasz dver : Nat) (sets : List NameSet)
    (hwf : ∀ s ∈ sets, wfNameSet le s = true) :
    nameGetEntries env (Spec.dwarfStructs ⟨le, 32, dasz, dver⟩) 32 (encNameSets le sets) (encNameSets le sets).length
      = .ok (mappingOf (namePairs sets), sets.map (nameHdrVal le)) := by
  have := nameSetsLoop_spec (env := env) (data := encNameSets le sets) (le := le) (dasz := dasz) (dver := dver)
    (size := (encNameSets le sets).length) sets 0 ((encNameSets le sets).length + 1) [] [] (by simp) (by simp) hwf
    (by have := encNameSets_length_ge le sets; omega)
  simpa [nameGetEntries, addSets_eq, mappingOf] using this

/-- for distinct names the mapping is the encoded pair list itself (order preserved) -/
theorem names_distinct (ps : List (Bytes × Nat × Nat)) (h : (ps.map (·.1)).Nodup) : mappingOf ps = ps :=
  mappingOf_nodup ps h

/-- with repeated names: a name maps to the value of its LAST occurrence … -/
theorem names_value_last (ps : List (Bytes × Nat × Nat)) (k : Bytes) :
    assocGet? (mappingOf ps) k = assocGet? ps.reverse k :=
  assocGet_mappingOf ps k

/-! ### unit lookup in `.debug_info` -/

/-- `get_CU_containing(x)`: for every cache state reachable by lookups (`Inv`), and every unit `c`
    of the section whose extent contains `x`, the answer is `c` and the cache stays consistent.
    `P` is `_parse_CU_at_offset`; `Chain P size 0 cs` says that the section is the units `cs` back
    to back (see `chain_encoded` for encoded sections). -/
theorem cu_containing_exact {P : Nat → R CU} {size x sz : Nat} {cs : List CU} {st : CUCache} {c : CU}
    (hPo : ∀ o c, P o = .ok c → c.cuOffset = o) (hch : Chain P size 0 cs) (hinv : Inv P cs st)
    (hc : c ∈ cs) (hsz : c.size = .ok sz) (h1 : c.cuOffset ≤ x) (h2 : x < c.cuOffset + sz) :
    ∃ st', getCUContaining P size st x = (.ok c, st') ∧ Inv P cs st' :=
  getCUContaining_exact hPo hch hinv hc hsz h1 h2

/-- every offset inside the section is inside some unit, so the lookup never misses -/
theorem cu_containing_total {P : Nat → R CU} {size x : Nat} {cs : List CU} {st : CUCache}
    (hPo : ∀ o c, P o = .ok c → c.cuOffset = o) (hch : Chain P size 0 cs) (hinv : Inv P cs st) (hx : x < size) :
    ∃ c sz st', getCUContaining P size st x = (.ok c, st') ∧ c ∈ cs ∧ c.size = .ok sz ∧
      c.cuOffset ≤ x ∧ x < c.cuOffset + sz ∧ Inv P cs st' :=
  getCUContaining_spec hPo hch hinv hx

/-- `get_CU_at(o)` for a unit start returns the unit starting there -/
theorem cu_at_exact {P : Nat → R CU} {size : Nat} {cs : List CU} {st : CUCache} {c : CU}
    (hPo : ∀ o c, P o = .ok c → c.cuOffset = o) (hch : Chain P size 0 cs) (hinv : Inv P cs st) (hc : c ∈ cs) :
    ∃ st', getCUAt P size st c.cuOffset = (.ok c, st') ∧ Inv P cs st' :=
  getCUAt_exact hPo hch hinv hc

/-- `get_DIE_from_lut_entry`: the DIE is read in the unit the entry names, at the entry's
    absolute offset -/
theorem lut_entry_exact {P : Nat → R CU} {size sz d : Nat} {cs : List CU} {st : CUCache} {c : CU}
    (hPo : ∀ o c, P o = .ok c → c.cuOffset = o) (hch : Chain P size 0 cs) (hinv : Inv P cs st) (hc : c ∈ cs)
    (hsz : c.size = .ok sz) (h1 : c.cuDieOffset ≤ d) (h2 : d < c.cuOffset + sz) :
    ∃ st', getDIEFromLutEntry P size st c.cuOffset d = (.ok (c, d), st') ∧ Inv P cs st' :=
  getDIEFromLutEntry_exact hPo hch hinv hc hsz h1 h2

/-- the empty cache of a fresh `DWARFInfo` satisfies the invariant, and every lookup keeps it:
    the theorems above therefore hold after any history of lookups -/
theorem cache_inv_initial (P : Nat → R CU) (cs : List CU) : Inv P cs CUCache.empty := inv_empty P cs

/-- `bisect_right` (CPython's loop) on a sorted list returns the split point between the keys
    ≤ x and the keys > x -/
theorem bisect_right_sorted (keys : List Nat) (x : Nat) (hs : keys.Pairwise (· ≤ ·)) :
    ∃ i, bisectRight keys x = .ok i ∧ i ≤ keys.length ∧
      (∀ j k, j < i → keys[j]? = some k → k ≤ x) ∧ (∀ j k, i ≤ j → keys[j]? = some k → x < k) :=
  bisectRight_spec x (sortedKeys_of_pairwise hs)


/-! ### unit lookup on encoded `.debug_info` sections -/

/-- An encoded sequence of well-formed units is a chain for the model's `_parse_CU_at_offset`
    (run with the Spec bundles): the unit-header round trip.
    PARTIAL: proved for unit versions 2–4, both DWARF formats.  The full statement is the same
    without `u.version < 5` (version 5 headers with the six unit types go through the
    `ENUM_DW_UT` switch of `Dwarf_CU_header`); version 5 is covered by correspondence only. -/
theorem chain_encoded_partial (enumDecode : String → Int → Option String) (le : Bool) (dasz : Nat)
    (us : List InfoUnit) (hwf : ∀ u ∈ us, wfUnit le u = true ∧ u.version < 5) :
    Chain (specP enumDecode le dasz (encUnits le us)) (encUnits le us).length 0 (cusOf le 0 us) :=
  chain_encoded us 0 hwf (by simp) (by simp)

/-- every offset of the section, every reachable cache state: `get_CU_containing` returns the unit
    whose extent contains the offset (its start, first-DIE offset, format and header as encoded) -/
theorem cu_containing_encoded_partial (enumDecode : String → Int → Option String) (le : Bool) (dasz : Nat)
    (us : List InfoUnit) (hwf : ∀ u ∈ us, wfUnit le u = true ∧ u.version < 5) (st : CUCache)
    (hinv : Inv (specP enumDecode le dasz (encUnits le us)) (cusOf le 0 us) st) (x o : Nat) (u : InfoUnit)
    (hu : unitContaining le us x = some (o, u)) :
    ∃ st', getCUContaining (specP enumDecode le dasz (encUnits le us)) (encUnits le us).length st x
        = (.ok (cuOf le o u), st') ∧ Inv (specP enumDecode le dasz (encUnits le us)) (cusOf le 0 us) st' := by
  have hm := List.mem_of_find?_eq_some hu
  have hp := List.find?_some hu
  simp only [decide_eq_true_eq] at hp
  have h5 := (hwf u (unitStarts_version us 0 o u hm)).2
  exact cu_containing_exact (fun o c h => parseCU_offset o c h) (chain_encoded_partial enumDecode le dasz us hwf) hinv
    (mem_cusOf us 0 o u hm) (cuOf_size h5) hp.1 hp.2

/-- an offset-exact lookup returns the unit starting there -/
theorem cu_at_encoded_partial (enumDecode : String → Int → Option String) (le : Bool) (dasz : Nat)
    (us : List InfoUnit) (hwf : ∀ u ∈ us, wfUnit le u = true ∧ u.version < 5) (st : CUCache)
    (hinv : Inv (specP enumDecode le dasz (encUnits le us)) (cusOf le 0 us) st) (x o : Nat) (u : InfoUnit)
    (hu : unitAt le us x = some (o, u)) :
    ∃ st', getCUAt (specP enumDecode le dasz (encUnits le us)) (encUnits le us).length st x
        = (.ok (cuOf le o u), st') ∧ Inv (specP enumDecode le dasz (encUnits le us)) (cusOf le 0 us) st' := by
  have hm := List.mem_of_find?_eq_some hu
  have hp := List.find?_some hu
  simp only [beq_iff_eq] at hp
  subst hp
  exact cu_at_exact (c := cuOf le o u) (fun o c h => parseCU_offset o c h)
    (chain_encoded_partial enumDecode le dasz us hwf) hinv (mem_cusOf us 0 o u hm)

/-- a name-table entry that names a unit start and an offset between that unit's first DIE and
    its end leads to that unit and that offset -/
theorem lut_entry_encoded_partial (enumDecode : String → Int → Option String) (le : Bool) (dasz : Nat)
    (us : List InfoUnit) (hwf : ∀ u ∈ us, wfUnit le u = true ∧ u.version < 5) (st : CUCache)
    (hinv : Inv (specP enumDecode le dasz (encUnits le us)) (cusOf le 0 us) st) (x d o : Nat) (u : InfoUnit)
    (hu : unitAt le us x = some (o, u)) (h1 : (unitObs le o u).dieOff ≤ d) (h2 : d < o + unitSize le u) :
    ∃ st', getDIEFromLutEntry (specP enumDecode le dasz (encUnits le us)) (encUnits le us).length st x d
        = (.ok (cuOf le o u, d), st') ∧ Inv (specP enumDecode le dasz (encUnits le us)) (cusOf le 0 us) st' := by
  have hm := List.mem_of_find?_eq_some hu
  have hp := List.find?_some hu
  simp only [beq_iff_eq] at hp
  subst hp
  have h5 := (hwf u (unitStarts_version us 0 o u hm)).2
  exact lut_entry_exact (c := cuOf le o u) (fun o c h => parseCU_offset o c h)
    (chain_encoded_partial enumDecode le dasz us hwf) hinv (mem_cusOf us 0 o u hm) (cuOf_size h5) h1 h2

/-- the unit object of the model is the observation the Spec prescribes -/
theorem cuOf_obs (le : Bool) (o : Nat) (u : InfoUnit) :
    let c := cuOf le o u
    let ob := unitObs le o u
    c.cuOffset = ob.off ∧ c.cuDieOffset = ob.dieOff ∧ c.fmt = ob.fmt ∧ c.header = ob.hdr := by
  exact ⟨rfl, rfl, rfl, rfl⟩

example : wfUnit true ⟨false, 4, 1, 0, 8, 0, 0, [1, 0]⟩ = true ∧ wfUnit true ⟨true, 3, 1, 7, 4, 0, 0, []⟩ = true := by decide

/-! ### non-vacuity -/

/-- two sets (address sizes 4 and 8, the second needing 4 bytes of padding… ) with unsorted and
    adjacent ranges are well-formed and shadow-free -/
example :
    let sets : List ARSet := [⟨2, 0, 4, [⟨0x2000, 0x10⟩, ⟨0x1000, 0x20⟩], 0, []⟩, ⟨2, 0x40, 8, [⟨0x1020, 8⟩], 0xAA, [1, 2]⟩,
                              ⟨2, 0x80, 4, [], 0, []⟩]
    wfSets true 0 sets = true ∧ (entriesOf true 0 sets).Pairwise noShadow := by
  decide

example : wfNameSet false ⟨2, 0x10, 0x40, [⟨11, [0x6d, 0x61, 0x69, 0x6e]⟩, ⟨25, [0xc3, 0xa9]⟩]⟩ = true := by decide

end PyElf.Props.C13
