/-
  C13 — address-range and name lookup tables resolve to the right compilation unit.

  Property theorems only.  `S = Spec.dwarfStructs ⟨le, 32, dasz, dver⟩` is the struct bundle
  `DWARFInfo.structs` (32-bit format, the container's default address size); by
  `Props/TieC13.lean` it is the bundle regenerated from the code.  `env` is arbitrary.

  PROVED (kernel-checked, no extra hypothesis beyond the well-formedness of the encoded object):
    * `.debug_aranges`: `aranges_entries_exact`, `aranges_init_exact`, `aranges_sorted`;
      `lookup_exact` under `noShadow` (needed: `lookup_shadowed_counterexample`), its declarative
      reading `lookup_some_iff` / `lookup_none_iff`, `lookup_exact_disjoint`, `lookup_empty`.
    * name tables: `names_exact`; `names_exact_ordered` — the exact ordered content for ANY entry
      list incl. names repeated within and across sets (keys in first-occurrence order, value of
      the last occurrence; `OrderedLastWins` determines it uniquely: `ordered_last_wins_unique`);
      `names_mapping_ordered`, and the older `names_distinct`, `names_value_last`.
    * unit lookup, abstract (`Chain`/`Inv`): `cu_containing_exact`, `cu_containing_total`,
      `cu_at_exact`, `lut_entry_exact`, `cache_inv_initial`, `bisect_right_sorted`.
    * unit lookup on encoded sections, EVERY version 2–5, all six DWARF 5 unit types, both DWARF
      formats, units mixed freely: `chain_encoded`, `cu_containing_encoded`, `cu_at_encoded`,
      `lut_entry_encoded` (hypothesis `hUT` on the enum decoder, discharged for the regenerated
      decoder: the `_gen` forms), `unit_containing_defined` (every offset 0..size-1 is covered).
      The superseded version-2–4 forms stay as `…_encoded_partial`.
    * address → range table → unit (`addr_to_unit`) and the tables that give nothing:
      `aranges_absent`, `aranges_empty_resolves_nothing`, `cu_containing_without_table`,
      `cu_lookup_no_info`.
    * SIXTH WAVE — the lookups that end in an ENTRY, composed with C04 (imported: `Props/C04.lean`
      `debug_info_exact`, `refs_info_exact`, the forest description `Spec.C04.Forest`):
      `ref_addr_scan_agrees` (C13's bisect/cache model of `get_DIE_from_refaddr` = C04's linear scan
      `Driver.C04.sectionRef`, every chain, every reachable cache state, every integer offset),
      `ref_addr_resolution_exact` (DW_FORM_ref_addr to any entry of a well-formed forest: unit and
      entry, from section bytes), `lut_entry_die_exact` / `name_to_die_exact`
      (`get_pubnames()[name]` → `get_DIE_from_lut_entry` → the forest's entry: tag, attributes),
      `addr_to_top_die` (address → range table → unit → `get_top_DIE()`).
  CORRESPONDENCE ONLY (model = code by differential runs, no theorem): the hand-written models
  themselves (the tie for control flow); malformed / truncated tables and every error class
  (`ar_raw`, `nm_raw`, `cu_raw`); `need_empty=True`; shadowed range tables (outside `noShadow`);
  name tables with ill-formed UTF-8; 64-bit-format range/name tables (not in the quantifier);
  the per-unit DIE cache behind `_get_cached_DIE` (C10; the entry model is C04's pure parse-on-miss);
  the ELF container glue.
-/
import PyElf.Spec.DwarfLookup
import PyElf.Spec.DwarfStructs
import PyElf.Model.DwarfLookup
import PyElf.Proofs.DwarfLookup
import PyElf.Proofs.DwarfTables
import PyElf.Proofs.DwarfUnits
import PyElf.Proofs.DieHeaders
import PyElf.Proofs.DwarfUnitsAll
import PyElf.Proofs.DwarfNameOrder
import PyElf.Proofs.DwarfResolve
import PyElf.Proofs.DwarfRefResolve
import PyElf.Proofs.DwarfForest
import PyElf.Props.TieC13
namespace PyElf.Props.C13
open PyElf PyElf.Spec.Lookup PyElf.Model.Lookup PyElf.Proofs.Lookup

/-! ### `.debug_aranges`: every encoded tuple with its set header -/

/-- `ARanges._get_entries()` on the encoding of any well-formed list of sets (any number of
    sets, address size 4/8 per set, padding to tuple alignment from the section start with any
    fill byte, empty sets, trailing bytes inside the unit length, tuples in any order) returns
    exactly the encoded tuples, each with its set's header, in encoded order. -/
theorem aranges_entries_exact (env : Env) (le : Bool) (dasz dver : Nat) (sets : List ARSet)
    (hwf : wfSets le 0 sets = true) :
    getEntries env (Spec.dwarfStructs ⟨le, 32, dasz, dver⟩) 32 (encSets le 0 sets) (encSets le 0 sets).length
      = .ok (entriesOf le 0 sets) := by
  have := setsLoop_spec (env := env) (data := encSets le 0 sets) (le := le) (dasz := dasz) (dver := dver)
    (size := (encSets le 0 sets).length) sets 0 ((encSets le 0 sets).length + 1) [] (by simp) (by simp) hwf
    (by have := encSets_length_ge le sets 0; omega)
  simpa [getEntries] using this

/-- the table object: entries ordered by begin address (ties in encoded order) and the key list -/
theorem aranges_init_exact (env : Env) (le : Bool) (dasz dver : Nat) (sets : List ARSet)
    (hwf : wfSets le 0 sets = true) :
    ARanges.init env (Spec.dwarfStructs ⟨le, 32, dasz, dver⟩) 32 (encSets le 0 sets) (encSets le 0 sets).length
      = .ok ⟨sortByBegin (entriesOf le 0 sets), (sortByBegin (entriesOf le 0 sets)).map (·.begin)⟩ := by
  unfold ARanges.init
  rw [aranges_entries_exact env le dasz dver sets hwf, sortByBegin_eq]
  rfl

/-- the sorted table has the same entries, ordered by begin address -/
theorem aranges_sorted (es : List AREntry) :
    (∀ e, e ∈ sortByBegin es ↔ e ∈ es) ∧ (sortByBegin es).Pairwise (fun a b => a.begin ≤ b.begin) := by
  rw [sortByBegin_eq]
  exact ⟨fun e => mem_pySortBy _ e es, pairwise_pySortBy _ es⟩

/-! ### `cu_offset_at_addr` -/

/-- For every address: the bisect lookup on the sorted table returns the debug-info offset of
    the encoded range containing the address, and `None` when no range contains it — provided
    no range begins inside another one (`noShadow`; this is forced: see
    `lookup_shadowed_counterexample`). -/
theorem lookup_exact (env : Env) (le : Bool) (dasz dver : Nat) (sets : List ARSet)
    (hwf : wfSets le 0 sets = true) (hns : (entriesOf le 0 sets).Pairwise noShadow) (a : Nat) :
    (do let t ← ARanges.init env (Spec.dwarfStructs ⟨le, 32, dasz, dver⟩) 32 (encSets le 0 sets)
                  (encSets le 0 sets).length
        t.cuOffsetAtAddr a)
      = .ok (cuOffsetAt (entriesOf le 0 sets) a) := by
  rw [aranges_init_exact env le dasz dver sets hwf, sortByBegin_eq]
  exact cuOffsetAtAddr_eq _ hns a

/-- the declarative reading of `cuOffsetAt`: some `o` iff an encoded range containing `a` belongs
    to the unit at `o`; none iff no encoded range contains `a` -/
theorem lookup_some_iff (es : List AREntry) (hns : es.Pairwise noShadow) (a o : Nat) :
    cuOffsetAt es a = some o ↔ ∃ e ∈ es, (e.begin ≤ a ∧ a < e.begin + e.len) ∧ e.infoOff = o :=
  cuOffsetAt_some_iff hns a o

theorem lookup_none_iff (es : List AREntry) (a : Nat) :
    cuOffsetAt es a = none ↔ ∀ e ∈ es, ¬ (e.begin ≤ a ∧ a < e.begin + e.len) :=
  cuOffsetAt_none_iff a

/-- the design's formulation: pairwise disjoint, non-empty ranges -/
theorem lookup_exact_disjoint (env : Env) (le : Bool) (dasz dver : Nat) (sets : List ARSet)
    (hwf : wfSets le 0 sets = true) (hd : (entriesOf le 0 sets).Pairwise disjoint)
    (hpos : ∀ e ∈ entriesOf le 0 sets, 0 < e.len) (a : Nat) :
    (do let t ← ARanges.init env (Spec.dwarfStructs ⟨le, 32, dasz, dver⟩) 32 (encSets le 0 sets)
                  (encSets le 0 sets).length
        t.cuOffsetAtAddr a)
      = .ok (cuOffsetAt (entriesOf le 0 sets) a) :=
  lookup_exact env le dasz dver sets hwf (noShadow_of_disjoint hd hpos) a

/-- a table in which a zero-length tuple lies inside a range: `[10, 20)` → unit 1, and an empty
    tuple at 15 -/
def shadowedTable : List AREntry := [⟨10, 10, 1, 28, 2, 4, 0⟩, ⟨15, 0, 2, 28, 2, 4, 0⟩]

/-- the hypothesis of `lookup_exact` is needed: address 16 is inside the first range, but the
    bisect lookup lands on the empty tuple and answers `None` (the claim's boundary) -/
theorem lookup_shadowed_counterexample :
    ARanges.cuOffsetAtAddr ⟨pySortBy (·.begin) shadowedTable, (pySortBy (·.begin) shadowedTable).map (·.begin)⟩ 16
        = .ok none
      ∧ cuOffsetAt shadowedTable 16 = some 1 := by
  refine ⟨?_, by decide⟩
  simp [shadowedTable, ARanges.cuOffsetAtAddr, pySortBy, insertByKey, bisectRight, bisectLoop, bind, Except.bind,
    pure, Except.pure]

/-- a table without any range (no sets, or only empty sets) answers `None` for every address
    (the pre-fix code raised IndexError here) -/
theorem lookup_empty (a : Nat) : ARanges.cuOffsetAtAddr ⟨[], []⟩ a = .ok none := by
  simp [ARanges.cuOffsetAtAddr, bisectRight, bisectLoop, bind, Except.bind, pure, Except.pure]

/-! ### `.debug_pubnames` / `.debug_pubtypes` -/

/-- `NameLUT._get_entries()` on the encoding of any well-formed list of name sets: the mapping
    built from the encoded (name → unit offset, unit offset + entry offset) pairs in encoded
    order, and every set header in encoded order. -/
theorem names_exact (env : Env) (le : Bool) (dasz dver : Nat) (sets : List NameSet)
    (hwf : ∀ s ∈ sets, wfNameSet le s = true) :
    nameGetEntries env (Spec.dwarfStructs ⟨le, 32, dasz, dver⟩) 32 (encNameSets le sets) (encNameSets le sets).length
      = .ok (mappingOf (namePairs sets), sets.map (nameHdrVal le)) := by
  have := nameSetsLoop_spec (env := env) (data := encNameSets le sets) (le := le) (dasz := dasz) (dver := dver)
    (size := (encNameSets le sets).length) sets 0 ((encNameSets le sets).length + 1) [] [] (by simp) (by simp) hwf
    (by have := encNameSets_length_ge le sets; omega)
  simpa [nameGetEntries, addSets_eq, mappingOf] using this

/-- for distinct names the mapping is the encoded pair list itself (order preserved) -/
theorem names_distinct (ps : List (Bytes × Nat × Nat)) (h : (ps.map (·.1)).Nodup) : mappingOf ps = ps :=
  mappingOf_nodup ps h

/-- with repeated names: a name maps to the value of its LAST occurrence … -/
theorem names_value_last (ps : List (Bytes × Nat × Nat)) (k : Bytes) :
    assocGet? (mappingOf ps) k = assocGet? ps.reverse k :=
  assocGet_mappingOf ps k

/-- THE EXACT ORDERED CONTENT, repeated names included (any entry list, any number of sets, names
    repeated within a set and across sets): the mapping `NameLUT` builds from the encoding is the
    item list `m` whose keys are the distinct encoded names in order of FIRST occurrence, each
    carrying the (unit offset, absolute entry offset) of its LAST occurrence — Python `dict`
    overwrite semantics — together with every set header in encoded order.
    `OrderedLastWins` (Spec/DwarfNameOrder.lean) says this without reference to any algorithm and
    determines `m` uniquely (`ordered_last_wins_unique`); `orderedLastWins` is its computable form. -/
theorem names_exact_ordered (env : Env) (le : Bool) (dasz dver : Nat) (sets : List NameSet)
    (hwf : ∀ s ∈ sets, wfNameSet le s = true) :
    ∃ m, nameGetEntries env (Spec.dwarfStructs ⟨le, 32, dasz, dver⟩) 32 (encNameSets le sets) (encNameSets le sets).length
          = .ok (m, sets.map (nameHdrVal le))
      ∧ OrderedLastWins (namePairs sets) m ∧ m = orderedLastWins (namePairs sets) := by
  refine ⟨mappingOf (namePairs sets), names_exact env le dasz dver sets hwf, ?_, mappingOf_eq_orderedLastWins _⟩
  rw [mappingOf_eq_orderedLastWins]
  exact orderedLastWins_spec _

/-- on any pair list: successive `d[name] = value` yields exactly the declarative content -/
theorem names_mapping_ordered (ps : List (Bytes × Nat × Nat)) :
    mappingOf ps = orderedLastWins ps ∧ OrderedLastWins ps (mappingOf ps) := by
  refine ⟨mappingOf_eq_orderedLastWins ps, ?_⟩
  rw [mappingOf_eq_orderedLastWins]; exact orderedLastWins_spec ps

/-- the predicate pins the item list down completely -/
theorem ordered_last_wins_unique (ps m : List (Bytes × Nat × Nat)) : OrderedLastWins ps m ↔ m = orderedLastWins ps :=
  orderedLastWins_iff ps m

/-- non-vacuity and a worked case: `main` occurs twice in the first set and again in the second,
    `x` occurs in both sets; the sets are well-formed, and the content is `main`, `x`, `y` (first
    occurrence order) with the values of the last occurrences -/
example :
    let sets : List NameSet :=
      [⟨2, 0x10, 0x40, [⟨11, [0x6d, 0x61, 0x69, 0x6e]⟩, ⟨12, [0x78]⟩, ⟨13, [0x6d, 0x61, 0x69, 0x6e]⟩]⟩,
       ⟨2, 0x50, 0x40, [⟨21, [0x79]⟩, ⟨22, [0x78]⟩, ⟨23, [0x6d, 0x61, 0x69, 0x6e]⟩]⟩]
    (∀ s ∈ sets, wfNameSet true s = true) ∧
      orderedLastWins (namePairs sets)
        = [([0x6d, 0x61, 0x69, 0x6e], 0x50, 0x50 + 23), ([0x78], 0x50, 0x50 + 22), ([0x79], 0x50, 0x50 + 21)] := by
  decide

/-! ### unit lookup in `.debug_info` -/

/-- `get_CU_containing(x)`: for every cache state reachable by lookups (`Inv`), and every unit `c`
    of the section whose extent contains `x`, the answer is `c` and the cache stays consistent.
    `P` is `_parse_CU_at_offset`; `Chain P size 0 cs` says that the section is the units `cs` back
    to back (see `chain_encoded` for encoded sections). -/
theorem cu_containing_exact {P : Nat → R CU} {size x sz : Nat} {cs : List CU} {st : CUCache} {c : CU}
    (hPo : ∀ o c, P o = .ok c → c.cuOffset = o) (hch : Chain P size 0 cs) (hinv : Inv P cs st)
    (hc : c ∈ cs) (hsz : c.size = .ok sz) (h1 : c.cuOffset ≤ x) (h2 : x < c.cuOffset + sz) :
    ∃ st', getCUContaining P size st x = (.ok c, st') ∧ Inv P cs st' :=
  getCUContaining_exact hPo hch hinv hc hsz h1 h2

/-- every offset inside the section is inside some unit, so the lookup never misses -/
theorem cu_containing_total {P : Nat → R CU} {size x : Nat} {cs : List CU} {st : CUCache}
    (hPo : ∀ o c, P o = .ok c → c.cuOffset = o) (hch : Chain P size 0 cs) (hinv : Inv P cs st) (hx : x < size) :
    ∃ c sz st', getCUContaining P size st x = (.ok c, st') ∧ c ∈ cs ∧ c.size = .ok sz ∧
      c.cuOffset ≤ x ∧ x < c.cuOffset + sz ∧ Inv P cs st' :=
  getCUContaining_spec hPo hch hinv hx

/-- `get_CU_at(o)` for a unit start returns the unit starting there -/
theorem cu_at_exact {P : Nat → R CU} {size : Nat} {cs : List CU} {st : CUCache} {c : CU}
    (hPo : ∀ o c, P o = .ok c → c.cuOffset = o) (hch : Chain P size 0 cs) (hinv : Inv P cs st) (hc : c ∈ cs) :
    ∃ st', getCUAt P size st c.cuOffset = (.ok c, st') ∧ Inv P cs st' :=
  getCUAt_exact hPo hch hinv hc

/-- `get_DIE_from_lut_entry`: the DIE is read in the unit the entry names, at the entry's
    absolute offset -/
theorem lut_entry_exact {P : Nat → R CU} {size sz d : Nat} {cs : List CU} {st : CUCache} {c : CU}
    (hPo : ∀ o c, P o = .ok c → c.cuOffset = o) (hch : Chain P size 0 cs) (hinv : Inv P cs st) (hc : c ∈ cs)
    (hsz : c.size = .ok sz) (h1 : c.cuDieOffset ≤ d) (h2 : d < c.cuOffset + sz) :
    ∃ st', getDIEFromLutEntry P size st c.cuOffset d = (.ok (c, d), st') ∧ Inv P cs st' :=
  getDIEFromLutEntry_exact hPo hch hinv hc hsz h1 h2

/-- the empty cache of a fresh `DWARFInfo` satisfies the invariant, and every lookup keeps it:
    the theorems above therefore hold after any history of lookups -/
theorem cache_inv_initial (P : Nat → R CU) (cs : List CU) : Inv P cs CUCache.empty := inv_empty P cs

/-- `bisect_right` (CPython's loop) on a sorted list returns the split point between the keys
    ≤ x and the keys > x -/
theorem bisect_right_sorted (keys : List Nat) (x : Nat) (hs : keys.Pairwise (· ≤ ·)) :
    ∃ i, bisectRight keys x = .ok i ∧ i ≤ keys.length ∧
      (∀ j k, j < i → keys[j]? = some k → k ≤ x) ∧ (∀ j k, i ≤ j → keys[j]? = some k → x < k) :=
  bisectRight_spec x (sortedKeys_of_pairwise hs)


/-! ### unit lookup on encoded `.debug_info` sections -/

/-- An encoded sequence of well-formed units is a chain for the model's `_parse_CU_at_offset`
    (run with the Spec bundles): the unit-header round trip.
    PARTIAL: unit versions 2–4, both DWARF formats.  SUPERSEDED by the full `chain_encoded` below
    (same statement without `u.version < 5`: version 5 headers with the six unit types go through
    the `ENUM_DW_UT` switch of `Dwarf_CU_header`); kept under its `_partial` name, as are the three
    theorems built on it. -/
theorem chain_encoded_partial (enumDecode : String → Int → Option String) (le : Bool) (dasz : Nat)
    (us : List InfoUnit) (hwf : ∀ u ∈ us, wfUnit le u = true ∧ u.version < 5) :
    Chain (specP enumDecode le dasz (encUnits le us)) (encUnits le us).length 0 (cusOf le 0 us) :=
  chain_encoded us 0 hwf (by simp) (by simp)

/-- every offset of the section, every reachable cache state: `get_CU_containing` returns the unit
    whose extent contains the offset (its start, first-DIE offset, format and header as encoded) -/
theorem cu_containing_encoded_partial (enumDecode : String → Int → Option String) (le : Bool) (dasz : Nat)
    (us : List InfoUnit) (hwf : ∀ u ∈ us, wfUnit le u = true ∧ u.version < 5) (st : CUCache)
    (hinv : Inv (specP enumDecode le dasz (encUnits le us)) (cusOf le 0 us) st) (x o : Nat) (u : InfoUnit)
    (hu : unitContaining le us x = some (o, u)) :
    ∃ st', getCUContaining (specP enumDecode le dasz (encUnits le us)) (encUnits le us).length st x
        = (.ok (cuOf le o u), st') ∧ Inv (specP enumDecode le dasz (encUnits le us)) (cusOf le 0 us) st' := by
  have hm := List.mem_of_find?_eq_some hu
  have hp := List.find?_some hu
  simp only [decide_eq_true_eq] at hp
  have h5 := (hwf u (unitStarts_version us 0 o u hm)).2
  exact cu_containing_exact (fun o c h => parseCU_offset o c h) (chain_encoded_partial enumDecode le dasz us hwf) hinv
    (mem_cusOf us 0 o u hm) (cuOf_size h5) hp.1 hp.2

/-- an offset-exact lookup returns the unit starting there -/
theorem cu_at_encoded_partial (enumDecode : String → Int → Option String) (le : Bool) (dasz : Nat)
    (us : List InfoUnit) (hwf : ∀ u ∈ us, wfUnit le u = true ∧ u.version < 5) (st : CUCache)
    (hinv : Inv (specP enumDecode le dasz (encUnits le us)) (cusOf le 0 us) st) (x o : Nat) (u : InfoUnit)
    (hu : unitAt le us x = some (o, u)) :
    ∃ st', getCUAt (specP enumDecode le dasz (encUnits le us)) (encUnits le us).length st x
        = (.ok (cuOf le o u), st') ∧ Inv (specP enumDecode le dasz (encUnits le us)) (cusOf le 0 us) st' := by
  have hm := List.mem_of_find?_eq_some hu
  have hp := List.find?_some hu
  simp only [beq_iff_eq] at hp
  subst hp
  exact cu_at_exact (c := cuOf le o u) (fun o c h => parseCU_offset o c h)
    (chain_encoded_partial enumDecode le dasz us hwf) hinv (mem_cusOf us 0 o u hm)

/-- a name-table entry that names a unit start and an offset between that unit's first DIE and
    its end leads to that unit and that offset -/
theorem lut_entry_encoded_partial (enumDecode : String → Int → Option String) (le : Bool) (dasz : Nat)
    (us : List InfoUnit) (hwf : ∀ u ∈ us, wfUnit le u = true ∧ u.version < 5) (st : CUCache)
    (hinv : Inv (specP enumDecode le dasz (encUnits le us)) (cusOf le 0 us) st) (x d o : Nat) (u : InfoUnit)
    (hu : unitAt le us x = some (o, u)) (h1 : (unitObs le o u).dieOff ≤ d) (h2 : d < o + unitSize le u) :
    ∃ st', getDIEFromLutEntry (specP enumDecode le dasz (encUnits le us)) (encUnits le us).length st x d
        = (.ok (cuOf le o u, d), st') ∧ Inv (specP enumDecode le dasz (encUnits le us)) (cusOf le 0 us) st' := by
  have hm := List.mem_of_find?_eq_some hu
  have hp := List.find?_some hu
  simp only [beq_iff_eq] at hp
  subst hp
  have h5 := (hwf u (unitStarts_version us 0 o u hm)).2
  exact lut_entry_exact (c := cuOf le o u) (fun o c h => parseCU_offset o c h)
    (chain_encoded_partial enumDecode le dasz us hwf) hinv (mem_cusOf us 0 o u hm) (cuOf_size h5) h1 h2

/-! ### unit lookup on encoded `.debug_info` sections: every supported version (2–5)

  The FULL forms of the four `_partial` theorems above: no restriction on the unit version.  DWARF 5
  headers go through the `ENUM_DW_UT` switch of `Dwarf_CU_header` with all six unit types (compile,
  type, partial, skeleton, split_compile, split_type), both DWARF formats, mixed freely with
  version 2–4 units in one section.  The unit-header round trip is C04's (`Proofs/DieHeaders.lean`:
  `parseCU_encoded_all`, `chain_encoded_all`, `cuOf_size_all`), imported, not copied.

  `hUT` says that the enum decoder names the six unit types as DWARF 5 table 7.2 does; the
  regenerated decoder does (`TieC13.enum_ut`), which gives the hypothesis-free `_gen` forms. -/

/-- An encoded sequence of well-formed units (versions 2–5, any v5 unit type, both formats) is a
    chain for the model's `_parse_CU_at_offset`. -/
theorem chain_encoded (enumDecode : String → Int → Option String)
    (hUT : ∀ k : Nat, 1 ≤ k → k ≤ 6 → enumDecode "ENUM_DW_UT" k = utName k) (le : Bool) (dasz : Nat)
    (us : List InfoUnit) (hwf : ∀ u ∈ us, wfUnit le u = true) :
    Chain (specP enumDecode le dasz (encUnits le us)) (encUnits le us).length 0 (cusOf le 0 us) :=
  Proofs.C04.chain_encoded_all hUT us 0 hwf (by simp) (by simp)

/-- every offset of the section, every reachable cache state: `get_CU_containing` returns the unit
    whose extent contains the offset (its start, first-DIE offset, format and header as encoded) -/
theorem cu_containing_encoded (enumDecode : String → Int → Option String)
    (hUT : ∀ k : Nat, 1 ≤ k → k ≤ 6 → enumDecode "ENUM_DW_UT" k = utName k) (le : Bool) (dasz : Nat)
    (us : List InfoUnit) (hwf : ∀ u ∈ us, wfUnit le u = true) (st : CUCache)
    (hinv : Inv (specP enumDecode le dasz (encUnits le us)) (cusOf le 0 us) st) (x o : Nat) (u : InfoUnit)
    (hu : unitContaining le us x = some (o, u)) :
    ∃ st', getCUContaining (specP enumDecode le dasz (encUnits le us)) (encUnits le us).length st x
        = (.ok (cuOf le o u), st') ∧ Inv (specP enumDecode le dasz (encUnits le us)) (cusOf le 0 us) st' := by
  have hm := List.mem_of_find?_eq_some hu
  have hp := List.find?_some hu
  simp only [decide_eq_true_eq] at hp
  exact cu_containing_exact (fun o c h => parseCU_offset o c h) (chain_encoded enumDecode hUT le dasz us hwf) hinv
    (mem_cusOf us 0 o u hm) Proofs.C04.cuOf_size_all hp.1 hp.2

/-- … and every offset of the section IS inside exactly such a unit: the hypothesis `hu` of
    `cu_containing_encoded` is satisfiable for all `x` in `0 .. size-1` (and for no other `x`) -/
theorem unit_containing_defined (le : Bool) (us : List InfoUnit) (x : Nat) :
    x < (encUnits le us).length ↔ ∃ o u, unitContaining le us x = some (o, u) :=
  unitContaining_isSome_iff le us x

/-- an offset-exact lookup returns the unit starting there -/
theorem cu_at_encoded (enumDecode : String → Int → Option String)
    (hUT : ∀ k : Nat, 1 ≤ k → k ≤ 6 → enumDecode "ENUM_DW_UT" k = utName k) (le : Bool) (dasz : Nat)
    (us : List InfoUnit) (hwf : ∀ u ∈ us, wfUnit le u = true) (st : CUCache)
    (hinv : Inv (specP enumDecode le dasz (encUnits le us)) (cusOf le 0 us) st) (x o : Nat) (u : InfoUnit)
    (hu : unitAt le us x = some (o, u)) :
    ∃ st', getCUAt (specP enumDecode le dasz (encUnits le us)) (encUnits le us).length st x
        = (.ok (cuOf le o u), st') ∧ Inv (specP enumDecode le dasz (encUnits le us)) (cusOf le 0 us) st' := by
  have hm := List.mem_of_find?_eq_some hu
  have hp := List.find?_some hu
  simp only [beq_iff_eq] at hp
  subst hp
  exact cu_at_exact (c := cuOf le o u) (fun o c h => parseCU_offset o c h)
    (chain_encoded enumDecode hUT le dasz us hwf) hinv (mem_cusOf us 0 o u hm)

/-- a name-table entry that names a unit start and an offset between that unit's first DIE and
    its end leads to that unit and that offset -/
theorem lut_entry_encoded (enumDecode : String → Int → Option String)
    (hUT : ∀ k : Nat, 1 ≤ k → k ≤ 6 → enumDecode "ENUM_DW_UT" k = utName k) (le : Bool) (dasz : Nat)
    (us : List InfoUnit) (hwf : ∀ u ∈ us, wfUnit le u = true) (st : CUCache)
    (hinv : Inv (specP enumDecode le dasz (encUnits le us)) (cusOf le 0 us) st) (x d o : Nat) (u : InfoUnit)
    (hu : unitAt le us x = some (o, u)) (h1 : (unitObs le o u).dieOff ≤ d) (h2 : d < o + unitSize le u) :
    ∃ st', getDIEFromLutEntry (specP enumDecode le dasz (encUnits le us)) (encUnits le us).length st x d
        = (.ok (cuOf le o u, d), st') ∧ Inv (specP enumDecode le dasz (encUnits le us)) (cusOf le 0 us) st' := by
  have hm := List.mem_of_find?_eq_some hu
  have hp := List.find?_some hu
  simp only [beq_iff_eq] at hp
  subst hp
  exact lut_entry_exact (c := cuOf le o u) (fun o c h => parseCU_offset o c h)
    (chain_encoded enumDecode hUT le dasz us hwf) hinv (mem_cusOf us 0 o u hm) Proofs.C04.cuOf_size_all h1 h2

/-- non-vacuity of `hUT`: the decoder regenerated from the code satisfies it -/
example : ∀ k : Nat, 1 ≤ k → k ≤ 6 → Model.genEnumDecode "ENUM_DW_UT" k = utName k := TieC13.enum_ut

/-- non-vacuity of `hwf`: one section mixing a v2 unit, all six v5 unit types (32- and 64-bit
    format) and a v4 unit is well-formed -/
example :
    ∀ u ∈ ([⟨false, 2, 1, 0, 4, 0, 0, [1]⟩, ⟨false, 5, 1, 0, 8, 0, 0, [1, 0]⟩, ⟨true, 5, 2, 7, 4, 0x1122334455667788, 0x21, []⟩,
            ⟨false, 5, 3, 0, 4, 0, 0, [1]⟩, ⟨true, 5, 4, 0, 8, 0xFFFFFFFFFFFFFFFF, 0, [1]⟩,
            ⟨false, 5, 5, 0, 4, 1, 0, []⟩, ⟨false, 5, 6, 0, 8, 2, 0xFFFFFFFF, [1, 1, 0]⟩, ⟨true, 4, 1, 3, 8, 0, 0, [1]⟩] : List InfoUnit),
      wfUnit true u = true := by decide

/-! the same four with the regenerated enum decoder: no hypothesis besides well-formedness -/

theorem chain_encoded_gen (le : Bool) (dasz : Nat) (us : List InfoUnit) (hwf : ∀ u ∈ us, wfUnit le u = true) :
    Chain (specP Model.genEnumDecode le dasz (encUnits le us)) (encUnits le us).length 0 (cusOf le 0 us) :=
  chain_encoded _ TieC13.enum_ut le dasz us hwf

theorem cu_containing_encoded_gen (le : Bool) (dasz : Nat) (us : List InfoUnit) (hwf : ∀ u ∈ us, wfUnit le u = true)
    (st : CUCache) (hinv : Inv (specP Model.genEnumDecode le dasz (encUnits le us)) (cusOf le 0 us) st) (x o : Nat)
    (u : InfoUnit) (hu : unitContaining le us x = some (o, u)) :
    ∃ st', getCUContaining (specP Model.genEnumDecode le dasz (encUnits le us)) (encUnits le us).length st x
        = (.ok (cuOf le o u), st') ∧ Inv (specP Model.genEnumDecode le dasz (encUnits le us)) (cusOf le 0 us) st' :=
  cu_containing_encoded _ TieC13.enum_ut le dasz us hwf st hinv x o u hu

theorem cu_at_encoded_gen (le : Bool) (dasz : Nat) (us : List InfoUnit) (hwf : ∀ u ∈ us, wfUnit le u = true)
    (st : CUCache) (hinv : Inv (specP Model.genEnumDecode le dasz (encUnits le us)) (cusOf le 0 us) st) (x o : Nat)
    (u : InfoUnit) (hu : unitAt le us x = some (o, u)) :
    ∃ st', getCUAt (specP Model.genEnumDecode le dasz (encUnits le us)) (encUnits le us).length st x
        = (.ok (cuOf le o u), st') ∧ Inv (specP Model.genEnumDecode le dasz (encUnits le us)) (cusOf le 0 us) st' :=
  cu_at_encoded _ TieC13.enum_ut le dasz us hwf st hinv x o u hu

theorem lut_entry_encoded_gen (le : Bool) (dasz : Nat) (us : List InfoUnit) (hwf : ∀ u ∈ us, wfUnit le u = true)
    (st : CUCache) (hinv : Inv (specP Model.genEnumDecode le dasz (encUnits le us)) (cusOf le 0 us) st) (x d o : Nat)
    (u : InfoUnit) (hu : unitAt le us x = some (o, u)) (h1 : (unitObs le o u).dieOff ≤ d) (h2 : d < o + unitSize le u) :
    ∃ st', getDIEFromLutEntry (specP Model.genEnumDecode le dasz (encUnits le us)) (encUnits le us).length st x d
        = (.ok (cuOf le o u, d), st') ∧ Inv (specP Model.genEnumDecode le dasz (encUnits le us)) (cusOf le 0 us) st' :=
  lut_entry_encoded _ TieC13.enum_ut le dasz us hwf st hinv x d o u hu h1 h2

/-! ### address → range table → unit, and tables that give nothing (absent, empty, no range)

  `unitForAddr` (Model/DwarfLookupInfo.lean) is the idiom the docstrings of `get_CU_at` and
  `get_CU_containing` describe: `off = get_aranges().cu_offset_at_addr(addr)`, then
  `get_CU_containing(off)` (`byC = true`) or `get_CU_at(off)` (`byC = false`); the library has no
  function of its own for it, and no fall-back inside `get_CU_containing` (which never consults
  the range table).  Against the Spec: the answer is the unit that starts at the offset of the
  encoded range containing the address, and nothing when no range contains it. -/

/-- For every encoded range table (well-formed, shadow-free) whose unit offsets are starts of
    units of the encoded `.debug_info` section (units of any version 2–5), every reachable cache
    state and every address: the table object exists, and resolving the address gives `none` when
    `cuOffsetAt` (the Spec's "range containing the address", see `lookup_some_iff` /
    `lookup_none_iff`) is `none` — the cache untouched — and otherwise the unit starting at that
    offset, by either lookup function, with a consistent cache. -/
theorem addr_to_unit (env : Env) (enumDecode : String → Int → Option String)
    (hUT : ∀ k : Nat, 1 ≤ k → k ≤ 6 → enumDecode "ENUM_DW_UT" k = utName k) (le : Bool) (dasz dver : Nat)
    (sets : List ARSet) (us : List InfoUnit) (hwfS : wfSets le 0 sets = true)
    (hns : (entriesOf le 0 sets).Pairwise noShadow) (hwfU : ∀ u ∈ us, wfUnit le u = true)
    (hstarts : ∀ e ∈ entriesOf le 0 sets, ∃ u, unitAt le us e.infoOff = some (e.infoOff, u))
    (st : CUCache) (hinv : Inv (specP enumDecode le dasz (encUnits le us)) (cusOf le 0 us) st) (byC : Bool) (a : Nat) :
    ∃ t, getAranges env (Spec.dwarfStructs ⟨le, 32, dasz, dver⟩) (some (encSets le 0 sets)) = .ok (some t) ∧
      match cuOffsetAt (entriesOf le 0 sets) a with
      | none => unitForAddr byC (some t) (specP enumDecode le dasz) (some (encUnits le us)) st a = (.ok none, st)
      | some o => ∃ u st', unitAt le us o = some (o, u) ∧
          unitForAddr byC (some t) (specP enumDecode le dasz) (some (encUnits le us)) st a
            = (.ok (some (cuOf le o u)), st') ∧
          Inv (specP enumDecode le dasz (encUnits le us)) (cusOf le 0 us) st' := by
  have hPo : ∀ o c, specP enumDecode le dasz (encUnits le us) o = .ok c → c.cuOffset = o :=
    fun o c h => parseCU_offset o c h
  have hch := chain_encoded enumDecode hUT le dasz us hwfU
  have hmem : ∀ e ∈ entriesOf le 0 sets, ∃ c ∈ cusOf le 0 us, c.cuOffset = e.infoOff := by
    intro e he
    obtain ⟨u, hu⟩ := hstarts e he
    exact ⟨cuOf le e.infoOff u, mem_cusOf us 0 _ u (List.mem_of_find?_eq_some hu), rfl⟩
  refine ⟨⟨pySortBy (·.begin) (entriesOf le 0 sets), (pySortBy (·.begin) (entriesOf le 0 sets)).map (·.begin)⟩, ?_, ?_⟩
  · simp only [getAranges, aranges_init_exact env le dasz dver sets hwfS, sortByBegin_eq, bind, Except.bind, pure,
      Except.pure]
  · have h := unitForAddr_spec (P := specP enumDecode le dasz) hPo hch hinv hns hmem byC a
    cases hr : cuOffsetAt (entriesOf le 0 sets) a with
    | none => rw [hr] at h; exact h
    | some o =>
      rw [hr] at h
      obtain ⟨c, hc, hco, st', hres, hinv'⟩ := h
      obtain ⟨e, he, _, heo⟩ := (cuOffsetAt_some_iff hns a o).1 hr
      obtain ⟨u, hu⟩ := hstarts e he
      rw [heo] at hu
      have hc' := mem_cusOf us 0 o u (List.mem_of_find?_eq_some hu)
      have e1 := (chain_mem hPo _ 0 hch c hc).2.1
      have e2 := (chain_mem hPo _ 0 hch _ hc').2.1
      rw [hco] at e1
      have : c = cuOf le o u := by
        have e2' : specP enumDecode le dasz (encUnits le us) o = .ok (cuOf le o u) := e2
        rw [e1] at e2'; injection e2'
      subst this
      exact ⟨u, st', hu, hres, hinv'⟩

/-- non-vacuity of `addr_to_unit`: two units (a v5 skeleton unit and a v4 unit starting at offset
    20) and a range table naming both starts -/
example :
    let us : List InfoUnit := [⟨false, 5, 4, 0, 4, 7, 0, []⟩, ⟨false, 4, 1, 0, 8, 0, 0, [1]⟩]
    let sets : List ARSet := [⟨2, 0, 4, [⟨0x1000, 0x20⟩], 0, []⟩, ⟨2, 20, 8, [⟨0x2000, 8⟩, ⟨0x1020, 8⟩], 0, []⟩]
    wfSets true 0 sets = true ∧ (entriesOf true 0 sets).Pairwise noShadow ∧ (∀ u ∈ us, wfUnit true u = true) ∧
      (∀ e ∈ entriesOf true 0 sets, (unitAt true us e.infoOff).map (·.1) = some e.infoOff) := by
  decide

/-- no `.debug_aranges` section: `get_aranges()` is `None`, and there is nothing to resolve -/
theorem aranges_absent (env : Env) (S : DwarfStructs) (byC : Bool) (P : Bytes → Nat → R CU) (info : Option Bytes)
    (st : CUCache) (a : Nat) :
    getAranges env S none = .ok none ∧ unitForAddr byC none P info st a = (.ok none, st) := ⟨rfl, rfl⟩

/-- a table without any tuple (no sets, or only empty sets): every address resolves to nothing -/
theorem aranges_empty_resolves_nothing (env : Env) (le : Bool) (dasz dver : Nat) (sets : List ARSet)
    (hwfS : wfSets le 0 sets = true) (hempty : ∀ s ∈ sets, s.tuples = []) (byC : Bool) (P : Bytes → Nat → R CU)
    (info : Option Bytes) (st : CUCache) (a : Nat) :
    ∃ t, getAranges env (Spec.dwarfStructs ⟨le, 32, dasz, dver⟩) (some (encSets le 0 sets)) = .ok (some t) ∧
      t.cuOffsetAtAddr a = .ok none ∧ unitForAddr byC (some t) P info st a = (.ok none, st) := by
  have hes : ∀ (sets : List ARSet) (off : Nat), (∀ s ∈ sets, s.tuples = []) → entriesOf le off sets = [] := by
    intro sets
    induction sets with
    | nil => intro _ _; rfl
    | cons s ss ih =>
      intro off h
      simp [entriesOf, entriesOfSet, h s List.mem_cons_self, ih _ (fun x hx => h x (List.mem_cons_of_mem _ hx))]
  refine ⟨⟨[], []⟩, ?_, lookup_empty a, ?_⟩
  · simp only [getAranges, aranges_init_exact env le dasz dver sets hwfS, hes sets 0 hempty, bind, Except.bind, pure,
      Except.pure]
    rfl
  · simp only [unitForAddr, lookup_empty a]

/-- non-vacuity: a table of two empty sets (the second with padding fill and trailing bytes) -/
example :
    let sets : List ARSet := [⟨2, 0, 4, [], 0, []⟩, ⟨2, 9, 8, [], 0xAA, [1, 2]⟩]
    wfSets false 0 sets = true ∧ ∀ s ∈ sets, s.tuples = [] := by decide

/-- … while `get_CU_containing` does not depend on the range table at all: with the table absent
    or empty it still returns, for every offset of the section, the unit whose extent contains it
    (the scan a consumer falls back to), and without a `.debug_info` section both unit lookups
    raise `DWARFError` -/
theorem cu_containing_without_table (enumDecode : String → Int → Option String)
    (hUT : ∀ k : Nat, 1 ≤ k → k ≤ 6 → enumDecode "ENUM_DW_UT" k = utName k) (le : Bool) (dasz : Nat)
    (us : List InfoUnit) (hwf : ∀ u ∈ us, wfUnit le u = true) (st : CUCache)
    (hinv : Inv (specP enumDecode le dasz (encUnits le us)) (cusOf le 0 us) st) (x : Nat)
    (hx : x < (encUnits le us).length) :
    ∃ o u st', unitContaining le us x = some (o, u) ∧
      getCUContainingI (specP enumDecode le dasz) (some (encUnits le us)) st x = (.ok (cuOf le o u), st') ∧
      Inv (specP enumDecode le dasz (encUnits le us)) (cusOf le 0 us) st' := by
  obtain ⟨o, u, hu⟩ := (unit_containing_defined le us x).1 hx
  obtain ⟨st', h, hinv'⟩ := cu_containing_encoded enumDecode hUT le dasz us hwf st hinv x o u hu
  exact ⟨o, u, st', hu, h, hinv'⟩

/-- non-vacuity: the fresh cache satisfies `hinv` (`cache_inv_initial`), and offset 40 lies in the
    second unit of a well-formed two-unit section (a v5 split-type unit of 28 bytes, then a 64-bit v2 unit) -/
example :
    let us : List InfoUnit := [⟨false, 5, 6, 0, 8, 2, 0xFFFFFFFF, [1, 1, 0, 0]⟩, ⟨true, 2, 1, 0, 4, 0, 0, [1]⟩]
    (∀ u ∈ us, wfUnit true u = true) ∧ 40 < (encUnits true us).length ∧
      (unitContaining true us 40).map (·.1) = some 28 := by decide

theorem cu_lookup_no_info (P : Bytes → Nat → R CU) (st : CUCache) (x : Nat) :
    getCUContainingI P none st x = (.error .dwarfError, st) ∧ getCUAtI P none st x = (.error .dwarfError, st) :=
  ⟨rfl, rfl⟩

/-- the unit object of the model is the observation the Spec prescribes -/
theorem cuOf_obs (le : Bool) (o : Nat) (u : InfoUnit) :
    let c := cuOf le o u
    let ob := unitObs le o u
    c.cuOffset = ob.off ∧ c.cuDieOffset = ob.dieOff ∧ c.fmt = ob.fmt ∧ c.header = ob.hdr := by
  exact ⟨rfl, rfl, rfl, rfl⟩

example : wfUnit true ⟨false, 4, 1, 0, 8, 0, 0, [1, 0]⟩ = true ∧ wfUnit true ⟨true, 3, 1, 7, 4, 0, 0, []⟩ = true := by decide

/-! ### non-vacuity -/

/-- two sets (address sizes 4 and 8, the second needing 4 bytes of padding… ) with unsorted and
    adjacent ranges are well-formed and shadow-free -/
example :
    let sets : List ARSet := [⟨2, 0, 4, [⟨0x2000, 0x10⟩, ⟨0x1000, 0x20⟩], 0, []⟩, ⟨2, 0x40, 8, [⟨0x1020, 8⟩], 0xAA, [1, 2]⟩,
                              ⟨2, 0x80, 4, [], 0, []⟩]
    wfSets true 0 sets = true ∧ (entriesOf true 0 sets).Pairwise noShadow := by
  decide

example : wfNameSet false ⟨2, 0x10, 0x40, [⟨11, [0x6d, 0x61, 0x69, 0x6e]⟩, ⟨25, [0xc3, 0xa9]⟩]⟩ = true := by decide

/-! ### sixth wave: lookups that end in an entry (composition with C04)

  `Model/DwarfLookupDie.lean`: `getDIEFromRefaddr` (`DWARFInfo.get_DIE_from_refaddr`, DW_FORM_ref_addr),
  `getDIEFromLutEntryDie` / `dieByName` (`get_DIE_from_lut_entry`, `get_pubnames()[name]`), `topDIEForAddr`
  (address → range table → unit → `get_top_DIE()`), all through C13's model of the unit cache (bisect over
  `_cu_offsets_map`), the entry read in the context C04's glue `unitCtx` builds for the unit object the cache
  returned.  `Spec.C04.Forest` is C04's description of whole sections (abbreviation tables, units of versions 2–5
  with trees of entries, string / address / list sections); `Props.C04.forestDInfo F dasz` is the `DWARFInfo` on its
  encoding with everything else regenerated — the model C04's driver and this property's driver run;
  `forestEntries F p` = what `debug_info_exact` says `iter_DIEs()` yields for the unit `p` (offset, size, code, tag,
  child flag, attributes with name / form / raw value / resolved value / offset). -/

/-- THE CONNECTION between the two models of DW_FORM_ref_addr resolution.  For every `DWARFInfo` `w` whose
    `.debug_info` stream `data` is a chain of units `cs` for its own `_parse_CU_at_offset` (`chain_encoded`: every
    encoded section is), every state `st` of the unit cache reachable by lookups (`Inv`; `cache_inv_initial`) and EVERY
    integer `x` (an entry offset, a header offset, negative, beyond the section): `get_DIE_from_refaddr(x)` as C13 models
    it — `get_CU_containing` by bisect over the cache and a scan from the closest cached unit, then the unit's
    `get_DIE_from_refaddr` — answers exactly what C04's linear scan over all units (`Driver.C04.sectionRef` on
    `sectionUnits`, the function C04's correspondence check runs) answers: the same unit, the same entry or the same
    exception; and the cache stays reachable. -/
theorem ref_addr_scan_agrees (w : Model.C04.DInfo) (S0 : DwarfStructs) (data : Bytes) (hinfo : w.info = some data)
    (cs : List CU) (hch : Chain (infoParser w S0 data) data.length 0 cs) (st : CUCache)
    (hinv : Inv (infoParser w S0 data) cs st) (x : Int) :
    ∃ r st', getDIEFromRefaddr w S0 st x = (r, st') ∧ Inv (infoParser w S0 data) cs st' ∧
      r.map (fun p => (p.1.cuOffset, p.2))
        = Driver.C04.sectionRef (Model.C04.sectionUnits w S0 (some data) false) data.length x :=
  getDIEFromRefaddr_eq_sectionRef w S0 data hinfo cs hch st hinv x

/-- the `.debug_info` of every well-formed forest is such a chain (for the `DWARFInfo` as the drivers run it) -/
theorem forest_unit_chain (F : Spec.C04.Forest) (dasz : Nat) (hdasz : dasz = 4 ∨ dasz = 8)
    (hwf : Spec.C04.wfForestB Props.C04.genNames F = true) :
    Chain (forestP F dasz) (Spec.C04.infoSec F).length 0 (forestCUs F) :=
  forest_chain F dasz hdasz hwf

/-- `ref_section_relative` / `refs_info_exact` of C04 OVER C13's MODEL, from section bytes, no hypothesis besides the
    forest's well-formedness: for every entry `d` (null entries included) of every unit `p` of the `.debug_info` of a
    well-formed forest and every reachable state of the unit cache, `dwarfinfo.get_DIE_from_refaddr(d.offset)` — what
    `DIE.get_DIE_from_attribute` calls for DW_FORM_ref_addr — returns the unit object of `p` (`cuOf`: offset, first-entry
    offset, format, header as encoded) and exactly the entry `d`, leaving a reachable cache; and the linear scan of
    C04's driver designates the same unit offset and entry. -/
theorem ref_addr_resolution_exact (F : Spec.C04.Forest) (dasz : Nat) (hdasz : dasz = 4 ∨ dasz = 8)
    (hwf : Spec.C04.wfForestB Props.C04.genNames F = true) (p : Nat × Spec.C04.UnitDesc)
    (hp : p ∈ Spec.C04.placeInfo F 0 F.units) (d : Spec.C04.DieObs) (hd : d ∈ forestEntries F p)
    (st : CUCache) (hinv : Inv (forestP F dasz) (forestCUs F) st) :
    (∃ st', getDIEFromRefaddr (Props.C04.forestDInfo F dasz) (Props.C04.genBundles F.le dasz).S0 st (d.offset : Int)
          = (.ok (cuOf F.le p.1 (Spec.C04.infoUnitOf F p.2), d), st') ∧ Inv (forestP F dasz) (forestCUs F) st')
      ∧ Driver.C04.sectionRef
          (Model.C04.sectionUnits (Props.C04.forestDInfo F dasz) (Props.C04.genBundles F.le dasz).S0
            (some (Spec.C04.infoSec F)) false)
          (Spec.C04.infoSec F).length (d.offset : Int) = .ok (p.1, d) :=
  forest_getDIEFromRefaddr F dasz hdasz hwf p hp d hd st hinv

/-- non-vacuity: C04's example forest (three units of versions 4, 5, 2; `Props.C04.exForest_wf`), the entry at offset
    26 of its first unit, the fresh cache -/
example :
    ∃ st', getDIEFromRefaddr (Props.C04.forestDInfo Props.C04.exForest 4) (Props.C04.genBundles true 4).S0 CUCache.empty 26
      = (.ok (cuOf true 0 (Spec.C04.infoUnitOf Props.C04.exForest Props.C04.exForest.units[0]), Props.C04.exEntry), st') := by
  have hmem : Props.C04.exEntry ∈ forestEntries Props.C04.exForest (0, Props.C04.exForest.units[0]) := List.getElem_mem _
  obtain ⟨⟨st', h, _⟩, _⟩ := ref_addr_resolution_exact Props.C04.exForest 4 (Or.inl rfl) Props.C04.exForest_wf
    (0, Props.C04.exForest.units[0]) (List.Mem.head _) _ hmem CUCache.empty (cache_inv_initial _ _)
  have e : Props.C04.exEntry.offset = 26 := by decide +kernel
  rw [e] at h
  exact ⟨st', h⟩

/-- `get_DIE_from_lut_entry(NameLUTEntry(cu_ofs, die_ofs))` END TO END: for an entry naming the start of the unit `p`
    of a well-formed forest and the offset of its entry `d`, from every reachable cache state: the unit object of `p`
    (through `get_CU_at`) and exactly the forest's entry `d` — tag, attributes, values as `debug_info_exact` lists them.
    (`lut_entry_encoded` above is the unit-and-offset half on arbitrary unit bodies.) -/
theorem lut_entry_die_exact (F : Spec.C04.Forest) (dasz : Nat) (hdasz : dasz = 4 ∨ dasz = 8)
    (hwf : Spec.C04.wfForestB Props.C04.genNames F = true) (p : Nat × Spec.C04.UnitDesc)
    (hp : p ∈ Spec.C04.placeInfo F 0 F.units) (d : Spec.C04.DieObs) (hd : d ∈ forestEntries F p)
    (st : CUCache) (hinv : Inv (forestP F dasz) (forestCUs F) st) :
    ∃ st', getDIEFromLutEntryDie (Props.C04.forestDInfo F dasz) (Props.C04.genBundles F.le dasz).S0 st p.1 d.offset
        = (.ok (cuOf F.le p.1 (Spec.C04.infoUnitOf F p.2), d), st') ∧ Inv (forestP F dasz) (forestCUs F) st' :=
  forest_lutEntryDie F dasz hdasz hwf p hp d hd st hinv

/-- `dwarfinfo.get_DIE_from_lut_entry(dwarfinfo.get_pubnames()[name])` (or `get_pubtypes()`) FROM THE BYTES OF BOTH
    SECTIONS: any well-formed encoded name table (several sets, repeated names: `names_exact_ordered`) and any
    well-formed forest; if the table's entry for `name` — the LAST encoded one, `orderedLastWins` — names the unit `p`
    and the offset of its entry `d`, the answer is the unit object of `p` and exactly `d`.  Composes
    `names_exact_ordered`, `lut_entry_encoded` and C04's `debug_info_exact` / `refs_info_exact`. -/
theorem name_to_die_exact (env : Env) (F : Spec.C04.Forest) (dasz dver : Nat) (hdasz : dasz = 4 ∨ dasz = 8)
    (hwf : Spec.C04.wfForestB Props.C04.genNames F = true) (sets : List NameSet)
    (hwfN : ∀ s ∈ sets, wfNameSet F.le s = true) (name : Bytes) (p : Nat × Spec.C04.UnitDesc)
    (hp : p ∈ Spec.C04.placeInfo F 0 F.units) (d : Spec.C04.DieObs) (hd : d ∈ forestEntries F p)
    (hitem : (name, p.1, d.offset) ∈ orderedLastWins (namePairs sets))
    (st : CUCache) (hinv : Inv (forestP F dasz) (forestCUs F) st) :
    ∃ st', dieByName env (Spec.dwarfStructs ⟨F.le, 32, dasz, dver⟩) (some (encNameSets F.le sets))
          (Props.C04.forestDInfo F dasz) (Props.C04.genBundles F.le dasz).S0 st name
        = (.ok (some (cuOf F.le p.1 (Spec.C04.infoUnitOf F p.2), d)), st')
      ∧ Inv (forestP F dasz) (forestCUs F) st' :=
  forest_dieByName env F dasz dver hdasz hwf sets hwfN name p hp d hd hitem st hinv

/-- non-vacuity of `name_to_die_exact`: a table of two sets in which `x` occurs twice; its last occurrence names the
    first unit of C04's example forest (offset 0) and the entry at offset 26 -/
example :
    let sets : List NameSet := [⟨2, 35, 55, [⟨43, [0x78]⟩, ⟨40, [0xc3, 0xa9]⟩]⟩, ⟨2, 0, 35, [⟨26, [0x78]⟩]⟩]
    (∀ s ∈ sets, wfNameSet true s = true) ∧ (([0x78], 0, 26) : Bytes × Nat × Nat) ∈ orderedLastWins (namePairs sets) ∧
      Props.C04.exEntry.offset = 26 ∧
      Props.C04.exEntry ∈ forestEntries Props.C04.exForest (0, Props.C04.exForest.units[0]) :=
  ⟨by decide, by decide, by decide +kernel, List.getElem_mem _⟩

/-- ADDRESS → RANGE TABLE → UNIT → TOP ENTRY, exact from the bytes of `.debug_aranges`, `.debug_info`, `.debug_abbrev`
    (and the string / offset sections the top entry's values resolve against): for every well-formed, shadow-free
    encoded range table whose unit offsets are starts of units of a well-formed forest, every reachable cache state,
    either lookup function and every address: nothing when no encoded range contains the address (cache untouched);
    otherwise the unit `p` starting at the offset of the containing range and `p.get_top_DIE()` = the FIRST entry of the
    unit as `debug_info_exact` lists it, lying at the unit's first-entry offset (`addr_to_unit` composed with C04's
    `top_die_roundtrip` through `debug_info_exact`). -/
theorem addr_to_top_die (env : Env) (F : Spec.C04.Forest) (dasz dver : Nat) (hdasz : dasz = 4 ∨ dasz = 8)
    (hwf : Spec.C04.wfForestB Props.C04.genNames F = true) (sets : List ARSet) (hwfS : wfSets F.le 0 sets = true)
    (hns : (entriesOf F.le 0 sets).Pairwise noShadow)
    (hstarts : ∀ e ∈ entriesOf F.le 0 sets, ∃ p ∈ Spec.C04.placeInfo F 0 F.units, p.1 = e.infoOff)
    (st : CUCache) (hinv : Inv (forestP F dasz) (forestCUs F) st) (byC : Bool) (a : Nat) :
    ∃ t, getAranges env (Spec.dwarfStructs ⟨F.le, 32, dasz, dver⟩) (some (encSets F.le 0 sets)) = .ok (some t) ∧
      match cuOffsetAt (entriesOf F.le 0 sets) a with
      | none => topDIEForAddr byC (some t) (Props.C04.forestDInfo F dasz) (Props.C04.genBundles F.le dasz).S0 st a
                  = (.ok none, st)
      | some o => ∃ p ∈ Spec.C04.placeInfo F 0 F.units, p.1 = o ∧ ∃ top rest st', forestEntries F p = top :: rest ∧
          top.offset = Spec.C04.infoDieOff F p.1 p.2 ∧
          topDIEForAddr byC (some t) (Props.C04.forestDInfo F dasz) (Props.C04.genBundles F.le dasz).S0 st a
            = (.ok (some (cuOf F.le p.1 (Spec.C04.infoUnitOf F p.2), top)), st') ∧
          Inv (forestP F dasz) (forestCUs F) st' :=
  forest_topDIEForAddr env F dasz dver hdasz hwf sets hwfS hns hstarts st hinv byC a

/-- non-vacuity of `addr_to_top_die`: a range table naming the units at offsets 35 and 0 of C04's example forest (units
    at 0, 35, 90), unsorted and adjacent ranges -/
example :
    let sets : List ARSet := [⟨2, 35, 8, [⟨0x2000, 0x10⟩, ⟨0x1000, 0x20⟩], 0, []⟩, ⟨2, 0, 4, [⟨0x1020, 8⟩], 0xAA, []⟩]
    wfSets true 0 sets = true ∧ (entriesOf true 0 sets).Pairwise noShadow ∧
      (entriesOf true 0 sets).all (fun e =>
        (Spec.C04.placeInfo Props.C04.exForest 0 Props.C04.exForest.units).any (fun p => p.1 == e.infoOff)) = true :=
  ⟨by decide, by decide, by decide +kernel⟩

/-- non-vacuity of `ref_addr_scan_agrees`: the example forest's `DWARFInfo`, its unit chain, the fresh cache, and
    (for instance) the offsets 26 (an entry), 3 (inside a header), -1 and 1000 (outside the section) -/
example (x : Int) := ref_addr_scan_agrees (Props.C04.forestDInfo Props.C04.exForest 4) (Props.C04.genBundles true 4).S0 _ rfl _
  (forest_unit_chain Props.C04.exForest 4 (Or.inl rfl) Props.C04.exForest_wf) CUCache.empty (cache_inv_initial _ _) x

/-- the lookups never read the `DWARFInfo`'s `.debug_types` descriptor: the theorems below, stated for the forest's
    `DWARFInfo` as C04 states `debug_info_exact` (`types := some (typesSec F)`), are equally about the `DWARFInfo` the
    driver and the harness build (no `.debug_types`: `types := none`) -/
theorem lookups_ignore_types (w : Model.C04.DInfo) (t : Option Bytes) (S0 : DwarfStructs) (st : CUCache) :
    (∀ x, getDIEFromRefaddr { w with types := t } S0 st x = getDIEFromRefaddr w S0 st x) ∧
    (∀ c d, getDIEFromLutEntryDie { w with types := t } S0 st c d = getDIEFromLutEntryDie w S0 st c d) ∧
    (∀ env S sec nm, dieByName env S sec { w with types := t } S0 st nm = dieByName env S sec w S0 st nm) ∧
    (∀ byC tb a, topDIEForAddr byC tb { w with types := t } S0 st a = topDIEForAddr byC tb w S0 st a) :=
  ⟨fun _ => rfl, fun _ _ => rfl, fun _ _ _ _ => rfl, fun _ _ _ => rfl⟩

example :
    ∃ st', getDIEFromLutEntryDie (Props.C04.forestDInfo Props.C04.exForest 4) (Props.C04.genBundles true 4).S0 CUCache.empty 0 26
      = (.ok (cuOf true 0 (Spec.C04.infoUnitOf Props.C04.exForest Props.C04.exForest.units[0]), Props.C04.exEntry), st') := by
  have hmem : Props.C04.exEntry ∈ forestEntries Props.C04.exForest (0, Props.C04.exForest.units[0]) := List.getElem_mem _
  obtain ⟨st', h, _⟩ := lut_entry_die_exact Props.C04.exForest 4 (Or.inl rfl) Props.C04.exForest_wf
    (0, Props.C04.exForest.units[0]) (List.Mem.head _) _ hmem CUCache.empty (cache_inv_initial _ _)
  have e : Props.C04.exEntry.offset = 26 := by decide +kernel
  rw [e] at h
  exact ⟨st', h⟩

end PyElf.Props.C13
