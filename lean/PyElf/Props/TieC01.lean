/-
  C01 tie: the structures elffile.py parses with (file, section and program
  headers) and sizes it consults when it builds section objects are, for every
  configuration, the gABI's; and every e_machine name falls in the behaviour
  class the Spec assigns (so "every e_machine" is a finite kernel check).
-/
import PyElf.Gen.Structs
import PyElf.Spec.ElfStructs
namespace PyElf.Props.TieC01
open PyElf

theorem machine_class_eq_spec : Gen.machineClass = Spec.machineClass := by rfl
theorem elf_cfgs_eq_spec : Gen.elfBundles.map (·.1) = Spec.allElfCfgs := by rfl

theorem elf_Elf_Ehdr : Gen.elfBundles.map (fun b => (b.1, b.2.Elf_Ehdr)) = Spec.allElfCfgs.map (fun c => (c, (Spec.elfStructs c).Elf_Ehdr)) := by rfl
theorem elf_Elf_Shdr : Gen.elfBundles.map (fun b => (b.1, b.2.Elf_Shdr)) = Spec.allElfCfgs.map (fun c => (c, (Spec.elfStructs c).Elf_Shdr)) := by rfl
theorem elf_Elf_Phdr : Gen.elfBundles.map (fun b => (b.1, b.2.Elf_Phdr)) = Spec.allElfCfgs.map (fun c => (c, (Spec.elfStructs c).Elf_Phdr)) := by rfl
theorem elf_Elf_Chdr : Gen.elfBundles.map (fun b => (b.1, b.2.Elf_Chdr)) = Spec.allElfCfgs.map (fun c => (c, (Spec.elfStructs c).Elf_Chdr)) := by rfl
theorem elf_Elf_Rel : Gen.elfBundles.map (fun b => (b.1, b.2.Elf_Rel)) = Spec.allElfCfgs.map (fun c => (c, (Spec.elfStructs c).Elf_Rel)) := by rfl
theorem elf_Elf_Rela : Gen.elfBundles.map (fun b => (b.1, b.2.Elf_Rela)) = Spec.allElfCfgs.map (fun c => (c, (Spec.elfStructs c).Elf_Rela)) := by rfl
theorem elf_Elf_Relr : Gen.elfBundles.map (fun b => (b.1, b.2.Elf_Relr)) = Spec.allElfCfgs.map (fun c => (c, (Spec.elfStructs c).Elf_Relr)) := by rfl
theorem elf_Elf_Dyn : Gen.elfBundles.map (fun b => (b.1, b.2.Elf_Dyn)) = Spec.allElfCfgs.map (fun c => (c, (Spec.elfStructs c).Elf_Dyn)) := by rfl
theorem elf_Elf_Sym : Gen.elfBundles.map (fun b => (b.1, b.2.Elf_Sym)) = Spec.allElfCfgs.map (fun c => (c, (Spec.elfStructs c).Elf_Sym)) := by rfl
theorem elf_Elf_Hash : Gen.elfBundles.map (fun b => (b.1, b.2.Elf_Hash)) = Spec.allElfCfgs.map (fun c => (c, (Spec.elfStructs c).Elf_Hash)) := by rfl
theorem elf_Gnu_Hash : Gen.elfBundles.map (fun b => (b.1, b.2.Gnu_Hash)) = Spec.allElfCfgs.map (fun c => (c, (Spec.elfStructs c).Gnu_Hash)) := by rfl
theorem elf_Elf_byte : Gen.elfBundles.map (fun b => (b.1, b.2.Elf_byte)) = Spec.allElfCfgs.map (fun c => (c, (Spec.elfStructs c).Elf_byte)) := by rfl
theorem elf_Elf_word : Gen.elfBundles.map (fun b => (b.1, b.2.Elf_word)) = Spec.allElfCfgs.map (fun c => (c, (Spec.elfStructs c).Elf_word)) := by rfl
theorem elf_Elf_xword : Gen.elfBundles.map (fun b => (b.1, b.2.Elf_xword)) = Spec.allElfCfgs.map (fun c => (c, (Spec.elfStructs c).Elf_xword)) := by rfl

end PyElf.Props.TieC01
