/-
  C15 — symbol-version sections resolve each symbol to its encoded version.

  Property theorems only.  `data` is the whole file; the records of a version
  section may sit anywhere in it, linked by arbitrary (padded, non-contiguous,
  interleaved, even zero) `next`/`aux` displacements: all that is assumed is the
  Spec layout predicate (`Spec.needLayout` / `defLayout` / `versymAt` / `symsAt`),
  i.e. "these records are in these bytes".  `data.length < 2^63` is the
  addressable range of a Python stream.

  The section objects are the ones `ELFFile` builds (`VerSec.mkNeed/mkDef`,
  `VersymSec.mk'` mirror the constructors) with the Spec's structs, which the
  tie theorems (`Props/TieC15.lean`) prove equal to the regenerated ones.
-/
import PyElf.Spec.GnuVersions
import PyElf.Model.GnuVersions
import PyElf.Proofs.GnuVersions
import PyElf.Proofs.GnuSym
import PyElf.Props.TieC15
namespace PyElf.Props.C15
open PyElf PyElf.Spec PyElf.Model PyElf.Proofs

/-! ### versions_exact: the entries and their auxiliary chains, walked through the displacements -/

/-- version requirements: every Verneed with its file name, every Vernaux with its version name,
    exactly as laid out; `num_versions()` is their number -/
theorem need_versions_exact (env : Env) (c : ElfCfg) (data : Bytes) (off strOff : Nat) (es : List NeedEntry)
    (hlen : data.length < 2 ^ 63) (h : needLayout c.le data strOff off es = true) :
    (VerSec.mkNeed (Spec.elfStructs c) data off es.length strOff).versions env = .ok (es.map NeedEntry.obs)
    ∧ (VerSec.mkNeed (Spec.elfStructs c) data off es.length strOff).numVersions = es.length :=
  ⟨need_versions_chain env c data off es.length strOff hlen es off h, rfl⟩

/-- version definitions: every Verdef, every Verdaux with its name -/
theorem def_versions_exact (env : Env) (c : ElfCfg) (data : Bytes) (off strOff : Nat) (es : List DefEntry)
    (hlen : data.length < 2 ^ 63) (h : defLayout c.le data strOff off es = true) :
    (VerSec.mkDef (Spec.elfStructs c) data off es.length strOff).versions env = .ok (es.map DefEntry.obs)
    ∧ (VerSec.mkDef (Spec.elfStructs c) data off es.length strOff).numVersions = es.length :=
  ⟨def_versions_chain env c data off es.length strOff hlen es off h, rfl⟩

/-- a section that declares (`sh_info`) fewer records than are chained yields exactly the declared prefix -/
theorem need_versions_prefix (env : Env) (c : ElfCfg) (data : Bytes) (off strOff : Nat) (es more : List NeedEntry)
    (hlen : data.length < 2 ^ 63) (h : needLayout c.le data strOff off (es ++ more) = true) :
    (VerSec.mkNeed (Spec.elfStructs c) data off es.length strOff).versions env = .ok (es.map NeedEntry.obs) :=
  (need_versions_exact env c data off strOff es hlen (chainAt_prefix _ _ es more off h)).1

theorem def_versions_prefix (env : Env) (c : ElfCfg) (data : Bytes) (off strOff : Nat) (es more : List DefEntry)
    (hlen : data.length < 2 ^ 63) (h : defLayout c.le data strOff off (es ++ more) = true) :
    (VerSec.mkDef (Spec.elfStructs c) data off es.length strOff).versions env = .ok (es.map DefEntry.obs) :=
  (def_versions_exact env c data off strOff es hlen (chainAt_prefix _ _ es more off h)).1

/-! ### get_version_exact: the entry carrying the index, or nothing -/

/-- `GNUVerNeedSection.get_version(i)`: the first (file entry, auxiliary) in walk order whose `vna_other` is `i` -/
theorem need_get_version_exact (env : Env) (c : ElfCfg) (data : Bytes) (off strOff : Nat) (es : List NeedEntry)
    (hlen : data.length < 2 ^ 63) (h : needLayout c.le data strOff off es = true) (i : Nat) :
    (VerSec.mkNeed (Spec.elfStructs c) data off es.length strOff).needGetVersion env i
      = .ok ((needFind i es).map fun ea => (ea.1.r.obs, some ea.1.file, ea.2.r.obs, ea.2.name)) :=
  needGetLoop_chain env c data off es.length strOff hlen i es off h

/-- what `needFind` returns carries the index … -/
theorem needFind_carries (i : Nat) : ∀ (es : List NeedEntry) (e : NeedEntry) (a : NeedAux),
    needFind i es = some (e, a) → e ∈ es ∧ a ∈ e.auxs ∧ a.r.other = i
  | [], _, _, h => by simp [needFind] at h
  | e' :: rest, e, a, h => by
    simp only [needFind] at h
    cases hq : e'.auxs.find? (fun a => a.r.other == i) with
    | some a' =>
      rw [hq] at h
      simp only [Option.some.injEq, Prod.mk.injEq] at h
      obtain ⟨rfl, rfl⟩ := h
      have h1 := List.find?_some hq
      have h2 := List.mem_of_find?_eq_some hq
      exact ⟨List.mem_cons_self, h2, by simpa using h1⟩
    | none =>
      rw [hq] at h
      obtain ⟨h1, h2⟩ := needFind_carries i rest e a h
      exact ⟨List.mem_cons_of_mem _ h1, h2⟩

/-- … and it returns nothing exactly when no auxiliary of any entry carries it -/
theorem needFind_none (i : Nat) : ∀ (es : List NeedEntry),
    needFind i es = none ↔ ∀ e ∈ es, ∀ a ∈ e.auxs, a.r.other ≠ i
  | [] => by simp [needFind]
  | e' :: rest => by
    simp only [needFind]
    cases hq : e'.auxs.find? (fun a => a.r.other == i) with
    | some a' =>
      have h1 := List.find?_some hq
      have h2 := List.mem_of_find?_eq_some hq
      simp only [reduceCtorEq, false_iff]
      intro hall
      exact hall e' List.mem_cons_self a' h2 (by simpa using h1)
    | none =>
      rw [needFind_none i rest]
      have hn : ∀ a ∈ e'.auxs, a.r.other ≠ i := by
        intro a ha
        have := List.find?_eq_none.mp hq a ha
        simpa using this
      constructor
      · intro hr e he
        rcases List.mem_cons.mp he with rfl | he'
        · exact hn
        · exact hr e he'
      · intro hall e he
        exact hall e (List.mem_cons_of_mem _ he)

/-- `GNUVerDefSection.get_version(i)`: the first Verdef whose `vd_ndx` is `i`, with its auxiliaries -/
theorem def_get_version_exact (env : Env) (c : ElfCfg) (data : Bytes) (off strOff : Nat) (es : List DefEntry)
    (hlen : data.length < 2 ^ 63) (h : defLayout c.le data strOff off es = true) (i : Nat) :
    (VerSec.mkDef (Spec.elfStructs c) data off es.length strOff).defGetVersion env i
      = .ok ((defFind i es).map fun e => (e.r.obs, e.auxs.map DefAux.obs)) :=
  defGetLoop_chain env c data off es.length strOff hlen i es off h

theorem defFind_carries (i : Nat) (es : List DefEntry) (e : DefEntry) (h : defFind i es = some e) :
    e ∈ es ∧ e.r.ndx = i :=
  ⟨List.mem_of_find?_eq_some h, by simpa using List.find?_some h⟩

theorem defFind_none (i : Nat) (es : List DefEntry) : defFind i es = none ↔ ∀ e ∈ es, e.r.ndx ≠ i := by
  simp [defFind, List.find?_eq_none]

/-- `has_indexes()`: some auxiliary has a non-zero `vna_other` -/
theorem need_has_indexes_exact (env : Env) (c : ElfCfg) (data : Bytes) (off strOff : Nat) (es : List NeedEntry)
    (hlen : data.length < 2 ^ 63) (h : needLayout c.le data strOff off es = true) :
    (VerSec.mkNeed (Spec.elfStructs c) data off es.length strOff).hasIndexes env = .ok (needHasIndexes es) := by
  have := hasIndexesLoop_chain env c data off es.length strOff hlen es off false h
  rw [Bool.false_or] at this
  exact this

/-! ### versym_exact: one index per symbol, paired with that symbol's name -/

/-- the version-symbol table next to its dynamic symbol table: `num_symbols()` rows, row `i` is the
    Half at `off + i·entsize` shown as the Spec shows a version index (reserved indexes named, everything
    else — hidden bit included — as the number), paired with the name of symbol `i`.
    `Proofs.EnvVersym env` (the environment names the reserved indexes as the Spec does) is discharged for the
    regenerated tables by `TieC15.versym_env`. -/
theorem versym_exact (env : Env) (henv : EnvVersym env) (c : ElfCfg) (hcls : c.cls = 32 ∨ c.cls = 64)
    (data : Bytes) (hlen : data.length < 2 ^ 63)
    (off size es symOff symEs symStrOff : Nat) (rows : List (Sym × VersymRow))
    (hes : 0 < es) (hsize : size / es = rows.length)
    (hv : versymAt c.le data off es 0 (rows.map (·.2)) = true)
    (hs : symsAt c.cls c.le data symOff symEs symStrOff 0 rows = true) :
    (VersymSec.mk' (Spec.elfStructs c) data off size es symOff symEs symStrOff).numSymbols = .ok rows.length
    ∧ (VersymSec.mk' (Spec.elfStructs c) data off size es symOff symEs symStrOff).symbols env
        = .ok (rows.map fun r => r.2.obs)
    ∧ ∀ (i : Nat) (r : Sym × VersymRow), rows[i]? = some r →
        (VersymSec.mk' (Spec.elfStructs c) data off size es symOff symEs symStrOff).getSymbol env i = .ok r.2.obs := by
  have hget : ∀ (i : Nat) (x : VersymRow), (rows.map (·.2))[i]? = some x →
      (VersymSec.mk' (Spec.elfStructs c) data off size es symOff symEs symStrOff).getSymbol env i = .ok x.obs := by
    intro i x hx
    obtain ⟨hh, hb⟩ := versymAt_get _ 0 hv i x hx
    rw [Nat.zero_add] at hb
    obtain ⟨r, hr, rfl⟩ : ∃ r, rows[i]? = some r ∧ r.2 = x := by
      rw [List.getElem?_map] at hx
      cases hri : rows[i]? with
      | none => rw [hri] at hx; simp at hx
      | some r => rw [hri] at hx; exact ⟨r, rfl, by simpa using hx⟩
    exact versym_getSymbol env henv c data hlen off size es symOff symEs symStrOff i r.2 hh hb
      (symName_of_symsAt env c hcls data hlen off size es symOff symEs symStrOff rows hs i r hr)
  have hnum : (VersymSec.mk' (Spec.elfStructs c) data off size es symOff symEs symStrOff).numSymbols = .ok rows.length := by
    have : ¬ es = 0 := by omega
    simp [VersymSec.numSymbols, VersymSec.mk', this, hsize]
  refine ⟨hnum, ?_, ?_⟩
  · have := versymLoop_rows env henv c data hlen off size es symOff symEs symStrOff (rows.map (·.2)) hget
      rows.length 0 (by simp)
    simp only [VersymSec.symbols, hnum, bind, Except.bind]
    simpa [List.map_map, Function.comp_def] using this
  · intro i r hr
    exact hget i r.2 (by rw [List.getElem?_map, hr]; rfl)

/-! ### non-vacuity: concrete layouts satisfying the hypotheses -/

/-- one requirement with two auxiliaries; the second auxiliary sits *before* a gap-separated first one is not
    possible (displacements are unsigned) but it is padded away from it, and the string table follows -/
def exNeed : List NeedEntry :=
  [{ r := { version := 1, cnt := 2, file := 1, aux := 20, next := 0 }, file := [0x6c, 0x63],
     auxs := [{ r := { hash := 7, flags := 0, other := 0x8002, name := 4, next := 24 }, name := [0x56, 0x31] },
              { r := { hash := 9, flags := 2, other := 3, name := 0, next := 0 }, name := [] }] }]

def exNeedData : Bytes := assembleNeed true 0xAA 64 exNeed ++ [0, 0x6c, 0x63, 0, 0x56, 0x31, 0]

set_option maxRecDepth 100000 in
example : exNeedData.length = 71 := by decide
set_option maxRecDepth 100000 in
example : needLayout true exNeedData 64 0 exNeed = true := by decide
example : needFind 3 exNeed = some (exNeed[0], exNeed[0].auxs[1]) := by decide
example : needFind 2 exNeed = none := by decide          -- 0x8002 is not 2: no masking of the hidden bit

/-- two definitions, the auxiliaries gathered behind both entries; the second entry twice (next = 0) -/
def exDef : List DefEntry :=
  [{ r := { version := 1, flags := 1, ndx := 1, cnt := 1, hash := 5, aux := 44, next := 22 },
     auxs := [{ r := { name := 1, next := 0 }, name := [0x61] }] },
   { r := { version := 1, flags := 0, ndx := 0x8002, cnt := 2, hash := 6, aux := 30, next := 0 },
     auxs := [{ r := { name := 3, next := 9 }, name := [0x62] }, { r := { name := 1, next := 77 }, name := [0x61] }] },
   { r := { version := 1, flags := 0, ndx := 0x8002, cnt := 2, hash := 6, aux := 30, next := 0 },
     auxs := [{ r := { name := 3, next := 9 }, name := [0x62] }, { r := { name := 1, next := 77 }, name := [0x61] }] }]

def exDefData : Bytes := [1, 2, 3] ++ assembleDef false 0 70 exDef ++ [0, 0x61, 0, 0x62, 0]

set_option maxRecDepth 100000 in
example : defLayout false exDefData 73 3 exDef = true := by decide

def exRows : List (Sym × VersymRow) :=
  [({ name := 0, value := 0, size := 0, bind := 0, type := 0, local_ := 0, visibility := 0, shndx := 0 },
    { ndx := 0, symName := [] }),
   ({ name := 1, value := 0x1000, size := 8, bind := 1, type := 2, local_ := 0, visibility := 0, shndx := 7 },
    { ndx := 0x8003, symName := [0x66] })]

def exVersymData : Bytes :=
  assembleVersym true 0 4 (exRows.map (·.2)) ++ assembleSyms 64 true 0 32 (exRows.map (·.1)) ++ [0, 0x66, 0]

set_option maxRecDepth 100000 in
example : versymAt true exVersymData 0 4 0 (exRows.map (·.2)) = true := by decide
set_option maxRecDepth 100000 in
example : symsAt 64 true exVersymData 8 32 72 0 exRows = true := by decide

end PyElf.Props.C15
