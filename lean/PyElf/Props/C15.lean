/-
  C15 — symbol-version sections resolve each symbol to its encoded version.

  Property theorems only.  `data` is the whole file; the records of a version
  section may sit anywhere in it, linked by arbitrary (padded, non-contiguous,
  interleaved, even zero) `next`/`aux` displacements: all that is assumed is the
  Spec layout predicate (`Spec.needLayout` / `defLayout` / `versymAt` / `symsAt`),
  i.e. "these records are in these bytes".  `data.length < 2^63` is the
  addressable range of a Python stream.

  The section objects are the ones `ELFFile` builds (`VerSec.mkNeed/mkDef`,
  `VersymSec.mk'` mirror the constructors) with the Spec's structs, which the
  tie theorems (`Props/TieC15.lean`) prove equal to the regenerated ones.

  Fourth wave (second half of this file): the Spec assembler is PROVED to satisfy
  the layout predicates for every description accepted by the Spec's decidable
  well-formedness predicates (`Spec/GnuVersionsImage.lean`), the statements are
  lifted to whole files — `ELFFile(BytesIO(bytes)).get_section(sec)` /
  `.get_section_by_name(name)` for any byte string carrying a well-formed image
  (C01's `ElfDesc` / `Layout`), the linked tables reached through `sh_link` — and
  closed over the image the Spec assembler produces (`*_assembled_exact`: the only
  hypothesis is the description's well-formedness); chains that end early
  (`next = 0`) and chains that leave the file are theorems.

  Correspondence-only (no theorem): the model mirrors (`Model/GnuVersions.lean`,
  `Model/GnuVersionsFile.lean`, `Model/ElfFile.lean`) against the Python source;
  bytes → str decoding of names; damaged images other than the two classes above
  (substituted bytes, wrong links, zero counts / entry sizes): model == library only.
-/
import PyElf.Spec.GnuVersions
import PyElf.Model.GnuVersions
import PyElf.Proofs.GnuVersions
import PyElf.Proofs.GnuSym
import PyElf.Proofs.GnuAssembled
import PyElf.Proofs.GnuVersionsFile
import PyElf.Proofs.GnuTruncated
import PyElf.Proofs.GnuExamples
import PyElf.Props.C01
import PyElf.Props.TieC15
import PyElf.Model.VerCache
import PyElf.Proofs.SigCache
namespace PyElf.Props.C15
open PyElf PyElf.Spec PyElf.Model PyElf.Proofs

/-! ### versions_exact: the entries and their auxiliary chains, walked through the displacements -/

/-- version requirements: every Verneed with its file name, every Vernaux with its version name,
    exactly as laid out; `num_versions()` is their number -/
theorem need_versions_exact (env : Env) (c : ElfCfg) (data : Bytes) (off strOff : Nat) (es : List NeedEntry)
    (hlen : data.length < 2 ^ 63) (h : needLayout c.le data strOff off es = true) :
    (VerSec.mkNeed (Spec.elfStructs c) data off es.length strOff).versions env = .ok (es.map NeedEntry.obs)
    ∧ (VerSec.mkNeed (Spec.elfStructs c) data off es.length strOff).numVersions = es.length :=
  ⟨need_versions_chain env c data off es.length strOff hlen es off h, rfl⟩

/-- version definitions: every Verdef, every Verdaux with its name -/
theorem def_versions_exact (env : Env) (c : ElfCfg) (data : Bytes) (off strOff : Nat) (es : List DefEntry)
    (hlen : data.length < 2 ^ 63) (h : defLayout c.le data strOff off es = true) :
    (VerSec.mkDef (Spec.elfStructs c) data off es.length strOff).versions env = .ok (es.map DefEntry.obs)
    ∧ (VerSec.mkDef (Spec.elfStructs c) data off es.length strOff).numVersions = es.length :=
  ⟨def_versions_chain env c data off es.length strOff hlen es off h, rfl⟩

/-- a section that declares (`sh_info`) fewer records than are chained yields exactly the declared prefix -/
theorem need_versions_prefix (env : Env) (c : ElfCfg) (data : Bytes) (off strOff : Nat) (es more : List NeedEntry)
    (hlen : data.length < 2 ^ 63) (h : needLayout c.le data strOff off (es ++ more) = true) :
    (VerSec.mkNeed (Spec.elfStructs c) data off es.length strOff).versions env = .ok (es.map NeedEntry.obs) :=
  (need_versions_exact env c data off strOff es hlen (chainAt_prefix _ _ es more off h)).1

theorem def_versions_prefix (env : Env) (c : ElfCfg) (data : Bytes) (off strOff : Nat) (es more : List DefEntry)
    (hlen : data.length < 2 ^ 63) (h : defLayout c.le data strOff off (es ++ more) = true) :
    (VerSec.mkDef (Spec.elfStructs c) data off es.length strOff).versions env = .ok (es.map DefEntry.obs) :=
  (def_versions_exact env c data off strOff es hlen (chainAt_prefix _ _ es more off h)).1

/-! ### get_version_exact: the entry carrying the index, or nothing -/

/-- `GNUVerNeedSection.get_version(i)`: the first (file entry, auxiliary) in walk order whose `vna_other` is `i` -/
theorem need_get_version_exact (env : Env) (c : ElfCfg) (data : Bytes) (off strOff : Nat) (es : List NeedEntry)
    (hlen : data.length < 2 ^ 63) (h : needLayout c.le data strOff off es = true) (i : Nat) :
    (VerSec.mkNeed (Spec.elfStructs c) data off es.length strOff).needGetVersion env i
      = .ok ((needFind i es).map fun ea => (ea.1.r.obs, some ea.1.file, ea.2.r.obs, ea.2.name)) :=
  needGetLoop_chain env c data off es.length strOff hlen i es off h

/-- what `needFind` returns carries the index … -/
theorem needFind_carries (i : Nat) : ∀ (es : List NeedEntry) (e : NeedEntry) (a : NeedAux),
    needFind i es = some (e, a) → e ∈ es ∧ a ∈ e.auxs ∧ a.r.other = i
  | [], _, _, h => by simp [needFind] at h
  | e' :: rest, e, a, h => by
    simp only [needFind] at h
    cases hq : e'.auxs.find? (fun a => a.r.other == i) with
    | some a' =>
      rw [hq] at h
      simp only [Option.some.injEq, Prod.mk.injEq] at h
      obtain ⟨rfl, rfl⟩ := h
      have h1 := List.find?_some hq
      have h2 := List.mem_of_find?_eq_some hq
      exact ⟨List.mem_cons_self, h2, by simpa using h1⟩
    | none =>
      rw [hq] at h
      obtain ⟨h1, h2⟩ := needFind_carries i rest e a h
      exact ⟨List.mem_cons_of_mem _ h1, h2⟩

/-- … and it returns nothing exactly when no auxiliary of any entry carries it -/
theorem needFind_none (i : Nat) : ∀ (es : List NeedEntry),
    needFind i es = none ↔ ∀ e ∈ es, ∀ a ∈ e.auxs, a.r.other ≠ i
  | [] => by simp [needFind]
  | e' :: rest => by
    simp only [needFind]
    cases hq : e'.auxs.find? (fun a => a.r.other == i) with
    | some a' =>
      have h1 := List.find?_some hq
      have h2 := List.mem_of_find?_eq_some hq
      simp only [reduceCtorEq, false_iff]
      intro hall
      exact hall e' List.mem_cons_self a' h2 (by simpa using h1)
    | none =>
      rw [needFind_none i rest]
      have hn : ∀ a ∈ e'.auxs, a.r.other ≠ i := by
        intro a ha
        have := List.find?_eq_none.mp hq a ha
        simpa using this
      constructor
      · intro hr e he
        rcases List.mem_cons.mp he with rfl | he'
        · exact hn
        · exact hr e he'
      · intro hall e he
        exact hall e (List.mem_cons_of_mem _ he)

/-- `GNUVerDefSection.get_version(i)`: the first Verdef whose `vd_ndx` is `i`, with its auxiliaries -/
theorem def_get_version_exact (env : Env) (c : ElfCfg) (data : Bytes) (off strOff : Nat) (es : List DefEntry)
    (hlen : data.length < 2 ^ 63) (h : defLayout c.le data strOff off es = true) (i : Nat) :
    (VerSec.mkDef (Spec.elfStructs c) data off es.length strOff).defGetVersion env i
      = .ok ((defFind i es).map fun e => (e.r.obs, e.auxs.map DefAux.obs)) :=
  defGetLoop_chain env c data off es.length strOff hlen i es off h

theorem defFind_carries (i : Nat) (es : List DefEntry) (e : DefEntry) (h : defFind i es = some e) :
    e ∈ es ∧ e.r.ndx = i :=
  ⟨List.mem_of_find?_eq_some h, by simpa using List.find?_some h⟩

theorem defFind_none (i : Nat) (es : List DefEntry) : defFind i es = none ↔ ∀ e ∈ es, e.r.ndx ≠ i := by
  simp [defFind, List.find?_eq_none]

/-- `has_indexes()`: some auxiliary has a non-zero `vna_other` -/
theorem need_has_indexes_exact (env : Env) (c : ElfCfg) (data : Bytes) (off strOff : Nat) (es : List NeedEntry)
    (hlen : data.length < 2 ^ 63) (h : needLayout c.le data strOff off es = true) :
    (VerSec.mkNeed (Spec.elfStructs c) data off es.length strOff).hasIndexes env = .ok (needHasIndexes es) := by
  have := hasIndexesLoop_chain env c data off es.length strOff hlen es off false h
  rw [Bool.false_or] at this
  exact this

/-! ### versym_exact: one index per symbol, paired with that symbol's name -/

/-- the version-symbol table next to its dynamic symbol table: `num_symbols()` rows, row `i` is the
    Half at `off + i·entsize` shown as the Spec shows a version index (reserved indexes named, everything
    else — hidden bit included — as the number), paired with the name of symbol `i`.
    `Proofs.EnvVersym env` (the environment names the reserved indexes as the Spec does) is discharged for the
    regenerated tables by `TieC15.versym_env`. -/
theorem versym_exact (env : Env) (henv : EnvVersym env) (c : ElfCfg) (hcls : c.cls = 32 ∨ c.cls = 64)
    (data : Bytes) (hlen : data.length < 2 ^ 63)
    (off size es symOff symEs symStrOff : Nat) (rows : List (Sym × VersymRow))
    (hes : 0 < es) (hsize : size / es = rows.length)
    (hv : versymAt c.le data off es 0 (rows.map (·.2)) = true)
    (hs : symsAt c.cls c.le data symOff symEs symStrOff 0 rows = true) :
    (VersymSec.mk' (Spec.elfStructs c) data off size es symOff symEs symStrOff).numSymbols = .ok rows.length
    ∧ (VersymSec.mk' (Spec.elfStructs c) data off size es symOff symEs symStrOff).symbols env
        = .ok (rows.map fun r => r.2.obs)
    ∧ ∀ (i : Nat) (r : Sym × VersymRow), rows[i]? = some r →
        (VersymSec.mk' (Spec.elfStructs c) data off size es symOff symEs symStrOff).getSymbol env i = .ok r.2.obs := by
  have hget : ∀ (i : Nat) (x : VersymRow), (rows.map (·.2))[i]? = some x →
      (VersymSec.mk' (Spec.elfStructs c) data off size es symOff symEs symStrOff).getSymbol env i = .ok x.obs := by
    intro i x hx
    obtain ⟨hh, hb⟩ := versymAt_get _ 0 hv i x hx
    rw [Nat.zero_add] at hb
    obtain ⟨r, hr, rfl⟩ : ∃ r, rows[i]? = some r ∧ r.2 = x := by
      rw [List.getElem?_map] at hx
      cases hri : rows[i]? with
      | none => rw [hri] at hx; simp at hx
      | some r => rw [hri] at hx; exact ⟨r, rfl, by simpa using hx⟩
    exact versym_getSymbol env henv c data hlen off size es symOff symEs symStrOff i r.2 hh hb
      (symName_of_symsAt env c hcls data hlen off size es symOff symEs symStrOff rows hs i r hr)
  have hnum : (VersymSec.mk' (Spec.elfStructs c) data off size es symOff symEs symStrOff).numSymbols = .ok rows.length := by
    have : ¬ es = 0 := by omega
    simp [VersymSec.numSymbols, VersymSec.mk', this, hsize]
  refine ⟨hnum, ?_, ?_⟩
  · have := versymLoop_rows env henv c data hlen off size es symOff symEs symStrOff (rows.map (·.2)) hget
      rows.length 0 (by simp)
    simp only [VersymSec.symbols, hnum, bind, Except.bind]
    simpa [List.map_map, Function.comp_def] using this
  · intro i r hr
    exact hget i r.2 (by rw [List.getElem?_map, hr]; rfl)

/-! ### non-vacuity: concrete layouts satisfying the hypotheses -/

/-- one requirement with two auxiliaries; the second auxiliary sits *before* a gap-separated first one is not
    possible (displacements are unsigned) but it is padded away from it, and the string table follows -/
def exNeed : List NeedEntry :=
  [{ r := { version := 1, cnt := 2, file := 1, aux := 20, next := 0 }, file := [0x6c, 0x63],
     auxs := [{ r := { hash := 7, flags := 0, other := 0x8002, name := 4, next := 24 }, name := [0x56, 0x31] },
              { r := { hash := 9, flags := 2, other := 3, name := 0, next := 0 }, name := [] }] }]

def exNeedData : Bytes := assembleNeed true 0xAA 64 exNeed ++ [0, 0x6c, 0x63, 0, 0x56, 0x31, 0]

set_option maxRecDepth 100000 in
example : exNeedData.length = 71 := by decide
set_option maxRecDepth 100000 in
example : needLayout true exNeedData 64 0 exNeed = true := by decide
example : needFind 3 exNeed = some (exNeed[0], exNeed[0].auxs[1]) := by decide
example : needFind 2 exNeed = none := by decide          -- 0x8002 is not 2: no masking of the hidden bit

/-- two definitions, the auxiliaries gathered behind both entries; the second entry twice (next = 0) -/
def exDef : List DefEntry :=
  [{ r := { version := 1, flags := 1, ndx := 1, cnt := 1, hash := 5, aux := 44, next := 22 },
     auxs := [{ r := { name := 1, next := 0 }, name := [0x61] }] },
   { r := { version := 1, flags := 0, ndx := 0x8002, cnt := 2, hash := 6, aux := 30, next := 0 },
     auxs := [{ r := { name := 3, next := 9 }, name := [0x62] }, { r := { name := 1, next := 77 }, name := [0x61] }] },
   { r := { version := 1, flags := 0, ndx := 0x8002, cnt := 2, hash := 6, aux := 30, next := 0 },
     auxs := [{ r := { name := 3, next := 9 }, name := [0x62] }, { r := { name := 1, next := 77 }, name := [0x61] }] }]

def exDefData : Bytes := [1, 2, 3] ++ assembleDef false 0 70 exDef ++ [0, 0x61, 0, 0x62, 0]

set_option maxRecDepth 100000 in
example : defLayout false exDefData 73 3 exDef = true := by decide

def exRows : List (Sym × VersymRow) :=
  [({ name := 0, value := 0, size := 0, bind := 0, type := 0, local_ := 0, visibility := 0, shndx := 0 },
    { ndx := 0, symName := [] }),
   ({ name := 1, value := 0x1000, size := 8, bind := 1, type := 2, local_ := 0, visibility := 0, shndx := 7 },
    { ndx := 0x8003, symName := [0x66] })]

def exVersymData : Bytes :=
  assembleVersym true 0 4 (exRows.map (·.2)) ++ assembleSyms 64 true 0 32 (exRows.map (·.1)) ++ [0, 0x66, 0]

set_option maxRecDepth 100000 in
example : versymAt true exVersymData 0 4 0 (exRows.map (·.2)) = true := by decide
set_option maxRecDepth 100000 in
example : symsAt 64 true exVersymData 8 32 72 0 exRows = true := by decide

/-! ## Fourth wave

  1. the assembler satisfies the layout predicates (`assemble_*_layout`), hence every theorem above in a
     form whose only hypothesis on the contents is the description's well-formedness
     (`Spec.C15.needWf` / `defWf` / `versymWf` / `symsWf`: structural conditions on the record list,
     not the layout predicate evaluated on the output) — `*_carried_exact`;
  2. whole files: the section objects are the ones `ELFFile(BytesIO(bytes)).get_section(sec)` /
     `.get_section_by_name(name)` build (`Model.C15.getVerSection`, `getVerSectionByName`), for any byte
     string carrying (C01's `Layout`) a well-formed image one of whose sections is an assembled version
     section (`Spec.C15.needFileWf` / `defFileWf` / `versymFileWf`) — `*_file_exact`; and for the image
     the Spec assembler itself produces, with nothing but the description's well-formedness as
     hypothesis — `*_assembled_exact`;
  3. chains that end early (`next = 0` before the declared count is reached: the record is read again)
     and chains that leave the file (`*_truncated`). -/

section wave4
/-! ### the cache `_has_indexes` -/

/-- has_indexes_history_independent.  For ANY section bytes (well formed or not): the k-th call of `has_indexes()` on
    one `GNUVerNeedSection` object answers what a fresh object answers (`VerSec.hasIndexes`, the function
    `need_has_indexes_exact` and the `*_truncated` theorems are about) — in particular a walk that raises, raises again
    on every later call.  FALSE of the code before fix has-indexes-cached-before-walk (`_has_indexes = False` was
    assigned before the walk: first call ELFParseError, second call `False`).  The driver answers a three-call history
    through this model and the harness compares it with three calls on one live object. -/
theorem has_indexes_history_independent (env : Env) (vs : VerSec) (k : Nat) :
    (vs.hasIndexesHist env k).1 = List.replicate k (vs.hasIndexes env) := by
  unfold VerSec.hasIndexesHist
  rw [(Proofs.SigCache.run_answers _ _ _ _ (Proofs.SigCache.inv_init _)).1, List.map_replicate]
  congr 1
  unfold Model.SigCache.stateless VerSec.hasIndexesScan
  cases vs.hasIndexes env <;> rfl

/-- composed with `need_has_indexes_exact`: on every laid-out requirement section, however often `has_indexes()` is asked
    on one object, each answer is "some auxiliary has a non-zero vna_other" of the encoded entries -/
theorem need_has_indexes_any_history (env : Env) (c : ElfCfg) (data : Bytes) (off strOff : Nat) (es : List NeedEntry)
    (hlen : data.length < 2 ^ 63) (h : needLayout c.le data strOff off es = true) (k : Nat) :
    ((VerSec.mkNeed (Spec.elfStructs c) data off es.length strOff).hasIndexesHist env k).1
      = List.replicate k (.ok (needHasIndexes es)) := by
  rw [has_indexes_history_independent, need_has_indexes_exact env c data off strOff es hlen h]

/-- a walk that raised leaves nothing behind -/
theorem has_indexes_failed_walk_publishes_nothing (env : Env) (vs : VerSec) (e : Err) (he : vs.hasIndexes env = .error e)
    (k : Nat) : (vs.hasIndexesHist env k).2.map.isSome = false := by
  unfold VerSec.hasIndexesHist
  rw [Proofs.SigCache.run_published]
  unfold VerSec.hasIndexesScan
  rw [he]
  simp

open PyElf.Spec.C15 PyElf.Model.C15 PyElf.Proofs.C15

/-! ### 1. the assembler satisfies the layout predicates -/

/-- any byte string that carries the assembled requirement section at `off` and the string table at
    `strOff` is a layout of the description -/
theorem assemble_need_layout (le : Bool) (fill : UInt8) (size : Nat) (es : List NeedEntry) (strtab : Bytes)
    (data rest rest' : Bytes) (off strOff : Nat) (hwf : needWf le strtab es = true)
    (hd : data.drop off = assembleNeed le fill size es ++ rest) (hs : data.drop strOff = strtab ++ rest') :
    needLayout le data strOff off es = true :=
  assembleNeed_layout hwf hd hs

theorem assemble_def_layout (le : Bool) (fill : UInt8) (size : Nat) (es : List DefEntry) (strtab : Bytes)
    (data rest rest' : Bytes) (off strOff : Nat) (hwf : defWf le strtab es = true)
    (hd : data.drop off = assembleDef le fill size es ++ rest) (hs : data.drop strOff = strtab ++ rest') :
    defLayout le data strOff off es = true :=
  assembleDef_layout hwf hd hs

theorem assemble_versym_layout (le : Bool) (fill : UInt8) (entsize : Nat) (rows : List VersymRow)
    (data rest : Bytes) (off : Nat) (hwf : versymWf entsize rows = true)
    (hd : data.drop off = assembleVersym le fill entsize rows ++ rest) :
    versymAt le data off entsize 0 rows = true := by
  simp only [versymWf, Bool.and_eq_true, decide_eq_true_eq, List.all_eq_true] at hwf
  exact assembleVersym_layout hwf.1 rows 0 rest hwf.2 (by rw [Nat.zero_mul, Nat.add_zero]; exact hd)

theorem assemble_syms_layout (cls : Nat) (le : Bool) (fill : UInt8) (entsize : Nat) (rows : List (Sym × VersymRow))
    (strtab data rest rest' : Bytes) (off strOff : Nat) (hwf : symsWf cls entsize strtab rows = true)
    (hd : data.drop off = assembleSyms cls le fill entsize (rows.map (·.1)) ++ rest)
    (hs : data.drop strOff = strtab ++ rest') :
    symsAt cls le data off entsize strOff 0 rows = true := by
  simp only [symsWf, Bool.and_eq_true, decide_eq_true_eq, List.all_eq_true] at hwf
  exact assembleSyms_layout hwf.1 hs rows 0 rest
    (fun r hr => by have := hwf.2 r hr; simpa [Bool.and_eq_true] using this)
    (by rw [Nat.zero_mul, Nat.add_zero]; exact hd)

/-- everything the property observes of a requirement section -/
def NeedObserved (env : Env) (vs : VerSec) (es : List NeedEntry) : Prop :=
  vs.numVersions = es.length ∧
  vs.versions env = .ok (es.map NeedEntry.obs) ∧
  (∀ i, vs.needGetVersion env i
    = .ok ((needFind i es).map fun ea => (ea.1.r.obs, some ea.1.file, ea.2.r.obs, ea.2.name))) ∧
  vs.hasIndexes env = .ok (needHasIndexes es)

/-- everything the property observes of a definition section -/
def DefObserved (env : Env) (vs : VerSec) (es : List DefEntry) : Prop :=
  vs.numVersions = es.length ∧
  vs.versions env = .ok (es.map DefEntry.obs) ∧
  (∀ i, vs.defGetVersion env i = .ok ((defFind i es).map fun e => (e.r.obs, e.auxs.map DefAux.obs)))

/-- everything the property observes of a version-symbol table -/
def VersymObserved (env : Env) (v : VersymSec) (rows : List (Sym × VersymRow)) : Prop :=
  v.numSymbols = .ok rows.length ∧
  v.symbols env = .ok (rows.map fun r => r.2.obs) ∧
  ∀ (i : Nat) (r : Sym × VersymRow), rows[i]? = some r → v.getSymbol env i = .ok r.2.obs

theorem need_observed (env : Env) (c : ElfCfg) (data : Bytes) (off strOff : Nat) (es : List NeedEntry)
    (hlen : data.length < 2 ^ 63) (h : needLayout c.le data strOff off es = true) :
    NeedObserved env (VerSec.mkNeed (Spec.elfStructs c) data off es.length strOff) es :=
  ⟨rfl, (need_versions_exact env c data off strOff es hlen h).1,
   need_get_version_exact env c data off strOff es hlen h,
   need_has_indexes_exact env c data off strOff es hlen h⟩

theorem def_observed (env : Env) (c : ElfCfg) (data : Bytes) (off strOff : Nat) (es : List DefEntry)
    (hlen : data.length < 2 ^ 63) (h : defLayout c.le data strOff off es = true) :
    DefObserved env (VerSec.mkDef (Spec.elfStructs c) data off es.length strOff) es :=
  ⟨rfl, (def_versions_exact env c data off strOff es hlen h).1, def_get_version_exact env c data off strOff es hlen h⟩

/-- `iter_versions` / `num_versions` / `get_version` / `has_indexes` on any byte string that carries the
    assembled section and its string table: only the description's well-formedness is assumed of the
    contents -/
theorem need_carried_exact (env : Env) (c : ElfCfg) (fill : UInt8) (size : Nat) (es : List NeedEntry)
    (strtab data rest rest' : Bytes) (off strOff : Nat) (hwf : needWf c.le strtab es = true)
    (hd : data.drop off = assembleNeed c.le fill size es ++ rest) (hs : data.drop strOff = strtab ++ rest')
    (hlen : data.length < 2 ^ 63) :
    NeedObserved env (VerSec.mkNeed (Spec.elfStructs c) data off es.length strOff) es :=
  need_observed env c data off strOff es hlen (assembleNeed_layout hwf hd hs)

theorem def_carried_exact (env : Env) (c : ElfCfg) (fill : UInt8) (size : Nat) (es : List DefEntry)
    (strtab data rest rest' : Bytes) (off strOff : Nat) (hwf : defWf c.le strtab es = true)
    (hd : data.drop off = assembleDef c.le fill size es ++ rest) (hs : data.drop strOff = strtab ++ rest')
    (hlen : data.length < 2 ^ 63) :
    DefObserved env (VerSec.mkDef (Spec.elfStructs c) data off es.length strOff) es :=
  def_observed env c data off strOff es hlen (assembleDef_layout hwf hd hs)

theorem versym_carried_exact (env : Env) (henv : EnvVersym env) (c : ElfCfg) (hcls : c.cls = 32 ∨ c.cls = 64)
    (fill : UInt8) (es symEs : Nat) (rows : List (Sym × VersymRow)) (strtab data rest rest' rest'' : Bytes)
    (off size symOff symStrOff : Nat)
    (hv : versymWf es (rows.map (·.2)) = true) (hy : symsWf c.cls symEs strtab rows = true)
    (hsize : size / es = rows.length)
    (hd : data.drop off = assembleVersym c.le fill es (rows.map (·.2)) ++ rest)
    (hsy : data.drop symOff = assembleSyms c.cls c.le fill symEs (rows.map (·.1)) ++ rest')
    (hs : data.drop symStrOff = strtab ++ rest'') (hlen : data.length < 2 ^ 63) :
    VersymObserved env (VersymSec.mk' (Spec.elfStructs c) data off size es symOff symEs symStrOff) rows := by
  have hes : 0 < es := by
    simp only [versymWf, Bool.and_eq_true, decide_eq_true_eq] at hv
    omega
  exact versym_exact env henv c hcls data hlen off size es symOff symEs symStrOff rows hes hsize
    (assemble_versym_layout c.le fill es _ data rest off hv hd)
    (assemble_syms_layout c.cls c.le fill symEs rows strtab data rest' rest'' symOff symStrOff hy hsy hs)

/-- non-vacuity: the descriptions of the examples above are well-formed, without looking at any bytes -/
example : needWf true [0, 0x6c, 0x63, 0, 0x56, 0x31, 0] exNeed = true := by decide
example : defWf false [0, 0x61, 0, 0x62, 0] exDef = true := by decide      -- the repeated record is written twice
example : versymWf 4 (exRows.map (·.2)) = true ∧ symsWf 64 32 [0, 0x66, 0] exRows = true := by decide
/-- … and two records claiming the same bytes differently are rejected (the auxiliary would overwrite the
    second half of its own entry) -/
def exClash : List NeedEntry :=
  [{ r := { version := 1, cnt := 1, file := 0, aux := 8, next := 0 }, file := [],
     auxs := [{ r := { hash := 7, flags := 0, other := 2, name := 0, next := 0 }, name := [] }] }]
example : needWf true [0] exClash = false := by decide

/-! ### 2. whole files -/

theorem take_length_of_le {α : Type} (l : List α) {n : Nat} (h : n ≤ l.length) : (l.take n).length = n := by
  rw [List.length_take]; omega

/-- `ELFFile(BytesIO(bytes)).get_section(sec)` for any byte string carrying a well-formed image whose
    section `sec` is an assembled version-requirement section declaring `declared` records: a
    `GNUVerNeedSection` whose `num_versions()`, `iter_versions()`, `get_version(i)` and `has_indexes()`
    are exactly those of the declared records -/
theorem need_file_exact (env : Env) (d : ElfDesc) (bytes : Bytes) (sec : Nat) (fill : UInt8) (size : Nat)
    (es : List NeedEntry) (declared : Nat) (hwf : needFileWf env d sec fill size es declared = true)
    (hl : Layout d bytes) (hlen : bytes.length < 2 ^ 63) :
    ∃ f vs, openElf env C01.specStructs C01.specMachineClass bytes = .ok f ∧
      getVerSection env f sec = .ok (.need vs) ∧ NeedObserved env vs (es.take declared) := by
  simp only [needFileWf, Bool.and_eq_true, decide_eq_true_eq] at hwf
  obtain ⟨⟨hz, hdecl⟩, hsec⟩ := hwf
  have F := verSecAt_unpack hsec
  obtain ⟨hdr, st, X, hopen⟩ := file_setup hz hl (Nat.lt_of_le_of_lt (Nat.zero_le _) F.hi)
  obtain ⟨off, strOff, strtab, rest, rest', hlk, hd, hs, hneed, -⟩ := getVerSection_ver X F
  have hlay := assembleNeed_layout hlk hd hs
  have hpre : needLayout d.le bytes strOff off (es.take declared) = true :=
    chainAt_prefix _ _ (es.take declared) (es.drop declared) off (by rw [List.take_append_drop]; exact hlay)
  have hobs := need_observed env d.cfg bytes off strOff (es.take declared) hlen hpre
  rw [take_length_of_le es hdecl] at hobs
  rw [C01.specStructs_eq, C01.specMachineClass_eq]
  exact ⟨_, _, hopen, hneed rfl, hobs⟩

theorem def_file_exact (env : Env) (d : ElfDesc) (bytes : Bytes) (sec : Nat) (fill : UInt8) (size : Nat)
    (es : List DefEntry) (declared : Nat) (hwf : defFileWf env d sec fill size es declared = true)
    (hl : Layout d bytes) (hlen : bytes.length < 2 ^ 63) :
    ∃ f vs, openElf env C01.specStructs C01.specMachineClass bytes = .ok f ∧
      getVerSection env f sec = .ok (.def_ vs) ∧ DefObserved env vs (es.take declared) := by
  simp only [defFileWf, Bool.and_eq_true, decide_eq_true_eq] at hwf
  obtain ⟨⟨hz, hdecl⟩, hsec⟩ := hwf
  have F := verSecAt_unpack hsec
  obtain ⟨hdr, st, X, hopen⟩ := file_setup hz hl (Nat.lt_of_le_of_lt (Nat.zero_le _) F.hi)
  obtain ⟨off, strOff, strtab, rest, rest', hlk, hd, hs, -, hdef⟩ := getVerSection_ver X F
  have hlay := assembleDef_layout hlk hd hs
  have hpre : defLayout d.le bytes strOff off (es.take declared) = true :=
    chainAt_prefix _ _ (es.take declared) (es.drop declared) off (by rw [List.take_append_drop]; exact hlay)
  have hobs := def_observed env d.cfg bytes off strOff (es.take declared) hlen hpre
  rw [take_length_of_le es hdecl] at hobs
  rw [C01.specStructs_eq, C01.specMachineClass_eq]
  exact ⟨_, _, hopen, hdef rfl, hobs⟩

/-- the version-symbol table of a whole file: reached through `get_section(sec)`, its symbol table through
    `sh_link`, the symbol names through the symbol table's `sh_link` -/
theorem versym_file_exact (env : Env) (henv : EnvVersym env) (d : ElfDesc) (bytes : Bytes) (sec : Nat) (fill : UInt8)
    (rows : List (Sym × VersymRow)) (slack moreSyms : Bytes)
    (hwf : versymFileWf env d sec fill rows slack moreSyms = true)
    (hl : Layout d bytes) (hlen : bytes.length < 2 ^ 63) :
    ∃ f v, openElf env C01.specStructs C01.specMachineClass bytes = .ok f ∧
      getVerSection env f sec = .ok (.versym v) ∧ VersymObserved env v rows := by
  obtain ⟨hz, F⟩ := versymFileWf_unpack hwf
  obtain ⟨hdr, st, X, hopen⟩ := file_setup hz hl (Nat.lt_of_le_of_lt (Nat.zero_le _) F.hi)
  obtain ⟨off, size, es, symOff, symEs, symStrOff, hget, hes, hsize, hv, hs⟩ := getVerSection_versym X F
  rw [C01.specStructs_eq, C01.specMachineClass_eq]
  exact ⟨_, _, hopen, hget,
    versym_exact env henv d.cfg X.hw.cls bytes hlen off size es symOff symEs symStrOff rows hes hsize hv hs⟩

/-- `get_section_by_name(name)` is `get_section` of the last section bearing the name, `None` when no
    section bears it (C01's `lookup_exact`, composed) -/
theorem by_name_exact (env : Env) (d : ElfDesc) (bytes : Bytes) (obs : ElfObs) (f : ElfFile)
    (hwf : d.wfZ env = true) (hl : Layout d bytes) (ho : d.observe env = .ok obs)
    (hf : openElf env C01.specStructs C01.specMachineClass bytes = .ok f) (name : Bytes) :
    getVerSectionByName env f name =
      match d.indexOfName name with
      | none => .ok none
      | some i => (getVerSection env f i).map some := by
  rw [C01.specStructs_eq, C01.specMachineClass_eq] at hf
  exact getVerSectionByName_eq hwf hl ho hf name

theorem observable_ok {env : Env} {d : ElfDesc} (h : observable env d = true) : ∃ obs, d.observe env = .ok obs := by
  unfold observable at h
  cases ho : d.observe env with
  | error e => simp [ho, Except.toOption] at h
  | ok obs => exact ⟨obs, rfl⟩

/-- by name = by index, for the section the name designates -/
theorem by_name_of_index (env : Env) (d : ElfDesc) (bytes : Bytes) (f : ElfFile)
    (hwf : d.wfZ env = true) (hl : Layout d bytes) (hobs : observable env d = true)
    (hf : openElf env C01.specStructs C01.specMachineClass bytes = .ok f) (name : Bytes) (sec : Nat)
    (hname : d.indexOfName name = some sec) (obj : VerObj) (hget : getVerSection env f sec = .ok obj) :
    getVerSectionByName env f name = .ok (some obj) := by
  obtain ⟨obs, ho⟩ := observable_ok hobs
  rw [by_name_exact env d bytes obs f hwf hl ho hf name, hname]
  simp only [hget]
  rfl

theorem by_name_absent (env : Env) (d : ElfDesc) (bytes : Bytes) (f : ElfFile)
    (hwf : d.wfZ env = true) (hl : Layout d bytes) (hobs : observable env d = true)
    (hf : openElf env C01.specStructs C01.specMachineClass bytes = .ok f) (name : Bytes)
    (hname : d.indexOfName name = none) :
    getVerSectionByName env f name = .ok none := by
  obtain ⟨obs, ho⟩ := observable_ok hobs
  rw [by_name_exact env d bytes obs f hwf hl ho hf name, hname]

/-- the image the Spec assembler produces: nothing but the description's well-formedness is assumed -/
theorem assembled_image (env : Env) (d : ElfDesc) (tail : Nat) (hz : d.wfZ env = true) (hfit : imageFits d tail = true) :
    ∃ bytes, d.assemble tail = some bytes ∧ Layout d bytes ∧ bytes.length < 2 ^ 63 := by
  obtain ⟨rs, hrs, -⟩ := (wfZ_facts hz).disj
  have hb : ∃ bytes, d.assemble tail = some bytes := by
    unfold ElfDesc.assemble
    simp [hrs]
  obtain ⟨bytes, hb⟩ := hb
  exact ⟨bytes, hb, C01.assemble_layout_z env d tail bytes hz hb, assemble_length_lt hz hfit hb⟩

theorem need_assembled_exact (env : Env) (d : ElfDesc) (tail sec : Nat) (fill : UInt8) (size : Nat)
    (es : List NeedEntry) (declared : Nat) (hwf : needFileWf env d sec fill size es declared = true)
    (hfit : imageFits d tail = true) :
    ∃ bytes f vs, d.assemble tail = some bytes ∧
      openElf env C01.specStructs C01.specMachineClass bytes = .ok f ∧
      getVerSection env f sec = .ok (.need vs) ∧ NeedObserved env vs (es.take declared) := by
  have hz : d.wfZ env = true := by
    simp only [needFileWf, Bool.and_eq_true] at hwf
    exact hwf.1.1
  obtain ⟨bytes, hb, hl, hlen⟩ := assembled_image env d tail hz hfit
  obtain ⟨f, vs, h⟩ := need_file_exact env d bytes sec fill size es declared hwf hl hlen
  exact ⟨bytes, f, vs, hb, h⟩

theorem def_assembled_exact (env : Env) (d : ElfDesc) (tail sec : Nat) (fill : UInt8) (size : Nat)
    (es : List DefEntry) (declared : Nat) (hwf : defFileWf env d sec fill size es declared = true)
    (hfit : imageFits d tail = true) :
    ∃ bytes f vs, d.assemble tail = some bytes ∧
      openElf env C01.specStructs C01.specMachineClass bytes = .ok f ∧
      getVerSection env f sec = .ok (.def_ vs) ∧ DefObserved env vs (es.take declared) := by
  have hz : d.wfZ env = true := by
    simp only [defFileWf, Bool.and_eq_true] at hwf
    exact hwf.1.1
  obtain ⟨bytes, hb, hl, hlen⟩ := assembled_image env d tail hz hfit
  obtain ⟨f, vs, h⟩ := def_file_exact env d bytes sec fill size es declared hwf hl hlen
  exact ⟨bytes, f, vs, hb, h⟩

theorem versym_assembled_exact (env : Env) (henv : EnvVersym env) (d : ElfDesc) (tail sec : Nat) (fill : UInt8)
    (rows : List (Sym × VersymRow)) (slack moreSyms : Bytes)
    (hwf : versymFileWf env d sec fill rows slack moreSyms = true) (hfit : imageFits d tail = true) :
    ∃ bytes f v, d.assemble tail = some bytes ∧
      openElf env C01.specStructs C01.specMachineClass bytes = .ok f ∧
      getVerSection env f sec = .ok (.versym v) ∧ VersymObserved env v rows := by
  obtain ⟨hz, -⟩ := versymFileWf_unpack hwf
  obtain ⟨bytes, hb, hl, hlen⟩ := assembled_image env d tail hz hfit
  obtain ⟨f, v, h⟩ := versym_file_exact env henv d bytes sec fill rows slack moreSyms hwf hl hlen
  exact ⟨bytes, f, v, hb, h⟩

/-- `ELFFile(BytesIO(image)).get_section_by_name(name)` for the assembled image, `name` designating (being
    borne last by) the version section: closed over the description -/
theorem need_by_name_assembled_exact (env : Env) (d : ElfDesc) (tail sec : Nat) (fill : UInt8) (size : Nat)
    (es : List NeedEntry) (declared : Nat) (name : Bytes)
    (hwf : needFileWf env d sec fill size es declared = true) (hobs : observable env d = true)
    (hfit : imageFits d tail = true) (hname : d.indexOfName name = some sec) :
    ∃ bytes f vs, d.assemble tail = some bytes ∧
      openElf env C01.specStructs C01.specMachineClass bytes = .ok f ∧
      getVerSectionByName env f name = .ok (some (.need vs)) ∧ NeedObserved env vs (es.take declared) := by
  have hz : d.wfZ env = true := by
    simp only [needFileWf, Bool.and_eq_true] at hwf
    exact hwf.1.1
  obtain ⟨bytes, hb, hl, hlen⟩ := assembled_image env d tail hz hfit
  obtain ⟨f, vs, hf, hget, hobsv⟩ := need_file_exact env d bytes sec fill size es declared hwf hl hlen
  exact ⟨bytes, f, vs, hb, hf, by_name_of_index env d bytes f hz hl hobs hf name sec hname _ hget, hobsv⟩

theorem def_by_name_assembled_exact (env : Env) (d : ElfDesc) (tail sec : Nat) (fill : UInt8) (size : Nat)
    (es : List DefEntry) (declared : Nat) (name : Bytes)
    (hwf : defFileWf env d sec fill size es declared = true) (hobs : observable env d = true)
    (hfit : imageFits d tail = true) (hname : d.indexOfName name = some sec) :
    ∃ bytes f vs, d.assemble tail = some bytes ∧
      openElf env C01.specStructs C01.specMachineClass bytes = .ok f ∧
      getVerSectionByName env f name = .ok (some (.def_ vs)) ∧ DefObserved env vs (es.take declared) := by
  have hz : d.wfZ env = true := by
    simp only [defFileWf, Bool.and_eq_true] at hwf
    exact hwf.1.1
  obtain ⟨bytes, hb, hl, hlen⟩ := assembled_image env d tail hz hfit
  obtain ⟨f, vs, hf, hget, hobsv⟩ := def_file_exact env d bytes sec fill size es declared hwf hl hlen
  exact ⟨bytes, f, vs, hb, hf, by_name_of_index env d bytes f hz hl hobs hf name sec hname _ hget, hobsv⟩

theorem versym_by_name_assembled_exact (env : Env) (henv : EnvVersym env) (d : ElfDesc) (tail sec : Nat)
    (fill : UInt8) (rows : List (Sym × VersymRow)) (slack moreSyms : Bytes) (name : Bytes)
    (hwf : versymFileWf env d sec fill rows slack moreSyms = true) (hobs : observable env d = true)
    (hfit : imageFits d tail = true) (hname : d.indexOfName name = some sec) :
    ∃ bytes f v, d.assemble tail = some bytes ∧
      openElf env C01.specStructs C01.specMachineClass bytes = .ok f ∧
      getVerSectionByName env f name = .ok (some (.versym v)) ∧ VersymObserved env v rows := by
  obtain ⟨hz, -⟩ := versymFileWf_unpack hwf
  obtain ⟨bytes, hb, hl, hlen⟩ := assembled_image env d tail hz hfit
  obtain ⟨f, v, hf, hget, hobsv⟩ := versym_file_exact env henv d bytes sec fill rows slack moreSyms hwf hl hlen
  exact ⟨bytes, f, v, hb, hf, by_name_of_index env d bytes f hz hl hobs hf name sec hname _ hget, hobsv⟩

/-! Non-vacuity of `needFileWf` / `defFileWf` / `versymFileWf` ∧ `imageFits` ∧ `observable` (the hypotheses of
   the `_file_exact`, `_assembled_exact` and `_by_name_assembled_exact` theorems), with the regenerated
   environment `Model.elfEnv`.  A kernel-checked `example` is not available, for the same reason as in
   C01/C09: `ElfDesc.wfZ` goes through `Con.encodeRaw` / `Con.decodeRaw`, which are compiled by well-founded
   recursion and do not reduce in the kernel.  Instead
   * three concrete images (below) are evaluated at build time by `#guard` (the Lean evaluator, not the
     kernel: the build fails if one of them does not satisfy the hypotheses);
   * the driver evaluates the same predicates on every description of the harness's `file` stream
     (Driver/C15.lean, kind `file`: `wf` = the `*FileWf` predicate ∧ `imageFits`, `observable`); the harness
     counts `file:<kind>:wf` — all 450 of a quick run — and aborts the run if it finds none.
   The contents-level parts (`needWf`, `defWf`, `versymWf`, `symsWf`) are kernel-checked above. -/

/-- null, `.dynstr`, the requirement section of `exNeed` (section 2, linked to 1, declaring 1), `.s` -/
def exNeedFile : ElfDesc :=
  exImage 64 true
    [{ name := [], nameOff := 0, ty := 0 },
     { name := nDynstr, nameOff := 1, ty := 3, body := some [0, 0x6c, 0x63, 0, 0x56, 0x31, 0] },
     { name := nVer, nameOff := 9, ty := 0x6ffffffe, link := 1, info := 1,
       body := some (assembleNeed true 0xAA 64 exNeed) },
     { name := nShstr, nameOff := 12, ty := 3, body := some exNames }] 3
#guard needFileWf Model.elfEnv exNeedFile 2 0xAA 64 exNeed 1 && imageFits exNeedFile 5 &&
  observable Model.elfEnv exNeedFile && exNeedFile.indexOfName nVer == some 2

/-- a 32-bit big-endian image: `.s`, the definition section of `exDef` (section 2, linked to 3) declaring two
    of its three records, `.dynstr`, and a later section that also bears the name `.v` -/
def exDefFile : ElfDesc :=
  exImage 32 false
    [{ name := [], nameOff := 0, ty := 0 },
     { name := nShstr, nameOff := 12, ty := 3, body := some exNames },
     { name := nVer, nameOff := 9, ty := 0x6ffffffd, link := 3, info := 2, body := some (assembleDef false 0 70 exDef) },
     { name := nDynstr, nameOff := 1, ty := 3, body := some [0, 0x61, 0, 0x62, 0] },
     { name := nVer, nameOff := 9, ty := 1, body := some [5, 6, 7] }] 1
#guard defFileWf Model.elfEnv exDefFile 2 0 70 exDef 2 && imageFits exDefFile 0 &&
  observable Model.elfEnv exDefFile && exDefFile.indexOfName nVer == some 4      -- by name: the later section

/-- `.dynstr`, `.dynsym` (32-byte entries, one more symbol than rows), the version-symbol table of `exRows`
    (4-byte entries and one byte of slack), `.s` -/
def exVersymFile : ElfDesc :=
  exImage 64 true
    [{ name := [], nameOff := 0, ty := 0 },
     { name := nDynstr, nameOff := 1, ty := 3, body := some [0, 0x66, 0] },
     { name := nDynsym, nameOff := 15, ty := 11, link := 1, info := 1, entsize := 32,
       body := some (assembleSyms 64 true 0 32 (exRows.map (·.1)) ++ List.replicate 32 7) },
     { name := nVer, nameOff := 9, ty := 0x6fffffff, link := 2, entsize := 4,
       body := some (assembleVersym true 0 4 (exRows.map (·.2)) ++ [9]) },
     { name := nShstr, nameOff := 12, ty := 3, body := some exNames }] 4
#guard versymFileWf Model.elfEnv exVersymFile 3 0 exRows [9] (List.replicate 32 7) && imageFits exVersymFile 0 &&
  observable Model.elfEnv exVersymFile && exVersymFile.indexOfName nVer == some 3

/-! ### 3. chains that end early, chains that leave the file -/

/-- a chain whose last record has displacement 0 is also the chain with that record repeated: the walk
    reads the same bytes again (generic: entry chains and auxiliary chains alike) -/
theorem chain_repeat_last {α : Type} (recAt : Nat → α → Bool) (next : α → Nat) (xs : List α) (x : α) (pos : Nat)
    (h : chainAt recAt next pos (xs ++ [x]) = true) (h0 : next x = 0) (k : Nat) :
    chainAt recAt next pos (xs ++ List.replicate (k + 1) x) = true :=
  chainAt_repeat_last recAt next xs x pos h h0 k

/-- `vn_next = 0` before the declared count (`sh_info`) is reached: every further turn yields that record
    again -/
theorem need_next_zero_early (env : Env) (c : ElfCfg) (data : Bytes) (off strOff : Nat) (es : List NeedEntry)
    (e : NeedEntry) (k : Nat) (hlen : data.length < 2 ^ 63)
    (h : needLayout c.le data strOff off (es ++ [e]) = true) (h0 : e.r.next = 0) :
    NeedObserved env (VerSec.mkNeed (Spec.elfStructs c) data off (es.length + (k + 1)) strOff)
      (es ++ List.replicate (k + 1) e) := by
  have := need_observed env c data off strOff (es ++ List.replicate (k + 1) e) hlen
    (chainAt_repeat_last _ _ es e off h h0 k)
  simpa using this

theorem def_next_zero_early (env : Env) (c : ElfCfg) (data : Bytes) (off strOff : Nat) (es : List DefEntry)
    (e : DefEntry) (k : Nat) (hlen : data.length < 2 ^ 63)
    (h : defLayout c.le data strOff off (es ++ [e]) = true) (h0 : e.r.next = 0) :
    DefObserved env (VerSec.mkDef (Spec.elfStructs c) data off (es.length + (k + 1)) strOff)
      (es ++ List.replicate (k + 1) e) := by
  have := def_observed env c data off strOff (es ++ List.replicate (k + 1) e) hlen
    (chainAt_repeat_last _ _ es e off h h0 k)
  simpa using this

/-- `vd_cnt` larger than the number of distinct auxiliaries, the last one with `vda_next = 0`: the entry is
    laid out with that auxiliary repeated up to the count (so every theorem above applies to it) -/
theorem def_cnt_exceeds_chain (le : Bool) (data : Bytes) (strOff pos : Nat) (e : DefEntry) (as : List DefAux)
    (a : DefAux) (k : Nat) (hf : e.r.fits = true) (hb : bytesAt data pos (e.r.enc le) = true)
    (hcnt : e.r.cnt = as.length + (k + 1)) (he : e.auxs = as ++ List.replicate (k + 1) a)
    (hch : chainAt (DefAux.at le data strOff) (·.r.next) (pos + e.r.aux) (as ++ [a]) = true) (h0 : a.r.next = 0) :
    DefEntry.at le data strOff pos e = true := by
  simp only [DefEntry.at, Bool.and_eq_true, decide_eq_true_eq]
  refine ⟨⟨⟨⟨hf, hb⟩, by rw [hcnt, he]; simp⟩, by omega⟩, ?_⟩
  rw [he]
  exact chainAt_repeat_last _ _ as a _ hch h0 k

theorem need_cnt_exceeds_chain (le : Bool) (data : Bytes) (strOff pos : Nat) (e : NeedEntry) (as : List NeedAux)
    (a : NeedAux) (k : Nat) (hf : e.r.fits = true) (hb : bytesAt data pos (e.r.enc le) = true)
    (hfile : gv_strAt data (strOff + e.r.file) e.file = true)
    (hcnt : e.r.cnt = as.length + (k + 1)) (he : e.auxs = as ++ List.replicate (k + 1) a)
    (hch : chainAt (NeedAux.at le data strOff) (·.r.next) (pos + e.r.aux) (as ++ [a]) = true) (h0 : a.r.next = 0) :
    NeedEntry.at le data strOff pos e = true := by
  simp only [NeedEntry.at, Bool.and_eq_true, decide_eq_true_eq]
  refine ⟨⟨⟨⟨⟨hf, hb⟩, hfile⟩, by rw [hcnt, he]; simp⟩, by omega⟩, ?_⟩
  rw [he]
  exact chainAt_repeat_last _ _ as a _ hch h0 k

/-- the section declares more records than are chained before the walk leaves the file (the next record
    does not fit before the end): the enumeration raises ELFParseError (after yielding the chained
    entries), `has_indexes()` raises it, and `get_version(i)` returns the carrier if one is chained — the
    walk never gets further — and raises otherwise -/
theorem need_truncated (env : Env) (c : ElfCfg) (data : Bytes) (off strOff : Nat) (es : List NeedEntry) (n : Nat)
    (hlen : data.length < 2 ^ 63) (h : needTruncated c.le data strOff off es n = true) :
    (VerSec.mkNeed (Spec.elfStructs c) data off n strOff).versions env = .error .elfParseError ∧
    (∀ i, (VerSec.mkNeed (Spec.elfStructs c) data off n strOff).needGetVersion env i
      = match needFind i es with
        | some ea => .ok (some (ea.1.r.obs, some ea.1.file, ea.2.r.obs, ea.2.name))
        | none => .error .elfParseError) ∧
    (VerSec.mkNeed (Spec.elfStructs c) data off n strOff).hasIndexes env = .error .elfParseError := by
  simp only [needTruncated, Bool.and_eq_true, decide_eq_true_eq] at h
  obtain ⟨⟨h, hn⟩, ht⟩ := h
  exact ⟨need_versions_truncated_chain env c data off n strOff hlen es off n h hn ht,
   fun i => needGetLoop_truncated env c data off n strOff hlen i es off n h hn ht,
   hasIndexesLoop_truncated env c data off n strOff hlen es off n false h hn ht⟩

theorem def_truncated (env : Env) (c : ElfCfg) (data : Bytes) (off strOff : Nat) (es : List DefEntry) (n : Nat)
    (hlen : data.length < 2 ^ 63) (h : defTruncated c.le data strOff off es n = true) :
    (VerSec.mkDef (Spec.elfStructs c) data off n strOff).versions env = .error .elfParseError ∧
    (∀ i, (VerSec.mkDef (Spec.elfStructs c) data off n strOff).defGetVersion env i
      = match defFind i es with
        | some e => .ok (some (e.r.obs, e.auxs.map DefAux.obs))
        | none => .error .elfParseError) := by
  simp only [defTruncated, Bool.and_eq_true, decide_eq_true_eq] at h
  obtain ⟨⟨h, hn⟩, ht⟩ := h
  exact ⟨def_versions_truncated_chain env c data off n strOff hlen es off n h hn ht,
   fun i => defGetLoop_truncated env c data off n strOff hlen i es off n h hn ht⟩

/-- an entry whose `vn_cnt` / `vd_cnt` exceeds its auxiliary chain, the chain leaving the file
    (`NeedEntry.atPartial`), reached after the complete entries `es`: the full enumeration raises
    ELFParseError -/
theorem need_aux_truncated (env : Env) (c : ElfCfg) (data : Bytes) (off strOff : Nat) (es : List NeedEntry)
    (e : NeedEntry) (n : Nat) (hlen : data.length < 2 ^ 63) (h : needLayout c.le data strOff off es = true)
    (hp : NeedEntry.atPartial c.le data strOff (chainEnd (fun e : NeedEntry => e.r.next) off es) e = true)
    (hn : es.length < n) :
    (VerSec.mkNeed (Spec.elfStructs c) data off n strOff).versions env = .error .elfParseError :=
  need_versions_aux_truncated env c data off n strOff hlen es e off n h (needPartial_of hp) hn

/-- `get_version(i)` on such a requirement section: the carrier if it is chained before the walk leaves the
    file (among the complete entries, or among the chained auxiliaries of the partial entry), ELFParseError
    otherwise -/
theorem need_aux_truncated_get (env : Env) (c : ElfCfg) (data : Bytes) (off strOff : Nat) (es : List NeedEntry)
    (e : NeedEntry) (n : Nat) (hlen : data.length < 2 ^ 63) (h : needLayout c.le data strOff off es = true)
    (hp : NeedEntry.atPartial c.le data strOff (chainEnd (fun e : NeedEntry => e.r.next) off es) e = true)
    (hn : es.length < n) (i : Nat) :
    (VerSec.mkNeed (Spec.elfStructs c) data off n strOff).needGetVersion env i
      = match needFind i es with
        | some ea => .ok (some (ea.1.r.obs, some ea.1.file, ea.2.r.obs, ea.2.name))
        | none =>
          match e.auxs.find? (fun a => a.r.other == i) with
          | some a => .ok (some (e.r.obs, some e.file, a.r.obs, a.name))
          | none => .error .elfParseError :=
  needGetLoop_aux_truncated env c data off n strOff hlen i es e off n h (needPartial_of hp) hn

theorem def_aux_truncated (env : Env) (c : ElfCfg) (data : Bytes) (off strOff : Nat) (es : List DefEntry)
    (e : DefEntry) (n : Nat) (hlen : data.length < 2 ^ 63) (h : defLayout c.le data strOff off es = true)
    (hp : DefEntry.atPartial c.le data strOff (chainEnd (fun e : DefEntry => e.r.next) off es) e = true)
    (hn : es.length < n) :
    (VerSec.mkDef (Spec.elfStructs c) data off n strOff).versions env = .error .elfParseError :=
  def_versions_aux_truncated env c data off n strOff hlen es e off n h (defPartial_of hp) hn

/-- non-vacuity: the requirement of `exNeed` with a displacement that leads out of the 71-byte file … -/
def exNeedT : List NeedEntry := exNeed.map fun e => { e with r := { e.r with next := 100 } }
def exNeedTData : Bytes := assembleNeed true 0xAA 64 exNeedT ++ [0, 0x6c, 0x63, 0, 0x56, 0x31, 0]
set_option maxRecDepth 100000 in
example : needTruncated true exNeedTData 64 0 exNeedT 2 = true := by decide
/-- … the same entry declaring three auxiliaries of which two are chained, the third position (the second
    auxiliary's `vna_next = 60` leads to 44 + 60 = 104) beyond the end … -/
def exNeedP : NeedEntry :=
  { r := { version := 1, cnt := 3, file := 1, aux := 20, next := 0 }, file := [0x6c, 0x63],
    auxs := [{ r := { hash := 7, flags := 0, other := 0x8002, name := 4, next := 24 }, name := [0x56, 0x31] },
             { r := { hash := 9, flags := 2, other := 3, name := 0, next := 60 }, name := [] }] }
def exNeedPData : Bytes :=
  assembleNeed true 0xAA 64 [exNeedP] ++ [0, 0x6c, 0x63, 0, 0x56, 0x31, 0]
set_option maxRecDepth 100000 in
example : NeedEntry.atPartial true exNeedPData 64 0 exNeedP = true := by decide
/-- … and `exDef` is its first entry followed by a record with `vd_next = 0` read twice -/
example : exDef = [exDef[0]] ++ List.replicate 2 exDef[1] ∧ exDef[1].r.next = 0 := by decide

end wave4

end PyElf.Props.C15
