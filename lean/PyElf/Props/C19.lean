/-
  C19 — opening arbitrary bytes fails only with the library's ELF error; header
  enumeration is bounded by the file size.

  Property theorems only.  They quantify over ALL byte strings: no well-formedness
  hypothesis anywhere.  The model raises `typeError`/`keyError`/`overflowError`/…
  exactly where Python would, which is what makes the closure statement meaningful.
-/
import PyElf.Model.ElfFile
import PyElf.Spec.ElfFactory
import PyElf.Proofs.ElfErrors
import PyElf.Props.TieC01
namespace PyElf.Props.C19
open PyElf PyElf.Spec PyElf.Model PyElf.Proofs

/-- `ELFFile(stream)` on any byte string: success, or ELFError / ELFParseError — never
    TypeError, KeyError, OverflowError, AttributeError, … -/
theorem construct_error_closed (env : Env) (data : Bytes) :
    (∃ f, openElf env structsFor machineClassOfVal data = .ok f) ∨
    openElf env structsFor machineClassOfVal data = .error .elfError ∨
    openElf env structsFor machineClassOfVal data = .error .elfParseError := by
  sorry

/-- sections: an index at which `get_section` succeeds lies within the file — so enumerating
    `range(num_sections())` makes at most `len/40 + 1` successful steps before it raises,
    whatever count the (possibly corrupt) header or the extended-numbering escape claims -/
theorem section_steps_bounded (env : Env) (c : ElfCfg) (data : Bytes) (hdr : Val) (shstr : Option Val)
    (n i : Nat) (r : String × Bytes × Val)
    (hn : numSections env (elfStructs c) data hdr = .ok n) (hi : i < n)
    (h : getSection env (elfStructs c) data hdr shstr i = .ok r) :
    40 * i + 40 ≤ data.length := by
  sorry

/-- segments: likewise (this is the statement the PN_XNUM defect violated: with e_phoff = 0 and
    e_phentsize = 0 every index succeeded) -/
theorem segment_steps_bounded (env : Env) (c : ElfCfg) (data : Bytes) (hdr : Val) (shstr : Option Val)
    (i : Nat) (r : String × Val)
    (h : getSegment env (elfStructs c) data hdr shstr i = .ok r) :
    32 * i + 32 ≤ data.length := by
  sorry

/-- enumeration stops at the first failing index: `mapM` over `range n` evaluates `f` on
    `0 … k` where `k` is the first failure, so the bounds above bound the work -/
theorem mapM_range_stops {α : Type} (f : Nat → R α) (n k : Nat) (e : Err) (hk : k < n)
    (hfail : f k = .error e) (hok : ∀ j < k, ∃ v, f j = .ok v) :
    (List.range n).mapM f = .error e := by
  sorry

/-- the section-link recursion of `_make_section` (symtab → strtab, versym → symtab → strtab) never
    needs more than the fuel the model gives it: `outOfFuel` is unreachable from `get_section` -/
theorem make_section_fuel_sufficient (env : Env) (c : ElfCfg) (data : Bytes) (hdr : Val) (shstr : Option Val) (i : Nat) :
    getSection env (elfStructs c) data hdr shstr i ≠ .error .outOfFuel := by
  sorry

end PyElf.Props.C19
