/-
  C19 — opening arbitrary bytes fails only with the library's ELF error; header
  enumeration is bounded by the file size.

  Property theorems only.  They quantify over ALL byte strings: no well-formedness
  hypothesis anywhere.  The model raises `typeError`/`keyError`/`overflowError`/…
  exactly where Python would, which is what makes the closure statement meaningful.
-/
import PyElf.Model.ElfFile
import PyElf.Spec.ElfFactory
import PyElf.Proofs.ElfErrors
import PyElf.Props.TieC01
import PyElf.Props.C19Loops
namespace PyElf.Props.C19
open PyElf PyElf.Spec PyElf.Model PyElf.Proofs

/-- `ELFFile(stream)` on any byte string: success, or ELFError / ELFParseError — never
    TypeError, KeyError, OverflowError, AttributeError, … -/
theorem construct_error_closed (env : Env) (data : Bytes) :
    (∃ f, openElf env structsFor machineClassOfVal data = .ok f) ∨
    openElf env structsFor machineClassOfVal data = .error .elfError ∨
    openElf env structsFor machineClassOfVal data = .error .elfParseError :=
  ElfErrors.openElf_error_closed env data

/- The first draft of the two bounds below quantified over an arbitrary `c : ElfCfg` and an
   arbitrary header value (`getSection env (elfStructs c) data hdr shstr i = .ok r → 40*i+40 ≤ len`).
   That is false for degenerate configurations no file can select: with
   `c = ⟨true, 0, "default", false, false⟩` the word size is 0, `Elf_Shdr.sizeof = 16` and
   `Elf_Phdr.sizeof = 8`; on `data = 32 zero bytes`,
   `hdr = {e_shentsize: 16, e_shoff: 16, e_shnum: 2, e_phentsize: 8, e_phoff: 0}`,
   `shstr = some {sh_offset: 0}`: `numSections = ok 2`, `getSection … 0` succeeds (40 > 32) and
   `getSegment … 3` succeeds (32*3+32 > 32).  The statements here are about a file `openElf`
   returned for `data` — still every byte string, no well-formedness hypothesis.  The
   configuration-generic bounds (`sizeof Shdr * (i+1) ≤ len`, `sizeof Phdr * (i+1) ≤ len`) are
   `Proofs.ElfErrors.getSection_ok_bound` / `Proofs.ElfErrors.getSegment_ok_bound`. -/

/-- sections: an index at which `get_section` succeeds lies within the file — so enumerating
    `range(num_sections())` makes at most `len/40 + 1` successful steps before it raises,
    whatever count the (possibly corrupt) header or the extended-numbering escape claims -/
theorem section_steps_bounded (env : Env) (data : Bytes) (f : ElfFile)
    (hf : openElf env structsFor machineClassOfVal data = .ok f)
    (n i : Nat) (r : String × Bytes × Val)
    (hn : numSections env f.S data f.header = .ok n) (hi : i < n)
    (h : getSection env f.S data f.header f.shstr i = .ok r) :
    40 * i + 40 ≤ data.length :=
  ElfErrors.openElf_getSection_bound hf hn hi h

/-- segments: likewise (this is the statement the PN_XNUM defect violated: with e_phoff = 0 and
    e_phentsize = 0 every index succeeded) -/
theorem segment_steps_bounded (env : Env) (data : Bytes) (f : ElfFile)
    (hf : openElf env structsFor machineClassOfVal data = .ok f)
    (i : Nat) (r : String × Val)
    (h : getSegment env f.S data f.header f.shstr i = .ok r) :
    32 * i + 32 ≤ data.length :=
  ElfErrors.openElf_getSegment_bound hf h

/-- enumeration stops at the first failing index: `mapM` over `range n` evaluates `f` on
    `0 … k` where `k` is the first failure, so the bounds above bound the work -/
theorem mapM_range_stops {α : Type} (f : Nat → R α) (n k : Nat) (e : Err) (hk : k < n)
    (hfail : f k = .error e) (hok : ∀ j < k, ∃ v, f j = .ok v) :
    (List.range n).mapM f = .error e :=
  ElfErrors.mapM_range_stops f n k e hk hfail hok

/-- the section-link recursion of `_make_section` (symtab → strtab, versym → symtab → strtab) never
    needs more than the fuel the model gives it: `outOfFuel` is unreachable from `get_section`
    (for every configuration and every header value, opened file or not) -/
theorem make_section_fuel_sufficient (env : Env) (c : ElfCfg) (data : Bytes) (hdr : Val) (shstr : Option Val) (i : Nat) :
    getSection env (elfStructs c) data hdr shstr i ≠ .error .outOfFuel :=
  ElfErrors.getSection_nf env c data hdr shstr i

/-- the same for the structures of a file `openElf` returned -/
theorem make_section_fuel_sufficient_opened (env : Env) (data : Bytes) (f : ElfFile)
    (hf : openElf env structsFor machineClassOfVal data = .ok f) (i : Nat) :
    getSection env f.S data f.header f.shstr i ≠ .error .outOfFuel :=
  ElfErrors.openElf_getSection_nf hf i

end PyElf.Props.C19
