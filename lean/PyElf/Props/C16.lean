/-
  C16 — primitive decoders invert the standard encodings and consume exact lengths.

  Property theorems only.  `pre`/`rest` are arbitrary surrounding bytes: every
  statement is "regardless of what precedes and follows".
-/
import PyElf.Core.Construct
import PyElf.Spec.Primitives
import PyElf.Model.Utils
import PyElf.Proofs.Primitives
import PyElf.Props.TieC16
namespace PyElf.Props.C16
open PyElf PyElf.Spec PyElf.Model PyElf.Proofs

/-! ### ULEB128 -/

/-- every complete LEB128 digit string (minimal or not, any length) decodes to the
    standard's value and consumes exactly its bytes -/
theorem uleb_valid (pre bs rest : Bytes) (h : ValidLEB bs = true) :
    parseUleb (pre ++ bs ++ rest) pre.length = .ok (ulebVal bs, pre.length + bs.length) :=
  parseUleb_valid (drop_pre pre bs rest) h

theorem uleb_enc_valid (n v : Nat) (hn : 1 ≤ n) : ValidLEB (encUlebN n v) = true :=
  encUlebN_valid n v hn

theorem uleb_enc_val (n v : Nat) (hn : 1 ≤ n) (hv : v < 2 ^ (7 * n)) : ulebVal (encUlebN n v) = v := by
  -- `hn` is not needed: for `n = 0` the hypothesis `hv` forces `v = 0 = ulebVal []`
  have _ := hn
  exact ulebVal_enc_of_lt hv

theorem uleb_enc_len (n v : Nat) : (encUlebN n v).length = n :=
  encUlebN_length n v

/-- round trip for every value and every (possibly padded) encoding length -/
theorem uleb_roundtrip (pre rest : Bytes) (n v : Nat) (hn : 1 ≤ n) (hv : v < 2 ^ (7 * n)) :
    parseUleb (pre ++ encUlebN n v ++ rest) pre.length = .ok (v, pre.length + n) := by
  have := parseUleb_valid (drop_pre pre (encUlebN n v) rest) (encUlebN_valid n v hn)
  rwa [ulebVal_enc_of_lt hv, encUlebN_length] at this

/-- input that ends inside a LEB128 number is the library's parse error -/
theorem uleb_truncated (pre bs : Bytes) (h : ∀ b ∈ bs, 128 ≤ b.toNat) :
    parseUleb (pre ++ bs) pre.length = .error .elfParseError :=
  parseUleb_trunc (drop_pre' pre bs) h

/-! ### SLEB128 -/

theorem sleb_valid (pre bs rest : Bytes) (h : ValidLEB bs = true) :
    parseSleb (pre ++ bs ++ rest) pre.length = .ok (slebVal bs, pre.length + bs.length) :=
  parseSleb_valid (drop_pre pre bs rest) h

theorem sleb_enc_val (n : Nat) (v : Int) (hn : 1 ≤ n)
    (hlo : -((2 ^ (7 * n - 1) : Nat) : Int) ≤ v) (hhi : v < ((2 ^ (7 * n - 1) : Nat) : Int)) :
    slebVal (encSlebN n v) = v :=
  slebVal_enc n v hn hlo hhi

theorem sleb_roundtrip (pre rest : Bytes) (n : Nat) (v : Int) (hn : 1 ≤ n)
    (hlo : -((2 ^ (7 * n - 1) : Nat) : Int) ≤ v) (hhi : v < ((2 ^ (7 * n - 1) : Nat) : Int)) :
    parseSleb (pre ++ encSlebN n v ++ rest) pre.length = .ok (v, pre.length + n) := by
  have := parseSleb_valid (drop_pre pre (encSlebN n v) rest) (encSlebN_valid n v hn)
  rwa [slebVal_enc n v hn hlo hhi, encSlebN_length] at this

theorem sleb_truncated (pre bs : Bytes) (h : ∀ b ∈ bs, 128 ≤ b.toNat) :
    parseSleb (pre ++ bs) pre.length = .error .elfParseError :=
  parseSleb_trunc (drop_pre' pre bs) h

/-! ### fixed-width integers, both byte orders and signednesses, any width -/

theorem uint_roundtrip (env : Env) (le : Bool) (n v : Nat) (pre rest : Bytes) (ctx : Fields) :
    Con.parse env (pre ++ encNat le n v ++ rest) (.uint n le) ctx pre.length
      = .ok (.int ((v % 256 ^ n : Nat) : Int), pre.length + n, ctx) := by
  rw [parse_uint_ok (drop_pre pre _ rest) (encNat_length le n v), decNat_encNat]

theorem sint_roundtrip (env : Env) (le : Bool) (n : Nat) (v : Int) (pre rest : Bytes) (ctx : Fields)
    (hn : 1 ≤ n) (hlo : -((2 ^ (8 * n - 1) : Nat) : Int) ≤ v) (hhi : v < ((2 ^ (8 * n - 1) : Nat) : Int)) :
    Con.parse env (pre ++ encNat le n (ofSigned (8 * n) v) ++ rest) (.sint n le) ctx pre.length
      = .ok (.int v, pre.length + n, ctx) := by
  rw [parse_sint_ok (drop_pre pre _ rest) (encNat_length le n _), sint_codec le n v hn hlo hhi]

theorem uint_truncated (env : Env) (le : Bool) (n : Nat) (pre bs : Bytes) (ctx : Fields)
    (h : bs.length < n) :
    Con.parse env (pre ++ bs) (.uint n le) ctx pre.length = .error .elfParseError :=
  parse_uint_short (drop_pre' pre bs) h

theorem sint_truncated (env : Env) (le : Bool) (n : Nat) (pre bs : Bytes) (ctx : Fields)
    (h : bs.length < n) :
    Con.parse env (pre ++ bs) (.sint n le) ctx pre.length = .error .elfParseError :=
  parse_sint_short (drop_pre' pre bs) h

/-- the (h, l) split of UBInt24 / ULInt24 is the 3-byte integer -/
theorem u24_roundtrip (env : Env) (le : Bool) (v : Nat) (hv : v < 2 ^ 24) (pre rest : Bytes) (ctx : Fields) :
    Con.parse env (pre ++ encNat le 3 v ++ rest) (.u24 le) ctx pre.length
      = .ok (.int (v : Int), pre.length + 3, ctx) :=
  parse_u24_ok hv (drop_pre pre _ rest)

theorem u24_truncated (env : Env) (le : Bool) (pre bs : Bytes) (ctx : Fields) (h : bs.length < 3) :
    Con.parse env (pre ++ bs) (.u24 le) ctx pre.length = .error .elfParseError :=
  parse_u24_short (drop_pre' pre bs) h

/-! ### NUL-terminated strings -/

theorem cstring_roundtrip (pre s rest : Bytes) (hs : ∀ b ∈ s, b ≠ 0) :
    parseCString (pre ++ s ++ [0] ++ rest) pre.length = .ok (s, pre.length + s.length + 1) :=
  parseCString_ok hs (drop_pre3' pre s [0] rest)

theorem cstring_unterminated (pre s : Bytes) (hs : ∀ b ∈ s, b ≠ 0) :
    parseCString (pre ++ s) pre.length = .error .elfParseError :=
  parseCString_unterminated hs (drop_pre' pre s)

/-- the chunked reader returns the bytes before the first NUL (or None) whatever the
    chunk size: 63/64/65-byte strings are instances, not tests -/
theorem cstring_chunked_eq (data : Bytes) (pos k : Nat) (hk : 1 ≤ k) :
    parseCStringFromStream data pos k = .ok (firstNul (data.drop pos)) := by
  have := cstringChunkLoop_eq data k hk (data.length - pos + 2) pos [] (by omega)
  simpa [parseCStringFromStream] using this

/-! ### DWARF initial length -/

theorem initial_length_32 (env : Env) (le : Bool) (len : Nat) (h : len < 0xFFFFFF00)
    (pre rest : Bytes) (ctx : Fields) :
    Con.parse env (pre ++ encInitLen le (.dwarf32 len) ++ rest) (.initialLength le) ctx pre.length
      = .ok (.int len, pre.length + 4, Fields.set ctx "is64" (.bool false)) := by
  have hd := drop_pre pre (encNat le 4 len) rest
  have hv : decNat le (encNat le 4 len) = len := decNat_encNat_of_lt le (by omega)
  have := parse_initlen_32 (env := env) (ctx := ctx) (le := le) hd (encNat_length le 4 len) (by rw [hv]; exact h)
  rwa [hv] at this

theorem initial_length_64 (env : Env) (le : Bool) (len : Nat) (h : len < 2 ^ 64)
    (pre rest : Bytes) (ctx : Fields) :
    Con.parse env (pre ++ encInitLen le (.dwarf64 len) ++ rest) (.initialLength le) ctx pre.length
      = .ok (.int len, pre.length + 12, Fields.set ctx "is64" (.bool true)) := by
  have hd : (pre ++ encInitLen le (.dwarf64 len) ++ rest).drop pre.length
      = encNat le 4 0xffffffff ++ (encNat le 8 len ++ rest) := by
    simp [encInitLen, List.append_assoc]
  have hv : decNat le (encNat le 8 len) = len := decNat_encNat_of_lt le (by omega)
  have := parse_initlen_64 (env := env) (ctx := ctx) (le := le) hd (encNat_length le 4 _)
    (encNat_length le 8 len) (decNat_encNat_of_lt le (by decide))
  rwa [hv] at this

/-- the reserved escapes 0xffffff00 … 0xfffffffe are rejected -/
theorem initial_length_reserved (env : Env) (le : Bool) (w : Nat) (h1 : 0xFFFFFF00 ≤ w) (h2 : w < 0xFFFFFFFF)
    (pre rest : Bytes) (ctx : Fields) :
    Con.parse env (pre ++ encNat le 4 w ++ rest) (.initialLength le) ctx pre.length
      = .error .elfParseError := by
  have hv : decNat le (encNat le 4 w) = w := decNat_encNat_of_lt le (by omega)
  exact parse_initlen_reserved (drop_pre pre _ rest) (encNat_length le 4 w)
    (by rw [hv]; exact h1) (by rw [hv]; omega)

theorem initial_length_truncated (env : Env) (le : Bool) (pre bs : Bytes) (ctx : Fields) (h : bs.length < 4) :
    Con.parse env (pre ++ bs) (.initialLength le) ctx pre.length = .error .elfParseError :=
  parse_initlen_short (drop_pre' pre bs) h

/-! ### length-prefixed blocks and terminated repeats -/

/-- a block with a fixed-width length prefix (DW_FORM_block1/2/4) -/
theorem block_fixed_roundtrip (env : Env) (le : Bool) (n : Nat) (payload pre rest : Bytes) (ctx : Fields)
    (hlen : payload.length < 256 ^ n) :
    Con.parse env (pre ++ encNat le n payload.length ++ payload ++ rest)
        (.prefixed (.uint n le) (.uint 1 le)) ctx pre.length
      = .ok (.list (payload.map fun b => .int b.toNat), pre.length + n + payload.length, ctx) :=
  parse_block_fixed hlen (drop_pre3 pre _ payload rest)

/-- a block with a ULEB128 length prefix (DW_FORM_block / exprloc), any prefix padding -/
theorem block_uleb_roundtrip (env : Env) (le : Bool) (k : Nat) (payload pre rest : Bytes) (ctx : Fields)
    (hk : 1 ≤ k) (hlen : payload.length < 2 ^ (7 * k)) :
    Con.parse env (pre ++ encUlebN k payload.length ++ payload ++ rest)
        (.prefixed .uleb (.uint 1 le)) ctx pre.length
      = .ok (.list (payload.map fun b => .int b.toNat), pre.length + k + payload.length, ctx) :=
  parse_block_uleb hk hlen (drop_pre3 pre _ payload rest)

/-- a block whose payload is cut short is the parse error -/
theorem block_truncated (env : Env) (le : Bool) (n len : Nat) (payload pre : Bytes) (ctx : Fields)
    (hlen : len < 256 ^ n) (h : payload.length < len) :
    Con.parse env (pre ++ encNat le n len ++ payload)
        (.prefixed (.uint n le) (.uint 1 le)) ctx pre.length = .error .elfParseError :=
  parse_block_trunc hlen h (by simp [List.append_assoc])

/-- RepeatUntilExcluding over C strings (the v2–4 include-directory table): the strings
    before the first empty one, consuming through its terminator -/
theorem repeat_cstrings (env : Env) (ss : List Bytes) (pre rest : Bytes) (ctx : Fields)
    (hs : ∀ s ∈ ss, s ≠ [] ∧ ∀ b ∈ s, b ≠ 0) :
    Con.parse env (pre ++ (ss.flatMap fun s => s ++ [0]) ++ [0] ++ rest)
        (.repeatUntilExcl (.eq .obj (.bytesLit [])) .cstring) ctx pre.length
      = .ok (.list (ss.map .bytes), pre.length + (ss.flatMap fun s => s ++ [0]).length + 1, ctx) :=
  parse_repeat_cstrings hs (drop_pre3' pre _ [0] rest)

/-! ### non-vacuity: concrete instances of the hypotheses -/

example : ValidLEB [0x80, 0x80, 0x00] = true := by decide          -- non-minimal zero
example : ulebVal [0xE5, 0x8E, 0x26] = 624485 := by decide          -- DWARF 5 fig. 7.6 example
example : slebVal [0xC0, 0xBB, 0x78] = -123456 := by decide
example : slebVal [0xFF, 0x7F] = -1 := by decide                    -- padded −1

end PyElf.Props.C16
