/-
  C02 tie: what the property's theorems assume about the regenerated side.
  * the structures `Section.__init__` / the segment and section accessors read with
    (compression, section and program headers) are the gABI's, for every configuration;
  * the `SH_FLAGS` constants the code consults are the gABI's;
  * in every `p_type` / `sh_type` / `ch_type` decoding table of /repo the names the code compares
    against carry exactly their standard codes, and the PT_GNU_SFRAME / PT_GNU_MBIND range is unnamed.
-/
import PyElf.Gen.Structs
import PyElf.Gen.Tables
import PyElf.Spec.ElfStructs
import PyElf.Proofs.Contents
namespace PyElf.Props.TieC02
open PyElf PyElf.Proofs.C02

theorem elf_Elf_Chdr : Gen.elfBundles.map (fun b => (b.1, b.2.Elf_Chdr)) = Spec.allElfCfgs.map (fun c => (c, (Spec.elfStructs c).Elf_Chdr)) := by rfl
theorem elf_Elf_Shdr : Gen.elfBundles.map (fun b => (b.1, b.2.Elf_Shdr)) = Spec.allElfCfgs.map (fun c => (c, (Spec.elfStructs c).Elf_Shdr)) := by rfl
theorem elf_Elf_Phdr : Gen.elfBundles.map (fun b => (b.1, b.2.Elf_Phdr)) = Spec.allElfCfgs.map (fun c => (c, (Spec.elfStructs c).Elf_Phdr)) := by rfl

/-- `SH_FLAGS.SHF_ALLOC / SHF_TLS / SHF_COMPRESSED` -/
theorem sh_flags_eq_spec :
    ((Gen.constTables.find? (·.1 == "EC.SH_FLAGS")).bind fun p => Model.C02.flagsOfTable p.2) = some Spec.C02.shFlags := by
  decide +kernel

/-- the decoding table `tid` of the regenerated side (empty when absent) -/
def tableOf (tid : String) : List (String × Int) :=
  match Gen.tables.find? (·.1 == tid) with
  | some (_, t, _) => t
  | none => []

theorem genEnumDecode_eq (tid : String) (v : Int) : Model.genEnumDecode tid v = Model.decodeIn (tableOf tid) v := by
  unfold Model.genEnumDecode tableOf
  cases Gen.tables.find? (·.1 == tid) <;> rfl

/-- how the library reports codes of table `tid` -/
theorem nameOr_gen (tid : String) : Spec.nameOr Model.genEnumDecode tid = decOfTable (tableOf tid) :=
  nameOr_eq_decOfTable (genEnumDecode_eq tid)

def pTypeTables : List String :=
  ["ENUM_P_TYPE_BASE", "ENUM_P_TYPE_ARM", "ENUM_P_TYPE_AARCH64", "ENUM_P_TYPE_MIPS", "ENUM_P_TYPE_RISCV"]
def shTypeTables : List String :=
  ["ENUM_SH_TYPE_BASE", "ENUM_SH_TYPE_AMD64", "ENUM_SH_TYPE_ARM", "ENUM_SH_TYPE_AARCH64", "ENUM_SH_TYPE_RISCV",
   "ENUM_SH_TYPE_MIPS"]

/-- these are all the tables the Spec bundles name for `p_type` / `sh_type` -/
theorem tables_cover : ∀ m ∈ Spec.machineClasses,
    Spec.pTypeTable m ∈ pTypeTables ∧ Spec.shTypeTable m ∈ shTypeTables := by decide

theorem ptype_tables_ok : pTypeTables.all (fun tid => ptypeTableOk (tableOf tid)) = true := by decide +kernel
theorem shtype_tables_ok :
    shTypeTables.all (fun tid => pairOk (tableOf tid) "SHT_NOBITS" Spec.C02.SHT_NOBITS) = true := by decide +kernel
theorem chtype_table_ok :
    pairOk (tableOf "ENUM_ELFCOMPRESS_TYPE") "ELFCOMPRESS_ZLIB" Spec.C02.ELFCOMPRESS_ZLIB = true := by decide +kernel

/-- every `p_type` decoder of /repo names PT_LOAD, PT_DYNAMIC, PT_PHDR, PT_TLS, PT_GNU_EH_FRAME,
    PT_GNU_STACK, PT_GNU_RELRO by their standard codes only and leaves PT_GNU_SFRAME / PT_GNU_MBIND unnamed -/
theorem ptype_naming (tid : String) (h : tid ∈ pTypeTables) :
    PTypeNaming (Spec.nameOr Model.genEnumDecode tid) := by
  rw [nameOr_gen]
  exact ptypeNaming_of_table (List.all_eq_true.1 ptype_tables_ok tid h)

theorem nobits_naming (tid : String) (h : tid ∈ shTypeTables) :
    NobitsNaming (Spec.nameOr Model.genEnumDecode tid) := by
  rw [nameOr_gen]
  exact nobitsNaming_of_table (List.all_eq_true.1 shtype_tables_ok tid h)

theorem zlib_naming : ZlibNaming (Spec.nameOr Model.genEnumDecode "ENUM_ELFCOMPRESS_TYPE") := by
  rw [nameOr_gen]
  exact zlibNaming_of_table chtype_table_ok

/-! ### the two names the object dispatch of the whole-file theorems relies on -/

theorem strtab_tables_ok :
    shTypeTables.all (fun tid => pairOk (tableOf tid) "SHT_STRTAB" 3) = true := by decide +kernel
theorem interp_tables_ok :
    pTypeTables.all (fun tid => pairOk (tableOf tid) "PT_INTERP" Spec.C02.PT_INTERP) = true := by decide +kernel

/-- every `sh_type` decoder of /repo reports code 3 as `SHT_STRTAB` (and nothing else so) -/
theorem strtab_naming (tid : String) (h : tid ∈ shTypeTables) (n : Nat) :
    Spec.nameOr Model.genEnumDecode tid n = .str "SHT_STRTAB" ↔ n = 3 := by
  rw [nameOr_gen]
  exact decOfTable_name_iff (List.all_eq_true.1 strtab_tables_ok tid h) n

/-- every `p_type` decoder of /repo reports code 3 as `PT_INTERP` (and nothing else so) -/
theorem interp_naming (tid : String) (h : tid ∈ pTypeTables) (n : Nat) :
    Spec.nameOr Model.genEnumDecode tid n = .str "PT_INTERP" ↔ n = Spec.C02.PT_INTERP := by
  rw [nameOr_gen]
  exact decOfTable_name_iff (List.all_eq_true.1 interp_tables_ok tid h) n

end PyElf.Props.TieC02
