/-
  C20 tie: the structures, tables and pure functions of the current tree that the C20 model and
  theorems rely on are the Spec's.  (The byte-code `ring`, `gpr_register_names`,
  `EHABI_INDEX_ENTRY_SIZE` and the T3 translation of `arm_expand_prel31` need no separate tie: the
  C20 theorems are stated about the regenerated definitions themselves.)
-/
import PyElf.Gen.Structs
import PyElf.Gen.Tables
import PyElf.Gen.Extra_C20
import PyElf.Spec.ElfStructs
import PyElf.Spec.DwarfStructs
import PyElf.Spec.Attributes
import PyElf.Model.Env
namespace PyElf.Props.TieC20
open PyElf

theorem elf_Elf_byte : Gen.elfBundles.map (fun b => (b.1, b.2.Elf_byte)) = Spec.allElfCfgs.map (fun c => (c, (Spec.elfStructs c).Elf_byte)) := by rfl
theorem elf_Elf_word : Gen.elfBundles.map (fun b => (b.1, b.2.Elf_word)) = Spec.allElfCfgs.map (fun c => (c, (Spec.elfStructs c).Elf_word)) := by rfl
theorem elf_Elf_uleb128 : Gen.elfBundles.map (fun b => (b.1, b.2.Elf_uleb128)) = Spec.allElfCfgs.map (fun c => (c, (Spec.elfStructs c).Elf_uleb128)) := by rfl
theorem elf_Elf_ntbs : Gen.elfBundles.map (fun b => (b.1, b.2.Elf_ntbs)) = Spec.allElfCfgs.map (fun c => (c, (Spec.elfStructs c).Elf_ntbs)) := by rfl
theorem elf_Elf_Attr_Subsection_Header : Gen.elfBundles.map (fun b => (b.1, b.2.Elf_Attr_Subsection_Header)) = Spec.allElfCfgs.map (fun c => (c, (Spec.elfStructs c).Elf_Attr_Subsection_Header)) := by rfl
theorem elf_Elf_Arm_Attribute_Tag : Gen.elfBundles.map (fun b => (b.1, b.2.Elf_Arm_Attribute_Tag)) = Spec.allElfCfgs.map (fun c => (c, (Spec.elfStructs c).Elf_Arm_Attribute_Tag)) := by rfl
theorem elf_Elf_RiscV_Attribute_Tag : Gen.elfBundles.map (fun b => (b.1, b.2.Elf_RiscV_Attribute_Tag)) = Spec.allElfCfgs.map (fun c => (c, (Spec.elfStructs c).Elf_RiscV_Attribute_Tag)) := by rfl

/-- `EHABIStructs(little_endian)` for both byte orders -/
theorem ehabi_bundles : Gen.ehabiBundles = [(true, Spec.ehabiStructs true), (false, Spec.ehabiStructs false)] := by rfl

/-- the library's ARM tag table is the ABI's -/
theorem arm_tag_table :
    (Gen.tables.find? (·.1 == "ENUM_ATTR_TAG_ARM")).map (·.2.1) = some Spec.Attr.armTags := by decide

/-- the library's RISC-V tag table is the psABI's -/
theorem riscv_tag_table :
    (Gen.tables.find? (·.1 == "ENUM_ATTR_TAG_RISCV")).map (·.2.1) = some Spec.Attr.riscvTags := by decide

/-- the tag-name tests of `ARMAttribute.__init__`, in order, are the ones the model mirrors -/
theorem arm_attr_dispatch :
    Gen.armAttrDispatch =
      [(["TAG_FILE", "TAG_SECTION", "TAG_SYMBOL"], 0),
       (["TAG_CPU_RAW_NAME", "TAG_CPU_NAME", "TAG_CONFORMANCE"], 1),
       (["TAG_COMPATIBILITY"], 2), (["TAG_ALSO_COMPATIBLE_WITH"], 3), ([], 4)] := by decide

theorem riscv_attr_dispatch :
    Gen.riscvAttrDispatch = [(["TAG_FILE", "TAG_SECTION", "TAG_SYMBOL"], 0), (["TAG_ARCH"], 1), ([], 2)] := by decide

/-- every NTBS of the attribute code is decoded as UTF-8 (the step the model adds to `Con.cstring`) -/
theorem attr_ntbs_utf8 : Gen.attrNtbsUtf8 = true := by decide

end PyElf.Props.TieC20
