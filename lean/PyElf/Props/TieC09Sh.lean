/-
  C09 tie, second part: in every section-type table `_create_shdr` can select
  (base, ARM, AArch64, AMD64, MIPS, RISC-V), as regenerated from /repo on this
  run, the codes the full layout of a `DynDesc` uses bear their gABI names.
-/
import PyElf.Gen.Structs
import PyElf.Spec.ElfStructs
import PyElf.Model.Env
import PyElf.Proofs.DynamicImage
namespace PyElf.Props.TieC09
open PyElf PyElf.Spec PyElf.Model PyElf.Proofs.Dynamic

def shTables : List String :=
  ["ENUM_SH_TYPE_ARM", "ENUM_SH_TYPE_AARCH64", "ENUM_SH_TYPE_AMD64", "ENUM_SH_TYPE_MIPS", "ENUM_SH_TYPE_RISCV",
   "ENUM_SH_TYPE_BASE"]

theorem shTypeTable_mem (m : String) : shTypeTable m ∈ shTables := by
  unfold shTypeTable shTables
  split <;> simp

theorem sh_codes : shTables.all (fun t =>
    elfEnv.enumDecode t 0 == some "SHT_NULL" && elfEnv.enumDecode t 1 == some "SHT_PROGBITS" &&
    elfEnv.enumDecode t 3 == some "SHT_STRTAB" && elfEnv.enumDecode t 6 == some "SHT_DYNAMIC" &&
    elfEnv.enumDecode t 11 == some "SHT_DYNSYM") = true := by decide +kernel

theorem sh_types : ShTypes elfEnv := by
  have key : ∀ m, elfEnv.enumDecode (shTypeTable m) 0 = some "SHT_NULL" ∧
      elfEnv.enumDecode (shTypeTable m) 1 = some "SHT_PROGBITS" ∧
      elfEnv.enumDecode (shTypeTable m) 3 = some "SHT_STRTAB" ∧
      elfEnv.enumDecode (shTypeTable m) 6 = some "SHT_DYNAMIC" ∧
      elfEnv.enumDecode (shTypeTable m) 11 = some "SHT_DYNSYM" := by
    intro m
    have := List.all_eq_true.1 sh_codes _ (shTypeTable_mem m)
    simpa only [Bool.and_eq_true, beq_iff_eq, and_assoc] using this
  refine ⟨?_, ?_, ?_, ?_, ?_⟩ <;> intro m <;> obtain ⟨h0, h1, h3, h6, h11⟩ := key m
  · simp only [shTy]; rw [show ((0 : Nat) : Int) = 0 from rfl, h0]
  · simp only [shTy]; rw [show ((1 : Nat) : Int) = 1 from rfl, h1]
  · simp only [shTy]; rw [show ((3 : Nat) : Int) = 3 from rfl, h3]
  · simp only [shTy]; rw [show ((6 : Nat) : Int) = 6 from rfl, h6]
  · simp only [shTy]; rw [show ((11 : Nat) : Int) = 11 from rfl, h11]

end PyElf.Props.TieC09
