/-
  C05 — line-number programs execute to the rows the DWARF state machine prescribes.

  Property theorems only.  `S = Spec.dwarfStructs cfg` is the CU's struct bundle (equal to the
  regenerated one by Props/TieC05), `specConsts` the DW_LNS_*/DW_LNE_* numbers (equal to the
  library's by `TieC05.lnConsts_are_standard`), `pre`/`rest` arbitrary surrounding bytes
  (other programs of the section), `env` any enum environment.  `hsz` says the unit ends below
  `PY_SSIZE_T_MAX` (2^63 − 1): beyond it `io.BytesIO.seek` raises OverflowError.
-/
import PyElf.Spec.LineProgram
import PyElf.Model.LineProgram
import PyElf.Proofs.LineProgram
import PyElf.Proofs.LineHeader
import PyElf.Proofs.LineHeaderV5
import PyElf.Model.Env
import PyElf.Props.TieC05
namespace PyElf.Props.C05
open PyElf PyElf.Spec PyElf.Spec.Line PyElf.Model.Line PyElf.Proofs.Line

/-- **Rows.**  Decoding the program of a well-formed unit, from the `LineProgram` object the header
    prescribes, yields entries whose states are exactly the rows of the standard's state machine
    (all standard opcodes incl. unknown ones skipped through `standard_opcode_lengths`, extended
    opcodes incl. unknown length-skipped ones, special opcodes; VLIW `op_index` arithmetic; any
    header parameters; padded LEB128 operands; several sequences). -/
theorem line_rows_eq_std (env : Env) (cfg : DwarfCfg) (h : Header) (secs : StrSecs) (is : List Instr)
    (pre rest : Bytes) (hwf : unitWF h secs is = true) (hle : h.p.le = cfg.le) (hasz : h.p.asz = cfg.asz)
    (hsz : pre.length + (encodeUnit h is).length ≤ ssizeMax) :
    ∃ entries files tell,
      decodeLineProgram env (Spec.dwarfStructs cfg) specConsts (pre ++ encodeUnit h is ++ rest)
          (lpOf h secs is pre.length) = .ok (entries, files, tell)
      ∧ rowsOf entries = stdRun h.p is := by
  obtain ⟨es, hrun, hrows⟩ := decode_lpOf (env := env) (cfg := cfg) h secs is pre rest hwf hle hasz hsz
  exact ⟨es, _, _, hrun, hrows⟩

/-- **Extent.**  Decoding stops exactly at the end of the unit (`program_end_offset`, the declared
    `unit_length`), wherever the unit sits in the section; DW_LNE_define_file entries are appended to
    the file table in program order. -/
theorem line_consumes_extent (env : Env) (cfg : DwarfCfg) (h : Header) (secs : StrSecs) (is : List Instr)
    (pre rest : Bytes) (hwf : unitWF h secs is = true) (hle : h.p.le = cfg.le) (hasz : h.p.asz = cfg.asz)
    (hsz : pre.length + (encodeUnit h is).length ≤ ssizeMax) :
    ∃ entries,
      decodeLineProgram env (Spec.dwarfStructs cfg) specConsts (pre ++ encodeUnit h is ++ rest)
          (lpOf h secs is pre.length)
        = .ok (entries,
               (lpOf h secs is pre.length).fileEntry.map (· ++ (definedFiles is).map FileEntry.obs),
               pre.length + (encodeUnit h is).length)
      ∧ (lpOf h secs is pre.length).program_end_offset = pre.length + (encodeUnit h is).length := by
  obtain ⟨es, hrun, _⟩ := decode_lpOf (env := env) (cfg := cfg) h secs is pre rest hwf hle hasz hsz
  exact ⟨es, hrun, rfl⟩

/-- one loop iteration on one encoded instruction is one step of the standard's machine
    (the inductive core of `line_rows_eq_std`, for every instruction form) -/
theorem line_step_eq_std (env : Env) (cfg : DwarfCfg) (p : Params) (ver : Nat) (i : Instr)
    (hp : p.WF ver = true) (hle : p.le = cfg.le) (hasz : p.asz = cfg.asz) (hw : i.WF p ver = true) :
    StepOK env cfg p ver i :=
  stepOK_all hp hle hasz i hw

/-- **Designation.**  The program attached to a unit is the one at the offset its DW_AT_stmt_list
    holds; a unit without the attribute has none. -/
theorem stmt_list_designates (env : Env) (S : DwarfStructs) (fmt : Nat) (secs : Secs) (data : Bytes)
    (cache : Cache) (attrs : Fields) (off : Nat)
    (h : Fields.get? attrs "DW_AT_stmt_list" = some (.int (off : Int))) :
    lineProgramForCU env S fmt secs data cache attrs
      = (match parseLineProgramAtOffset env S fmt secs data cache off with
         | .error e => .error e
         | .ok (lp, c) => .ok (some lp, c)) :=
  lineProgramForCU_some cache attrs off h

theorem stmt_list_absent (env : Env) (S : DwarfStructs) (fmt : Nat) (secs : Secs) (data : Bytes)
    (cache : Cache) (attrs : Fields) (h : Fields.get? attrs "DW_AT_stmt_list" = none) :
    lineProgramForCU env S fmt secs data cache attrs = .ok (none, cache) :=
  lineProgramForCU_none cache attrs h

/-- `_linetable_cache` is transparent: whatever it returns for an offset is what parsing at that
    offset gives, and it stays that way (invariant `CacheOK`, true of the empty cache) -/
theorem linetable_cache_coherent (env : Env) (S : DwarfStructs) (fmt : Nat) (secs : Secs) (data : Bytes)
    (cache : Cache) (off : Nat) (hc : CacheOK env S fmt secs data cache) (lp : LineProg) (cache' : Cache)
    (h : parseLineProgramAtOffset env S fmt secs data cache off = .ok (lp, cache')) :
    parseLineProgramFresh env S fmt secs data off = .ok lp ∧ CacheOK env S fmt secs data cache' :=
  parseAt_coherent cache off hc lp cache' h

theorem linetable_cache_init (env : Env) (S : DwarfStructs) (fmt : Nat) (secs : Secs) (data : Bytes) :
    CacheOK env S fmt secs data [] := cacheOK_nil


/-- the regenerated enum tables decode the DW_LNCT_* / DW_FORM_* codes of a version 5 entry format to the
    standard's names (`TieC05.lnct_names`, `TieC05.form_names`): the environment the library runs with
    satisfies the hypothesis `EnvOK` of the two theorems below -/
theorem gen_env_ok (S : DwarfStructs) : EnvOK (Model.dwarfEnv S) where
  lnct := by
    intro ct nm h
    have hm : ct ∈ [1, 2, 3, 4, 5] := by
      unfold lnctName at h
      split at h <;> first | (cases h; done) | decide
    show Model.genEnumDecode "ENUM_DW_LNCT" (Int.ofNat ct) = some nm
    rw [TieC05.lnct_names ct hm, h]
  form := by
    intro fc nm k h
    have hm : fc ∈ [0x08, 0x1f, 0x0e, 0x1d, 0x0b, 0x05, 0x06, 0x07, 0x0f, 0x1e, 0x09] := by
      unfold formOf at h
      split at h <;> first | (cases h; done) | decide
    show Model.genEnumDecode "ENUM_DW_FORM" (Int.ofNat fc) = some nm
    rw [TieC05.form_names fc hm, h]
    rfl

/-- **Header (versions 2–5).**  `_parse_line_program_at_offset` on a well-formed unit, wherever it sits in
    the section, returns the `LineProgram` object whose header is the encoded one field by field
    (parameters, `standard_opcode_lengths`; versions 2–4: include directories, file table; version 5:
    `address_size`, `segment_selector_size`, both entry formats, the directory and file-name entries
    decoded by the `FormattedEntry` struct built from the parsed format — DW_FORM_string, line_strp,
    strp, strp_sup, data1/2/4/8, udata, data16, block —, DW_FORM_line_strp / strp / strp_sup offsets
    resolved to the strings they designate in .debug_line_str / .debug_str / the supplementary
    .debug_str, and the legacy-compatible `include_directory` / `file_entry` tables derived from them),
    whose program starts right after the header (`program_start = tell()`) and ends at the declared
    `unit_length`.

    For version 5 only: `henv` says `env` decodes the DW_LNCT_* / DW_FORM_* codes to the standard's
    names (true of the regenerated tables: `gen_env_ok`), `hsecs` that `msecs`, the sections of the
    running `DWARFInfo`, hold the string sections `secs` the unit refers to (`SecsView`: .debug_line_str
    and .debug_str present with those contents, the supplementary .debug_str attached if `secs` has
    one, each at most `PY_SSIZE_T_MAX` bytes long). -/
theorem line_header_roundtrip (env : Env) (cfg : DwarfCfg) (msecs : Secs) (h : Header) (secs : StrSecs)
    (is : List Instr) (pre rest : Bytes) (hwf : unitWF h secs is = true)
    (hle : h.p.le = cfg.le) (hfmt : cfg.fmt = if h.fmt64 then 64 else 32)
    (henv : h.version ≥ 5 → EnvOK env) (hsecs : h.version ≥ 5 → SecsView msecs secs) :
    parseLineProgramFresh env (Spec.dwarfStructs cfg) cfg.fmt msecs (pre ++ encodeUnit h is ++ rest) pre.length
      = .ok (lpOf h secs is pre.length) :=
  parseFresh_all msecs h secs is pre rest hwf hle hfmt henv hsecs

/-- **End to end (versions 2–5).**  Through `line_program_for_CU` with a fresh cache: the unit's
    DW_AT_stmt_list designates the program, its header decodes to the encoded one, its rows are the
    standard's, decoding ends at the unit's end. -/
theorem line_program_end_to_end (env : Env) (cfg : DwarfCfg) (msecs : Secs) (h : Header) (secs : StrSecs)
    (is : List Instr) (pre rest : Bytes) (attrs : Fields) (hwf : unitWF h secs is = true)
    (hle : h.p.le = cfg.le) (hasz : h.p.asz = cfg.asz) (hfmt : cfg.fmt = if h.fmt64 then 64 else 32)
    (henv : h.version ≥ 5 → EnvOK env) (hsecs : h.version ≥ 5 → SecsView msecs secs)
    (hattr : Fields.get? attrs "DW_AT_stmt_list" = some (.int (pre.length : Int)))
    (hsz : pre.length + (encodeUnit h is).length ≤ ssizeMax) :
    ∃ lp cache entries files,
      lineProgramForCU env (Spec.dwarfStructs cfg) cfg.fmt msecs (pre ++ encodeUnit h is ++ rest) [] attrs
        = .ok (some lp, cache)
      ∧ lp.header = h.observe secs is
      ∧ lp.program_start_offset = pre.length + headerSize h
      ∧ decodeLineProgram env (Spec.dwarfStructs cfg) specConsts (pre ++ encodeUnit h is ++ rest) lp
          = .ok (entries, files, lp.program_end_offset)
      ∧ rowsOf entries = stdRun h.p is := by
  obtain ⟨es, hrun, hrows⟩ := decode_lpOf (env := env) (cfg := cfg) h secs is pre rest hwf hle hasz hsz
  refine ⟨lpOf h secs is pre.length, [(pre.length, lpOf h secs is pre.length)], es, _, ?_, rfl, rfl, hrun, hrows⟩
  rw [lineProgramForCU_some [] attrs pre.length hattr]
  have hp := parseFresh_all (env := env) (cfg := cfg) msecs h secs is pre rest hwf hle hfmt henv hsecs
  simp only [parseLineProgramAtOffset, List.find?_nil, hp, bind, Except.bind, pure, Except.pure, List.nil_append]

/-- the three parts of the version 5 header, each on its own:
    (1) an entry format `PrefixedArray(Struct(content_type, form), ubyte)` round-trips -/
theorem line_v5_entry_format_roundtrip (env : Env) (henv : EnvOK env) (le : Bool) (fmt : List (Nat × Nat))
    (pre rest : Bytes) (c : Fields) (hw : fmtWF fmt = true) :
    Con.parse env (pre ++ fmtEnc fmt ++ rest) (.prefixed (.uint 1 le) entryFormatCon) c pre.length
      = .ok (fmtObs fmt, pre.length + (fmtEnc fmt).length, c) :=
  parse_fmt henv hw (Proofs.drop_pre pre _ rest)

/-- (2) `FormattedEntry._parse`: the struct built at run time from the parsed format (found in the
    context under `ff`) decodes one encoded entry, form by form; string references are still offsets -/
theorem line_v5_formatted_entry_roundtrip (env : Env) (cfg : DwarfCfg) (fmt64 : Bool) (secs : StrSecs)
    (fmt : List (Nat × Nat)) (vs : List FieldVal) (ff : String) (c : Fields) (pre rest : Bytes)
    (hosz : cfg.fmt = if fmt64 then 64 else 32) (hfw : fmtWF fmt = true)
    (hc : Fields.getR c ff = .ok (fmtObs fmt)) (hw : entryWF fmt64 secs (kindsOf fmt) vs = true) :
    formattedParse env (Spec.dwarfStructs cfg) (pre ++ entryEnc cfg.le fmt64 (kindsOf fmt) vs ++ rest) ff pre.length c
      = .ok (.record (entryRaw fmt vs), pre.length + (entryEnc cfg.le fmt64 (kindsOf fmt) vs).length, c) :=
  formattedParse_ok (by rw [hosz]; cases fmt64 <;> rfl) hfw hc hw (Proofs.drop_pre pre _ rest)

/-- (3) `resolve_strings`: in a parsed header holding the format under `ff` and the raw entries under
    `df`, every DW_FORM_line_strp / strp / strp_sup field becomes the string it designates -/
theorem line_v5_resolve_strings (msecs : Secs) (secs : StrSecs) (fmt64 : Bool) (hview : SecsView msecs secs)
    (hdr : Fields) (ff df : String) (fmt : List (Nat × Nat)) (es : List (List FieldVal))
    (hfw : fmtWF fmt = true) (hes : ∀ e ∈ es, entryWF fmt64 secs (kindsOf fmt) e = true)
    (hf : Fields.get? hdr ff = some (fmtObs fmt))
    (hd : Fields.get? hdr df = some (.list (es.map fun e => .record (entryRaw fmt e)))) :
    resolveStrings msecs hdr ff df
      = .ok (Fields.set hdr df (.list (es.map fun e => .record (entryObs secs fmt e)))) :=
  resolveStrings_ok hview hfw hes hf hd

/-! ### the defects repaired in /repo, as facts about the standard's machine

  With `maximum_operations_per_instruction = 4`, `minimum_instruction_length = 8`:
  `advance_pc 5; copy` must give address 8, op_index 1 (the unrepaired code gave 40, 0);
  `const_add_pc` (opcode_base 13, line_range 14) must give 32, 1 (136, 0);
  `fixed_advance_pc` / `set_address` must reset op_index; the end_sequence row keeps `is_stmt`. -/

def vliw : Params :=
  { le := true, asz := 8, minInst := 8, maxOps := 4, defaultIsStmt := 1, lineBase := -5, lineRange := 14,
    opcodeBase := 13, stdLens := knownStdLens }

theorem vliw_wf : vliw.WF 4 = true := by decide

theorem std_advance_pc_vliw :
    (stdRun vliw [.advancePc ⟨5, 1⟩, .copy, .endSequence 1]).map (fun r => (r.address, r.opIndex, r.isStmt, r.endSequence))
      = [(8, 1, true, false), (8, 1, true, true)] := by decide

theorem std_const_add_pc_vliw :
    (stdRun vliw [.constAddPc, .copy]).map (fun r => (r.address, r.opIndex)) = [(32, 1)] := by decide

theorem std_fixed_advance_resets_op_index :
    (stdRun vliw [.special 32, .fixedAdvancePc 16, .copy]).map (fun r => (r.address, r.opIndex))
      = [(0, 1), (16, 0)] := by decide

theorem std_set_address_resets_op_index :
    (stdRun vliw [.special 32, .setAddress 1 4096, .copy]).map (fun r => (r.address, r.opIndex))
      = [(0, 1), (4096, 0)] := by decide

/-! ### non-vacuity -/

def exHeader : Header :=
  { version := 4, fmt64 := false, segSel := 0, p := vliw, includeDirs := [[0x64]],
    files := [⟨[0x61, 0x2e, 0x63], ⟨1, 1⟩, ⟨0, 2⟩, ⟨0, 1⟩⟩], dirFmt := [], dirs := [], fileFmt := [], fileNames := [] }

def exProgram : List Instr :=
  [.setAddress 1 0x1000, .advanceLine ⟨-1, 2⟩, .special 0x4b, .advancePc ⟨5, 3⟩, .constAddPc, .unknownExt 1 0x80 [1, 2],
   .defineFile 1 [0x62] ⟨0, 1⟩ ⟨0, 1⟩ ⟨0, 1⟩, .setDiscriminator 1 ⟨7, 1⟩, .copy, .endSequence 1]

example : unitWF exHeader ⟨[], [], none⟩ exProgram = true := by decide

/-- a v5 header with string forms resolved through .debug_line_str / .debug_str is well-formed -/
def exHeader5 : Header :=
  { version := 5, fmt64 := true, segSel := 0, p := { vliw with opcodeBase := 15, stdLens := knownStdLens ++ [2, 0] },
    includeDirs := [], files := [],
    dirFmt := [(1, 0x1f)], dirs := [[.ref 0]],
    fileFmt := [(1, 0x0e), (2, 0x0b), (5, 0x1e)],
    fileNames := [[.ref 1, .fixed 0, .data16 (List.replicate 16 7)]] }

example : unitWF exHeader5 ⟨[0x2f, 0], [0, 0x61, 0], none⟩ [.unknownStd 13 [⟨300, 2⟩, ⟨1, 1⟩], .copy] = true := by decide

/-! ### a version 5 header, end to end, as a closed instance

  DWARF64, little-endian; directory format (path: line_strp), file format (path: strp,
  directory_index: data1, MD5: data16); strings resolved through .debug_line_str / .debug_str;
  enum names from the regenerated tables; an unknown standard opcode (13, two operands) skipped. -/

def exCfg5 : DwarfCfg := ⟨true, 64, 8, 5⟩
def exSecs5 : StrSecs := ⟨[0x2f, 0], [0, 0x61, 0], none⟩
def exProgram5 : List Instr := [.unknownStd 13 [⟨300, 2⟩, ⟨1, 1⟩], .advancePc ⟨5, 1⟩, .copy, .endSequence 1]

example : unitWF exHeader5 exSecs5 exProgram5 = true := by decide

def lpAgrees (a b : LineProg) : Bool :=
  a.header == b.header && a.program_start_offset == b.program_start_offset
    && a.program_end_offset == b.program_end_offset
    && (match a.fileEntry, b.fileEntry with
        | none, none => true
        | some x, some y => Val.list x == Val.list y
        | _, _ => false)

/-- the hypotheses of `line_header_roundtrip` for this unit: the regenerated environment, and the sections as
    the running `DWARFInfo` holds them -/
example : SecsView ⟨some exSecs5.lineStr, some exSecs5.str, none⟩ exSecs5 :=
  ⟨rfl, rfl, fun _ h => (by cases h), (by decide), (by decide), fun _ h => (by cases h)⟩

/-- `line_header_roundtrip` instantiated (version 5, non-vacuous) -/
example :
    parseLineProgramFresh (Model.dwarfEnv (Spec.dwarfStructs exCfg5)) (Spec.dwarfStructs exCfg5) 64
        ⟨some exSecs5.lineStr, some exSecs5.str, none⟩ ([0xAA] ++ encodeUnit exHeader5 exProgram5 ++ [0xBB]) 1
      = .ok (lpOf exHeader5 exSecs5 exProgram5 1) :=
  line_header_roundtrip _ exCfg5 _ exHeader5 exSecs5 exProgram5 [0xAA] [0xBB] (by decide) rfl rfl
    (fun _ => gen_env_ok _) (fun _ => ⟨rfl, rfl, fun _ h => (by cases h), (by decide), (by decide), fun _ h => (by cases h)⟩)

/-- a second version 5 header: inline strings, a supplementary .debug_str, udata / block / data8 fields -/
def exHeader5b : Header :=
  { exHeader5 with
    fmt64 := false
    dirFmt := [(1, 0x08)]
    dirs := [[.str [0x2f, 0x74]], [.str [0x73, 0x72, 0x63]]]
    fileFmt := [(1, 0x1d), (2, 0x0f), (3, 0x09), (4, 0x07)]
    fileNames := [[.ref 2, .udata ⟨1, 2⟩, .block 1 [1, 2, 3], .fixed 0x1122334455667788]] }
def exSecs5b : StrSecs := ⟨[], [], some [0x78, 0, 0x62, 0x2e, 0x63, 0]⟩

example : unitWF exHeader5b exSecs5b exProgram5 = true := by decide
example : SecsView ⟨some [], some [], some exSecs5b.sup⟩ exSecs5b :=
  ⟨rfl, rfl, fun _ h => (by cases h; rfl), (by decide), (by decide), fun _ h => (by cases h; decide)⟩

theorem line_header_v5_instance :
    (match parseLineProgramFresh (Model.dwarfEnv (Spec.dwarfStructs exCfg5)) (Spec.dwarfStructs exCfg5) 64
        ⟨some exSecs5.lineStr, some exSecs5.str, none⟩ ([0xAA] ++ encodeUnit exHeader5 exProgram5 ++ [0xBB]) 1 with
     | .ok lp => lpAgrees lp (lpOf exHeader5 exSecs5 exProgram5 1)
     | .error _ => false) = true := by decide +kernel

theorem line_rows_v5_instance :
    (match parseLineProgramFresh (Model.dwarfEnv (Spec.dwarfStructs exCfg5)) (Spec.dwarfStructs exCfg5) 64
        ⟨some exSecs5.lineStr, some exSecs5.str, none⟩ ([0xAA] ++ encodeUnit exHeader5 exProgram5 ++ [0xBB]) 1 with
     | .ok lp =>
       (match decodeLineProgram (Model.dwarfEnv (Spec.dwarfStructs exCfg5)) (Spec.dwarfStructs exCfg5) specConsts
           ([0xAA] ++ encodeUnit exHeader5 exProgram5 ++ [0xBB]) lp with
        | .ok (es, _, tell) => decide (rowsOf es = stdRun exHeader5.p exProgram5)
            && decide (tell = 1 + (encodeUnit exHeader5 exProgram5).length)
        | .error _ => false)
     | .error _ => false) = true := by decide +kernel

end PyElf.Props.C05
