/-
  C05 — line-number programs execute to the rows the DWARF state machine prescribes.

  Property theorems only.  `S = Spec.dwarfStructs cfg` is the CU's struct bundle (equal to the
  regenerated one by Props/TieC05), `specConsts` the DW_LNS_*/DW_LNE_* numbers (equal to the
  library's by `TieC05.lnConsts_are_standard`), `pre`/`rest` arbitrary surrounding bytes
  (other programs of the section), `env` any enum environment.  `hsz` says the unit ends below
  `PY_SSIZE_T_MAX` (2^63 − 1): beyond it `io.BytesIO.seek` raises OverflowError.

  Proved (all versions 2–5, both formats, byte orders, address sizes, any surrounding bytes):
    header round trip incl. v5 entry formats / resolved names / legacy views (`line_header_roundtrip`,
    `line_header_roundtrip_v5`, `line_header_roundtrip_ext`), rows = the standard's machine and exact extent
    (`line_rows_eq_std`, `line_consumes_extent`, `line_rows_eq_std_ext`), designation and cache
    (`stmt_list_designates(_v5)`, `stmt_list_absent`, `linetable_cache_coherent`), end to end
    (`line_program_end_to_end(_v5/_ext)`), `header_length` honoured (`line_header_length_honoured`), exact
    behaviour with zero divisors (`line_zero_division`, `line_rows_eq_std_ext`).
  Seventh wave, from SECTION BYTES (composition with C04's `debug_info_exact`; see the section at the end):
    `line_programs_from_sections` (every unit of `iter_CUs()` of a well-formed forest gets, through
    `line_program_for_CU`, the program its top entry's DW_AT_stmt_list designates in the encoded `.debug_line` —
    header, extent, rows —, hypotheses on the descriptions only), `stmt_list_absent_from_sections`,
    `stmt_list_beyond_section`, `stmt_list_without_debug_line`, `linetable_cache_shared`; and from the BYTES OF A FILE
    through C11's `view_of_file_z` (sections stored plain / gABI-compressed / `.zdebug`, any mix):
    `line_programs_of_file_eq`, `line_programs_of_file`.
  Correspondence only (model == library on every run, no theorem): malformed input and the errors it raises
    (stream `raw`: truncation, `header_length` smaller than the known fields, forms §6.2.4.1 does not allow,
    version 5 tables without a first entry — the legacy views stay `None` —, DW_LNE_define_file in version 5,
    non-standard operand counts for the twelve standard opcodes, a line table whose DWARF format differs from
    the unit's), `get_entries()` memoisation and the mutation of a cached header by DW_LNE_define_file across
    queries, offsets beyond `PY_SSIZE_T_MAX`.
-/
import PyElf.Spec.LineProgram
import PyElf.Model.LineProgram
import PyElf.Proofs.LineProgram
import PyElf.Proofs.LineHeader
import PyElf.Proofs.LineHeaderV5
import PyElf.Proofs.LineUnitExt
import PyElf.Model.Env
import PyElf.Props.TieC05
import PyElf.Props.TieC05Info
import PyElf.Proofs.LineInfo
import PyElf.Proofs.LineFile
import PyElf.Props.C11
namespace PyElf.Props.C05
open PyElf PyElf.Spec PyElf.Spec.Line PyElf.Model.Line PyElf.Proofs.Line

/-- **Rows.**  Decoding the program of a well-formed unit, from the `LineProgram` object the header
    prescribes, yields entries whose states are exactly the rows of the standard's state machine
    (all standard opcodes incl. unknown ones skipped through `standard_opcode_lengths`, extended
    opcodes incl. unknown length-skipped ones, special opcodes; VLIW `op_index` arithmetic; any
    header parameters; padded LEB128 operands; several sequences). -/
theorem line_rows_eq_std (env : Env) (cfg : DwarfCfg) (h : Header) (secs : StrSecs) (is : List Instr)
    (pre rest : Bytes) (hwf : unitWF h secs is = true) (hle : h.p.le = cfg.le) (hasz : h.p.asz = cfg.asz)
    (hsz : pre.length + (encodeUnit h is).length ≤ ssizeMax) :
    ∃ entries files tell,
      decodeLineProgram env (Spec.dwarfStructs cfg) specConsts (pre ++ encodeUnit h is ++ rest)
          (lpOf h secs is pre.length) = .ok (entries, files, tell)
      ∧ rowsOf entries = stdRun h.p is := by
  obtain ⟨es, hrun, hrows⟩ := decode_lpOf (env := env) (cfg := cfg) h secs is pre rest hwf hle hasz hsz
  exact ⟨es, _, _, hrun, hrows⟩

/-- **Extent.**  Decoding stops exactly at the end of the unit (`program_end_offset`, the declared
    `unit_length`), wherever the unit sits in the section; DW_LNE_define_file entries are appended to
    the file table in program order. -/
theorem line_consumes_extent (env : Env) (cfg : DwarfCfg) (h : Header) (secs : StrSecs) (is : List Instr)
    (pre rest : Bytes) (hwf : unitWF h secs is = true) (hle : h.p.le = cfg.le) (hasz : h.p.asz = cfg.asz)
    (hsz : pre.length + (encodeUnit h is).length ≤ ssizeMax) :
    ∃ entries,
      decodeLineProgram env (Spec.dwarfStructs cfg) specConsts (pre ++ encodeUnit h is ++ rest)
          (lpOf h secs is pre.length)
        = .ok (entries,
               (lpOf h secs is pre.length).fileEntry.map (· ++ (definedFiles is).map FileEntry.obs),
               pre.length + (encodeUnit h is).length)
      ∧ (lpOf h secs is pre.length).program_end_offset = pre.length + (encodeUnit h is).length := by
  obtain ⟨es, hrun, _⟩ := decode_lpOf (env := env) (cfg := cfg) h secs is pre rest hwf hle hasz hsz
  exact ⟨es, hrun, rfl⟩

/-- one loop iteration on one encoded instruction is one step of the standard's machine
    (the inductive core of `line_rows_eq_std`, for every instruction form) -/
theorem line_step_eq_std (env : Env) (cfg : DwarfCfg) (p : Params) (ver : Nat) (i : Instr)
    (hp : p.WF ver = true) (hle : p.le = cfg.le) (hasz : p.asz = cfg.asz) (hw : i.WF p ver = true) :
    StepOK env cfg p ver i :=
  stepOK_all hp hle hasz i hw

/-- **Designation.**  The program attached to a unit is the one at the offset its DW_AT_stmt_list
    holds; a unit without the attribute has none. -/
theorem stmt_list_designates (env : Env) (S : DwarfStructs) (fmt : Nat) (secs : Secs) (data : Bytes)
    (cache : Cache) (attrs : Fields) (off : Nat)
    (h : Fields.get? attrs "DW_AT_stmt_list" = some (.int (off : Int))) :
    lineProgramForCU env S fmt secs data cache attrs
      = (match parseLineProgramAtOffset env S fmt secs data cache off with
         | .error e => .error e
         | .ok (lp, c) => .ok (some lp, c)) :=
  lineProgramForCU_some cache attrs off h

theorem stmt_list_absent (env : Env) (S : DwarfStructs) (fmt : Nat) (secs : Secs) (data : Bytes)
    (cache : Cache) (attrs : Fields) (h : Fields.get? attrs "DW_AT_stmt_list" = none) :
    lineProgramForCU env S fmt secs data cache attrs = .ok (none, cache) :=
  lineProgramForCU_none cache attrs h

/-- `_linetable_cache` is transparent: whatever it returns for an offset is what parsing at that
    offset gives, and it stays that way (invariant `CacheOK`, true of the empty cache) -/
theorem linetable_cache_coherent (env : Env) (S : DwarfStructs) (fmt : Nat) (secs : Secs) (data : Bytes)
    (cache : Cache) (off : Nat) (hc : CacheOK env S fmt secs data cache) (lp : LineProg) (cache' : Cache)
    (h : parseLineProgramAtOffset env S fmt secs data cache off = .ok (lp, cache')) :
    parseLineProgramFresh env S fmt secs data off = .ok lp ∧ CacheOK env S fmt secs data cache' :=
  parseAt_coherent cache off hc lp cache' h

theorem linetable_cache_init (env : Env) (S : DwarfStructs) (fmt : Nat) (secs : Secs) (data : Bytes) :
    CacheOK env S fmt secs data [] := cacheOK_nil


/-- the regenerated enum tables decode the DW_LNCT_* / DW_FORM_* codes of a version 5 entry format to the
    standard's names (`TieC05.lnct_names`, `TieC05.form_names`): the environment the library runs with
    satisfies the hypothesis `EnvOK` of the two theorems below -/
theorem gen_env_ok (S : DwarfStructs) : EnvOK (Model.dwarfEnv S) where
  lnct := by
    intro ct nm h
    have hm : ct ∈ [1, 2, 3, 4, 5] := by
      unfold lnctName at h
      split at h <;> first | (cases h; done) | decide
    show Model.genEnumDecode "ENUM_DW_LNCT" (Int.ofNat ct) = some nm
    rw [TieC05.lnct_names ct hm, h]
  form := by
    intro fc nm k h
    have hm : fc ∈ [0x08, 0x1f, 0x0e, 0x1d, 0x0b, 0x05, 0x06, 0x07, 0x0f, 0x1e, 0x09] := by
      unfold formOf at h
      split at h <;> first | (cases h; done) | decide
    show Model.genEnumDecode "ENUM_DW_FORM" (Int.ofNat fc) = some nm
    rw [TieC05.form_names fc hm, h]
    rfl

/-- **Header (versions 2–5).**  `_parse_line_program_at_offset` on a well-formed unit, wherever it sits in
    the section, returns the `LineProgram` object whose header is the encoded one field by field
    (parameters, `standard_opcode_lengths`; versions 2–4: include directories, file table; version 5:
    `address_size`, `segment_selector_size`, both entry formats, the directory and file-name entries
    decoded by the `FormattedEntry` struct built from the parsed format — DW_FORM_string, line_strp,
    strp, strp_sup, data1/2/4/8, udata, data16, block —, DW_FORM_line_strp / strp / strp_sup offsets
    resolved to the strings they designate in .debug_line_str / .debug_str / the supplementary
    .debug_str, and the legacy-compatible `include_directory` / `file_entry` tables derived from them),
    whose program starts `header_length` bytes past the `header_length` field — for these units (no
    extension bytes; see `line_header_roundtrip_ext` for the others) right after the last table — and ends
    at the declared `unit_length`.

    For version 5 only: `henv` says `env` decodes the DW_LNCT_* / DW_FORM_* codes to the standard's
    names (true of the regenerated tables: `gen_env_ok`), `hsecs` that `msecs`, the sections of the
    running `DWARFInfo`, hold the string sections `secs` the unit refers to (`SecsView`: .debug_line_str
    and .debug_str present with those contents, the supplementary .debug_str attached if `secs` has
    one, each at most `PY_SSIZE_T_MAX` bytes long). -/
theorem line_header_roundtrip (env : Env) (cfg : DwarfCfg) (msecs : Secs) (h : Header) (secs : StrSecs)
    (is : List Instr) (pre rest : Bytes) (hwf : unitWF h secs is = true)
    (hle : h.p.le = cfg.le) (hfmt : cfg.fmt = if h.fmt64 then 64 else 32)
    (henv : h.version ≥ 5 → EnvOK env) (hsecs : h.version ≥ 5 → SecsView msecs secs) :
    parseLineProgramFresh env (Spec.dwarfStructs cfg) cfg.fmt msecs (pre ++ encodeUnit h is ++ rest) pre.length
      = .ok (lpOf h secs is pre.length) :=
  parseFresh_all msecs h secs is pre rest hwf hle hfmt henv hsecs

/-- **End to end (versions 2–5).**  Through `line_program_for_CU` with a fresh cache: the unit's
    DW_AT_stmt_list designates the program, its header decodes to the encoded one, its rows are the
    standard's, decoding ends at the unit's end. -/
theorem line_program_end_to_end (env : Env) (cfg : DwarfCfg) (msecs : Secs) (h : Header) (secs : StrSecs)
    (is : List Instr) (pre rest : Bytes) (attrs : Fields) (hwf : unitWF h secs is = true)
    (hle : h.p.le = cfg.le) (hasz : h.p.asz = cfg.asz) (hfmt : cfg.fmt = if h.fmt64 then 64 else 32)
    (henv : h.version ≥ 5 → EnvOK env) (hsecs : h.version ≥ 5 → SecsView msecs secs)
    (hattr : Fields.get? attrs "DW_AT_stmt_list" = some (.int (pre.length : Int)))
    (hsz : pre.length + (encodeUnit h is).length ≤ ssizeMax) :
    ∃ lp cache entries files,
      lineProgramForCU env (Spec.dwarfStructs cfg) cfg.fmt msecs (pre ++ encodeUnit h is ++ rest) [] attrs
        = .ok (some lp, cache)
      ∧ lp.header = h.observe secs is
      ∧ lp.program_start_offset = pre.length + headerSize h
      ∧ decodeLineProgram env (Spec.dwarfStructs cfg) specConsts (pre ++ encodeUnit h is ++ rest) lp
          = .ok (entries, files, lp.program_end_offset)
      ∧ rowsOf entries = stdRun h.p is := by
  obtain ⟨es, hrun, hrows⟩ := decode_lpOf (env := env) (cfg := cfg) h secs is pre rest hwf hle hasz hsz
  refine ⟨lpOf h secs is pre.length, [(pre.length, lpOf h secs is pre.length)], es, _, ?_, rfl, rfl, hrun, hrows⟩
  rw [lineProgramForCU_some [] attrs pre.length hattr]
  have hp := parseFresh_all (env := env) (cfg := cfg) msecs h secs is pre rest hwf hle hfmt henv hsecs
  simp only [parseLineProgramAtOffset, List.find?_nil, hp, bind, Except.bind, pure, Except.pure, List.nil_append]

/-- the three parts of the version 5 header, each on its own:
    (1) an entry format `PrefixedArray(Struct(content_type, form), ubyte)` round-trips -/
theorem line_v5_entry_format_roundtrip (env : Env) (henv : EnvOK env) (le : Bool) (fmt : List (Nat × Nat))
    (pre rest : Bytes) (c : Fields) (hw : fmtWF fmt = true) :
    Con.parse env (pre ++ fmtEnc fmt ++ rest) (.prefixed (.uint 1 le) entryFormatCon) c pre.length
      = .ok (fmtObs fmt, pre.length + (fmtEnc fmt).length, c) :=
  parse_fmt henv hw (Proofs.drop_pre pre _ rest)

/-- (2) `FormattedEntry._parse`: the struct built at run time from the parsed format (found in the
    context under `ff`) decodes one encoded entry, form by form; string references are still offsets -/
theorem line_v5_formatted_entry_roundtrip (env : Env) (cfg : DwarfCfg) (fmt64 : Bool) (secs : StrSecs)
    (fmt : List (Nat × Nat)) (vs : List FieldVal) (ff : String) (c : Fields) (pre rest : Bytes)
    (hosz : cfg.fmt = if fmt64 then 64 else 32) (hfw : fmtWF fmt = true)
    (hc : Fields.getR c ff = .ok (fmtObs fmt)) (hw : entryWF fmt64 secs (kindsOf fmt) vs = true) :
    formattedParse env (Spec.dwarfStructs cfg) (pre ++ entryEnc cfg.le fmt64 (kindsOf fmt) vs ++ rest) ff pre.length c
      = .ok (.record (entryRaw fmt vs), pre.length + (entryEnc cfg.le fmt64 (kindsOf fmt) vs).length, c) :=
  formattedParse_ok (by rw [hosz]; cases fmt64 <;> rfl) hfw hc hw (Proofs.drop_pre pre _ rest)

/-- (3) `resolve_strings`: in a parsed header holding the format under `ff` and the raw entries under
    `df`, every DW_FORM_line_strp / strp / strp_sup field becomes the string it designates -/
theorem line_v5_resolve_strings (msecs : Secs) (secs : StrSecs) (fmt64 : Bool) (hview : SecsView msecs secs)
    (hdr : Fields) (ff df : String) (fmt : List (Nat × Nat)) (es : List (List FieldVal))
    (hfw : fmtWF fmt = true) (hes : ∀ e ∈ es, entryWF fmt64 secs (kindsOf fmt) e = true)
    (hf : Fields.get? hdr ff = some (fmtObs fmt))
    (hd : Fields.get? hdr df = some (.list (es.map fun e => .record (entryRaw fmt e)))) :
    resolveStrings msecs hdr ff df
      = .ok (Fields.set hdr df (.list (es.map fun e => .record (entryObs secs fmt e)))) :=
  resolveStrings_ok hview hfw hes hf hd

/-! ### the defects repaired in /repo, as facts about the standard's machine

  With `maximum_operations_per_instruction = 4`, `minimum_instruction_length = 8`:
  `advance_pc 5; copy` must give address 8, op_index 1 (the unrepaired code gave 40, 0);
  `const_add_pc` (opcode_base 13, line_range 14) must give 32, 1 (136, 0);
  `fixed_advance_pc` / `set_address` must reset op_index; the end_sequence row keeps `is_stmt`. -/

def vliw : Params :=
  { le := true, asz := 8, minInst := 8, maxOps := 4, defaultIsStmt := 1, lineBase := -5, lineRange := 14,
    opcodeBase := 13, stdLens := knownStdLens }

theorem vliw_wf : vliw.WF 4 = true := by decide

theorem std_advance_pc_vliw :
    (stdRun vliw [.advancePc ⟨5, 1⟩, .copy, .endSequence 1]).map (fun r => (r.address, r.opIndex, r.isStmt, r.endSequence))
      = [(8, 1, true, false), (8, 1, true, true)] := by decide

theorem std_const_add_pc_vliw :
    (stdRun vliw [.constAddPc, .copy]).map (fun r => (r.address, r.opIndex)) = [(32, 1)] := by decide

theorem std_fixed_advance_resets_op_index :
    (stdRun vliw [.special 32, .fixedAdvancePc 16, .copy]).map (fun r => (r.address, r.opIndex))
      = [(0, 1), (16, 0)] := by decide

theorem std_set_address_resets_op_index :
    (stdRun vliw [.special 32, .setAddress 1 4096, .copy]).map (fun r => (r.address, r.opIndex))
      = [(0, 1), (4096, 0)] := by decide

/-! ### non-vacuity -/

def exHeader : Header :=
  { version := 4, fmt64 := false, segSel := 0, p := vliw, includeDirs := [[0x64]],
    files := [⟨[0x61, 0x2e, 0x63], ⟨1, 1⟩, ⟨0, 2⟩, ⟨0, 1⟩⟩], dirFmt := [], dirs := [], fileFmt := [], fileNames := [] }

def exProgram : List Instr :=
  [.setAddress 1 0x1000, .advanceLine ⟨-1, 2⟩, .special 0x4b, .advancePc ⟨5, 3⟩, .constAddPc, .unknownExt 1 0x80 [1, 2],
   .defineFile 1 [0x62] ⟨0, 1⟩ ⟨0, 1⟩ ⟨0, 1⟩, .setDiscriminator 1 ⟨7, 1⟩, .copy, .endSequence 1]

example : unitWF exHeader ⟨[], [], none⟩ exProgram = true := by decide

/-- a v5 header with string forms resolved through .debug_line_str / .debug_str is well-formed -/
def exHeader5 : Header :=
  { version := 5, fmt64 := true, segSel := 0, p := { vliw with opcodeBase := 15, stdLens := knownStdLens ++ [2, 0] },
    includeDirs := [], files := [],
    dirFmt := [(1, 0x1f)], dirs := [[.ref 0]],
    fileFmt := [(1, 0x0e), (2, 0x0b), (5, 0x1e)],
    fileNames := [[.ref 1, .fixed 0, .data16 (List.replicate 16 7)]] }

example : unitWF exHeader5 ⟨[0x2f, 0], [0, 0x61, 0], none⟩ [.unknownStd 13 [⟨300, 2⟩, ⟨1, 1⟩], .copy] = true := by decide

/-! ### a version 5 header, end to end, as a closed instance

  DWARF64, little-endian; directory format (path: line_strp), file format (path: strp,
  directory_index: data1, MD5: data16); strings resolved through .debug_line_str / .debug_str;
  enum names from the regenerated tables; an unknown standard opcode (13, two operands) skipped. -/

def exCfg5 : DwarfCfg := ⟨true, 64, 8, 5⟩
def exSecs5 : StrSecs := ⟨[0x2f, 0], [0, 0x61, 0], none⟩
def exProgram5 : List Instr := [.unknownStd 13 [⟨300, 2⟩, ⟨1, 1⟩], .advancePc ⟨5, 1⟩, .copy, .endSequence 1]

example : unitWF exHeader5 exSecs5 exProgram5 = true := by decide

def lpAgrees (a b : LineProg) : Bool :=
  a.header == b.header && a.program_start_offset == b.program_start_offset
    && a.program_end_offset == b.program_end_offset
    && (match a.fileEntry, b.fileEntry with
        | none, none => true
        | some x, some y => Val.list x == Val.list y
        | _, _ => false)

/-- the hypotheses of `line_header_roundtrip` for this unit: the regenerated environment, and the sections as
    the running `DWARFInfo` holds them -/
example : SecsView ⟨some exSecs5.lineStr, some exSecs5.str, none⟩ exSecs5 :=
  ⟨rfl, rfl, fun _ h => (by cases h), (by decide), (by decide), fun _ h => (by cases h)⟩

/-- `line_header_roundtrip` instantiated (version 5, non-vacuous) -/
example :
    parseLineProgramFresh (Model.dwarfEnv (Spec.dwarfStructs exCfg5)) (Spec.dwarfStructs exCfg5) 64
        ⟨some exSecs5.lineStr, some exSecs5.str, none⟩ ([0xAA] ++ encodeUnit exHeader5 exProgram5 ++ [0xBB]) 1
      = .ok (lpOf exHeader5 exSecs5 exProgram5 1) :=
  line_header_roundtrip _ exCfg5 _ exHeader5 exSecs5 exProgram5 [0xAA] [0xBB] (by decide) rfl rfl
    (fun _ => gen_env_ok _) (fun _ => ⟨rfl, rfl, fun _ h => (by cases h), (by decide), (by decide), fun _ h => (by cases h)⟩)

/-- a second version 5 header: inline strings, a supplementary .debug_str, udata / block / data8 fields -/
def exHeader5b : Header :=
  { exHeader5 with
    fmt64 := false
    dirFmt := [(1, 0x08)]
    dirs := [[.str [0x2f, 0x74]], [.str [0x73, 0x72, 0x63]]]
    fileFmt := [(1, 0x1d), (2, 0x0f), (3, 0x09), (4, 0x07)]
    fileNames := [[.ref 2, .udata ⟨1, 2⟩, .block 1 [1, 2, 3], .fixed 0x1122334455667788]] }
def exSecs5b : StrSecs := ⟨[], [], some [0x78, 0, 0x62, 0x2e, 0x63, 0]⟩

example : unitWF exHeader5b exSecs5b exProgram5 = true := by decide
example : SecsView ⟨some [], some [], some exSecs5b.sup⟩ exSecs5b :=
  ⟨rfl, rfl, fun _ h => (by cases h; rfl), (by decide), (by decide), fun _ h => (by cases h; decide)⟩

theorem line_header_v5_instance :
    (match parseLineProgramFresh (Model.dwarfEnv (Spec.dwarfStructs exCfg5)) (Spec.dwarfStructs exCfg5) 64
        ⟨some exSecs5.lineStr, some exSecs5.str, none⟩ ([0xAA] ++ encodeUnit exHeader5 exProgram5 ++ [0xBB]) 1 with
     | .ok lp => lpAgrees lp (lpOf exHeader5 exSecs5 exProgram5 1)
     | .error _ => false) = true := by decide +kernel

theorem line_rows_v5_instance :
    (match parseLineProgramFresh (Model.dwarfEnv (Spec.dwarfStructs exCfg5)) (Spec.dwarfStructs exCfg5) 64
        ⟨some exSecs5.lineStr, some exSecs5.str, none⟩ ([0xAA] ++ encodeUnit exHeader5 exProgram5 ++ [0xBB]) 1 with
     | .ok lp =>
       (match decodeLineProgram (Model.dwarfEnv (Spec.dwarfStructs exCfg5)) (Spec.dwarfStructs exCfg5) specConsts
           ([0xAA] ++ encodeUnit exHeader5 exProgram5 ++ [0xBB]) lp with
        | .ok (es, _, tell) => decide (rowsOf es = stdRun exHeader5.p exProgram5)
            && decide (tell = 1 + (encodeUnit exHeader5 exProgram5).length)
        | .error _ => false)
     | .error _ => false) = true := by decide +kernel

/-! ## fourth wave

  (1) `header_length` is honoured (repaired in /repo, fixes/C05-header-length-program-start.patch): the
      program starts `header_length` bytes past the `header_length` field, wherever the parse of the tables
      stopped.  Units are `encodeUnitX h ext body` (Spec/LineProgramExt.lean): `ext` are bytes the standard
      does not define (vendor extension, padding) between the last table and the program, covered by
      `header_length`; `ext = []` is the unit of the theorems above (`encodeUnitX_nil`).
  (2) the header round trip and the rows need the parameters only to be ENCODABLE (`unitWFX`: every field in
      range; `maximum_operations_per_instruction`, `line_range`, `minimum_instruction_length` may be 0 or
      255) as long as no executed instruction divides by a field that is 0 (`progOK`); an instruction that does
      (`Instr.divZero`: a special opcode / DW_LNS_const_add_pc with `line_range = 0`, any operation advance
      with `maximum_operations_per_instruction = 0`) makes `get_entries()` raise ZeroDivisionError.
  (3) the version 5 header end to end under the regenerated enum tables, with the resolved names and the
      legacy `include_directory` / `file_entry` views spelled out. -/

/-- **Header, versions 2–5, `header_length` ≥ the known fields, encodable parameters.**
    `_parse_line_program_at_offset` returns the `LineProgram` object whose header is the encoded one
    (`unit_length`, `header_length` as laid out; every parameter, also 0 / 255; tables; v5 entry formats,
    resolved names, legacy views), whose program starts `header_length` bytes past the `header_length`
    field — behind the extension bytes — and ends at the declared `unit_length`. -/
theorem line_header_roundtrip_ext (env : Env) (cfg : DwarfCfg) (msecs : Secs) (h : Header) (secs : StrSecs)
    (ext body pre rest : Bytes) (hwf : unitWFX h secs ext body = true)
    (hle : h.p.le = cfg.le) (hfmt : cfg.fmt = if h.fmt64 then 64 else 32)
    (henv : h.version ≥ 5 → EnvOK env) (hsecs : h.version ≥ 5 → SecsView msecs secs) :
    parseLineProgramFresh env (Spec.dwarfStructs cfg) cfg.fmt msecs (pre ++ encodeUnitX h ext body ++ rest) pre.length
      = .ok (lpOfX h secs ext body pre.length) :=
  parseFreshX_all msecs h secs ext body pre rest hwf hle hfmt henv hsecs

/-- what `lpOfX` says about the extent: the program is exactly `body` — it starts behind `ext`, at the byte
    `header_length` designates, and ends where `unit_length` says -/
theorem line_header_length_honoured (h : Header) (secs : StrSecs) (ext body pre rest : Bytes) :
    (lpOfX h secs ext body pre.length).program_start_offset
        = pre.length + initLenSize h.fmt64 + (h.midX ext).length + (h.tail.length + ext.length)
    ∧ (lpOfX h secs ext body pre.length).program_end_offset
        = (lpOfX h secs ext body pre.length).program_start_offset + body.length
    ∧ (pre ++ encodeUnitX h ext body ++ rest).drop (lpOfX h secs ext body pre.length).program_start_offset
        = body ++ rest := by
  refine ⟨by simp [lpOfX, headerSizeX]; omega, ?_, drop_bodyX h ext body pre rest⟩
  simp only [lpOfX, encodeUnitX_length]; omega

/-- the units of the theorems of the first waves are the units without extension bytes -/
theorem line_unit_without_extension (h : Header) (secs : StrSecs) (is : List Instr) (off : Nat) :
    encodeUnitX h [] (encodeProgram h.p is) = encodeUnit h is
    ∧ lpOfX h secs [] (encodeProgram h.p is) off = lpOf h secs is off
    ∧ (unitWF h secs is = true → unitWFX h secs [] (encodeProgram h.p is) = true) :=
  ⟨encodeUnitX_nil h is, lpOfX_nil h secs is off, unitWF_X⟩

/-- **Rows and extent, any `header_length` ≥ the known fields, encodable parameters.**  If no instruction
    of the program divides by a zero field, the rows are the standard's and decoding ends at the unit's end:
    extension bytes produce no rows; `maximum_operations_per_instruction = 0` / `line_range = 0` do not matter
    to programs that never divide by them; `minimum_instruction_length` 0 and 255,
    `maximum_operations_per_instruction` 255 are ordinary values. -/
theorem line_rows_eq_std_ext (env : Env) (cfg : DwarfCfg) (h : Header) (secs : StrSecs) (ext : Bytes) (is : List Instr)
    (pre rest : Bytes) (hwf : unitWFX h secs ext (encodeProgram h.p is) = true) (hs : h.p.stdLensOK = true)
    (hprog : progOK h.p h.version is = true) (hle : h.p.le = cfg.le) (hasz : h.p.asz = cfg.asz)
    (hsz : pre.length + (encodeUnitX h ext (encodeProgram h.p is)).length ≤ ssizeMax) :
    ∃ entries,
      decodeLineProgram env (Spec.dwarfStructs cfg) specConsts (pre ++ encodeUnitX h ext (encodeProgram h.p is) ++ rest)
          (lpOfX h secs ext (encodeProgram h.p is) pre.length)
        = .ok (entries,
               (lpOfX h secs ext (encodeProgram h.p is) pre.length).fileEntry.map (· ++ (definedFiles is).map FileEntry.obs),
               pre.length + (encodeUnitX h ext (encodeProgram h.p is)).length)
      ∧ rowsOf entries = stdRun h.p is :=
  decode_lpOfX h secs ext is pre rest hwf hs hprog hle hasz hsz

/-- **Division by zero (exact behaviour).**  `is1` divides by no zero field, `i` does: `get_entries()` raises
    ZeroDivisionError — no rows at all are delivered, not even those of `is1`.  (The standard's formulas
    §6.2.5.1 give such an instruction no meaning: the unit is outside the property's quantifier.) -/
theorem line_zero_division (env : Env) (cfg : DwarfCfg) (h : Header) (secs : StrSecs) (ext : Bytes)
    (is1 : List Instr) (i : Instr) (is2 : List Instr) (pre rest : Bytes)
    (hwf : unitWFX h secs ext (encodeProgram h.p (is1 ++ i :: is2)) = true) (hs : h.p.stdLensOK = true)
    (hprog : progOK h.p h.version is1 = true) (hw : i.WF h.p h.version = true) (hz : i.divZero h.p = true)
    (hle : h.p.le = cfg.le) (hasz : h.p.asz = cfg.asz)
    (hsz : pre.length + (encodeUnitX h ext (encodeProgram h.p (is1 ++ i :: is2))).length ≤ ssizeMax) :
    decodeLineProgram env (Spec.dwarfStructs cfg) specConsts
        (pre ++ encodeUnitX h ext (encodeProgram h.p (is1 ++ i :: is2)) ++ rest)
        (lpOfX h secs ext (encodeProgram h.p (is1 ++ i :: is2)) pre.length)
      = .error .zeroDivision :=
  decode_lpOfX_divZero h secs ext is1 i is2 pre rest hwf hs hprog hw hz hle hasz hsz

/-- which instructions divide by which field: exactly the standard's (§6.2.5.1, §6.2.5.2) -/
theorem line_divZero_iff (p : Params) (i : Instr) :
    i.divZero p = true ↔
      ((∃ op, i = .special op) ∨ i = .constAddPc) ∧ (p.lineRange = 0 ∨ p.maxOps = 0)
      ∨ (∃ n, i = .advancePc n) ∧ p.maxOps = 0 := by
  cases i <;> simp [Instr.divZero, Instr.usesLineRange, Instr.advances]

/-- under the standard's parameter requirements nothing divides by zero: `progOK` is `Instr.WF` -/
theorem line_progOK_of_WF (p : Params) (ver : Nat) (is : List Instr) (hp : p.WF ver = true)
    (his : is.all (Instr.WF p ver) = true) : progOK p ver is = true := by
  have h1 := pwf_maxOps hp
  have h2 := pwf_lineRange hp
  have hm : p.maxOps ≠ 0 := by omega
  have hl : p.lineRange ≠ 0 := by omega
  simp only [progOK, List.all_eq_true] at his ⊢
  intro i hi
  simp [his i hi, Instr.divZero, hm, hl]

/-- **End to end, versions 2–5, any `header_length` ≥ the known fields, encodable parameters.** -/
theorem line_program_end_to_end_ext (env : Env) (cfg : DwarfCfg) (msecs : Secs) (h : Header) (secs : StrSecs)
    (ext : Bytes) (is : List Instr) (pre rest : Bytes) (attrs : Fields)
    (hwf : unitWFX h secs ext (encodeProgram h.p is) = true) (hs : h.p.stdLensOK = true)
    (hprog : progOK h.p h.version is = true)
    (hle : h.p.le = cfg.le) (hasz : h.p.asz = cfg.asz) (hfmt : cfg.fmt = if h.fmt64 then 64 else 32)
    (henv : h.version ≥ 5 → EnvOK env) (hsecs : h.version ≥ 5 → SecsView msecs secs)
    (hattr : Fields.get? attrs "DW_AT_stmt_list" = some (.int (pre.length : Int)))
    (hsz : pre.length + (encodeUnitX h ext (encodeProgram h.p is)).length ≤ ssizeMax) :
    ∃ lp cache entries files,
      lineProgramForCU env (Spec.dwarfStructs cfg) cfg.fmt msecs
          (pre ++ encodeUnitX h ext (encodeProgram h.p is) ++ rest) [] attrs = .ok (some lp, cache)
      ∧ lp.header = h.observeX secs ext (encodeProgram h.p is)
      ∧ lp.program_start_offset = pre.length + headerSizeX h ext
      ∧ decodeLineProgram env (Spec.dwarfStructs cfg) specConsts
          (pre ++ encodeUnitX h ext (encodeProgram h.p is) ++ rest) lp = .ok (entries, files, lp.program_end_offset)
      ∧ rowsOf entries = stdRun h.p is := by
  obtain ⟨es, hrun, hrows⟩ := decode_lpOfX (env := env) (cfg := cfg) h secs ext is pre rest hwf hs hprog hle hasz hsz
  refine ⟨lpOfX h secs ext (encodeProgram h.p is) pre.length,
    [(pre.length, lpOfX h secs ext (encodeProgram h.p is) pre.length)], es, _, ?_, rfl, rfl, hrun, hrows⟩
  rw [lineProgramForCU_some [] attrs pre.length hattr]
  have hp := parseFreshX_all (env := env) (cfg := cfg) msecs h secs ext (encodeProgram h.p is) pre rest hwf hle hfmt
    henv hsecs
  simp only [parseLineProgramAtOffset, List.find?_nil, hp, bind, Except.bind, pure, Except.pure, List.nil_append]

/-! ### version 5, composed: regenerated enum tables, resolved names, legacy views -/

/-- the decoded version 5 header, field by field: `directories` / `file_names` are the encoded entries with
    every DW_FORM_line_strp / strp / strp_sup offset replaced by the string it designates (`entryObs`),
    `include_directory` the directories' paths, `file_entry` the file names reshaped to the version 2–4
    record (name, dir_index, mtime, length; absent content types are `None`) -/
theorem line_v5_observed_header (h : Header) (secs : StrSecs) (ext body : Bytes) (hv5 : h.version ≥ 5) :
    h.observeX secs ext body = .record [
      ("unit_length", .int (h.midX ext ++ h.tail ++ ext ++ body).length),
      ("version", .int h.version), ("address_size", .int h.p.asz), ("segment_selector_size", .int h.segSel),
      ("header_length", .int (h.tail.length + ext.length : Nat)),
      ("minimum_instruction_length", .int h.p.minInst),
      ("maximum_operations_per_instruction", .int h.p.maxOps),
      ("default_is_stmt", .int h.p.defaultIsStmt), ("line_base", .int h.p.lineBase),
      ("line_range", .int h.p.lineRange), ("opcode_base", .int h.p.opcodeBase),
      ("standard_opcode_lengths", .list (h.p.stdLens.map fun n => .int (Int.ofNat n))),
      ("directory_entry_format", fmtObs h.dirFmt),
      ("directories", .list (h.dirs.map fun e => .record (entryObs secs h.dirFmt e))),
      ("file_name_entry_format", fmtObs h.fileFmt),
      ("file_names", .list (h.fileNames.map fun e => .record (entryObs secs h.fileFmt e))),
      ("include_directory", .list (h.dirs.map fun e => Spec.Line.getOrNone (entryObs secs h.dirFmt e) "DW_LNCT_path")),
      ("file_entry", .list (h.fileNames.map fun e => legacyFile (entryObs secs h.fileFmt e)))] := by
  rw [Header.observeX, observeG_v5 h secs _ _ hv5]
  rfl

/-- **Header, version 5 (composed).**  With the enum tables regenerated from the library (`gen_env_ok`): for
    every encodable version 5 unit — `address_size`, `segment_selector_size`, directory / file-name entry
    formats over every (content type, form) pair §6.2.4.1 allows (DW_FORM_string, line_strp, strp, strp_sup,
    udata, data1/2/4/8, data16 (MD5), block), any positive number of directories and files, both DWARF formats
    and byte orders, extension bytes covered by `header_length`, surrounding bytes — parsing the Spec encoding
    yields exactly the described header (`line_v5_observed_header`) and the program's extent. -/
theorem line_header_roundtrip_v5 (cfg : DwarfCfg) (msecs : Secs) (h : Header) (secs : StrSecs)
    (ext body pre rest : Bytes) (hv5 : h.version = 5) (hwf : unitWFX h secs ext body = true)
    (hle : h.p.le = cfg.le) (hfmt : cfg.fmt = if h.fmt64 then 64 else 32) (hsecs : SecsView msecs secs) :
    parseLineProgramFresh (Model.dwarfEnv (Spec.dwarfStructs cfg)) (Spec.dwarfStructs cfg) cfg.fmt msecs
        (pre ++ encodeUnitX h ext body ++ rest) pre.length
      = .ok (lpOfX h secs ext body pre.length)
    ∧ (lpOfX h secs ext body pre.length).header = h.observeX secs ext body
    ∧ (lpOfX h secs ext body pre.length).fileEntry = none :=
  ⟨parseFreshX_all msecs h secs ext body pre rest hwf hle hfmt (fun _ => gen_env_ok _) (fun _ => hsecs), rfl,
   by simp [lpOfX, hv5]⟩

/-- **Designation, version 5.**  Through `line_program_for_CU`: the unit's DW_AT_stmt_list designates the
    version 5 program at that offset, which is parsed (once: it is in `_linetable_cache` afterwards) into the
    `LineProgram` object of `line_header_roundtrip_v5`. -/
theorem stmt_list_designates_v5 (cfg : DwarfCfg) (msecs : Secs) (h : Header) (secs : StrSecs)
    (ext body pre rest : Bytes) (attrs : Fields) (hv5 : h.version = 5) (hwf : unitWFX h secs ext body = true)
    (hle : h.p.le = cfg.le) (hfmt : cfg.fmt = if h.fmt64 then 64 else 32) (hsecs : SecsView msecs secs)
    (hattr : Fields.get? attrs "DW_AT_stmt_list" = some (.int (pre.length : Int))) :
    lineProgramForCU (Model.dwarfEnv (Spec.dwarfStructs cfg)) (Spec.dwarfStructs cfg) cfg.fmt msecs
        (pre ++ encodeUnitX h ext body ++ rest) [] attrs
      = .ok (some (lpOfX h secs ext body pre.length), [(pre.length, lpOfX h secs ext body pre.length)]) := by
  rw [lineProgramForCU_some [] attrs pre.length hattr]
  have hp := (line_header_roundtrip_v5 cfg msecs h secs ext body pre rest hv5 hwf hle hfmt hsecs).1
  simp only [parseLineProgramAtOffset, List.find?_nil, hp, bind, Except.bind, pure, Except.pure, List.nil_append]

/-- **End to end, version 5 (header + rows + extent).** -/
theorem line_program_end_to_end_v5 (cfg : DwarfCfg) (msecs : Secs) (h : Header) (secs : StrSecs)
    (ext : Bytes) (is : List Instr) (pre rest : Bytes) (attrs : Fields) (hv5 : h.version = 5)
    (hwf : unitWFX h secs ext (encodeProgram h.p is) = true) (hs : h.p.stdLensOK = true)
    (hprog : progOK h.p h.version is = true)
    (hle : h.p.le = cfg.le) (hasz : h.p.asz = cfg.asz) (hfmt : cfg.fmt = if h.fmt64 then 64 else 32)
    (hsecs : SecsView msecs secs)
    (hattr : Fields.get? attrs "DW_AT_stmt_list" = some (.int (pre.length : Int)))
    (hsz : pre.length + (encodeUnitX h ext (encodeProgram h.p is)).length ≤ ssizeMax) :
    ∃ lp cache entries,
      lineProgramForCU (Model.dwarfEnv (Spec.dwarfStructs cfg)) (Spec.dwarfStructs cfg) cfg.fmt msecs
          (pre ++ encodeUnitX h ext (encodeProgram h.p is) ++ rest) [] attrs = .ok (some lp, cache)
      ∧ lp.header = h.observeX secs ext (encodeProgram h.p is)
      ∧ lp.program_start_offset = pre.length + headerSizeX h ext
      ∧ lp.program_end_offset = pre.length + (encodeUnitX h ext (encodeProgram h.p is)).length
      ∧ decodeLineProgram (Model.dwarfEnv (Spec.dwarfStructs cfg)) (Spec.dwarfStructs cfg) specConsts
          (pre ++ encodeUnitX h ext (encodeProgram h.p is) ++ rest) lp = .ok (entries, none, lp.program_end_offset)
      ∧ rowsOf entries = stdRun h.p is := by
  obtain ⟨es, hrun, hrows⟩ := decode_lpOfX (env := Model.dwarfEnv (Spec.dwarfStructs cfg)) (cfg := cfg) h secs ext is pre rest
    hwf hs hprog hle hasz hsz
  refine ⟨_, _, es, stmt_list_designates_v5 cfg msecs h secs ext _ pre rest attrs hv5 hwf hle hfmt hsecs hattr,
    rfl, rfl, rfl, ?_, hrows⟩
  rw [hrun]
  simp [lpOfX, hv5]

/-! ### boundary values of the parameters, as facts about the standard's machine and the decoder -/

/-- `minimum_instruction_length = 0`: no operation advance moves the address (`op_index` still advances) -/
theorem std_min_inst_zero (p : Params) (r : Row) (n : Nat) (h : p.minInst = 0) :
    (r.advance p n).address = r.address ∧ (r.advance p n).opIndex = (r.opIndex + n) % p.maxOps := by
  simp [Row.advance, h]

/-- `maximum_operations_per_instruction = 1` (non-VLIW): `op_index` stays 0, the address moves by
    `minimum_instruction_length * operation advance` -/
theorem std_max_ops_one (p : Params) (r : Row) (n : Nat) (h : p.maxOps = 1) (h0 : r.opIndex = 0) :
    (r.advance p n).address = r.address + p.minInst * n ∧ (r.advance p n).opIndex = 0 := by
  simp [Row.advance, h, h0, Nat.mod_one]

def edgeParams (minInst maxOps lineRange : Nat) : Params :=
  { le := true, asz := 8, minInst := minInst, maxOps := maxOps, defaultIsStmt := 1, lineBase := -5,
    lineRange := lineRange, opcodeBase := 13, stdLens := knownStdLens }

/-- 255 / 255: ordinary values (they are in `Params.WF`, the theorems of the first waves cover them) -/
example : (edgeParams 255 255 14).WF 4 = true := by decide
example : (edgeParams 0 1 255).WF 2 = true := by decide

theorem std_min_inst_255_max_ops_255 :
    (stdRun (edgeParams 255 255 14) [.advancePc ⟨254, 2⟩, .copy, .special 32, .advancePc ⟨300, 2⟩, .copy]).map
        (fun r => (r.address, r.opIndex, r.line))
      = [(0, 254, 1), (255, 0, 1), (510, 45, 1)] := by decide

/-- 0 divisors are encodable but not in `Params.WF` -/
example : (edgeParams 1 0 14).WFenc 4 = true ∧ (edgeParams 1 0 14).WF 4 = false := by decide
example : (edgeParams 1 1 0).WFenc 4 = true ∧ (edgeParams 1 1 0).WF 4 = false := by decide

/-! ### non-vacuity of the fourth-wave theorems -/

/-- a version 4 unit with `maximum_operations_per_instruction = 0` AND `line_range = 0`, three extension
    bytes (which would decode as three DW_LNS_copy) and a program that never divides -/
def exHeaderZ : Header := { exHeader with p := edgeParams 4 0 0 }
def exExt : Bytes := [1, 1, 1]
def exProgramZ : List Instr :=
  [.setAddress 1 0x1000, .advanceLine ⟨-1, 2⟩, .fixedAdvancePc 16, .copy, .setDiscriminator 1 ⟨7, 1⟩,
   .unknownExt 1 0x80 [1, 2], .copy, .endSequence 1]

example : unitWFX exHeaderZ ⟨[], [], none⟩ exExt (encodeProgram exHeaderZ.p exProgramZ) = true := by decide
example : exHeaderZ.p.stdLensOK = true := by decide
example : progOK exHeaderZ.p exHeaderZ.version exProgramZ = true := by decide
/-- … and one that does, after a prefix that does not -/
example : progOK exHeaderZ.p exHeaderZ.version [.setAddress 1 0x1000, .copy] = true
    ∧ (Instr.special 0x4b).WF exHeaderZ.p exHeaderZ.version = true
    ∧ (Instr.special 0x4b).divZero exHeaderZ.p = true
    ∧ unitWFX exHeaderZ ⟨[], [], none⟩ exExt
        (encodeProgram exHeaderZ.p ([.setAddress 1 0x1000, .copy] ++ .special 0x4b :: [.copy])) = true := by decide

/-- the version 5 units of the earlier instances, with extension bytes -/
example : unitWFX exHeader5 exSecs5 exExt (encodeProgram exHeader5.p exProgram5) = true := by decide
example : unitWFX exHeader5b exSecs5b [0xde, 0xad] (encodeProgram exHeader5b.p exProgram5) = true := by decide
example : exHeader5.p.stdLensOK = true ∧ progOK exHeader5.p exHeader5.version exProgram5 = true := by decide

/-- `line_header_roundtrip_v5` instantiated -/
example :
    parseLineProgramFresh (Model.dwarfEnv (Spec.dwarfStructs exCfg5)) (Spec.dwarfStructs exCfg5) 64
        ⟨some exSecs5.lineStr, some exSecs5.str, none⟩
        ([0xAA] ++ encodeUnitX exHeader5 exExt (encodeProgram exHeader5.p exProgram5) ++ [0xBB]) 1
      = .ok (lpOfX exHeader5 exSecs5 exExt (encodeProgram exHeader5.p exProgram5) 1) :=
  (line_header_roundtrip_v5 exCfg5 _ exHeader5 exSecs5 exExt _ [0xAA] [0xBB] rfl (by decide) rfl rfl
    ⟨rfl, rfl, fun _ h => (by cases h), (by decide), (by decide), fun _ h => (by cases h)⟩).1

/-- the defect repaired in this wave, as a closed instance run by the kernel: three extension bytes `01 01 01`
    covered by `header_length` are NOT executed (the unrepaired code delivered three extra rows) -/
theorem line_header_length_instance :
    (match parseLineProgramFresh (Model.dwarfEnv (Spec.dwarfStructs ⟨true, 32, 8, 4⟩)) (Spec.dwarfStructs ⟨true, 32, 8, 4⟩) 32
        ⟨none, none, none⟩ ([0xAA] ++ encodeUnitX exHeader exExt (encodeProgram exHeader.p exProgram) ++ [0xBB]) 1 with
     | .ok lp =>
       (match decodeLineProgram (Model.dwarfEnv (Spec.dwarfStructs ⟨true, 32, 8, 4⟩)) (Spec.dwarfStructs ⟨true, 32, 8, 4⟩)
           specConsts ([0xAA] ++ encodeUnitX exHeader exExt (encodeProgram exHeader.p exProgram) ++ [0xBB]) lp with
        | .ok (es, _, tell) => decide (rowsOf es = stdRun exHeader.p exProgram)
            && decide (tell = 1 + (encodeUnitX exHeader exExt (encodeProgram exHeader.p exProgram)).length)
            && decide (lp.program_start_offset = 1 + headerSize exHeader + 3)
        | .error _ => false)
     | .error _ => false) = true := by decide +kernel

/-- ZeroDivisionError, as a closed instance run by the kernel -/
theorem line_zero_division_instance :
    (match parseLineProgramFresh (Model.dwarfEnv (Spec.dwarfStructs ⟨true, 32, 8, 4⟩)) (Spec.dwarfStructs ⟨true, 32, 8, 4⟩) 32
        ⟨none, none, none⟩ (encodeUnitX exHeaderZ [] (encodeProgram exHeaderZ.p [.copy, .special 0x4b, .copy])) 0 with
     | .ok lp =>
       (match decodeLineProgram (Model.dwarfEnv (Spec.dwarfStructs ⟨true, 32, 8, 4⟩)) (Spec.dwarfStructs ⟨true, 32, 8, 4⟩)
           specConsts (encodeUnitX exHeaderZ [] (encodeProgram exHeaderZ.p [.copy, .special 0x4b, .copy])) lp with
        | .error e => e == .zeroDivision
        | .ok _ => false)
     | .error _ => false) = true := by decide +kernel

/-! ## seventh wave: line programs from section bytes

  The theorems above take the unit's DW_AT_stmt_list value and the unit's struct bundle as given.  Here they are
  produced from the bytes of `.debug_info` / `.debug_abbrev` by C04's model (`Model/DieSection.lean`), under C04's
  end-to-end theorem (`Props.C04.debug_info_exact`, `debug_info_units`; the top entry: C13's `forest_topDIE`):

  * `F : Spec.C04.Forest` describes `.debug_abbrev` and `.debug_info` (any number of units of versions 2–5, both
    formats, address sizes, whole trees of entries, shared abbreviation tables) and the string sections;
    `C04.forestDInfo F dasz` is the `DWARFInfo` on ITS ENCODING with the regenerated registry and struct bundles.
  * `L : List LineUnitDesc` with `tail` describes `.debug_line` (Spec/LineSection): programs of versions 2–5 in
    any order, arbitrary bytes between them and behind the last; `lineWorld L tail sup` attaches its encoding
    (and, with `sup = some b`, a supplementary object whose `.debug_str` is `b`).
  * the top entry of a unit says which program is the unit's: `stmtRef` — DW_AT_stmt_list absent, or of class
    lineptr (DW_FORM_sec_offset / data4 / data8, also behind DW_FORM_indirect) holding an offset.
  * `linesOKB F L tail sup` (decidable, on the descriptions only): every program is encodable with the standard's
    operand counts and instructions that divide by no zero field, in the file's byte order, version 5 programs
    find `.debug_line_str` / `.debug_str`; every unit names no program or one of `L` by its offset, whose format
    and address size are the unit's; sections shorter than 2^63.

  `Model.LineInfo.infoLinePrograms` is `[(cu, dwarfinfo.line_program_for_CU(cu)) for cu in dwarfinfo.iter_CUs()]`
  on a fresh `DWARFInfo`; `LP` is a `LineProgram` object with the `structs` it was created with (units of one file
  differ in `structs`, `_linetable_cache` is keyed by offset alone); `decodeLP` its `_decode_line_program()`. -/

open PyElf.Spec.LineSec PyElf.Model.LineInfo PyElf.Proofs.LineInfo
open PyElf.Spec.C04 (Forest UnitDesc placeInfo infoUnitOf wfForestB)

/-- what `line_program_for_CU` must give the unit `u` — `None` if its top entry has no DW_AT_stmt_list; otherwise the
    `LineProgram` object `x` of the program `d` lying at the offset the attribute holds: the described header, the
    extent `header_length` / `unit_length` prescribe, and decoding `x` yields the rows of the standard's state machine
    and stops exactly at the program's end, DW_LNE_define_file entries appended to the file table -/
def UnitGets (F : Forest) (L : List LineUnitDesc) (tail : Bytes) (sup : Option Bytes) (u : UnitDesc) (r : R (Option LP)) : Prop :=
  match stmtRef u.tree.root with
  | .absent => r = .ok none
  | .at v => ∃ i d, L[i]? = some d ∧ v = lineOff L i ∧ ∃ x entries, r = .ok (some x)
      ∧ x.lp.header = d.h.observeX (strSecsOf F sup) d.ext d.body
      ∧ x.lp.program_start_offset = v + headerSizeX d.h d.ext
      ∧ x.lp.program_end_offset = v + d.enc.length
      ∧ decodeLP Model.genEnumDecode specConsts (encLineSec L tail) x
          = .ok (entries, x.lp.fileEntry.map (· ++ (definedFiles d.is).map FileEntry.obs), x.lp.program_end_offset)
      ∧ rowsOf entries = stdRun d.h.p d.is
  | .other => False

/-- … for all units: the result list has one item per described unit, in order, carrying the described unit object -/
def UnitsGet (F : Forest) (L : List LineUnitDesc) (tail : Bytes) (sup : Option Bytes)
    (res : List (Model.Lookup.CU × R (Option LP))) : Prop :=
  res.length = F.units.length
    ∧ ∀ (k : Nat) (p : Nat × UnitDesc), (placeInfo F 0 F.units)[k]? = some p →
        ∃ r, res[k]? = some (Proofs.Lookup.cuOf F.le p.1 (infoUnitOf F p.2), r) ∧ UnitGets F L tail sup p.2 r

/-- **End to end from section bytes.**  For every well-formed forest and every fitting `.debug_line` description:
    `iter_CUs()` yields the described units, no exception ends it, and `line_program_for_CU(cu)` gives every unit
    what `UnitGets` says (header field by field — all versions; v5 entry formats, resolved strings, legacy views —,
    extent, rows).  Programs shared by several units come from `_linetable_cache` (same result, see
    `linetable_cache_shared`). -/
theorem line_programs_from_sections (F : Forest) (dasz : Nat) (hdasz : dasz = 4 ∨ dasz = 8)
    (hwf : wfForestB C04.genNames F = true) (L : List LineUnitDesc) (tail : Bytes) (sup : Option Bytes)
    (hlines : linesOKB F L tail sup = true) :
    ∃ res, infoLinePrograms (C04.forestDInfo F dasz) (C04.genBundles F.le dasz).S0 (lineWorld L tail sup) = (res, none)
      ∧ UnitsGet F L tail sup res := by
  obtain ⟨res, hrun, hall⟩ := infoLinePrograms_forest TieC05.gen_structs (fun _ => gen_env_ok _) TieC05.stmt_list_name
    F dasz hdasz hwf L tail sup hlines
  obtain ⟨hlen, hget⟩ := hall.get
  have hpl : ∀ (us : List UnitDesc) (o : Nat), (placeInfo F o us).length = us.length := by
    intro us
    induction us with
    | nil => intro o; rfl
    | cons u us ih => intro o; simp [placeInfo, ih]
  refine ⟨res, hrun, by rw [← hlen, hpl], fun k p hk => ?_⟩
  show ∃ r, _ ∧ UnitGets F L tail sup p.2 r
  unfold UnitGets
  obtain ⟨r, hr, hcu, hres⟩ := hget k p hk
  have hu : p.2 ∈ F.units := Proofs.C04.mem_placeInfo F _ _ p (List.mem_of_getElem? hk)
  refine ⟨r.2, by rw [hr, ← hcu], ?_⟩
  unfold UnitResult at hres
  cases hst : stmtRef p.2.tree.root with
  | absent => rw [hst] at hres; exact hres
  | «at» v =>
    rw [hst] at hres
    obtain ⟨i, d, hd, hv⟩ := linesOK_at_ex hlines p.2 hu v hst
    obtain ⟨x, hx, hlp⟩ := hres i d hd hv
    obtain ⟨es, hdec, hrows⟩ := decode_LPIs F L tail sup hlines Model.genEnumDecode i d hd x hlp
    have hE : x.lp.program_end_offset = v + d.enc.length := by rw [hlp.1, hv]; rfl
    refine ⟨i, d, hd, hv, x, es, hx, by rw [hlp.1]; rfl, by rw [hlp.1, hv]; rfl, hE, ?_, hrows⟩
    rw [hdec, hE, hv]
  | other => exact absurd hst (linesOK_not_other hlines p.2 hu)

/-- **No DW_AT_stmt_list, from section bytes.**  `line_program_for_CU` on such a unit of a well-formed forest
    returns `None`, whatever `.debug_line` holds (or if it is absent), and leaves `_linetable_cache` alone. -/
theorem stmt_list_absent_from_sections (F : Forest) (dasz : Nat) (hdasz : dasz = 4 ∨ dasz = 8)
    (hwf : wfForestB C04.genNames F = true) (W : LineWorld) (p : Nat × UnitDesc) (hp : p ∈ placeInfo F 0 F.units)
    (hst : stmtRef p.2.tree.root = .absent) (cache : LCache) :
    lineProgramForUnit W (C04.infoCtx F dasz p) cache = .ok (none, cache) :=
  unit_absent TieC05.stmt_list_name F dasz hdasz hwf W p hp hst cache

/-- **DW_AT_stmt_list beyond the section.**  The attribute holds an offset at which `.debug_line` — any bytes — has
    fewer than four bytes left (at or beyond its end in particular): ELFParseError, nothing is cached. -/
theorem stmt_list_beyond_section (F : Forest) (dasz : Nat) (hdasz : dasz = 4 ∨ dasz = 8)
    (hwf : wfForestB C04.genNames F = true) (W : LineWorld) (data : Bytes) (hW : W.line = some data)
    (p : Nat × UnitDesc) (hp : p ∈ placeInfo F 0 F.units) (v : Nat) (hst : stmtRef p.2.tree.root = .at v)
    (hlt : data.length < v + 4) (cache : LCache) (hf : cache.find? (·.1 == v) = none) :
    lineProgramForUnit W (C04.infoCtx F dasz p) cache = .error .elfParseError :=
  unit_beyond TieC05.gen_structs TieC05.stmt_list_name F dasz hdasz hwf W data hW p hp v hst hlt cache hf

/-- … and with no `.debug_line` at all: AttributeError (`self.debug_line_sec` is None) -/
theorem stmt_list_without_debug_line (F : Forest) (dasz : Nat) (hdasz : dasz = 4 ∨ dasz = 8)
    (hwf : wfForestB C04.genNames F = true) (W : LineWorld) (hW : W.line = none)
    (p : Nat × UnitDesc) (hp : p ∈ placeInfo F 0 F.units) (v : Nat) (hst : stmtRef p.2.tree.root = .at v)
    (cache : LCache) (hf : cache.find? (·.1 == v) = none) :
    lineProgramForUnit W (C04.infoCtx F dasz p) cache = .error .attributeError :=
  unit_no_section TieC05.stmt_list_name F dasz hdasz hwf W hW p hp v hst cache hf

/-- **Two units sharing one program** (`linetable_cache_coherent` at the level of sections).  From any coherent
    state of `_linetable_cache` (`LCacheOK`; the empty cache is: `lcacheOK_nil`): the first unit gets the object `x`
    of the program its DW_AT_stmt_list designates, and a second unit holding the same offset — of whatever
    version, through whatever lineptr form — gets THE SAME object from the cache, which is not changed again. -/
theorem linetable_cache_shared (F : Forest) (dasz : Nat) (hdasz : dasz = 4 ∨ dasz = 8)
    (hwf : wfForestB C04.genNames F = true) (L : List LineUnitDesc) (tail : Bytes) (sup : Option Bytes)
    (hlines : linesOKB F L tail sup = true) (p q : Nat × UnitDesc) (hp : p ∈ placeInfo F 0 F.units)
    (hq : q ∈ placeInfo F 0 F.units) (v : Nat) (hsp : stmtRef p.2.tree.root = .at v) (hsq : stmtRef q.2.tree.root = .at v)
    (cache : LCache) (hc : LCacheOK F L sup cache) :
    ∃ i d x cache', L[i]? = some d ∧ v = lineOff L i
      ∧ lineProgramForUnit (lineWorld L tail sup) (C04.infoCtx F dasz p) cache = .ok (some x, cache')
      ∧ x.lp = lpOfX d.h (strSecsOf F sup) d.ext d.body v
      ∧ lineProgramForUnit (lineWorld L tail sup) (C04.infoCtx F dasz q) cache' = .ok (some x, cache')
      ∧ LCacheOK F L sup cache' := by
  have hu : p.2 ∈ F.units := Proofs.C04.mem_placeInfo F _ _ p hp
  obtain ⟨i, d, hd, hv⟩ := linesOK_at_ex hlines p.2 hu v hsp
  obtain ⟨x, cache', hrun, hx, hc', hfind⟩ := unit_at TieC05.gen_structs (fun _ => gen_env_ok _) TieC05.stmt_list_name
    F dasz hdasz hwf L tail sup hlines p hp v hsp i d hd hv cache hc
  exact ⟨i, d, x, cache', hd, hv, hrun, by rw [hx.1, hv], unit_cached TieC05.stmt_list_name F dasz hdasz hwf _ q hq v hsq
    cache' v x hfind, hc'⟩

/-! ### whole files (composition with C11's view and, through it, C01)

  `Model.LineInfo.fileLinePrograms P fuel loader bytes relocate followLinks` is
  `[(cu, di.line_program_for_CU(cu)) for cu in di.iter_CUs()]` on
  `di = ELFFile(BytesIO(bytes)).get_dwarf_info(relocate_dwarf_sections = relocate, follow_links = followLinks)`.
  The hypotheses about the file are exactly those of `Props.C11.view_of_file_z` (C11's whole-file theorem: `bytes`
  carries a well-formed ELF description `d` that stores `content`, every DWARF section plainly, gABI-compressed
  (SHF_COMPRESSED) or in the legacy `.zdebug` framing, in any mix); `ContentIs content F L tail` says that content is,
  keyword by keyword, the encoding of the forest `F` and of the `.debug_line` description (`.debug_types` is free). -/

/-- **Whole file, every encoding: the same line programs as from the sections.**  However the DWARF sections are stored
    in the file — `.debug_line` plain, gABI-compressed or `.zdebug`, likewise `.debug_info`, `.debug_abbrev` and the
    string sections — `get_dwarf_info()` followed by `line_program_for_CU` on every unit computes exactly what
    `line_programs_from_sections` is about (default address size = the file's class / 8). -/
theorem line_programs_of_file_eq {P : Model.C11.Params} {deflate : Nat → Bytes → Bytes} (hP : C11.SpecParams P)
    (henv : P.env.enumDecode "ENUM_ELFCOMPRESS_TYPE" 1 = some "ELFCOMPRESS_ZLIB") (hz : Proofs.C11.ZlibOk P.X deflate)
    (hnames : ∀ k ∈ lineKeys, k ∈ P.names.map (·.1))
    (d : Spec.ElfDesc) (bytes : Bytes) (obs : Spec.ElfObs)
    (hwf : d.wfZ P.env = true) (hl : Spec.Layout d bytes) (ho : d.observe P.env = .ok obs)
    (hph : Model.C11.hasPhantomBytes obs.header = .ok false)
    (fuel : Nat) (loader : Option Model.C11.Loader) (relocate followLinks : Bool) (content : Proofs.C11.Content) (m : Val)
    (hm : obs.header.getField "e_machine" = .ok m) {allowed : Proofs.C11.Enc → Prop}
    (hh : Proofs.C11.HoldsD P.names deflate d obs relocate content allowed)
    (hlink : Model.C11.linkTarget obs.sections loader followLinks = none)
    (hsup : followLinks = false ∨
      ((∃ DS, P.dwarfStructsFor ⟨d.le, 32, d.cls / 8, 2⟩ = some DS) ∧
        content "debug_sup_sec" = none ∧ content "gnu_debugaltlink_sec" = none))
    (F : Forest) (hle : F.le = d.le) (L : List LineUnitDesc) (tail : Bytes) (hc : ContentIs content F L tail) :
    fileLinePrograms P (fuel + 1) loader bytes relocate followLinks
      = .ok (infoLinePrograms (C04.forestDInfo F (d.cls / 8)) (C04.genBundles F.le (d.cls / 8)).S0 (lineWorld L tail none)) := by
  have hcls : d.cls / 8 = 4 ∨ d.cls / 8 = 8 := by
    rcases (Proofs.wfZ_facts hwf).cls with h | h <;> simp [h]
  unfold fileLinePrograms
  rw [C11.view_of_file_z hP henv hz d bytes obs hwf hl ho hph fuel loader relocate followLinks content m hm hh hlink hsup]
  simp only [Except.map]
  rw [← hle, viewLinePrograms_content P.names hnames content F L tail hc (d.cls / 8) hcls]

/-- **End to end from the bytes of a file.**  `line_programs_from_sections` for a file carrying the sections in any
    encoding: every unit of `iter_CUs()` gets the program its DW_AT_stmt_list designates — header, extent, rows. -/
theorem line_programs_of_file {P : Model.C11.Params} {deflate : Nat → Bytes → Bytes} (hP : C11.SpecParams P)
    (henv : P.env.enumDecode "ENUM_ELFCOMPRESS_TYPE" 1 = some "ELFCOMPRESS_ZLIB") (hz : Proofs.C11.ZlibOk P.X deflate)
    (hnames : ∀ k ∈ lineKeys, k ∈ P.names.map (·.1))
    (d : Spec.ElfDesc) (bytes : Bytes) (obs : Spec.ElfObs)
    (hwf : d.wfZ P.env = true) (hl : Spec.Layout d bytes) (ho : d.observe P.env = .ok obs)
    (hph : Model.C11.hasPhantomBytes obs.header = .ok false)
    (fuel : Nat) (loader : Option Model.C11.Loader) (relocate followLinks : Bool) (content : Proofs.C11.Content) (m : Val)
    (hm : obs.header.getField "e_machine" = .ok m) {allowed : Proofs.C11.Enc → Prop}
    (hh : Proofs.C11.HoldsD P.names deflate d obs relocate content allowed)
    (hlink : Model.C11.linkTarget obs.sections loader followLinks = none)
    (hsup : followLinks = false ∨
      ((∃ DS, P.dwarfStructsFor ⟨d.le, 32, d.cls / 8, 2⟩ = some DS) ∧
        content "debug_sup_sec" = none ∧ content "gnu_debugaltlink_sec" = none))
    (F : Forest) (hle : F.le = d.le) (hwfF : wfForestB C04.genNames F = true) (L : List LineUnitDesc) (tail : Bytes)
    (hlines : linesOKB F L tail none = true) (hc : ContentIs content F L tail) :
    ∃ res, fileLinePrograms P (fuel + 1) loader bytes relocate followLinks = .ok (res, none)
      ∧ UnitsGet F L tail none res := by
  have hcls : d.cls / 8 = 4 ∨ d.cls / 8 = 8 := by
    rcases (Proofs.wfZ_facts hwf).cls with h | h <;> simp [h]
  obtain ⟨res, hrun, hres⟩ := line_programs_from_sections F (d.cls / 8) hcls hwfF L tail none hlines
  refine ⟨res, ?_, hres⟩
  rw [line_programs_of_file_eq hP henv hz hnames d bytes obs hwf hl ho hph fuel loader relocate followLinks content m hm hh
    hlink hsup F hle L tail hc, hrun]

/-- the reader's section-name table regenerated from `get_dwarf_info` (Props/TieC11 `section_names`) has every
    keyword the line-program path reads: `hnames` of the two theorems above holds of the parameters the driver runs -/
theorem gen_names_ok : ∀ k ∈ lineKeys, k ∈ Gen.c11SectionNames.map (·.1) := by decide

/-! ### non-vacuity: a forest of four units over a `.debug_line` of two programs

  `.debug_line`: one stray byte, the version 5 program of `exHeader5` (DWARF64; strings through .debug_line_str /
  .debug_str; three extension bytes), two stray bytes, the version 4 program of `exHeader` (VLIW parameters,
  DW_LNE_define_file, an unknown extended opcode), one stray byte.  `.debug_info`: a DWARF 4 unit naming the SECOND
  program through DW_FORM_sec_offset, a DWARF 3 unit naming the same program through DW_FORM_data4, a DWARF 2 unit
  without DW_AT_stmt_list, a DWARF 5 unit in 64-bit format naming the FIRST program. -/

def exLines : List LineUnitDesc :=
  [{ gap := [0xAA], h := exHeader5, ext := exExt, is := exProgram5 },
   { gap := [0xBB, 0xBB], h := exHeader, ext := [], is := exProgram }]

def exDeclSec : Spec.C04.AbbrevDecl :=
  { code := 1, tag := 0x11, children := false, specs := [{ name := 0x03, form := 0x08 }, { name := 0x10, form := 0x17 }] }
def exDeclData4 : Spec.C04.AbbrevDecl :=
  { code := 2, tag := 0x11, children := false, specs := [{ name := 0x10, form := 0x06 }] }
def exDeclNone : Spec.C04.AbbrevDecl :=
  { code := 3, tag := 0x11, children := false, specs := [{ name := 0x03, form := 0x08 }] }

def exLineForest : Forest :=
  { le := true,
    tables := [{ decls := [exDeclSec, exDeclData4, exDeclNone] }],
    units := [{ fmt64 := false, version := 4, asz := 8, table := 0,
                tree := .mk { decl := exDeclSec, attrs := [{ form := 0x08, op := .str [0x61] }, { form := 0x17, op := .nat 105 }] } [] 1 },
              { fmt64 := false, version := 3, asz := 8, table := 0,
                tree := .mk { decl := exDeclData4, attrs := [{ form := 0x06, op := .nat 105 }] } [] 1 },
              { fmt64 := false, version := 2, asz := 8, table := 0,
                tree := .mk { decl := exDeclNone, attrs := [{ form := 0x08, op := .str [0x62] }] } [] 1 },
              { fmt64 := true, version := 5, asz := 8, table := 0,
                tree := .mk { decl := exDeclSec, attrs := [{ form := 0x08, op := .str [] }, { form := 0x17, op := .nat 1 }] } [] 1 }],
    secs := { str := some exSecs5.str, lineStr := some exSecs5.lineStr } }

theorem exLineForest_wf : wfForestB C04.genNames exLineForest = true := by decide +kernel
theorem exLines_ok : linesOKB exLineForest exLines [0xCC] none = true := by decide +kernel

example : exLineForest.units.map (fun u => stmtRef u.tree.root) = [.at 105, .at 105, .absent, .at 1] := by decide
example : (lineOff exLines 0, lineOff exLines 1, (encLineSec exLines [0xCC]).length) = (1, 105, 187) := by decide +kernel

/-- `line_programs_from_sections` applies to it -/
example := line_programs_from_sections exLineForest 8 (Or.inr rfl) exLineForest_wf exLines [0xCC] none exLines_ok

/-- the hypotheses of `linetable_cache_shared` (units 0 and 1, at offsets 0 and 25 of `.debug_info`) -/
example : ∃ p q, p ∈ placeInfo exLineForest 0 exLineForest.units ∧ q ∈ placeInfo exLineForest 0 exLineForest.units ∧ p.1 < q.1
    ∧ stmtRef p.2.tree.root = .at 105 ∧ stmtRef q.2.tree.root = .at 105 :=
  ⟨(placeInfo exLineForest 0 exLineForest.units)[0], (placeInfo exLineForest 0 exLineForest.units)[1],
   List.getElem_mem _, List.getElem_mem _, by decide +kernel, by decide +kernel, by decide +kernel⟩

/-- … of `stmt_list_absent_from_sections` (unit 2) -/
example : ∃ p, p ∈ placeInfo exLineForest 0 exLineForest.units ∧ stmtRef p.2.tree.root = .absent :=
  ⟨(placeInfo exLineForest 0 exLineForest.units)[2], List.getElem_mem _, by decide +kernel⟩

/-- … of `stmt_list_beyond_section`: the same forest over a `.debug_line` of three bytes -/
example : ∃ p, p ∈ placeInfo exLineForest 0 exLineForest.units ∧ stmtRef p.2.tree.root = .at 105
    ∧ ([1, 2, 3] : Bytes).length < 105 + 4 :=
  ⟨(placeInfo exLineForest 0 exLineForest.units)[0], List.getElem_mem _, by decide +kernel, by decide⟩

/-- the composed model run by the kernel on the example: four units; units 0 and 1 get the version 4 program at 105,
    unit 2 none, unit 3 the version 5 program at 1; each program decodes to the standard's rows -/
theorem line_programs_instance :
    (let W := lineWorld exLines [0xCC] none
     let r := infoLinePrograms (C04.forestDInfo exLineForest 8) (C04.genBundles true 8).S0 W
     r.2.isNone && r.1.map (fun cr => match cr.2 with
        | .ok (some x) =>
          (match decodeLP Model.genEnumDecode specConsts (encLineSec exLines [0xCC]) x with
           | .ok (es, _, tell) => some (x.lp.program_start_offset, tell, (rowsOf es).length)
           | .error _ => none)
        | _ => none)
       == [some (105 + headerSizeX exHeader [], 186, (stdRun exHeader.p exProgram).length),
           some (105 + headerSizeX exHeader [], 186, (stdRun exHeader.p exProgram).length),
           none,
           some (1 + headerSizeX exHeader5 exExt, 103, (stdRun exHeader5.p exProgram5).length)]) = true := by
  decide +kernel

/-! ### non-vacuity of the whole-file theorems: the example above in an ELF file, `.debug_line` stored three ways

  A 64-bit little-endian description (null section, `.shstrtab`, the five DWARF sections of the example) is assembled by
  C01's Spec assembler; the file model is run on the bytes with the REGENERATED parameters (section-name table, struct
  bundles; zlib replaced by the identity: the compressed forms carry the payload behind their framing) and must deliver the
  line programs `line_programs_instance` lists.  Evaluated at build time (`Con.encodeRaw` / `decodeRaw` do not reduce in
  the kernel).  The Prop-valued hypotheses of C11's whole-file theorem (`HoldsD`, `Layout`) are discharged for
  one-section files in Props/C11; here the executable side shows a file of the described shape exists and behaves so. -/

private def fxShdr (ty flags off size : Nat) : Fields :=
  [("sh_type", .int ty), ("sh_flags", .int flags), ("sh_addr", .int 0), ("sh_offset", .int off), ("sh_size", .int size),
   ("sh_link", .int 0), ("sh_info", .int 0), ("sh_addralign", .int 1), ("sh_entsize", .int 0)]

/-- name offsets in the section-name string table `\0 name \0 name \0 …` -/
private def fxNameOff (names : List Bytes) (i : Nat) : Nat := 1 + ((names.take i).map (·.length + 1)).sum

private def fxStrtab (names : List Bytes) : Bytes := [0] ++ names.flatMap (· ++ [0])

/-- `pre`: ".debug_" or ".zdebug_"; `enc` / `flags`: how every DWARF section is stored; `encL` / `flagsL`: `.debug_line` -/
private def fxDesc (pre : String) (enc encL : Bytes → Bytes) (flags flagsL : Nat) : Spec.ElfDesc :=
  let names : List Bytes := ".shstrtab".toUTF8.toList ::
    ["info", "abbrev", "str", "line_str", "line"].map fun s => (pre ++ s).toUTF8.toList
  let sec (i : Nat) (off fl : Nat) (body : Bytes) : Spec.SecDesc := ⟨names[i]!, fxShdr 1 fl off body.length, some body, fxNameOff names i⟩
  { cls := 64, le := true, mclass := "EM_X86_64", solaris := false, core := false,
    ehdr := [("EI_VERSION", .int 1), ("e_type", .int 1), ("e_machine", .int 62), ("e_version", .int 1), ("e_ehsize", .int 64)],
    shoff := 0x1000, phoff := 0, shentsize := 64, phentsize := 0,
    sections := [⟨[], fxShdr 0 0 0 0, none, 0⟩,
                 ⟨names[0]!, fxShdr 3 0 0x100 (fxStrtab names).length, some (fxStrtab names), fxNameOff names 0⟩,
                 sec 1 0x200 flags (enc (Spec.C04.infoSec exLineForest)),
                 sec 2 0x400 flags (enc (Spec.C04.encTables exLineForest.tables)),
                 sec 3 0x500 flags (enc exSecs5.str),
                 sec 4 0x600 flags (enc exSecs5.lineStr),
                 sec 5 0x800 flagsL (encL (encLineSec exLines [0xCC]))],
    segments := [], shstrndx := 1 }

private def fxParams : Model.C11.Params :=
  { env := Model.elfEnv, structsFor := Model.elfStructsFor, machineClassOf := Model.machineClassOf,
    machineArchOf := Model.Reloc.machineArchOf, dwarfStructsFor := Model.dwarfStructsFor, names := Gen.c11SectionNames,
    X := ⟨fun d k => some (if k = 0 then d else d.take k), fun _ => 0⟩ }

private def fxOk (pre : String) (enc encL : Bytes → Bytes) (flags flagsL : Nat) : Bool :=
  let d := fxDesc pre enc encL flags flagsL
  d.wfZ Model.elfEnv &&
    (match d.assemble 0 with
     | none => false
     | some bytes =>
       match fileLinePrograms fxParams 2 none bytes false false with
       | .error _ => false
       | .ok r =>
         r.2.isNone && r.1.map (fun cr => match cr.2 with
            | .ok (some x) =>
              (match decodeLP Model.genEnumDecode specConsts (encLineSec exLines [0xCC]) x with
               | .ok (es, _, tell) => some (x.lp.program_start_offset, tell, (rowsOf es).length)
               | .error _ => none)
            | _ => none)
           == [some (145, 186, 3), some (145, 186, 3), none, some (93, 103, 2)])

-- every section plain
#guard fxOk ".debug_" id id 0 0
-- `.debug_line` gABI-compressed (SHF_COMPRESSED, `Elf64_Chdr`), the others plain
#guard fxOk ".debug_" id (fun b => Spec.C11.gabiBody 64 true b.length 1 b) 0 0x800
-- every section gABI-compressed
#guard fxOk ".debug_" (fun b => Spec.C11.gabiBody 64 true b.length 1 b) (fun b => Spec.C11.gabiBody 64 true b.length 1 b) 0x800 0x800
-- a `.zdebug` file: every section in the legacy framing ("ZLIB" + big-endian size)
#guard fxOk ".zdebug_" (fun b => Spec.C11.zdebugBody b.length b) (fun b => Spec.C11.zdebugBody b.length b) 0 0

end PyElf.Props.C05
