/-
  C13 tie: the structs the lookup tables are decoded with are, for every
  configuration, the ones the standard prescribes (DWARF §7.21 aranges header, §7.19
  name-table header, §7.5.1 unit headers, and the integer fields they are made of).
-/
import PyElf.Gen.Structs
import PyElf.Gen.Tables
import PyElf.Spec.DwarfStructs
import PyElf.Spec.DwarfLookup
import PyElf.Model.Env
namespace PyElf.Props.TieC13
open PyElf

theorem dwarf_Dwarf_aranges_header : Gen.dwarfBundles.map (fun b => (b.1, b.2.Dwarf_aranges_header)) = Spec.allDwarfCfgs.map (fun c => (c, (Spec.dwarfStructs c).Dwarf_aranges_header)) := by rfl
theorem dwarf_Dwarf_nameLUT_header : Gen.dwarfBundles.map (fun b => (b.1, b.2.Dwarf_nameLUT_header)) = Spec.allDwarfCfgs.map (fun c => (c, (Spec.dwarfStructs c).Dwarf_nameLUT_header)) := by rfl
theorem dwarf_Dwarf_CU_header : Gen.dwarfBundles.map (fun b => (b.1, b.2.Dwarf_CU_header)) = Spec.allDwarfCfgs.map (fun c => (c, (Spec.dwarfStructs c).Dwarf_CU_header)) := by rfl
theorem dwarf_Dwarf_uint32 : Gen.dwarfBundles.map (fun b => (b.1, b.2.Dwarf_uint32)) = Spec.allDwarfCfgs.map (fun c => (c, (Spec.dwarfStructs c).Dwarf_uint32)) := by rfl
theorem dwarf_Dwarf_uint64 : Gen.dwarfBundles.map (fun b => (b.1, b.2.Dwarf_uint64)) = Spec.allDwarfCfgs.map (fun c => (c, (Spec.dwarfStructs c).Dwarf_uint64)) := by rfl
theorem dwarf_Dwarf_offset : Gen.dwarfBundles.map (fun b => (b.1, b.2.Dwarf_offset)) = Spec.allDwarfCfgs.map (fun c => (c, (Spec.dwarfStructs c).Dwarf_offset)) := by rfl
theorem dwarf_the_Dwarf_uint32 : Gen.dwarfBundles.map (fun b => (b.1, b.2.the_Dwarf_uint32)) = Spec.allDwarfCfgs.map (fun c => (c, (Spec.dwarfStructs c).the_Dwarf_uint32)) := by rfl

/-- the unit-type names the version 5 unit header switches on are DWARF 5 table 7.2 -/
theorem dw_ut_decode :
    [1, 2, 3, 4, 5, 6].map (Model.genEnumDecode "ENUM_DW_UT")
      = [some "DW_UT_compile", some "DW_UT_type", some "DW_UT_partial", some "DW_UT_skeleton",
         some "DW_UT_split_compile", some "DW_UT_split_type"] := by decide

/-- the same, in the form the unit-header theorems take it: the regenerated `ENUM_DW_UT` names the
    six unit types as the standard (Spec `utName`) does -/
theorem enum_ut : ∀ k : Nat, 1 ≤ k → k ≤ 6 → Model.genEnumDecode "ENUM_DW_UT" k = Spec.Lookup.utName k := by
  intro k h1 h6
  have : k = 1 ∨ k = 2 ∨ k = 3 ∨ k = 4 ∨ k = 5 ∨ k = 6 := by omega
  rcases this with rfl | rfl | rfl | rfl | rfl | rfl <;> decide +kernel

end PyElf.Props.TieC13
