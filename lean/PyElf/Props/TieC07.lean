/-
  C07 tie: the constructs and code tables the list code relies on are, for every
  configuration the library can build, the ones the C07 theorems are about.
-/
import PyElf.Gen.Structs
import PyElf.Gen.Tables
import PyElf.Spec.DwarfStructs
import PyElf.Spec.Lists
import PyElf.Model.Env
namespace PyElf.Props.TieC07
open PyElf

theorem dwarf_Dwarf_loclists_entries : Gen.dwarfBundles.map (fun b => (b.1, b.2.Dwarf_loclists_entries)) = Spec.allDwarfCfgs.map (fun c => (c, (Spec.dwarfStructs c).Dwarf_loclists_entries)) := by rfl
theorem dwarf_Dwarf_rnglists_entries : Gen.dwarfBundles.map (fun b => (b.1, b.2.Dwarf_rnglists_entries)) = Spec.allDwarfCfgs.map (fun c => (c, (Spec.dwarfStructs c).Dwarf_rnglists_entries)) := by rfl
theorem dwarf_Dwarf_loclists_CU_header : Gen.dwarfBundles.map (fun b => (b.1, b.2.Dwarf_loclists_CU_header)) = Spec.allDwarfCfgs.map (fun c => (c, (Spec.dwarfStructs c).Dwarf_loclists_CU_header)) := by rfl
theorem dwarf_Dwarf_rnglists_CU_header : Gen.dwarfBundles.map (fun b => (b.1, b.2.Dwarf_rnglists_CU_header)) = Spec.allDwarfCfgs.map (fun c => (c, (Spec.dwarfStructs c).Dwarf_rnglists_CU_header)) := by rfl
theorem dwarf_Dwarf_locview_pair : Gen.dwarfBundles.map (fun b => (b.1, b.2.Dwarf_locview_pair)) = Spec.allDwarfCfgs.map (fun c => (c, (Spec.dwarfStructs c).Dwarf_locview_pair)) := by rfl
theorem dwarf_Dwarf_loclists_counted_location_description : Gen.dwarfBundles.map (fun b => (b.1, b.2.Dwarf_loclists_counted_location_description)) = Spec.allDwarfCfgs.map (fun c => (c, (Spec.dwarfStructs c).Dwarf_loclists_counted_location_description)) := by rfl
theorem dwarf_the_Dwarf_target_addr : Gen.dwarfBundles.map (fun b => (b.1, b.2.the_Dwarf_target_addr)) = Spec.allDwarfCfgs.map (fun c => (c, (Spec.dwarfStructs c).the_Dwarf_target_addr)) := by rfl
theorem dwarf_the_Dwarf_offset : Gen.dwarfBundles.map (fun b => (b.1, b.2.the_Dwarf_offset)) = Spec.allDwarfCfgs.map (fun c => (c, (Spec.dwarfStructs c).the_Dwarf_offset)) := by rfl
theorem dwarf_the_Dwarf_uint16 : Gen.dwarfBundles.map (fun b => (b.1, b.2.the_Dwarf_uint16)) = Spec.allDwarfCfgs.map (fun c => (c, (Spec.dwarfStructs c).the_Dwarf_uint16)) := by rfl
theorem dwarf_the_Dwarf_uint8 : Gen.dwarfBundles.map (fun b => (b.1, b.2.the_Dwarf_uint8)) = Spec.allDwarfCfgs.map (fun c => (c, (Spec.dwarfStructs c).the_Dwarf_uint8)) := by rfl
theorem dwarf_Dwarf_uint32 : Gen.dwarfBundles.map (fun b => (b.1, b.2.Dwarf_uint32)) = Spec.allDwarfCfgs.map (fun c => (c, (Spec.dwarfStructs c).Dwarf_uint32)) := by rfl
theorem dwarf_Dwarf_uint64 : Gen.dwarfBundles.map (fun b => (b.1, b.2.Dwarf_uint64)) = Spec.allDwarfCfgs.map (fun c => (c, (Spec.dwarfStructs c).Dwarf_uint64)) := by rfl

/-- T1: `ENUM_DW_LLE` is DWARF 5 table 7.10, entry by entry -/
theorem lle_table : (Gen.tables.find? (·.1 == "ENUM_DW_LLE")).map (·.2.1)
    = some (Spec.Lists.lleKinds.map fun k => (k.name, (k.code : Int))) := by decide

/-- T1: `ENUM_DW_RLE` is DWARF 5 table 7.30, entry by entry -/
theorem rle_table : (Gen.tables.find? (·.1 == "ENUM_DW_RLE")).map (·.2.1)
    = some (Spec.Lists.rleKinds.map fun k => (k.name, (k.code : Int))) := by decide

/-- the decoding direction the entry structs use (`Enum(..., **ENUM_DW_LLE)`) -/
theorem lle_codes : ∀ k ∈ Spec.Lists.lleKinds, Model.genEnumDecode "ENUM_DW_LLE" (k.code : Int) = some k.name := by decide

theorem rle_codes : ∀ k ∈ Spec.Lists.rleKinds, Model.genEnumDecode "ENUM_DW_RLE" (k.code : Int) = some k.name := by decide

/-- the forms the library knows (`ENUM_DW_FORM`) -/
def formNames : List String := ((Gen.tables.find? (·.1 == "ENUM_DW_FORM")).map (·.2.1.map (·.1))).getD []

/-- T1: among the library's forms, the names starting with "DW_FORM_block" are exactly the four block forms -/
theorem block_prefix_forms :
    ∀ f ∈ formNames, "DW_FORM_block".toList.isPrefixOf f.toList = Spec.Lists.blockForms.contains f := by decide

end PyElf.Props.TieC07
