/-
  C15 tie: the five version records (and the symbol record the version-symbol
  table is paired with) that the library builds, for every configuration, are
  the Spec's; the generated ENUM_VERSYM table names the reserved indexes as
  the Spec does.
-/
import PyElf.Gen.Structs
import PyElf.Gen.Tables
import PyElf.Spec.ElfStructs
import PyElf.Spec.GnuVersions
import PyElf.Model.Env
import PyElf.Proofs.GnuVersions
namespace PyElf.Props.TieC15
open PyElf

theorem elf_Elf_Verneed : Gen.elfBundles.map (fun b => (b.1, b.2.Elf_Verneed)) = Spec.allElfCfgs.map (fun c => (c, (Spec.elfStructs c).Elf_Verneed)) := by rfl
theorem elf_Elf_Vernaux : Gen.elfBundles.map (fun b => (b.1, b.2.Elf_Vernaux)) = Spec.allElfCfgs.map (fun c => (c, (Spec.elfStructs c).Elf_Vernaux)) := by rfl
theorem elf_Elf_Verdef : Gen.elfBundles.map (fun b => (b.1, b.2.Elf_Verdef)) = Spec.allElfCfgs.map (fun c => (c, (Spec.elfStructs c).Elf_Verdef)) := by rfl
theorem elf_Elf_Verdaux : Gen.elfBundles.map (fun b => (b.1, b.2.Elf_Verdaux)) = Spec.allElfCfgs.map (fun c => (c, (Spec.elfStructs c).Elf_Verdaux)) := by rfl
theorem elf_Elf_Versym : Gen.elfBundles.map (fun b => (b.1, b.2.Elf_Versym)) = Spec.allElfCfgs.map (fun c => (c, (Spec.elfStructs c).Elf_Versym)) := by rfl
theorem elf_Elf_Sym : Gen.elfBundles.map (fun b => (b.1, b.2.Elf_Sym)) = Spec.allElfCfgs.map (fun c => (c, (Spec.elfStructs c).Elf_Sym)) := by rfl

/-- the generated ENUM_VERSYM table is the Spec's list of reserved version indexes -/
theorem versym_table : Gen.tables.find? (·.1 == "ENUM_VERSYM")
    = some ("ENUM_VERSYM", [("VER_NDX_LOCAL", 0), ("VER_NDX_GLOBAL", 1), ("VER_NDX_LORESERVE", 0xff00),
                            ("VER_NDX_ELIMINATE", 0xff01)], true) := by rfl

/-- hence the model's environment shows a version index exactly as `Spec.versymVal` says, for every value -/
theorem versym_env : Proofs.EnvVersym Model.elfEnv := by
  intro n
  simp only [Model.elfEnv, Model.genEnumDecode, versym_table, Model.decodeIn, List.foldl, Spec.versymVal]
  by_cases h0 : n = 0
  · subst h0; simp
  by_cases h1 : n = 1
  · subst h1; simp
  by_cases h2 : n = 0xff00
  · subst h2; simp
  by_cases h3 : n = 0xff01
  · subst h3; simp
  have e0 : ¬ ((0 : Int) = n) := by omega
  have e1 : ¬ ((1 : Int) = n) := by omega
  have e2 : ¬ ((0xff00 : Int) = n) := by omega
  have e3 : ¬ ((0xff01 : Int) = n) := by omega
  simp [h0, h1, h2, h3, e0, e1, e2, e3]

end PyElf.Props.TieC15
