/-
  Tie theorems (T2 ↔ Spec), DWARF and EHABI side.
-/
import PyElf.Gen.Structs
import PyElf.Spec.DwarfStructs
namespace PyElf.Props.TieDwarf
open PyElf

theorem dwarf_cfgs_eq_spec : Gen.dwarfBundles.map (·.1) = Spec.allDwarfCfgs := by rfl

/-- for every (byte order, DWARF format, address size, version) the library builds the
    structures — and the whole form → parser table — the DWARF standard prescribes -/
theorem dwarf_bundles_eq_spec : Gen.dwarfBundles.map (·.2) = Spec.allDwarfCfgs.map Spec.dwarfStructs := by rfl

theorem ehabi_bundles_eq_spec :
    Gen.ehabiBundles = [(true, Spec.ehabiStructs true), (false, Spec.ehabiStructs false)] := by rfl

end PyElf.Props.TieDwarf
