/-
  C09 tie: the structures and the tag tables dynamic.py works with, as
  regenerated from /repo on this run, are the ones the C09 theorems assume:
  `Elf_Dyn` (every machine / OS-ABI tag set), `Elf_Sym`, `Elf_Phdr`, the hash
  table headers, the relocation entries; and in each of the four tag tables
  exactly the gABI code bears each name the reader steers by, exactly the
  string-valued codes are the "handled" tags.
-/
import PyElf.Gen.Structs
import PyElf.Spec.ElfStructs
import PyElf.Model.Env
import PyElf.Proofs.Dynamic
namespace PyElf.Props.TieC09
open PyElf PyElf.Model PyElf.Model.Dynamic PyElf.Spec.Dynamic PyElf.Proofs.Dynamic

theorem elf_Elf_Dyn : Gen.elfBundles.map (fun b => (b.1, b.2.Elf_Dyn)) = Spec.allElfCfgs.map (fun c => (c, (Spec.elfStructs c).Elf_Dyn)) := by rfl
theorem elf_Elf_Sym : Gen.elfBundles.map (fun b => (b.1, b.2.Elf_Sym)) = Spec.allElfCfgs.map (fun c => (c, (Spec.elfStructs c).Elf_Sym)) := by rfl
theorem elf_Elf_Phdr : Gen.elfBundles.map (fun b => (b.1, b.2.Elf_Phdr)) = Spec.allElfCfgs.map (fun c => (c, (Spec.elfStructs c).Elf_Phdr)) := by rfl
theorem elf_Elf_Shdr : Gen.elfBundles.map (fun b => (b.1, b.2.Elf_Shdr)) = Spec.allElfCfgs.map (fun c => (c, (Spec.elfStructs c).Elf_Shdr)) := by rfl
theorem elf_Elf_Hash : Gen.elfBundles.map (fun b => (b.1, b.2.Elf_Hash)) = Spec.allElfCfgs.map (fun c => (c, (Spec.elfStructs c).Elf_Hash)) := by rfl
theorem elf_Gnu_Hash : Gen.elfBundles.map (fun b => (b.1, b.2.Gnu_Hash)) = Spec.allElfCfgs.map (fun c => (c, (Spec.elfStructs c).Gnu_Hash)) := by rfl
theorem elf_Elf_Rel : Gen.elfBundles.map (fun b => (b.1, b.2.Elf_Rel)) = Spec.allElfCfgs.map (fun c => (c, (Spec.elfStructs c).Elf_Rel)) := by rfl
theorem elf_Elf_Rela : Gen.elfBundles.map (fun b => (b.1, b.2.Elf_Rela)) = Spec.allElfCfgs.map (fun c => (c, (Spec.elfStructs c).Elf_Rela)) := by rfl
theorem elf_Elf_Relr : Gen.elfBundles.map (fun b => (b.1, b.2.Elf_Relr)) = Spec.allElfCfgs.map (fun c => (c, (Spec.elfStructs c).Elf_Relr)) := by rfl
theorem elf_Elf_word : Gen.elfBundles.map (fun b => (b.1, b.2.Elf_word)) = Spec.allElfCfgs.map (fun c => (c, (Spec.elfStructs c).Elf_word)) := by rfl
theorem elf_Elf_xword : Gen.elfBundles.map (fun b => (b.1, b.2.Elf_xword)) = Spec.allElfCfgs.map (fun c => (c, (Spec.elfStructs c).Elf_xword)) := by rfl

/-- `ENUM_D_TAG['DT_RELA']`, the constant `get_relocation_tables` compares DT_PLTREL with -/
theorem dt_rela_code : genEnumValue "ENUM_D_TAG" "DT_RELA" = some DT_RELA := by decide +kernel

/-! ### the tag tables -/

/-- the regenerated table with the given id (empty if there is none) -/
def tagTable (tid : String) : List (String × Int) :=
  match Gen.tables.find? (·.1 == tid) with
  | some (_, t, _) => t
  | none => []

def decOf (T : List (String × Int)) (t : Int) : Val :=
  match decodeIn T t with
  | some s => .str s
  | none => .int t

theorem decTag_elfEnv (tid : String) (t : Int) : decTag elfEnv tid t = decOf (tagTable tid) t := by
  simp only [decTag, decOf, tagTable, elfEnv, genEnumDecode]
  cases h : Gen.tables.find? (·.1 == tid) with
  | none => simp [decodeIn]
  | some e => obtain ⟨a, b, c⟩ := e; simp only []; cases decodeIn b t <;> rfl

theorem foldl_decode_not_mem (T : List (String × Int)) (t : Int) (acc : Option String)
    (h : T.all (fun e => e.2 != t) = true) :
    T.foldl (fun acc (e : String × Int) => if e.2 = t then some e.1 else acc) acc = acc := by
  induction T generalizing acc with
  | nil => rfl
  | cons e T ih =>
    simp only [List.all_cons, Bool.and_eq_true, bne_iff_ne, ne_eq] at h
    simp only [List.foldl_cons, h.1, if_false]
    exact ih acc h.2

theorem decodeIn_not_mem (T : List (String × Int)) (t : Int) (h : T.all (fun e => e.2 != t) = true) :
    decodeIn T t = none := by
  unfold decodeIn
  exact foldl_decode_not_mem T t none h

/-- a property of every code follows from checking the codes of the table and the unnamed case -/
theorem forall_codes (T : List (String × Int)) (P : Int → Val → Bool)
    (hin : T.all (fun e => P e.2 (decOf T e.2)) = true)
    (hout : ∀ t : Int, T.all (fun e => e.2 != t) = true → P t (.int t) = true) :
    ∀ t : Int, P t (decOf T t) = true := by
  intro t
  by_cases h : T.any (fun e => e.2 == t) = true
  · simp only [List.any_eq_true] at h
    obtain ⟨e, he, hne⟩ := h
    have : e.2 = t := by simpa using hne
    subst this
    exact List.all_eq_true.mp hin e he
  · have hall : T.all (fun e => e.2 != t) = true := by
      apply List.all_eq_true.mpr
      intro e he
      have : ¬ (e.2 == t) = true := fun hc => h (List.any_eq_true.mpr ⟨e, he, hc⟩)
      simpa using this
    have := hout t hall
    simpa [decOf, decodeIn_not_mem T t hall] using this

/-- exactly code `c` is called `name` -/
def nameCheck (name : String) (c : Int) (t : Int) (v : Val) : Bool := isStr v name == (t == c)

theorem tagIs_of_table (tid : String) (name : String) (c : Int)
    (hmem : (tagTable tid).any (fun e => e.2 == c) = true)
    (hin : (tagTable tid).all (fun e => nameCheck name c e.2 (decOf (tagTable tid) e.2)) = true) :
    TagIs elfEnv tid name c := by
  intro t
  rw [decTag_elfEnv]
  have := forall_codes (tagTable tid) (nameCheck name c) hin (by
    intro t hall
    simp only [nameCheck, isStr]
    have : t ≠ c := by
      intro e; subst e
      simp only [List.any_eq_true] at hmem
      obtain ⟨e, he, hc⟩ := hmem
      have := List.all_eq_true.mp hall e he
      simp at this hc
      exact this hc
    simp [this]) t
  simpa [nameCheck] using this

def attrCheck (sunw : Bool) (t : Int) (v : Val) : Bool := handledAttr v == stringAttr sunw t

def hasCode (T : List (String × Int)) (c : Int) : Bool := T.any (fun e => e.2 == c)

theorem attrIs_of_table (tid : String) (sunw : Bool)
    (hcodes : (hasCode (tagTable tid) DT_NEEDED && hasCode (tagTable tid) DT_SONAME && hasCode (tagTable tid) DT_RPATH &&
              hasCode (tagTable tid) DT_RUNPATH) = true)
    (hsunw : sunw = true → hasCode (tagTable tid) DT_SUNW_FILTER = true)
    (hin : (tagTable tid).all (fun e => attrCheck sunw e.2 (decOf (tagTable tid) e.2)) = true) :
    AttrIs elfEnv tid sunw := by
  intro t
  rw [decTag_elfEnv]
  have ne_of (t c : Int) (hc : hasCode (tagTable tid) c = true) (hall : (tagTable tid).all (fun e => e.2 != t) = true) : t ≠ c := by
    intro e; subst e
    simp only [hasCode, List.any_eq_true] at hc
    obtain ⟨e, he, hc⟩ := hc
    have := List.all_eq_true.mp hall e he
    simp at this hc
    exact this hc
  have := forall_codes (tagTable tid) (attrCheck sunw) hin (by
    intro t hall
    simp only [Bool.and_eq_true] at hcodes
    obtain ⟨⟨⟨h1, h2⟩, h3⟩, h4⟩ := hcodes
    have n1 := ne_of t _ h1 hall
    have n2 := ne_of t _ h2 hall
    have n3 := ne_of t _ h3 hall
    have n4 := ne_of t _ h4 hall
    simp only [attrCheck, handledAttr, stringAttr, n1, n2, n3, n4, if_false]
    cases hs : sunw with
    | false => simp
    | true =>
      have n5 := ne_of t _ (hsunw hs) hall
      simp [n5]) t
  simpa [attrCheck] using this


/-! ### instances: the four tag tables `_create_dyn` can build -/

/-- the facts the C09 theorems need of a tag table -/
structure TagFacts (tid : String) (sunw : Bool) : Prop where
  null : NullIs elfEnv tid
  strtab : TagIs elfEnv tid "DT_STRTAB" DT_STRTAB
  symtab : TagIs elfEnv tid "DT_SYMTAB" DT_SYMTAB
  hash : TagIs elfEnv tid "DT_HASH" DT_HASH
  gnuHash : TagIs elfEnv tid "DT_GNU_HASH" DT_GNU_HASH
  attr : AttrIs elfEnv tid sunw

theorem tags_common : TagFacts "ENUM_D_TAG_COMMON" false where
  null := tagIs_of_table "ENUM_D_TAG_COMMON" "DT_NULL" DT_NULL (by decide +kernel) (by decide +kernel)
  strtab := tagIs_of_table "ENUM_D_TAG_COMMON" "DT_STRTAB" DT_STRTAB (by decide +kernel) (by decide +kernel)
  symtab := tagIs_of_table "ENUM_D_TAG_COMMON" "DT_SYMTAB" DT_SYMTAB (by decide +kernel) (by decide +kernel)
  hash := tagIs_of_table "ENUM_D_TAG_COMMON" "DT_HASH" DT_HASH (by decide +kernel) (by decide +kernel)
  gnuHash := tagIs_of_table "ENUM_D_TAG_COMMON" "DT_GNU_HASH" DT_GNU_HASH (by decide +kernel) (by decide +kernel)
  attr := attrIs_of_table "ENUM_D_TAG_COMMON" false (by decide +kernel) (by intro h; cases h) (by decide +kernel)

theorem tags_mips : TagFacts "ENUM_D_TAG_COMMON+ENUM_D_TAG_MIPS" false where
  null := tagIs_of_table "ENUM_D_TAG_COMMON+ENUM_D_TAG_MIPS" "DT_NULL" DT_NULL (by decide +kernel) (by decide +kernel)
  strtab := tagIs_of_table "ENUM_D_TAG_COMMON+ENUM_D_TAG_MIPS" "DT_STRTAB" DT_STRTAB (by decide +kernel) (by decide +kernel)
  symtab := tagIs_of_table "ENUM_D_TAG_COMMON+ENUM_D_TAG_MIPS" "DT_SYMTAB" DT_SYMTAB (by decide +kernel) (by decide +kernel)
  hash := tagIs_of_table "ENUM_D_TAG_COMMON+ENUM_D_TAG_MIPS" "DT_HASH" DT_HASH (by decide +kernel) (by decide +kernel)
  gnuHash := tagIs_of_table "ENUM_D_TAG_COMMON+ENUM_D_TAG_MIPS" "DT_GNU_HASH" DT_GNU_HASH (by decide +kernel) (by decide +kernel)
  attr := attrIs_of_table "ENUM_D_TAG_COMMON+ENUM_D_TAG_MIPS" false (by decide +kernel) (by intro h; cases h) (by decide +kernel)

theorem tags_aarch64 : TagFacts "ENUM_D_TAG_COMMON+ENUM_D_TAG_AARCH64" false where
  null := tagIs_of_table "ENUM_D_TAG_COMMON+ENUM_D_TAG_AARCH64" "DT_NULL" DT_NULL (by decide +kernel) (by decide +kernel)
  strtab := tagIs_of_table "ENUM_D_TAG_COMMON+ENUM_D_TAG_AARCH64" "DT_STRTAB" DT_STRTAB (by decide +kernel) (by decide +kernel)
  symtab := tagIs_of_table "ENUM_D_TAG_COMMON+ENUM_D_TAG_AARCH64" "DT_SYMTAB" DT_SYMTAB (by decide +kernel) (by decide +kernel)
  hash := tagIs_of_table "ENUM_D_TAG_COMMON+ENUM_D_TAG_AARCH64" "DT_HASH" DT_HASH (by decide +kernel) (by decide +kernel)
  gnuHash := tagIs_of_table "ENUM_D_TAG_COMMON+ENUM_D_TAG_AARCH64" "DT_GNU_HASH" DT_GNU_HASH (by decide +kernel) (by decide +kernel)
  attr := attrIs_of_table "ENUM_D_TAG_COMMON+ENUM_D_TAG_AARCH64" false (by decide +kernel) (by intro h; cases h) (by decide +kernel)

theorem tags_solaris : TagFacts "ENUM_D_TAG_COMMON+ENUM_D_TAG_SOLARIS" true where
  null := tagIs_of_table "ENUM_D_TAG_COMMON+ENUM_D_TAG_SOLARIS" "DT_NULL" DT_NULL (by decide +kernel) (by decide +kernel)
  strtab := tagIs_of_table "ENUM_D_TAG_COMMON+ENUM_D_TAG_SOLARIS" "DT_STRTAB" DT_STRTAB (by decide +kernel) (by decide +kernel)
  symtab := tagIs_of_table "ENUM_D_TAG_COMMON+ENUM_D_TAG_SOLARIS" "DT_SYMTAB" DT_SYMTAB (by decide +kernel) (by decide +kernel)
  hash := tagIs_of_table "ENUM_D_TAG_COMMON+ENUM_D_TAG_SOLARIS" "DT_HASH" DT_HASH (by decide +kernel) (by decide +kernel)
  gnuHash := tagIs_of_table "ENUM_D_TAG_COMMON+ENUM_D_TAG_SOLARIS" "DT_GNU_HASH" DT_GNU_HASH (by decide +kernel) (by decide +kernel)
  attr := attrIs_of_table "ENUM_D_TAG_COMMON+ENUM_D_TAG_SOLARIS" true (by decide +kernel) (fun _ => by decide +kernel) (by decide +kernel)

end PyElf.Props.TieC09
