/-
  C12 tie: the operand-parser dispatch table and the name tables the library builds are the
  operation table of the standard (Spec.opRows), for every configuration.
-/
import PyElf.Gen.Extra_C12
import PyElf.Spec.DwarfExpr
namespace PyElf.Props.TieC12
open PyElf PyElf.Spec

/-- `Gen.opSigs cfg = Spec.opSig cfg`: for every (byte order, DWARF format, address size, version) the
    dispatch table `_init_dispatch_table(structs)` has exactly the opcodes of the standard's operation
    table and, for each, the operand encodings the standard gives (widths, signedness, byte order). -/
theorem sig_table_eq_spec :
    Gen.opDispatch = Spec.allDwarfCfgs.map (fun c => (c, Spec.opTable c)) := by decide +kernel

/-- the reverse name table is the standard's opcode → name column plus the `DW_OP_hi_user` range marker -/
theorem opcode2name_eq_spec :
    Gen.opOpcode2Name = Spec.opNames ++ [(0xff, "DW_OP_hi_user")] := by decide +kernel

/-- every entry of the forward name table is a row of the standard's table (same name for that opcode)
    or one of the two range markers; together with `names_bijective` (Props/C12) the forward table is
    exactly the standard's name column plus the markers -/
theorem name2opcode_sub_spec :
    ∀ e ∈ Gen.opName2Opcode, Spec.opNames.lookup e.2 = some e.1 ∨ e ∈ Spec.opRangeMarkers := by decide +kernel

theorem name2opcode_length : Gen.opName2Opcode.length = Spec.opNames.length + Spec.opRangeMarkers.length := by decide +kernel

end PyElf.Props.TieC12
