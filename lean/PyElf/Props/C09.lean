/-
  C09 — dynamic linking information is exact, with or without section headers.

  Property theorems only.  `Dyn` is the model of a `DynamicSection` /
  `DynamicSegment` object (Model/Dynamic.lean); `TableView … d … tags` says the
  object looks at a stored table holding `tags` (terminator and whatever follows
  it included), anywhere in any byte string; `SegsView ifc hs` says the file
  object hands out the program headers `hs` (the C01 guarantee for the
  container; in the stripped image there is nothing else to rely on).

  Full statement of the design, kept visible:
      segment_view_eq_section_view : WF d → obs (model (assembleStripped d)) = obs (model (assembleFull d))
  What is proved is that statement with the container accessors of `ELFFile`
  (`get_segment`, `get_section`, the constructors' section search) replaced by
  the hypotheses `TableView` / `SegsView` / `d.strtab = …`: everything dynamic.py
  itself computes is covered, the container facts are C01's and are exercised
  end to end by the correspondence harness.
-/
import PyElf.Spec.Dynamic
import PyElf.Model.Dynamic
import PyElf.Proofs.Dynamic
import PyElf.Proofs.DynamicGnu
import PyElf.Props.TieC09
namespace PyElf.Props.C09
open PyElf PyElf.Spec PyElf.Spec.Dynamic PyElf.Model PyElf.Model.Dynamic PyElf.Proofs.Dynamic PyElf.Props.TieC09

/-! ### the configuration: structures and tag table the library builds (tied in TieC09) -/

abbrev S (c : ElfCfg) : ElfStructs := elfStructs c
abbrev tbl (c : ElfCfg) : String := dTagTable c.mclass c.solaris
abbrev sunw (c : ElfCfg) : Bool := usesSunw c.mclass c.solaris
/-- "the object looks at a stored table of `tags`" for configuration `c` -/
abbrev View (c : ElfCfg) (data : Bytes) (d : Dyn) (tags : List (Int × Nat)) : Prop :=
  TableView (S c) data d c.le (c.cls / 8) (tbl c) tags

/-- every tag table the library can build (common, +MIPS, +AArch64, +Solaris) names exactly the
    gABI codes DT_NULL / DT_STRTAB / DT_SYMTAB / DT_HASH / DT_GNU_HASH and handles exactly the
    string-valued tags -/
theorem tag_facts (c : ElfCfg) : TagFacts (tbl c) (sunw c) := by
  unfold tbl sunw
  by_cases h1 : c.mclass = "EM_MIPS"
  · rw [h1]; exact tags_mips
  by_cases h2 : c.mclass = "EM_MIPS_RS3_LE"
  · rw [h2]; exact tags_mips
  by_cases h3 : c.mclass = "EM_AARCH64"
  · rw [h3]; exact tags_aarch64
  have e1 : dTagTable c.mclass c.solaris = if c.solaris then "ENUM_D_TAG_COMMON+ENUM_D_TAG_SOLARIS" else "ENUM_D_TAG_COMMON" := by
    unfold dTagTable; split <;> simp_all
  have e2 : usesSunw c.mclass c.solaris = c.solaris := by
    unfold usesSunw; split <;> simp_all
  rw [e1, e2]
  cases c.solaris
  · exact tags_common
  · exact tags_solaris

/-! ### the entries: up to and including the terminator -/

/-- entries after the first DT_NULL are not part of the table -/
theorem live_ignores_trailing (pre post : List (Int × Nat)) (v : Nat) (h : ∀ t ∈ pre, t.1 ≠ DT_NULL) :
    liveTags (pre ++ (DT_NULL, v) :: post) = pre ++ [(DT_NULL, v)] := by
  induction pre with
  | nil => simp [liveTags]
  | cons t pre ih =>
    have ht : t.1 ≠ DT_NULL := h t (by simp)
    simp only [List.cons_append, liveTags, ht, if_false]
    rw [ih (fun x hx => h x (by simp [hx]))]

/-- `iter_tags()` / `num_tags()`: exactly the entries up to and including the first DT_NULL — tag
    named through the configuration's tag table (number kept when unnamed), value, pointer — each
    string-valued one (needed, soname, rpath, runpath; Solaris filter) with the string its value
    names in the string table `tab` serves; duplicates stay, what follows the terminator is ignored -/
theorem tags_exact (c : ElfCfg) (data : Bytes) (ifc : FileIfc) (d : Dyn) (tags : List (Int × Nat))
    (strtab : Bytes) (tab : StrTab)
    (V : View c data d tags) (hterm : hasTerminator tags = true)
    (hst : getStringtable elfEnv (S c) data ifc d = .ok (some tab)) (hserve : Serves data tab strtab)
    (hstr : StringsOk (sunw c) strtab (liveTags tags)) :
    iterTags elfEnv (S c) data ifc d none = .ok ((liveTags tags).map (obsEntry elfEnv (tbl c) (sunw c) strtab)) ∧
    numTags elfEnv (S c) data ifc d = .ok (liveTags tags).length :=
  let F := tag_facts c
  ⟨iterTags_view V F.null hterm hst F.attr hserve hstr, numTags_view V F.null hterm hst F.attr hserve hstr⟩

/-! ### the string table: section link, or string-table pointer -/

/-- an object constructed with a string table (the section `sh_link` names) uses it -/
theorem stringtable_by_link (c : ElfCfg) (data : Bytes) (ifc : FileIfc) (d : Dyn) (tab : StrTab)
    (h : d.strtab = some tab) : getStringtable elfEnv (S c) data ifc d = .ok (some tab) :=
  getStringtable_given h

/-- an object constructed without one (no section headers, or no `.dynamic` section at the
    segment's offset) uses the table the first live DT_STRTAB designates through the PT_LOADs -/
theorem stringtable_by_pointer (c : ElfCfg) (data : Bytes) (ifc : FileIfc) (d : Dyn) (tags : List (Int × Nat))
    (hs : List Val) (V : View c data d tags) (hterm : hasTerminator tags = true) (SV : SegsView ifc hs)
    (hnone : d.strtab = none) (a o : Nat)
    (ha : firstVal (liveTags tags) DT_STRTAB = some a) (ho : mapAddr hs a = some o) :
    getStringtable elfEnv (S c) data ifc d = .ok (some (.dynamic o)) :=
  getStringtable_pointer V (tag_facts c).null hterm SV (tag_facts c).strtab hnone ha ho

/-- a string table section whose contents sit at its `sh_offset` serves its strings -/
theorem strings_resolved_section (data strtab rest : Bytes) (hdr : Val) (toff : Nat)
    (hoff : hdr.getNat "sh_offset" = .ok toff) (hd : data.drop toff = strtab ++ rest)
    (hsmall : data.length < 2 ^ 63) :
    Serves data (.section "StringTableSection" hdr) strtab :=
  fun _ _ hs => getString_section hoff hd hs hsmall

/-- so does the bare table at the file offset the pointer maps to -/
theorem strings_resolved_pointer (data strtab rest : Bytes) (toff : Nat)
    (hd : data.drop toff = strtab ++ rest) (hsmall : data.length < 2 ^ 63) :
    Serves data (.dynamic toff) strtab :=
  fun _ _ hs => getString_dynamic hd hs hsmall

/-- `get_table_offset(name)`: value of the first live entry of that tag, and the file offset the
    PT_LOAD segments give it (stated for the tags the reader itself follows) -/
theorem table_offset_exact (c : ElfCfg) (data : Bytes) (ifc : FileIfc) (d : Dyn) (tags : List (Int × Nat))
    (hs : List Val) (V : View c data d tags) (hterm : hasTerminator tags = true) (SV : SegsView ifc hs) :
    (∀ nc ∈ [("DT_STRTAB", DT_STRTAB), ("DT_SYMTAB", DT_SYMTAB), ("DT_HASH", DT_HASH), ("DT_GNU_HASH", DT_GNU_HASH)],
      getTableOffset elfEnv (S c) data ifc d nc.1
        = .ok (firstVal (liveTags tags) nc.2, (firstVal (liveTags tags) nc.2).bind (mapAddr hs))) := by
  have F := tag_facts c
  intro nc hnc
  simp only [List.mem_cons, List.not_mem_nil, or_false] at hnc
  rcases hnc with h | h | h | h <;> subst h
  · exact getTableOffset_view V F.null hterm SV _ _ F.strtab
  · exact getTableOffset_view V F.null hterm SV _ _ F.symtab
  · exact getTableOffset_view V F.null hterm SV _ _ F.hash
  · exact getTableOffset_view V F.null hterm SV _ _ F.gnuHash

/-! ### the segment view equals the section view -/

/-- PARTIAL (container accessors as hypotheses, see the header).  The `DynamicSection` of an image
    with section headers (`dF`: string table = the linked section, contents at its `sh_offset`) and
    the `DynamicSegment` of an image without them, or whose `.dynamic` section sits elsewhere
    (`dS`: no string table given; DT_STRTAB mapped by the PT_LOADs `hs` to where the same string
    table is stored) report the same entries, the same strings and the same count.  `dataF` and
    `dataS` may be the same image or two different layouts of one description. -/
theorem segment_view_eq_section_view_partial (c : ElfCfg) (tags : List (Int × Nat)) (strtab : Bytes)
    (hterm : hasTerminator tags = true) (hstr : StringsOk (sunw c) strtab (liveTags tags))
    -- section view
    (dataF : Bytes) (ifcF : FileIfc) (dF : Dyn) (VF : View c dataF dF tags)
    (hdr : Val) (offF : Nat) (restF : Bytes) (hlink : dF.strtab = some (.section "StringTableSection" hdr))
    (hoff : hdr.getNat "sh_offset" = .ok offF) (hplF : dataF.drop offF = strtab ++ restF)
    -- segment view
    (dataS : Bytes) (ifcS : FileIfc) (dS : Dyn) (VS : View c dataS dS tags)
    (hs : List Val) (SV : SegsView ifcS hs) (hnone : dS.strtab = none)
    (a offS : Nat) (restS : Bytes) (ha : firstVal (liveTags tags) DT_STRTAB = some a) (ho : mapAddr hs a = some offS)
    (hplS : dataS.drop offS = strtab ++ restS) :
    iterTags elfEnv (S c) dataS ifcS dS none = iterTags elfEnv (S c) dataF ifcF dF none ∧
    numTags elfEnv (S c) dataS ifcS dS = numTags elfEnv (S c) dataF ifcF dF := by
  have eF := tags_exact c dataF ifcF dF tags strtab _ VF hterm (stringtable_by_link c dataF ifcF dF _ hlink)
    (strings_resolved_section dataF strtab restF hdr offF hoff hplF VF.small) hstr
  have eS := tags_exact c dataS ifcS dS tags strtab _ VS hterm
    (stringtable_by_pointer c dataS ifcS dS tags hs VS hterm SV hnone a offS ha ho)
    (strings_resolved_pointer dataS strtab restS offS hplS VS.small) hstr
  exact ⟨eS.1.trans eF.1.symm, eS.2.trans eF.2.symm⟩

/-! ### dynamic symbols -/

/-- with a SysV hash table (and no GNU one) the recovered count is the true count: gABI `nchain` =
    number of symbol table entries (`SysvHash.wf`) -/
theorem num_symbols_exact_sysv (c : ElfCfg) (data : Bytes) (ifc : FileIfc) (d : Dyn) (tags : List (Int × Nat))
    (hs : List Val) (V : View c data d tags) (hterm : hasTerminator tags = true) (SV : SegsView ifc hs)
    (iterSegs : R (List (String × Val)))
    (hnog : firstVal (liveTags tags) DT_GNU_HASH = none)
    (a o : Nat) (ha : firstVal (liveTags tags) DT_HASH = some a) (ho : mapAddr hs a = some o)
    (h : SysvHash) (nsyms : Nat) (hwf : h.wf nsyms = true) (rest : Bytes) (hd : data.drop o = h.enc c.le ++ rest) :
    numSymbols elfEnv (S c) data ifc d iterSegs c.le = .ok nsyms := by
  have F := tag_facts c
  simp only [SysvHash.wf, Bool.and_eq_true, decide_eq_true_eq] at hwf
  obtain ⟨⟨⟨⟨h1, h2⟩, h3⟩, _⟩, _⟩ := hwf
  obtain ⟨sz, hsz⟩ : ∃ sz, (S c).Elf_Sym.sizeof = some sz := by
    unfold S elfStructs
    by_cases h32 : c.cls = 32 <;> simp [h32, st, mkFields, f, enumOf, Con.sizeof, ConFields.sizeof, bind, Option.bind]
  have := numSymbols_sysv (env := elfEnv) (iterSegs := iterSegs) V F.null hterm SV F.gnuHash F.hash hsz hnog ha ho
    (spec_hash c) h h3 (by omega) hd
  rw [this, h1]

theorem sym_sizeof (c : ElfCfg) : ∃ sz, (S c).Elf_Sym.sizeof = some sz := by
  unfold S elfStructs
  by_cases h32 : c.cls = 32 <;> simp [h32, st, mkFields, f, enumOf, Con.sizeof, ConFields.sizeof, bind, Option.bind]

/-- with a GNU hash table the recovered count is the true count: highest bucket, then its chain to
    the entry with bit 0 set (`GnuHash.wf`: symbols from `symoffset` on are all hashed, grouped by
    bucket; at least one bucket; `symoffset ≥ 1`).  A SysV table that is also present is not consulted. -/
theorem num_symbols_exact_gnu (c : ElfCfg) (data : Bytes) (ifc : FileIfc) (d : Dyn) (tags : List (Int × Nat))
    (hs : List Val) (V : View c data d tags) (hterm : hasTerminator tags = true) (SV : SegsView ifc hs)
    (iterSegs : R (List (String × Val)))
    (a o : Nat) (ha : firstVal (liveTags tags) DT_GNU_HASH = some a) (ho : mapAddr hs a = some o)
    (h : GnuHash) (nsyms : Nat) (hwf : h.wf nsyms = true) (rest : Bytes)
    (hd : data.drop o = h.enc c.le (c.cls / 8) ++ rest) :
    numSymbols elfEnv (S c) data ifc d iterSegs c.le = .ok nsyms := by
  have F := tag_facts c
  obtain ⟨sz, hsz⟩ := sym_sizeof c
  exact numSymbols_gnu (env := elfEnv) (iterSegs := iterSegs) V F.null hterm SV F.gnuHash hsz ha ho
    (spec_gnu c) rfl rfl h nsyms hwf hd

/-- `num_symbols_exact` of the design: under `WFGnu ∨ WFSysV` (each table, where its tag is live,
    stored where the tag points and well formed) the recovered count is the true count -/
theorem num_symbols_exact (c : ElfCfg) (data : Bytes) (ifc : FileIfc) (d : Dyn) (tags : List (Int × Nat))
    (hs : List Val) (V : View c data d tags) (hterm : hasTerminator tags = true) (SV : SegsView ifc hs)
    (iterSegs : R (List (String × Val))) (nsyms : Nat)
    (hwf :
      (∃ a o h rest, firstVal (liveTags tags) DT_GNU_HASH = some a ∧ mapAddr hs a = some o ∧
          GnuHash.wf h nsyms = true ∧ data.drop o = h.enc c.le (c.cls / 8) ++ rest) ∨
      (firstVal (liveTags tags) DT_GNU_HASH = none ∧
        ∃ a o h rest, firstVal (liveTags tags) DT_HASH = some a ∧ mapAddr hs a = some o ∧
          SysvHash.wf h nsyms = true ∧ data.drop o = h.enc c.le ++ rest)) :
    numSymbols elfEnv (S c) data ifc d iterSegs c.le = .ok nsyms := by
  rcases hwf with ⟨a, o, h, rest, ha, ho, hw, hd⟩ | ⟨hnog, a, o, h, rest, ha, ho, hw, hd⟩
  · exact num_symbols_exact_gnu c data ifc d tags hs V hterm SV iterSegs a o ha ho h nsyms hw rest hd
  · exact num_symbols_exact_sysv c data ifc d tags hs V hterm SV iterSegs hnog a o ha ho h nsyms hw rest hd

/-- the symbols the segment view enumerates are the stored ones, each named through the string
    table; PARTIAL in that the count is a hypothesis (`num_symbols_exact_*` supply it) -/
theorem symbols_exact (c : ElfCfg) (data : Bytes) (ifc : FileIfc) (d : Dyn) (tags : List (Int × Nat))
    (hs : List Val) (V : View c data d tags) (hterm : hasTerminator tags = true) (SV : SegsView ifc hs)
    (iterSegs : R (List (String × Val)))
    (a symOff : Nat) (ha : firstVal (liveTags tags) DT_SYMTAB = some a) (ho : mapAddr hs a = some symOff)
    (syms : List Fields) (es : List Val) (Y : SymView elfEnv (S c) data symOff syms es)
    (tab : StrTab) (strtab : Bytes) (hst : getStringtable elfEnv (S c) data ifc d = .ok (some tab))
    (hserve : Serves data tab strtab)
    (hnames : ∀ s ∈ syms, (strAt strtab (getNatD s "st_name")).isSome)
    (hnum : numSymbols elfEnv (S c) data ifc d iterSegs c.le = .ok syms.length) :
    iterSymbols elfEnv (S c) data ifc d iterSegs c.le
      = .ok ((List.range syms.length).map fun i =>
              ((strAt strtab (getNatD (syms.getD i []) "st_name")).getD [], es.getD i .none)) := by
  have F := tag_facts c
  apply iterSymbols_of_count hnum
  intro i hi
  have h2 : i < es.length := by rw [Y.len]; exact hi
  have := getSymbol_view V F.null hterm SV F.symtab ha ho Y hst hserve i hi h2 (hnames _ (List.getElem_mem hi))
  rw [this]
  simp [List.getD, List.getElem?_eq_getElem hi, List.getElem?_eq_getElem h2]

/-! ### non-vacuity -/

example : hasTerminator [(DT_NEEDED, 1), (DT_STRTAB, 0x1000), (DT_NULL, 0), (DT_NEEDED, 99)] = true := by decide
example : liveTags [(DT_NEEDED, 1), (DT_NEEDED, 1), (DT_NULL, 0), (DT_NEEDED, 99), (DT_NULL, 0)]
    = [(DT_NEEDED, 1), (DT_NEEDED, 1), (DT_NULL, 0)] := by decide
example : strAt [0, 0x6c, 0x69, 0x62, 0x63, 0] 1 = some [0x6c, 0x69, 0x62, 0x63] := by decide
example : (SysvHash.mk [1, 0] [0, 0, 1]).wf 3 = true := by decide
example : (GnuHash.mk 1 [0xdeadbeef] 6 [[0x7c92e3bb, 0x0b887389], [], [0x10]]).wf 4 = true := by decide
example : bucketStarts 1 [[0x7c92e3bb, 0x0b887389], [], [0x10]] = [1, 0, 3] := by decide
example : chainWords [0x7c92e3bb, 0x0b887389] = [0x7c92e3ba, 0x0b887389] := by decide
example : mapAddr [.record [("p_type", .str "PT_LOAD"), ("p_offset", .int 0x200), ("p_vaddr", .int 0), ("p_filesz", .int 0x80)]] 0
    = some 0x200 := by decide


/-- a concrete object satisfying `View`: a 64-bit LSB table NEEDED, STRTAB, NULL, (trailing) NEEDED
    stored 3 bytes into a byte string and followed by 2 more bytes -/
def exCfg : ElfCfg := ⟨true, 64, "default", false, false⟩
def exTags : List (Int × Nat) := [(DT_NEEDED, 1), (DT_STRTAB, 0x1000), (DT_NULL, 0), (DT_NEEDED, 99)]
def w8 (n : Nat) : Bytes := [UInt8.ofNat n, 0, 0, 0, 0, 0, 0, 0]
def exTable : Bytes := w8 1 ++ w8 1 ++ w8 5 ++ [0, 0x10, 0, 0, 0, 0, 0, 0] ++ w8 0 ++ w8 0 ++ w8 1 ++ w8 99
def exData : Bytes := [1, 2, 3] ++ exTable ++ [4, 5]

theorem exTable_enc : encAll (dynCon true 8 (tbl exCfg)) (exTags.map rawTag) = some exTable := by
  simp [encAll, exTags, rawTag, dynCon, st, mkFields, f, enumOf, Con.encodeRaw, ConFields.encodeRaw, Fields.get?,
    DT_NEEDED, DT_STRTAB, DT_NULL, bind, Option.bind, pure]
  decide

example : View exCfg exData ⟨none, 3, false, 16⟩ exTags where
  con := rfl
  wpos := by decide
  nonempty := rfl
  tagsize := rfl
  placed := ⟨exTable, [4, 5], exTable_enc, by decide⟩
  small := by decide

example : hasTerminator exTags = true ∧ liveTags exTags = [(DT_NEEDED, 1), (DT_STRTAB, 0x1000), (DT_NULL, 0)] := by decide

/-- a concrete file object satisfying `SegsView` -/
def exPhdr : Val := .record [("p_type", .str "PT_LOAD"), ("p_offset", .int 0x200), ("p_vaddr", .int 0x1000), ("p_filesz", .int 0x80)]
example : SegsView ⟨.ok 1, fun _ => .ok ("Segment", exPhdr), fun _ => .ok none⟩ [exPhdr] where
  num := rfl
  get := fun i hi => ⟨"Segment", by
    have : i = 0 := by simpa using hi
    subst this; rfl⟩
  ok := fun h hh => by
    have : h = exPhdr := by simpa using hh
    subst this
    exact ⟨.str "PT_LOAD", 0x1000, 0x80, 0x200, rfl, rfl, rfl, rfl⟩

example : mapAddr [exPhdr] 0x1000 = some 0x200 := by decide

end PyElf.Props.C09
