/-
  C09 — dynamic linking information is exact, with or without section headers.

  Property theorems only.  `Dyn` is the model of a `DynamicSection` /
  `DynamicSegment` object (Model/Dynamic.lean); `TableView … d … tags` says the
  object looks at a stored table holding `tags` (terminator and whatever follows
  it included), anywhere in any byte string; `SegsView ifc hs` says the file
  object hands out the program headers `hs` (the C01 guarantee for the
  container; in the stripped image there is nothing else to rely on).

  Full statement of the design:
      segment_view_eq_section_view : WF d → obs (model (assembleStripped d)) = obs (model (assembleFull d))
  is proved below (`segment_view_eq_section_view`, `…_assembled`): the two layouts of a `DynDesc`
  are `Spec.ElfDesc`s (`DynDesc.container`, the very description whose regions `DynDesc.assemble`
  lays out), and the container accessors of `ELFFile` (`get_segment`, `get_section`, the
  constructors' section search) are C01's theorems applied to them (Proofs/DynamicImage.lean).
  The earlier statement with those accessors as hypotheses (`TableView` / `SegsView` /
  `d.strtab = …`) is kept as `segment_view_eq_section_view_partial`.
-/
import PyElf.Spec.Dynamic
import PyElf.Model.Dynamic
import PyElf.Proofs.Dynamic
import PyElf.Proofs.DynamicGnu
import PyElf.Proofs.DynamicImage
import PyElf.Proofs.DynamicSym
import PyElf.Props.TieC09
import PyElf.Props.TieC09Sh
import PyElf.Props.C01
namespace PyElf.Props.C09
open PyElf PyElf.Spec PyElf.Spec.Dynamic PyElf.Model PyElf.Model.Dynamic PyElf.Proofs.Dynamic PyElf.Props.TieC09

/-! ### the configuration: structures and tag table the library builds (tied in TieC09) -/

abbrev S (c : ElfCfg) : ElfStructs := elfStructs c
abbrev tbl (c : ElfCfg) : String := dTagTable c.mclass c.solaris
abbrev sunw (c : ElfCfg) : Bool := usesSunw c.mclass c.solaris
/-- "the object looks at a stored table of `tags`" for configuration `c` -/
abbrev View (c : ElfCfg) (data : Bytes) (d : Dyn) (tags : List (Int × Nat)) : Prop :=
  TableView (S c) data d c.le (c.cls / 8) (tbl c) tags

/-- every tag table the library can build (common, +MIPS, +AArch64, +Solaris) names exactly the
    gABI codes DT_NULL / DT_STRTAB / DT_SYMTAB / DT_HASH / DT_GNU_HASH and handles exactly the
    string-valued tags -/
theorem tag_facts (c : ElfCfg) : TagFacts (tbl c) (sunw c) := by
  unfold tbl sunw
  by_cases h1 : c.mclass = "EM_MIPS"
  · rw [h1]; exact tags_mips
  by_cases h2 : c.mclass = "EM_MIPS_RS3_LE"
  · rw [h2]; exact tags_mips
  by_cases h3 : c.mclass = "EM_AARCH64"
  · rw [h3]; exact tags_aarch64
  have e1 : dTagTable c.mclass c.solaris = if c.solaris then "ENUM_D_TAG_COMMON+ENUM_D_TAG_SOLARIS" else "ENUM_D_TAG_COMMON" := by
    unfold dTagTable; split <;> simp_all
  have e2 : usesSunw c.mclass c.solaris = c.solaris := by
    unfold usesSunw; split <;> simp_all
  rw [e1, e2]
  cases c.solaris
  · exact tags_common
  · exact tags_solaris

/-! ### the entries: up to and including the terminator -/

/-- entries after the first DT_NULL are not part of the table -/
theorem live_ignores_trailing (pre post : List (Int × Nat)) (v : Nat) (h : ∀ t ∈ pre, t.1 ≠ DT_NULL) :
    liveTags (pre ++ (DT_NULL, v) :: post) = pre ++ [(DT_NULL, v)] := by
  induction pre with
  | nil => simp [liveTags]
  | cons t pre ih =>
    have ht : t.1 ≠ DT_NULL := h t (by simp)
    simp only [List.cons_append, liveTags, ht, if_false]
    rw [ih (fun x hx => h x (by simp [hx]))]

/-- `iter_tags()` / `num_tags()`: exactly the entries up to and including the first DT_NULL — tag
    named through the configuration's tag table (number kept when unnamed), value, pointer — each
    string-valued one (needed, soname, rpath, runpath; Solaris filter) with the string its value
    names in the string table `tab` serves; duplicates stay, what follows the terminator is ignored -/
theorem tags_exact (c : ElfCfg) (data : Bytes) (ifc : FileIfc) (d : Dyn) (tags : List (Int × Nat))
    (strtab : Bytes) (tab : StrTab)
    (V : View c data d tags) (hterm : hasTerminator tags = true)
    (hst : getStringtable elfEnv (S c) data ifc d = .ok (some tab)) (hserve : Serves data tab strtab)
    (hstr : StringsOk (sunw c) strtab (liveTags tags)) :
    iterTags elfEnv (S c) data ifc d none = .ok ((liveTags tags).map (obsEntry elfEnv (tbl c) (sunw c) strtab)) ∧
    numTags elfEnv (S c) data ifc d = .ok (liveTags tags).length :=
  let F := tag_facts c
  ⟨iterTags_view V F.null hterm hst F.attr hserve hstr, numTags_view V F.null hterm hst F.attr hserve hstr⟩

/-! ### the string table: section link, or string-table pointer -/

/-- an object constructed with a string table (the section `sh_link` names) uses it -/
theorem stringtable_by_link (c : ElfCfg) (data : Bytes) (ifc : FileIfc) (d : Dyn) (tab : StrTab)
    (h : d.strtab = some tab) : getStringtable elfEnv (S c) data ifc d = .ok (some tab) :=
  getStringtable_given h

/-- an object constructed without one (no section headers, or no `.dynamic` section at the
    segment's offset) uses the table the first live DT_STRTAB designates through the PT_LOADs -/
theorem stringtable_by_pointer (c : ElfCfg) (data : Bytes) (ifc : FileIfc) (d : Dyn) (tags : List (Int × Nat))
    (hs : List Val) (V : View c data d tags) (hterm : hasTerminator tags = true) (SV : SegsView ifc hs)
    (hnone : d.strtab = none) (a o : Nat)
    (ha : firstVal (liveTags tags) DT_STRTAB = some a) (ho : mapAddr hs a = some o) :
    getStringtable elfEnv (S c) data ifc d = .ok (some (.dynamic o)) :=
  getStringtable_pointer V (tag_facts c).null hterm SV (tag_facts c).strtab hnone ha ho

/-- a string table section whose contents sit at its `sh_offset` serves its strings -/
theorem strings_resolved_section (data strtab rest : Bytes) (hdr : Val) (toff : Nat)
    (hoff : hdr.getNat "sh_offset" = .ok toff) (hd : data.drop toff = strtab ++ rest)
    (hsmall : data.length < 2 ^ 63) :
    Serves data (.section "StringTableSection" hdr) strtab :=
  fun _ _ hs => getString_section hoff hd hs hsmall

/-- so does the bare table at the file offset the pointer maps to -/
theorem strings_resolved_pointer (data strtab rest : Bytes) (toff : Nat)
    (hd : data.drop toff = strtab ++ rest) (hsmall : data.length < 2 ^ 63) :
    Serves data (.dynamic toff) strtab :=
  fun _ _ hs => getString_dynamic hd hs hsmall

/-- `get_table_offset(name)`: value of the first live entry of that tag, and the file offset the
    PT_LOAD segments give it (stated for the tags the reader itself follows) -/
theorem table_offset_exact (c : ElfCfg) (data : Bytes) (ifc : FileIfc) (d : Dyn) (tags : List (Int × Nat))
    (hs : List Val) (V : View c data d tags) (hterm : hasTerminator tags = true) (SV : SegsView ifc hs) :
    (∀ nc ∈ [("DT_STRTAB", DT_STRTAB), ("DT_SYMTAB", DT_SYMTAB), ("DT_HASH", DT_HASH), ("DT_GNU_HASH", DT_GNU_HASH)],
      getTableOffset elfEnv (S c) data ifc d nc.1
        = .ok (firstVal (liveTags tags) nc.2, (firstVal (liveTags tags) nc.2).bind (mapAddr hs))) := by
  have F := tag_facts c
  intro nc hnc
  simp only [List.mem_cons, List.not_mem_nil, or_false] at hnc
  rcases hnc with h | h | h | h <;> subst h
  · exact getTableOffset_view V F.null hterm SV _ _ F.strtab
  · exact getTableOffset_view V F.null hterm SV _ _ F.symtab
  · exact getTableOffset_view V F.null hterm SV _ _ F.hash
  · exact getTableOffset_view V F.null hterm SV _ _ F.gnuHash

/-! ### the segment view equals the section view -/

/-- PARTIAL (container accessors as hypotheses, see the header).  The `DynamicSection` of an image
    with section headers (`dF`: string table = the linked section, contents at its `sh_offset`) and
    the `DynamicSegment` of an image without them, or whose `.dynamic` section sits elsewhere
    (`dS`: no string table given; DT_STRTAB mapped by the PT_LOADs `hs` to where the same string
    table is stored) report the same entries, the same strings and the same count.  `dataF` and
    `dataS` may be the same image or two different layouts of one description. -/
theorem segment_view_eq_section_view_partial (c : ElfCfg) (tags : List (Int × Nat)) (strtab : Bytes)
    (hterm : hasTerminator tags = true) (hstr : StringsOk (sunw c) strtab (liveTags tags))
    -- section view
    (dataF : Bytes) (ifcF : FileIfc) (dF : Dyn) (VF : View c dataF dF tags)
    (hdr : Val) (offF : Nat) (restF : Bytes) (hlink : dF.strtab = some (.section "StringTableSection" hdr))
    (hoff : hdr.getNat "sh_offset" = .ok offF) (hplF : dataF.drop offF = strtab ++ restF)
    -- segment view
    (dataS : Bytes) (ifcS : FileIfc) (dS : Dyn) (VS : View c dataS dS tags)
    (hs : List Val) (SV : SegsView ifcS hs) (hnone : dS.strtab = none)
    (a offS : Nat) (restS : Bytes) (ha : firstVal (liveTags tags) DT_STRTAB = some a) (ho : mapAddr hs a = some offS)
    (hplS : dataS.drop offS = strtab ++ restS) :
    iterTags elfEnv (S c) dataS ifcS dS none = iterTags elfEnv (S c) dataF ifcF dF none ∧
    numTags elfEnv (S c) dataS ifcS dS = numTags elfEnv (S c) dataF ifcF dF := by
  have eF := tags_exact c dataF ifcF dF tags strtab _ VF hterm (stringtable_by_link c dataF ifcF dF _ hlink)
    (strings_resolved_section dataF strtab restF hdr offF hoff hplF VF.small) hstr
  have eS := tags_exact c dataS ifcS dS tags strtab _ VS hterm
    (stringtable_by_pointer c dataS ifcS dS tags hs VS hterm SV hnone a offS ha ho)
    (strings_resolved_pointer dataS strtab restS offS hplS VS.small) hstr
  exact ⟨eS.1.trans eF.1.symm, eS.2.trans eF.2.symm⟩

/-! ### the full statement: two layouts of one description -/

/-- what the property observes through a dynamic object: `list(iter_tags())` (entries with their
    strings) and `num_tags()` -/
structure TagObs where
  tags : R (List DTag)
  numTags : R Nat

def tagObs (f : ElfFile) (dy : Dyn) : TagObs :=
  ⟨iterTags elfEnv f.S f.data (realIfc elfEnv f) dy none, numTags elfEnv f.S f.data (realIfc elfEnv f) dy⟩

/-- `obs`, section side: open the image, take its first `DynamicSection` (none in a stripped image) -/
def secObs (bytes : Bytes) : R (Option TagObs) := do
  let f ← openElf elfEnv C01.specStructs C01.specMachineClass bytes
  match ← dynamicSection elfEnv f with
  | none => return none
  | some dy => return some (tagObs f dy)

/-- `obs`, segment side (tags): open the image, take its first `DynamicSegment` -/
def segObs (bytes : Bytes) : R (Option TagObs) := do
  let f ← openElf elfEnv C01.specStructs C01.specMachineClass bytes
  match ← dynamicSegment elfEnv f with
  | none => return none
  | some dy => return some (tagObs f dy)

/-- what must be observed (Spec/Dynamic.lean `obsTags`, `DynDesc.live`) -/
def specTagObs (d : DynDesc) : TagObs :=
  ⟨.ok (d.live.map (obsEntry elfEnv (tbl d.cfg) (sunw d.cfg) d.strtab)), .ok d.live.length⟩

/-- `specTagObs` is the Spec's `obsTags` (the `expect` of the correspondence check) -/
theorem specTagObs_eq (d : DynDesc) :
    obsTags elfEnv d = (specTagObs d).tags.map (·.map fun t => (t.entry, t.attr)) := by
  unfold obsTags specTagObs
  simp only [Except.map]
  have : ∀ l : List (Int × Nat), l.mapM (obsTag elfEnv d)
      = .ok ((l.map (obsEntry elfEnv (tbl d.cfg) (sunw d.cfg) d.strtab)).map fun t => (t.entry, t.attr)) := by
    intro l
    induction l with
    | nil => rfl
    | cons t l ih =>
      have h1 : obsTag elfEnv d t = .ok ((obsEntry elfEnv (tbl d.cfg) (sunw d.cfg) d.strtab t).entry,
          (obsEntry elfEnv (tbl d.cfg) (sunw d.cfg) d.strtab t).attr) := by
        unfold obsTag
        have : d.S.Elf_Dyn = dynCon d.le d.w (tbl d.cfg) := spec_dyn d.cfg
        rw [this, decodeRaw_dyn]
        simp only [bind, Except.bind, obsEntry]
        have hs : d.sunw = sunw d.cfg := rfl
        rw [hs]
        cases stringAttr (sunw d.cfg) t.1 <;> rfl
      simp [List.mapM_cons, h1, ih, bind, Except.bind, pure, Except.pure]
  exact this d.live

/-- the tags and strings of one layout, through its `DynamicSegment` -/
theorem seg_tags_exact (d : DynDesc) (full : Bool) (bytes : Bytes)
    (hc : (d.container full).wf elfEnv = true) (hd : d.wf elfEnv full = true)
    (hl : DynLayout d full bytes) (hsmall : bytes.length < 2 ^ 63) :
    segObs bytes = .ok (some (specTagObs d)) := by
  have F := tag_facts d.cfg
  obtain ⟨f, dy, tab, X⟩ := segSide_of sh_types (d := d) F.null F.strtab hc hd hl hsmall
  have W := dyn_wf hd
  have V : View d.cfg f.data dy d.tags := by have := X.view; rwa [X.S] at this
  have e := tags_exact d.cfg f.data (realIfc elfEnv f) dy d.tags d.strtab tab V W.term
    (by have := X.strtab; rwa [X.S] at this) X.serves (stringsOk_tags W.strings)
  unfold segObs
  simp only [X.opened, X.seg, bind, Except.bind, pure, Except.pure, tagObs, X.S]
  have e1 : iterTags elfEnv d.S f.data (realIfc elfEnv f) dy none = _ := e.1
  have e2 : numTags elfEnv d.S f.data (realIfc elfEnv f) dy = _ := e.2
  rw [e1, e2]
  rfl

/-- the tags and strings of the full layout, through its `DynamicSection`; a stripped image has none -/
theorem sec_tags_exact (d : DynDesc) (bytes : Bytes)
    (hc : (d.container true).wf elfEnv = true) (hd : d.wf elfEnv true = true)
    (hl : DynLayout d true bytes) (hsmall : bytes.length < 2 ^ 63) :
    secObs bytes = .ok (some (specTagObs d)) := by
  have F := tag_facts d.cfg
  obtain ⟨f, dy0, tab0, X⟩ := segSide_of sh_types (d := d) F.null F.strtab hc hd hl hsmall
  obtain ⟨dy, tab, Y⟩ := secSide_of sh_types hc hd hl hsmall f X.opened
  have W := dyn_wf hd
  have V : View d.cfg f.data dy d.tags := by have := Y.view; rwa [X.S] at this
  have e := tags_exact d.cfg f.data (realIfc elfEnv f) dy d.tags d.strtab tab V W.term
    (by have := Y.strtab; rwa [X.S] at this) Y.serves (stringsOk_tags W.strings)
  unfold secObs
  simp only [X.opened, Y.sec, bind, Except.bind, pure, Except.pure, tagObs, X.S]
  have e1 : iterTags elfEnv d.S f.data (realIfc elfEnv f) dy none = _ := e.1
  have e2 : numTags elfEnv d.S f.data (realIfc elfEnv f) dy = _ := e.2
  rw [e1, e2]
  rfl

theorem sec_stripped_none (d : DynDesc) (bytes : Bytes)
    (hc : (d.container false).wf elfEnv = true) (hd : d.wf elfEnv false = true)
    (hl : DynLayout d false bytes) :
    secObs bytes = .ok none := by
  have W := dyn_wf hd
  obtain ⟨f, hopen, FF⟩ := file_facts hc (layout_container hl) (segs_decode W.phlen)
  unfold secObs
  simp [hopen, dynamicSection_stripped FF, bind, Except.bind, pure, Except.pure]

/-! ### dynamic symbols -/

/-- with a SysV hash table (and no GNU one) the recovered count is the true count: gABI `nchain` =
    number of symbol table entries (`SysvHash.wf`) -/
theorem num_symbols_exact_sysv (c : ElfCfg) (data : Bytes) (ifc : FileIfc) (d : Dyn) (tags : List (Int × Nat))
    (hs : List Val) (V : View c data d tags) (hterm : hasTerminator tags = true) (SV : SegsView ifc hs)
    (iterSegs : R (List (String × Val)))
    (hnog : firstVal (liveTags tags) DT_GNU_HASH = none)
    (a o : Nat) (ha : firstVal (liveTags tags) DT_HASH = some a) (ho : mapAddr hs a = some o)
    (h : SysvHash) (nsyms : Nat) (hwf : h.wf nsyms = true) (rest : Bytes) (hd : data.drop o = h.enc c.le ++ rest) :
    numSymbols elfEnv (S c) data ifc d iterSegs c.le = .ok nsyms := by
  have F := tag_facts c
  simp only [SysvHash.wf, Bool.and_eq_true, decide_eq_true_eq] at hwf
  obtain ⟨⟨⟨⟨h1, h2⟩, h3⟩, _⟩, _⟩ := hwf
  obtain ⟨sz, hsz⟩ : ∃ sz, (S c).Elf_Sym.sizeof = some sz := by
    unfold S elfStructs
    by_cases h32 : c.cls = 32 <;> simp [h32, st, mkFields, f, enumOf, Con.sizeof, ConFields.sizeof, bind, Option.bind]
  have := numSymbols_sysv (env := elfEnv) (iterSegs := iterSegs) V F.null hterm SV F.gnuHash F.hash hsz hnog ha ho
    (spec_hash c) h h3 (by omega) hd
  rw [this, h1]

theorem sym_sizeof (c : ElfCfg) : ∃ sz, (S c).Elf_Sym.sizeof = some sz := by
  unfold S elfStructs
  by_cases h32 : c.cls = 32 <;> simp [h32, st, mkFields, f, enumOf, Con.sizeof, ConFields.sizeof, bind, Option.bind]

/-- with a GNU hash table the recovered count is the true count: highest bucket, then its chain to
    the entry with bit 0 set (`GnuHash.wf`: symbols from `symoffset` on are all hashed, grouped by
    bucket; at least one bucket; `symoffset ≥ 1`).  A SysV table that is also present is not consulted. -/
theorem num_symbols_exact_gnu (c : ElfCfg) (data : Bytes) (ifc : FileIfc) (d : Dyn) (tags : List (Int × Nat))
    (hs : List Val) (V : View c data d tags) (hterm : hasTerminator tags = true) (SV : SegsView ifc hs)
    (iterSegs : R (List (String × Val)))
    (a o : Nat) (ha : firstVal (liveTags tags) DT_GNU_HASH = some a) (ho : mapAddr hs a = some o)
    (h : GnuHash) (nsyms : Nat) (hwf : h.wf nsyms = true) (rest : Bytes)
    (hd : data.drop o = h.enc c.le (c.cls / 8) ++ rest) :
    numSymbols elfEnv (S c) data ifc d iterSegs c.le = .ok nsyms := by
  have F := tag_facts c
  obtain ⟨sz, hsz⟩ := sym_sizeof c
  exact numSymbols_gnu (env := elfEnv) (iterSegs := iterSegs) V F.null hterm SV F.gnuHash hsz ha ho
    (spec_gnu c) rfl rfl h nsyms hwf hd

/-- `num_symbols_exact` of the design: under `WFGnu ∨ WFSysV` (each table, where its tag is live,
    stored where the tag points and well formed) the recovered count is the true count -/
theorem num_symbols_exact (c : ElfCfg) (data : Bytes) (ifc : FileIfc) (d : Dyn) (tags : List (Int × Nat))
    (hs : List Val) (V : View c data d tags) (hterm : hasTerminator tags = true) (SV : SegsView ifc hs)
    (iterSegs : R (List (String × Val))) (nsyms : Nat)
    (hwf :
      (∃ a o h rest, firstVal (liveTags tags) DT_GNU_HASH = some a ∧ mapAddr hs a = some o ∧
          GnuHash.wf h nsyms = true ∧ data.drop o = h.enc c.le (c.cls / 8) ++ rest) ∨
      (firstVal (liveTags tags) DT_GNU_HASH = none ∧
        ∃ a o h rest, firstVal (liveTags tags) DT_HASH = some a ∧ mapAddr hs a = some o ∧
          SysvHash.wf h nsyms = true ∧ data.drop o = h.enc c.le ++ rest)) :
    numSymbols elfEnv (S c) data ifc d iterSegs c.le = .ok nsyms := by
  rcases hwf with ⟨a, o, h, rest, ha, ho, hw, hd⟩ | ⟨hnog, a, o, h, rest, ha, ho, hw, hd⟩
  · exact num_symbols_exact_gnu c data ifc d tags hs V hterm SV iterSegs a o ha ho h nsyms hw rest hd
  · exact num_symbols_exact_sysv c data ifc d tags hs V hterm SV iterSegs hnog a o ha ho h nsyms hw rest hd

/-- the symbols the segment view enumerates are the stored ones, each named through the string
    table; PARTIAL in that the count (`hnum`) and the decoding of the stored records (`SymView.dec`)
    are hypotheses.  `symbols_exact` below discharges both. -/
theorem symbols_exact_partial (c : ElfCfg) (data : Bytes) (ifc : FileIfc) (d : Dyn) (tags : List (Int × Nat))
    (hs : List Val) (V : View c data d tags) (hterm : hasTerminator tags = true) (SV : SegsView ifc hs)
    (iterSegs : R (List (String × Val)))
    (a symOff : Nat) (ha : firstVal (liveTags tags) DT_SYMTAB = some a) (ho : mapAddr hs a = some symOff)
    (syms : List Fields) (es : List Val) (Y : SymView elfEnv (S c) data symOff syms es)
    (tab : StrTab) (strtab : Bytes) (hst : getStringtable elfEnv (S c) data ifc d = .ok (some tab))
    (hserve : Serves data tab strtab)
    (hnames : ∀ s ∈ syms, (strAt strtab (getNatD s "st_name")).isSome)
    (hnum : numSymbols elfEnv (S c) data ifc d iterSegs c.le = .ok syms.length) :
    iterSymbols elfEnv (S c) data ifc d iterSegs c.le
      = .ok ((List.range syms.length).map fun i =>
              ((strAt strtab (getNatD (syms.getD i []) "st_name")).getD [], es.getD i .none)) := by
  have F := tag_facts c
  apply iterSymbols_of_count hnum
  intro i hi
  have h2 : i < es.length := by rw [Y.len]; exact hi
  have := getSymbol_view V F.null hterm SV F.symtab ha ho Y hst hserve i hi h2 (hnames _ (List.getElem_mem hi))
  rw [this]
  simp [List.getD, List.getElem?_eq_getElem hi, List.getElem?_eq_getElem h2]

/-- FULL.  The symbol table (raw records `syms`, encodable) stored where DT_SYMTAB points, a hash
    table as in `num_symbols_exact` stored where its tag points: `iter_symbols()` yields exactly
    `syms.length` symbols, the `i`-th being the decoding `es[i]` of `syms[i]` named by the string its
    `st_name` designates.  Neither the count nor the decoding of `st_name` is assumed. -/
theorem symbols_exact (c : ElfCfg) (data : Bytes) (ifc : FileIfc) (d : Dyn) (tags : List (Int × Nat))
    (hs : List Val) (V : View c data d tags) (hterm : hasTerminator tags = true) (SV : SegsView ifc hs)
    (iterSegs : R (List (String × Val)))
    (a symOff : Nat) (ha : firstVal (liveTags tags) DT_SYMTAB = some a) (ho : mapAddr hs a = some symOff)
    (syms : List Fields) (sb rest : Bytes)
    (henc : encAll (S c).Elf_Sym (syms.map .record) = some sb) (hpl : data.drop symOff = sb ++ rest)
    (tab : StrTab) (strtab : Bytes) (hst : getStringtable elfEnv (S c) data ifc d = .ok (some tab))
    (hserve : Serves data tab strtab)
    (hnames : ∀ s ∈ syms, (strAt strtab (getNatD s "st_name")).isSome)
    (hwf :
      (∃ a o h rest, firstVal (liveTags tags) DT_GNU_HASH = some a ∧ mapAddr hs a = some o ∧
          GnuHash.wf h syms.length = true ∧ data.drop o = h.enc c.le (c.cls / 8) ++ rest) ∨
      (firstVal (liveTags tags) DT_GNU_HASH = none ∧
        ∃ a o h rest, firstVal (liveTags tags) DT_HASH = some a ∧ mapAddr hs a = some o ∧
          SysvHash.wf h syms.length = true ∧ data.drop o = h.enc c.le ++ rest)) :
    ∃ es : List Val, es.length = syms.length ∧
      (∀ i (h1 : i < syms.length) (h2 : i < es.length),
        (S c).Elf_Sym.decodeRaw elfEnv [] (.record syms[i]) = .ok es[i]) ∧
      numSymbols elfEnv (S c) data ifc d iterSegs c.le = .ok syms.length ∧
      iterSymbols elfEnv (S c) data ifc d iterSegs c.le
        = .ok ((List.range syms.length).map fun i =>
                ((strAt strtab (getNatD (syms.getD i []) "st_name")).getD [], es.getD i .none)) := by
  obtain ⟨es, Y⟩ := symView_of elfEnv c data symOff syms sb rest henc hpl
  have hnum := num_symbols_exact c data ifc d tags hs V hterm SV iterSegs syms.length hwf
  exact ⟨es, Y.len, fun i h1 h2 => (Y.dec i h1 h2).1, hnum,
    symbols_exact_partial c data ifc d tags hs V hterm SV iterSegs a symOff ha ho syms es Y tab strtab hst hserve
      hnames hnum⟩

/-- `obs`, segment side (symbols): `list(iter_symbols())` and `num_symbols()` of the image's
    `DynamicSegment` -/
structure SymObs where
  symbols : R (List (Bytes × Val))
  numSymbols : R Nat

def symObs (bytes : Bytes) : R (Option SymObs) := do
  let f ← openElf elfEnv C01.specStructs C01.specMachineClass bytes
  match ← dynamicSegment elfEnv f with
  | none => return none
  | some dy =>
    let segs := iterSegments elfEnv f.S f.data f.header f.shstr
    return some ⟨iterSymbols elfEnv f.S f.data (realIfc elfEnv f) dy segs f.le,
                 numSymbols elfEnv f.S f.data (realIfc elfEnv f) dy segs f.le⟩

/-- what must be observed (Spec/Dynamic.lean `obsSyms`; the true count) -/
def specSymObs (d : DynDesc) : SymObs := ⟨obsSyms elfEnv d, .ok d.syms.length⟩

/-- the dynamic symbols and their count of one layout, through its `DynamicSegment`, when a
    well-formed GNU or SysV hash table is present (`hashOk`); the observation is defined (every
    encodable symbol record decodes) -/
theorem seg_symbols_exact (d : DynDesc) (full : Bool) (bytes : Bytes)
    (hc : (d.container full).wf elfEnv = true) (hd : d.wf elfEnv full = true)
    (hl : DynLayout d full bytes) (hsmall : bytes.length < 2 ^ 63) (hh : hashOk d = true) :
    symObs bytes = .ok (some (specSymObs d)) ∧ ∃ ss, obsSyms elfEnv d = .ok ss ∧ ss.length = d.syms.length := by
  have F := tag_facts d.cfg
  obtain ⟨f, dy, tab, X⟩ := segSide_of sh_types (d := d) F.null F.strtab hc hd hl hsmall
  have W := dyn_wf hd
  have V : View d.cfg f.data dy d.tags := by have := X.view; rwa [X.S] at this
  obtain ⟨b, B, hpl⟩ := X.blobs
  obtain ⟨sb, hsb, hmem⟩ := B.syms
  obtain ⟨rest, hrest⟩ := hpl _ hmem
  obtain ⟨a, ha, ho⟩ := ptrOk_some W.symtab
  obtain ⟨es, Y⟩ := symView_of elfEnv d.cfg f.data d.symOff d.syms sb rest hsb hrest
  have hobs := obsSyms_eq (d := d) Y
  have hnum := num_symbols_exact d.cfg f.data (realIfc elfEnv f) dy d.tags (d.phdrs elfEnv) V W.term X.segs
    (iterSegments elfEnv f.S f.data f.header f.shstr) d.syms.length (hash_wf W hh B hpl)
  have hit := symbols_exact_partial d.cfg f.data (realIfc elfEnv f) dy d.tags (d.phdrs elfEnv) V W.term X.segs
    (iterSegments elfEnv f.S f.data f.header f.shstr) a d.symOff ha ho d.syms es Y tab d.strtab
    (by have := X.strtab; rwa [X.S] at this) X.serves (stringsOk_syms W.strings) hnum
  refine ⟨?_, _, hobs, by simp⟩
  unfold symObs
  simp only [X.opened, X.seg, bind, Except.bind, pure, Except.pure, X.S, X.le, specSymObs]
  rw [X.S] at hit hnum
  have e1 : iterSymbols elfEnv d.S f.data (realIfc elfEnv f) dy
      (iterSegments elfEnv d.S f.data f.header f.shstr) d.le = obsSyms elfEnv d := by rw [hobs]; exact hit
  have e2 : numSymbols elfEnv d.S f.data (realIfc elfEnv f) dy
      (iterSegments elfEnv d.S f.data f.header f.shstr) d.le = .ok d.syms.length := hnum
  rw [e1, e2]

/-- `get_table_offset` through the `DynamicSegment` of either layout: the pointer of the first live
    entry and the file offset the described PT_LOADs give it (Spec `obsTableOffset`), for the tags
    the reader itself follows — the same answer from the stripped and the full image -/
theorem seg_table_offsets_exact (d : DynDesc) (full : Bool) (bytes : Bytes)
    (hc : (d.container full).wf elfEnv = true) (hd : d.wf elfEnv full = true)
    (hl : DynLayout d full bytes) (hsmall : bytes.length < 2 ^ 63) :
    ∃ f dy, openElf elfEnv C01.specStructs C01.specMachineClass bytes = .ok f ∧
      dynamicSegment elfEnv f = .ok (some dy) ∧
      ∀ nc ∈ [("DT_STRTAB", DT_STRTAB), ("DT_SYMTAB", DT_SYMTAB), ("DT_HASH", DT_HASH), ("DT_GNU_HASH", DT_GNU_HASH)],
        getTableOffset elfEnv f.S f.data (realIfc elfEnv f) dy nc.1 = .ok (obsTableOffset elfEnv d nc.2) := by
  have F := tag_facts d.cfg
  obtain ⟨f, dy, tab, X⟩ := segSide_of sh_types (d := d) F.null F.strtab hc hd hl hsmall
  have W := dyn_wf hd
  have V : View d.cfg f.data dy d.tags := by have := X.view; rwa [X.S] at this
  refine ⟨f, dy, X.opened, X.seg, ?_⟩
  intro nc hnc
  have := table_offset_exact d.cfg f.data (realIfc elfEnv f) dy d.tags (d.phdrs elfEnv) V W.term X.segs nc hnc
  rw [X.S]
  rw [show getTableOffset elfEnv d.S f.data (realIfc elfEnv f) dy nc.1 = _ from this]
  unfold obsTableOffset DynDesc.live
  cases firstVal (liveTags d.tags) nc.2 <;> rfl

/-- FULL STATEMENT of the design: `WF d → obs (assembleStripped d) = obs (assembleFull d)`, for any
    two byte strings carrying the two layouts of one description.  `DynDesc.WF`: the dynamic
    information is well formed in both layouts and both containers are well-formed ELF descriptions
    in the sense of C01.  The `DynamicSegment` of the image without section headers, the
    `DynamicSegment` of the image with them and its `DynamicSection` (whether the `.dynamic` section
    sits at the segment's offset or elsewhere) report the same entries, strings and count — the
    ones the description holds — and, when a well-formed hash table is present, the same dynamic
    symbols and symbol count.  The container accessors of `ELFFile` are no longer assumed: they
    are C01's theorems (`open_exact`, `counts_exact`, `get_section_exact`, `segments_exact`)
    applied to `DynDesc.container`. -/
theorem segment_view_eq_section_view (d : DynDesc) (imgF imgS : Bytes) (hwf : d.WF elfEnv = true)
    (hF : DynLayout d true imgF) (hS : DynLayout d false imgS)
    (hsF : imgF.length < 2 ^ 63) (hsS : imgS.length < 2 ^ 63) :
    segObs imgS = secObs imgF ∧ segObs imgS = segObs imgF ∧
    secObs imgF = .ok (some (specTagObs d)) ∧ secObs imgS = .ok none ∧
    (hashOk d = true → symObs imgS = symObs imgF ∧ symObs imgF = .ok (some (specSymObs d))) := by
  unfold DynDesc.WF at hwf
  simp only [Bool.and_eq_true] at hwf
  obtain ⟨⟨⟨hdT, hdF⟩, hcT⟩, hcF⟩ := hwf
  have h1 := seg_tags_exact d false imgS hcF hdF hS hsS
  have h2 := seg_tags_exact d true imgF hcT hdT hF hsF
  have h3 := sec_tags_exact d imgF hcT hdT hF hsF
  refine ⟨h1.trans h3.symm, h1.trans h2.symm, h3, sec_stripped_none d imgS hcF hdF hS, ?_⟩
  intro hh
  have s1 := (seg_symbols_exact d false imgS hcF hdF hS hsS hh).1
  have s2 := (seg_symbols_exact d true imgF hcT hdT hF hsF hh).1
  exact ⟨s1.trans s2.symm, s2⟩

/-- the same for the images the assembler produces -/
theorem segment_view_eq_section_view_assembled (d : DynDesc) (imgF imgS : Bytes) (hwf : d.WF elfEnv = true)
    (hF : d.assemble true = some imgF) (hS : d.assemble false = some imgS)
    (hsF : imgF.length < 2 ^ 63) (hsS : imgS.length < 2 ^ 63) :
    segObs imgS = secObs imgF ∧ segObs imgS = segObs imgF ∧
    secObs imgF = .ok (some (specTagObs d)) ∧ secObs imgS = .ok none ∧
    (hashOk d = true → symObs imgS = symObs imgF ∧ symObs imgF = .ok (some (specSymObs d))) := by
  have hwf' := hwf
  unfold DynDesc.WF at hwf'
  simp only [Bool.and_eq_true] at hwf'
  exact segment_view_eq_section_view d imgF imgS hwf (assemble_dynLayout hwf'.1.1.1 hF)
    (assemble_dynLayout hwf'.1.1.2 hS) hsF hsS

/-! ### non-vacuity -/

example : hasTerminator [(DT_NEEDED, 1), (DT_STRTAB, 0x1000), (DT_NULL, 0), (DT_NEEDED, 99)] = true := by decide
example : liveTags [(DT_NEEDED, 1), (DT_NEEDED, 1), (DT_NULL, 0), (DT_NEEDED, 99), (DT_NULL, 0)]
    = [(DT_NEEDED, 1), (DT_NEEDED, 1), (DT_NULL, 0)] := by decide
example : strAt [0, 0x6c, 0x69, 0x62, 0x63, 0] 1 = some [0x6c, 0x69, 0x62, 0x63] := by decide
example : (SysvHash.mk [1, 0] [0, 0, 1]).wf 3 = true := by decide
example : (GnuHash.mk 1 [0xdeadbeef] 6 [[0x7c92e3bb, 0x0b887389], [], [0x10]]).wf 4 = true := by decide
example : bucketStarts 1 [[0x7c92e3bb, 0x0b887389], [], [0x10]] = [1, 0, 3] := by decide
example : chainWords [0x7c92e3bb, 0x0b887389] = [0x7c92e3ba, 0x0b887389] := by decide
example : mapAddr [.record [("p_type", .str "PT_LOAD"), ("p_offset", .int 0x200), ("p_vaddr", .int 0), ("p_filesz", .int 0x80)]] 0
    = some 0x200 := by decide


/-- a concrete object satisfying `View`: a 64-bit LSB table NEEDED, STRTAB, NULL, (trailing) NEEDED
    stored 3 bytes into a byte string and followed by 2 more bytes -/
def exCfg : ElfCfg := ⟨true, 64, "default", false, false⟩
def exTags : List (Int × Nat) := [(DT_NEEDED, 1), (DT_STRTAB, 0x1000), (DT_NULL, 0), (DT_NEEDED, 99)]
def w8 (n : Nat) : Bytes := [UInt8.ofNat n, 0, 0, 0, 0, 0, 0, 0]
def exTable : Bytes := w8 1 ++ w8 1 ++ w8 5 ++ [0, 0x10, 0, 0, 0, 0, 0, 0] ++ w8 0 ++ w8 0 ++ w8 1 ++ w8 99
def exData : Bytes := [1, 2, 3] ++ exTable ++ [4, 5]

theorem exTable_enc : encAll (dynCon true 8 (tbl exCfg)) (exTags.map rawTag) = some exTable := by
  simp [encAll, exTags, rawTag, dynCon, st, mkFields, f, enumOf, Con.encodeRaw, ConFields.encodeRaw, Fields.get?,
    DT_NEEDED, DT_STRTAB, DT_NULL, bind, Option.bind, pure]
  decide

example : View exCfg exData ⟨none, 3, false, 16⟩ exTags where
  con := rfl
  wpos := by decide
  nonempty := rfl
  tagsize := rfl
  placed := ⟨exTable, [4, 5], exTable_enc, by decide⟩
  small := by decide

example : hasTerminator exTags = true ∧ liveTags exTags = [(DT_NEEDED, 1), (DT_STRTAB, 0x1000), (DT_NULL, 0)] := by decide

/-- a concrete file object satisfying `SegsView` -/
def exPhdr : Val := .record [("p_type", .str "PT_LOAD"), ("p_offset", .int 0x200), ("p_vaddr", .int 0x1000), ("p_filesz", .int 0x80)]
example : SegsView ⟨.ok 1, fun _ => .ok ("Segment", exPhdr), fun _ => .ok none⟩ [exPhdr] where
  num := rfl
  get := fun i hi => ⟨"Segment", by
    have : i = 0 := by simpa using hi
    subst this; rfl⟩
  ok := fun h hh => by
    have : h = exPhdr := by simpa using hh
    subst this
    exact ⟨.str "PT_LOAD", 0x1000, 0x80, 0x200, rfl, rfl, rfl, rfl⟩

example : mapAddr [exPhdr] 0x1000 = some 0x200 := by decide

/-- a concrete stored symbol table satisfying `SymView`: two 64-bit LSB records (`st_name` 0 and 6,
    GLOBAL FUNC, value 0x1000, size 8) stored 2 bytes into a byte string and followed by one more byte -/
def exSym (name : Nat) : Fields :=
  [("st_name", .int name), ("st_info", .record [("bind", .int 1), ("type", .int 2)]),
   ("st_other", .record [("local", .int 0), ("visibility", .int 0)]), ("st_shndx", .int 0),
   ("st_value", .int 0x1000), ("st_size", .int 8)]

def exSymBytes : Bytes :=
  [0, 0, 0, 0, 0x12, 0, 0, 0, 0, 0x10, 0, 0, 0, 0, 0, 0, 8, 0, 0, 0, 0, 0, 0, 0,
   6, 0, 0, 0, 0x12, 0, 0, 0, 0, 0x10, 0, 0, 0, 0, 0, 0, 8, 0, 0, 0, 0, 0, 0, 0]

theorem exSym_enc : encAll (S exCfg).Elf_Sym ([exSym 0, exSym 6].map .record) = some exSymBytes := by
  simp [encAll, exSym, exCfg, S, elfStructs, st, mkFields, f, enumOf, Con.encodeRaw, ConFields.encodeRaw, Fields.get?,
    packBits, bind, Option.bind, pure]
  decide

example : ∃ es, SymView elfEnv (S exCfg) ([9, 9] ++ exSymBytes ++ [7]) 2 [exSym 0, exSym 6] es :=
  symView_of elfEnv exCfg _ 2 _ exSymBytes [7] exSym_enc (by decide)

def exHashD : DynDesc :=
  { cls := 64, le := true, mclass := "default", solaris := false, ehdr := [], tags := [], dynOff := 0,
    strtab := [], strOff := 0, syms := [exSym 0, exSym 6], symOff := 0, sysv := some (⟨[0], [0, 0]⟩, 0),
    segments := [], phoff := 0, shoff := 0, phentsize := 0, shentsize := 0 }
example : hashOk exHashD = true := by decide

/- Non-vacuity of `DynDesc.WF` (hypothesis of `segment_view_eq_section_view`): `DynLayout` is inhabited
   by the assembler's output (`assemble_dynLayout`); `DynDesc.WF` itself is evaluated by the driver on
   every generated description (`wf` ∧ `wf_c01` of Driver/C09.lean; the harness counts the cases in
   the theorem's domain as `…:WF-theorem-domain`).  A kernel-checked `example` is not available:
   `Con.encodeRaw` / `Con.decodeRaw` are compiled by well-founded recursion and do not reduce in the
   kernel, and a `simp`-evaluated instance of `ElfDesc.wf` was not attempted. -/

end PyElf.Props.C09
