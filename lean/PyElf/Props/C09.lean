/-
  C09 — dynamic linking information is exact, with or without section headers.

  Property theorems only.  `Dyn` is the model of a `DynamicSection` /
  `DynamicSegment` object (Model/Dynamic.lean); `TableView … d … tags` says the
  object looks at a stored table holding `tags` (terminator and whatever follows
  it included), anywhere in any byte string; `SegsView ifc hs` says the file
  object hands out the program headers `hs` (the C01 guarantee for the
  container; in the stripped image there is nothing else to rely on).

  Full statement of the design:
      segment_view_eq_section_view : WF d → obs (model (assembleStripped d)) = obs (model (assembleFull d))
  is proved below (`segment_view_eq_section_view`, `…_assembled`): the two layouts of a `DynDesc`
  are `Spec.ElfDesc`s (`DynDesc.container`, the very description whose regions `DynDesc.assemble`
  lays out), and the container accessors of `ELFFile` (`get_segment`, `get_section`, the
  constructors' section search) are C01's theorems applied to them (Proofs/DynamicImage.lean).
  The earlier statement with those accessors as hypotheses (`TableView` / `SegsView` /
  `d.strtab = …`) is kept as `segment_view_eq_section_view_partial`.

  Fifth wave (second half of this file):
    proved   `by_name_exact`, `seg_by_name_exact`, `by_name_of_enumeration`, `by_name_meaning`
               — `get_symbol_by_name`: duplicates in index order, absent names, both layouts;
             `seg_tags_exact_routes`, `stringtable_by_name` — the string table through the section
               called `.dynstr` when DT_STRTAB is absent or maps nowhere (third route of
               `_get_stringtable`); `DynDesc.wf` is split into the parts each theorem uses
               (`wfBase`, `wfTags`, `wfSyms`, `wfHash`; Spec/DynamicExt.lean);
             `num_symbols_fallback` (exact model of the no-hash count), `…_exact_iff` (the precise
               condition `FallbackExact`), `…_counterexample` (DT_STRSZ between DT_SYMTAB and
               DT_STRTAB: 0 symbols counted where 2 are stored), `seg_num_symbols_fallback`,
               `seg_symbols_exact_fallback`, `seg_num_symbols_fallback_inexact` (whole file);
             `stringtable_none`, `tags_without_stringtable`, `symbols_without_stringtable`,
               `seg_tags_no_strtab` (ELFError / AttributeError), `symbol_table_unmapped`,
               `seg_symbols_unmapped` (ELFError), `num_symbols_syment_mismatch` (ELFError, fallback
               path only), `tags_truncated`, `seg_tags_truncated` (ELFParseError after every
               stored entry).  DT_STRSZ is never read: every theorem here quantifies over all tag
               lists, with or without it.
    correspondence only (model == library on generated inputs, no theorem):
             `get_relocation_tables` and the relocation entries (REL / RELA / RELR / JMPREL);
             the `DynamicSection` view of a table without DT_NULL (`sec_tags_exact_base` covers
               every terminated table, with or without a usable DT_STRTAB);
             symbol names that are not valid UTF-8 (lookup is keyed on decoded text);
             the GNU-hash count on malformed hash tables; caches across calls (C10's subject);
             a table without DT_NULL that is followed by further bytes (what is read then is
               whatever follows — outside the quantifier).
-/
import PyElf.Spec.Dynamic
import PyElf.Model.Dynamic
import PyElf.Proofs.Dynamic
import PyElf.Proofs.DynamicGnu
import PyElf.Proofs.DynamicImage
import PyElf.Proofs.DynamicSym
import PyElf.Spec.DynamicExt
import PyElf.Proofs.DynamicByName
import PyElf.Proofs.DynamicFallback
import PyElf.Proofs.DynamicRoutes
import PyElf.Proofs.DynamicErrors
import PyElf.Proofs.DynamicTrunc
import PyElf.Props.TieC09
import PyElf.Model.DynCache
import PyElf.Proofs.SigCache
import PyElf.Props.TieC09Ext
import PyElf.Props.TieC09Sh
import PyElf.Props.C09Examples
import PyElf.Props.C01
namespace PyElf.Props.C09
open PyElf PyElf.Spec PyElf.Spec.Dynamic PyElf.Model PyElf.Model.Dynamic PyElf.Proofs.Dynamic PyElf.Props.TieC09

/-! ### the configuration: structures and tag table the library builds (tied in TieC09) -/

abbrev S (c : ElfCfg) : ElfStructs := elfStructs c
abbrev tbl (c : ElfCfg) : String := dTagTable c.mclass c.solaris
abbrev sunw (c : ElfCfg) : Bool := usesSunw c.mclass c.solaris
/-- "the object looks at a stored table of `tags`" for configuration `c` -/
abbrev View (c : ElfCfg) (data : Bytes) (d : Dyn) (tags : List (Int × Nat)) : Prop :=
  TableView (S c) data d c.le (c.cls / 8) (tbl c) tags

/-- every tag table the library can build (common, +MIPS, +AArch64, +Solaris) names exactly the
    gABI codes DT_NULL / DT_STRTAB / DT_SYMTAB / DT_HASH / DT_GNU_HASH and handles exactly the
    string-valued tags -/
theorem tag_facts (c : ElfCfg) : TagFacts (tbl c) (sunw c) := by
  unfold tbl sunw
  by_cases h1 : c.mclass = "EM_MIPS"
  · rw [h1]; exact tags_mips
  by_cases h2 : c.mclass = "EM_MIPS_RS3_LE"
  · rw [h2]; exact tags_mips
  by_cases h3 : c.mclass = "EM_AARCH64"
  · rw [h3]; exact tags_aarch64
  have e1 : dTagTable c.mclass c.solaris = if c.solaris then "ENUM_D_TAG_COMMON+ENUM_D_TAG_SOLARIS" else "ENUM_D_TAG_COMMON" := by
    unfold dTagTable; split <;> simp_all
  have e2 : usesSunw c.mclass c.solaris = c.solaris := by
    unfold usesSunw; split <;> simp_all
  rw [e1, e2]
  cases c.solaris
  · exact tags_common
  · exact tags_solaris

/-! ### the entries: up to and including the terminator -/

/-- entries after the first DT_NULL are not part of the table -/
theorem live_ignores_trailing (pre post : List (Int × Nat)) (v : Nat) (h : ∀ t ∈ pre, t.1 ≠ DT_NULL) :
    liveTags (pre ++ (DT_NULL, v) :: post) = pre ++ [(DT_NULL, v)] := by
  induction pre with
  | nil => simp [liveTags]
  | cons t pre ih =>
    have ht : t.1 ≠ DT_NULL := h t (by simp)
    simp only [List.cons_append, liveTags, ht, if_false]
    rw [ih (fun x hx => h x (by simp [hx]))]

/-- `iter_tags()` / `num_tags()`: exactly the entries up to and including the first DT_NULL — tag
    named through the configuration's tag table (number kept when unnamed), value, pointer — each
    string-valued one (needed, soname, rpath, runpath; Solaris filter) with the string its value
    names in the string table `tab` serves; duplicates stay, what follows the terminator is ignored -/
theorem tags_exact (c : ElfCfg) (data : Bytes) (ifc : FileIfc) (d : Dyn) (tags : List (Int × Nat))
    (strtab : Bytes) (tab : StrTab)
    (V : View c data d tags) (hterm : hasTerminator tags = true)
    (hst : getStringtable elfEnv (S c) data ifc d = .ok (some tab)) (hserve : Serves data tab strtab)
    (hstr : StringsOk (sunw c) strtab (liveTags tags)) :
    iterTags elfEnv (S c) data ifc d none = .ok ((liveTags tags).map (obsEntry elfEnv (tbl c) (sunw c) strtab)) ∧
    numTags elfEnv (S c) data ifc d = .ok (liveTags tags).length :=
  let F := tag_facts c
  ⟨iterTags_view V F.null hterm hst F.attr hserve hstr, numTags_view V F.null hterm hst F.attr hserve hstr⟩

/-! ### the string table: section link, or string-table pointer -/

/-- an object constructed with a string table (the section `sh_link` names) uses it -/
theorem stringtable_by_link (c : ElfCfg) (data : Bytes) (ifc : FileIfc) (d : Dyn) (tab : StrTab)
    (h : d.strtab = some tab) : getStringtable elfEnv (S c) data ifc d = .ok (some tab) :=
  getStringtable_given h

/-- an object constructed without one (no section headers, or no `.dynamic` section at the
    segment's offset) uses the table the first live DT_STRTAB designates through the PT_LOADs -/
theorem stringtable_by_pointer (c : ElfCfg) (data : Bytes) (ifc : FileIfc) (d : Dyn) (tags : List (Int × Nat))
    (hs : List Val) (V : View c data d tags) (hterm : hasTerminator tags = true) (SV : SegsView ifc hs)
    (hnone : d.strtab = none) (a o : Nat)
    (ha : firstVal (liveTags tags) DT_STRTAB = some a) (ho : mapAddr hs a = some o) :
    getStringtable elfEnv (S c) data ifc d = .ok (some (.dynamic o)) :=
  getStringtable_pointer V (tag_facts c).null hterm SV (tag_facts c).strtab hnone ha ho

/-- a string table section whose contents sit at its `sh_offset` serves its strings -/
theorem strings_resolved_section (data strtab rest : Bytes) (hdr : Val) (toff : Nat)
    (hoff : hdr.getNat "sh_offset" = .ok toff) (hd : data.drop toff = strtab ++ rest)
    (hsmall : data.length < 2 ^ 63) :
    Serves data (.section "StringTableSection" hdr) strtab :=
  fun _ _ hs => getString_section hoff hd hs hsmall

/-- so does the bare table at the file offset the pointer maps to -/
theorem strings_resolved_pointer (data strtab rest : Bytes) (toff : Nat)
    (hd : data.drop toff = strtab ++ rest) (hsmall : data.length < 2 ^ 63) :
    Serves data (.dynamic toff) strtab :=
  fun _ _ hs => getString_dynamic hd hs hsmall

/-- `get_table_offset(name)`: value of the first live entry of that tag, and the file offset the
    PT_LOAD segments give it (stated for the tags the reader itself follows) -/
theorem table_offset_exact (c : ElfCfg) (data : Bytes) (ifc : FileIfc) (d : Dyn) (tags : List (Int × Nat))
    (hs : List Val) (V : View c data d tags) (hterm : hasTerminator tags = true) (SV : SegsView ifc hs) :
    (∀ nc ∈ [("DT_STRTAB", DT_STRTAB), ("DT_SYMTAB", DT_SYMTAB), ("DT_HASH", DT_HASH), ("DT_GNU_HASH", DT_GNU_HASH)],
      getTableOffset elfEnv (S c) data ifc d nc.1
        = .ok (firstVal (liveTags tags) nc.2, (firstVal (liveTags tags) nc.2).bind (mapAddr hs))) := by
  have F := tag_facts c
  intro nc hnc
  simp only [List.mem_cons, List.not_mem_nil, or_false] at hnc
  rcases hnc with h | h | h | h <;> subst h
  · exact getTableOffset_view V F.null hterm SV _ _ F.strtab
  · exact getTableOffset_view V F.null hterm SV _ _ F.symtab
  · exact getTableOffset_view V F.null hterm SV _ _ F.hash
  · exact getTableOffset_view V F.null hterm SV _ _ F.gnuHash

/-! ### the segment view equals the section view -/

/-- PARTIAL (container accessors as hypotheses, see the header).  The `DynamicSection` of an image
    with section headers (`dF`: string table = the linked section, contents at its `sh_offset`) and
    the `DynamicSegment` of an image without them, or whose `.dynamic` section sits elsewhere
    (`dS`: no string table given; DT_STRTAB mapped by the PT_LOADs `hs` to where the same string
    table is stored) report the same entries, the same strings and the same count.  `dataF` and
    `dataS` may be the same image or two different layouts of one description. -/
theorem segment_view_eq_section_view_partial (c : ElfCfg) (tags : List (Int × Nat)) (strtab : Bytes)
    (hterm : hasTerminator tags = true) (hstr : StringsOk (sunw c) strtab (liveTags tags))
    -- section view
    (dataF : Bytes) (ifcF : FileIfc) (dF : Dyn) (VF : View c dataF dF tags)
    (hdr : Val) (offF : Nat) (restF : Bytes) (hlink : dF.strtab = some (.section "StringTableSection" hdr))
    (hoff : hdr.getNat "sh_offset" = .ok offF) (hplF : dataF.drop offF = strtab ++ restF)
    -- segment view
    (dataS : Bytes) (ifcS : FileIfc) (dS : Dyn) (VS : View c dataS dS tags)
    (hs : List Val) (SV : SegsView ifcS hs) (hnone : dS.strtab = none)
    (a offS : Nat) (restS : Bytes) (ha : firstVal (liveTags tags) DT_STRTAB = some a) (ho : mapAddr hs a = some offS)
    (hplS : dataS.drop offS = strtab ++ restS) :
    iterTags elfEnv (S c) dataS ifcS dS none = iterTags elfEnv (S c) dataF ifcF dF none ∧
    numTags elfEnv (S c) dataS ifcS dS = numTags elfEnv (S c) dataF ifcF dF := by
  have eF := tags_exact c dataF ifcF dF tags strtab _ VF hterm (stringtable_by_link c dataF ifcF dF _ hlink)
    (strings_resolved_section dataF strtab restF hdr offF hoff hplF VF.small) hstr
  have eS := tags_exact c dataS ifcS dS tags strtab _ VS hterm
    (stringtable_by_pointer c dataS ifcS dS tags hs VS hterm SV hnone a offS ha ho)
    (strings_resolved_pointer dataS strtab restS offS hplS VS.small) hstr
  exact ⟨eS.1.trans eF.1.symm, eS.2.trans eF.2.symm⟩

/-! ### the full statement: two layouts of one description -/

/-- what the property observes through a dynamic object: `list(iter_tags())` (entries with their
    strings) and `num_tags()` -/
structure TagObs where
  tags : R (List DTag)
  numTags : R Nat

def tagObs (f : ElfFile) (dy : Dyn) : TagObs :=
  ⟨iterTags elfEnv f.S f.data (realIfc elfEnv f) dy none, numTags elfEnv f.S f.data (realIfc elfEnv f) dy⟩

/-- `obs`, section side: open the image, take its first `DynamicSection` (none in a stripped image) -/
def secObs (bytes : Bytes) : R (Option TagObs) := do
  let f ← openElf elfEnv C01.specStructs C01.specMachineClass bytes
  match ← dynamicSection elfEnv f with
  | none => return none
  | some dy => return some (tagObs f dy)

/-- `obs`, segment side (tags): open the image, take its first `DynamicSegment` -/
def segObs (bytes : Bytes) : R (Option TagObs) := do
  let f ← openElf elfEnv C01.specStructs C01.specMachineClass bytes
  match ← dynamicSegment elfEnv f with
  | none => return none
  | some dy => return some (tagObs f dy)

/-- what must be observed (Spec/Dynamic.lean `obsTags`, `DynDesc.live`) -/
def specTagObs (d : DynDesc) : TagObs :=
  ⟨.ok (d.live.map (obsEntry elfEnv (tbl d.cfg) (sunw d.cfg) d.strtab)), .ok d.live.length⟩

/-- `specTagObs` is the Spec's `obsTags` (the `expect` of the correspondence check) -/
theorem specTagObs_eq (d : DynDesc) :
    obsTags elfEnv d = (specTagObs d).tags.map (·.map fun t => (t.entry, t.attr)) := by
  unfold obsTags specTagObs
  simp only [Except.map]
  have : ∀ l : List (Int × Nat), l.mapM (obsTag elfEnv d)
      = .ok ((l.map (obsEntry elfEnv (tbl d.cfg) (sunw d.cfg) d.strtab)).map fun t => (t.entry, t.attr)) := by
    intro l
    induction l with
    | nil => rfl
    | cons t l ih =>
      have h1 : obsTag elfEnv d t = .ok ((obsEntry elfEnv (tbl d.cfg) (sunw d.cfg) d.strtab t).entry,
          (obsEntry elfEnv (tbl d.cfg) (sunw d.cfg) d.strtab t).attr) := by
        unfold obsTag
        have : d.S.Elf_Dyn = dynCon d.le d.w (tbl d.cfg) := spec_dyn d.cfg
        rw [this, decodeRaw_dyn]
        simp only [bind, Except.bind, obsEntry]
        have hs : d.sunw = sunw d.cfg := rfl
        rw [hs]
        cases stringAttr (sunw d.cfg) t.1 <;> rfl
      simp [List.mapM_cons, h1, ih, bind, Except.bind, pure, Except.pure]
  exact this d.live

/-- the tags and strings of one layout, through its `DynamicSegment` -/
theorem seg_tags_exact (d : DynDesc) (full : Bool) (bytes : Bytes)
    (hc : (d.container full).wf elfEnv = true) (hd : d.wf elfEnv full = true)
    (hl : DynLayout d full bytes) (hsmall : bytes.length < 2 ^ 63) :
    segObs bytes = .ok (some (specTagObs d)) := by
  have F := tag_facts d.cfg
  obtain ⟨f, dy, tab, X⟩ := segSide_of sh_types (d := d) F.null F.strtab hc hd hl hsmall
  have W := dyn_wf hd
  have V : View d.cfg f.data dy d.tags := by have := X.view; rwa [X.S] at this
  have e := tags_exact d.cfg f.data (realIfc elfEnv f) dy d.tags d.strtab tab V W.term
    (by have := X.strtab; rwa [X.S] at this) X.serves (stringsOk_tags W.strings)
  unfold segObs
  simp only [X.opened, X.seg, bind, Except.bind, pure, Except.pure, tagObs, X.S]
  have e1 : iterTags elfEnv d.S f.data (realIfc elfEnv f) dy none = _ := e.1
  have e2 : numTags elfEnv d.S f.data (realIfc elfEnv f) dy = _ := e.2
  rw [e1, e2]
  rfl

/-- the tags and strings of the full layout, through its `DynamicSection`; a stripped image has none -/
theorem sec_tags_exact (d : DynDesc) (bytes : Bytes)
    (hc : (d.container true).wf elfEnv = true) (hd : d.wf elfEnv true = true)
    (hl : DynLayout d true bytes) (hsmall : bytes.length < 2 ^ 63) :
    secObs bytes = .ok (some (specTagObs d)) := by
  have F := tag_facts d.cfg
  obtain ⟨f, dy0, tab0, X⟩ := segSide_of sh_types (d := d) F.null F.strtab hc hd hl hsmall
  obtain ⟨dy, tab, Y⟩ := secSide_of sh_types hc hd hl hsmall f X.opened
  have W := dyn_wf hd
  have V : View d.cfg f.data dy d.tags := by have := Y.view; rwa [X.S] at this
  have e := tags_exact d.cfg f.data (realIfc elfEnv f) dy d.tags d.strtab tab V W.term
    (by have := Y.strtab; rwa [X.S] at this) Y.serves (stringsOk_tags W.strings)
  unfold secObs
  simp only [X.opened, Y.sec, bind, Except.bind, pure, Except.pure, tagObs, X.S]
  have e1 : iterTags elfEnv d.S f.data (realIfc elfEnv f) dy none = _ := e.1
  have e2 : numTags elfEnv d.S f.data (realIfc elfEnv f) dy = _ := e.2
  rw [e1, e2]
  rfl

theorem sec_stripped_none (d : DynDesc) (bytes : Bytes)
    (hc : (d.container false).wf elfEnv = true) (hd : d.wf elfEnv false = true)
    (hl : DynLayout d false bytes) :
    secObs bytes = .ok none := by
  have W := dyn_wf hd
  obtain ⟨f, hopen, FF⟩ := file_facts hc (layout_container hl) (segs_decode W.phlen)
  unfold secObs
  simp [hopen, dynamicSection_stripped FF, bind, Except.bind, pure, Except.pure]

/-! ### dynamic symbols -/

/-- with a SysV hash table (and no GNU one) the recovered count is the true count: gABI `nchain` =
    number of symbol table entries (`SysvHash.wf`) -/
theorem num_symbols_exact_sysv (c : ElfCfg) (data : Bytes) (ifc : FileIfc) (d : Dyn) (tags : List (Int × Nat))
    (hs : List Val) (V : View c data d tags) (hterm : hasTerminator tags = true) (SV : SegsView ifc hs)
    (iterSegs : R (List (String × Val)))
    (hnog : firstVal (liveTags tags) DT_GNU_HASH = none)
    (a o : Nat) (ha : firstVal (liveTags tags) DT_HASH = some a) (ho : mapAddr hs a = some o)
    (h : SysvHash) (nsyms : Nat) (hwf : h.wf nsyms = true) (rest : Bytes) (hd : data.drop o = h.enc c.le ++ rest) :
    numSymbols elfEnv (S c) data ifc d iterSegs c.le = .ok nsyms := by
  have F := tag_facts c
  simp only [SysvHash.wf, Bool.and_eq_true, decide_eq_true_eq] at hwf
  obtain ⟨⟨⟨⟨h1, h2⟩, h3⟩, _⟩, _⟩ := hwf
  obtain ⟨sz, hsz⟩ : ∃ sz, (S c).Elf_Sym.sizeof = some sz := by
    unfold S elfStructs
    by_cases h32 : c.cls = 32 <;> simp [h32, st, mkFields, f, enumOf, Con.sizeof, ConFields.sizeof, bind, Option.bind]
  have := numSymbols_sysv (env := elfEnv) (iterSegs := iterSegs) V F.null hterm SV F.gnuHash F.hash hsz hnog ha ho
    (spec_hash c) h h3 (by omega) hd
  rw [this, h1]

theorem sym_sizeof (c : ElfCfg) : ∃ sz, (S c).Elf_Sym.sizeof = some sz := by
  unfold S elfStructs
  by_cases h32 : c.cls = 32 <;> simp [h32, st, mkFields, f, enumOf, Con.sizeof, ConFields.sizeof, bind, Option.bind]

/-- with a GNU hash table the recovered count is the true count: highest bucket, then its chain to
    the entry with bit 0 set (`GnuHash.wf`: symbols from `symoffset` on are all hashed, grouped by
    bucket; at least one bucket; `symoffset ≥ 1`).  A SysV table that is also present is not consulted. -/
theorem num_symbols_exact_gnu (c : ElfCfg) (data : Bytes) (ifc : FileIfc) (d : Dyn) (tags : List (Int × Nat))
    (hs : List Val) (V : View c data d tags) (hterm : hasTerminator tags = true) (SV : SegsView ifc hs)
    (iterSegs : R (List (String × Val)))
    (a o : Nat) (ha : firstVal (liveTags tags) DT_GNU_HASH = some a) (ho : mapAddr hs a = some o)
    (h : GnuHash) (nsyms : Nat) (hwf : h.wf nsyms = true) (rest : Bytes)
    (hd : data.drop o = h.enc c.le (c.cls / 8) ++ rest) :
    numSymbols elfEnv (S c) data ifc d iterSegs c.le = .ok nsyms := by
  have F := tag_facts c
  obtain ⟨sz, hsz⟩ := sym_sizeof c
  exact numSymbols_gnu (env := elfEnv) (iterSegs := iterSegs) V F.null hterm SV F.gnuHash hsz ha ho
    (spec_gnu c) rfl rfl h nsyms hwf hd

/-- `num_symbols_exact` of the design: under `WFGnu ∨ WFSysV` (each table, where its tag is live,
    stored where the tag points and well formed) the recovered count is the true count -/
theorem num_symbols_exact (c : ElfCfg) (data : Bytes) (ifc : FileIfc) (d : Dyn) (tags : List (Int × Nat))
    (hs : List Val) (V : View c data d tags) (hterm : hasTerminator tags = true) (SV : SegsView ifc hs)
    (iterSegs : R (List (String × Val))) (nsyms : Nat)
    (hwf :
      (∃ a o h rest, firstVal (liveTags tags) DT_GNU_HASH = some a ∧ mapAddr hs a = some o ∧
          GnuHash.wf h nsyms = true ∧ data.drop o = h.enc c.le (c.cls / 8) ++ rest) ∨
      (firstVal (liveTags tags) DT_GNU_HASH = none ∧
        ∃ a o h rest, firstVal (liveTags tags) DT_HASH = some a ∧ mapAddr hs a = some o ∧
          SysvHash.wf h nsyms = true ∧ data.drop o = h.enc c.le ++ rest)) :
    numSymbols elfEnv (S c) data ifc d iterSegs c.le = .ok nsyms := by
  rcases hwf with ⟨a, o, h, rest, ha, ho, hw, hd⟩ | ⟨hnog, a, o, h, rest, ha, ho, hw, hd⟩
  · exact num_symbols_exact_gnu c data ifc d tags hs V hterm SV iterSegs a o ha ho h nsyms hw rest hd
  · exact num_symbols_exact_sysv c data ifc d tags hs V hterm SV iterSegs hnog a o ha ho h nsyms hw rest hd

/-- the symbols the segment view enumerates are the stored ones, each named through the string
    table; PARTIAL in that the count (`hnum`) and the decoding of the stored records (`SymView.dec`)
    are hypotheses.  `symbols_exact` below discharges both. -/
theorem symbols_exact_partial (c : ElfCfg) (data : Bytes) (ifc : FileIfc) (d : Dyn) (tags : List (Int × Nat))
    (hs : List Val) (V : View c data d tags) (hterm : hasTerminator tags = true) (SV : SegsView ifc hs)
    (iterSegs : R (List (String × Val)))
    (a symOff : Nat) (ha : firstVal (liveTags tags) DT_SYMTAB = some a) (ho : mapAddr hs a = some symOff)
    (syms : List Fields) (es : List Val) (Y : SymView elfEnv (S c) data symOff syms es)
    (tab : StrTab) (strtab : Bytes) (hst : getStringtable elfEnv (S c) data ifc d = .ok (some tab))
    (hserve : Serves data tab strtab)
    (hnames : ∀ s ∈ syms, (strAt strtab (getNatD s "st_name")).isSome)
    (hnum : numSymbols elfEnv (S c) data ifc d iterSegs c.le = .ok syms.length) :
    iterSymbols elfEnv (S c) data ifc d iterSegs c.le
      = .ok ((List.range syms.length).map fun i =>
              ((strAt strtab (getNatD (syms.getD i []) "st_name")).getD [], es.getD i .none)) := by
  have F := tag_facts c
  apply iterSymbols_of_count hnum
  intro i hi
  have h2 : i < es.length := by rw [Y.len]; exact hi
  have := getSymbol_view V F.null hterm SV F.symtab ha ho Y hst hserve i hi h2 (hnames _ (List.getElem_mem hi))
  rw [this]
  simp [List.getD, List.getElem?_eq_getElem hi, List.getElem?_eq_getElem h2]

/-- FULL.  The symbol table (raw records `syms`, encodable) stored where DT_SYMTAB points, a hash
    table as in `num_symbols_exact` stored where its tag points: `iter_symbols()` yields exactly
    `syms.length` symbols, the `i`-th being the decoding `es[i]` of `syms[i]` named by the string its
    `st_name` designates.  Neither the count nor the decoding of `st_name` is assumed. -/
theorem symbols_exact (c : ElfCfg) (data : Bytes) (ifc : FileIfc) (d : Dyn) (tags : List (Int × Nat))
    (hs : List Val) (V : View c data d tags) (hterm : hasTerminator tags = true) (SV : SegsView ifc hs)
    (iterSegs : R (List (String × Val)))
    (a symOff : Nat) (ha : firstVal (liveTags tags) DT_SYMTAB = some a) (ho : mapAddr hs a = some symOff)
    (syms : List Fields) (sb rest : Bytes)
    (henc : encAll (S c).Elf_Sym (syms.map .record) = some sb) (hpl : data.drop symOff = sb ++ rest)
    (tab : StrTab) (strtab : Bytes) (hst : getStringtable elfEnv (S c) data ifc d = .ok (some tab))
    (hserve : Serves data tab strtab)
    (hnames : ∀ s ∈ syms, (strAt strtab (getNatD s "st_name")).isSome)
    (hwf :
      (∃ a o h rest, firstVal (liveTags tags) DT_GNU_HASH = some a ∧ mapAddr hs a = some o ∧
          GnuHash.wf h syms.length = true ∧ data.drop o = h.enc c.le (c.cls / 8) ++ rest) ∨
      (firstVal (liveTags tags) DT_GNU_HASH = none ∧
        ∃ a o h rest, firstVal (liveTags tags) DT_HASH = some a ∧ mapAddr hs a = some o ∧
          SysvHash.wf h syms.length = true ∧ data.drop o = h.enc c.le ++ rest)) :
    ∃ es : List Val, es.length = syms.length ∧
      (∀ i (h1 : i < syms.length) (h2 : i < es.length),
        (S c).Elf_Sym.decodeRaw elfEnv [] (.record syms[i]) = .ok es[i]) ∧
      numSymbols elfEnv (S c) data ifc d iterSegs c.le = .ok syms.length ∧
      iterSymbols elfEnv (S c) data ifc d iterSegs c.le
        = .ok ((List.range syms.length).map fun i =>
                ((strAt strtab (getNatD (syms.getD i []) "st_name")).getD [], es.getD i .none)) := by
  obtain ⟨es, Y⟩ := symView_of elfEnv c data symOff syms sb rest henc hpl
  have hnum := num_symbols_exact c data ifc d tags hs V hterm SV iterSegs syms.length hwf
  exact ⟨es, Y.len, fun i h1 h2 => (Y.dec i h1 h2).1, hnum,
    symbols_exact_partial c data ifc d tags hs V hterm SV iterSegs a symOff ha ho syms es Y tab strtab hst hserve
      hnames hnum⟩

/-- `obs`, segment side (symbols): `list(iter_symbols())` and `num_symbols()` of the image's
    `DynamicSegment` -/
structure SymObs where
  symbols : R (List (Bytes × Val))
  numSymbols : R Nat

def symObs (bytes : Bytes) : R (Option SymObs) := do
  let f ← openElf elfEnv C01.specStructs C01.specMachineClass bytes
  match ← dynamicSegment elfEnv f with
  | none => return none
  | some dy =>
    let segs := iterSegments elfEnv f.S f.data f.header f.shstr
    return some ⟨iterSymbols elfEnv f.S f.data (realIfc elfEnv f) dy segs f.le,
                 numSymbols elfEnv f.S f.data (realIfc elfEnv f) dy segs f.le⟩

/-- what must be observed (Spec/Dynamic.lean `obsSyms`; the true count) -/
def specSymObs (d : DynDesc) : SymObs := ⟨obsSyms elfEnv d, .ok d.syms.length⟩

/-- the dynamic symbols and their count of one layout, through its `DynamicSegment`, when a
    well-formed GNU or SysV hash table is present (`hashOk`); the observation is defined (every
    encodable symbol record decodes) -/
theorem seg_symbols_exact (d : DynDesc) (full : Bool) (bytes : Bytes)
    (hc : (d.container full).wf elfEnv = true) (hd : d.wf elfEnv full = true)
    (hl : DynLayout d full bytes) (hsmall : bytes.length < 2 ^ 63) (hh : hashOk d = true) :
    symObs bytes = .ok (some (specSymObs d)) ∧ ∃ ss, obsSyms elfEnv d = .ok ss ∧ ss.length = d.syms.length := by
  have F := tag_facts d.cfg
  obtain ⟨f, dy, tab, X⟩ := segSide_of sh_types (d := d) F.null F.strtab hc hd hl hsmall
  have W := dyn_wf hd
  have V : View d.cfg f.data dy d.tags := by have := X.view; rwa [X.S] at this
  obtain ⟨b, B, hpl⟩ := X.blobs
  obtain ⟨sb, hsb, hmem⟩ := B.syms
  obtain ⟨rest, hrest⟩ := hpl _ hmem
  obtain ⟨a, ha, ho⟩ := ptrOk_some W.symtab
  obtain ⟨es, Y⟩ := symView_of elfEnv d.cfg f.data d.symOff d.syms sb rest hsb hrest
  have hobs := obsSyms_eq (d := d) Y
  have hnum := num_symbols_exact d.cfg f.data (realIfc elfEnv f) dy d.tags (d.phdrs elfEnv) V W.term X.segs
    (iterSegments elfEnv f.S f.data f.header f.shstr) d.syms.length (hash_wf W hh B hpl)
  have hit := symbols_exact_partial d.cfg f.data (realIfc elfEnv f) dy d.tags (d.phdrs elfEnv) V W.term X.segs
    (iterSegments elfEnv f.S f.data f.header f.shstr) a d.symOff ha ho d.syms es Y tab d.strtab
    (by have := X.strtab; rwa [X.S] at this) X.serves (stringsOk_syms W.strings) hnum
  refine ⟨?_, _, hobs, by simp⟩
  unfold symObs
  simp only [X.opened, X.seg, bind, Except.bind, pure, Except.pure, X.S, X.le, specSymObs]
  rw [X.S] at hit hnum
  have e1 : iterSymbols elfEnv d.S f.data (realIfc elfEnv f) dy
      (iterSegments elfEnv d.S f.data f.header f.shstr) d.le = obsSyms elfEnv d := by rw [hobs]; exact hit
  have e2 : numSymbols elfEnv d.S f.data (realIfc elfEnv f) dy
      (iterSegments elfEnv d.S f.data f.header f.shstr) d.le = .ok d.syms.length := hnum
  rw [e1, e2]

/-- `get_table_offset` through the `DynamicSegment` of either layout: the pointer of the first live
    entry and the file offset the described PT_LOADs give it (Spec `obsTableOffset`), for the tags
    the reader itself follows — the same answer from the stripped and the full image -/
theorem seg_table_offsets_exact (d : DynDesc) (full : Bool) (bytes : Bytes)
    (hc : (d.container full).wf elfEnv = true) (hd : d.wf elfEnv full = true)
    (hl : DynLayout d full bytes) (hsmall : bytes.length < 2 ^ 63) :
    ∃ f dy, openElf elfEnv C01.specStructs C01.specMachineClass bytes = .ok f ∧
      dynamicSegment elfEnv f = .ok (some dy) ∧
      ∀ nc ∈ [("DT_STRTAB", DT_STRTAB), ("DT_SYMTAB", DT_SYMTAB), ("DT_HASH", DT_HASH), ("DT_GNU_HASH", DT_GNU_HASH)],
        getTableOffset elfEnv f.S f.data (realIfc elfEnv f) dy nc.1 = .ok (obsTableOffset elfEnv d nc.2) := by
  have F := tag_facts d.cfg
  obtain ⟨f, dy, tab, X⟩ := segSide_of sh_types (d := d) F.null F.strtab hc hd hl hsmall
  have W := dyn_wf hd
  have V : View d.cfg f.data dy d.tags := by have := X.view; rwa [X.S] at this
  refine ⟨f, dy, X.opened, X.seg, ?_⟩
  intro nc hnc
  have := table_offset_exact d.cfg f.data (realIfc elfEnv f) dy d.tags (d.phdrs elfEnv) V W.term X.segs nc hnc
  rw [X.S]
  rw [show getTableOffset elfEnv d.S f.data (realIfc elfEnv f) dy nc.1 = _ from this]
  unfold obsTableOffset DynDesc.live
  cases firstVal (liveTags d.tags) nc.2 <;> rfl

/-- FULL STATEMENT of the design: `WF d → obs (assembleStripped d) = obs (assembleFull d)`, for any
    two byte strings carrying the two layouts of one description.  `DynDesc.WF`: the dynamic
    information is well formed in both layouts and both containers are well-formed ELF descriptions
    in the sense of C01.  The `DynamicSegment` of the image without section headers, the
    `DynamicSegment` of the image with them and its `DynamicSection` (whether the `.dynamic` section
    sits at the segment's offset or elsewhere) report the same entries, strings and count — the
    ones the description holds — and, when a well-formed hash table is present, the same dynamic
    symbols and symbol count.  The container accessors of `ELFFile` are no longer assumed: they
    are C01's theorems (`open_exact`, `counts_exact`, `get_section_exact`, `segments_exact`)
    applied to `DynDesc.container`. -/
theorem segment_view_eq_section_view (d : DynDesc) (imgF imgS : Bytes) (hwf : d.WF elfEnv = true)
    (hF : DynLayout d true imgF) (hS : DynLayout d false imgS)
    (hsF : imgF.length < 2 ^ 63) (hsS : imgS.length < 2 ^ 63) :
    segObs imgS = secObs imgF ∧ segObs imgS = segObs imgF ∧
    secObs imgF = .ok (some (specTagObs d)) ∧ secObs imgS = .ok none ∧
    (hashOk d = true → symObs imgS = symObs imgF ∧ symObs imgF = .ok (some (specSymObs d))) := by
  unfold DynDesc.WF at hwf
  simp only [Bool.and_eq_true] at hwf
  obtain ⟨⟨⟨hdT, hdF⟩, hcT⟩, hcF⟩ := hwf
  have h1 := seg_tags_exact d false imgS hcF hdF hS hsS
  have h2 := seg_tags_exact d true imgF hcT hdT hF hsF
  have h3 := sec_tags_exact d imgF hcT hdT hF hsF
  refine ⟨h1.trans h3.symm, h1.trans h2.symm, h3, sec_stripped_none d imgS hcF hdF hS, ?_⟩
  intro hh
  have s1 := (seg_symbols_exact d false imgS hcF hdF hS hsS hh).1
  have s2 := (seg_symbols_exact d true imgF hcT hdT hF hsF hh).1
  exact ⟨s1.trans s2.symm, s2⟩

/-- the same for the images the assembler produces -/
theorem segment_view_eq_section_view_assembled (d : DynDesc) (imgF imgS : Bytes) (hwf : d.WF elfEnv = true)
    (hF : d.assemble true = some imgF) (hS : d.assemble false = some imgS)
    (hsF : imgF.length < 2 ^ 63) (hsS : imgS.length < 2 ^ 63) :
    segObs imgS = secObs imgF ∧ segObs imgS = segObs imgF ∧
    secObs imgF = .ok (some (specTagObs d)) ∧ secObs imgS = .ok none ∧
    (hashOk d = true → symObs imgS = symObs imgF ∧ symObs imgF = .ok (some (specSymObs d))) := by
  have hwf' := hwf
  unfold DynDesc.WF at hwf'
  simp only [Bool.and_eq_true] at hwf'
  exact segment_view_eq_section_view d imgF imgS hwf (assemble_dynLayout hwf'.1.1.1 hF)
    (assemble_dynLayout hwf'.1.1.2 hS) hsF hsS

/-! ### non-vacuity -/

example : hasTerminator [(DT_NEEDED, 1), (DT_STRTAB, 0x1000), (DT_NULL, 0), (DT_NEEDED, 99)] = true := by decide
example : liveTags [(DT_NEEDED, 1), (DT_NEEDED, 1), (DT_NULL, 0), (DT_NEEDED, 99), (DT_NULL, 0)]
    = [(DT_NEEDED, 1), (DT_NEEDED, 1), (DT_NULL, 0)] := by decide
example : strAt [0, 0x6c, 0x69, 0x62, 0x63, 0] 1 = some [0x6c, 0x69, 0x62, 0x63] := by decide
example : (SysvHash.mk [1, 0] [0, 0, 1]).wf 3 = true := by decide
example : (GnuHash.mk 1 [0xdeadbeef] 6 [[0x7c92e3bb, 0x0b887389], [], [0x10]]).wf 4 = true := by decide
example : bucketStarts 1 [[0x7c92e3bb, 0x0b887389], [], [0x10]] = [1, 0, 3] := by decide
example : chainWords [0x7c92e3bb, 0x0b887389] = [0x7c92e3ba, 0x0b887389] := by decide
example : mapAddr [.record [("p_type", .str "PT_LOAD"), ("p_offset", .int 0x200), ("p_vaddr", .int 0), ("p_filesz", .int 0x80)]] 0
    = some 0x200 := by decide


/-- a concrete object satisfying `View`: a 64-bit LSB table NEEDED, STRTAB, NULL, (trailing) NEEDED
    stored 3 bytes into a byte string and followed by 2 more bytes -/
def exCfg : ElfCfg := ⟨true, 64, "default", false, false⟩
def exTags : List (Int × Nat) := [(DT_NEEDED, 1), (DT_STRTAB, 0x1000), (DT_NULL, 0), (DT_NEEDED, 99)]
def w8 (n : Nat) : Bytes := [UInt8.ofNat n, 0, 0, 0, 0, 0, 0, 0]
def exTable : Bytes := w8 1 ++ w8 1 ++ w8 5 ++ [0, 0x10, 0, 0, 0, 0, 0, 0] ++ w8 0 ++ w8 0 ++ w8 1 ++ w8 99
def exData : Bytes := [1, 2, 3] ++ exTable ++ [4, 5]

theorem exTable_enc : encAll (dynCon true 8 (tbl exCfg)) (exTags.map rawTag) = some exTable := by
  simp [encAll, exTags, rawTag, dynCon, st, mkFields, f, enumOf, Con.encodeRaw, ConFields.encodeRaw, Fields.get?,
    DT_NEEDED, DT_STRTAB, DT_NULL, bind, Option.bind, pure]
  decide

example : View exCfg exData ⟨none, 3, false, 16⟩ exTags where
  con := rfl
  wpos := by decide
  nonempty := rfl
  tagsize := rfl
  placed := ⟨exTable, [4, 5], exTable_enc, by decide⟩
  small := by decide

example : hasTerminator exTags = true ∧ liveTags exTags = [(DT_NEEDED, 1), (DT_STRTAB, 0x1000), (DT_NULL, 0)] := by decide

/-- a concrete file object satisfying `SegsView` -/
def exPhdr : Val := .record [("p_type", .str "PT_LOAD"), ("p_offset", .int 0x200), ("p_vaddr", .int 0x1000), ("p_filesz", .int 0x80)]
example : SegsView ⟨.ok 1, fun _ => .ok ("Segment", exPhdr), fun _ => .ok none⟩ [exPhdr] where
  num := rfl
  get := fun i hi => ⟨"Segment", by
    have : i = 0 := by simpa using hi
    subst this; rfl⟩
  ok := fun h hh => by
    have : h = exPhdr := by simpa using hh
    subst this
    exact ⟨.str "PT_LOAD", 0x1000, 0x80, 0x200, rfl, rfl, rfl, rfl⟩

example : mapAddr [exPhdr] 0x1000 = some 0x200 := by decide

/-- a concrete stored symbol table satisfying `SymView`: two 64-bit LSB records (`st_name` 0 and 6,
    GLOBAL FUNC, value 0x1000, size 8) stored 2 bytes into a byte string and followed by one more byte -/
def exSym (name : Nat) : Fields :=
  [("st_name", .int name), ("st_info", .record [("bind", .int 1), ("type", .int 2)]),
   ("st_other", .record [("local", .int 0), ("visibility", .int 0)]), ("st_shndx", .int 0),
   ("st_value", .int 0x1000), ("st_size", .int 8)]

def exSymBytes : Bytes :=
  [0, 0, 0, 0, 0x12, 0, 0, 0, 0, 0x10, 0, 0, 0, 0, 0, 0, 8, 0, 0, 0, 0, 0, 0, 0,
   6, 0, 0, 0, 0x12, 0, 0, 0, 0, 0x10, 0, 0, 0, 0, 0, 0, 8, 0, 0, 0, 0, 0, 0, 0]

theorem exSym_enc : encAll (S exCfg).Elf_Sym ([exSym 0, exSym 6].map .record) = some exSymBytes := by
  simp [encAll, exSym, exCfg, S, elfStructs, st, mkFields, f, enumOf, Con.encodeRaw, ConFields.encodeRaw, Fields.get?,
    packBits, bind, Option.bind, pure]
  decide

example : ∃ es, SymView elfEnv (S exCfg) ([9, 9] ++ exSymBytes ++ [7]) 2 [exSym 0, exSym 6] es :=
  symView_of elfEnv exCfg _ 2 _ exSymBytes [7] exSym_enc (by decide)

def exHashD : DynDesc :=
  { cls := 64, le := true, mclass := "default", solaris := false, ehdr := [], tags := [], dynOff := 0,
    strtab := [], strOff := 0, syms := [exSym 0, exSym 6], symOff := 0, sysv := some (⟨[0], [0, 0]⟩, 0),
    segments := [], phoff := 0, shoff := 0, phentsize := 0, shentsize := 0 }
example : hashOk exHashD = true := by decide

/- Non-vacuity of `DynDesc.WF` (hypothesis of `segment_view_eq_section_view`): `DynLayout` is inhabited
   by the assembler's output (`assemble_dynLayout`); `DynDesc.WF` itself is evaluated by the driver on
   every generated description (`wf` ∧ `wf_c01` of Driver/C09.lean; the harness counts the cases in
   the theorem's domain as `…:WF-theorem-domain`).  A kernel-checked `example` is not available:
   `Con.encodeRaw` / `Con.decodeRaw` are compiled by well-founded recursion and do not reduce in the
   kernel, and a `simp`-evaluated instance of `ElfDesc.wf` was not attempted. -/


/-! ## Fifth wave: lookup by name, the routes to the string table, the count without a hash table,
    incomplete dynamic information

  What follows closes the gaps listed in the header of the earlier waves:
  * `get_symbol_by_name` (`by_name_exact`, `seg_by_name_exact`): every symbol bearing the name, in
    index order, `None` for an absent name — from either layout.
  * the string table through every route `_get_stringtable` has (`seg_tags_exact_routes`): section
    link, DT_STRTAB through the PT_LOADs, and the section called `.dynstr` when DT_STRTAB is absent
    or maps nowhere (C01's `lookup_exact`, composed); `DynDesc.wf` only covered the first two.
  * `num_symbols()` without a usable hash table (`num_symbols_fallback`, `…_exact_iff`,
    `…_counterexample`, `seg_symbols_exact_fallback`).
  * the exception classes for incomplete information (`tags_without_stringtable`,
    `seg_tags_no_strtab`, `symbol_table_unmapped`, `num_symbols_syment_mismatch`, `tags_truncated`,
    `seg_tags_truncated`). -/

theorem syment_fact (c : ElfCfg) : TagIs elfEnv (tbl c) "DT_SYMENT" DT_SYMENT := by
  unfold tbl
  by_cases h1 : c.mclass = "EM_MIPS"
  · rw [h1]; exact syment_mips
  by_cases h2 : c.mclass = "EM_MIPS_RS3_LE"
  · rw [h2]; exact syment_mips
  by_cases h3 : c.mclass = "EM_AARCH64"
  · rw [h3]; exact syment_aarch64
  have e1 : dTagTable c.mclass c.solaris = if c.solaris then "ENUM_D_TAG_COMMON+ENUM_D_TAG_SOLARIS" else "ENUM_D_TAG_COMMON" := by
    unfold dTagTable; split <;> simp_all
  rw [e1]
  cases c.solaris
  · exact syment_common
  · exact syment_solaris

/-- size of a symbol record of the configuration (16 / 24 bytes) -/
def symSz (c : ElfCfg) : Nat := (S c).Elf_Sym.sizeof.getD 0

theorem symSz_spec (c : ElfCfg) : (S c).Elf_Sym.sizeof = some (symSz c) ∧ 0 < symSz c := by
  obtain ⟨sz, h, hp⟩ := sym_size c
  have h' : (S c).Elf_Sym.sizeof = some sz := h
  simp [symSz, h', hp]

/-! ### the string table: the third route, and none -/

/-- an object constructed without a string table whose DT_STRTAB is absent or maps nowhere uses
    whatever `get_section_by_name('.dynstr')` returns (a section object, or `None`) -/
theorem stringtable_by_name (c : ElfCfg) (data : Bytes) (ifc : FileIfc) (d : Dyn) (tags : List (Int × Nat))
    (hs : List Val) (V : View c data d tags) (hterm : hasTerminator tags = true) (SV : SegsView ifc hs)
    (hnone : d.strtab = none) (hno : (firstVal (liveTags tags) DT_STRTAB).bind (mapAddr hs) = none)
    (r : Option (String × Val)) (hby : ifc.sectionByName (nm ".dynstr") = .ok r) :
    getStringtable elfEnv (S c) data ifc d = .ok (r.map fun p => .section p.1 p.2) :=
  getStringtable_byName V (tag_facts c).null hterm SV (tag_facts c).strtab hnone hno hby

/-- the tags and strings of one layout through its `DynamicSegment`, by whichever route the string
    table is reached (`DynDesc.wfTags`: terminator, strings terminated, `strOk`).  Generalises
    `seg_tags_exact` (`DynDesc.wf` implies the hypotheses: `wf_base`, `wf_tags`); new is the route
    through the section called `.dynstr` -/
theorem seg_tags_exact_routes (d : DynDesc) (full : Bool) (bytes : Bytes)
    (hc : (d.container full).wf elfEnv = true) (hb : d.wfBase elfEnv = true) (ht : d.wfTags elfEnv full = true)
    (hl : DynLayout d full bytes) (hsmall : bytes.length < 2 ^ 63) :
    segObs bytes = .ok (some (specTagObs d)) := by
  have F := tag_facts d.cfg
  obtain ⟨f, dy, X⟩ := segBase_of sh_types hc hb hl hsmall
  simp only [DynDesc.wfTags, Bool.and_eq_true] at ht
  obtain ⟨⟨hterm, hstrs⟩, hok⟩ := ht
  obtain ⟨tab, hst, hserve⟩ := strtab_of_route X F.null F.strtab hterm hok
  have V : View d.cfg f.data dy d.tags := by have := X.view; rwa [X.S] at this
  have e := tags_exact d.cfg f.data (realIfc elfEnv f) dy d.tags d.strtab tab V hterm
    (by rwa [X.S] at hst) hserve (stringsOk_tags hstrs)
  unfold segObs
  simp only [X.opened, X.seg, bind, Except.bind, pure, Except.pure, tagObs, X.S]
  have e1 : iterTags elfEnv d.S f.data (realIfc elfEnv f) dy none = _ := e.1
  have e2 : numTags elfEnv d.S f.data (realIfc elfEnv f) dy = _ := e.2
  rw [e1, e2]
  rfl

/-- the tags and strings of the full layout through its `DynamicSection`, from the container part
    of the well-formedness alone: the section link serves the strings whether or not the table
    holds a (mapped) DT_STRTAB.  Generalises `sec_tags_exact`. -/
theorem sec_tags_exact_base (d : DynDesc) (bytes : Bytes)
    (hc : (d.container true).wf elfEnv = true) (hb : d.wfBase elfEnv = true)
    (hterm : hasTerminator d.tags = true) (hstrs : stringsOk d = true)
    (hl : DynLayout d true bytes) (hsmall : bytes.length < 2 ^ 63) :
    secObs bytes = .ok (some (specTagObs d)) := by
  obtain ⟨f, dy0, X⟩ := segBase_of sh_types hc hb hl hsmall
  obtain ⟨dy, tab, Y⟩ := secSide_base sh_types hc hb hl hsmall f X.opened
  have V : View d.cfg f.data dy d.tags := by have := Y.view; rwa [X.S] at this
  have e := tags_exact d.cfg f.data (realIfc elfEnv f) dy d.tags d.strtab tab V hterm
    (by have := Y.strtab; rwa [X.S] at this) Y.serves (stringsOk_tags hstrs)
  unfold secObs
  simp only [X.opened, Y.sec, bind, Except.bind, pure, Except.pure, tagObs, X.S]
  have e1 : iterTags elfEnv d.S f.data (realIfc elfEnv f) dy none = _ := e.1
  have e2 : numTags elfEnv d.S f.data (realIfc elfEnv f) dy = _ := e.2
  rw [e1, e2]
  rfl

/-! ### lookup by name -/

/-- `obs`, segment side (lookup): `get_symbol_by_name(q)` of the image's `DynamicSegment` -/
def byNameObs (bytes : Bytes) (q : Bytes) : R (Option (R (Option (List (Bytes × Val))))) := do
  let f ← openElf elfEnv C01.specStructs C01.specMachineClass bytes
  match ← dynamicSegment elfEnv f with
  | none => return none
  | some dy =>
    let segs := iterSegments elfEnv f.S f.data f.header f.shstr
    return some (getSymbolByName elfEnv f.S f.data (realIfc elfEnv f) dy segs f.le q)

/-- `get_symbol_by_name` over any object whose enumeration is exact: all enumerated symbols bearing
    the name in index order, `None` for an absent name (`byNameOf`; `by_name_meaning` below) -/
theorem by_name_of_enumeration (c : ElfCfg) (data : Bytes) (ifc : FileIfc) (d : Dyn)
    (iterSegs : R (List (String × Val))) (L : List (Bytes × Val))
    (hit : iterSymbols elfEnv (S c) data ifc d iterSegs c.le = .ok L)
    (hget : ∀ i (h : i < L.length), getSymbol elfEnv (S c) data ifc d i = .ok L[i]) (q : Bytes) :
    getSymbolByName elfEnv (S c) data ifc d iterSegs c.le q = .ok (byNameOf L q) :=
  getSymbolByName_of hit hget q

/-- what the answer means: absent name → `None`; otherwise exactly the symbols bearing the name
    (duplicates included, nothing else), in index order -/
theorem by_name_meaning (L : List (Bytes × Val)) (q : Bytes) :
    ((∀ x ∈ L, x.1 ≠ q) → byNameOf L q = none) ∧
    (∀ hit, byNameOf L q = some hit →
      hit ≠ [] ∧ hit.Sublist L ∧ (∀ x ∈ hit, x.1 = q) ∧ (∀ x ∈ L, x.1 = q → x ∈ hit) ∧
      hit.length = L.countP (·.1 == q)) :=
  ⟨byNameOf_absent, fun _ h => byNameOf_present h⟩

/-- the common core: the `DynamicSegment` of a layout, string table reached by any route, DT_SYMTAB
    designating the symbol table, and a recovered count that is the true count — then the symbols,
    their count and every lookup by name are the described ones -/
theorem seg_symbols_core (d : DynDesc) (full : Bool) (bytes : Bytes) (f : ElfFile) (dy : Dyn)
    (X : SegBase elfEnv d full bytes f dy) (ht : d.wfTags elfEnv full = true) (hs : d.wfSyms elfEnv = true)
    (hnum : numSymbols elfEnv d.S f.data (realIfc elfEnv f) dy (iterSegments elfEnv d.S f.data f.header f.shstr) d.le
      = .ok d.syms.length) :
    symObs bytes = .ok (some (specSymObs d)) ∧ (∃ ss, obsSyms elfEnv d = .ok ss ∧ ss.length = d.syms.length) ∧
    ∀ q, byNameObs bytes q = .ok (some (obsByName elfEnv d q)) := by
  have F := tag_facts d.cfg
  simp only [DynDesc.wfTags, Bool.and_eq_true] at ht
  obtain ⟨⟨hterm, hstrs⟩, hok⟩ := ht
  obtain ⟨tab, hst, hserve⟩ := strtab_of_route X F.null F.strtab hterm hok
  have V : View d.cfg f.data dy d.tags := by have := X.view; rwa [X.S] at this
  obtain ⟨b, B, hpl⟩ := X.blobs
  obtain ⟨sb, hsb, hmem⟩ := B.syms
  obtain ⟨rest, hrest⟩ := hpl _ hmem
  obtain ⟨a, ha, ho⟩ := ptrOk_some hs
  obtain ⟨es, Y⟩ := symView_of elfEnv d.cfg f.data d.symOff d.syms sb rest hsb hrest
  have hobs := obsSyms_eq (d := d) Y
  rw [X.S] at hst
  have hit := symbols_exact_partial d.cfg f.data (realIfc elfEnv f) dy d.tags (d.phdrs elfEnv) V hterm X.segs
    (iterSegments elfEnv d.S f.data f.header f.shstr) a d.symOff ha ho d.syms es Y tab d.strtab
    hst hserve (stringsOk_syms hstrs) hnum
  have e1 : iterSymbols elfEnv d.S f.data (realIfc elfEnv f) dy
      (iterSegments elfEnv d.S f.data f.header f.shstr) d.le = obsSyms elfEnv d := by rw [hobs]; exact hit
  refine ⟨?_, ⟨_, hobs, by simp⟩, ?_⟩
  · unfold symObs
    simp only [X.opened, X.seg, bind, Except.bind, pure, Except.pure, X.S, X.le, specSymObs]
    rw [e1, hnum]
  · intro q
    unfold byNameObs
    simp only [X.opened, X.seg, bind, Except.bind, pure, Except.pure, X.S, X.le]
    rw [obsByName_eq hobs q]
    have hget : ∀ i (h : i < ((List.range d.syms.length).map fun i =>
          ((strAt d.strtab (getNatD (d.syms.getD i []) "st_name")).getD [], es.getD i .none)).length),
        getSymbol elfEnv d.S f.data (realIfc elfEnv f) dy i
          = .ok ((List.range d.syms.length).map fun i =>
              ((strAt d.strtab (getNatD (d.syms.getD i []) "st_name")).getD [], es.getD i .none))[i] := by
      intro i hi
      have h1 : i < d.syms.length := by simpa using hi
      have h2 : i < es.length := by rw [Y.len]; exact h1
      have := getSymbol_view V F.null hterm X.segs F.symtab ha ho Y hst hserve i h1 h2
        (stringsOk_syms hstrs _ (List.getElem_mem h1))
      rw [show getSymbol elfEnv d.S f.data (realIfc elfEnv f) dy i = _ from this]
      simp [List.getD, List.getElem?_eq_getElem h1, List.getElem?_eq_getElem h2]
    have := getSymbolByName_of (le := d.le) (iterSegs := iterSegments elfEnv d.S f.data f.header f.shstr) hit hget q
    rw [show getSymbolByName elfEnv d.S f.data (realIfc elfEnv f) dy
      (iterSegments elfEnv d.S f.data f.header f.shstr) d.le q = _ from this]

/-- the recovered count of a layout with a well-formed hash table -/
theorem seg_count_hash (d : DynDesc) (full : Bool) (bytes : Bytes) (f : ElfFile) (dy : Dyn)
    (X : SegBase elfEnv d full bytes f dy) (hterm : hasTerminator d.tags = true) (hh : d.wfHash elfEnv = true)
    (hok : hashOk d = true) :
    numSymbols elfEnv d.S f.data (realIfc elfEnv f) dy (iterSegments elfEnv d.S f.data f.header f.shstr) d.le
      = .ok d.syms.length := by
  have V : View d.cfg f.data dy d.tags := by have := X.view; rwa [X.S] at this
  obtain ⟨b, B, hpl⟩ := X.blobs
  simp only [DynDesc.wfHash, Bool.and_eq_true] at hh
  have hwf := hash_wf_of (env := elfEnv) (d := d) (full := full) (data := f.data) hh.1 hh.2 hok B hpl
  exact num_symbols_exact d.cfg f.data (realIfc elfEnv f) dy d.tags (d.phdrs elfEnv) V hterm X.segs _ d.syms.length hwf


/-- the dynamic symbols, their count and every lookup by name of one layout through its
    `DynamicSegment`, string table by any route, when a well-formed hash table is present.
    Generalises `seg_symbols_exact`; `get_symbol_by_name` is new. -/
theorem seg_by_name_exact (d : DynDesc) (full : Bool) (bytes : Bytes)
    (hc : (d.container full).wf elfEnv = true) (hb : d.wfBase elfEnv = true) (ht : d.wfTags elfEnv full = true)
    (hs : d.wfSyms elfEnv = true) (hh : d.wfHash elfEnv = true) (hok : hashOk d = true)
    (hl : DynLayout d full bytes) (hsmall : bytes.length < 2 ^ 63) :
    symObs bytes = .ok (some (specSymObs d)) ∧ (∃ ss, obsSyms elfEnv d = .ok ss ∧ ss.length = d.syms.length) ∧
    ∀ q, byNameObs bytes q = .ok (some (obsByName elfEnv d q)) := by
  obtain ⟨f, dy, X⟩ := segBase_of sh_types hc hb hl hsmall
  have hterm : hasTerminator d.tags = true := by
    simp only [DynDesc.wfTags, Bool.and_eq_true] at ht; exact ht.1.1
  exact seg_symbols_core d full bytes f dy X ht hs (seg_count_hash d full bytes f dy X hterm hh hok)

/-- `by_name_exact` of the design: for the two layouts of one well-formed description with a
    well-formed hash table, `get_symbol_by_name(q)` on the `DynamicSegment` of the image without
    section headers and on that of the image with them give the same answer, namely the described
    one: every described symbol bearing the name `q` (duplicates included), in index order, each
    with its name and decoded entry; `None` when no symbol bears it. -/
theorem by_name_exact (d : DynDesc) (imgF imgS : Bytes) (hwf : d.WF elfEnv = true)
    (hF : DynLayout d true imgF) (hS : DynLayout d false imgS)
    (hsF : imgF.length < 2 ^ 63) (hsS : imgS.length < 2 ^ 63) (hok : hashOk d = true) (q : Bytes) :
    byNameObs imgS q = byNameObs imgF q ∧ byNameObs imgF q = .ok (some (obsByName elfEnv d q)) ∧
    ∃ ss, obsSyms elfEnv d = .ok ss ∧ ss.length = d.syms.length ∧ obsByName elfEnv d q = .ok (byNameOf ss q) := by
  unfold DynDesc.WF at hwf
  simp only [Bool.and_eq_true] at hwf
  obtain ⟨⟨⟨hdT, hdF⟩, hcT⟩, hcF⟩ := hwf
  have h1 := seg_by_name_exact d true imgF hcT (wf_base hdT) (wf_tags hdT) (wf_syms hdT) (wf_hash hdT) hok hF hsF
  have h2 := seg_by_name_exact d false imgS hcF (wf_base hdF) (wf_tags hdF) (wf_syms hdF) (wf_hash hdF) hok hS hsS
  obtain ⟨ss, hss, hlen⟩ := h1.2.1
  exact ⟨(h2.2.2 q).trans (h1.2.2 q).symm, h1.2.2 q, ss, hss, hlen, obsByName_eq hss q⟩

/-- the same for the images the assembler produces -/
theorem by_name_exact_assembled (d : DynDesc) (imgF imgS : Bytes) (hwf : d.WF elfEnv = true)
    (hF : d.assemble true = some imgF) (hS : d.assemble false = some imgS)
    (hsF : imgF.length < 2 ^ 63) (hsS : imgS.length < 2 ^ 63) (hok : hashOk d = true) (q : Bytes) :
    byNameObs imgS q = byNameObs imgF q ∧ byNameObs imgF q = .ok (some (obsByName elfEnv d q)) := by
  have hwf' := hwf
  unfold DynDesc.WF at hwf'
  simp only [Bool.and_eq_true] at hwf'
  have := by_name_exact d imgF imgS hwf (assemble_dynLayout hwf'.1.1.1 hF) (assemble_dynLayout hwf'.1.1.2 hS) hsF hsS hok q
  exact ⟨this.1, this.2.1⟩

/-! ### `num_symbols()` without a usable hash table -/

/-- MODEL EXACTLY.  Neither hash tag leads anywhere (absent, or its pointer outside every PT_LOAD);
    DT_SYMTAB live and mapped; every live entry can be shown (`iter_tags()` builds a `DynamicTag`
    for each).  Then `num_symbols()` is ELFError when some live DT_SYMENT is not the record size,
    else the number of whole records between the table's address and `fallbackEnd` — the least
    value of ANY live entry above that address, else the end of the last program header (of any
    type) whose extent, end included, holds it — and TypeError (`None - int`) when there is no such
    end. -/
theorem num_symbols_fallback (c : ElfCfg) (data : Bytes) (ifc : FileIfc) (d : Dyn) (tags : List (Int × Nat))
    (hs : List Val) (V : View c data d tags) (hterm : hasTerminator tags = true) (SV : SegsView ifc hs)
    (iterSegs : R (List (String × Val))) (gs : List (String × Val)) (hsegs : iterSegs = .ok gs)
    (hgs : gs.map (·.2) = hs)
    (hnog : (firstVal (liveTags tags) DT_GNU_HASH).bind (mapAddr hs) = none)
    (hnoh : (firstVal (liveTags tags) DT_HASH).bind (mapAddr hs) = none)
    (a o : Nat) (ha : firstVal (liveTags tags) DT_SYMTAB = some a) (ho : mapAddr hs a = some o)
    (tab : StrTab) (strtab : Bytes) (hst : getStringtable elfEnv (S c) data ifc d = .ok (some tab))
    (hserve : Serves data tab strtab) (hstr : StringsOk (sunw c) strtab (liveTags tags)) :
    numSymbols elfEnv (S c) data ifc d iterSegs c.le
      = if symentOk (symSz c) (liveTags tags) then
          (match fallbackEnd hs (liveTags tags) a with
           | some e => .ok ((e - a) / symSz c)
           | none => .error .typeError)
        else .error .elfError := by
  have F := tag_facts c
  rw [numSymbols_nohash V F.null hterm SV F.gnuHash F.hash (symSz_spec c).1 hnog hnoh]
  exact numSymbolsFallback_view V F.null hterm SV F.symtab (syment_fact c) hst F.attr hserve hstr hsegs hgs ha ho _
    (symSz_spec c).2

/-- THE PRECISE CONDITION.  Under the hypotheses of `num_symbols_fallback` and a consistent
    DT_SYMENT, the count recovered is `n` exactly when the assumed end lies in
    `[a + n·size, a + (n+1)·size)` (`FallbackExact`): the nearest entry value above the table's
    address (or the covering segment's end) is less than one record past the table's true end. -/
theorem num_symbols_fallback_exact_iff (c : ElfCfg) (data : Bytes) (ifc : FileIfc) (d : Dyn) (tags : List (Int × Nat))
    (hs : List Val) (V : View c data d tags) (hterm : hasTerminator tags = true) (SV : SegsView ifc hs)
    (iterSegs : R (List (String × Val))) (gs : List (String × Val)) (hsegs : iterSegs = .ok gs)
    (hgs : gs.map (·.2) = hs)
    (hnog : (firstVal (liveTags tags) DT_GNU_HASH).bind (mapAddr hs) = none)
    (hnoh : (firstVal (liveTags tags) DT_HASH).bind (mapAddr hs) = none)
    (a o : Nat) (ha : firstVal (liveTags tags) DT_SYMTAB = some a) (ho : mapAddr hs a = some o)
    (tab : StrTab) (strtab : Bytes) (hst : getStringtable elfEnv (S c) data ifc d = .ok (some tab))
    (hserve : Serves data tab strtab) (hstr : StringsOk (sunw c) strtab (liveTags tags))
    (hse : symentOk (symSz c) (liveTags tags) = true) (n : Nat) :
    numSymbols elfEnv (S c) data ifc d iterSegs c.le = .ok n ↔ FallbackExact (symSz c) hs (liveTags tags) n := by
  rw [num_symbols_fallback c data ifc d tags hs V hterm SV iterSegs gs hsegs hgs hnog hnoh a o ha ho tab strtab hst
    hserve hstr]
  simp only [hse, if_true]
  rw [← fallbackCount_eq_iff (symSz_spec c).2 hs (liveTags tags) n (fun a' e h1 h2 => fallbackEnd_ge h2)]
  unfold fallbackCount
  simp only [ha, Option.bind_some]
  cases fallbackEnd hs (liveTags tags) a with
  | none => simp
  | some e => simp

/-- a DT_SYMENT that is not the record size: ELFError — but only on this path; with a usable hash
    table DT_SYMENT is not looked at (`num_symbols_exact` has no such hypothesis) -/
theorem num_symbols_syment_mismatch (c : ElfCfg) (data : Bytes) (ifc : FileIfc) (d : Dyn) (tags : List (Int × Nat))
    (hs : List Val) (V : View c data d tags) (hterm : hasTerminator tags = true) (SV : SegsView ifc hs)
    (iterSegs : R (List (String × Val))) (gs : List (String × Val)) (hsegs : iterSegs = .ok gs)
    (hgs : gs.map (·.2) = hs)
    (hnog : (firstVal (liveTags tags) DT_GNU_HASH).bind (mapAddr hs) = none)
    (hnoh : (firstVal (liveTags tags) DT_HASH).bind (mapAddr hs) = none)
    (a o : Nat) (ha : firstVal (liveTags tags) DT_SYMTAB = some a) (ho : mapAddr hs a = some o)
    (tab : StrTab) (strtab : Bytes) (hst : getStringtable elfEnv (S c) data ifc d = .ok (some tab))
    (hserve : Serves data tab strtab) (hstr : StringsOk (sunw c) strtab (liveTags tags))
    (t : Int × Nat) (ht : t ∈ liveTags tags) (h1 : t.1 = DT_SYMENT) (h2 : t.2 ≠ symSz c) :
    numSymbols elfEnv (S c) data ifc d iterSegs c.le = .error .elfError := by
  rw [num_symbols_fallback c data ifc d tags hs V hterm SV iterSegs gs hsegs hgs hnog hnoh a o ha ho tab strtab hst
    hserve hstr]
  have : symentOk (symSz c) (liveTags tags) = false := by
    apply Bool.eq_false_iff.2
    intro h
    have := List.all_eq_true.1 h t ht
    simp [h1, h2] at this
  simp [this]

/-- DT_SYMTAB absent or outside every PT_LOAD: `get_symbol(i)` raises ELFError for every `i`, and so
    does `num_symbols()` when it has to take the fallback -/
theorem symbol_table_unmapped (c : ElfCfg) (data : Bytes) (ifc : FileIfc) (d : Dyn) (tags : List (Int × Nat))
    (hs : List Val) (V : View c data d tags) (hterm : hasTerminator tags = true) (SV : SegsView ifc hs)
    (iterSegs : R (List (String × Val)))
    (hno : (firstVal (liveTags tags) DT_SYMTAB).bind (mapAddr hs) = none) :
    (∀ i, getSymbol elfEnv (S c) data ifc d i = .error .elfError) ∧
    ((firstVal (liveTags tags) DT_GNU_HASH).bind (mapAddr hs) = none →
     (firstVal (liveTags tags) DT_HASH).bind (mapAddr hs) = none →
      numSymbols elfEnv (S c) data ifc d iterSegs c.le = .error .elfError ∧
      iterSymbols elfEnv (S c) data ifc d iterSegs c.le = .error .elfError ∧
      ∀ q, getSymbolByName elfEnv (S c) data ifc d iterSegs c.le q = .error .elfError) := by
  have F := tag_facts c
  refine ⟨fun i => getSymbol_unmapped V F.null hterm SV F.symtab hno i, fun hnog hnoh => ?_⟩
  have hn : numSymbols elfEnv (S c) data ifc d iterSegs c.le = .error .elfError := by
    rw [numSymbols_nohash V F.null hterm SV F.gnuHash F.hash (symSz_spec c).1 hnog hnoh]
    exact numSymbolsFallback_nosymtab V F.null hterm SV F.symtab hno _
  have hi : iterSymbols elfEnv (S c) data ifc d iterSegs c.le = .error .elfError := by
    unfold iterSymbols; simp [hn, bind, Except.bind]
  exact ⟨hn, hi, fun q => getSymbolByName_error hi q⟩


/-! ### the fallback, whole file -/

/-- what a reader without a usable hash table must be expected to report as the count
    (Spec/DynamicExt.lean) -/
def specFallbackCount (d : DynDesc) : R Nat :=
  if symentOk d.symsz d.live then
    (match d.fallbackCount elfEnv with
     | some n => .ok n
     | none => .error .typeError)
  else .error .elfError

/-- the count the `DynamicSegment` of a layout recovers when no hash table is reachable -/
theorem seg_count_fallback (d : DynDesc) (full : Bool) (bytes : Bytes) (f : ElfFile) (dy : Dyn)
    (X : SegBase elfEnv d full bytes f dy) (ht : d.wfTags elfEnv full = true) (hs : d.wfSyms elfEnv = true)
    (hno : d.noHash elfEnv = true) :
    numSymbols elfEnv d.S f.data (realIfc elfEnv f) dy (iterSegments elfEnv d.S f.data f.header f.shstr) d.le
      = specFallbackCount d := by
  have F := tag_facts d.cfg
  simp only [DynDesc.wfTags, Bool.and_eq_true] at ht
  obtain ⟨⟨hterm, hstrs⟩, hok⟩ := ht
  obtain ⟨tab, hst, hserve⟩ := strtab_of_route X F.null F.strtab hterm hok
  have V : View d.cfg f.data dy d.tags := by have := X.view; rwa [X.S] at this
  obtain ⟨a, ha, ho⟩ := ptrOk_some hs
  obtain ⟨gs, hsegs, hgs⟩ := X.iterSegs
  rw [X.S] at hst hsegs
  simp only [DynDesc.noHash, Bool.and_eq_true, Option.isNone_iff_eq_none] at hno
  have := num_symbols_fallback d.cfg f.data (realIfc elfEnv f) dy d.tags (d.phdrs elfEnv) V hterm X.segs
    (iterSegments elfEnv d.S f.data f.header f.shstr) gs hsegs hgs hno.1 hno.2 a d.symOff ha ho tab d.strtab hst hserve
    (stringsOk_tags hstrs)
  rw [show numSymbols elfEnv d.S f.data (realIfc elfEnv f) dy (iterSegments elfEnv d.S f.data f.header f.shstr) d.le = _
    from this]
  unfold specFallbackCount DynDesc.fallbackCount fallbackCount
  have ha' : firstVal d.live DT_SYMTAB = some a := ha
  simp only [ha', Option.bind_some]
  have e1 : symSz d.cfg = d.symsz := rfl
  have e2 : liveTags d.tags = d.live := rfl
  rw [e1, e2]
  cases fallbackEnd (d.phdrs elfEnv) d.live a <;> rfl

/-- the count of one layout through its `DynamicSegment`, no hash table reachable: the estimate of
    Spec/DynamicExt.lean (`specFallbackCount`), whether or not it is the true count -/
theorem seg_num_symbols_fallback (d : DynDesc) (full : Bool) (bytes : Bytes)
    (hc : (d.container full).wf elfEnv = true) (hb : d.wfBase elfEnv = true) (ht : d.wfTags elfEnv full = true)
    (hs : d.wfSyms elfEnv = true) (hno : d.noHash elfEnv = true)
    (hl : DynLayout d full bytes) (hsmall : bytes.length < 2 ^ 63) :
    ∃ so, symObs bytes = .ok (some so) ∧ so.numSymbols = specFallbackCount d := by
  obtain ⟨f, dy, X⟩ := segBase_of sh_types hc hb hl hsmall
  have := seg_count_fallback d full bytes f dy X ht hs hno
  refine ⟨⟨iterSymbols elfEnv d.S f.data (realIfc elfEnv f) dy (iterSegments elfEnv d.S f.data f.header f.shstr) d.le,
    numSymbols elfEnv d.S f.data (realIfc elfEnv f) dy (iterSegments elfEnv d.S f.data f.header f.shstr) d.le⟩, ?_, this⟩
  unfold symObs
  simp only [X.opened, X.seg, bind, Except.bind, pure, Except.pure, X.S, X.le]

/-- EXACTNESS UNDER THE ASSEMBLER'S LAYOUT.  No hash table reachable, DT_SYMENT consistent, and the
    estimate is the true count (`fallbackExact`: by `num_symbols_fallback_exact_iff`, the nearest
    entry value above the symbol table's address — or the covering segment's end — is less than one
    record past the table's end): the symbols, their count and every lookup by name are the
    described ones, from either layout. -/
theorem seg_symbols_exact_fallback (d : DynDesc) (full : Bool) (bytes : Bytes)
    (hc : (d.container full).wf elfEnv = true) (hb : d.wfBase elfEnv = true) (ht : d.wfTags elfEnv full = true)
    (hs : d.wfSyms elfEnv = true) (hno : d.noHash elfEnv = true)
    (hse : symentOk d.symsz d.live = true) (hex : d.fallbackExact elfEnv = true)
    (hl : DynLayout d full bytes) (hsmall : bytes.length < 2 ^ 63) :
    symObs bytes = .ok (some (specSymObs d)) ∧ (∃ ss, obsSyms elfEnv d = .ok ss ∧ ss.length = d.syms.length) ∧
    ∀ q, byNameObs bytes q = .ok (some (obsByName elfEnv d q)) := by
  obtain ⟨f, dy, X⟩ := segBase_of sh_types hc hb hl hsmall
  have hn := seg_count_fallback d full bytes f dy X ht hs hno
  have hex' : d.fallbackCount elfEnv = some d.syms.length := by
    simpa [DynDesc.fallbackExact] using hex
  have : specFallbackCount d = .ok d.syms.length := by
    simp [specFallbackCount, hse, hex']
  rw [this] at hn
  exact seg_symbols_core d full bytes f dy X ht hs hn

/-- … and when the estimate is NOT the true count the count reported is the estimate, i.e. wrong:
    the fallback is exact only under `fallbackExact` -/
theorem seg_num_symbols_fallback_inexact (d : DynDesc) (full : Bool) (bytes : Bytes)
    (hc : (d.container full).wf elfEnv = true) (hb : d.wfBase elfEnv = true) (ht : d.wfTags elfEnv full = true)
    (hs : d.wfSyms elfEnv = true) (hno : d.noHash elfEnv = true)
    (hse : symentOk d.symsz d.live = true) (hex : d.fallbackExact elfEnv = false)
    (hl : DynLayout d full bytes) (hsmall : bytes.length < 2 ^ 63) :
    ∃ so, symObs bytes = .ok (some so) ∧ so.numSymbols ≠ .ok d.syms.length := by
  obtain ⟨so, h1, h2⟩ := seg_num_symbols_fallback d full bytes hc hb ht hs hno hl hsmall
  refine ⟨so, h1, ?_⟩
  rw [h2]
  unfold specFallbackCount
  simp only [hse, if_true]
  have hne : d.fallbackCount elfEnv ≠ some d.syms.length := by
    intro h; simp [DynDesc.fallbackExact, h] at hex
  cases hf : d.fallbackCount elfEnv with
  | none => simp
  | some n =>
    intro h
    cases h
    exact hne hf

/-! ### incomplete dynamic information: exception classes and stopping points -/

/-- no string table by any route (object constructed without one, DT_STRTAB absent or outside every
    PT_LOAD, no section called `.dynstr`): `_get_stringtable()` is `None` -/
theorem stringtable_none (c : ElfCfg) (data : Bytes) (ifc : FileIfc) (d : Dyn) (tags : List (Int × Nat))
    (hs : List Val) (V : View c data d tags) (hterm : hasTerminator tags = true) (SV : SegsView ifc hs)
    (hnone : d.strtab = none) (hno : (firstVal (liveTags tags) DT_STRTAB).bind (mapAddr hs) = none)
    (hby : ifc.sectionByName (nm ".dynstr") = .ok none) :
    getStringtable elfEnv (S c) data ifc d = .ok none := by
  have := stringtable_by_name c data ifc d tags hs V hterm SV hnone hno none hby
  simpa using this

/-- … and then no entry can be shown: `iter_tags()`, `num_tags()` and `get_tag(n)` raise ELFError at
    the first entry (`DynamicTag.__init__`); `get_table_offset` is unaffected (`table_offset_exact`
    has no string-table hypothesis) -/
theorem tags_without_stringtable (c : ElfCfg) (data : Bytes) (ifc : FileIfc) (d : Dyn) (tags : List (Int × Nat))
    (V : View c data d tags) (hterm : hasTerminator tags = true)
    (hst : getStringtable elfEnv (S c) data ifc d = .ok none) :
    iterTags elfEnv (S c) data ifc d none = .error .elfError ∧ numTags elfEnv (S c) data ifc d = .error .elfError ∧
    ∀ n, n < tags.length → getTag elfEnv (S c) data ifc d n = .error .elfError :=
  tags_no_strtab V (tags_pos_of_term hterm) hst

/-- … while `get_symbol(i)` reads the record and fails on `None.get_string`: AttributeError -/
theorem symbols_without_stringtable (c : ElfCfg) (data : Bytes) (ifc : FileIfc) (d : Dyn) (tags : List (Int × Nat))
    (hs : List Val) (V : View c data d tags) (hterm : hasTerminator tags = true) (SV : SegsView ifc hs)
    (a symOff : Nat) (ha : firstVal (liveTags tags) DT_SYMTAB = some a) (ho : mapAddr hs a = some symOff)
    (syms : List Fields) (sb rest : Bytes)
    (henc : encAll (S c).Elf_Sym (syms.map .record) = some sb) (hpl : data.drop symOff = sb ++ rest)
    (hst : getStringtable elfEnv (S c) data ifc d = .ok none) (i : Nat) (hi : i < syms.length) :
    getSymbol elfEnv (S c) data ifc d i = .error .attributeError := by
  obtain ⟨es, Y⟩ := symView_of elfEnv c data symOff syms sb rest henc hpl
  exact getSymbol_no_strtab V (tag_facts c).null hterm SV (tag_facts c).symtab ha ho Y hst i hi

/-- the tags of the image without section headers whose DT_STRTAB is absent or outside every
    PT_LOAD: ELFError from both enumerations -/
theorem seg_tags_no_strtab (d : DynDesc) (bytes : Bytes)
    (hc : (d.container false).wf elfEnv = true) (hb : d.wfBase elfEnv = true)
    (hterm : hasTerminator d.tags = true) (hr : d.strRoute elfEnv false = .none)
    (hl : DynLayout d false bytes) (hsmall : bytes.length < 2 ^ 63) :
    segObs bytes = .ok (some ⟨.error .elfError, .error .elfError⟩) := by
  have F := tag_facts d.cfg
  obtain ⟨f, dy, X⟩ := segBase_of sh_types hc hb hl hsmall
  have hst := strtab_none X F.null F.strtab hterm hr
  have V : View d.cfg f.data dy d.tags := by have := X.view; rwa [X.S] at this
  rw [X.S] at hst
  have e := tags_without_stringtable d.cfg f.data (realIfc elfEnv f) dy d.tags V hterm hst
  unfold segObs
  simp only [X.opened, X.seg, bind, Except.bind, pure, Except.pure, tagObs, X.S]
  have e1 : iterTags elfEnv d.S f.data (realIfc elfEnv f) dy none = _ := e.1
  have e2 : numTags elfEnv d.S f.data (realIfc elfEnv f) dy = _ := e.2.1
  rw [e1, e2]

/-- a dynamic table that runs off the end of the file without DT_NULL (at most a partial entry
    follows the stored ones): every stored entry is still produced by `get_tag(n)`, each with its
    string; the entry after the last raises ELFParseError, and so do `list(iter_tags())` and
    `num_tags()` -/
theorem tags_truncated (c : ElfCfg) (data : Bytes) (ifc : FileIfc) (d : Dyn) (tags : List (Int × Nat))
    (strtab : Bytes) (tab : StrTab)
    (V : View c data d tags) (hnt : hasTerminator tags = false)
    (hend : data.length < d.offset + tags.length * (2 * (c.cls / 8)) + 2 * (c.cls / 8))
    (hst : getStringtable elfEnv (S c) data ifc d = .ok (some tab)) (hserve : Serves data tab strtab)
    (hstr : StringsOk (sunw c) strtab tags) :
    iterTags elfEnv (S c) data ifc d none = .error .elfParseError ∧
    numTags elfEnv (S c) data ifc d = .error .elfParseError ∧
    (∀ n (hn : n < tags.length),
      getTag elfEnv (S c) data ifc d n = .ok (obsEntry elfEnv (tbl c) (sunw c) strtab tags[n])) ∧
    getTag elfEnv (S c) data ifc d tags.length = .error .elfParseError :=
  tags_trunc ⟨V, hnt, hend⟩ (tag_facts c).null hst (tag_facts c).attr hserve hstr

/-- the tags of a layout whose table runs off the end of the image, string table by the section
    link or a stored DT_STRTAB: ELFParseError from both enumerations -/
theorem seg_tags_truncated (d : DynDesc) (full : Bool) (bytes : Bytes)
    (hc : (d.container full).wf elfEnv = true) (hb : d.wfBase elfEnv = true)
    (hnt : hasTerminator d.tags = false) (hstrs : stringsOk d = true)
    (hok : d.strOk elfEnv full = true) (hr : d.strRoute elfEnv full ≠ .byName)
    (hl : DynLayout d full bytes) (hsmall : bytes.length < 2 ^ 63)
    (hend : bytes.length < d.dynOff + d.tags.length * (2 * d.w) + 2 * d.w) :
    segObs bytes = .ok (some ⟨.error .elfParseError, .error .elfParseError⟩) := by
  have F := tag_facts d.cfg
  obtain ⟨f, dy, X⟩ := segBase_of sh_types hc hb hl hsmall
  have T := truncView_of X hnt X.offset hend
  obtain ⟨tab, hst, hserve⟩ := strtab_of_route_trunc X T F.null F.strtab hok hr
  have V : View d.cfg f.data dy d.tags := by have := X.view; rwa [X.S] at this
  rw [X.S] at hst
  have hstr : StringsOk (sunw d.cfg) d.strtab d.tags := by
    have := stringsOk_tags hstrs
    rwa [live_noTerm hnt] at this
  have hend' : f.data.length < dy.offset + d.tags.length * (2 * (d.cfg.cls / 8)) + 2 * (d.cfg.cls / 8) := by
    rw [X.data, X.offset]; exact hend
  have e := tags_truncated d.cfg f.data (realIfc elfEnv f) dy d.tags d.strtab tab V hnt hend' hst hserve hstr
  unfold segObs
  simp only [X.opened, X.seg, bind, Except.bind, pure, Except.pure, tagObs, X.S]
  have e1 : iterTags elfEnv d.S f.data (realIfc elfEnv f) dy none = _ := e.1
  have e2 : numTags elfEnv d.S f.data (realIfc elfEnv f) dy = _ := e.2.1
  rw [e1, e2]


/-- DT_SYMTAB absent or outside every PT_LOAD and no hash table reachable, whole file: the count,
    the enumeration and every lookup by name raise ELFError (no string table is needed to say so) -/
theorem seg_symbols_unmapped (d : DynDesc) (full : Bool) (bytes : Bytes)
    (hc : (d.container full).wf elfEnv = true) (hb : d.wfBase elfEnv = true)
    (hterm : hasTerminator d.tags = true) (hno : d.noHash elfEnv = true)
    (hun : ((firstVal d.live DT_SYMTAB).bind (mapAddr (d.phdrs elfEnv))).isNone = true)
    (hl : DynLayout d full bytes) (hsmall : bytes.length < 2 ^ 63) :
    symObs bytes = .ok (some ⟨.error .elfError, .error .elfError⟩) ∧
    ∀ q, byNameObs bytes q = .ok (some (.error .elfError)) := by
  obtain ⟨f, dy, X⟩ := segBase_of sh_types hc hb hl hsmall
  have V : View d.cfg f.data dy d.tags := by have := X.view; rwa [X.S] at this
  simp only [DynDesc.noHash, Bool.and_eq_true, Option.isNone_iff_eq_none] at hno
  simp only [Option.isNone_iff_eq_none] at hun
  obtain ⟨h1, h2, h3⟩ := (symbol_table_unmapped d.cfg f.data (realIfc elfEnv f) dy d.tags (d.phdrs elfEnv) V hterm X.segs
    (iterSegments elfEnv d.S f.data f.header f.shstr) hun).2 hno.1 hno.2
  have e1 : numSymbols elfEnv d.S f.data (realIfc elfEnv f) dy (iterSegments elfEnv d.S f.data f.header f.shstr) d.le
      = .error .elfError := h1
  have e2 : iterSymbols elfEnv d.S f.data (realIfc elfEnv f) dy (iterSegments elfEnv d.S f.data f.header f.shstr) d.le
      = .error .elfError := h2
  refine ⟨?_, fun q => ?_⟩
  · unfold symObs
    simp only [X.opened, X.seg, bind, Except.bind, pure, Except.pure, X.S, X.le]
    rw [e1, e2]
  · have e3 : getSymbolByName elfEnv d.S f.data (realIfc elfEnv f) dy
        (iterSegments elfEnv d.S f.data f.header f.shstr) d.le q = .error .elfError := h3 q
    unfold byNameObs
    simp only [X.opened, X.seg, bind, Except.bind, pure, Except.pure, X.S, X.le]
    rw [e3]

/-- the whole-file theorems above speak of any byte string carrying a layout; the assembler's output
    is one whenever the regions do not overlap (descriptions outside `DynDesc.wf` included) -/
theorem assembled_is_layout (d : DynDesc) (full : Bool) (bytes : Bytes) (hok : d.regionsOk full = true)
    (h : d.assemble full = some bytes) : DynLayout d full bytes :=
  assemble_dynLayout_of_regionsOk hok h

/-! ### the fallback on concrete images: an exact case, and THE COUNTEREXAMPLE

  A 64-bit LSB image: the dynamic table at offset 0 (5 entries), one PT_LOAD mapping addresses
  0x200–0x23f to offsets 0x50–0x8f, two symbol records at address 0x200 (offset 0x50), the string
  table directly behind them at address 0x230.  No hash table.
  * `exFbTagsOk`: DT_STRSZ = 5 — the nearest value above 0x200 is DT_STRTAB = 0x230 = the true end:
    two symbols are counted.
  * `exFbTagsBad`: the same with DT_STRSZ = 0x210 (a 528-byte string table — an ordinary size).
    DT_STRSZ is not a pointer, but the fallback compares `d_ptr` of every entry: 0x210 is the
    nearest value above 0x200, and (0x210 − 0x200) div 24 = 0 symbols are counted. -/

def exFbTagsOk : List (Int × Nat) := [(DT_SYMTAB, 0x200), (DT_STRTAB, 0x230), (10, 5), (DT_SYMENT, 24), (DT_NULL, 0)]
def exFbTagsBad : List (Int × Nat) := [(DT_SYMTAB, 0x200), (DT_STRTAB, 0x230), (10, 0x210), (DT_SYMENT, 24), (DT_NULL, 0)]
def w8' (a b : Nat) : Bytes := [UInt8.ofNat a, UInt8.ofNat b, 0, 0, 0, 0, 0, 0]
def exFbTable (strsz : Bytes) : Bytes :=
  w8 6 ++ w8' 0 2 ++ w8 5 ++ w8' 0x30 2 ++ w8 10 ++ strsz ++ w8 11 ++ w8 24 ++ w8 0 ++ w8 0
def exFbStr : Bytes := [0, 0x61, 0, 0x62, 0x63, 0, 0x66, 0]
def exFbData (strsz : Bytes) : Bytes := exFbTable strsz ++ exSymBytes ++ exFbStr
def exFbPhdr : Val :=
  .record [("p_type", .str "PT_LOAD"), ("p_offset", .int 0x50), ("p_vaddr", .int 0x200), ("p_filesz", .int 0x40)]
def exFbIfc : FileIfc := ⟨.ok 1, fun _ => .ok ("Segment", exFbPhdr), fun _ => .ok none⟩
def exFbDyn : Dyn := ⟨some (.dynamic 0x80), 0, false, 16⟩
def exFbSegs : R (List (String × Val)) := .ok [("Segment", exFbPhdr)]

theorem exFbOk_enc : encAll (dynCon true 8 (tbl exCfg)) (exFbTagsOk.map rawTag) = some (exFbTable (w8 5)) := by
  simp [encAll, exFbTagsOk, rawTag, dynCon, st, mkFields, f, enumOf, Con.encodeRaw, ConFields.encodeRaw, Fields.get?,
    DT_SYMTAB, DT_STRTAB, DT_SYMENT, DT_NULL, bind, Option.bind, pure]
  decide

theorem exFbBad_enc : encAll (dynCon true 8 (tbl exCfg)) (exFbTagsBad.map rawTag) = some (exFbTable (w8' 0x10 2)) := by
  simp [encAll, exFbTagsBad, rawTag, dynCon, st, mkFields, f, enumOf, Con.encodeRaw, ConFields.encodeRaw, Fields.get?,
    DT_SYMTAB, DT_STRTAB, DT_SYMENT, DT_NULL, bind, Option.bind, pure]
  decide

theorem exFb_segs : SegsView exFbIfc [exFbPhdr] where
  num := rfl
  get := fun i hi => ⟨"Segment", by
    have : i = 0 := by simpa using hi
    subst this; rfl⟩
  ok := fun h hh => by
    have : h = exFbPhdr := by simpa using hh
    subst this
    exact ⟨.str "PT_LOAD", 0x200, 0x40, 0x50, rfl, rfl, rfl, rfl⟩

theorem exFbOk_view : View exCfg (exFbData (w8 5)) exFbDyn exFbTagsOk where
  con := rfl
  wpos := by decide
  nonempty := rfl
  tagsize := rfl
  placed := ⟨exFbTable (w8 5), exSymBytes ++ exFbStr, exFbOk_enc, by simp [exFbData, exFbDyn]⟩
  small := by simp [exFbData, exFbTable, w8, w8', exSymBytes, exFbStr]

theorem exFbBad_view : View exCfg (exFbData (w8' 0x10 2)) exFbDyn exFbTagsBad where
  con := rfl
  wpos := by decide
  nonempty := rfl
  tagsize := rfl
  placed := ⟨exFbTable (w8' 0x10 2), exSymBytes ++ exFbStr, exFbBad_enc, by simp [exFbData, exFbDyn]⟩
  small := by simp [exFbData, exFbTable, w8, w8', exSymBytes, exFbStr]

theorem symSz_ex : symSz exCfg = 24 := by
  simp [symSz, S, exCfg, elfStructs, st, mkFields, f, enumOf, Con.sizeof, ConFields.sizeof, bind, Option.bind]

theorem exFb_serves (data : Bytes) : Serves data (.dynamic 0x80) [] := by
  intro v s h
  simp [strAt, firstNul] at h

/-- non-vacuity of `num_symbols_fallback` / `…_exact_iff`: a concrete image on which the fallback
    counts the two stored symbols -/
theorem num_symbols_fallback_example :
    numSymbols elfEnv (S exCfg) (exFbData (w8 5)) exFbIfc exFbDyn exFbSegs true = .ok 2 ∧
    FallbackExact (symSz exCfg) [exFbPhdr] (liveTags exFbTagsOk) 2 := by
  have h := num_symbols_fallback exCfg (exFbData (w8 5)) exFbIfc exFbDyn exFbTagsOk [exFbPhdr] exFbOk_view (by decide)
    exFb_segs exFbSegs [("Segment", exFbPhdr)] rfl rfl (by decide) (by decide) 0x200 0x50 (by decide) (by decide)
    (.dynamic 0x80) [] (stringtable_by_link exCfg _ _ exFbDyn _ rfl) (exFb_serves _)
    (fun t ht => Or.inl (by revert t ht; decide))
  rw [symSz_ex] at h
  have h2 : numSymbols elfEnv (S exCfg) (exFbData (w8 5)) exFbIfc exFbDyn exFbSegs true = .ok 2 := by
    rw [show (true : Bool) = exCfg.le from rfl, h]; rfl
  refine ⟨h2, ?_⟩
  rw [symSz_ex]
  exact ⟨0x200, 0x230, by decide, by decide, by decide, by decide⟩

/-- THE COUNTEREXAMPLE.  The symbol table DT_SYMTAB designates holds two records (`SymView`) and the
    string table follows it directly, yet `num_symbols()` is 0: the fallback takes the value of
    DT_STRSZ (0x210, between DT_SYMTAB = 0x200 and DT_STRTAB = 0x230) for the nearest following
    pointer.  `iter_symbols()` then yields nothing and `get_symbol_by_name` finds nothing.  So
    without a hash table the count is exact only under `FallbackExact`. -/
theorem num_symbols_fallback_counterexample :
    (∃ es, SymView elfEnv (S exCfg) (exFbData (w8' 0x10 2)) 0x50 [exSym 0, exSym 6] es) ∧
    getTableOffset elfEnv (S exCfg) (exFbData (w8' 0x10 2)) exFbIfc exFbDyn "DT_SYMTAB" = .ok (some 0x200, some 0x50) ∧
    numSymbols elfEnv (S exCfg) (exFbData (w8' 0x10 2)) exFbIfc exFbDyn exFbSegs true = .ok 0 ∧
    iterSymbols elfEnv (S exCfg) (exFbData (w8' 0x10 2)) exFbIfc exFbDyn exFbSegs true = .ok [] ∧
    ¬ FallbackExact (symSz exCfg) [exFbPhdr] (liveTags exFbTagsBad) 2 := by
  have h := num_symbols_fallback exCfg (exFbData (w8' 0x10 2)) exFbIfc exFbDyn exFbTagsBad [exFbPhdr] exFbBad_view
    (by decide) exFb_segs exFbSegs [("Segment", exFbPhdr)] rfl rfl (by decide) (by decide) 0x200 0x50 (by decide)
    (by decide) (.dynamic 0x80) [] (stringtable_by_link exCfg _ _ exFbDyn _ rfl) (exFb_serves _)
    (fun t ht => Or.inl (by revert t ht; decide))
  rw [symSz_ex] at h
  have h2 : numSymbols elfEnv (S exCfg) (exFbData (w8' 0x10 2)) exFbIfc exFbDyn exFbSegs true = .ok 0 := by
    rw [show (true : Bool) = exCfg.le from rfl, h]; rfl
  refine ⟨symView_of elfEnv exCfg _ 0x50 _ exSymBytes exFbStr exSym_enc (by decide), ?_, h2, ?_, ?_⟩
  · have := table_offset_exact exCfg _ exFbIfc exFbDyn exFbTagsBad [exFbPhdr] exFbBad_view (by decide) exFb_segs
      ("DT_SYMTAB", DT_SYMTAB) (by simp)
    rw [this]; rfl
  · unfold iterSymbols
    rw [h2]; rfl
  · rw [symSz_ex]
    intro ⟨a, e, ha, he, h1, h2⟩
    have ha' : a = 0x200 := by
      have : firstVal (liveTags exFbTagsBad) DT_SYMTAB = some 0x200 := by decide
      rw [this] at ha; exact (Option.some.inj ha).symm
    subst ha'
    have he' : e = 0x210 := by
      have : fallbackEnd [exFbPhdr] (liveTags exFbTagsBad) 0x200 = some 0x210 := by decide
      rw [this] at he; exact (Option.some.inj he).symm
    subst he'
    omega


/-! ### non-vacuity of the remaining hypotheses -/

/-- lookups over a concrete enumeration: duplicates in index order, absent name -/
example : byNameOf [([0x66], .int 1), ([0x67], .int 2), ([0x66], .int 3)] [0x66]
    = some [([0x66], .int 1), ([0x66], .int 3)] := rfl
example : byNameOf [([0x66], .int 1), ([0x67], .int 2), ([0x66], .int 3)] [0x68] = none := rfl
example : minAbove [5, 0x230, 0x210, 24, 0] 0x200 = some 0x210 ∧ minAbove [5, 24, 0] 0x200 = none := by decide
example : segEnd [exFbPhdr] 0x200 = some 0x240 ∧ segEnd [exFbPhdr] 0x240 = some 0x240 ∧ segEnd [exFbPhdr] 0x241 = none := by
  decide

theorem exView : View exCfg exData ⟨none, 3, false, 16⟩ exTags where
  con := rfl
  wpos := by decide
  nonempty := rfl
  tagsize := rfl
  placed := ⟨exTable, [4, 5], exTable_enc, by decide⟩
  small := by decide

/-- a file object without program headers and without sections -/
def exIfc0 : FileIfc := ⟨.ok 0, fun _ => .error .indexError, fun _ => .ok none⟩
theorem exSegs0 : SegsView exIfc0 [] where
  num := rfl
  get := fun i hi => by simp at hi
  ok := fun h hh => by simp at hh

/-- `stringtable_none` / `tags_without_stringtable` on a concrete object: DT_STRTAB = 0x1000 maps
    nowhere (no PT_LOAD), no `.dynstr` section -/
example : getStringtable elfEnv (S exCfg) exData exIfc0 ⟨none, 3, false, 16⟩ = .ok none ∧
    iterTags elfEnv (S exCfg) exData exIfc0 ⟨none, 3, false, 16⟩ none = .error .elfError := by
  have h := stringtable_none exCfg exData exIfc0 _ exTags [] exView (by decide) exSegs0 rfl (by decide) rfl
  exact ⟨h, (tags_without_stringtable exCfg exData exIfc0 _ exTags exView (by decide) h).1⟩

/-- `symbol_table_unmapped` on the same object (no DT_SYMTAB at all) -/
example : getSymbol elfEnv (S exCfg) exData exIfc0 ⟨none, 3, false, 16⟩ 0 = .error .elfError :=
  (symbol_table_unmapped exCfg exData exIfc0 _ exTags [] exView (by decide) exSegs0 (.ok []) (by decide)).1 0

/-- a table that runs off the end: NEEDED, STRTAB and then the file ends -/
def exTruncTags : List (Int × Nat) := [(DT_NEEDED, 1), (DT_STRTAB, 0x1000)]
def exTruncTable : Bytes := w8 1 ++ w8 1 ++ w8 5 ++ [0, 0x10, 0, 0, 0, 0, 0, 0]
def exTruncData : Bytes := [1, 2, 3] ++ exTruncTable ++ [9]

theorem exTrunc_enc : encAll (dynCon true 8 (tbl exCfg)) (exTruncTags.map rawTag) = some exTruncTable := by
  simp [encAll, exTruncTags, rawTag, dynCon, st, mkFields, f, enumOf, Con.encodeRaw, ConFields.encodeRaw, Fields.get?,
    DT_NEEDED, DT_STRTAB, bind, Option.bind, pure]
  decide

theorem exTrunc_view : View exCfg exTruncData ⟨some (.dynamic 0), 3, false, 16⟩ exTruncTags where
  con := rfl
  wpos := by decide
  nonempty := rfl
  tagsize := rfl
  placed := ⟨exTruncTable, [9], exTrunc_enc, by decide⟩
  small := by decide

/-- `tags_truncated` on a concrete object (string table `[0, 0x61, 0]` assumed served) -/
example (hserve : Serves exTruncData (.dynamic 0) [0, 0x61, 0]) :
    iterTags elfEnv (S exCfg) exTruncData exIfc0 ⟨some (.dynamic 0), 3, false, 16⟩ none = .error .elfParseError :=
  (tags_truncated exCfg exTruncData exIfc0 _ exTruncTags [0, 0x61, 0] (.dynamic 0) exTrunc_view (by decide) (by decide)
    (stringtable_by_link exCfg _ _ _ _ rfl) hserve (by
      intro t ht
      simp only [exTruncTags, List.mem_cons, List.not_mem_nil, or_false] at ht
      rcases ht with rfl | rfl
      · exact Or.inr (by decide)
      · exact Or.inl (by decide))).1

/-! ### the lazily built caches of `DynamicSegment` (`_num_symbols`, `_symbol_name_map`) -/

/-- num_symbols_history_independent.  For ANY image and ANY dynamic table (no well-formedness): the k-th call of
    `num_symbols()` on one object answers what the first call on a fresh object answers — the stateless count
    `numSymbols` all the count theorems above are about — also after calls that raised (nothing is assigned then). -/
theorem num_symbols_history_independent (env : Env) (S : ElfStructs) (data : Bytes) (ifc : FileIfc) (d : Dyn)
    (iterSegs : R (List (String × Val))) (le : Bool) (k : Nat) :
    (numHist env S data ifc d iterSegs le k).1 = List.replicate k (numSymbols env S data ifc d iterSegs le) := by
  unfold numHist
  rw [(Proofs.SigCache.run_answers _ _ _ _ (Proofs.SigCache.inv_init _)).1, List.map_replicate]
  congr 1
  unfold Model.SigCache.stateless numScan
  cases numSymbols env S data ifc d iterSegs le <;> rfl

/-- by_name_history_independent.  For ANY image: after ANY history of `get_symbol_by_name` calls on one object —
    repeated names, absent names, calls whose walk raised — every answer is the stateless `getSymbolByName` (the
    function `by_name_exact` / `seg_by_name_exact` / `by_name_of_enumeration` are about).  The harness's segment view
    asks every second name on the walked object itself (after an abandoned partial `iter_symbols()`), the others on
    fresh objects, and compares all of them with the stateless model. -/
theorem by_name_history_independent (env : Env) (S : ElfStructs) (data : Bytes) (ifc : FileIfc) (d : Dyn)
    (iterSegs : R (List (String × Val))) (le : Bool) (qs : List Bytes) :
    (nameHist env S data ifc d iterSegs le qs).1 = qs.map (getSymbolByName env S data ifc d iterSegs le) := by
  unfold nameHist
  rw [(Proofs.SigCache.run_answers _ _ _ _ (Proofs.SigCache.inv_init _)).1]
  apply List.map_congr_left
  intro q _
  unfold Model.SigCache.stateless nameScan getSymbolByName nameLook
  cases iterSymbols env S data ifc d iterSegs le <;> rfl

/-- composed with `by_name_of_enumeration`: over any object whose enumeration is exact, after ANY history of
    `get_symbol_by_name` calls every answer is "all enumerated symbols bearing the name, in index order, or None" -/
theorem by_name_of_enumeration_any_history (c : ElfCfg) (data : Bytes) (ifc : FileIfc) (d : Dyn)
    (iterSegs : R (List (String × Val))) (L : List (Bytes × Val))
    (hit : iterSymbols elfEnv (S c) data ifc d iterSegs c.le = .ok L)
    (hget : ∀ i (h : i < L.length), getSymbol elfEnv (S c) data ifc d i = .ok L[i]) (qs : List Bytes) :
    (nameHist elfEnv (S c) data ifc d iterSegs c.le qs).1 = qs.map (fun q => .ok (byNameOf L q)) := by
  rw [by_name_history_independent]
  exact List.map_congr_left (fun q _ => by_name_of_enumeration c data ifc d iterSegs L hit hget q)

/-- a walk that raised publishes no name map: the next call walks again (fix d3667cb: a half-built map used to answer) -/
theorem by_name_failed_walk_publishes_nothing (env : Env) (S : ElfStructs) (data : Bytes) (ifc : FileIfc) (d : Dyn)
    (iterSegs : R (List (String × Val))) (le : Bool) (e : Err)
    (he : iterSymbols env S data ifc d iterSegs le = .error e) (qs : List Bytes) :
    (nameHist env S data ifc d iterSegs le qs).2.map.isSome = false := by
  unfold nameHist
  rw [Proofs.SigCache.run_published]
  unfold nameScan
  rw [he]
  simp

end PyElf.Props.C09
