/-
  C08 — relocation tables decode exactly; debug-section relocation follows the psABI.

  Property theorems only.  The struct bundle is `Spec.elfStructs cfg` (tied to the
  regenerated bundles by Props/TieC08.lean); `pre`/`rest` are arbitrary surrounding
  bytes (the rest of the file).
-/
import PyElf.Spec.Reloc
import PyElf.Model.Relocation
import PyElf.Proofs.Reloc
import PyElf.Proofs.Relr
import PyElf.Proofs.RelocApply
import PyElf.Proofs.RelocSection
import PyElf.Proofs.RelocSym
import PyElf.Proofs.RelocDyn
import PyElf.Props.TieC08
namespace PyElf.Props.C08
open PyElf PyElf.Spec PyElf.Spec.RelocDyn PyElf.Model PyElf.Model.Reloc PyElf.Proofs PyElf.Proofs.Reloc PyElf.Proofs.RelocDyn

/-! ### REL / RELA tables (sections and dynamic tables share `RelocationTable`) -/

/-- A table of `es` (any length, any field values in range, negative addends, MIPS64 sub-fields) placed anywhere in a
    file: the table object is built, `num_relocations` is the number of entries, `iter_relocations` yields exactly the
    encoded entries and `get_relocation(n)` the n-th one. -/
theorem rel_roundtrip (cfg : ElfCfg) (hcls : cfg.cls = 32 ∨ cfg.cls = 64) (env : Env) (rela : Bool)
    (es : List RelEntry) (hwf : ∀ e ∈ es, WFRel (relCfgOf cfg) rela e = true) (pre rest : Bytes)
    (hfit : pre.length + es.length * relEntSize (relCfgOf cfg) rela ≤ 2 ^ 63) :
    let c := relCfgOf cfg
    let data := pre ++ encRelTable c rela es ++ rest
    ∃ t, mkTable (Spec.elfStructs cfg) (some pre.length) (encRelTable c rela es).length rela = .ok t ∧
      t.isRela = rela ∧ t.entrySize = relEntSize c rela ∧
      numRelocations t = .ok es.length ∧
      iterRelocations env data t = .ok (es.map (observeRel c rela)) ∧
      ∀ n (h : n < es.length), getRelocation env data t n = .ok (observeRel c rela es[n]) := by
  intro c data
  refine ⟨_, mkTable_spec cfg hcls _ _ rela, rfl, rfl, numRelocations_spec cfg hcls rela es _, ?_, ?_⟩
  · exact iterRelocations_spec cfg hcls env rela es hwf (drop_pre pre _ rest) hfit
  · intro n h
    exact getRelocation_spec cfg hcls env rela es hwf (drop_pre pre _ rest) hfit n h

/-- one entry, at any position: every field of the parsed entry is the encoded one (r_info split for ELF32/ELF64,
    the MIPS64 packed layout, the signed addend) and exactly the entry's bytes are consumed -/
theorem rel_entry_roundtrip (cfg : ElfCfg) (hcls : cfg.cls = 32 ∨ cfg.cls = 64) (env : Env) (rela : Bool) (e : RelEntry)
    (hwf : WFRel (relCfgOf cfg) rela e = true) (pre rest : Bytes) :
    structParse env (if rela then (Spec.elfStructs cfg).Elf_Rela else (Spec.elfStructs cfg).Elf_Rel)
        (pre ++ encRel (relCfgOf cfg) rela e ++ rest) pre.length
      = .ok (observeRel (relCfgOf cfg) rela e, pre.length + relEntSize (relCfgOf cfg) rela) :=
  parse_rel_entry cfg hcls env rela e hwf (drop_pre pre _ rest)

/-- `RelocationSection` guard: a section whose sh_entsize is not the entry size is the library's ELFError -/
theorem relsec_entsize_guard (cfg : ElfCfg) (hcls : cfg.cls = 32 ∨ cfg.cls = 64) (rela : Bool)
    (shOffset shSize shEntsize : Nat) (h : shEntsize ≠ relEntSize (relCfgOf cfg) rela) :
    relocSectionInit (Spec.elfStructs cfg) (.str (if rela then "SHT_RELA" else "SHT_REL")) shOffset shSize shEntsize
      = .error .elfError := by
  unfold relocSectionInit
  have hr : (Val.str (if rela then "SHT_RELA" else "SHT_REL") == Val.str "SHT_RELA") = rela := by
    cases rela <;> decide
  rw [hr, mkTable_spec cfg hcls]
  cases rela <;> simp [bind, Except.bind, specTable, h] <;> rfl

/-! ### RELR -/

/-- every RELR stream (any mix of anchors and bitmaps, any bit pattern) expands to exactly the address sequence the
    encoding denotes; a bitmap before any anchor is the library's ELFError -/
theorem relr_eq_std (cfg : ElfCfg) (hcls : cfg.cls = 32 ∨ cfg.cls = 64) (env : Env) (ws : List Nat)
    (hws : ∀ x ∈ ws, x < 2 ^ cfg.cls) (pre rest : Bytes) (hfit : pre.length + ws.length * (cfg.cls / 8) ≤ 2 ^ 63) :
    let w := cfg.cls / 8
    ∃ t, relrInit (Spec.elfStructs cfg) (some pre.length) (encRelr cfg.le w ws).length w = .ok t ∧
      relrIter env (pre ++ encRelr cfg.le w ws ++ rest) t
        = match relrStd w none ws with
          | some xs => .ok xs
          | none => .error .elfError := by
  intro w
  refine ⟨_, relrInit_spec cfg _ _, ?_⟩
  have hw : 1 ≤ w ∧ 8 * w = cfg.cls := by rcases hcls with h | h <;> simp [w, h]
  exact relrIter_spec env cfg.le w hw.1 ws (by rw [hw.2]; exact hws) pre rest hfit

/-- the bit-level core: the shift-until-zero loop over one bitmap word is the standard's bitmap expansion -/
theorem relr_bitmap_eq_std (base w word : Nat) (hw : 1 ≤ w) (h : word < 2 ^ (8 * w)) :
    relrBitmapLoop base w (8 * w) word 0 = .ok (relrBitmap w base word) := by
  have hb := relrBitmapLoop_eq base w (8 * w - 1) word 0 (by rw [show 8 * w - 1 + 1 = 8 * w by omega]; exact h)
  rw [show 8 * w - 1 + 1 = 8 * w by omega] at hb
  rw [hb]; simp [relrBitmap]

/-- RELR entry-size guard -/
theorem relr_entsize_guard (cfg : ElfCfg) (off : Option Nat) (size ent : Nat) (h : ent ≠ cfg.cls / 8) :
    relrInit (Spec.elfStructs cfg) off size ent = .error .elfError := by
  unfold relrInit
  simp [spec_Elf_Relr, st, f, mkFields, conSizeof, fieldsSizeof, bind, Except.bind, pure, Except.pure]
  intro h'; exact absurd h'.symm h

/-! ### recipes against the processor supplements -/

/-- kernel-checked walk: for every (machine, flavour, type) the psABI table lists, the library's recipe dict for that
    machine/flavour has an entry of the psABI's field width whose calc function computes the psABI's formula —
    for all symbol values, addends, places and in-place values (REL: the in-place value is the addend). -/
theorem recipes_match_psabi (a : Arch) (rela : Bool) (t w : Nat) (fm : Formula) (h : psabi a rela t = some (w, fm)) :
    ∃ r fn, recipeGet (recipeTable a rela) (t : Int) = .ok (some r) ∧
      (fm ≠ .keep → r.bytesize = w) ∧ (r.bytesize = 1 ∨ r.bytesize = 2 ∨ r.bytesize = 4 ∨ r.bytesize = 8) ∧
      Gen.relocCalc r.calcName = some fn ∧ (r.hasAddend = true → rela = true) ∧
      ∀ V S P A : Int, fn V S P (if r.hasAddend then A else 0) = fm.eval S (if rela then A else V) P V := by
  obtain ⟨en, hfind, hwd, hcm⟩ := recipe_listed h
  obtain ⟨fn, hfn, himp, hcalc⟩ := calcMatches_sound hcm
  refine ⟨toRecipe en, fn, ?_, ?_, ?_, hfn, himp, hcalc⟩
  · rw [recipeGet_eq, hfind]; rfl
  · intro hk
    simp only [widthOk, hk, ↓reduceIte, Bool.and_eq_true, beq_iff_eq] at hwd
    exact hwd.1
  · unfold widthOk at hwd
    split at hwd
    · simp only [Bool.and_eq_true, Bool.or_eq_true, beq_iff_eq] at hwd
      rcases hwd.2 with h | h <;> simp [toRecipe, h]
    · simp only [Bool.and_eq_true, Bool.or_eq_true, beq_iff_eq] at hwd
      obtain ⟨hb, hw⟩ := hwd
      show en.2.1 = 1 ∨ en.2.1 = 2 ∨ en.2.1 = 4 ∨ en.2.1 = 8
      rw [hb]; rcases hw with ((h | h) | h) | h <;> simp [h]

/-- conversely, a type the psABI table does not list (and that is not the unclaimed R_ARM_CALL) has no recipe -/
theorem recipes_only_psabi (a : Arch) (rela : Bool) (t : Nat) (hf : flavourOk a rela = true)
    (h : psabi a rela t = none) (hu : unclaimed a rela t = false) :
    recipeGet (recipeTable a rela) (t : Int) = .ok none := by
  rw [recipeGet_eq, recipe_unlisted hf h hu]; rfl

/-! ### applying one relocation -/

/-- Model = standard for one relocation once the symbol value is known: the field holds the psABI formula's value
    truncated to the field width in the file's byte order and every other byte is unchanged (`Spec.writeField`);
    R_*_NONE changes nothing; wrong flavour, unlisted type and MIPS64 composite R_MIPS_64 are ELFRelocationError. -/
theorem apply_eq_std (a : Arch) (c : RelCfg) (hm : c.mips = decide (a = .mips)) (rela : Bool) (sec : Bytes)
    (e : RelEntry) (s : Nat) (hwf : WFApplyOne a c rela sec.length e = true) (hlen : sec.length < 2 ^ 63) :
    applyWithSym c.le c.cls (archString a) sec (observeRel c rela e) (s : Int) =
      match applyAfterSym a c rela s sec e with
      | some b => .ok b
      | none => .error .elfRelocError :=
  applyWithSym_eq_std a c hm rela sec e s hwf hlen

/-- frame + value, spelled out: after a successful read–compute–wrap–write the length is unchanged, every byte outside
    `[off, off+w)` is unchanged, and the field decodes (in the file's byte order) to the computed value mod 2^(8w) -/
theorem apply_frame (le : Bool) (w : Nat) (sec : Bytes) (off : Nat) (v : Int) (h : off + w ≤ sec.length) :
    (writeField le w sec off v).length = sec.length ∧
    (writeField le w sec off v).take off = sec.take off ∧
    (writeField le w sec off v).drop (off + w) = sec.drop (off + w) ∧
    readField le w (writeField le w sec off v) off = (v % ((2 ^ (8 * w) : Nat) : Int)).toNat :=
  writeField_frame le w sec off v h

/-
  Whole section, symbol table included.  `apply_section_eq_std` (below) is the full statement: the file holds the
  relocation table `encRelTable c rela es` at `base` and the symbol table `syms.flatMap (rel_encSym cfg.le cfg.cls)` at
  `symtab.shOffset`, with `symtab.shEntsize = symEntSize cfg.cls`, `symtab.shSize = syms.length * symEntSize cfg.cls`.
  `apply_section_eq_std_partial` is the earlier form with the abstract hypothesis `hsym` (parsing symbol `i` with
  `Elf_Sym` yields `st_value = syms[i]`) in place of the symbol table's encoding; it is kept because it also covers
  symbol tables that are not value-only (any entry whose parse succeeds with that `st_value`).  `hsym` is discharged
  for the Spec encoder by `symtab_entry_st_value` (via C03's `sym_roundtrip32/64`: `rel_encSym` is C03's `encSym` of
  the entry ⟨0, value, 0, 0, 0, 0⟩).
-/
/-- Model = standard for a whole relocation section applied to a debug section: relocations are decoded from the
    table one by one and applied in order; the result is the standard's fold, or ELFRelocationError as soon as one
    entry must be rejected. -/
theorem apply_section_eq_std_partial (cfg : ElfCfg) (hcls : cfg.cls = 32 ∨ cfg.cls = 64) (env : Env) (a : Arch)
    (hm : (relCfgOf cfg).mips = decide (a = .mips)) (rela : Bool) (es : List RelEntry) (syms : List Nat) (sec : Bytes)
    (symtab : SymTab) (pre rest : Bytes)
    (hfit : pre.length + es.length * relEntSize (relCfgOf cfg) rela ≤ 2 ^ 63)
    (hwf : WFApply a (relCfgOf cfg) rela syms sec.length es = true)
    (hent : symtab.shEntsize ≠ 0) (hcount : symtab.shSize / symtab.shEntsize = syms.length)
    (hsym : ∀ i (h : i < syms.length), ∃ symv,
      seekParse env (Spec.elfStructs cfg).Elf_Sym (pre ++ encRelTable (relCfgOf cfg) rela es ++ rest)
        (symtab.shOffset + i * symtab.shEntsize) = .ok symv ∧
      symv.getInt "st_value" = .ok (syms[i] : Int)) :
    applySectionRelocations env (Spec.elfStructs cfg) cfg.le cfg.cls (archString a)
        (pre ++ encRelTable (relCfgOf cfg) rela es ++ rest) symtab
        (specTable cfg (some pre.length) (encRelTable (relCfgOf cfg) rela es).length rela) sec
      = match applyStd a (relCfgOf cfg) rela syms sec es with
        | some b => .ok b
        | none => .error .elfRelocError := by
  simp only [WFApply, Bool.and_eq_true, List.all_eq_true, decide_eq_true_eq] at hwf
  obtain ⟨⟨hes, _⟩, hL⟩ := hwf
  unfold applySectionRelocations
  rw [numRelocations_spec cfg hcls rela es]
  have := applyLoop_eq_std cfg hcls env a hm rela es syms sec.length symtab
    (size := (encRelTable (relCfgOf cfg) rela es).length) (drop_pre pre _ rest) hfit hes hL hent hcount hsym
    es.length 0 sec (by omega) rfl
  rw [List.drop_zero] at this
  simp only [bind, Except.bind]
  exact this

/-- The symbol table side, both classes and byte orders: in any file holding `syms.flatMap (rel_encSym le cls)` at
    `symoff`, `Elf_Sym` parsed at `symoff + i · symEntSize` succeeds and `sym['st_value']` is `syms[i]`. -/
theorem symtab_entry_st_value (cfg : ElfCfg) (hcls : cfg.cls = 32 ∨ cfg.cls = 64) (env : Env) (syms : List Nat)
    (hsyms : ∀ s ∈ syms, s < 2 ^ cfg.cls) (data rest : Bytes) (symoff : Nat)
    (hd : data.drop symoff = syms.flatMap (rel_encSym cfg.le cfg.cls) ++ rest)
    (hfit : symoff + syms.length * symEntSize cfg.cls ≤ 2 ^ 63) (i : Nat) (h : i < syms.length) :
    ∃ symv, seekParse env (Spec.elfStructs cfg).Elf_Sym data (symoff + i * symEntSize cfg.cls) = .ok symv ∧
      symv.getInt "st_value" = .ok (syms[i] : Int) :=
  symtab_st_value cfg hcls env syms hsyms hd hfit i h

/-- FULL STATEMENT.  Model = standard for a whole relocation section applied to a debug section, symbol table included:
    `data` is any file that holds the relocation table at `base` and the value-only symbol table at `symtab.shOffset`
    (anything before, between and after them; either order), the symbol-table header describes it (`sh_entsize` the
    ElfN_Sym size, `sh_size` the table's length).  Relocations are decoded one by one, each symbol is fetched from the
    file with `Elf_Sym`, and the result is the standard's fold, or ELFRelocationError as soon as one entry must be
    rejected. -/
theorem apply_section_eq_std (cfg : ElfCfg) (hcls : cfg.cls = 32 ∨ cfg.cls = 64) (env : Env) (a : Arch)
    (hm : (relCfgOf cfg).mips = decide (a = .mips)) (rela : Bool) (es : List RelEntry) (syms : List Nat) (sec : Bytes)
    (symtab : SymTab) (data : Bytes) (base : Nat) (rest rest' : Bytes)
    (hrel : data.drop base = encRelTable (relCfgOf cfg) rela es ++ rest)
    (hsymtab : data.drop symtab.shOffset = syms.flatMap (rel_encSym cfg.le cfg.cls) ++ rest')
    (hentsz : symtab.shEntsize = symEntSize cfg.cls) (hsize : symtab.shSize = syms.length * symEntSize cfg.cls)
    (hfit : base + es.length * relEntSize (relCfgOf cfg) rela ≤ 2 ^ 63)
    (hfitS : symtab.shOffset + syms.length * symEntSize cfg.cls ≤ 2 ^ 63)
    (hwf : WFApply a (relCfgOf cfg) rela syms sec.length es = true) :
    applySectionRelocations env (Spec.elfStructs cfg) cfg.le cfg.cls (archString a) data symtab
        (specTable cfg (some base) (encRelTable (relCfgOf cfg) rela es).length rela) sec
      = match applyStd a (relCfgOf cfg) rela syms sec es with
        | some b => .ok b
        | none => .error .elfRelocError := by
  have hwf' := hwf
  simp only [WFApply, Bool.and_eq_true, List.all_eq_true, decide_eq_true_eq] at hwf'
  obtain ⟨⟨hes, hsy⟩, hL⟩ := hwf'
  have hpos := symEntSize_pos cfg.cls
  have hent : symtab.shEntsize ≠ 0 := by omega
  have hcount : symtab.shSize / symtab.shEntsize = syms.length := by
    rw [hsize, hentsz, Nat.mul_div_cancel _ hpos]
  unfold applySectionRelocations
  rw [numRelocations_spec cfg hcls rela es]
  have := applyLoop_eq_std cfg hcls env a hm rela es syms sec.length symtab
    (size := (encRelTable (relCfgOf cfg) rela es).length) hrel hfit hes hL hent hcount
    (by
      intro i h
      rw [hentsz]
      exact symtab_st_value cfg hcls env syms hsy hsymtab hfitS i h)
    es.length 0 sec (by omega) rfl
  rw [List.drop_zero] at this
  simp only [bind, Except.bind]
  exact this

/-- the same for the concrete layout `pre ++ relocation table ++ mid ++ symbol table ++ post` -/
theorem apply_section_eq_std_layout (cfg : ElfCfg) (hcls : cfg.cls = 32 ∨ cfg.cls = 64) (env : Env) (a : Arch)
    (hm : (relCfgOf cfg).mips = decide (a = .mips)) (rela : Bool) (es : List RelEntry) (syms : List Nat) (sec : Bytes)
    (pre mid post : Bytes)
    (hfit : pre.length + (encRelTable (relCfgOf cfg) rela es).length + mid.length
              + syms.length * symEntSize cfg.cls ≤ 2 ^ 63)
    (hwf : WFApply a (relCfgOf cfg) rela syms sec.length es = true) :
    let relTab := encRelTable (relCfgOf cfg) rela es
    let symTab := syms.flatMap (rel_encSym cfg.le cfg.cls)
    applySectionRelocations env (Spec.elfStructs cfg) cfg.le cfg.cls (archString a)
        (pre ++ relTab ++ mid ++ symTab ++ post)
        ⟨pre.length + relTab.length + mid.length, symTab.length, symEntSize cfg.cls⟩
        (specTable cfg (some pre.length) relTab.length rela) sec
      = match applyStd a (relCfgOf cfg) rela syms sec es with
        | some b => .ok b
        | none => .error .elfRelocError := by
  intro relTab symTab
  have hlen : (encRelTable (relCfgOf cfg) rela es).length = es.length * relEntSize (relCfgOf cfg) rela :=
    encRelTable_length _ hcls rela es
  refine apply_section_eq_std cfg hcls env a hm rela es syms sec _ _ pre.length (mid ++ symTab ++ post) post
    ?_ ?_ rfl (encSymTable_length cfg.le cfg.cls syms) (by omega) (by simpa using hfit) hwf
  · simp [relTab, List.append_assoc]
  · show List.drop (pre.length + relTab.length + mid.length) _ = _
    have e : pre.length + relTab.length + mid.length = (pre ++ relTab ++ mid).length := by
      simp only [List.length_append]
    rw [e, drop_pre]

/-- rejections: a symbol index outside the symbol table is ELFRelocationError (before anything is read) -/
theorem apply_rejects_symbol (env : Env) (S : ElfStructs) (le : Bool) (cls : Nat) (arch : String) (data : Bytes)
    (symtab : SymTab) (stream : Bytes) (c : RelCfg) (rela : Bool) (e : RelEntry)
    (hent : symtab.shEntsize ≠ 0) (h : e.sym ≥ symtab.shSize / symtab.shEntsize) :
    doApplyRelocation env S le cls arch data symtab stream (observeRel c rela e) = .error .elfRelocError :=
  doApply_rejects_sym env S le cls arch data symtab stream c rela e hent h

/-- rejections: wrong REL/RELA flavour for the machine -/
theorem apply_rejects_flavour (a : Arch) (c : RelCfg) (hm : c.mips = decide (a = .mips)) (rela : Bool) (sec : Bytes)
    (e : RelEntry) (s : Int) (hf : flavourOk a rela = false) :
    applyWithSym c.le c.cls (archString a) sec (observeRel c rela e) s = .error .elfRelocError := by
  unfold applyWithSym
  rw [chooseRecipe_spec a c rela e hm]
  simp only [hf, Bool.not_false, ↓reduceIte]
  rfl

/-- rejections: a relocation type outside the supported set -/
theorem apply_rejects_type (a : Arch) (c : RelCfg) (hm : c.mips = decide (a = .mips)) (rela : Bool) (sec : Bytes)
    (e : RelEntry) (s : Nat) (hwf : WFApplyOne a c rela sec.length e = true) (hlen : sec.length < 2 ^ 63)
    (h : psabi a rela e.type = none) :
    applyWithSym c.le c.cls (archString a) sec (observeRel c rela e) (s : Int) = .error .elfRelocError := by
  rw [apply_eq_std a c hm rela sec e s hwf hlen]
  have : applyAfterSym a c rela s sec e = none := by
    unfold applyAfterSym
    rw [h]
    split
    · rfl
    · split <;> rfl
  rw [this]

/-- `relocate_dwarf_sections=False`: the section contents are returned untouched, whatever relocation sections exist -/
theorem relocate_false_identity (env : Env) (S : ElfStructs) (le : Bool) (cls : Nat) (arch : String) (data : Bytes)
    (secs : List Reloc.SecHdr) (symtabOf : Nat → Option SymTab) (name : String) (sectionData : Bytes) :
    readDwarfSection env S le cls arch data secs symtabOf name sectionData false false = .ok sectionData := by
  simp [readDwarfSection, pure, Except.pure]

/-- a section without a `.rel`/`.rela` companion is returned untouched as well -/
theorem relocate_no_relsec_identity (env : Env) (S : ElfStructs) (le : Bool) (cls : Nat) (arch : String) (data : Bytes)
    (secs : List Reloc.SecHdr) (symtabOf : Nat → Option SymTab) (name : String) (sectionData : Bytes)
    (h : findRelocations S name secs = .ok none) :
    readDwarfSection env S le cls arch data secs symtabOf name sectionData true false = .ok sectionData := by
  simp [readDwarfSection, h, bind, Except.bind, pure, Except.pure]

/-! ### dynamic relocation tables: `Dynamic.get_relocation_tables` -/

/-- The dynamic array, both classes and byte orders: the `Elf_Dyn` entries `tags` followed by a DT_NULL entry, placed
    anywhere in a file, are read up to and including the DT_NULL (whatever follows is not looked at); tag numbers are
    presented by name where the environment has one. -/
theorem dyn_tags_roundtrip (cfg : ElfCfg) (hcls : cfg.cls = 32 ∨ cfg.cls = 64) (env : Env)
    (henv : DTagEnv env (dTagTable cfg.mclass cfg.solaris)) (tags : List DynEntry) (nv : Nat)
    (hwf : ∀ e ∈ tags ++ [(DT_NULL, nv)], WFDyn cfg.cls e = true) (hnn : ∀ e ∈ tags, e.1 ≠ DT_NULL)
    (data rest : Bytes) (off : Nat)
    (hd : data.drop off = encDynArray cfg.le cfg.cls (tags ++ [(DT_NULL, nv)]) ++ rest)
    (hfit : off + (tags.length + 1) * (2 * (cfg.cls / 8)) ≤ 2 ^ 63) :
    iterTags env (Spec.elfStructs cfg) data off false
      = .ok ((tags ++ [(DT_NULL, nv)]).map fun e => (dtagVal env (dTagTable cfg.mclass cfg.solaris) e.1, e.2)) :=
  iterTags_spec cfg hcls env henv tags nv hwf hnn hd hfit

/-- Exactness of `get_relocation_tables`.  A dynamic array whose relocation-related entries are those describing `d`
    (DT_REL/DT_RELSZ/DT_RELENT, DT_RELA/DT_RELASZ/DT_RELAENT, DT_RELR/DT_RELRSZ/DT_RELRENT, DT_JMPREL/DT_PLTRELSZ/
    DT_PLTREL — in any order, amid any other entries), terminated by DT_NULL, anywhere in the file: the result has
    exactly the tables of `d`, in the order REL, RELA, RELR, JMPREL; each table's file offset is its address mapped
    through the PT_LOAD segment holding it (`None` when no segment does), its size the *SZ value, its entry struct
    and entry size those of its flavour (JMPREL: the flavour DT_PLTREL names).  `specDynTables` builds the table
    objects from `specTable` / `specRelr`, i.e. the very objects `rel_roundtrip` and `relr_eq_std` are about. -/
theorem dyn_reloc_tables_exact (cfg : ElfCfg) (hcls : cfg.cls = 32 ∨ cfg.cls = 64) (env : Env)
    (henv : DTagEnv env (dTagTable cfg.mclass cfg.solaris)) (d : DynRelocs) (tags : List DynEntry) (nv : Nat)
    (loads : List LoadSeg) (data rest : Bytes) (off : Nat)
    (hd : data.drop off = encDynArray cfg.le cfg.cls (tags ++ [(DT_NULL, nv)]) ++ rest)
    (hfit : off + (tags.length + 1) * (2 * (cfg.cls / 8)) ≤ 2 ^ 63)
    (hwf : ∀ e ∈ tags ++ [(DT_NULL, nv)], WFDyn cfg.cls e = true) (hnn : ∀ e ∈ tags, e.1 ≠ DT_NULL)
    (hdesc : DynDescribes (relCfgOf cfg) d tags = true) (hd0 : WFDynRelocs d = true) :
    (do let tg ← iterTags env (Spec.elfStructs cfg) data off false
        getRelocationTables (Spec.elfStructs cfg) tg (loads.map toLoad))
      = .ok (specDynTables cfg loads d) ∧
    (specDynTables cfg loads d).map (fun p => (p.1, obsDynTable p.2)) = dynTablesStd (relCfgOf cfg) loads d := by
  refine ⟨?_, specDynTables_obs cfg loads d⟩
  rw [iterTags_spec cfg hcls env henv tags nv hwf hnn hd hfit]
  show getRelocationTables _ _ _ = _
  exact getRelocationTables_spec cfg hcls _ loads d hd0
    (fun name k hp hk => tagsOf_described henv hdesc nv hp hk)

/-- the library's own environment satisfies `DTagEnv` for every configuration (TieC08.dtag_env), so the theorem
    holds of `elfEnv` outright -/
theorem dyn_reloc_tables_exact_elfEnv (cfg : ElfCfg) (hcls : cfg.cls = 32 ∨ cfg.cls = 64)
    (d : DynRelocs) (tags : List DynEntry) (nv : Nat) (loads : List LoadSeg) (data rest : Bytes) (off : Nat)
    (hd : data.drop off = encDynArray cfg.le cfg.cls (tags ++ [(DT_NULL, nv)]) ++ rest)
    (hfit : off + (tags.length + 1) * (2 * (cfg.cls / 8)) ≤ 2 ^ 63)
    (hwf : ∀ e ∈ tags ++ [(DT_NULL, nv)], WFDyn cfg.cls e = true) (hnn : ∀ e ∈ tags, e.1 ≠ DT_NULL)
    (hdesc : DynDescribes (relCfgOf cfg) d tags = true) (hd0 : WFDynRelocs d = true) :
    (do let tg ← iterTags elfEnv (Spec.elfStructs cfg) data off false
        getRelocationTables (Spec.elfStructs cfg) tg (loads.map toLoad))
      = .ok (specDynTables cfg loads d) :=
  (dyn_reloc_tables_exact cfg hcls elfEnv (TieC08.dtag_env _ _) d tags nv loads data rest off hd hfit hwf hnn hdesc hd0).1

/-- address translation: the model's `address_offsets` walk is the standard's `fileOffset` -/
theorem address_offset_eq_std (loads : List LoadSeg) (a : Nat) :
    addressOffset (loads.map toLoad) a = fileOffset loads a :=
  addressOffset_spec loads a

/-! ### `find_relocations_for_section` -/

/-- Exactness of `find_relocations_for_section`: over section headers that are what `descs` describes, the result is
    the standard's `relocSectionFor` — `None` when no SHT_REL/SHT_RELA section is named `.rel<target>`/`.rela<target>`,
    otherwise the first such section, as a table object of its flavour over its `sh_offset`/`sh_size`. -/
theorem find_relocations_exact (cfg : ElfCfg) (hcls : cfg.cls = 32 ∨ cfg.cls = 64) (target : String)
    (hdrs : List Reloc.SecHdr) (descs : List RelSecDesc) (hdesc : AllDescribe (relCfgOf cfg) hdrs descs) :
    match relocSectionFor target descs with
    | none => findRelocations (Spec.elfStructs cfg) target hdrs = .ok none
    | some s => ∃ h ∈ hdrs, ∃ r, s ∈ descs ∧ s.rela = some r ∧ SecDescribes (relCfgOf cfg) h s ∧
        findRelocations (Spec.elfStructs cfg) target hdrs
          = .ok (some (h, specTable cfg (some s.offset) s.size r)) :=
  findRelocations_spec cfg hcls target hdrs descs hdesc

/-- a relocation section of the wrong `sh_entsize` met before any match is the library's ELFError, whatever its name -/
theorem find_relocations_malformed (cfg : ElfCfg) (hcls : cfg.cls = 32 ∨ cfg.cls = 64) (target : String)
    (good : List Reloc.SecHdr) (descs : List RelSecDesc) (bad : Reloc.SecHdr) (rest : List Reloc.SecHdr) (r : Bool)
    (hdesc : AllDescribe (relCfgOf cfg) good descs) (hnone : relocSectionFor target descs = none)
    (hty : bad.shType = .str (if r then "SHT_RELA" else "SHT_REL")) (hent : bad.shEntsize ≠ relEntSize (relCfgOf cfg) r) :
    findRelocations (Spec.elfStructs cfg) target (good ++ bad :: rest) = .error .elfError :=
  findRelocations_malformed cfg hcls target good descs bad rest r hdesc hnone hty hent

/-- End to end, `_read_dwarf_section(section, relocate_dwarf_sections=True)`: the section headers are what `descs`
    describes, the standard's lookup finds the relocation section `s` (flavour `rela`) for the section named `target`,
    the file holds `s`'s table at `s.offset` and — at the symbol table section `s.link` designates — the value-only
    symbol table: the stream the DWARF parser receives is the standard's fold of the relocations over the section
    contents, or ELFRelocationError as soon as one entry must be rejected. -/
theorem read_dwarf_section_relocated (cfg : ElfCfg) (hcls : cfg.cls = 32 ∨ cfg.cls = 64) (env : Env) (a : Arch)
    (hm : (relCfgOf cfg).mips = decide (a = .mips)) (rela : Bool) (es : List RelEntry) (syms : List Nat) (sec : Bytes)
    (target : String) (hdrs : List Reloc.SecHdr) (descs : List RelSecDesc)
    (hdesc : AllDescribe (relCfgOf cfg) hdrs descs)
    (s : RelSecDesc) (hfound : relocSectionFor target descs = some s) (hflav : s.rela = some rela)
    (symtabOf : Nat → Option SymTab) (symtab : SymTab) (hlink : symtabOf s.link = some symtab)
    (data rest rest' : Bytes)
    (hrel : data.drop s.offset = encRelTable (relCfgOf cfg) rela es ++ rest)
    (hsize : s.size = (encRelTable (relCfgOf cfg) rela es).length)
    (hsymtab : data.drop symtab.shOffset = syms.flatMap (rel_encSym cfg.le cfg.cls) ++ rest')
    (hentsz : symtab.shEntsize = symEntSize cfg.cls) (hsizeS : symtab.shSize = syms.length * symEntSize cfg.cls)
    (hfit : s.offset + es.length * relEntSize (relCfgOf cfg) rela ≤ 2 ^ 63)
    (hfitS : symtab.shOffset + syms.length * symEntSize cfg.cls ≤ 2 ^ 63)
    (hwf : WFApply a (relCfgOf cfg) rela syms sec.length es = true) :
    readDwarfSection env (Spec.elfStructs cfg) cfg.le cfg.cls (archString a) data hdrs symtabOf target sec true false
      = match applyStd a (relCfgOf cfg) rela syms sec es with
        | some b => .ok b
        | none => .error .elfRelocError := by
  have hf := find_relocations_exact cfg hcls target hdrs descs hdesc
  rw [hfound] at hf
  obtain ⟨h, _, r, _, hr, hd, hfind⟩ := hf
  have hrr : r = rela := by rw [hflav] at hr; cases hr; rfl
  subst hrr
  have hl : h.shLink = s.link := hd.2.2.2.1
  unfold readDwarfSection
  simp only [hfind, bind, Except.bind, hl, hlink, Bool.false_eq_true, ↓reduceIte]
  rw [hsize]
  exact apply_section_eq_std cfg hcls env a hm r es syms sec symtab data s.offset rest rest' hrel hsymtab hentsz hsizeS
    hfit hfitS hwf

/-! ### non-vacuity -/

example : WFRel ⟨true, 64, true⟩ true { offset := 0x10, sym := 7, type := 18, addend := -8, ssym := 1, type2 := 2, type3 := 3 } = true := by decide
example : WFRel ⟨false, 32, false⟩ false { offset := 0xfffffffc, sym := 0xffffff, type := 0xff } = true := by decide
example : relrStd 8 none [0x1000, 0x7, 0x8000000000000001] = some [0x1000, 0x1008, 0x1010, 0x1008 + 63 * 8 + 62 * 8] := by decide
example : relrStd 4 none [0x3] = none := by decide
example : psabi .x64 true 2 = some (4, .sap) := rfl
example : WFApplyOne .x64 ⟨true, 64, false⟩ true 12 { offset := 8, sym := 1, type := 2, addend := -4 } = true := by decide
example : applyAfterSym .x64 ⟨true, 64, false⟩ true 0 [0, 0, 0, 0, 0xaa, 0xaa, 0xaa, 0xaa, 1, 2, 3, 4]
    { offset := 8, sym := 1, type := 2, addend := -4 } = some [0, 0, 0, 0, 0xaa, 0xaa, 0xaa, 0xaa, 0xf4, 0xff, 0xff, 0xff] := by decide
example : flavourOk .ppc64 false = false := rfl
example : WFApply .x64 ⟨true, 64, false⟩ true [0, 0x1000] 12 [{ offset := 8, sym := 1, type := 2, addend := -4 }] = true := by decide
example : rel_encSym true 64 0x1000 = [0, 0, 0, 0, 0, 0, 0, 0, 0, 0x10, 0, 0, 0, 0, 0, 0, 0, 0, 0, 0, 0, 0, 0, 0] := by decide
-- a dynamic array with DT_NEEDED, a RELA table, DT_FLAGS_1 in between, and PLT relocations of flavour REL
example : DynDescribes ⟨true, 64, false⟩
    { rela := some ⟨0x1000, 48⟩, jmprel := some (⟨0x2000, 32⟩, false) }
    [(1, 1), (DT_PLTREL, 17), (DT_RELASZ, 48), (DT_RELA, 0x1000), (0x6ffffffb, 1), (DT_RELAENT, 24), (DT_JMPREL, 0x2000),
     (DT_PLTRELSZ, 32)] = true := by decide
example : WFDynRelocs { rela := some ⟨0x1000, 48⟩, jmprel := some (⟨0x2000, 32⟩, false) } = true := by decide
example : dynTablesStd ⟨true, 64, false⟩ [⟨0, 0x800, 0⟩, ⟨0x1000, 0x100, 0x800⟩]
    { rela := some ⟨0x1010, 48⟩, jmprel := some (⟨0x2000, 32⟩, false) }
    = [("RELA", .rel (some 0x810) 48 24 true), ("JMPREL", .rel none 32 16 false)] := by decide
example : relocSectionFor ".debug_info"
    [⟨".text", none, 64, 16, 0⟩, ⟨".rela.text", some true, 200, 48, 5⟩, ⟨".rela.debug_info", some true, 248, 24, 5⟩]
    = some ⟨".rela.debug_info", some true, 248, 24, 5⟩ := by decide

end PyElf.Props.C08
