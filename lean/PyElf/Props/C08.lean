/-
  C08 — relocation tables decode exactly; debug-section relocation follows the psABI.

  Property theorems only.  The struct bundle is `Spec.elfStructs cfg` (tied to the
  regenerated bundles by Props/TieC08.lean); `pre`/`rest` are arbitrary surrounding
  bytes (the rest of the file).

  WHAT IS PROVED
  * tables: `rel_roundtrip`, `rel_entry_roundtrip` (REL/RELA, both classes and byte orders, the MIPS64 packed r_info,
    negative addends, any position in any byte string), `relr_eq_std` / `relr_bitmap_eq_std` (every RELR stream),
    the entry-size guards.
  * recipes: `recipes_match_psabi`, `recipes_only_psabi` (kernel-checked walks of the regenerated recipe tables against
    the psABI table of Spec/Reloc.lean).
  * application: `apply_eq_std`, `apply_frame`, `apply_section_eq_std(_layout)`, the three rejections, and — fifth
    wave — the former exclusions as theorems: `apply_none_any_offset` (R_*_NONE touches nothing, whatever r_offset),
    `apply_rejects_composite` (MIPS64 entries using r_type2 / r_type3 / r_ssym, any first type, both flavours),
    `apply_field_outside` (a field not inside the section: ELFParseError, nothing written).  `WFApplyOne` no longer
    asks for 8 bytes of room for R_*_NONE nor for zero MIPS64 sub-fields (`wfApply_of_room`: the earlier domain
    `WFApplyRoom` is inside the present one, so every earlier statement still holds as it was stated).
  * dynamic tables: `dyn_tags_roundtrip`, `dyn_reloc_tables_exact` (now without the "no table at address 0"
    hypothesis; the earlier form is `dyn_reloc_tables_exact_partial`), `address_offset_eq_std`; the edges as theorems:
    `dyn_rel_no_size` … `dyn_jmprel_incomplete` (a table tag without its mandatory companions: bare StopIteration),
    `dyn_rel_bad_ent` / `dyn_rela_bad_ent` (ELFError), `dyn_unmapped_*` (offset None: TypeError on access).
  * lookup: `find_relocations_exact`, `find_relocations_malformed`, `read_dwarf_section_relocated` (header lists given).
  * WHOLE FILES (fifth wave, composition with C01): for ANY byte string `bytes` with `Spec.Layout d bytes` for a
    `wfZ` description `d` — `file_rel_roundtrip`, `file_relr_eq_std`, `file_get_section_by_name`,
    `file_find_relocations_exact` (+ `find_by_name_eq_by_info`: the lookup by name is the gABI's lookup by `sh_info`
    when names follow the convention), `file_apply_section_eq_std`, `file_read_dwarf_section_relocated`,
    `file_read_dwarf_section_untouched`, `file_get_dwarf_info_section`.  Headers, names, `sh_link`, the machine and
    all contents are decoded from `bytes` by the mirror of elffile.py (C01) and of `_read_dwarf_section` (C11's
    `Model/DwarfView.lean`).

  CORRESPONDENCE-ONLY (impl == model on every run, no theorem): R_ARM_CALL and the eBPF recipes; machines outside the
  list; section names that are not valid UTF-8 (the model compares bytes); SHF_COMPRESSED / SHT_NOBITS / phantom-byte
  debug sections under relocation (C11's subject); error behaviour on truncated files (short reads inside a table:
  ELFParseError) and on relocation sections whose `sh_link` is not a symbol table (AttributeError at the first entry).
-/
import PyElf.Spec.Reloc
import PyElf.Spec.RelocFile
import PyElf.Model.Relocation
import PyElf.Model.RelocationFile
import PyElf.Proofs.Reloc
import PyElf.Proofs.Relr
import PyElf.Proofs.RelocApply
import PyElf.Proofs.RelocSection
import PyElf.Proofs.RelocSym
import PyElf.Proofs.RelocDyn
import PyElf.Proofs.RelocDynEdge
import PyElf.Proofs.RelocEdge
import PyElf.Proofs.RelocFile
import PyElf.Proofs.RelocExamples
import PyElf.Props.TieC08
import PyElf.Model.RelrCache
import PyElf.Proofs.SigCache
import PyElf.Props.C01
namespace PyElf.Props.C08
open PyElf PyElf.Spec PyElf.Spec.RelocDyn PyElf.Spec.C08 PyElf.Model PyElf.Model.Reloc PyElf.Model.C08 PyElf.Proofs PyElf.Proofs.Reloc
  PyElf.Proofs.RelocDyn PyElf.Proofs.RelocFile

/-! ### REL / RELA tables (sections and dynamic tables share `RelocationTable`) -/

/-- A table of `es` (any length, any field values in range, negative addends, MIPS64 sub-fields) placed anywhere in a
    file: the table object is built, `num_relocations` is the number of entries, `iter_relocations` yields exactly the
    encoded entries and `get_relocation(n)` the n-th one. -/
theorem rel_roundtrip (cfg : ElfCfg) (hcls : cfg.cls = 32 ∨ cfg.cls = 64) (env : Env) (rela : Bool)
    (es : List RelEntry) (hwf : ∀ e ∈ es, WFRel (relCfgOf cfg) rela e = true) (pre rest : Bytes)
    (hfit : pre.length + es.length * relEntSize (relCfgOf cfg) rela ≤ 2 ^ 63) :
    let c := relCfgOf cfg
    let data := pre ++ encRelTable c rela es ++ rest
    ∃ t, mkTable (Spec.elfStructs cfg) (some pre.length) (encRelTable c rela es).length rela = .ok t ∧
      t.isRela = rela ∧ t.entrySize = relEntSize c rela ∧
      numRelocations t = .ok es.length ∧
      iterRelocations env data t = .ok (es.map (observeRel c rela)) ∧
      ∀ n (h : n < es.length), getRelocation env data t n = .ok (observeRel c rela es[n]) := by
  intro c data
  refine ⟨_, mkTable_spec cfg hcls _ _ rela, rfl, rfl, numRelocations_spec cfg hcls rela es _, ?_, ?_⟩
  · exact iterRelocations_spec cfg hcls env rela es hwf (drop_pre pre _ rest) hfit
  · intro n h
    exact getRelocation_spec cfg hcls env rela es hwf (drop_pre pre _ rest) hfit n h

/-- one entry, at any position: every field of the parsed entry is the encoded one (r_info split for ELF32/ELF64,
    the MIPS64 packed layout, the signed addend) and exactly the entry's bytes are consumed -/
theorem rel_entry_roundtrip (cfg : ElfCfg) (hcls : cfg.cls = 32 ∨ cfg.cls = 64) (env : Env) (rela : Bool) (e : RelEntry)
    (hwf : WFRel (relCfgOf cfg) rela e = true) (pre rest : Bytes) :
    structParse env (if rela then (Spec.elfStructs cfg).Elf_Rela else (Spec.elfStructs cfg).Elf_Rel)
        (pre ++ encRel (relCfgOf cfg) rela e ++ rest) pre.length
      = .ok (observeRel (relCfgOf cfg) rela e, pre.length + relEntSize (relCfgOf cfg) rela) :=
  parse_rel_entry cfg hcls env rela e hwf (drop_pre pre _ rest)

/-- `RelocationSection` guard: a section whose sh_entsize is not the entry size is the library's ELFError -/
theorem relsec_entsize_guard (cfg : ElfCfg) (hcls : cfg.cls = 32 ∨ cfg.cls = 64) (rela : Bool)
    (shOffset shSize shEntsize : Nat) (h : shEntsize ≠ relEntSize (relCfgOf cfg) rela) :
    relocSectionInit (Spec.elfStructs cfg) (.str (if rela then "SHT_RELA" else "SHT_REL")) shOffset shSize shEntsize
      = .error .elfError := by
  unfold relocSectionInit
  have hr : (Val.str (if rela then "SHT_RELA" else "SHT_REL") == Val.str "SHT_RELA") = rela := by
    cases rela <;> decide
  rw [hr, mkTable_spec cfg hcls]
  cases rela <;> simp [bind, Except.bind, specTable, h] <;> rfl

/-! ### RELR -/

/-- every RELR stream (any mix of anchors and bitmaps, any bit pattern) expands to exactly the address sequence the
    encoding denotes; a bitmap before any anchor is the library's ELFError -/
theorem relr_eq_std (cfg : ElfCfg) (hcls : cfg.cls = 32 ∨ cfg.cls = 64) (env : Env) (ws : List Nat)
    (hws : ∀ x ∈ ws, x < 2 ^ cfg.cls) (pre rest : Bytes) (hfit : pre.length + ws.length * (cfg.cls / 8) ≤ 2 ^ 63) :
    let w := cfg.cls / 8
    ∃ t, relrInit (Spec.elfStructs cfg) (some pre.length) (encRelr cfg.le w ws).length w = .ok t ∧
      relrIter env (pre ++ encRelr cfg.le w ws ++ rest) t
        = match relrStd w none ws with
          | some xs => .ok xs
          | none => .error .elfError := by
  intro w
  refine ⟨_, relrInit_spec cfg _ _, ?_⟩
  have hw : 1 ≤ w ∧ 8 * w = cfg.cls := by rcases hcls with h | h <;> simp [w, h]
  exact relrIter_spec env cfg.le w hw.1 ws (by rw [hw.2]; exact hws) pre rest hfit

/-- the bit-level core: the shift-until-zero loop over one bitmap word is the standard's bitmap expansion -/
theorem relr_bitmap_eq_std (base w word : Nat) (hw : 1 ≤ w) (h : word < 2 ^ (8 * w)) :
    relrBitmapLoop base w (8 * w) word 0 = .ok (relrBitmap w base word) := by
  have hb := relrBitmapLoop_eq base w (8 * w - 1) word 0 (by rw [show 8 * w - 1 + 1 = 8 * w by omega]; exact h)
  rw [show 8 * w - 1 + 1 = 8 * w by omega] at hb
  rw [hb]; simp [relrBitmap]

/-! ### the RELR cache (`_cached_relocations`) -/

/-- `relrFresh` in the cache machine's vocabulary -/
theorem relr_fresh_eq (env : Env) (data : Bytes) (t : RelrTable) (q : RelrQ) :
    Model.SigCache.stateless (relrScan env data t) relrLook q = relrFresh env data t q := by
  unfold Model.SigCache.stateless relrScan relrFresh
  cases relrIter env data t <;> rfl

/--
  relr_cache_history_independent.  `num_relocations()` / `get_relocation(n)` answer from the lazily built
  `_cached_relocations`.  For ANY table (any bytes, well formed or not) and after ANY history of such queries on one
  object — repeated, out of range, negative, after an expansion that raised — every answer is the one a freshly made
  table object gives, i.e. the query evaluated on `list(iter_relocations())` (`relrIter`, the function `relr_eq_std`
  is about).  The driver runs exactly this `relrHist`, and the harness compares it with the library's answers on one
  object and with `_cached_relocations is not None`.
-/
theorem relr_cache_history_independent (env : Env) (data : Bytes) (t : RelrTable) (qs : List RelrQ) :
    (relrHist env data t qs).1 = qs.map (relrFresh env data t) := by
  unfold relrHist
  rw [(Proofs.SigCache.run_answers (relrScan env data t) relrLook qs _ (Proofs.SigCache.inv_init _)).1]
  exact List.map_congr_left (fun q _ => relr_fresh_eq env data t q)

/-- the cache is published exactly when a query happened and the expansion returns -/
theorem relr_cache_published_iff (env : Env) (data : Bytes) (t : RelrTable) (qs : List RelrQ) :
    (relrHist env data t qs).2.map.isSome = (!qs.isEmpty && (relrIter env data t).isOk) := by
  unfold relrHist
  rw [Proofs.SigCache.run_published]
  unfold relrScan
  cases relrIter env data t <;> rfl

/-- with `relr_eq_std`: on every well-formed RELR stream, after any history of queries, the count is the number of
    addresses the standard's expansion yields and `get_relocation(n)` is its n-th address (Python indexing) -/
theorem relr_cache_exact (cfg : ElfCfg) (hcls : cfg.cls = 32 ∨ cfg.cls = 64) (env : Env) (ws : List Nat)
    (hws : ∀ x ∈ ws, x < 2 ^ cfg.cls) (pre rest : Bytes) (hfit : pre.length + ws.length * (cfg.cls / 8) ≤ 2 ^ 63)
    (xs : List Nat) (hstd : relrStd (cfg.cls / 8) none ws = some xs) (qs : List RelrQ) :
    ∃ t, relrInit (Spec.elfStructs cfg) (some pre.length) (encRelr cfg.le (cfg.cls / 8) ws).length (cfg.cls / 8) = .ok t ∧
      (relrHist env (pre ++ encRelr cfg.le (cfg.cls / 8) ws ++ rest) t qs).1 = qs.map (fun q => relrLook xs q) := by
  obtain ⟨t, ht, hiter⟩ := relr_eq_std cfg hcls env ws hws pre rest hfit
  refine ⟨t, ht, ?_⟩
  rw [relr_cache_history_independent]
  apply List.map_congr_left
  intro q _
  unfold relrFresh
  rw [hiter, hstd]

/-- RELR entry-size guard -/
theorem relr_entsize_guard (cfg : ElfCfg) (off : Option Nat) (size ent : Nat) (h : ent ≠ cfg.cls / 8) :
    relrInit (Spec.elfStructs cfg) off size ent = .error .elfError := by
  unfold relrInit
  simp [spec_Elf_Relr, st, f, mkFields, conSizeof, fieldsSizeof, bind, Except.bind, pure, Except.pure]
  intro h'; exact absurd h'.symm h

/-! ### recipes against the processor supplements -/

/-- kernel-checked walk: for every (machine, flavour, type) the psABI table lists, the library's recipe dict for that
    machine/flavour has an entry of the psABI's field width whose calc function computes the psABI's formula —
    for all symbol values, addends, places and in-place values (REL: the in-place value is the addend). -/
theorem recipes_match_psabi (a : Arch) (rela : Bool) (t w : Nat) (fm : Formula) (h : psabi a rela t = some (w, fm)) :
    ∃ r fn, recipeGet (recipeTable a rela) (t : Int) = .ok (some r) ∧
      (fm ≠ .keep → r.bytesize = w) ∧ (r.bytesize = 1 ∨ r.bytesize = 2 ∨ r.bytesize = 4 ∨ r.bytesize = 8) ∧
      Gen.relocCalc r.calcName = some fn ∧ (r.hasAddend = true → rela = true) ∧
      ∀ V S P A : Int, fn V S P (if r.hasAddend then A else 0) = fm.eval S (if rela then A else V) P V := by
  obtain ⟨en, hfind, hwd, hcm⟩ := recipe_listed h
  obtain ⟨fn, hfn, himp, hcalc⟩ := calcMatches_sound hcm
  refine ⟨toRecipe en, fn, ?_, ?_, ?_, hfn, himp, hcalc⟩
  · rw [recipeGet_eq, hfind]; rfl
  · intro hk
    simp only [widthOk, hk, ↓reduceIte, Bool.and_eq_true, beq_iff_eq] at hwd
    exact hwd.1
  · unfold widthOk at hwd
    split at hwd
    · simp only [Bool.and_eq_true, Bool.or_eq_true, beq_iff_eq] at hwd
      rcases hwd.2 with h | h <;> simp [toRecipe, h]
    · simp only [Bool.and_eq_true, Bool.or_eq_true, beq_iff_eq] at hwd
      obtain ⟨hb, hw⟩ := hwd
      show en.2.1 = 1 ∨ en.2.1 = 2 ∨ en.2.1 = 4 ∨ en.2.1 = 8
      rw [hb]; rcases hw with ((h | h) | h) | h <;> simp [h]

/-- conversely, a type the psABI table does not list (and that is not the unclaimed R_ARM_CALL) has no recipe -/
theorem recipes_only_psabi (a : Arch) (rela : Bool) (t : Nat) (hf : flavourOk a rela = true)
    (h : psabi a rela t = none) (hu : unclaimed a rela t = false) :
    recipeGet (recipeTable a rela) (t : Int) = .ok none := by
  rw [recipeGet_eq, recipe_unlisted hf h hu]; rfl

/-! ### applying one relocation -/

/-- Model = standard for one relocation once the symbol value is known: the field holds the psABI formula's value
    truncated to the field width in the file's byte order and every other byte is unchanged (`Spec.writeField`);
    R_*_NONE changes nothing (and reads nothing: any `r_offset`); wrong flavour, unlisted type and MIPS64 composite
    entries (any first type) are ELFRelocationError. -/
theorem apply_eq_std (a : Arch) (c : RelCfg) (hm : c.mips = decide (a = .mips)) (rela : Bool) (sec : Bytes)
    (e : RelEntry) (s : Nat) (hwf : WFApplyOne a c rela sec.length e = true) (hlen : sec.length < 2 ^ 63) :
    applyWithSym c.le c.cls (archString a) sec (observeRel c rela e) (s : Int) =
      match applyAfterSym a c rela s sec e with
      | some b => .ok b
      | none => .error .elfRelocError :=
  applyWithSym_eq_std a c hm rela sec e s hwf hlen

/-- frame + value, spelled out: after a successful read–compute–wrap–write the length is unchanged, every byte outside
    `[off, off+w)` is unchanged, and the field decodes (in the file's byte order) to the computed value mod 2^(8w) -/
theorem apply_frame (le : Bool) (w : Nat) (sec : Bytes) (off : Nat) (v : Int) (h : off + w ≤ sec.length) :
    (writeField le w sec off v).length = sec.length ∧
    (writeField le w sec off v).take off = sec.take off ∧
    (writeField le w sec off v).drop (off + w) = sec.drop (off + w) ∧
    readField le w (writeField le w sec off v) off = (v % ((2 ^ (8 * w) : Nat) : Int)).toNat :=
  writeField_frame le w sec off v h

/-
  Whole section, symbol table included.  `apply_section_eq_std` (below) is the full statement: the file holds the
  relocation table `encRelTable c rela es` at `base` and the symbol table `syms.flatMap (rel_encSym cfg.le cfg.cls)` at
  `symtab.shOffset`, with `symtab.shEntsize = symEntSize cfg.cls`, `symtab.shSize = syms.length * symEntSize cfg.cls`.
  `apply_section_eq_std_partial` is the earlier form with the abstract hypothesis `hsym` (parsing symbol `i` with
  `Elf_Sym` yields `st_value = syms[i]`) in place of the symbol table's encoding; it is kept because it also covers
  symbol tables that are not value-only (any entry whose parse succeeds with that `st_value`).  `hsym` is discharged
  for the Spec encoder by `symtab_entry_st_value` (via C03's `sym_roundtrip32/64`: `rel_encSym` is C03's `encSym` of
  the entry ⟨0, value, 0, 0, 0, 0⟩).
-/
/-- Model = standard for a whole relocation section applied to a debug section: relocations are decoded from the
    table one by one and applied in order; the result is the standard's fold, or ELFRelocationError as soon as one
    entry must be rejected. -/
theorem apply_section_eq_std_partial (cfg : ElfCfg) (hcls : cfg.cls = 32 ∨ cfg.cls = 64) (env : Env) (a : Arch)
    (hm : (relCfgOf cfg).mips = decide (a = .mips)) (rela : Bool) (es : List RelEntry) (syms : List Nat) (sec : Bytes)
    (symtab : SymTab) (pre rest : Bytes)
    (hfit : pre.length + es.length * relEntSize (relCfgOf cfg) rela ≤ 2 ^ 63)
    (hwf : WFApply a (relCfgOf cfg) rela syms sec.length es = true)
    (hent : symtab.shEntsize ≠ 0) (hcount : symtab.shSize / symtab.shEntsize = syms.length)
    (hsym : ∀ i (h : i < syms.length), ∃ symv,
      seekParse env (Spec.elfStructs cfg).Elf_Sym (pre ++ encRelTable (relCfgOf cfg) rela es ++ rest)
        (symtab.shOffset + i * symtab.shEntsize) = .ok symv ∧
      symv.getInt "st_value" = .ok (syms[i] : Int)) :
    applySectionRelocations env (Spec.elfStructs cfg) cfg.le cfg.cls (archString a)
        (pre ++ encRelTable (relCfgOf cfg) rela es ++ rest) symtab
        (specTable cfg (some pre.length) (encRelTable (relCfgOf cfg) rela es).length rela) sec
      = match applyStd a (relCfgOf cfg) rela syms sec es with
        | some b => .ok b
        | none => .error .elfRelocError := by
  simp only [WFApply, Bool.and_eq_true, List.all_eq_true, decide_eq_true_eq] at hwf
  obtain ⟨⟨hes, _⟩, hL⟩ := hwf
  unfold applySectionRelocations
  rw [numRelocations_spec cfg hcls rela es]
  have := applyLoop_eq_std cfg hcls env a hm rela es syms sec.length symtab
    (size := (encRelTable (relCfgOf cfg) rela es).length) (drop_pre pre _ rest) hfit hes hL hent hcount hsym
    es.length 0 sec (by omega) rfl
  rw [List.drop_zero] at this
  simp only [bind, Except.bind]
  exact this

/-- The symbol table side, both classes and byte orders: in any file holding `syms.flatMap (rel_encSym le cls)` at
    `symoff`, `Elf_Sym` parsed at `symoff + i · symEntSize` succeeds and `sym['st_value']` is `syms[i]`. -/
theorem symtab_entry_st_value (cfg : ElfCfg) (hcls : cfg.cls = 32 ∨ cfg.cls = 64) (env : Env) (syms : List Nat)
    (hsyms : ∀ s ∈ syms, s < 2 ^ cfg.cls) (data rest : Bytes) (symoff : Nat)
    (hd : data.drop symoff = syms.flatMap (rel_encSym cfg.le cfg.cls) ++ rest)
    (hfit : symoff + syms.length * symEntSize cfg.cls ≤ 2 ^ 63) (i : Nat) (h : i < syms.length) :
    ∃ symv, seekParse env (Spec.elfStructs cfg).Elf_Sym data (symoff + i * symEntSize cfg.cls) = .ok symv ∧
      symv.getInt "st_value" = .ok (syms[i] : Int) :=
  symtab_st_value cfg hcls env syms hsyms hd hfit i h

/-- FULL STATEMENT.  Model = standard for a whole relocation section applied to a debug section, symbol table included:
    `data` is any file that holds the relocation table at `base` and the value-only symbol table at `symtab.shOffset`
    (anything before, between and after them; either order), the symbol-table header describes it (`sh_entsize` the
    ElfN_Sym size, `sh_size` the table's length).  Relocations are decoded one by one, each symbol is fetched from the
    file with `Elf_Sym`, and the result is the standard's fold, or ELFRelocationError as soon as one entry must be
    rejected. -/
theorem apply_section_eq_std (cfg : ElfCfg) (hcls : cfg.cls = 32 ∨ cfg.cls = 64) (env : Env) (a : Arch)
    (hm : (relCfgOf cfg).mips = decide (a = .mips)) (rela : Bool) (es : List RelEntry) (syms : List Nat) (sec : Bytes)
    (symtab : SymTab) (data : Bytes) (base : Nat) (rest rest' : Bytes)
    (hrel : data.drop base = encRelTable (relCfgOf cfg) rela es ++ rest)
    (hsymtab : data.drop symtab.shOffset = syms.flatMap (rel_encSym cfg.le cfg.cls) ++ rest')
    (hentsz : symtab.shEntsize = symEntSize cfg.cls) (hsize : symtab.shSize = syms.length * symEntSize cfg.cls)
    (hfit : base + es.length * relEntSize (relCfgOf cfg) rela ≤ 2 ^ 63)
    (hfitS : symtab.shOffset + syms.length * symEntSize cfg.cls ≤ 2 ^ 63)
    (hwf : WFApply a (relCfgOf cfg) rela syms sec.length es = true) :
    applySectionRelocations env (Spec.elfStructs cfg) cfg.le cfg.cls (archString a) data symtab
        (specTable cfg (some base) (encRelTable (relCfgOf cfg) rela es).length rela) sec
      = match applyStd a (relCfgOf cfg) rela syms sec es with
        | some b => .ok b
        | none => .error .elfRelocError := by
  have hwf' := hwf
  simp only [WFApply, Bool.and_eq_true, List.all_eq_true, decide_eq_true_eq] at hwf'
  obtain ⟨⟨hes, hsy⟩, hL⟩ := hwf'
  have hpos := symEntSize_pos cfg.cls
  have hent : symtab.shEntsize ≠ 0 := by omega
  have hcount : symtab.shSize / symtab.shEntsize = syms.length := by
    rw [hsize, hentsz, Nat.mul_div_cancel _ hpos]
  unfold applySectionRelocations
  rw [numRelocations_spec cfg hcls rela es]
  have := applyLoop_eq_std cfg hcls env a hm rela es syms sec.length symtab
    (size := (encRelTable (relCfgOf cfg) rela es).length) hrel hfit hes hL hent hcount
    (by
      intro i h
      rw [hentsz]
      exact symtab_st_value cfg hcls env syms hsy hsymtab hfitS i h)
    es.length 0 sec (by omega) rfl
  rw [List.drop_zero] at this
  simp only [bind, Except.bind]
  exact this

/-- the same for the concrete layout `pre ++ relocation table ++ mid ++ symbol table ++ post` -/
theorem apply_section_eq_std_layout (cfg : ElfCfg) (hcls : cfg.cls = 32 ∨ cfg.cls = 64) (env : Env) (a : Arch)
    (hm : (relCfgOf cfg).mips = decide (a = .mips)) (rela : Bool) (es : List RelEntry) (syms : List Nat) (sec : Bytes)
    (pre mid post : Bytes)
    (hfit : pre.length + (encRelTable (relCfgOf cfg) rela es).length + mid.length
              + syms.length * symEntSize cfg.cls ≤ 2 ^ 63)
    (hwf : WFApply a (relCfgOf cfg) rela syms sec.length es = true) :
    let relTab := encRelTable (relCfgOf cfg) rela es
    let symTab := syms.flatMap (rel_encSym cfg.le cfg.cls)
    applySectionRelocations env (Spec.elfStructs cfg) cfg.le cfg.cls (archString a)
        (pre ++ relTab ++ mid ++ symTab ++ post)
        ⟨pre.length + relTab.length + mid.length, symTab.length, symEntSize cfg.cls⟩
        (specTable cfg (some pre.length) relTab.length rela) sec
      = match applyStd a (relCfgOf cfg) rela syms sec es with
        | some b => .ok b
        | none => .error .elfRelocError := by
  intro relTab symTab
  have hlen : (encRelTable (relCfgOf cfg) rela es).length = es.length * relEntSize (relCfgOf cfg) rela :=
    encRelTable_length _ hcls rela es
  refine apply_section_eq_std cfg hcls env a hm rela es syms sec _ _ pre.length (mid ++ symTab ++ post) post
    ?_ ?_ rfl (encSymTable_length cfg.le cfg.cls syms) (by omega) (by simpa using hfit) hwf
  · simp [relTab, List.append_assoc]
  · show List.drop (pre.length + relTab.length + mid.length) _ = _
    have e : pre.length + relTab.length + mid.length = (pre ++ relTab ++ mid).length := by
      simp only [List.length_append]
    rw [e, drop_pre]

/-- rejections: a symbol index outside the symbol table is ELFRelocationError (before anything is read) -/
theorem apply_rejects_symbol (env : Env) (S : ElfStructs) (le : Bool) (cls : Nat) (arch : String) (data : Bytes)
    (symtab : SymTab) (stream : Bytes) (c : RelCfg) (rela : Bool) (e : RelEntry)
    (hent : symtab.shEntsize ≠ 0) (h : e.sym ≥ symtab.shSize / symtab.shEntsize) :
    doApplyRelocation env S le cls arch data symtab stream (observeRel c rela e) = .error .elfRelocError :=
  doApply_rejects_sym env S le cls arch data symtab stream c rela e hent h

/-- rejections: wrong REL/RELA flavour for the machine -/
theorem apply_rejects_flavour (a : Arch) (c : RelCfg) (hm : c.mips = decide (a = .mips)) (rela : Bool) (sec : Bytes)
    (e : RelEntry) (s : Int) (hf : flavourOk a rela = false) :
    applyWithSym c.le c.cls (archString a) sec (observeRel c rela e) s = .error .elfRelocError := by
  unfold applyWithSym
  rw [chooseRecipe_spec a c rela e hm]
  simp only [hf, Bool.not_false, ↓reduceIte]
  rfl

/-- rejections: a relocation type outside the supported set -/
theorem apply_rejects_type (a : Arch) (c : RelCfg) (hm : c.mips = decide (a = .mips)) (rela : Bool) (sec : Bytes)
    (e : RelEntry) (s : Nat) (hwf : WFApplyOne a c rela sec.length e = true) (hlen : sec.length < 2 ^ 63)
    (h : psabi a rela e.type = none) :
    applyWithSym c.le c.cls (archString a) sec (observeRel c rela e) (s : Int) = .error .elfRelocError := by
  rw [apply_eq_std a c hm rela sec e s hwf hlen]
  have : applyAfterSym a c rela s sec e = none := by
    unfold applyAfterSym
    rw [h]
    split
    · rfl
    · split <;> rfl
  rw [this]

/-- `relocate_dwarf_sections=False`: the section contents are returned untouched, whatever relocation sections exist -/
theorem relocate_false_identity (env : Env) (S : ElfStructs) (le : Bool) (cls : Nat) (arch : String) (data : Bytes)
    (secs : List Reloc.SecHdr) (symtabOf : Nat → Option SymTab) (name : String) (sectionData : Bytes) :
    readDwarfSection env S le cls arch data secs symtabOf name sectionData false false = .ok sectionData := by
  simp [readDwarfSection, pure, Except.pure]

/-- a section without a `.rel`/`.rela` companion is returned untouched as well -/
theorem relocate_no_relsec_identity (env : Env) (S : ElfStructs) (le : Bool) (cls : Nat) (arch : String) (data : Bytes)
    (secs : List Reloc.SecHdr) (symtabOf : Nat → Option SymTab) (name : String) (sectionData : Bytes)
    (h : findRelocations S name secs = .ok none) :
    readDwarfSection env S le cls arch data secs symtabOf name sectionData true false = .ok sectionData := by
  simp [readDwarfSection, h, bind, Except.bind, pure, Except.pure]

/-! ### dynamic relocation tables: `Dynamic.get_relocation_tables` -/

/-- The dynamic array, both classes and byte orders: the `Elf_Dyn` entries `tags` followed by a DT_NULL entry, placed
    anywhere in a file, are read up to and including the DT_NULL (whatever follows is not looked at); tag numbers are
    presented by name where the environment has one. -/
theorem dyn_tags_roundtrip (cfg : ElfCfg) (hcls : cfg.cls = 32 ∨ cfg.cls = 64) (env : Env)
    (henv : DTagEnv env (dTagTable cfg.mclass cfg.solaris)) (tags : List DynEntry) (nv : Nat)
    (hwf : ∀ e ∈ tags ++ [(DT_NULL, nv)], WFDyn cfg.cls e = true) (hnn : ∀ e ∈ tags, e.1 ≠ DT_NULL)
    (data rest : Bytes) (off : Nat)
    (hd : data.drop off = encDynArray cfg.le cfg.cls (tags ++ [(DT_NULL, nv)]) ++ rest)
    (hfit : off + (tags.length + 1) * (2 * (cfg.cls / 8)) ≤ 2 ^ 63) :
    iterTags env (Spec.elfStructs cfg) data off false
      = .ok ((tags ++ [(DT_NULL, nv)]).map fun e => (dtagVal env (dTagTable cfg.mclass cfg.solaris) e.1, e.2)) :=
  iterTags_spec cfg hcls env henv tags nv hwf hnn hd hfit

/-- Exactness of `get_relocation_tables`.  A dynamic array whose relocation-related entries are those describing `d`
    (DT_REL/DT_RELSZ/DT_RELENT, DT_RELA/DT_RELASZ/DT_RELAENT, DT_RELR/DT_RELRSZ/DT_RELRENT, DT_JMPREL/DT_PLTRELSZ/
    DT_PLTREL — in any order, amid any other entries), terminated by DT_NULL, anywhere in the file: the result has
    exactly the tables of `d`, in the order REL, RELA, RELR, JMPREL; each table's file offset is its address mapped
    through the PT_LOAD segment holding it (`None` when no segment does; address 0 is an address like any other),
    its size the *SZ value, its entry struct and entry size those of its flavour (JMPREL: the flavour DT_PLTREL names).
    `specDynTables` builds the table objects from `specTable` / `specRelr`, i.e. the very objects `rel_roundtrip` and
    `relr_eq_std` are about. -/
theorem dyn_reloc_tables_exact (cfg : ElfCfg) (hcls : cfg.cls = 32 ∨ cfg.cls = 64) (env : Env)
    (henv : DTagEnv env (dTagTable cfg.mclass cfg.solaris)) (d : DynRelocs) (tags : List DynEntry) (nv : Nat)
    (loads : List LoadSeg) (data rest : Bytes) (off : Nat)
    (hd : data.drop off = encDynArray cfg.le cfg.cls (tags ++ [(DT_NULL, nv)]) ++ rest)
    (hfit : off + (tags.length + 1) * (2 * (cfg.cls / 8)) ≤ 2 ^ 63)
    (hwf : ∀ e ∈ tags ++ [(DT_NULL, nv)], WFDyn cfg.cls e = true) (hnn : ∀ e ∈ tags, e.1 ≠ DT_NULL)
    (hdesc : DynDescribes (relCfgOf cfg) d tags = true) :
    (do let tg ← iterTags env (Spec.elfStructs cfg) data off false
        getRelocationTables (Spec.elfStructs cfg) tg (loads.map toLoad))
      = .ok (specDynTables cfg loads d) ∧
    (specDynTables cfg loads d).map (fun p => (p.1, obsDynTable p.2)) = dynTablesStd (relCfgOf cfg) loads d := by
  refine ⟨?_, specDynTables_obs cfg loads d⟩
  rw [iterTags_spec cfg hcls env henv tags nv hwf hnn hd hfit]
  show getRelocationTables _ _ _ = _
  exact getRelocationTables_spec cfg hcls _ loads d
    (fun name k hp hk => tagsOf_described henv hdesc nv hp hk)

/-- the form of the first four waves, with the extra hypothesis `WFDynRelocs d` (no table at virtual address 0), from
    the time the library took a null table pointer for an absent tag -/
theorem dyn_reloc_tables_exact_partial (cfg : ElfCfg) (hcls : cfg.cls = 32 ∨ cfg.cls = 64) (env : Env)
    (henv : DTagEnv env (dTagTable cfg.mclass cfg.solaris)) (d : DynRelocs) (tags : List DynEntry) (nv : Nat)
    (loads : List LoadSeg) (data rest : Bytes) (off : Nat)
    (hd : data.drop off = encDynArray cfg.le cfg.cls (tags ++ [(DT_NULL, nv)]) ++ rest)
    (hfit : off + (tags.length + 1) * (2 * (cfg.cls / 8)) ≤ 2 ^ 63)
    (hwf : ∀ e ∈ tags ++ [(DT_NULL, nv)], WFDyn cfg.cls e = true) (hnn : ∀ e ∈ tags, e.1 ≠ DT_NULL)
    (hdesc : DynDescribes (relCfgOf cfg) d tags = true) (_hd0 : WFDynRelocs d = true) :
    (do let tg ← iterTags env (Spec.elfStructs cfg) data off false
        getRelocationTables (Spec.elfStructs cfg) tg (loads.map toLoad))
      = .ok (specDynTables cfg loads d) ∧
    (specDynTables cfg loads d).map (fun p => (p.1, obsDynTable p.2)) = dynTablesStd (relCfgOf cfg) loads d :=
  dyn_reloc_tables_exact cfg hcls env henv d tags nv loads data rest off hd hfit hwf hnn hdesc

/-- the library's own environment satisfies `DTagEnv` for every configuration (TieC08.dtag_env), so the theorem
    holds of `elfEnv` outright -/
theorem dyn_reloc_tables_exact_elfEnv (cfg : ElfCfg) (hcls : cfg.cls = 32 ∨ cfg.cls = 64)
    (d : DynRelocs) (tags : List DynEntry) (nv : Nat) (loads : List LoadSeg) (data rest : Bytes) (off : Nat)
    (hd : data.drop off = encDynArray cfg.le cfg.cls (tags ++ [(DT_NULL, nv)]) ++ rest)
    (hfit : off + (tags.length + 1) * (2 * (cfg.cls / 8)) ≤ 2 ^ 63)
    (hwf : ∀ e ∈ tags ++ [(DT_NULL, nv)], WFDyn cfg.cls e = true) (hnn : ∀ e ∈ tags, e.1 ≠ DT_NULL)
    (hdesc : DynDescribes (relCfgOf cfg) d tags = true) :
    (do let tg ← iterTags elfEnv (Spec.elfStructs cfg) data off false
        getRelocationTables (Spec.elfStructs cfg) tg (loads.map toLoad))
      = .ok (specDynTables cfg loads d) :=
  (dyn_reloc_tables_exact cfg hcls elfEnv (TieC08.dtag_env _ _) d tags nv loads data rest off hd hfit hwf hnn hdesc).1

/-- address translation: the model's `address_offsets` walk is the standard's `fileOffset` -/
theorem address_offset_eq_std (loads : List LoadSeg) (a : Nat) :
    addressOffset (loads.map toLoad) a = fileOffset loads a :=
  addressOffset_spec loads a

/-! ### `find_relocations_for_section` -/

/-- Exactness of `find_relocations_for_section`: over section headers that are what `descs` describes, the result is
    the standard's `relocSectionFor` — `None` when no SHT_REL/SHT_RELA section is named `.rel<target>`/`.rela<target>`,
    otherwise the first such section, as a table object of its flavour over its `sh_offset`/`sh_size`. -/
theorem find_relocations_exact (cfg : ElfCfg) (hcls : cfg.cls = 32 ∨ cfg.cls = 64) (target : String)
    (hdrs : List Reloc.SecHdr) (descs : List RelSecDesc) (hdesc : AllDescribe (relCfgOf cfg) hdrs descs) :
    match relocSectionFor target descs with
    | none => findRelocations (Spec.elfStructs cfg) target hdrs = .ok none
    | some s => ∃ h ∈ hdrs, ∃ r, s ∈ descs ∧ s.rela = some r ∧ SecDescribes (relCfgOf cfg) h s ∧
        findRelocations (Spec.elfStructs cfg) target hdrs
          = .ok (some (h, specTable cfg (some s.offset) s.size r)) :=
  findRelocations_spec cfg hcls target hdrs descs hdesc

/-- a relocation section of the wrong `sh_entsize` met before any match is the library's ELFError, whatever its name -/
theorem find_relocations_malformed (cfg : ElfCfg) (hcls : cfg.cls = 32 ∨ cfg.cls = 64) (target : String)
    (good : List Reloc.SecHdr) (descs : List RelSecDesc) (bad : Reloc.SecHdr) (rest : List Reloc.SecHdr) (r : Bool)
    (hdesc : AllDescribe (relCfgOf cfg) good descs) (hnone : relocSectionFor target descs = none)
    (hty : bad.shType = .str (if r then "SHT_RELA" else "SHT_REL")) (hent : bad.shEntsize ≠ relEntSize (relCfgOf cfg) r) :
    findRelocations (Spec.elfStructs cfg) target (good ++ bad :: rest) = .error .elfError :=
  findRelocations_malformed cfg hcls target good descs bad rest r hdesc hnone hty hent

/-- End to end, `_read_dwarf_section(section, relocate_dwarf_sections=True)`: the section headers are what `descs`
    describes, the standard's lookup finds the relocation section `s` (flavour `rela`) for the section named `target`,
    the file holds `s`'s table at `s.offset` and — at the symbol table section `s.link` designates — the value-only
    symbol table: the stream the DWARF parser receives is the standard's fold of the relocations over the section
    contents, or ELFRelocationError as soon as one entry must be rejected. -/
theorem read_dwarf_section_relocated (cfg : ElfCfg) (hcls : cfg.cls = 32 ∨ cfg.cls = 64) (env : Env) (a : Arch)
    (hm : (relCfgOf cfg).mips = decide (a = .mips)) (rela : Bool) (es : List RelEntry) (syms : List Nat) (sec : Bytes)
    (target : String) (hdrs : List Reloc.SecHdr) (descs : List RelSecDesc)
    (hdesc : AllDescribe (relCfgOf cfg) hdrs descs)
    (s : RelSecDesc) (hfound : relocSectionFor target descs = some s) (hflav : s.rela = some rela)
    (symtabOf : Nat → Option SymTab) (symtab : SymTab) (hlink : symtabOf s.link = some symtab)
    (data rest rest' : Bytes)
    (hrel : data.drop s.offset = encRelTable (relCfgOf cfg) rela es ++ rest)
    (hsize : s.size = (encRelTable (relCfgOf cfg) rela es).length)
    (hsymtab : data.drop symtab.shOffset = syms.flatMap (rel_encSym cfg.le cfg.cls) ++ rest')
    (hentsz : symtab.shEntsize = symEntSize cfg.cls) (hsizeS : symtab.shSize = syms.length * symEntSize cfg.cls)
    (hfit : s.offset + es.length * relEntSize (relCfgOf cfg) rela ≤ 2 ^ 63)
    (hfitS : symtab.shOffset + syms.length * symEntSize cfg.cls ≤ 2 ^ 63)
    (hwf : WFApply a (relCfgOf cfg) rela syms sec.length es = true) :
    readDwarfSection env (Spec.elfStructs cfg) cfg.le cfg.cls (archString a) data hdrs symtabOf target sec true false
      = match applyStd a (relCfgOf cfg) rela syms sec es with
        | some b => .ok b
        | none => .error .elfRelocError := by
  have hf := find_relocations_exact cfg hcls target hdrs descs hdesc
  rw [hfound] at hf
  obtain ⟨h, _, r, _, hr, hd, hfind⟩ := hf
  have hrr : r = rela := by rw [hflav] at hr; cases hr; rfl
  subst hrr
  have hl : h.shLink = s.link := hd.2.2.2.1
  unfold readDwarfSection
  simp only [hfind, bind, Except.bind, hl, hlink, Bool.false_eq_true, ↓reduceIte]
  rw [hsize]
  exact apply_section_eq_std cfg hcls env a hm r es syms sec symtab data s.offset rest rest' hrel hsymtab hentsz hsizeS
    hfit hfitS hwf

/-! ### the edges of the application domain (fifth wave): what used to be excluded by `WFApplyOne`

  * R_*_NONE.  i386 psABI table 4.9, x86-64 psABI table 4.9, MIPS psABI table 4-?, LoongArch ELF psABI: field "none",
    calculation "none".  The library read and rewrote a word (4 or 8 bytes) at `r_offset`, so an R_*_NONE entry whose
    `r_offset` lies within that many bytes of the section end — or anywhere beyond it; the psABIs attach no meaning to it —
    raised ELFParseError from `get_dwarf_info`.  The type IS in the supported set and the property says every byte
    is unchanged: DEFECT, fixed by fixes/C08-none-no-field.patch (identity recipes return before the read).
  * MIPS64 composites.  MIPS64 ELF object file specification §2.9.1: `r_type`, `r_type2`, `r_type3` are applied in
    sequence, the second with `r_ssym`.  The library checked the sub-fields for R_MIPS_64 only; an entry
    (R_MIPS_32, R_MIPS_SUB, …) or (R_MIPS_NONE, R_MIPS_32, …), REL or RELA, was applied as its first type alone — the
    rest silently skipped, which the property forbids ("rejected … rather than silently skipped"): DEFECT, fixed by
    fixes/C08-mips64-composite-any-type.patch (every composite entry is ELFRelocationError).
  * a field that does not lie inside the section is a malformed object (outside the quantifier): documented boundary,
    the behaviour is `apply_field_outside`. -/

/-- R_*_NONE of every machine that has one, either flavour where the machine has both: whatever `r_offset`, addend,
    symbol value and section (even an empty one), the stream is returned as it was and nothing is read -/
theorem apply_none_any_offset (a : Arch) (c : RelCfg) (hm : c.mips = decide (a = .mips)) (rela : Bool) (sec : Bytes)
    (e : RelEntry) (s : Int) (hf : flavourOk a rela = true)
    (hsingle : c.packed = true → e.type2 = 0 ∧ e.type3 = 0 ∧ e.ssym = 0)
    (w : Nat) (hps : psabi a rela e.type = some (w, .keep)) :
    applyWithSym c.le c.cls (archString a) sec (observeRel c rela e) s = .ok sec := by
  refine applyWithSym_none a c hm rela sec e s hf ?_ hps
  cases hp : c.packed
  · rfl
  · obtain ⟨h2, h3, h4⟩ := hsingle hp
    simp [h2, h3, h4]

/-- MIPS64 (the packed `r_info`): an entry that uses `r_type2`, `r_type3` or `r_ssym` is ELFRelocationError — whatever
    its first type (R_MIPS_NONE, R_MIPS_32, R_MIPS_64 or an unlisted one), REL or RELA, before anything is read -/
theorem apply_rejects_composite (a : Arch) (c : RelCfg) (hm : c.mips = decide (a = .mips)) (rela : Bool) (sec : Bytes)
    (e : RelEntry) (s : Int) (hp : c.packed = true) (h : e.type2 ≠ 0 ∨ e.type3 ≠ 0 ∨ e.ssym ≠ 0) :
    applyWithSym c.le c.cls (archString a) sec (observeRel c rela e) s = .error .elfRelocError :=
  applyWithSym_composite a c hm rela sec e s hp h

/-- boundary: a listed type with a field (not R_*_NONE) whose `w` bytes at `r_offset` do not lie inside the section —
    the read of the field comes up short: ELFParseError, and nothing has been written -/
theorem apply_field_outside (a : Arch) (c : RelCfg) (hm : c.mips = decide (a = .mips)) (rela : Bool) (sec : Bytes)
    (e : RelEntry) (s : Int) (hf : flavourOk a rela = true)
    (hsingle : c.packed = true → e.type2 = 0 ∧ e.type3 = 0 ∧ e.ssym = 0)
    (w : Nat) (fm : Formula) (hps : psabi a rela e.type = some (w, fm)) (hk : fm ≠ .keep)
    (hout : sec.length < e.offset + w) :
    applyWithSym c.le c.cls (archString a) sec (observeRel c rela e) s = .error .elfParseError := by
  refine applyWithSym_field_outside a c hm rela sec e s hf ?_ hps hk hout
  cases hp : c.packed
  · rfl
  · obtain ⟨h2, h3, h4⟩ := hsingle hp
    simp [h2, h3, h4]

/-- the domain of the first four waves (8 bytes of room for R_*_NONE, zero MIPS64 sub-fields unless R_MIPS_64) is inside
    the present one: every theorem above stated with `WFApply` holds with `WFApplyRoom` in its place -/
theorem wfApply_of_room (a : Arch) (c : RelCfg) (rela : Bool) (syms : List Nat) (L : Nat) (es : List RelEntry)
    (h : WFApplyRoom a c rela syms L es = true) : WFApply a c rela syms L es = true :=
  Proofs.Reloc.wfApply_of_room h

/-! ### `get_relocation_tables` at the edges of its domain (fifth wave)

  gABI ch. 5 "Dynamic Section": DT_RELSZ and DT_RELENT are mandatory when DT_REL is present (likewise DT_RELASZ /
  DT_RELAENT with DT_RELA; DT_PLTRELSZ / DT_PLTREL with DT_JMPREL; the RELR proposal: DT_RELRSZ / DT_RELRENT with
  DT_RELR).  An array without them is malformed — outside the property's quantifier ("all relocation tables"), and the
  property prescribes no error for it.  What the library does is a bare `StopIteration` out of `next(iter_tags(..))`:
  DOCUMENTED BOUNDARY (not an `ELFError`; a caller that wraps `get_relocation_tables` in a generator would see the
  generator end silently).  `ts` is the decoded tag list, i.e. what `dyn_tags_roundtrip` shows `_iter_tags` to yield.
  A table at virtual address 0 is NOT an edge any more: fix C09-table-pointer-zero made `get_table_offset` map it like
  any other address, the model follows, and `dyn_reloc_tables_exact` has lost the hypothesis. -/

theorem dyn_rel_no_size (S : ElfStructs) (ts : List (Val × Nat)) (loads : List Load)
    (h1 : tagsOf ts "DT_REL" ≠ []) (h2 : tagsOf ts "DT_RELSZ" = []) :
    getRelocationTables S ts loads = .error .stopIteration :=
  tables_rel_no_size S ts loads h1 h2

theorem dyn_rel_no_ent (cfg : ElfCfg) (hcls : cfg.cls = 32 ∨ cfg.cls = 64) (ts : List (Val × Nat)) (loads : List Load)
    (h1 : tagsOf ts "DT_REL" ≠ []) (h2 : tagsOf ts "DT_RELSZ" ≠ []) (h3 : tagsOf ts "DT_RELENT" = []) :
    getRelocationTables (Spec.elfStructs cfg) ts loads = .error .stopIteration :=
  tables_rel_no_ent cfg hcls ts loads h1 h2 h3

/-- DT_RELENT present but not the entry size of the file's class / machine: the library's ELFError -/
theorem dyn_rel_bad_ent (cfg : ElfCfg) (hcls : cfg.cls = 32 ∨ cfg.cls = 64) (ts : List (Val × Nat)) (loads : List Load)
    (h1 : tagsOf ts "DT_REL" ≠ []) (h2 : tagsOf ts "DT_RELSZ" ≠ []) (e : Nat) (es : List Nat)
    (h3 : tagsOf ts "DT_RELENT" = e :: es) (hne : e ≠ relEntSize (relCfgOf cfg) false) :
    getRelocationTables (Spec.elfStructs cfg) ts loads = .error .elfError :=
  tables_rel_bad_ent cfg hcls ts loads h1 h2 h3 hne

theorem dyn_rela_no_size (S : ElfStructs) (ts : List (Val × Nat)) (loads : List Load)
    (h0 : tagsOf ts "DT_REL" = []) (h1 : tagsOf ts "DT_RELA" ≠ []) (h2 : tagsOf ts "DT_RELASZ" = []) :
    getRelocationTables S ts loads = .error .stopIteration :=
  tables_rela_no_size S ts loads h0 h1 h2

theorem dyn_rela_no_ent (cfg : ElfCfg) (hcls : cfg.cls = 32 ∨ cfg.cls = 64) (ts : List (Val × Nat)) (loads : List Load)
    (h0 : tagsOf ts "DT_REL" = []) (h1 : tagsOf ts "DT_RELA" ≠ []) (h2 : tagsOf ts "DT_RELASZ" ≠ [])
    (h3 : tagsOf ts "DT_RELAENT" = []) :
    getRelocationTables (Spec.elfStructs cfg) ts loads = .error .stopIteration :=
  tables_rela_no_ent cfg hcls ts loads h0 h1 h2 h3

theorem dyn_rela_bad_ent (cfg : ElfCfg) (hcls : cfg.cls = 32 ∨ cfg.cls = 64) (ts : List (Val × Nat)) (loads : List Load)
    (h0 : tagsOf ts "DT_REL" = []) (h1 : tagsOf ts "DT_RELA" ≠ []) (h2 : tagsOf ts "DT_RELASZ" ≠ []) (e : Nat) (es : List Nat)
    (h3 : tagsOf ts "DT_RELAENT" = e :: es) (hne : e ≠ relEntSize (relCfgOf cfg) true) :
    getRelocationTables (Spec.elfStructs cfg) ts loads = .error .elfError :=
  tables_rela_bad_ent cfg hcls ts loads h0 h1 h2 h3 hne

theorem dyn_relr_incomplete (S : ElfStructs) (ts : List (Val × Nat)) (loads : List Load)
    (h0 : tagsOf ts "DT_REL" = []) (h0' : tagsOf ts "DT_RELA" = []) (h1 : tagsOf ts "DT_RELR" ≠ [])
    (h2 : tagsOf ts "DT_RELRSZ" = [] ∨ tagsOf ts "DT_RELRENT" = []) :
    getRelocationTables S ts loads = .error .stopIteration :=
  tables_relr_no_size_or_ent S ts loads h0 h0' h1 h2

theorem dyn_jmprel_incomplete (S : ElfStructs) (ts : List (Val × Nat)) (loads : List Load)
    (h0 : tagsOf ts "DT_REL" = []) (h0' : tagsOf ts "DT_RELA" = []) (h0'' : tagsOf ts "DT_RELR" = [])
    (h1 : tagsOf ts "DT_JMPREL" ≠ [])
    (h2 : tagsOf ts "DT_PLTRELSZ" = [] ∨ tagsOf ts "DT_PLTREL" = []) :
    getRelocationTables S ts loads = .error .stopIteration :=
  tables_jmprel_no_size_or_flavour S ts loads h0 h0' h0'' h1 h2

/-- the same at the level of the file, for one case (the others lift in the same way): a dynamic array anywhere in a
    file that has DT_REL but no DT_RELSZ entry -/
theorem dyn_rel_no_size_file (cfg : ElfCfg) (hcls : cfg.cls = 32 ∨ cfg.cls = 64) (env : Env)
    (henv : DTagEnv env (dTagTable cfg.mclass cfg.solaris)) (tags : List DynEntry) (nv : Nat)
    (loads : List Load) (data rest : Bytes) (off : Nat)
    (hd : data.drop off = encDynArray cfg.le cfg.cls (tags ++ [(DT_NULL, nv)]) ++ rest)
    (hfit : off + (tags.length + 1) * (2 * (cfg.cls / 8)) ≤ 2 ^ 63)
    (hwf : ∀ e ∈ tags ++ [(DT_NULL, nv)], WFDyn cfg.cls e = true) (hnn : ∀ e ∈ tags, e.1 ≠ DT_NULL)
    (h1 : ∃ e ∈ tags, e.1 = DT_REL) (h2 : ∀ e ∈ tags, e.1 ≠ DT_RELSZ) :
    (do let tg ← iterTags env (Spec.elfStructs cfg) data off false
        getRelocationTables (Spec.elfStructs cfg) tg loads) = .error .stopIteration := by
  rw [iterTags_spec cfg hcls env henv tags nv hwf hnn hd hfit]
  show getRelocationTables _ _ _ = _
  apply tables_rel_no_size
  · rw [tagsOf_dec henv (name := "DT_REL") (k := DT_REL) (by simp [relDynTags])]
    obtain ⟨e, he, hk⟩ := h1
    intro hnil
    have : e.2 ∈ dynVals (tags ++ [(DT_NULL, nv)]) DT_REL := by
      unfold dynVals
      exact List.mem_map.2 ⟨e, List.mem_filter.2 ⟨List.mem_append_left _ he, by simp [hk]⟩, rfl⟩
    rw [hnil] at this
    cases this
  · rw [tagsOf_dec henv (name := "DT_RELSZ") (k := DT_RELSZ) (by simp [relDynTags])]
    unfold dynVals
    rw [List.map_eq_nil_iff, List.filter_eq_nil_iff]
    intro e he
    rcases List.mem_append.1 he with h | h
    · simpa using h2 e h
    · simp only [List.mem_singleton] at h
      subst h
      show ¬ ((DT_NULL == DT_RELSZ) = true)
      decide

/-- a table whose address no PT_LOAD maps has `offset = None`: `num_relocations()` answers, `get_relocation(n)` /
    iterating a non-empty table is Python's TypeError (`None + int`); an unmapped RELR table is empty when DT_RELRSZ is
    0 and TypeError otherwise -/
theorem dyn_unmapped_access (env : Env) (data : Bytes) (t : RelocTable) (h : t.offset = none) (n : Nat) :
    getRelocation env data t n = .error .typeError :=
  unmapped_table_access env data t h n

theorem dyn_unmapped_iter (env : Env) (data : Bytes) (t : RelocTable) (h : t.offset = none) (hz : t.entrySize ≠ 0) :
    iterRelocations env data t = if t.size / t.entrySize = 0 then .ok [] else .error .typeError :=
  unmapped_table_iter env data t h hz

theorem dyn_unmapped_relr (env : Env) (data : Bytes) (t : RelrTable) (h : t.offset = none) :
    relrIter env data t = if t.size = 0 then .ok [] else .error .typeError :=
  unmapped_relr_iter env data t h

/-! ### whole files (fifth wave): composition with C01

  `d : Spec.ElfDesc` is an abstract ELF description, `Spec.Layout d bytes` says the byte string carries it (header at
  0, tables and bodies wherever the description puts them — nothing else about `bytes` is constrained), `d.wfZ env`
  is C01's well-formedness (compressed sections admitted).  The reader is the mirror of elffile.py instantiated with
  the standards-side struct factory (`C01.specStructs`, `C01.specMachineClass`; TieC01 proves them equal to what
  /repo builds); nothing is handed to the relocation code that was not decoded from `bytes`.  `EnvRel env` says the
  enum environment names SHT_SYMTAB, SHT_RELA, SHT_REL, SHT_DYNSYM, SHT_RELR as the gABI does (`elfEnv_rel`: the
  library's environment does, for every machine's table). -/

/-- the library's own environment satisfies `EnvRel` -/
theorem elfEnv_rel : EnvRel Model.elfEnv where
  symtab m := by unfold shTypeTable; split <;> rfl
  rela m := by unfold shTypeTable; split <;> rfl
  rel m := by unfold shTypeTable; split <;> rfl
  dynsym m := by unfold shTypeTable; split <;> rfl
  relr m := by unfold shTypeTable; split <;> rfl
  onlyRel m n := (elfEnv_only m n).1
  onlyRela m n := (elfEnv_only m n).2

/-- `ELFFile(BytesIO(bytes)).get_section(i)` for a SHT_REL / SHT_RELA section of any file carrying `d`
    (`relTableAt`: the section's body is the encoding of `es`, followed by anything; `sh_size` is the table's length):
    a RelocationSection of the flavour the type names, whose `num_relocations` / `iter_relocations` /
    `get_relocation(n)` are exactly the encoded entries. -/
theorem file_rel_roundtrip (env : Env) (he : EnvRel env) (d : ElfDesc) (bytes : Bytes)
    (hwf : d.wfZ env = true) (hl : Layout d bytes) (i : Nat) (rela : Bool) (es : List RelEntry)
    (hsec : relTableAt d i rela es = true) (hwfe : ∀ e ∈ es, WFRel (relCfgOf d.cfg) rela e = true) :
    ∃ f t, openElf env C01.specStructs C01.specMachineClass bytes = .ok f ∧ f.data = bytes ∧
      getRelSection env f i = .ok (.rel t) ∧
      t.isRela = rela ∧ t.entrySize = relEntSize (relCfgOf d.cfg) rela ∧
      numRelocations t = .ok es.length ∧
      iterRelocations env bytes t = .ok (es.map (observeRel (relCfgOf d.cfg) rela)) ∧
      ∀ n (h : n < es.length), getRelocation env bytes t n = .ok (observeRel (relCfgOf d.cfg) rela es[n]) := by
  have T := relTableAt_unpack hsec
  obtain ⟨slack, hbody⟩ := T.body
  obtain ⟨hdr, st, X, hopen⟩ := Proofs.C15.file_setup hwf hl (Nat.lt_of_le_of_lt (Nat.zero_le _) T.hi)
  rw [C01.specStructs_eq, C01.specMachineClass_eq]
  obtain ⟨t, hget, -, h1, h2, h3, h4, h5⟩ := fileRel_ok he hwf hl hopen (List.getElem?_eq_getElem T.hi) T.flavour es hwfe
    slack hbody T.size T.fit
  exact ⟨_, t, hopen, rfl, hget, h1, h2, h3, h4, h5⟩

/-- `ELFFile(BytesIO(bytes)).get_section(i)` for a SHT_RELR section of any file carrying `d`: a RelrRelocationSection
    whose relocations are exactly the address sequence the word stream denotes (ELFError for a bitmap before any anchor) -/
theorem file_relr_eq_std (env : Env) (he : EnvRel env) (d : ElfDesc) (bytes : Bytes)
    (hwf : d.wfZ env = true) (hl : Layout d bytes) (i : Nat) (ws : List Nat)
    (hsec : relrAt d i ws = true) (hws : ∀ x ∈ ws, x < 2 ^ d.cls) :
    ∃ f t, openElf env C01.specStructs C01.specMachineClass bytes = .ok f ∧ f.data = bytes ∧
      getRelSection env f i = .ok (.relr t) ∧
      relrIter env bytes t
        = match relrStd (d.cls / 8) none ws with
          | some xs => .ok xs
          | none => .error .elfError := by
  obtain ⟨hi, hraw, ⟨slack, hbody⟩, hsize, hfit⟩ := relrAt_unpack hsec
  obtain ⟨hdr, st, X, hopen⟩ := Proofs.C15.file_setup hwf hl (Nat.lt_of_le_of_lt (Nat.zero_le _) hi)
  rw [C01.specStructs_eq, C01.specMachineClass_eq]
  obtain ⟨t, hget, hit⟩ := fileRelr_ok he hwf hl hopen (List.getElem?_eq_getElem hi) hraw ws hws slack hbody hsize hfit
  exact ⟨_, t, hopen, rfl, hget, hit⟩

/-- `get_section_by_name(name)` on a fresh file object is `get_section` of the last section bearing the name
    (C01.lookup_exact), so `file_rel_roundtrip` / `file_relr_eq_std` hold of the object it returns -/
theorem file_get_section_by_name (env : Env) (d : ElfDesc) (bytes : Bytes) (obs : ElfObs) (f : ElfFile)
    (hwf : d.wfZ env = true) (hl : Layout d bytes) (ho : d.observe env = .ok obs)
    (hf : openElf env C01.specStructs C01.specMachineClass bytes = .ok f) (name : Bytes) :
    getRelSectionByName env f name =
      match d.indexOfName name with
      | none => .ok none
      | some i => (getRelSection env f i).map some := by
  rw [C01.specStructs_eq, C01.specMachineClass_eq] at hf
  exact getRelSectionByName_eq hwf hl ho hf name

/-- `RelocationHandler(ELFFile(BytesIO(bytes))).find_relocations_for_section(<section named target>)` over ALL sections of
    the file: `None` when no SHT_REL / SHT_RELA section of the description is named `.rel<target>` / `.rela<target>`,
    otherwise the first such section — its index and the very object `get_section` reports for it (C01). -/
theorem file_find_relocations_exact (env : Env) (he : EnvRel env) (d : ElfDesc) (bytes : Bytes) (obs : ElfObs) (f : ElfFile)
    (hwf : d.wfZ env = true) (hl : Layout d bytes) (ho : d.observe env = .ok obs)
    (hf : openElf env C01.specStructs C01.specMachineClass bytes = .ok f) (hn : 0 < d.sections.length) (target : Bytes) :
    fileFindRelocations env f target
      = .ok (match relSecByName d target with
             | none => none
             | some r => obs.sections[r]?.map fun s => (r, s)) := by
  rw [C01.specStructs_eq, C01.specMachineClass_eq] at hf
  obtain ⟨hdr, st, X, rfl⟩ := open_fileOf hwf hl hn hf
  rw [fileFind_spec he X target]
  have hlen : obs.sections.length = d.sections.length := (mapM_ok_inv _ _ _ (observe_inv ho).2.1).1
  cases hr : relSecByName d target with
  | none => rfl
  | some r =>
    have hr' : r < d.sections.length := by
      unfold relSecByName at hr
      exact (List.findIdx?_eq_some_iff_findIdx_eq.1 hr).1
    have hr'' : r < obs.sections.length := by omega
    simp only [getSection_obs X ho hr' hr'', Except.map, List.getElem?_eq_getElem hr'', Option.map_some]

/-- lookup by name against the gABI.  `sh_info` of a SHT_REL / SHT_RELA section is the index of the section the
    relocations apply to; the library looks the relocation section up by its conventional NAME instead.  When, among the
    relocation sections of the file, exactly those whose `sh_info` is `t` are named `.rel<target>` / `.rela<target>`
    (`namesFollowInfo`, decidable on the description; true of every object a standard toolchain writes for a section
    whose name is unique), both lookups give the same section.  Outside that — two sections of the same name, each
    with its own relocation section, as COMDAT groups produce — `file_find_relocations_exact` says exactly what is
    returned: the first by name. -/
theorem find_by_name_eq_by_info (d : ElfDesc) (t : Nat) (target : Bytes) (h : namesFollowInfo d t target = true) :
    relSecByName d target = relSecByInfo d t :=
  relSecByName_eq_byInfo d t target h

/-- `h = RelocationHandler(elffile); h.apply_section_relocations(stream, h.find_relocations_for_section(section))` on a
    caller-supplied copy `sec` of the section's bytes, for any file carrying `d`: the relocation section is found by name
    among all sections (`relSecByName`), its entries are decoded from the file, the symbol table is the section its
    `sh_link` designates (`relocPairAt`), the machine is the file header's — the result is the standard's fold of the
    relocations over `sec`, or ELFRelocationError as soon as one entry must be rejected. -/
theorem file_apply_section_eq_std (P : C11.Params) (hS : P.structsFor = C01.specStructs)
    (hM : P.machineClassOf = C01.specMachineClass) (he : EnvRel P.env) (d : ElfDesc) (bytes : Bytes) (obs : ElfObs)
    (hwf : d.wfZ P.env = true) (hl : Layout d bytes) (ho : d.observe P.env = .ok obs)
    (target : Bytes) (r : Nat) (rela : Bool) (es : List RelEntry) (syms : List Nat)
    (hfind : relSecByName d target = some r) (hpair : relocPairAt d r rela es syms = true)
    (m : Val) (hm : obs.header.getField "e_machine" = .ok m) (a : Arch) (harch : P.machineArchOf m = archString a)
    (hmips : (relCfgOf d.cfg).mips = decide (a = .mips))
    (sec : Bytes) (hwfa : WFApply a (relCfgOf d.cfg) rela syms sec.length es = true) :
    ∃ f, openElf P.env P.structsFor P.machineClassOf bytes = .ok f ∧
      fileApplyFor P f target sec
        = match applyStd a (relCfgOf d.cfg) rela syms sec es with
          | some b => .ok (some b)
          | none => .error .elfRelocError := by
  have R := relocPairAt_unpack hpair
  obtain ⟨hdr, st, X, hopen⟩ := Proofs.C15.file_setup hwf hl (Nat.lt_of_le_of_lt (Nat.zero_le _) R.hr)
  have hhdr : obs.header = hdr := by
    have h1 := (observe_inv ho).1
    have h2 := (openElf_fields X.hw X.hL h1 hopen).2.2.2.2
    exact h2.symm
  rw [hS, hM, C01.specStructs_eq, C01.specMachineClass_eq]
  exact ⟨_, hopen, fileApplyFor_spec he X target hfind R (by rw [← hhdr]; exact hm) harch hmips sec hwfa⟩

/-- End to end over a whole file, `ELFFile(BytesIO(bytes))._read_dwarf_section(<section t>, relocate_dwarf_sections=True)`
    (the mirror C11 maintains and checks against `get_dwarf_info`): section `t` stores `sec` plainly (`plainTargetAt`),
    `relSecByName` finds relocation section `r` for its name, `relocPairAt` describes `r`'s table and symbol table.  The
    descriptor handed to the DWARF parsers has the standard's fold of the relocations as its stream, the section's
    name, file offset, size and address — or the load fails with ELFRelocationError as soon as one entry must be
    rejected.  (`hph`: not a dsPIC30F object with phantom bytes, as in C11's theorems.  The trailing `false` is
    `legacy_compressed`, the parameter `_read_dwarf_section` gained with the `.zdebug` repair: section `t` is stored
    plainly, not a legacy `.zdebug_*` section.) -/
theorem file_read_dwarf_section_relocated (P : C11.Params) (hS : P.structsFor = C01.specStructs)
    (hM : P.machineClassOf = C01.specMachineClass) (he : EnvRel P.env) (d : ElfDesc) (bytes : Bytes) (obs : ElfObs)
    (hwf : d.wfZ P.env = true) (hl : Layout d bytes) (ho : d.observe P.env = .ok obs)
    (hph : C11.hasPhantomBytes obs.header = .ok false)
    (t : Nat) (tsd : SecDesc) (htsd : d.sections[t]? = some tsd) (tobs : C11.Sec) (htobs : obs.sections[t]? = some tobs)
    (sec : Bytes) (htgt : plainTargetAt P.env d t sec = true)
    (r : Nat) (rela : Bool) (es : List RelEntry) (syms : List Nat)
    (hfind : relSecByName d tsd.name = some r) (hpair : relocPairAt d r rela es syms = true)
    (m : Val) (hm : obs.header.getField "e_machine" = .ok m) (a : Arch) (harch : P.machineArchOf m = archString a)
    (hmips : (relCfgOf d.cfg).mips = decide (a = .mips))
    (hwfa : WFApply a (relCfgOf d.cfg) rela syms sec.length es = true) :
    ∃ f, C11.load P bytes = .ok (f, obs.sections) ∧
      C11.readDwarfSection P f obs.sections tobs true false
        = match applyStd a (relCfgOf d.cfg) rela syms sec es with
          | some b => .ok ⟨b, tsd.name, getNatD tsd.hdr "sh_offset", sec.length, getNatD tsd.hdr "sh_addr"⟩
          | none => .error (.py .elfRelocError) := by
  have R := relocPairAt_unpack hpair
  have T := plainTargetAt_unpack htgt
  obtain ⟨hti, rfl⟩ := List.getElem?_eq_some_iff.1 htsd
  obtain ⟨hto, rfl⟩ := List.getElem?_eq_some_iff.1 htobs
  obtain ⟨hdr, st, X, hopen⟩ := Proofs.C15.file_setup hwf hl (Nat.lt_of_le_of_lt (Nat.zero_le _) R.hr)
  have hhdr : obs.header = hdr := ((openElf_fields X.hw X.hL (observe_inv ho).1 hopen).2.2.2.2).symm
  have hsecs := sections_gen X.hw hl ho hopen
  refine ⟨_, ?_, readDwarfSection_file he X ho (by rw [← hhdr]; exact hph) T hto hfind R (by rw [← hhdr]; exact hm) harch
    hmips hwfa⟩
  unfold C11.load
  rw [hS, hM, C01.specStructs_eq, C01.specMachineClass_eq, hopen]
  simp only [bind, Except.bind]
  have : iterSections P.env (Proofs.C15.fileOf d bytes hdr st).S (Proofs.C15.fileOf d bytes hdr st).data
      (Proofs.C15.fileOf d bytes hdr st).header (Proofs.C15.fileOf d bytes hdr st).shstr = .ok obs.sections := hsecs
  rw [this]
  rfl

/-- `relocate_dwarf_sections=False`, or no relocation section bears the conventional name: the descriptor's stream is the
    section's bytes as stored in the file, every byte unchanged -/
theorem file_read_dwarf_section_untouched (P : C11.Params) (hS : P.structsFor = C01.specStructs)
    (hM : P.machineClassOf = C01.specMachineClass) (he : EnvRel P.env) (d : ElfDesc) (bytes : Bytes) (obs : ElfObs)
    (hwf : d.wfZ P.env = true) (hl : Layout d bytes) (ho : d.observe P.env = .ok obs)
    (hph : C11.hasPhantomBytes obs.header = .ok false)
    (t : Nat) (tsd : SecDesc) (htsd : d.sections[t]? = some tsd) (tobs : C11.Sec) (htobs : obs.sections[t]? = some tobs)
    (sec : Bytes) (htgt : plainTargetAt P.env d t sec = true) (relocate : Bool)
    (hno : relocate = false ∨ relSecByName d tsd.name = none) :
    ∃ f, C11.load P bytes = .ok (f, obs.sections) ∧
      C11.readDwarfSection P f obs.sections tobs relocate false
        = .ok ⟨sec, tsd.name, getNatD tsd.hdr "sh_offset", sec.length, getNatD tsd.hdr "sh_addr"⟩ := by
  have T := plainTargetAt_unpack htgt
  obtain ⟨hti, rfl⟩ := List.getElem?_eq_some_iff.1 htsd
  obtain ⟨hto, rfl⟩ := List.getElem?_eq_some_iff.1 htobs
  obtain ⟨hdr, st, X, hopen⟩ := Proofs.C15.file_setup hwf hl (Nat.lt_of_le_of_lt (Nat.zero_le _) T.ht)
  have hhdr : obs.header = hdr := ((openElf_fields X.hw X.hL (observe_inv ho).1 hopen).2.2.2.2).symm
  have hsecs := sections_gen X.hw hl ho hopen
  refine ⟨_, ?_, readDwarfSection_file_untouched he X ho (by rw [← hhdr]; exact hph) T hto relocate hno⟩
  unfold C11.load
  rw [hS, hM, C01.specStructs_eq, C01.specMachineClass_eq, hopen]
  simp only [bind, Except.bind]
  have : iterSections P.env (Proofs.C15.fileOf d bytes hdr st).S (Proofs.C15.fileOf d bytes hdr st).data
      (Proofs.C15.fileOf d bytes hdr st).header (Proofs.C15.fileOf d bytes hdr st).shstr = .ok obs.sections := hsecs
  rw [this]
  rfl

/-- the step of `get_dwarf_info(relocate_dwarf_sections=True)`'s per-section loop for one entry `kn` of its name table
    (keyword, section name, renamed-when-.zdebug flag), in a file without `.zdebug_info`: the section is the LAST one
    bearing the name (`indexOfName`, C01.lookup_exact), read and relocated as in `file_read_dwarf_section_relocated` -/
theorem file_get_dwarf_info_section (P : C11.Params) (hS : P.structsFor = C01.specStructs)
    (hM : P.machineClassOf = C01.specMachineClass) (he : EnvRel P.env) (d : ElfDesc) (bytes : Bytes) (obs : ElfObs)
    (hwf : d.wfZ P.env = true) (hl : Layout d bytes) (ho : d.observe P.env = .ok obs)
    (hph : C11.hasPhantomBytes obs.header = .ok false)
    (kn : String × Bytes × Bool) (t : Nat) (tsd : SecDesc) (htsd : d.sections[t]? = some tsd)
    (hidx : d.indexOfName kn.2.1 = some t) (hname : tsd.name = kn.2.1)
    (sec : Bytes) (htgt : plainTargetAt P.env d t sec = true)
    (r : Nat) (rela : Bool) (es : List RelEntry) (syms : List Nat)
    (hfind : relSecByName d kn.2.1 = some r) (hpair : relocPairAt d r rela es syms = true)
    (m : Val) (hm : obs.header.getField "e_machine" = .ok m) (a : Arch) (harch : P.machineArchOf m = archString a)
    (hmips : (relCfgOf d.cfg).mips = decide (a = .mips))
    (hwfa : WFApply a (relCfgOf d.cfg) rela syms sec.length es = true) :
    ∃ f, C11.load P bytes = .ok (f, obs.sections) ∧
      C11.readOne P f obs.sections true false kn
        = match applyStd a (relCfgOf d.cfg) rela syms sec es with
          | some b => .ok (kn.1, some ⟨b, kn.2.1, getNatD tsd.hdr "sh_offset", sec.length, getNatD tsd.hdr "sh_addr"⟩)
          | none => .error (.py .elfRelocError) := by
  have R := relocPairAt_unpack hpair
  have T := plainTargetAt_unpack htgt
  obtain ⟨hti, rfl⟩ := List.getElem?_eq_some_iff.1 htsd
  obtain ⟨hdr, st, X, hopen⟩ := Proofs.C15.file_setup hwf hl (Nat.lt_of_le_of_lt (Nat.zero_le _) R.hr)
  have hhdr : obs.header = hdr := ((openElf_fields X.hw X.hL (observe_inv ho).1 hopen).2.2.2.2).symm
  have hsecs := sections_gen X.hw hl ho hopen
  refine ⟨_, ?_, readOne_file he X ho (by rw [← hhdr]; exact hph) T kn hidx hname hfind R (by rw [← hhdr]; exact hm) harch
    hmips hwfa⟩
  unfold C11.load
  rw [hS, hM, C01.specStructs_eq, C01.specMachineClass_eq, hopen]
  simp only [bind, Except.bind]
  have : iterSections P.env (Proofs.C15.fileOf d bytes hdr st).S (Proofs.C15.fileOf d bytes hdr st).data
      (Proofs.C15.fileOf d bytes hdr st).header (Proofs.C15.fileOf d bytes hdr st).shstr = .ok obs.sections := hsecs
  rw [this]
  rfl

/-! ### non-vacuity -/

example : WFRel ⟨true, 64, true⟩ true { offset := 0x10, sym := 7, type := 18, addend := -8, ssym := 1, type2 := 2, type3 := 3 } = true := by decide
example : WFRel ⟨false, 32, false⟩ false { offset := 0xfffffffc, sym := 0xffffff, type := 0xff } = true := by decide
example : relrStd 8 none [0x1000, 0x7, 0x8000000000000001] = some [0x1000, 0x1008, 0x1010, 0x1008 + 63 * 8 + 62 * 8] := by decide
example : relrStd 4 none [0x3] = none := by decide
example : psabi .x64 true 2 = some (4, .sap) := rfl
example : WFApplyOne .x64 ⟨true, 64, false⟩ true 12 { offset := 8, sym := 1, type := 2, addend := -4 } = true := by decide
example : applyAfterSym .x64 ⟨true, 64, false⟩ true 0 [0, 0, 0, 0, 0xaa, 0xaa, 0xaa, 0xaa, 1, 2, 3, 4]
    { offset := 8, sym := 1, type := 2, addend := -4 } = some [0, 0, 0, 0, 0xaa, 0xaa, 0xaa, 0xaa, 0xf4, 0xff, 0xff, 0xff] := by decide
example : flavourOk .ppc64 false = false := rfl
example : WFApply .x64 ⟨true, 64, false⟩ true [0, 0x1000] 12 [{ offset := 8, sym := 1, type := 2, addend := -4 }] = true := by decide
example : rel_encSym true 64 0x1000 = [0, 0, 0, 0, 0, 0, 0, 0, 0, 0x10, 0, 0, 0, 0, 0, 0, 0, 0, 0, 0, 0, 0, 0, 0] := by decide
-- a dynamic array with DT_NEEDED, a RELA table, DT_FLAGS_1 in between, and PLT relocations of flavour REL
example : DynDescribes ⟨true, 64, false⟩
    { rela := some ⟨0x1000, 48⟩, jmprel := some (⟨0x2000, 32⟩, false) }
    [(1, 1), (DT_PLTREL, 17), (DT_RELASZ, 48), (DT_RELA, 0x1000), (0x6ffffffb, 1), (DT_RELAENT, 24), (DT_JMPREL, 0x2000),
     (DT_PLTRELSZ, 32)] = true := by decide
example : WFDynRelocs { rela := some ⟨0x1000, 48⟩, jmprel := some (⟨0x2000, 32⟩, false) } = true := by decide
example : dynTablesStd ⟨true, 64, false⟩ [⟨0, 0x800, 0⟩, ⟨0x1000, 0x100, 0x800⟩]
    { rela := some ⟨0x1010, 48⟩, jmprel := some (⟨0x2000, 32⟩, false) }
    = [("RELA", .rel (some 0x810) 48 24 true), ("JMPREL", .rel none 32 16 false)] := by decide
example : relocSectionFor ".debug_info"
    [⟨".text", none, 64, 16, 0⟩, ⟨".rela.text", some true, 200, 48, 5⟩, ⟨".rela.debug_info", some true, 248, 24, 5⟩]
    = some ⟨".rela.debug_info", some true, 248, 24, 5⟩ := by decide

/-! non-vacuity, fifth wave -/

-- R_X86_64_NONE at the very end of a 12-byte section and far beyond it; R_386_NONE two bytes before the end: in the domain
example : WFApplyOne .x64 ⟨true, 64, false⟩ true 12 { offset := 12, sym := 0, type := 0, addend := 7 } = true := by decide
example : WFApplyOne .x64 ⟨true, 64, false⟩ true 12 { offset := 0xffffffffffffffff, sym := 0, type := 0 } = true := by decide
example : WFApplyOne .x86 ⟨true, 32, false⟩ false 12 { offset := 10, sym := 0, type := 0 } = true := by decide
example : applyAfterSym .x64 ⟨true, 64, false⟩ true 5 [1, 2, 3] { offset := 2, sym := 0, type := 0 } = some [1, 2, 3] := by decide
-- … and were not in the earlier one
example : WFApplyOneRoom .x64 ⟨true, 64, false⟩ true 12 { offset := 8, sym := 0, type := 0 } = false := by decide
-- MIPS64: (R_MIPS_32, R_MIPS_SUB, 0) and (R_MIPS_NONE, R_MIPS_32, 0) are in the domain, and rejected
example : WFApplyOne .mips ⟨true, 64, true⟩ true 12 { offset := 0, sym := 1, type := 2, type2 := 24, addend := 5 } = true := by decide
example : applyAfterSym .mips ⟨true, 64, true⟩ true 0x1000 [0, 0, 0, 0] { offset := 0, sym := 1, type := 2, type2 := 24 } = none := by decide
example : applyAfterSym .mips ⟨true, 64, true⟩ false 0x1000 [0, 0, 0, 0] { offset := 0, sym := 1, type := 0, type2 := 2 } = none := by decide
example : applyAfterSym .mips ⟨true, 64, true⟩ true 0x1000 [0, 0, 0, 0] { offset := 0, sym := 1, type := 2, addend := 5 }
    = some [5, 0x10, 0, 0] := by decide
-- the hypotheses of `apply_none_any_offset` / `apply_field_outside` / `apply_rejects_composite`
example : flavourOk .x64 true = true ∧ psabi .x64 true 0 = some (0, .keep) ∧ psabi .mips false 0 = some (0, .keep) := by decide
example : psabi .x64 true 2 = some (4, .sap) ∧ Formula.sap ≠ Formula.keep ∧ [1, 2, 3].length < 2 + 4 := by decide
example : (⟨true, 64, true⟩ : RelCfg).packed = true ∧ (⟨true, 32, true⟩ : RelCfg).packed = false := by decide
-- the hypotheses of the `dyn_*` edge theorems: DT_REL without DT_RELSZ; DT_JMPREL with DT_PLTRELSZ but no DT_PLTREL
example : tagsOf [(.str "DT_REL", 0x1000), (.str "DT_RELENT", 8), (.str "DT_NULL", 0)] "DT_REL" ≠ [] ∧
    tagsOf [(.str "DT_REL", 0x1000), (.str "DT_RELENT", 8), (.str "DT_NULL", 0)] "DT_RELSZ" = [] := by decide
example : tagsOf [(.str "DT_JMPREL", 0x1000), (.str "DT_PLTRELSZ", 48), (.int 0x6ffffffb, 1)] "DT_PLTREL" = [] := by decide
example : tagsOf [(.str "DT_REL", 0), (.str "DT_RELSZ", 16), (.str "DT_RELENT", 12)] "DT_RELENT" = [12] ∧
    12 ≠ relEntSize ⟨true, 32, false⟩ false := by decide
-- a table at virtual address 0 (mapped by the first PT_LOAD) is described and found
example : DynDescribes ⟨true, 64, false⟩ { rela := some ⟨0, 48⟩ } [(DT_RELASZ, 48), (DT_RELA, 0), (DT_RELAENT, 24)] = true := by decide
example : dynTablesStd ⟨true, 64, false⟩ [⟨0, 0x800, 0x40⟩] { rela := some ⟨0, 48⟩ } = [("RELA", .rel (some 0x40) 48 24 true)] := by
  decide
-- a whole image: `.debug_info` (section 3) relocated by `.rela.debug_info` (section 4, found by name and by sh_info)
-- against `.symtab` (section 2), and a `.relr.dyn` section (5).  `ElfDesc.wfZ` goes through `Con.encodeRaw` /
-- `Con.decodeRaw`, which do not reduce in the kernel: checked by the evaluator at build time, as in C01 / C14 / C15.
#guard exRelFile.wfZ Model.elfEnv && observable Model.elfEnv exRelFile && (exRelFile.assemble 3).isSome &&
  relTableAt exRelFile 4 true exRelocs && relocPairAt exRelFile 4 true exRelocs exSyms &&
  plainTargetAt Model.elfEnv exRelFile 3 exDebug && relSecByName exRelFile nDebugInfo == some 4 &&
  relSecByInfo exRelFile 3 == some 4 && namesFollowInfo exRelFile 3 nDebugInfo &&
  exRelFile.indexOfName nDebugInfo == some 3 && relrAt exRelFile 5 [0x1000, 0x7, 0x2001] &&
  exRelocs.all (WFRel (relCfgOfDesc exRelFile) true) &&
  WFApply .ppc64 (relCfgOfDesc exRelFile) true exSyms exDebug.length exRelocs &&
  archOfMachine 21 == some .ppc64 && Reloc.machineArchOf (.str "EM_PPC64") == archString .ppc64
example : applyStd .ppc64 ⟨false, 64, false⟩ true exSyms exDebug exRelocs
    = some [0, 0, 0x10, 5, 0, 0, 0x0f, 0xfb, 0xff, 0xff, 0xff, 0xff, 0xff, 0xff, 0xff, 0xef, 17] := by decide
example : relrStd 8 none [0x1000, 0x7, 0x2001] = some [0x1000, 0x1008, 0x1010, 0x1260] := by decide

end PyElf.Props.C08
