/-
  C08 — relocation tables decode exactly; debug-section relocation follows the psABI.

  Property theorems only.  The struct bundle is `Spec.elfStructs cfg` (tied to the
  regenerated bundles by Props/TieC08.lean); `pre`/`rest` are arbitrary surrounding
  bytes (the rest of the file).
-/
import PyElf.Spec.Reloc
import PyElf.Model.Relocation
import PyElf.Proofs.Reloc
import PyElf.Proofs.Relr
import PyElf.Proofs.RelocApply
import PyElf.Proofs.RelocSection
import PyElf.Props.TieC08
namespace PyElf.Props.C08
open PyElf PyElf.Spec PyElf.Model PyElf.Model.Reloc PyElf.Proofs PyElf.Proofs.Reloc

/-! ### REL / RELA tables (sections and dynamic tables share `RelocationTable`) -/

/-- A table of `es` (any length, any field values in range, negative addends, MIPS64 sub-fields) placed anywhere in a
    file: the table object is built, `num_relocations` is the number of entries, `iter_relocations` yields exactly the
    encoded entries and `get_relocation(n)` the n-th one. -/
theorem rel_roundtrip (cfg : ElfCfg) (hcls : cfg.cls = 32 ∨ cfg.cls = 64) (env : Env) (rela : Bool)
    (es : List RelEntry) (hwf : ∀ e ∈ es, WFRel (relCfgOf cfg) rela e = true) (pre rest : Bytes)
    (hfit : pre.length + es.length * relEntSize (relCfgOf cfg) rela ≤ 2 ^ 63) :
    let c := relCfgOf cfg
    let data := pre ++ encRelTable c rela es ++ rest
    ∃ t, mkTable (Spec.elfStructs cfg) (some pre.length) (encRelTable c rela es).length rela = .ok t ∧
      t.isRela = rela ∧ t.entrySize = relEntSize c rela ∧
      numRelocations t = .ok es.length ∧
      iterRelocations env data t = .ok (es.map (observeRel c rela)) ∧
      ∀ n (h : n < es.length), getRelocation env data t n = .ok (observeRel c rela es[n]) := by
  intro c data
  refine ⟨_, mkTable_spec cfg hcls _ _ rela, rfl, rfl, numRelocations_spec cfg hcls rela es _, ?_, ?_⟩
  · exact iterRelocations_spec cfg hcls env rela es hwf (drop_pre pre _ rest) hfit
  · intro n h
    exact getRelocation_spec cfg hcls env rela es hwf (drop_pre pre _ rest) hfit n h

/-- one entry, at any position: every field of the parsed entry is the encoded one (r_info split for ELF32/ELF64,
    the MIPS64 packed layout, the signed addend) and exactly the entry's bytes are consumed -/
theorem rel_entry_roundtrip (cfg : ElfCfg) (hcls : cfg.cls = 32 ∨ cfg.cls = 64) (env : Env) (rela : Bool) (e : RelEntry)
    (hwf : WFRel (relCfgOf cfg) rela e = true) (pre rest : Bytes) :
    structParse env (if rela then (Spec.elfStructs cfg).Elf_Rela else (Spec.elfStructs cfg).Elf_Rel)
        (pre ++ encRel (relCfgOf cfg) rela e ++ rest) pre.length
      = .ok (observeRel (relCfgOf cfg) rela e, pre.length + relEntSize (relCfgOf cfg) rela) :=
  parse_rel_entry cfg hcls env rela e hwf (drop_pre pre _ rest)

/-- `RelocationSection` guard: a section whose sh_entsize is not the entry size is the library's ELFError -/
theorem relsec_entsize_guard (cfg : ElfCfg) (hcls : cfg.cls = 32 ∨ cfg.cls = 64) (rela : Bool)
    (shOffset shSize shEntsize : Nat) (h : shEntsize ≠ relEntSize (relCfgOf cfg) rela) :
    relocSectionInit (Spec.elfStructs cfg) (.str (if rela then "SHT_RELA" else "SHT_REL")) shOffset shSize shEntsize
      = .error .elfError := by
  unfold relocSectionInit
  have hr : (Val.str (if rela then "SHT_RELA" else "SHT_REL") == Val.str "SHT_RELA") = rela := by
    cases rela <;> decide
  rw [hr, mkTable_spec cfg hcls]
  cases rela <;> simp [bind, Except.bind, specTable, h] <;> rfl

/-! ### RELR -/

/-- every RELR stream (any mix of anchors and bitmaps, any bit pattern) expands to exactly the address sequence the
    encoding denotes; a bitmap before any anchor is the library's ELFError -/
theorem relr_eq_std (cfg : ElfCfg) (hcls : cfg.cls = 32 ∨ cfg.cls = 64) (env : Env) (ws : List Nat)
    (hws : ∀ x ∈ ws, x < 2 ^ cfg.cls) (pre rest : Bytes) (hfit : pre.length + ws.length * (cfg.cls / 8) ≤ 2 ^ 63) :
    let w := cfg.cls / 8
    ∃ t, relrInit (Spec.elfStructs cfg) (some pre.length) (encRelr cfg.le w ws).length w = .ok t ∧
      relrIter env (pre ++ encRelr cfg.le w ws ++ rest) t
        = match relrStd w none ws with
          | some xs => .ok xs
          | none => .error .elfError := by
  intro w
  refine ⟨_, relrInit_spec cfg _ _, ?_⟩
  have hw : 1 ≤ w ∧ 8 * w = cfg.cls := by rcases hcls with h | h <;> simp [w, h]
  exact relrIter_spec env cfg.le w hw.1 ws (by rw [hw.2]; exact hws) pre rest hfit

/-- the bit-level core: the shift-until-zero loop over one bitmap word is the standard's bitmap expansion -/
theorem relr_bitmap_eq_std (base w word : Nat) (hw : 1 ≤ w) (h : word < 2 ^ (8 * w)) :
    relrBitmapLoop base w (8 * w) word 0 = .ok (relrBitmap w base word) := by
  have hb := relrBitmapLoop_eq base w (8 * w - 1) word 0 (by rw [show 8 * w - 1 + 1 = 8 * w by omega]; exact h)
  rw [show 8 * w - 1 + 1 = 8 * w by omega] at hb
  rw [hb]; simp [relrBitmap]

/-- RELR entry-size guard -/
theorem relr_entsize_guard (cfg : ElfCfg) (off : Option Nat) (size ent : Nat) (h : ent ≠ cfg.cls / 8) :
    relrInit (Spec.elfStructs cfg) off size ent = .error .elfError := by
  unfold relrInit
  simp [spec_Elf_Relr, st, f, mkFields, conSizeof, fieldsSizeof, bind, Except.bind, pure, Except.pure]
  intro h'; exact absurd h'.symm h

/-! ### recipes against the processor supplements -/

/-- kernel-checked walk: for every (machine, flavour, type) the psABI table lists, the library's recipe dict for that
    machine/flavour has an entry of the psABI's field width whose calc function computes the psABI's formula —
    for all symbol values, addends, places and in-place values (REL: the in-place value is the addend). -/
theorem recipes_match_psabi (a : Arch) (rela : Bool) (t w : Nat) (fm : Formula) (h : psabi a rela t = some (w, fm)) :
    ∃ r fn, recipeGet (recipeTable a rela) (t : Int) = .ok (some r) ∧
      (fm ≠ .keep → r.bytesize = w) ∧ (r.bytesize = 1 ∨ r.bytesize = 2 ∨ r.bytesize = 4 ∨ r.bytesize = 8) ∧
      Gen.relocCalc r.calcName = some fn ∧ (r.hasAddend = true → rela = true) ∧
      ∀ V S P A : Int, fn V S P (if r.hasAddend then A else 0) = fm.eval S (if rela then A else V) P V := by
  obtain ⟨en, hfind, hwd, hcm⟩ := recipe_listed h
  obtain ⟨fn, hfn, himp, hcalc⟩ := calcMatches_sound hcm
  refine ⟨toRecipe en, fn, ?_, ?_, ?_, hfn, himp, hcalc⟩
  · rw [recipeGet_eq, hfind]; rfl
  · intro hk
    simp only [widthOk, hk, ↓reduceIte, Bool.and_eq_true, beq_iff_eq] at hwd
    exact hwd.1
  · unfold widthOk at hwd
    split at hwd
    · simp only [Bool.and_eq_true, Bool.or_eq_true, beq_iff_eq] at hwd
      rcases hwd.2 with h | h <;> simp [toRecipe, h]
    · simp only [Bool.and_eq_true, Bool.or_eq_true, beq_iff_eq] at hwd
      obtain ⟨hb, hw⟩ := hwd
      show en.2.1 = 1 ∨ en.2.1 = 2 ∨ en.2.1 = 4 ∨ en.2.1 = 8
      rw [hb]; rcases hw with ((h | h) | h) | h <;> simp [h]

/-- conversely, a type the psABI table does not list (and that is not the unclaimed R_ARM_CALL) has no recipe -/
theorem recipes_only_psabi (a : Arch) (rela : Bool) (t : Nat) (hf : flavourOk a rela = true)
    (h : psabi a rela t = none) (hu : unclaimed a rela t = false) :
    recipeGet (recipeTable a rela) (t : Int) = .ok none := by
  rw [recipeGet_eq, recipe_unlisted hf h hu]; rfl

/-! ### applying one relocation -/

/-- Model = standard for one relocation once the symbol value is known: the field holds the psABI formula's value
    truncated to the field width in the file's byte order and every other byte is unchanged (`Spec.writeField`);
    R_*_NONE changes nothing; wrong flavour, unlisted type and MIPS64 composite R_MIPS_64 are ELFRelocationError. -/
theorem apply_eq_std (a : Arch) (c : RelCfg) (hm : c.mips = decide (a = .mips)) (rela : Bool) (sec : Bytes)
    (e : RelEntry) (s : Nat) (hwf : WFApplyOne a c rela sec.length e = true) (hlen : sec.length < 2 ^ 63) :
    applyWithSym c.le c.cls (archString a) sec (observeRel c rela e) (s : Int) =
      match applyAfterSym a c rela s sec e with
      | some b => .ok b
      | none => .error .elfRelocError :=
  applyWithSym_eq_std a c hm rela sec e s hwf hlen

/-- frame + value, spelled out: after a successful read–compute–wrap–write the length is unchanged, every byte outside
    `[off, off+w)` is unchanged, and the field decodes (in the file's byte order) to the computed value mod 2^(8w) -/
theorem apply_frame (le : Bool) (w : Nat) (sec : Bytes) (off : Nat) (v : Int) (h : off + w ≤ sec.length) :
    (writeField le w sec off v).length = sec.length ∧
    (writeField le w sec off v).take off = sec.take off ∧
    (writeField le w sec off v).drop (off + w) = sec.drop (off + w) ∧
    readField le w (writeField le w sec off v) off = (v % ((2 ^ (8 * w) : Nat) : Int)).toNat :=
  writeField_frame le w sec off v h

/-
  FULL STATEMENT (whole section, symbol table included):
    for the file `data` containing the table `encRelTable c rela es` at `base` and the symbol table
    `syms.flatMap (rel_encSym cfg.le cfg.cls)` at `symtab.shOffset` with `symtab.shEntsize = symEntSize cfg.cls`,
    `symtab.shSize = syms.length * symEntSize cfg.cls`, and `WFApply a c rela syms sec.length es`:
      applySectionRelocations env (Spec.elfStructs cfg) cfg.le cfg.cls (archString a) data symtab t sec
        = match applyStd a c rela syms sec es with | some b => .ok b | none => .error .elfRelocError
  Proved below with one extra hypothesis `hsym`: parsing symbol `i` with `Elf_Sym` yields `st_value = syms[i]`.
  (`Elf_Sym` is a BitStruct/Enum-bearing struct whose parse depends on `env`; its layout is tied by
  `TieC08.elf_Elf_Sym`, its decoding is the subject of the symbol-table property and is covered here by the
  correspondence harness, which assembles the symbol table with `Spec.rel_encSym`.)
-/
/-- Model = standard for a whole relocation section applied to a debug section: relocations are decoded from the
    table one by one and applied in order; the result is the standard's fold, or ELFRelocationError as soon as one
    entry must be rejected. -/
theorem apply_section_eq_std_partial (cfg : ElfCfg) (hcls : cfg.cls = 32 ∨ cfg.cls = 64) (env : Env) (a : Arch)
    (hm : (relCfgOf cfg).mips = decide (a = .mips)) (rela : Bool) (es : List RelEntry) (syms : List Nat) (sec : Bytes)
    (symtab : SymTab) (pre rest : Bytes)
    (hfit : pre.length + es.length * relEntSize (relCfgOf cfg) rela ≤ 2 ^ 63)
    (hwf : WFApply a (relCfgOf cfg) rela syms sec.length es = true)
    (hent : symtab.shEntsize ≠ 0) (hcount : symtab.shSize / symtab.shEntsize = syms.length)
    (hsym : ∀ i (h : i < syms.length), ∃ symv,
      seekParse env (Spec.elfStructs cfg).Elf_Sym (pre ++ encRelTable (relCfgOf cfg) rela es ++ rest)
        (symtab.shOffset + i * symtab.shEntsize) = .ok symv ∧
      symv.getInt "st_value" = .ok (syms[i] : Int)) :
    applySectionRelocations env (Spec.elfStructs cfg) cfg.le cfg.cls (archString a)
        (pre ++ encRelTable (relCfgOf cfg) rela es ++ rest) symtab
        (specTable cfg (some pre.length) (encRelTable (relCfgOf cfg) rela es).length rela) sec
      = match applyStd a (relCfgOf cfg) rela syms sec es with
        | some b => .ok b
        | none => .error .elfRelocError := by
  simp only [WFApply, Bool.and_eq_true, List.all_eq_true, decide_eq_true_eq] at hwf
  obtain ⟨⟨hes, _⟩, hL⟩ := hwf
  unfold applySectionRelocations
  rw [numRelocations_spec cfg hcls rela es]
  have := applyLoop_eq_std cfg hcls env a hm rela es syms sec.length symtab
    (size := (encRelTable (relCfgOf cfg) rela es).length) (drop_pre pre _ rest) hfit hes hL hent hcount hsym
    es.length 0 sec (by omega) rfl
  rw [List.drop_zero] at this
  simp only [bind, Except.bind]
  exact this

/-- rejections: a symbol index outside the symbol table is ELFRelocationError (before anything is read) -/
theorem apply_rejects_symbol (env : Env) (S : ElfStructs) (le : Bool) (cls : Nat) (arch : String) (data : Bytes)
    (symtab : SymTab) (stream : Bytes) (c : RelCfg) (rela : Bool) (e : RelEntry)
    (hent : symtab.shEntsize ≠ 0) (h : e.sym ≥ symtab.shSize / symtab.shEntsize) :
    doApplyRelocation env S le cls arch data symtab stream (observeRel c rela e) = .error .elfRelocError :=
  doApply_rejects_sym env S le cls arch data symtab stream c rela e hent h

/-- rejections: wrong REL/RELA flavour for the machine -/
theorem apply_rejects_flavour (a : Arch) (c : RelCfg) (hm : c.mips = decide (a = .mips)) (rela : Bool) (sec : Bytes)
    (e : RelEntry) (s : Int) (hf : flavourOk a rela = false) :
    applyWithSym c.le c.cls (archString a) sec (observeRel c rela e) s = .error .elfRelocError := by
  unfold applyWithSym
  rw [chooseRecipe_spec a c rela e hm]
  simp only [hf, Bool.not_false, ↓reduceIte]
  rfl

/-- rejections: a relocation type outside the supported set -/
theorem apply_rejects_type (a : Arch) (c : RelCfg) (hm : c.mips = decide (a = .mips)) (rela : Bool) (sec : Bytes)
    (e : RelEntry) (s : Nat) (hwf : WFApplyOne a c rela sec.length e = true) (hlen : sec.length < 2 ^ 63)
    (h : psabi a rela e.type = none) :
    applyWithSym c.le c.cls (archString a) sec (observeRel c rela e) (s : Int) = .error .elfRelocError := by
  rw [apply_eq_std a c hm rela sec e s hwf hlen]
  have : applyAfterSym a c rela s sec e = none := by
    unfold applyAfterSym
    rw [h]
    split
    · rfl
    · split <;> rfl
  rw [this]

/-- `relocate_dwarf_sections=False`: the section contents are returned untouched, whatever relocation sections exist -/
theorem relocate_false_identity (env : Env) (S : ElfStructs) (le : Bool) (cls : Nat) (arch : String) (data : Bytes)
    (secs : List SecHdr) (symtabOf : Nat → Option SymTab) (name : String) (sectionData : Bytes) :
    readDwarfSection env S le cls arch data secs symtabOf name sectionData false false = .ok sectionData := by
  simp [readDwarfSection, pure, Except.pure]

/-- a section without a `.rel`/`.rela` companion is returned untouched as well -/
theorem relocate_no_relsec_identity (env : Env) (S : ElfStructs) (le : Bool) (cls : Nat) (arch : String) (data : Bytes)
    (secs : List SecHdr) (symtabOf : Nat → Option SymTab) (name : String) (sectionData : Bytes)
    (h : findRelocations S name secs = .ok none) :
    readDwarfSection env S le cls arch data secs symtabOf name sectionData true false = .ok sectionData := by
  simp [readDwarfSection, h, bind, Except.bind, pure, Except.pure]

/-! ### non-vacuity -/

example : WFRel ⟨true, 64, true⟩ true { offset := 0x10, sym := 7, type := 18, addend := -8, ssym := 1, type2 := 2, type3 := 3 } = true := by decide
example : WFRel ⟨false, 32, false⟩ false { offset := 0xfffffffc, sym := 0xffffff, type := 0xff } = true := by decide
example : relrStd 8 none [0x1000, 0x7, 0x8000000000000001] = some [0x1000, 0x1008, 0x1010, 0x1008 + 63 * 8 + 62 * 8] := by decide
example : relrStd 4 none [0x3] = none := by decide
example : psabi .x64 true 2 = some (4, .sap) := rfl
example : WFApplyOne .x64 ⟨true, 64, false⟩ true 12 { offset := 8, sym := 1, type := 2, addend := -4 } = true := by decide
example : applyAfterSym .x64 ⟨true, 64, false⟩ true 0 [0, 0, 0, 0, 0xaa, 0xaa, 0xaa, 0xaa, 1, 2, 3, 4]
    { offset := 8, sym := 1, type := 2, addend := -4 } = some [0, 0, 0, 0, 0xaa, 0xaa, 0xaa, 0xaa, 0xf4, 0xff, 0xff, 0xff] := by decide
example : flavourOk .ppc64 false = false := rfl

end PyElf.Props.C08
