/-
  C12 — DWARF expressions are split into exactly their operations and operands.

  Property theorems only.  Spec side: PyElf/Spec/DwarfExpr.lean (operation table of DWARF 2–5 §7.7.1
  plus the GNU / WebAssembly rows, the assembler `encodeOps`, the prescribed observation `annotate`).
  Model side: PyElf/Model/DwarfExpr.lean (`parse_expr`, the dispatch closures, `read_blob`).
  Tie: PyElf/Props/TieC12.lean (the regenerated dispatch and name tables are the standard's).

  Proved (no hypothesis besides the stated well-formedness):
    * `expr_roundtrip`, `expr_roundtrip_spec`, `reencode_roundtrip`, `expr_concat`, `parse_fuel_sufficient`,
      `every_cfg_has_table`, `names_bijective`, `marker_keys`, `sig_domain`;
    * seventh wave, EXPRESSIONS WHERE THEY OCCUR (C12 × C04): `debug_info_exprs_exact`, `debug_types_exprs_exact` — from
      the bytes of .debug_info / .debug_types / .debug_abbrev of any well-formed forest, every selected attribute
      (DW_FORM_exprloc; block forms before DWARF 4 on exprloc-class names: `Spec.C12.isExprAttr`, or any other
      selection) parses to exactly its operations with the configuration of ITS unit; `parser_cache_independent`,
      `dispatch_key_exact` (the per-structs parser cache: key = (byte order, format, address size, version), no leak
      between units), `block_value_bytes`;
    * operand decoding at the extremes, each inside `expr_roundtrip`'s domain: `unit_dependent_widths`,
      `addr_roundtrip`, `call_ref_roundtrip`, `implicit_pointer_roundtrip`, `implicit_value_roundtrip`,
      `const_type_roundtrip`, `entry_value_roundtrip`, `leb_operand_roundtrip`;
    * truncated expressions: `truncated_expr`, `truncation_exhaustive`, `truncated_expr_every_byte`.
  Correspondence-only (model ↔ code on every run, no theorem): arbitrary / corrupted bytes (unknown opcodes → KeyError,
  DW_OP_WASM_location kinds > 3 → DWARFError, byte flips; stream `raw`); the client-side walk on forests that are NOT
  well formed; CPython's recursion limit on nests deeper than ~300 (the model has no limit).
  DEFECT found in this wave and fixed (fixes/C12-ref-operand-dwarf2.patch): the reference operand of DW_OP_call_ref /
  DW_OP_implicit_pointer / DW_OP_GNU_implicit_pointer was read format-sized in every version; in a DWARF 2 unit it is
  ADDRESS-sized (`Spec.refSize`), as `gcc -O2 -gdwarf-2` emits it on 64-bit targets and binutils / LLVM read it.
-/
import PyElf.Spec.DwarfExpr
import PyElf.Model.DwarfExpr
import PyElf.Gen.Extra_C12
import PyElf.Proofs.DwarfExpr
import PyElf.Proofs.DwarfExprFuel
import PyElf.Props.TieC12
import PyElf.Spec.DwarfExprInfo
import PyElf.Model.DwarfExprInfo
import PyElf.Proofs.DwarfExprInfo
import PyElf.Proofs.DwarfExprTrunc
import PyElf.Props.C04
namespace PyElf.Props.C12
open PyElf PyElf.Spec PyElf.Model PyElf.Proofs

/-- the regenerated tables satisfy what the round-trip proof assumes about dispatch and names -/
theorem gen_tables_ok (c : DwarfCfg) (D : List (Nat × List ArgKind)) (hD : (c, D) ∈ Gen.opDispatch) :
    TablesOk c D Gen.opOpcode2Name := by
  rw [TieC12.sig_table_eq_spec, List.mem_map] at hD
  obtain ⟨c', _, hc'⟩ := hD
  obtain ⟨rfl, rfl⟩ := Prod.mk.inj hc'
  constructor
  · intro op ks h
    rw [opTable_lookup]; exact h
  · intro op s h
    rw [TieC12.opcode2name_eq_spec]
    exact lookup_append_some _ (by rw [opNames_lookup]; exact h)

/-- **Round trip.**  For every configuration (byte order × DWARF32/64 × address size 4/8 × version 2–5) with the
    dispatch table the library builds for it, and every well-formed operation sequence `ops` (any length, every
    opcode of the table, operands anywhere in their ranges, LEB128 operands and block lengths minimal or padded,
    entry-value blocks nested to any depth): parsing the assembled bytes returns exactly `annotate c 0 ops` —
    per operation the opcode, the name, the operand values (signedness and width per the signature) and the byte
    offset (prefix sums of the encoded lengths; a nested block is numbered from 0 again).  In particular the
    model's fuel is never exhausted and no operation is split, merged, dropped or invented. -/
theorem expr_roundtrip (c : DwarfCfg) (D : List (Nat × List ArgKind)) (hD : (c, D) ∈ Gen.opDispatch)
    (ops : List Op) (hwf : WFops c ops = true) :
    parseExpr D Gen.opOpcode2Name (encodeOps c ops) = .ok (annotate c 0 ops) :=
  parseExpr_roundtrip (gen_tables_ok c D hD) ops hwf

/-- the same statement for the Spec's own tables (no regenerated data involved) -/
theorem expr_roundtrip_spec (c : DwarfCfg) (ops : List Op) (hwf : WFops c ops = true) :
    parseExpr (opTable c) opNames (encodeOps c ops) = .ok (annotate c 0 ops) :=
  parseExpr_roundtrip ⟨fun op ks h => by rw [opTable_lookup]; exact h,
                       fun op s h => by rw [opNames_lookup]; exact h⟩ ops hwf

/-- **Re-encoding the parsed result reproduces the input bytes.**  `Spec.reencOps` assembles bytes from the
    parsed list alone (opcodes and operand values; names and offsets are not consulted), always choosing the
    minimal LEB128 form.  For every well-formed sequence whose LEB128 operands and block lengths are minimal
    (the canonical encoding — a padded LEB128 is not recoverable from its value), parsing and re-assembling
    gives back the input. -/
theorem reencode_roundtrip (c : DwarfCfg) (D : List (Nat × List ArgKind)) (hD : (c, D) ∈ Gen.opDispatch)
    (ops : List Op) (hwf : WFops c ops = true) (hmin : opsMinimal c ops = true)
    (fuel : Nat) (hf : (encodeOps c ops).length + 1 ≤ fuel) :
    ∃ parsed, parseExpr D Gen.opOpcode2Name (encodeOps c ops) = .ok parsed
      ∧ reencOps c fuel parsed = some (encodeOps c ops) :=
  ⟨annotate c 0 ops, expr_roundtrip c D hD ops hwf, reencOps_ok c ops hwf hmin fuel 0 hf⟩

/-- **Concatenation / offsets are prefix sums.**  The bytes of a concatenation are the concatenation of the bytes,
    well-formedness is component-wise, and the prescribed observation of `a ++ b` is that of `a` followed by that of
    `b` with every (top-level) offset shifted by the encoded length of `a`. -/
theorem expr_concat (c : DwarfCfg) (a b : List Op) (off : Nat) :
    encodeOps c (a ++ b) = encodeOps c a ++ encodeOps c b
    ∧ WFops c (a ++ b) = (WFops c a && WFops c b)
    ∧ annotate c off (a ++ b) = annotate c off a ++ annotate c (off + (encodeOps c a).length) b :=
  ⟨encodeOps_append c a b, WFops_append c a b, annotate_append c a b off⟩

/-- **Termination.**  Whatever the input bytes (well-formed or not) and whatever the tables, the model's fuel
    `len(expr) + 1` is never exhausted: `outOfFuel` is not a possible outcome, i.e. the model describes the
    terminating Python loop on every input of the correspondence check, not only on well-formed ones. -/
theorem parse_fuel_sufficient (D : List (Nat × List ArgKind)) (N : List (Nat × String)) (expr : Bytes) :
    parseExpr D N expr ≠ .error .outOfFuel :=
  parseExpr_fuel D N expr

/-- every configuration of the property's quantifier has a dispatch table -/
theorem every_cfg_has_table : Gen.opDispatch.map (·.1) = Spec.allDwarfCfgs := by
  rw [TieC12.sig_table_eq_spec, List.map_map]; exact List.map_id _

/-! ### names ↔ opcodes -/

/-- Nat keys (`int.from_bytes(name, 'big')`) of the two range-marker names `DW_OP_lo_user`, `DW_OP_hi_user`
    (they delimit the vendor range, DWARF 5 §7.1; they are not operations).  `marker_keys` ties them to the strings. -/
def markerKeys : List Nat := [5414555469326863032897248650610, 5414555469326861900400272041330]

/-- forward name table with String names and Nat keys side by side (the generator emits both in dict order) -/
def forward : List ((String × Nat) × (Nat × Nat)) := Gen.opName2Opcode.zip Gen.opName2OpcodeK

/-- the operations of the forward name table: everything but the two range markers -/
def operations : List (String × Nat) := (forward.filter fun p => !(markerKeys.contains p.2.1)).map (·.1)
/-- the same, names as Nat keys -/
def operationsK : List (Nat × Nat) := Gen.opName2OpcodeK.filter fun e => !(markerKeys.contains e.1)

/-- the entries removed are exactly the standard's two range markers, and the keyed list is aligned with the
    String list (same length, same opcodes position by position) -/
theorem marker_keys :
    (forward.filter fun p => markerKeys.contains p.2.1).map (·.1) = Spec.opRangeMarkers
    ∧ Gen.opName2OpcodeK.map (·.2) = Gen.opName2Opcode.map (·.2)
    ∧ operations.map (·.2) = operationsK.map (·.2) := by
  refine ⟨?_, ?_, ?_⟩ <;> decide +kernel

/-- **Operation names are in one-to-one correspondence with opcodes**:
    (1) no name occurs twice in the forward table (names compared through their Nat keys);
    (2) on operations, no opcode occurs twice — so name ↦ opcode is injective;
    (3) the reverse table sends every operation's opcode back to its name;
    (4) the reverse table has one entry per opcode and no opcodes other than those of the operations and the
        `DW_OP_hi_user` marker — with (3), it is exactly the inverse of the forward table on operations. -/
theorem names_bijective :
    (Gen.opName2OpcodeK.map (·.1)).Nodup
    ∧ (operationsK.map (·.2)).Nodup
    ∧ (∀ e ∈ operations, Gen.opOpcode2Name.lookup e.2 = some e.1)
    ∧ ((Gen.opOpcode2Name.map (·.1)).Nodup ∧ ∀ e ∈ Gen.opOpcode2Name, e.1 = 0xff ∨ e.1 ∈ operationsK.map (·.2)) := by
  refine ⟨?_, ?_, ?_, ?_, ?_⟩ <;> decide +kernel

/-- the standard gives an operand signature to exactly the operations of the name table
    (every named opcode except the range markers has a parser; nothing else has) -/
theorem sig_domain :
    (∀ e ∈ operationsK, (opSigAbs e.2).isSome = true) ∧ (∀ r ∈ opRows, r.1 ∈ operationsK.map (·.2)) := by
  constructor <;> decide +kernel

/-! ### non-vacuity -/

/-- a concrete expression: address, a depth-3 nest of entry values (DWARF 5 and GNU spellings, one with a padded
    length), a typed constant, a WebAssembly global, an implicit value; 64-bit DWARF, 8-byte addresses, big endian -/
def sample : List Op :=
  [.plain 0x03 [.u 0x1122334455667788],
   .entry 0xa3 2 [.plain 0x50 [], .entry 0xf3 1 [.entry 0xa3 1 [.plain 0x91 [.sleb 2 (-5)]], .plain 0x96 []]],
   .plain 0xa4 [.uleb 1 9, .block1 [0xaa, 0xbb]],
   .plain 0xed [.wasm 3 0 7],
   .plain 0x94 [.u 0x80],
   .plain 0xfa [.u 0xdeadbeef],
   .plain 0x9e [.block 1 [1, 2, 3]]]

example : WFops ⟨false, 64, 8, 5⟩ sample = true := by decide +kernel
example : opsMinimal ⟨false, 64, 8, 5⟩ [.plain 0x10 [.uleb 2 300], .entry 0xa3 1 [.plain 0x91 [.sleb 1 (-5)]]] = true := by
  decide +kernel
example : (encodeOps ⟨false, 64, 8, 5⟩ sample).length = 44 := by decide +kernel
/-- the round trip instantiated: the hypotheses of `expr_roundtrip` are satisfiable for a depth-3 nest -/
example (D : List (Nat × List ArgKind)) (hD : ((⟨false, 64, 8, 5⟩ : DwarfCfg), D) ∈ Gen.opDispatch) :
    parseExpr D Gen.opOpcode2Name (encodeOps ⟨false, 64, 8, 5⟩ sample) = .ok (annotate ⟨false, 64, 8, 5⟩ 0 sample) :=
  expr_roundtrip _ D hD sample (by decide +kernel)
/-- and that configuration does have a table -/
example : (⟨false, 64, 8, 5⟩ : DwarfCfg) ∈ Gen.opDispatch.map (·.1) := by rw [every_cfg_has_table]; simp [allDwarfCfgs]

/-! ### expressions where they occur: C12 × C04 (seventh wave) -/

section Info
open PyElf.Spec.C04 PyElf.Spec.C12 PyElf.Model.C12 PyElf.Proofs.C12

/-- `_init_dispatch_table(DWARFStructs(c))`, as regenerated, looked up by the cache key: the standard's table -/
theorem gen_table_get (c : DwarfCfg) (hc : c ∈ Spec.allDwarfCfgs) : tableGet Gen.opDispatch c = some (opTable c) := by
  rw [TieC12.sig_table_eq_spec]
  exact tableGet_map opTable _ c hc

theorem gen_table_mem (c : DwarfCfg) (hc : c ∈ Spec.allDwarfCfgs) : (c, opTable c) ∈ Gen.opDispatch := by
  rw [TieC12.sig_table_eq_spec]
  exact List.mem_map.2 ⟨c, hc, rfl⟩

/-- `unitRho` (Props/C04) is the resolved-value function `Spec.C12.unitEntries` uses -/
theorem unitEntries_eq (F : Forest) (p : Nat × UnitDesc) (dieOff : Nat) :
    flattenUnit C04.genNames (p.2.cfg F.le) (C04.unitRho F p.2) (C04.unitRho F p.2) dieOff p.2.tree
      = unitEntries C04.genNames F p dieOff := rfl

/--
  debug_info_exprs_exact.  EXPRESSIONS WHERE THEY OCCUR.  For EVERY well-formed forest description `F` (C04's
  `wfForestB`: any number of units of DWARF version 2–5, both formats, address size 4 | 8, either byte order, trees of
  entries with attributes in every form), every selection `sel` of attributes by (name, final form, unit version) —
  `Spec.C12.isExprAttr` is the standard's: DW_FORM_exprloc, and before DWARF 4 the block forms on the attributes of
  class exprloc — such that every selected attribute of every entry carries, as the value the description prescribes
  for it, the encoding IN THE CONFIGURATION OF ITS OWN UNIT of a well-formed operation sequence (`forestExprsOK`,
  decidable; `E c b` names the sequence for the bytes `b`: any well-formed sequence, every opcode, nested blocks to
  any depth), the model of

      for cu in dwarfinfo.iter_CUs():
          parser = parsers.setdefault(id(cu.structs), DWARFExprParser(cu.structs))
          for die in cu.iter_DIEs():
              for attr in die.attributes.values():
                  if sel(attr.name, attr.form, cu['version']): parser.parse_expr(attr.value)

  run on the Spec encoding of `.debug_info` / `.debug_abbrev` (+ the forest's other sections) exactly as the driver
  runs it (C04's `forestDInfo`, the REGENERATED dispatch tables `Gen.opDispatch` and name table) yields, per unit and
  per entry in iteration order, for exactly the selected attributes in order, the attribute's section offset and
  exactly the encoded operations: opcode, name, operand values, byte offsets, nested expressions recursively
  (`annotate` with THAT unit's byte order, format, address size and version).  From the bytes: unit headers,
  abbreviation tables, entries, attribute values are C04's `debug_info_exact`; the operations are `expr_roundtrip`.
  `pc` is the state of the per-structs parser cache BEFORE the walk — anything earlier walks of this or any other
  file may have left (`PCacheOK`: each cached parser is the one built for its key; `[]` is, the walk keeps it):
  the result does not depend on it, i.e. no unit is parsed with another configuration's parser.
-/
theorem debug_info_exprs_exact (F : Forest) (dasz : Nat) (hdasz : dasz = 4 ∨ dasz = 8)
    (hwf : wfForestB C04.genNames F = true)
    (G : Model.C04.UnitCtx → Nat → R DieObs) (hG : ∀ U o, U.cuDieOffset ≤ o → G U o = Model.C04.getCachedDIE U o)
    (sel : Val → Val → Nat → Bool) (E : DwarfCfg → Bytes → List Op)
    (hE : forestExprsOK sel E C04.genNames F = true)
    (pc : PCache) (hpc : PCacheOK Gen.opDispatch pc) :
    ∃ pc', sectionExprs G (C04.forestDInfo F dasz) (C04.genBundles F.le dasz).S0 (some (infoSec F)) false
          Gen.opDispatch Gen.opOpcode2Name sel pc = .ok (expectInfoExprs sel E C04.genNames F, pc')
      ∧ PCacheOK Gen.opDispatch pc' := by
  have hW := Proofs.C04.wfForest_of_B _ F hwf
  simp only [forestExprsOK, Bool.and_eq_true, List.all_eq_true] at hE
  unfold sectionExprs
  rw [(C04.debug_info_exact F dasz hdasz hwf G hG).1]
  have hmem : ∀ p ∈ placeInfo F 0 F.units, p.2.cfg F.le ∈ Spec.allDwarfCfgs := fun p hp =>
    Proofs.C04.wfUnit_cfg_mem (hW.infoHdr p.2 (Proofs.C04.mem_placeInfo F _ _ p hp))
  obtain ⟨pc', h, hpc'⟩ := unitsExprs_ok (C04.forestDInfo F dasz) Gen.opDispatch Gen.opOpcode2Name sel E opTable
    (fun p : Nat × UnitDesc => Proofs.Lookup.cuOf F.le p.1 (infoUnitOf F p.2))
    (fun p => C04.flattenUnitP C04.genNames (p.2.cfg F.le) (C04.unitRho F p.2) (C04.unitRho F p.2) (infoDieOff F p.1 p.2) p.2.tree)
    (fun p => p.2.cfg F.le) (placeInfo F 0 F.units)
    (fun p _ => by
      have h1 : (Proofs.Lookup.cuOf F.le p.1 (infoUnitOf F p.2)).header = Spec.Lookup.unitHdrVal F.le (infoUnitOf F p.2) := rfl
      simp only [unitCfg, h1, Proofs.C04.unitHdrVal_asz, Proofs.C04.unitHdrVal_version, bind, Except.bind, pure, Except.pure]
      rfl)
    (fun p hp => gen_table_get _ (hmem p hp))
    (fun p hp ops hops => expr_roundtrip _ _ (gen_table_mem _ (hmem p hp)) ops hops)
    (fun p hp d hd => by
      have := hE.1 p hp d.1
      rw [← unitEntries_eq, ← C04.flattenUnitP_fst] at this
      exact this (List.mem_map.2 ⟨d, hd, rfl⟩))
    pc hpc
  refine ⟨pc', ?_, hpc'⟩
  simp only [h, bind, Except.bind, pure, Except.pure, expectInfoExprs]
  congr 2
  apply List.map_congr_left
  intro p _
  rw [← unitEntries_eq, ← C04.flattenUnitP_fst, List.map_map]
  rfl

/--
  debug_types_exprs_exact.  The same for the type units of `.debug_types` (`iter_TUs()`).
-/
theorem debug_types_exprs_exact (F : Forest) (dasz : Nat) (hdasz : dasz = 4 ∨ dasz = 8)
    (hwf : wfForestB C04.genNames F = true)
    (G : Model.C04.UnitCtx → Nat → R DieObs) (hG : ∀ U o, U.cuDieOffset ≤ o → G U o = Model.C04.getCachedDIE U o)
    (sel : Val → Val → Nat → Bool) (E : DwarfCfg → Bytes → List Op)
    (hE : forestExprsOK sel E C04.genNames F = true)
    (pc : PCache) (hpc : PCacheOK Gen.opDispatch pc) :
    ∃ pc', sectionExprs G (C04.forestDInfo F dasz) (C04.genBundles F.le dasz).S0 (some (typesSec F)) true
          Gen.opDispatch Gen.opOpcode2Name sel pc = .ok (expectTypesExprs sel E C04.genNames F, pc')
      ∧ PCacheOK Gen.opDispatch pc' := by
  have hW := Proofs.C04.wfForest_of_B _ F hwf
  simp only [forestExprsOK, Bool.and_eq_true, List.all_eq_true] at hE
  unfold sectionExprs
  rw [(C04.debug_types_exact F dasz hdasz hwf G hG).1]
  have hmem : ∀ p ∈ placeTypes F 0 F.tus, p.2.cfg F.le ∈ Spec.allDwarfCfgs := fun p hp =>
    Proofs.C04.wfTU_cfg_mem (hW.typesHdr p.2 (Proofs.C04.mem_placeTypes F _ _ p hp))
  obtain ⟨pc', h, hpc'⟩ := unitsExprs_ok (C04.forestDInfo F dasz) Gen.opDispatch Gen.opOpcode2Name sel E opTable
    (fun p : Nat × UnitDesc => Proofs.C04.tuOf F.le p.1 (tuHeaderOf F p.2) (encTree (p.2.cfg F.le) p.2.tree))
    (fun p => C04.flattenUnitP C04.genNames (p.2.cfg F.le) (C04.unitRho F p.2) (C04.unitRho F p.2) (typesDieOff F p.1 p.2) p.2.tree)
    (fun p => p.2.cfg F.le) (placeTypes F 0 F.tus)
    (fun p _ => by
      have h1 : (Proofs.C04.tuOf F.le p.1 (tuHeaderOf F p.2) (encTree (p.2.cfg F.le) p.2.tree)).header
          = tuHdrVal F.le (tuHeaderOf F p.2) (encTree (p.2.cfg F.le) p.2.tree) := rfl
      simp only [unitCfg, h1, Proofs.C04.tuHdrVal_asz, Proofs.C04.tuHdrVal_version, bind, Except.bind, pure, Except.pure]
      rfl)
    (fun p hp => gen_table_get _ (hmem p hp))
    (fun p hp ops hops => expr_roundtrip _ _ (gen_table_mem _ (hmem p hp)) ops hops)
    (fun p hp d hd => by
      have := hE.2 p hp d.1
      rw [← unitEntries_eq, ← C04.flattenUnitP_fst] at this
      exact this (List.mem_map.2 ⟨d, hd, rfl⟩))
    pc hpc
  refine ⟨pc', ?_, hpc'⟩
  simp only [h, bind, Except.bind, pure, Except.pure, expectTypesExprs]
  congr 2
  apply List.map_congr_left
  intro p _
  rw [← unitEntries_eq, ← C04.flattenUnitP_fst, List.map_map]
  rfl

/--
  parser_cache_independent.  THE CACHE KEY MAKES UNITS INDEPENDENT.  The per-structs parser cache is keyed by the
  identity of the structs object, which `DWARFStructs.__new__` makes a function of (byte order, format, address
  size, version) — the model's key `DwarfCfg`.  From every cache state that can arise (`PCacheOK`: the empty cache
  is one, `getParser` preserves it — whatever sequence of units of whatever files came before), asking for the
  parser of a unit of configuration `c` answers with the dispatch table the constructor builds for `c` — the
  standard's operation table at THAT unit's address size, format and byte order — and never with another
  configuration's; in particular two reachable cache states give the same parser, the one a fresh
  `DWARFExprParser(cu.structs)` would be.
-/
theorem parser_cache_independent (c : DwarfCfg) (hc : c ∈ Spec.allDwarfCfgs) :
    PCacheOK Gen.opDispatch []
    ∧ (∀ pc, PCacheOK Gen.opDispatch pc →
        ∃ pc', getParser Gen.opDispatch pc c = .ok (opTable c, pc') ∧ PCacheOK Gen.opDispatch pc')
    ∧ (∀ pc₁ pc₂, PCacheOK Gen.opDispatch pc₁ → PCacheOK Gen.opDispatch pc₂ →
        (getParser Gen.opDispatch pc₁ c).map (·.1) = (getParser Gen.opDispatch pc₂ c).map (·.1)) := by
  refine ⟨pcacheOK_nil _, fun pc hpc => getParser_ok _ pc hpc c _ (gen_table_get c hc), fun pc₁ pc₂ h₁ h₂ => ?_⟩
  obtain ⟨_, e₁, _⟩ := getParser_ok _ pc₁ h₁ c _ (gen_table_get c hc)
  obtain ⟨_, e₂, _⟩ := getParser_ok _ pc₂ h₂ c _ (gen_table_get c hc)
  rw [e₁, e₂]; rfl

/-- what the key must distinguish: the dispatch tables of two configurations agree exactly when byte order and address
    size agree and the reference operand of DW_OP_call_ref / DW_OP_(GNU_)implicit_pointer has the same width
    (`refSize`: the format from DWARF 3 on, the address size in DWARF 2 — so the VERSION is part of what the key must
    carry, and so is the format) — a cache keyed by less WOULD hand a unit a parser that mis-sizes DW_OP_addr /
    DW_OP_call_ref / fixed-width constants of another unit -/
theorem dispatch_key_exact :
    ∀ a ∈ Spec.allDwarfCfgs, ∀ b ∈ Spec.allDwarfCfgs,
      (opTable a = opTable b ↔ (a.le = b.le ∧ a.asz = b.asz ∧ refSize a = refSize b)) := by decide +kernel

/-- … in particular two units that differ ONLY in their version can need different parsers -/
example : opTable ⟨true, 32, 8, 2⟩ ≠ opTable ⟨true, 32, 8, 3⟩ := by decide +kernel

/-- the prescribed value of an attribute in DW_FORM_exprloc or a block form is its payload, whatever the sections
    (`resolve` leaves a block untouched), and `bytes()` of it is the payload: the hypothesis `forestExprsOK` is
    about the encoded payload bytes of the description's operands (`Operand.blockU` / `Operand.block`) -/
theorem block_value_bytes (c : DwarfCfg) (secs : Sections) (b : Bases) (f : String)
    (hf : f ∈ "DW_FORM_exprloc" :: blockFormNames) (payload : Bytes) :
    resolveD c secs b (.str f) (byteList payload) = byteList payload
    ∧ bytesOf (byteList payload) = some payload
    ∧ exprBytes (byteList payload) = .ok payload := by
  refine ⟨?_, bytesOf_byteList payload, exprBytes_of_bytesOf _ _ (bytesOf_byteList payload)⟩
  simp only [blockFormNames, List.mem_cons, List.not_mem_nil, or_false] at hf
  rcases hf with rfl | rfl | rfl | rfl | rfl <;> rfl

/-! non-vacuity of the composed theorems: three units of DIFFERENT configurations sharing one abbreviation table —
    a DWARF 5 unit (64-bit format, 8-byte addresses) whose DW_AT_location is a DW_FORM_exprloc holding DW_OP_addr (8
    bytes), DW_OP_call_ref (8 bytes), a depth-2 nest of entry values and DW_OP_stack_value, next to a DW_AT_const_value
    block that is NOT an expression; a DWARF 2 unit (32-bit format, 4-byte addresses) whose DW_AT_location (block1)
    and DW_AT_frame_base (block2) hold DW_OP_addr (4 bytes), DW_OP_call_ref (4 bytes), DW_OP_fbreg, an implicit value
    and a GNU implicit pointer; a DWARF 4 unit whose block attributes hold bytes that are no expression and are not
    selected (DWARF 4 expressions are exprloc) -/

def exC1 : DwarfCfg := ⟨true, 64, 8, 5⟩
def exC2 : DwarfCfg := ⟨true, 32, 4, 2⟩
def exOps1 : List Op :=
  [.plain 0x03 [.u 0x1122334455667788], .plain 0x9a [.u 0x0102030405060708],
   .entry 0xa3 1 [.plain 0x50 [], .entry 0xf3 2 [.plain 0x91 [.sleb 1 (-5)]]], .plain 0x9f []]
def exOps2 : List Op := [.plain 0x03 [.u 0x11223344], .plain 0x9a [.u 0xdeadbeef], .plain 0x91 [.sleb 2 (-5)]]
def exOps3 : List Op := [.plain 0x9e [.block 1 [7, 8, 9]], .plain 0xf2 [.u 0x10, .sleb 1 (-1)]]

def exDa : AbbrevDecl := { code := 1, tag := 0x11, children := true, specs := [] }
def exDb : AbbrevDecl :=
  { code := 2, tag := 0x34, children := false, specs := [{ name := 0x02, form := 0x18 }, { name := 0x1c, form := 0x0a }] }
def exDc : AbbrevDecl :=
  { code := 3, tag := 0x34, children := false, specs := [{ name := 0x02, form := 0x0a }, { name := 0x40, form := 0x03 },
                                                        { name := 0x1c, form := 0x0a }] }

def exExprForest : Forest :=
  { le := true,
    tables := [{ decls := [exDa, exDb, exDc] }],
    units := [{ fmt64 := true, version := 5, asz := 8, table := 0,
                tree := .mk { decl := exDa, attrs := [] }
                  [.mk { decl := exDb, attrs := [{ form := 0x18, op := .blockU 1 (encodeOps exC1 exOps1) },
                                                 { form := 0x0a, op := .block [1, 2, 3] }] } [] 1] 1 },
              { fmt64 := false, version := 2, asz := 4, table := 0,
                tree := .mk { decl := exDa, attrs := [] }
                  [.mk { decl := exDc, attrs := [{ form := 0x0a, op := .block (encodeOps exC2 exOps2) },
                                                 { form := 0x03, op := .block (encodeOps exC2 exOps3) },
                                                 { form := 0x0a, op := .block [0xff, 0xff] }] } [] 1] 1 },
              { fmt64 := false, version := 4, asz := 8, table := 0,
                tree := .mk { decl := exDa, attrs := [] }
                  [.mk { decl := exDc, attrs := [{ form := 0x0a, op := .block [0xff] },
                                                 { form := 0x03, op := .block [] },
                                                 { form := 0x0a, op := .block [0xfe] }] } [] 1] 1 }],
    tus := [{ fmt64 := false, version := 4, asz := 4, id8 := 9, typeOff := 23, table := 0,
              tree := .mk { decl := exDa, attrs := [] }
                [.mk { decl := exDb, attrs := [{ form := 0x18, op := .blockU 2 (encodeOps ⟨true, 32, 4, 4⟩ exOps2) },
                                               { form := 0x0a, op := .block [] }] } [] 1] 1 }] }

/-- the abstract syntax of the expression bytes that occur, per configuration -/
def exE : DwarfCfg → Bytes → List Op := tableE [(exC1, exOps1), (exC2, exOps2), (exC2, exOps3), (⟨true, 32, 4, 4⟩, exOps2)]

set_option maxRecDepth 100000 in
theorem exExprForest_wf : wfForestB C04.genNames exExprForest = true := by decide +kernel
set_option maxRecDepth 100000 in
/-- the hypothesis of `debug_info_exprs_exact` with the STANDARD selection `isExprAttr` -/
theorem exExprForest_ok : forestExprsOK isExprAttr exE C04.genNames exExprForest = true := by decide +kernel

set_option maxRecDepth 100000 in
/-- per unit, per entry: (attribute offset, number of top-level operations) of the selected attributes -/
example : (expectInfoExprs isExprAttr exE C04.genNames exExprForest).map (·.map (·.map fun x => (x.1, x.2.length)))
    = [[[], [(26, 4)], []], [[], [(72, 3), (86, 2)], []], [[], [], []]] := by decide +kernel

/-- `debug_info_exprs_exact` / `debug_types_exprs_exact` apply, from the empty cache and from a cache an earlier walk left -/
example := debug_info_exprs_exact exExprForest 8 (Or.inr rfl) exExprForest_wf Model.C04.fetch C04.fetch_agrees
  isExprAttr exE exExprForest_ok [] (pcacheOK_nil _)
example := debug_types_exprs_exact exExprForest 4 (Or.inl rfl) exExprForest_wf Model.C04.getCachedDIE (fun _ _ _ => rfl)
  isExprAttr exE exExprForest_ok [] (pcacheOK_nil _)
/-- chained: the cache the `.debug_info` walk leaves is a legitimate start for the `.debug_types` walk -/
example (pc : PCache) (hpc : PCacheOK Gen.opDispatch pc) :
    ∃ pc' pc'', sectionExprs Model.C04.fetch (C04.forestDInfo exExprForest 8) (C04.genBundles true 8).S0
          (some (infoSec exExprForest)) false Gen.opDispatch Gen.opOpcode2Name isExprAttr pc
            = .ok (expectInfoExprs isExprAttr exE C04.genNames exExprForest, pc')
      ∧ sectionExprs Model.C04.fetch (C04.forestDInfo exExprForest 8) (C04.genBundles true 8).S0
          (some (typesSec exExprForest)) true Gen.opDispatch Gen.opOpcode2Name isExprAttr pc'
            = .ok (expectTypesExprs isExprAttr exE C04.genNames exExprForest, pc'') := by
  obtain ⟨pc', h, h'⟩ := debug_info_exprs_exact exExprForest 8 (Or.inr rfl) exExprForest_wf Model.C04.fetch C04.fetch_agrees
    isExprAttr exE exExprForest_ok pc hpc
  obtain ⟨pc'', h2, _⟩ := debug_types_exprs_exact exExprForest 8 (Or.inr rfl) exExprForest_wf Model.C04.fetch
    C04.fetch_agrees isExprAttr exE exExprForest_ok pc' h'
  exact ⟨pc', pc'', h, h2⟩
example : exC1 ∈ Spec.allDwarfCfgs ∧ exC2 ∈ Spec.allDwarfCfgs := by simp [exC1, exC2, Spec.allDwarfCfgs]
example : opTable exC1 ≠ opTable exC2 := by decide +kernel

end Info

/-! ### operand decoding at the extremes (seventh wave): every case is inside `expr_roundtrip`'s domain -/

/-- widths of the unit-dependent operands in the REGENERATED dispatch tables, for all 32 configurations -/
theorem unit_dependent_widths :
    ∀ e ∈ Gen.opDispatch,
      e.2.lookup 0x03 = some [.u e.1.asz e.1.le]
      ∧ e.2.lookup 0x9a = some [.u (refSize e.1) e.1.le]
      ∧ e.2.lookup 0xa0 = some [.u (refSize e.1) e.1.le, .sleb]
      ∧ e.2.lookup 0xf2 = some [.u (refSize e.1) e.1.le, .sleb]
      ∧ e.2.lookup 0xa1 = some [.uleb] ∧ e.2.lookup 0xa2 = some [.uleb] := by decide +kernel

theorem sig_addr (c : DwarfCfg) : opSig c 0x03 = some [.u c.asz c.le] := rfl
theorem sig_call_ref (c : DwarfCfg) : opSig c 0x9a = some [.u (refSize c) c.le] := rfl
theorem sig_implicit_pointer (c : DwarfCfg) (op : Nat) (h : op = 0xa0 ∨ op = 0xf2) :
    opSig c op = some [.u (refSize c) c.le, .sleb] := by rcases h with rfl | rfl <;> rfl
theorem sig_implicit_value (c : DwarfCfg) : opSig c 0x9e = some [.block] := rfl
theorem sig_const_type (c : DwarfCfg) (op : Nat) (h : op = 0xa4 ∨ op = 0xf4) : opSig c op = some [.uleb, .block1] := by
  rcases h with rfl | rfl <;> rfl
theorem sig_entry_value (c : DwarfCfg) (op : Nat) (h : op = 0xa3 ∨ op = 0xf3) : opSig c op = some [.expr] := by
  rcases h with rfl | rfl <;> rfl
theorem sig_constu (c : DwarfCfg) : opSig c 0x10 = some [.uleb] := rfl
theorem sig_consts (c : DwarfCfg) : opSig c 0x11 = some [.sleb] := rfl

/-- DW_OP_addr: the operand is `address_size` bytes of the unit (4 or 8), any value of that width -/
theorem addr_roundtrip (c : DwarfCfg) (D : List (Nat × List ArgKind)) (hD : (c, D) ∈ Gen.opDispatch)
    (v : Nat) (hv : v < 256 ^ c.asz) :
    (encodeOps c [.plain 0x03 [.u v]]).length = 1 + c.asz
    ∧ parseExpr D Gen.opOpcode2Name (encodeOps c [.plain 0x03 [.u v]]) = .ok [obsRecord 0x03 [.int v] 0] := by
  refine ⟨?_, ?_⟩
  · simp [encodeOps, encodeOp, sig_addr, encArgs, encArg, encNat_length]; omega
  · rw [expr_roundtrip c D hD _ (by simp [WFops, WFop, sig_addr, argsFit, argFit, hv])]
    simp [annotate, obsOp, obsArg]

/-- DW_OP_call_ref: the operand is `refSize` bytes — 4 in the 32-bit and 8 in the 64-bit DWARF format from DWARF 3 on
    (§2.5.1.5), the size of an address in a DWARF 2 unit (the DW_FORM_ref_addr convention every producer and
    consumer follows for this operand) -/
theorem call_ref_roundtrip (c : DwarfCfg) (D : List (Nat × List ArgKind)) (hD : (c, D) ∈ Gen.opDispatch)
    (v : Nat) (hv : v < 256 ^ refSize c) :
    (encodeOps c [.plain 0x9a [.u v]]).length = 1 + refSize c
    ∧ parseExpr D Gen.opOpcode2Name (encodeOps c [.plain 0x9a [.u v]]) = .ok [obsRecord 0x9a [.int v] 0] := by
  refine ⟨?_, ?_⟩
  · simp [encodeOps, encodeOp, sig_call_ref, encArgs, encArg, encNat_length]; omega
  · rw [expr_roundtrip c D hD _ (by simp [WFops, WFop, sig_call_ref, argsFit, argFit, hv])]
    simp [annotate, obsOp, obsArg]

/-- DW_OP_implicit_pointer / DW_OP_GNU_implicit_pointer: a reference of `refSize` bytes (format-sized from DWARF 3 on,
    ADDRESS-sized in a DWARF 2 unit — what `gcc -gdwarf-2` emits), then an SLEB128 of any encoded length `n` (10 bytes
    and more included) -/
theorem implicit_pointer_roundtrip (c : DwarfCfg) (D : List (Nat × List ArgKind)) (hD : (c, D) ∈ Gen.opDispatch)
    (op : Nat) (hop : op = 0xa0 ∨ op = 0xf2) (v : Nat) (hv : v < 256 ^ refSize c) (n : Nat) (s : Int) (hn : 1 ≤ n)
    (hlo : -((2 ^ (7 * n - 1) : Nat) : Int) ≤ s) (hhi : s < ((2 ^ (7 * n - 1) : Nat) : Int)) :
    (encodeOps c [.plain op [.u v, .sleb n s]]).length = 1 + refSize c + n
    ∧ parseExpr D Gen.opOpcode2Name (encodeOps c [.plain op [.u v, .sleb n s]])
        = .ok [obsRecord op [.int v, .int s] 0] := by
  have hs := sig_implicit_pointer c op hop
  refine ⟨?_, ?_⟩
  · simp [encodeOps, encodeOp, hs, encArgs, encArg, encNat_length, encSlebN_length]; omega
  · rw [expr_roundtrip c D hD _ (by simp [WFops, WFop, hs, argsFit, argFit, hv, hn]; exact ⟨by exact_mod_cast hlo, by exact_mod_cast hhi⟩)]
    simp [annotate, obsOp, obsArg]

/-- DW_OP_implicit_value: a block of ANY length — 0, 255, 256, thousands — behind a ULEB128 length of any encoded
    width `n` that can hold it -/
theorem implicit_value_roundtrip (c : DwarfCfg) (D : List (Nat × List ArgKind)) (hD : (c, D) ∈ Gen.opDispatch)
    (n : Nat) (b : Bytes) (hn : 1 ≤ n) (hb : b.length < 2 ^ (7 * n)) :
    (encodeOps c [.plain 0x9e [.block n b]]).length = 1 + n + b.length
    ∧ parseExpr D Gen.opOpcode2Name (encodeOps c [.plain 0x9e [.block n b]]) = .ok [obsRecord 0x9e [obsBytes b] 0] := by
  refine ⟨?_, ?_⟩
  · simp [encodeOps, encodeOp, sig_implicit_value, encArgs, encArg, encUlebN_length]; omega
  · rw [expr_roundtrip c D hD _ (by simp [WFops, WFop, sig_implicit_value, argsFit, argFit, hn, hb])]
    simp [annotate, obsOp, obsArg]

/-- DW_OP_const_type / DW_OP_GNU_const_type: a ULEB128 type reference of any encoded length, then a value block of
    EVERY length a one-byte count can express, 0..255 -/
theorem const_type_roundtrip (c : DwarfCfg) (D : List (Nat × List ArgKind)) (hD : (c, D) ∈ Gen.opDispatch)
    (op : Nat) (hop : op = 0xa4 ∨ op = 0xf4) (n t : Nat) (hn : 1 ≤ n) (ht : t < 2 ^ (7 * n)) (b : Bytes) (hb : b.length ≤ 255) :
    (encodeOps c [.plain op [.uleb n t, .block1 b]]).length = 1 + n + 1 + b.length
    ∧ parseExpr D Gen.opOpcode2Name (encodeOps c [.plain op [.uleb n t, .block1 b]])
        = .ok [obsRecord op [.int t, obsBytes b] 0] := by
  have hs := sig_const_type c op hop
  refine ⟨?_, ?_⟩
  · simp [encodeOps, encodeOp, hs, encArgs, encArg, encUlebN_length]; omega
  · rw [expr_roundtrip c D hD _ (by simp [WFops, WFop, hs, argsFit, argFit, hn, ht]; omega)]
    simp [annotate, obsOp, obsArg]

/-- DW_OP_entry_value / DW_OP_GNU_entry_value: a nested expression of ANY encoded length (0 included), the nested
    operations numbered from 0 -/
theorem entry_value_roundtrip (c : DwarfCfg) (D : List (Nat × List ArgKind)) (hD : (c, D) ∈ Gen.opDispatch)
    (op : Nat) (hop : op = 0xa3 ∨ op = 0xf3) (n : Nat) (body : List Op) (hn : 1 ≤ n)
    (hlen : (encodeOps c body).length < 2 ^ (7 * n)) (hbody : WFops c body = true) :
    (encodeOps c [.entry op n body]).length = 1 + n + (encodeOps c body).length
    ∧ parseExpr D Gen.opOpcode2Name (encodeOps c [.entry op n body])
        = .ok [obsRecord op [.list (annotate c 0 body)] 0] := by
  have hs := sig_entry_value c op hop
  refine ⟨?_, ?_⟩
  · simp [encodeOps, encodeOp, encUlebN_length]; omega
  · rw [expr_roundtrip c D hD _ (by simp [WFops, WFop, hs, hn, hlen, hbody])]
    simp [annotate, obsOp]

/-- LEB128 operands of EVERY encoded length: DW_OP_constu / DW_OP_consts with `n` bytes (minimal or padded; `n = 10`
    carries every 64-bit value and more, Python ints are unbounded) -/
theorem leb_operand_roundtrip (c : DwarfCfg) (D : List (Nat × List ArgKind)) (hD : (c, D) ∈ Gen.opDispatch) (n : Nat)
    (hn : 1 ≤ n) :
    (∀ v : Nat, v < 2 ^ (7 * n) →
      parseExpr D Gen.opOpcode2Name (encodeOps c [.plain 0x10 [.uleb n v]]) = .ok [obsRecord 0x10 [.int v] 0])
    ∧ (∀ s : Int, -((2 ^ (7 * n - 1) : Nat) : Int) ≤ s → s < ((2 ^ (7 * n - 1) : Nat) : Int) →
      parseExpr D Gen.opOpcode2Name (encodeOps c [.plain 0x11 [.sleb n s]]) = .ok [obsRecord 0x11 [.int s] 0]) := by
  refine ⟨fun v hv => ?_, fun s hlo hhi => ?_⟩
  · rw [expr_roundtrip c D hD _ (by simp [WFops, WFop, sig_constu, argsFit, argFit, hn, hv])]
    simp [annotate, obsOp, obsArg]
  · rw [expr_roundtrip c D hD _ (by simp [WFops, WFop, sig_consts, argsFit, argFit, hn]; exact ⟨by exact_mod_cast hlo, by exact_mod_cast hhi⟩)]
    simp [annotate, obsOp, obsArg]

/-! the extremes are inside the domain: blocks of length 0 / 255 / 256 / 300, a 255-byte typed constant, an empty and
    a 200-byte nested expression, 10- and 11-byte LEB128s at the 64-bit boundaries, 4- and 8-byte addresses and offsets -/
example : WFops ⟨true, 32, 4, 2⟩
    [.plain 0x9e [.block 1 []], .plain 0x9e [.block 2 (List.replicate 255 0xab)], .plain 0x9e [.block 2 (List.replicate 256 1)],
     .plain 0x9e [.block 3 (List.replicate 300 0xff)], .plain 0xa4 [.uleb 1 0, .block1 []],
     .plain 0xf4 [.uleb 5 0xffffffff, .block1 (List.replicate 255 0x80)],
     .entry 0xa3 1 [], .entry 0xf3 2 (List.replicate 200 (.plain 0x96 [])),
     .plain 0x10 [.uleb 10 (2 ^ 64 - 1)], .plain 0x10 [.uleb 10 (2 ^ 70 - 1)], .plain 0x10 [.uleb 11 (2 ^ 64)],
     .plain 0x11 [.sleb 10 (-(2 ^ 63))], .plain 0x11 [.sleb 10 (2 ^ 63 - 1)], .plain 0x11 [.sleb 11 (-(2 ^ 69) - 1)],
     .plain 0xa1 [.uleb 10 (2 ^ 64 - 1)],
     .plain 0x03 [.u 0xffffffff], .plain 0x9a [.u 0xffffffff], .plain 0xa0 [.u 0xffffffff, .sleb 10 (-(2 ^ 63))]] = true := by
  decide +kernel
example : WFops ⟨false, 64, 8, 5⟩
    [.plain 0x03 [.u 0xffffffffffffffff], .plain 0x9a [.u 0xffffffffffffffff], .plain 0xf2 [.u 0x100000000, .sleb 1 (-1)]] = true := by
  decide +kernel
/-- … and what is NOT encodable is outside it: a 256-byte typed constant (one-byte count), a 4-byte address in an
    8-byte slot is fine but a 5-byte value in a 4-byte slot is not -/
example : WFops ⟨true, 32, 4, 5⟩ [.plain 0xa4 [.uleb 1 0, .block1 (List.replicate 256 0)]] = false := by decide +kernel
example : WFops ⟨true, 32, 4, 5⟩ [.plain 0x03 [.u 0x100000000]] = false := by decide +kernel
example : (encodeOps ⟨true, 32, 4, 3⟩ [.plain 0x9a [.u 1]]).length = 5 ∧ (encodeOps ⟨true, 64, 4, 3⟩ [.plain 0x9a [.u 1]]).length = 9
    ∧ (encodeOps ⟨true, 32, 8, 5⟩ [.plain 0x03 [.u 1]]).length = 9 := by decide +kernel
/-- the DWARF 2 convention: in a DWARF 2 unit with 8-byte addresses and the 32-bit format the reference of
    DW_OP_GNU_implicit_pointer takes 8 bytes (the bytes `gcc -O2 -gdwarf-2` emits on x86-64: f2 a3 00 00 00 00 00 00 00 00),
    in a DWARF 3+ unit 4 -/
example : encodeOps ⟨true, 32, 8, 2⟩ [.plain 0xf2 [.u 0xa3, .sleb 1 0]] = [0xf2, 0xa3, 0, 0, 0, 0, 0, 0, 0, 0]
    ∧ encodeOps ⟨true, 32, 8, 3⟩ [.plain 0xf2 [.u 0xa3, .sleb 1 0]] = [0xf2, 0xa3, 0, 0, 0, 0]
    ∧ refSize ⟨true, 64, 4, 2⟩ = 4 ∧ refSize ⟨true, 64, 4, 4⟩ = 8 := by decide +kernel

/-! ### truncated expressions (seventh wave) -/

/--
  truncated_expr.  EXACT behaviour on every truncation of a well-formed expression.  `ops = done ++ o :: rest` well
  formed, the encoded bytes cut `j` bytes into the operation `o` (`j < |o|`; by `truncation_exhaustive` every proper
  prefix of the bytes is such a cut, for exactly one split):
   * `j = 0` — the cut falls between two operations: parsing returns exactly the operations before it, `done`,
     annotated as in the uncut expression;
   * `j ≥ 1` — the opcode byte of `o` is there but its operands are not complete (the cut is inside a fixed-width
     constant, inside a LEB128, inside the count or the bytes of a block, inside the length or the body of a nested
     expression at any depth, between two operands): `parse_expr` raises ELFParseError (`struct_parse` / `read_blob`
     reach the end of the stream) — never another exception class, never a shortened or altered operation, and the
     complete operations in front of the cut are not returned.
-/
theorem truncated_expr (c : DwarfCfg) (D : List (Nat × List ArgKind)) (hD : (c, D) ∈ Gen.opDispatch)
    (done : List Op) (o : Op) (rest : List Op) (hwf : WFops c (done ++ o :: rest) = true) (j : Nat)
    (hj : j < (encodeOp c o).length) :
    parseExpr D Gen.opOpcode2Name ((encodeOps c (done ++ o :: rest)).take ((encodeOps c done).length + j))
      = if j = 0 then .ok (annotate c 0 done) else .error .elfParseError := by
  by_cases h0 : j = 0
  · subst h0
    rw [if_pos rfl, Nat.add_zero]
    exact C12T.parseExpr_cut_boundary (gen_tables_ok c D hD) done (o :: rest) hwf
  · rw [if_neg h0]
    exact C12T.parseExpr_cut_inside (gen_tables_ok c D hD) done o rest hwf j (by omega) hj

/-- every proper prefix of an encoded sequence is a cut of `truncated_expr` -/
theorem truncation_exhaustive (c : DwarfCfg) (ops : List Op) (k : Nat) (hk : k < (encodeOps c ops).length) :
    ∃ done o rest j, ops = done ++ o :: rest ∧ k = (encodeOps c done).length + j ∧ j < (encodeOp c o).length :=
  C12T.cut_cases c ops k hk

/-- the two together: EVERY proper prefix (cut at any byte `k`) parses to a prefix of the operations or raises
    ELFParseError -/
theorem truncated_expr_every_byte (c : DwarfCfg) (D : List (Nat × List ArgKind)) (hD : (c, D) ∈ Gen.opDispatch)
    (ops : List Op) (hwf : WFops c ops = true) (k : Nat) (hk : k < (encodeOps c ops).length) :
    (∃ done rest, ops = done ++ rest ∧ k = (encodeOps c done).length
        ∧ parseExpr D Gen.opOpcode2Name ((encodeOps c ops).take k) = .ok (annotate c 0 done))
    ∨ parseExpr D Gen.opOpcode2Name ((encodeOps c ops).take k) = .error .elfParseError := by
  obtain ⟨done, o, rest, j, rfl, rfl, hj⟩ := truncation_exhaustive c ops k hk
  have h := truncated_expr c D hD done o rest hwf j hj
  by_cases h0 : j = 0
  · subst h0
    rw [if_pos rfl] at h
    exact Or.inl ⟨done, o :: rest, rfl, rfl, h⟩
  · rw [if_neg h0] at h
    exact Or.inr h

/-- non-vacuity: `sample` (44 bytes) cut at byte 23 — inside the typed constant, behind the depth-3 nest — and at
    byte 9, between DW_OP_addr and the nest -/
example (D : List (Nat × List ArgKind)) (hD : ((⟨false, 64, 8, 5⟩ : DwarfCfg), D) ∈ Gen.opDispatch) :
    parseExpr D Gen.opOpcode2Name ((encodeOps ⟨false, 64, 8, 5⟩ sample).take 23) = .error .elfParseError := by
  have h := truncated_expr ⟨false, 64, 8, 5⟩ D hD (sample.take 2) (.plain 0xa4 [.uleb 1 9, .block1 [0xaa, 0xbb]]) (sample.drop 3)
    (by decide +kernel) 2 (by decide +kernel)
  have e : (encodeOps ⟨false, 64, 8, 5⟩ (sample.take 2)).length + 2 = 23 := by decide +kernel
  rw [e] at h
  exact h
example (D : List (Nat × List ArgKind)) (hD : ((⟨false, 64, 8, 5⟩ : DwarfCfg), D) ∈ Gen.opDispatch) :
    parseExpr D Gen.opOpcode2Name ((encodeOps ⟨false, 64, 8, 5⟩ sample).take 9)
      = .ok (annotate ⟨false, 64, 8, 5⟩ 0 (sample.take 1)) := by
  have h := truncated_expr ⟨false, 64, 8, 5⟩ D hD (sample.take 1) (sample[1]) (sample.drop 2) (by decide +kernel) 0
    (by decide +kernel)
  have e : (encodeOps ⟨false, 64, 8, 5⟩ (sample.take 1)).length + 0 = 9 := by decide +kernel
  rw [e] at h
  exact h

end PyElf.Props.C12
